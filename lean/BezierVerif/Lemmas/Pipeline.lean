import BezierVerif.Model.Self
import BezierVerif.Lemmas.Lipschitz
import BezierVerif.Lemmas.EvalBary
import Mathlib.Algebra.Order.Field.Basic
import Mathlib.Tactic.Ring
import Mathlib.Tactic.Linarith
import Mathlib.Tactic.Positivity
import Mathlib.Tactic.NormNum
import Mathlib.Algebra.Order.Field.Rat

/-!
# Lemmas/Pipeline — helpers about the intersection pipeline (`Model/Geometric.lean`, `Model/Self.lean`)

Everything is stated for an arbitrary record `Prims K` of primitives; what the proofs need from the
primitives is collected in the contract `PrimsOK`.
-/

namespace BezierVerif.Pipe

open Model

set_option linter.unusedSectionVars false

variable {K : Type} [Field K] [LinearOrder K] [IsStrictOrderedRing K]

/-! ## the unit square -/

/-- the parameter pair lies in the unit square -/
@[reducible] def InSq (p : K × K) : Prop := 0 ≤ p.1 ∧ p.1 ≤ 1 ∧ 0 ≤ p.2 ∧ p.2 ≤ 1

/-- all pairs of a list lie in the unit square -/
@[reducible] def AllSq (l : List (K × K)) : Prop := ∀ p ∈ l, 0 ≤ p.1 ∧ p.1 ≤ 1 ∧ 0 ≤ p.2 ∧ p.2 ≤ 1

theorem allSq_nil : AllSq ([] : List (K × K)) := by intro p hp; cases hp

/-- the contract of the primitives used by the unit-square theorems -/
structure PrimsOK (P : Prims K) : Prop where
  wiggle_unit : ∀ v x, P.wiggle v = some x → 0 ≤ x ∧ x ≤ 1
  inUnit_unit : ∀ v, P.inUnit v = true → 0 ≤ v ∧ v ≤ 1
  parallel_unit : ∀ a b c d l, P.parallelLines a b c d = some l →
    ∀ p ∈ l, 0 ≤ p.1 ∧ p.1 ≤ 1 ∧ 0 ≤ p.2 ∧ p.2 ≤ 1
  locate_unit : ∀ n p s, P.locate n p = .ok (some s) → 0 ≤ s ∧ s ≤ 1

theorem half_eq : (1 / (1 + 1) : K) = 1 / 2 := by norm_num

theorem half_pos : (0 : K) < 1 / (1 + 1) := by rw [half_eq]; positivity

/-! ## `add_intersection` -/

/-- the squared reference norm of `add_intersection` -/
def normSq (G : GeoConsts K) (s t : K) : K :=
  (if s < G.zeroThr then 1 - s else s) * (if s < G.zeroThr then 1 - s else s)
    + (if t < G.zeroThr then 1 - t else t) * (if t < G.zeroThr then 1 - t else t)

/-- `add_intersection` appends the pair, or drops it because of a witness within the relative distance -/
theorem addIntersection_cases (G : GeoConsts K) (s t : K) (acc : List (K × K)) :
    (addIntersection G s t acc = acc ++ [(s, t)] ∧
        ∀ p ∈ acc, ¬ ((s - p.1) * (s - p.1) + (t - p.2) * (t - p.2) < G.ratioSq * normSq G s t)) ∨
    (addIntersection G s t acc = acc ∧
        ∃ p ∈ acc, (s - p.1) * (s - p.1) + (t - p.2) * (t - p.2) < G.ratioSq * normSq G s t) := by
  unfold addIntersection
  cases acc with
  | nil => left; simp
  | cons a l =>
    simp only [List.isEmpty_cons, Bool.false_eq_true, if_false]
    by_cases h : ((a :: l).any fun p =>
        decide ((s - p.1) * (s - p.1) + (t - p.2) * (t - p.2) < G.ratioSq * normSq G s t)) = true
    · right
      refine ⟨?_, ?_⟩
      · unfold normSq at h; rw [if_pos h]
      · rw [List.any_eq_true] at h
        obtain ⟨p, hp, hd⟩ := h
        exact ⟨p, hp, of_decide_eq_true hd⟩
    · left
      refine ⟨?_, ?_⟩
      · unfold normSq at h; rw [if_neg h]
      · intro p hp hlt
        apply h
        rw [List.any_eq_true]
        exact ⟨p, hp, decide_eq_true hlt⟩

theorem addIntersection_mem (G : GeoConsts K) (s t : K) (acc : List (K × K)) :
    ∀ p ∈ addIntersection G s t acc, p ∈ acc ∨ p = (s, t) := by
  intro p hp
  rcases addIntersection_cases G s t acc with ⟨h, _⟩ | ⟨h, _⟩
  · rw [h] at hp
    rcases List.mem_append.mp hp with h1 | h1
    · exact Or.inl h1
    · exact Or.inr (by simpa using h1)
  · rw [h] at hp; exact Or.inl hp

theorem addIntersection_prefix (G : GeoConsts K) (s t : K) (acc : List (K × K)) :
    acc <+: addIntersection G s t acc := by
  rcases addIntersection_cases G s t acc with ⟨h, _⟩ | ⟨h, _⟩
  · rw [h]; exact List.prefix_append _ _
  · rw [h]

theorem addIntersection_sq (G : GeoConsts K) (s t : K) (acc : List (K × K))
    (hs : 0 ≤ s ∧ s ≤ 1) (ht : 0 ≤ t ∧ t ≤ 1) (hacc : AllSq acc) : AllSq (addIntersection G s t acc) := by
  intro p hp
  rcases addIntersection_mem G s t acc p hp with h | h
  · exact hacc p h
  · subst h; exact ⟨hs.1, hs.2, ht.1, ht.2⟩

/-! ## candidates -/

/-- the parameter interval of a candidate is a sub-interval of `[0,1]` -/
def CandOK (c : Cand K) : Prop := 0 ≤ c.sub.start ∧ c.sub.start ≤ c.sub.stop ∧ c.sub.stop ≤ 1

theorem fromShape_sub (P : Prims K) (G : GeoConsts K) (c : Cand K) : (fromShape P G c).sub = c.sub := by
  cases c with
  | lin c e => rfl
  | curve c =>
    unfold fromShape
    dsimp only
    split <;> rfl

theorem fromShape_ok (P : Prims K) (G : GeoConsts K) (c : Cand K) (h : CandOK c) : CandOK (fromShape P G c) := by
  unfold CandOK; rw [fromShape_sub]; exact h

theorem subdivideCand_ok (P : Prims K) (G : GeoConsts K) (c : Cand K) (h : CandOK c) :
    ∀ d ∈ subdivideCand P G c, CandOK d := by
  cases c with
  | lin c e =>
    intro d hd
    simp only [subdivideCand, List.mem_singleton] at hd
    subst hd; exact h
  | curve c =>
    obtain ⟨h0, h1, h2⟩ := h
    simp only [Cand.sub] at h0 h1 h2
    intro d hd
    simp only [subdivideCand, List.mem_cons, List.not_mem_nil, or_false] at hd
    rcases hd with hd | hd <;> subst hd <;> apply fromShape_ok <;>
      simp only [CandOK, Cand.sub, half_eq] <;> refine ⟨?_, ?_, ?_⟩ <;> linarith

/-- a convex combination of two numbers of `[0,1]` -/
theorem convex_unit (s a b : K) (hs : 0 ≤ s ∧ s ≤ 1) (ha : 0 ≤ a ∧ a ≤ 1) (hb : 0 ≤ b ∧ b ≤ 1) :
    0 ≤ (1 - s) * a + s * b ∧ (1 - s) * a + s * b ≤ 1 := by
  have h1 : 0 ≤ 1 - s := by linarith [hs.2]
  constructor
  · exact add_nonneg (mul_nonneg h1 ha.1) (mul_nonneg hs.1 hb.1)
  · nlinarith [mul_le_mul_of_nonneg_left ha.2 h1, mul_le_mul_of_nonneg_left hb.2 hs.1]

theorem CandOK.start_unit {c : Cand K} (h : CandOK c) : 0 ≤ c.sub.start ∧ c.sub.start ≤ 1 :=
  ⟨h.1, le_trans h.2.1 h.2.2⟩

theorem CandOK.stop_unit {c : Cand K} (h : CandOK c) : 0 ≤ c.sub.stop ∧ c.sub.stop ≤ 1 :=
  ⟨le_trans h.1 h.2.1, h.2.2⟩

/-- `endpoint_check` keeps the accumulator inside the unit square -/
theorem endpointCheck_unit (P : Prims K) (G : GeoConsts K) (first second : SubCurve K)
    (nf ns : List K) (s t : K) (acc : List (K × K))
    (h1a : 0 ≤ first.start ∧ first.start ≤ 1) (h1b : 0 ≤ first.stop ∧ first.stop ≤ 1)
    (h2a : 0 ≤ second.start ∧ second.start ≤ 1) (h2b : 0 ≤ second.stop ∧ second.stop ≤ 1)
    (hs : 0 ≤ s ∧ s ≤ 1) (ht : 0 ≤ t ∧ t ≤ 1) (hacc : AllSq acc) :
    AllSq (endpointCheck P G first nf s second ns t acc) := by
  unfold endpointCheck
  split
  · exact addIntersection_sq G _ _ acc (convex_unit s _ _ hs h1a h1b) (convex_unit t _ _ ht h2a h2b) hacc
  · exact hacc

theorem unit_zero : (0 : K) ≤ 0 ∧ (0 : K) ≤ 1 := ⟨le_refl _, zero_le_one⟩
theorem unit_one : (0 : K) ≤ 1 ∧ (1 : K) ≤ 1 := ⟨zero_le_one, le_refl _⟩

/-- `tangent_bbox_intersection` keeps the accumulator inside the unit square -/
theorem tangentBbox_unit (P : Prims K) (G : GeoConsts K) (first second : SubCurve K) (acc : List (K × K))
    (h1a : 0 ≤ first.start ∧ first.start ≤ 1) (h1b : 0 ≤ first.stop ∧ first.stop ≤ 1)
    (h2a : 0 ≤ second.start ∧ second.start ≤ 1) (h2b : 0 ≤ second.stop ∧ second.stop ≤ 1)
    (hacc : AllSq acc) : AllSq (tangentBbox P G first second acc) := by
  unfold tangentBbox
  dsimp only
  apply endpointCheck_unit P G _ _ _ _ _ _ _ h1a h1b h2a h2b unit_one unit_one
  apply endpointCheck_unit P G _ _ _ _ _ _ _ h1a h1b h2a h2b unit_one unit_zero
  apply endpointCheck_unit P G _ _ _ _ _ _ _ h1a h1b h2a h2b unit_zero unit_one
  exact endpointCheck_unit P G _ _ _ _ _ _ _ h1a h1b h2a h2b unit_zero unit_zero hacc

/-- `from_linearized` emits only wiggled values -/
theorem fromLinearized_unit (P : Prims K) (hP : PrimsOK P) (G : GeoConsts K) (o1 o2 : List (List K))
    (c1 : SubCurve K) (e1 : K) (c2 : SubCurve K) (e2 : K) (acc acc' : List (K × K))
    (h : fromLinearized P G o1 o2 c1 e1 c2 e2 acc = .ok acc') (hacc : AllSq acc) : AllSq acc' := by
  unfold fromLinearized at h
  dsimp only at h
  split at h
  · cases h
  · split at h
    · cases h; exact hacc
    · split at h
      · cases h
      · split at h
        · cases h; exact hacc
        · split at h
          · cases h; exact hacc
          · rename_i ws hws _ wt hwt
            cases h
            exact addIntersection_sq G _ _ acc (hP.wiggle_unit _ _ hws) (hP.wiggle_unit _ _ hwt) hacc

/-! ## one candidate pair, one round -/

/-- the box classification used by `intersect_one_round` for a candidate pair -/
def pairBox (P : Prims K) : Cand K → Cand K → BoxKind
  | .lin c1 _, .lin c2 _ => P.bboxIntersect c1.nodes c2.nodes
  | .lin c1 _, .curve c2 => P.bboxLineIntersect c2.nodes (firstNode c1.nodes) (lastNode c1.nodes)
  | .curve c1, .lin c2 _ => P.bboxLineIntersect c1.nodes (firstNode c2.nodes) (lastNode c2.nodes)
  | .curve c1, .curve c2 => P.bboxIntersect c1.nodes c2.nodes

/-- the pairs produced by subdividing both candidates -/
def subdividePairs (P : Prims K) (G : GeoConsts K) (first second : Cand K) : List (Cand K × Cand K) :=
  (subdivideCand P G first).flatMap (fun a => (subdivideCand P G second).map (fun b => (a, b)))

/-- `intersectPair` with the box classification named -/
theorem intersectPair_eq (P : Prims K) (G : GeoConsts K) (o1 o2 : List (List K)) (first second : Cand K)
    (acc : List (K × K)) :
    intersectPair P G o1 o2 first second acc =
      if pairBox P first second = .disjoint then .ok ([], acc)
      else if pairBox P first second = .tangent ∧ !(first.isLin && second.isLin) then
        .ok ([], tangentBbox P G first.sub second.sub acc)
      else
        match first, second with
        | .lin c1 e1, .lin c2 e2 =>
          match fromLinearized P G o1 o2 c1 e1 c2 e2 acc with
          | .error e => .error e
          | .ok acc' => .ok ([], acc')
        | _, _ => .ok (subdividePairs P G first second, acc) := by
  cases first <;> cases second <;> rfl

theorem intersectPair_disjoint (P : Prims K) (G : GeoConsts K) (o1 o2 : List (List K)) (first second : Cand K)
    (acc : List (K × K)) (h : pairBox P first second = .disjoint) :
    intersectPair P G o1 o2 first second acc = .ok ([], acc) := by
  rw [intersectPair_eq, if_pos h]

theorem intersectPair_unit (P : Prims K) (hP : PrimsOK P) (G : GeoConsts K) (o1 o2 : List (List K))
    (first second : Cand K) (acc acc' : List (K × K)) (more : List (Cand K × Cand K))
    (h : intersectPair P G o1 o2 first second acc = .ok (more, acc'))
    (h1 : CandOK first) (h2 : CandOK second) (hacc : AllSq acc) :
    (∀ pr ∈ more, CandOK pr.1 ∧ CandOK pr.2) ∧ AllSq acc' := by
  have hsub : ∀ pr ∈ subdividePairs P G first second, CandOK pr.1 ∧ CandOK pr.2 := by
    intro pr hpr
    simp only [subdividePairs, List.mem_flatMap, List.mem_map] at hpr
    obtain ⟨a, ha, b, hb, rfl⟩ := hpr
    exact ⟨subdivideCand_ok P G first h1 a ha, subdivideCand_ok P G second h2 b hb⟩
  have hnil : ∀ pr ∈ ([] : List (Cand K × Cand K)), CandOK pr.1 ∧ CandOK pr.2 := by
    intro pr hpr; cases hpr
  rw [intersectPair_eq] at h
  split_ifs at h
  · cases h; exact ⟨hnil, hacc⟩
  · cases h
    exact ⟨hnil, tangentBbox_unit P G _ _ acc h1.start_unit h1.stop_unit h2.start_unit h2.stop_unit hacc⟩
  · split at h
    · split at h
      · cases h
      · rename_i acc'' hfl
        cases h
        exact ⟨hnil, fromLinearized_unit P hP G o1 o2 _ _ _ _ acc _ hfl hacc⟩
    · cases h
      exact ⟨hsub, hacc⟩

/-- the fold step of `intersect_one_round` -/
def roundStep (P : Prims K) (G : GeoConsts K) (o1 o2 : List (List K))
    (st : Except Err (List (Cand K × Cand K) × List (K × K))) (pr : Cand K × Cand K) :
    Except Err (List (Cand K × Cand K) × List (K × K)) :=
  match st with
  | .error e => .error e
  | .ok (next, acc) =>
    match intersectPair P G o1 o2 pr.1 pr.2 acc with
    | .error e => .error e
    | .ok (more, acc') => .ok (next ++ more, acc')

theorem intersectOneRound_eq (P : Prims K) (G : GeoConsts K) (o1 o2 : List (List K))
    (cands : List (Cand K × Cand K)) (acc : List (K × K)) :
    intersectOneRound P G o1 o2 cands acc = cands.foldl (roundStep P G o1 o2) (.ok ([], acc)) := rfl

/-- invariant of the state of a round -/
def RoundInv (st : Except Err (List (Cand K × Cand K) × List (K × K))) : Prop :=
  ∀ next acc, st = .ok (next, acc) → (∀ pr ∈ next, CandOK pr.1 ∧ CandOK pr.2) ∧ AllSq acc

theorem roundStep_inv (P : Prims K) (hP : PrimsOK P) (G : GeoConsts K) (o1 o2 : List (List K))
    (st : Except Err (List (Cand K × Cand K) × List (K × K))) (pr : Cand K × Cand K)
    (hst : RoundInv st) (hpr : CandOK pr.1 ∧ CandOK pr.2) : RoundInv (roundStep P G o1 o2 st pr) := by
  intro next acc h
  unfold roundStep at h
  split at h
  · cases h
  · rename_i next0 acc0
    obtain ⟨hn0, ha0⟩ := hst next0 acc0 rfl
    split at h
    · cases h
    · rename_i more acc1 hip
      obtain ⟨hm, ha1⟩ := intersectPair_unit P hP G o1 o2 pr.1 pr.2 acc0 acc1 more hip hpr.1 hpr.2 ha0
      cases h
      refine ⟨?_, ha1⟩
      intro q hq
      rcases List.mem_append.mp hq with hq | hq
      · exact hn0 q hq
      · exact hm q hq

theorem foldl_roundStep_inv (P : Prims K) (hP : PrimsOK P) (G : GeoConsts K) (o1 o2 : List (List K)) :
    ∀ (cands : List (Cand K × Cand K)) (st : Except Err (List (Cand K × Cand K) × List (K × K))),
      (∀ pr ∈ cands, CandOK pr.1 ∧ CandOK pr.2) → RoundInv st →
      RoundInv (cands.foldl (roundStep P G o1 o2) st) := by
  intro cands
  induction cands with
  | nil => intro st _ hst; exact hst
  | cons pr rest ih =>
    intro st hc hst
    rw [List.foldl_cons]
    apply ih
    · intro q hq; exact hc q (List.mem_cons_of_mem _ hq)
    · exact roundStep_inv P hP G o1 o2 st pr hst (hc pr List.mem_cons_self)

/-- one round keeps the candidate invariant and the unit square -/
theorem intersectOneRound_unit (P : Prims K) (hP : PrimsOK P) (G : GeoConsts K) (o1 o2 : List (List K))
    (cands next : List (Cand K × Cand K)) (acc acc' : List (K × K))
    (h : intersectOneRound P G o1 o2 cands acc = .ok (next, acc'))
    (hc : ∀ pr ∈ cands, CandOK pr.1 ∧ CandOK pr.2) (hacc : AllSq acc) :
    (∀ pr ∈ next, CandOK pr.1 ∧ CandOK pr.2) ∧ AllSq acc' := by
  rw [intersectOneRound_eq] at h
  refine foldl_roundStep_inv P hP G o1 o2 cands (.ok ([], acc)) hc ?_ next acc' h
  intro n a hna
  cases hna
  exact ⟨(by intro pr hpr; cases hpr), hacc⟩

theorem pruneCandidates_sub (P : Prims K) (cands : List (Cand K × Cand K)) :
    ∀ pr ∈ pruneCandidates P cands, pr ∈ cands := by
  intro pr hpr
  exact (List.mem_filter.mp hpr).1

theorem pruneCandidates_length (P : Prims K) (cands : List (Cand K × Cand K)) :
    (pruneCandidates P cands).length ≤ cands.length := List.length_filter_le _ _

/-! ## the exits of `all_intersections` -/

theorem checkLines_unit (P : Prims K) (hP : PrimsOK P) (c1 c2 : Cand K) (pts : List (K × K)) (flag : Bool)
    (h : checkLines P c1 c2 = some (pts, flag)) : AllSq pts := by
  unfold checkLines at h
  split at h
  · split at h
    · split at h
      · rename_i s t hseg
        split at h
        · rename_i hin
          cases h
          rw [Bool.and_eq_true] at hin
          intro p hp
          rw [List.mem_singleton] at hp
          subst hp
          exact ⟨(hP.inUnit_unit _ hin.1).1, (hP.inUnit_unit _ hin.1).2,
            (hP.inUnit_unit _ hin.2).1, (hP.inUnit_unit _ hin.2).2⟩
        · cases h; exact allSq_nil
      · split at h
        · cases h; exact allSq_nil
        · rename_i params hpar
          cases h
          exact hP.parallel_unit _ _ _ _ _ hpar
    · cases h
  · cases h

theorem getD_unit (o : Option K) (h : ∀ x, o = some x → 0 ≤ x ∧ x ≤ 1) : 0 ≤ o.getD 0 ∧ o.getD 0 ≤ 1 := by
  cases o with
  | none => exact unit_zero
  | some x => exact h x rfl

theorem pair_sq (a b c d : K) (ha : 0 ≤ a ∧ a ≤ 1) (hb : 0 ≤ b ∧ b ≤ 1) (hc : 0 ≤ c ∧ c ≤ 1) (hd : 0 ≤ d ∧ d ≤ 1) :
    AllSq [(a, b), (c, d)] := by
  intro p hp
  simp only [List.mem_cons, List.not_mem_nil, or_false] at hp
  rcases hp with rfl | rfl
  · exact ⟨ha.1, ha.2, hb.1, hb.2⟩
  · exact ⟨hc.1, hc.2, hd.1, hd.2⟩

theorem coincidentParameters_unit (P : Prims K) (hP : PrimsOK P) (G : GeoConsts K) (n1 n2 : List (List K))
    (params : List (K × K)) (h : coincidentParameters P G n1 n2 = .ok (some params)) : AllSq params := by
  unfold coincidentParameters at h
  dsimp only at h
  split at h
  · cases h
  · cases h
  · rename_i sInit sFinal hsi hsf
    have usi : ∀ x, sInit = some x → 0 ≤ x ∧ x ≤ 1 := fun x hx => hP.locate_unit _ _ x (by rw [hsi, hx])
    have usf : ∀ x, sFinal = some x → 0 ≤ x ∧ x ≤ 1 := fun x hx => hP.locate_unit _ _ x (by rw [hsf, hx])
    split at h
    · split at h
      · cases h
        exact pair_sq _ _ _ _ (usi _ rfl) unit_zero (usf _ rfl) unit_one
      · cases h
    · split at h
      · cases h
      · cases h
      · rename_i tInit tFinal hti htf
        have uti : ∀ x, tInit = some x → 0 ≤ x ∧ x ≤ 1 := fun x hx => hP.locate_unit _ _ x (by rw [hti, hx])
        have utf : ∀ x, tFinal = some x → 0 ≤ x ∧ x ≤ 1 := fun x hx => hP.locate_unit _ _ x (by rw [htf, hx])
        split at h
        · cases h
        · split at h
          · cases h
            exact pair_sq _ _ _ _ unit_zero (uti _ rfl) unit_one (utf _ rfl)
          · cases h
        · split at h
          · cases h
          · have gsf := getD_unit sFinal usf
            have gtf := getD_unit tFinal utf
            rcases sInit with _ | si <;> rcases tInit with _ | ti <;> dsimp only at h <;>
              split_ifs at h <;> cases h
            · exact pair_sq _ _ _ _ gsf unit_one unit_one gtf
            · exact pair_sq _ _ _ _ unit_zero (uti _ rfl) gsf unit_one
            · exact pair_sq _ _ _ _ (usi _ rfl) unit_zero unit_one gtf
            · exact pair_sq _ _ _ _ unit_zero (uti _ rfl) (usi _ rfl) unit_zero

/-! ## the round loop -/

theorem rounds_zero (P : Prims K) (G : GeoConsts K) (n1 n2 : List (List K)) (cands : List (Cand K × Cand K))
    (acc : List (K × K)) : allIntersections.rounds P G n1 n2 0 cands acc = .error .valueError := rfl

/-- the candidate list after the optional pruning -/
def afterPrune (P : Prims K) (G : GeoConsts K) (next : List (Cand K × Cand K)) : List (Cand K × Cand K) :=
  if next.length > G.maxCandidates then pruneCandidates P next else next

theorem rounds_succ (P : Prims K) (G : GeoConsts K) (n1 n2 : List (List K)) (f : ℕ)
    (cands : List (Cand K × Cand K)) (acc : List (K × K)) :
    allIntersections.rounds P G n1 n2 (f + 1) cands acc =
      match intersectOneRound P G n1 n2 cands acc with
      | .error e => .error e
      | .ok (next, acc') =>
        if (afterPrune P G next).length > G.maxCandidates then
          match coincidentParameters P G n1 n2 with
          | .error e => .error e
          | .ok none => .error .notImplemented
          | .ok (some params) => .ok (params, true)
        else if (afterPrune P G next).isEmpty then .ok (acc', false)
        else allIntersections.rounds P G n1 n2 f (afterPrune P G next) acc' := rfl

theorem afterPrune_sub (P : Prims K) (G : GeoConsts K) (next : List (Cand K × Cand K)) :
    ∀ pr ∈ afterPrune P G next, pr ∈ next := by
  intro pr hpr
  unfold afterPrune at hpr
  split at hpr
  · exact pruneCandidates_sub P next pr hpr
  · exact hpr

theorem rounds_unit (P : Prims K) (hP : PrimsOK P) (G : GeoConsts K) (n1 n2 : List (List K)) :
    ∀ (fuel : ℕ) (cands : List (Cand K × Cand K)) (acc : List (K × K)) (pts : List (K × K)) (flag : Bool),
      allIntersections.rounds P G n1 n2 fuel cands acc = .ok (pts, flag) →
      (∀ pr ∈ cands, CandOK pr.1 ∧ CandOK pr.2) → AllSq acc → AllSq pts := by
  intro fuel
  induction fuel with
  | zero => intro cands acc pts flag h; rw [rounds_zero] at h; cases h
  | succ f ih =>
    intro cands acc pts flag h hc hacc
    rw [rounds_succ] at h
    split at h
    · cases h
    · rename_i next acc' hround
      obtain ⟨hn, ha⟩ := intersectOneRound_unit P hP G n1 n2 cands next acc acc' hround hc hacc
      split_ifs at h
      · split at h
        · cases h
        · cases h
        · rename_i params hco
          cases h
          exact coincidentParameters_unit P hP G n1 n2 _ hco
      · cases h; exact ha
      · exact ih _ _ _ _ h (fun pr hpr => hn pr (afterPrune_sub P G next pr hpr)) ha

/-- every exit of `all_intersections` returns parameters of the unit square -/
theorem allIntersections_unit (P : Prims K) (hP : PrimsOK P) (G : GeoConsts K) (n1 n2 : List (List K))
    (pts : List (K × K)) (flag : Bool) (h : allIntersections P G n1 n2 = .ok (pts, flag)) : AllSq pts := by
  unfold allIntersections at h
  dsimp only at h
  split at h
  · rename_i r hcl
    cases h
    exact checkLines_unit P hP _ _ _ _ hcl
  · refine rounds_unit P hP G n1 n2 _ _ _ _ _ h ?_ allSq_nil
    intro pr hpr
    rw [List.mem_singleton] at hpr
    subst hpr
    have h01 : CandOK (Cand.curve ({ nodes := n1, start := 0, stop := 1 } : SubCurve K)) :=
      ⟨le_refl _, zero_le_one, le_refl _⟩
    have h02 : CandOK (Cand.curve ({ nodes := n2, start := 0, stop := 1 } : SubCurve K)) :=
      ⟨le_refl _, zero_le_one, le_refl _⟩
    exact ⟨fromShape_ok P G _ h01, fromShape_ok P G _ h02⟩

/-! ## decision logic of the round loop -/

/-- `true` when each of the next `k` rounds succeeds and leaves a non-empty candidate list within the
    candidate budget (so the loop goes on) -/
def survives (P : Prims K) (G : GeoConsts K) (n1 n2 : List (List K)) :
    ℕ → List (Cand K × Cand K) → List (K × K) → Bool
  | 0, _, _ => true
  | k + 1, cands, acc =>
    match intersectOneRound P G n1 n2 cands acc with
    | .error _ => false
    | .ok (next, acc') =>
      decide ((afterPrune P G next).length ≤ G.maxCandidates) && !(afterPrune P G next).isEmpty
        && survives P G n1 n2 k (afterPrune P G next) acc'

theorem rounds_of_survives (P : Prims K) (G : GeoConsts K) (n1 n2 : List (List K)) :
    ∀ (fuel : ℕ) (cands : List (Cand K × Cand K)) (acc : List (K × K)),
      survives P G n1 n2 fuel cands acc = true →
      allIntersections.rounds P G n1 n2 fuel cands acc = .error .valueError := by
  intro fuel
  induction fuel with
  | zero => intro cands acc _; rfl
  | succ f ih =>
    intro cands acc h
    rw [rounds_succ]
    unfold survives at h
    split at h
    · cases h
    · rename_i next acc' hround
      simp only [Bool.and_eq_true, decide_eq_true_eq, Bool.not_eq_eq_eq_not, Bool.not_true] at h
      obtain ⟨⟨h1, h2⟩, h3⟩ := h
      rw [if_neg (by omega), if_neg (by rw [h2]; exact Bool.false_ne_true)]
      exact ih _ _ h3

theorem rounds_too_many (P : Prims K) (G : GeoConsts K) (n1 n2 : List (List K)) (f : ℕ)
    (cands next : List (Cand K × Cand K)) (acc acc' : List (K × K))
    (hround : intersectOneRound P G n1 n2 cands acc = .ok (next, acc'))
    (hmany : G.maxCandidates < (pruneCandidates P next).length) :
    allIntersections.rounds P G n1 n2 (f + 1) cands acc =
      match coincidentParameters P G n1 n2 with
      | .error e => .error e
      | .ok none => .error .notImplemented
      | .ok (some params) => .ok (params, true) := by
  have hlen := pruneCandidates_length P next
  have hap : afterPrune P G next = pruneCandidates P next := by
    unfold afterPrune; rw [if_pos (by omega)]
  rw [rounds_succ, hround]
  dsimp only
  rw [hap, if_pos hmany]

theorem intersectOneRound_single (P : Prims K) (G : GeoConsts K) (n1 n2 : List (List K)) (c1 c2 : Cand K)
    (acc : List (K × K)) :
    intersectOneRound P G n1 n2 [(c1, c2)] acc =
      match intersectPair P G n1 n2 c1 c2 acc with
      | .error e => .error e
      | .ok (more, acc') => .ok ([] ++ more, acc') := rfl

theorem rounds_disjoint (P : Prims K) (G : GeoConsts K) (n1 n2 : List (List K)) (f : ℕ) (c1 c2 : Cand K)
    (h : pairBox P c1 c2 = .disjoint) :
    allIntersections.rounds P G n1 n2 (f + 1) [(c1, c2)] [] = .ok ([], false) := by
  rw [rounds_succ, intersectOneRound_single, intersectPair_disjoint P G n1 n2 c1 c2 [] h]
  simp [afterPrune]

/-- a pair at max-norm distance `≥ d` with `d² ≥ 2·ratioSq` is outside the merging radius -/
theorem normSq_le_two (G : GeoConsts K) (s t : K) (hs : 0 ≤ s ∧ s ≤ 1) (ht : 0 ≤ t ∧ t ≤ 1) :
    normSq G s t ≤ 2 := by
  have key : ∀ x : K, 0 ≤ x ∧ x ≤ 1 →
      (if x < G.zeroThr then 1 - x else x) * (if x < G.zeroThr then 1 - x else x) ≤ 1 := by
    intro x hx
    split <;> nlinarith [hx.1, hx.2]
  unfold normSq
  linarith [key s hs, key t ht]

/-! ## a concrete family of primitives over `ℚ` (non-vacuity) -/

/-- primitives with constant box answer `box`, linearisation error `0` for lines and `err` otherwise,
    a fixed segment intersection `(½, ½)`, the identity as Newton refinement, clamping `wiggle` -/
def stubPrims (box : BoxKind) (err : ℚ) : Prims ℚ where
  bboxIntersect _ _ := box
  bboxLineIntersect _ _ _ := box
  linErrSq nodes := if ncols nodes ≤ 2 then 0 else err
  segmentIntersection _ _ _ _ := some (1 / 2, 1 / 2)
  parallelLines _ _ _ _ := none
  hullCollide _ _ := true
  vectorClose a b := decide (a = b)
  wiggle v := if 0 ≤ v ∧ v ≤ 1 then some v else none
  inUnit v := decide (0 ≤ v ∧ v ≤ 1)
  fullNewton s _ t _ := .ok (s, t)
  locate _ _ := .ok none
  subdivide := Py.subdivide
  specialize := Py.specialize

theorem stubPrims_ok (box : BoxKind) (err : ℚ) : PrimsOK (stubPrims box err) where
  wiggle_unit := by
    intro v x h
    simp only [stubPrims] at h
    split at h
    · cases h; assumption
    · cases h
  inUnit_unit := by
    intro v h
    simpa [stubPrims] using h
  parallel_unit := by
    intro a b c d l h
    simp [stubPrims] at h
  locate_unit := by
    intro n p s h
    simp [stubPrims] at h

/-- constants of the library (`_ERROR_VAL² = 2⁻⁵²`, 20 rounds, 64 candidates, …) -/
def stubConsts (maxRounds maxCandidates : ℕ) : GeoConsts ℚ where
  errValSq := 1 / 2 ^ 52
  maxRounds := maxRounds
  maxCandidates := maxCandidates
  zeroThr := 1 / 2 ^ 10
  ratioSq := 1 / 2 ^ 72
  minWidth := 1 / 2 ^ 40
  unhandledLinesRaise := true

/-! ## `self_intersections` -/

/-- the left/right pairs of one level of `self_intersections`, scaled and with `(½, ½)` removed -/
def crossPairs (lrInts : List (K × K)) : List (K × K) :=
  (lrInts.map (fun p => ((1 / (1 + 1) : K) * p.1, (1 / (1 + 1) : K) * p.2 + 1 / (1 + 1)))).filter
    (fun p => !(p.1 = (1 / (1 + 1) : K) ∧ p.2 = (1 / (1 + 1) : K)))

/-- the merge of the three blocks with `add_intersection` -/
def mergePairs (G : GeoConsts K) (blocks : List (K × K)) (acc : List (K × K)) : List (K × K) :=
  blocks.foldl (fun acc p => addIntersection G p.1 p.2 acc) acc

/-- merging only keeps pairs that were there -/
theorem mergePairs_mem (G : GeoConsts K) : ∀ (blocks acc : List (K × K)),
    ∀ p ∈ mergePairs G blocks acc, p ∈ acc ∨ p ∈ blocks := by
  intro blocks
  induction blocks with
  | nil => intro acc p hp; exact Or.inl hp
  | cons b rest ih =>
    intro acc p hp
    have hp' : p ∈ mergePairs G rest (addIntersection G b.1 b.2 acc) := hp
    rcases ih _ p hp' with h | h
    · rcases addIntersection_mem G b.1 b.2 acc p h with h' | h'
      · exact Or.inl h'
      · exact Or.inr (by rw [h']; exact List.mem_cons_self)
    · exact Or.inr (List.mem_cons_of_mem _ h)

/-- merging keeps the accumulator as a prefix (nothing is removed or reordered) -/
theorem mergePairs_prefix (G : GeoConsts K) : ∀ (blocks acc : List (K × K)), acc <+: mergePairs G blocks acc := by
  intro blocks
  induction blocks with
  | nil => intro acc; exact List.prefix_refl _
  | cons b rest ih =>
    intro acc
    exact (addIntersection_prefix G b.1 b.2 acc).trans (ih _)

theorem selfIntersections_zero (P : Prims K) (G : GeoConsts K) (nodes : List (List K)) :
    selfIntersections P G 0 nodes = .error .recursion := rfl

theorem selfIntersections_succ (P : Prims K) (G : GeoConsts K) (fuel : ℕ) (nodes : List (List K)) :
    selfIntersections P G (fuel + 1) nodes =
      if turningBelowPi nodes then .ok []
      else
        match selfIntersections P G fuel (P.subdivide nodes).1, selfIntersections P G fuel (P.subdivide nodes).2 with
        | .error e, _ => .error e
        | _, .error e => .error e
        | .ok leftSelf, .ok rightSelf =>
          match allIntersections P G (P.subdivide nodes).1 (P.subdivide nodes).2 with
          | .error e => .error e
          | .ok (lrInts, _) =>
            .ok (mergePairs G (leftSelf.map (fun p => ((1 / (1 + 1) : K) * p.1, (1 / (1 + 1) : K) * p.2))
              ++ crossPairs lrInts
              ++ rightSelf.map (fun p => ((1 / (1 + 1) : K) + 1 / (1 + 1) * p.1, (1 / (1 + 1) : K) + 1 / (1 + 1) * p.2))) []) := rfl

theorem turningBelowPi_small (nodes : List (List K)) (h : ncols nodes < 3) : turningBelowPi nodes = true := by
  unfold turningBelowPi; rw [if_pos h]

/-- the contract on `all_intersections` needed by `self_intersections` (provided by `allIntersections_unit`) -/
def AllOK (P : Prims K) (G : GeoConsts K) : Prop :=
  ∀ n1 n2 pts flag, allIntersections P G n1 n2 = .ok (pts, flag) →
    ∀ p ∈ pts, 0 ≤ p.1 ∧ p.1 ≤ 1 ∧ 0 ≤ p.2 ∧ p.2 ≤ 1

theorem allOK_of_primsOK (P : Prims K) (hP : PrimsOK P) (G : GeoConsts K) : AllOK P G :=
  fun n1 n2 pts flag h => allIntersections_unit P hP G n1 n2 pts flag h

/-- cross pairs: `s ∈ [0, ½]`, `t ∈ [½, 1]`, and not both `½` -/
theorem crossPairs_spec (lrInts : List (K × K)) (h : AllSq lrInts) :
    ∀ p ∈ crossPairs lrInts, 0 ≤ p.1 ∧ p.1 ≤ 1 / 2 ∧ 1 / 2 ≤ p.2 ∧ p.2 ≤ 1 ∧ p.1 < p.2 := by
  intro p hp
  unfold crossPairs at hp
  rw [List.mem_filter, List.mem_map] at hp
  obtain ⟨⟨q, hq, rfl⟩, hne⟩ := hp
  obtain ⟨a0, a1, b0, b1⟩ := h q hq
  simp only [half_eq] at hne ⊢
  refine ⟨by linarith, by linarith, by linarith, by linarith, ?_⟩
  rcases lt_or_eq_of_le a1 with h1 | h1
  · linarith
  · rcases lt_or_eq_of_le b0 with h2 | h2
    · linarith
    · exfalso; rw [h1, ← h2] at hne; norm_num at hne

theorem not_mem_crossPairs_half (lrInts : List (K × K)) :
    ((1 / (1 + 1) : K), (1 / (1 + 1) : K)) ∉ crossPairs lrInts := by
  intro hp
  unfold crossPairs at hp
  rw [List.mem_filter] at hp
  simpa using hp.2

/-- every pair returned by `self_intersections` has `0 ≤ s < t ≤ 1` -/
theorem selfIntersections_strict (P : Prims K) (G : GeoConsts K) (hA : AllOK P G) :
    ∀ (fuel : ℕ) (nodes : List (List K)) (pts : List (K × K)),
      selfIntersections P G fuel nodes = .ok pts → ∀ p ∈ pts, 0 ≤ p.1 ∧ p.1 < p.2 ∧ p.2 ≤ 1 := by
  intro fuel
  induction fuel with
  | zero => intro nodes pts h; rw [selfIntersections_zero] at h; cases h
  | succ f ih =>
    intro nodes pts h
    rw [selfIntersections_succ] at h
    split_ifs at h
    · cases h; intro p hp; cases hp
    · split at h
      · cases h
      · cases h
      · rename_i leftSelf rightSelf hl hr
        split at h
        · cases h
        · rename_i lrInts flag hall
          have hcross := crossPairs_spec lrInts (hA _ _ _ _ hall)
          have ihl := ih _ _ hl
          have ihr := ih _ _ hr
          cases h
          intro p hp
          have hp := (mergePairs_mem G _ _ p hp).resolve_left (by simp)
          simp only [List.mem_append, List.mem_map] at hp
          rcases hp with (⟨q, hq, rfl⟩ | hp) | ⟨q, hq, rfl⟩
          · obtain ⟨h0, h1, h2⟩ := ihl q hq
            simp only [half_eq]
            refine ⟨by linarith, by linarith, by linarith⟩
          · obtain ⟨h0, h1, h2, h3, h4⟩ := hcross p hp
            exact ⟨h0, h4, h3⟩
          · obtain ⟨h0, h1, h2⟩ := ihr q hq
            simp only [half_eq]
            refine ⟨by linarith, by linarith, by linarith⟩

/-! ## the turning-angle test -/

/-- complex multiplication on pairs, as in `anglesBelowPi` -/
def cmul (w z : K × K) : K × K := (w.1 * z.1 - w.2 * z.2, w.1 * z.2 + w.2 * z.1)

/-- open upper half plane or positive real axis (argument in `[0, π)`) -/
def UpperOpen (w : K × K) : Prop := 0 < w.2 ∨ (w.2 = 0 ∧ 0 < w.1)

instance (w : K × K) : Decidable (UpperOpen w) := by unfold UpperOpen; infer_instance

theorem go_cons (z : K × K) (rest : List (K × K)) (w : K × K) :
    anglesBelowPi.go (z :: rest) w = if UpperOpen (cmul w z) then anglesBelowPi.go rest (cmul w z) else false := rfl

theorem go_spec : ∀ (zs : List (K × K)) (w : K × K),
    anglesBelowPi.go zs w = true ↔ ∀ k, 1 ≤ k → k ≤ zs.length → UpperOpen ((zs.take k).foldl cmul w) := by
  intro zs
  induction zs with
  | nil =>
    intro w
    constructor
    · intro _ k h1 h2; simp at h2; omega
    · intro _; rfl
  | cons z rest ih =>
    intro w
    rw [go_cons]
    constructor
    · intro h k h1 h2
      split_ifs at h with hu
      obtain ⟨k', rfl⟩ : ∃ k', k = k' + 1 := ⟨k - 1, by omega⟩
      rw [List.take_succ_cons, List.foldl_cons]
      rcases Nat.eq_zero_or_pos k' with rfl | hk'
      · simpa using hu
      · exact (ih (cmul w z)).mp h k' hk' (by simpa using h2)
    · intro h
      have hu : UpperOpen (cmul w z) := by simpa using h 1 (le_refl _) (by simp)
      rw [if_pos hu]
      apply (ih (cmul w z)).mpr
      intro k h1 h2
      have := h (k + 1) (by omega) (by simpa using h2)
      rwa [List.take_succ_cons, List.foldl_cons] at this

/-- `anglesBelowPi zs` holds iff every non-empty partial product of `zs` lies in the open upper half plane
    or on the positive real axis -/
theorem anglesBelowPi_iff (zs : List (K × K)) :
    anglesBelowPi zs = true ↔ ∀ k, 1 ≤ k → k ≤ zs.length → UpperOpen ((zs.take k).foldl cmul (1, 0)) :=
  go_spec zs (1, 0)

/-! ## strictly increasing control values -/

open BezierVerif.Lipschitz in
theorem T_pos (t : K) (ht0 : 0 ≤ t) (ht1 : t ≤ 1) (m : ℕ) (u : ℕ → K)
    (hu : ∀ j ≤ m+1, 0 < u j) : ∀ j ≤ m, 0 < T (1-t) t u j := by
  intro j hj
  rw [T_apply]
  have h1 := hu j (by omega); have h2 := hu (j+1) (by omega)
  rcases lt_or_eq_of_le ht1 with hlt | heq
  · have := mul_pos (sub_pos.mpr hlt) h1
    have := mul_nonneg ht0 h2.le
    linarith
  · rw [heq]; simpa using h2

theorem blossom_pos (a b : K) (ha0 : 0 ≤ a) (ha1 : a ≤ 1) (hb0 : 0 ≤ b) (hb1 : b ≤ 1) :
    ∀ (k l m : ℕ) (u : ℕ → K), (∀ j ≤ m + k + l, 0 < u j) →
      ∀ j ≤ m, 0 < ((T (1-a) a)^k * (T (1-b) b)^l) u j := by
  intro k
  induction k with
  | zero =>
    intro l
    induction l with
    | zero => intro m u hu j hj; simpa using hu j (by omega)
    | succ l ih =>
      intro m u hu j hj
      rw [pow_zero, one_mul, pow_succ, Module.End.mul_apply]
      have := ih m (T (1-b) b u) (T_pos b hb0 hb1 (m+0+l) u (by intro j hj; exact hu j (by omega)))
      simpa using this j hj
  | succ k ih =>
    intro l m u hu j hj
    rw [pow_succ', mul_assoc, Module.End.mul_apply]
    exact T_pos a ha0 ha1 m _ (fun j hj => ih l (m+1) u (by intro j hj; exact hu j (by omega)) j hj) j hj

/-- all forward differences positive ⇒ the coordinate function is strictly increasing on `[0,1]` -/
theorem curve_strictMono (n : ℕ) (hn : 1 ≤ n) (v : ℕ → K) (a b : K)
    (ha0 : 0 ≤ a) (hab : a < b) (hb1 : b ≤ 1) (hD : ∀ j < n, 0 < Lipschitz.fdiff v j) :
    Lipschitz.curve n v a < Lipschitz.curve n v b := by
  have hb0 : 0 ≤ b := le_trans ha0 hab.le
  have ha1 : a ≤ 1 := le_trans hab.le hb1
  have key := Lipschitz.curve_sub n v b a
  have pos : 0 < ∑ k ∈ Finset.range n, (((T (1-b) b)^k * (T (1-a) a)^(n-1-k)) (Lipschitz.fdiff v)) 0 := by
    apply Finset.sum_pos
    · intro k hk
      have hk' := Finset.mem_range.mp hk
      exact blossom_pos b a hb0 hb1 ha0 ha1 k (n-1-k) 0 (Lipschitz.fdiff v) (fun j hj => hD j (by omega)) 0 le_rfl
    · exact ⟨0, Finset.mem_range.mpr (by omega)⟩
  have : 0 < Lipschitz.curve n v b - Lipschitz.curve n v a := by rw [key]; exact mul_pos (sub_pos.mpr hab) pos
  linarith

/-- the list model: strictly increasing control values ⇒ strictly increasing coordinate function -/
theorem evalBary_strictMono (thr : ℕ) (xs : List K) (h : 2 ≤ xs.length) (hd : ∀ d ∈ diffs xs, 0 < d)
    (a b : K) (ha0 : 0 ≤ a) (hab : a < b) (hb1 : b ≤ 1) :
    evalBary thr xs (1 - a) a < evalBary thr xs (1 - b) b := by
  rw [Geo.evalBary_eq_evalDC thr xs h, Geo.evalBary_eq_evalDC thr xs h,
    evalDC_eq _ _ _ xs (by omega), evalDC_eq _ _ _ xs (by omega)]
  apply curve_strictMono (xs.length - 1) (by omega) (seq xs) a b ha0 hab hb1
  intro j hj
  rw [← Lipschitz.seq_diffs xs j (by omega)]
  exact hd _ (seq_mem _ _ (by rw [Lipschitz.diffs_length]; omega))

end BezierVerif.Pipe
