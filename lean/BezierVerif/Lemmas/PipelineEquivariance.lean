import BezierVerif.Model.Geometric
import Mathlib.Data.List.Basic

/-!
# Lemmas/PipelineEquivariance — the intersection PIPELINE does not see a change of presentation

`Model/Geometric.lean` is written over a record `Prims K` of primitives.  This file proves, for ANY
such record and ANY map `T` on node arrays (with its companion `Tp` on points):

  if every primitive gives the same answer on `T`-transformed arrays / `Tp`-transformed points and the
  node-producing primitives (`subdivide`, `specialize`, `elevate`) commute with `T`
  (`PrimsInvariant`), then every stage of the pipeline — `fromShape`, `subdivideCand`,
  `endpointCheck`, `tangentBbox`, `fromLinearized`, `intersectPair`, `intersectOneRound`,
  `pruneCandidates`, `coincidentParameters`, `checkLines`, the round loop — runs in lock step on the
  two presentations, and `allIntersections P G (T n1) (T n2) = allIntersections P G n1 n2`
  (same parameters, same flag, same error), for every `G` (in particular every fuel `G.maxRounds`).

GENERALISATION (`PrimsRelated`): two records of primitives `P` (original data) and `P'` (transformed data) with two
constant records `G`, `G'` that may differ in the ABSOLUTE linearisation threshold `errValSq` only; the squared
linearisation errors stored in the candidates are related by a map `E` (`E e = 0 ↔ e = 0`, and the threshold decision
`E e < G'.errValSq ↔ e < G.errValSq`).  `PrimsInvariant` is the special case `P' = P`, `G' = G`, `E = id`
(`PrimsInvariant.related`); `allIntersections_related` is the general theorem, `allIntersections_invariant` its corollary.

Side conditions are carried by two predicates: `V` on node arrays (a shape that the node-producing
primitives preserve: e.g. "two rows of equal length ≥ 2") and `Vp` on points (e.g. "two entries").
No law of arithmetic is used: `K` only carries the notation classes of the model, so the theorem
also applies to a floating-point instance of the model whenever the primitives are invariant there.

The simulation relation of the induction is functional: the candidate list of the transformed run
is the image of the candidate list of the original run under `mapPair T` (same `start`, `stop`,
same kind `curve`/`lin`, same squared linearisation error, nodes mapped by `T`).
-/

set_option linter.unusedSectionVars false
set_option linter.unusedVariables false

namespace BezierVerif.PipelineEquivariance

open Model

variable {K : Type} [Add K] [Sub K] [Mul K] [Div K] [Neg K] [OfNat K 0] [OfNat K 1] [NatCast K]
  [LT K] [DecidableLT K] [LE K] [DecidableLE K] [DecidableEq K]

/-- every primitive of `P` is invariant under the presentation change `T` (node arrays) / `Tp`
    (points), on the shapes `V` / `Vp`; the node-producing primitives commute with `T` and keep `V` -/
structure PrimsInvariant (P : Prims K) (T : List (List K) → List (List K)) (Tp : List K → List K)
    (V : List (List K) → Prop) (Vp : List K → Prop) : Prop where
  /-- end points: `firstNode`, `lastNode` commute with the presentation change -/
  firstNode_T : ∀ a, V a → firstNode (T a) = Tp (firstNode a)
  lastNode_T : ∀ a, V a → lastNode (T a) = Tp (lastNode a)
  firstNode_V : ∀ a, V a → Vp (firstNode a)
  lastNode_V : ∀ a, V a → Vp (lastNode a)
  /-- the number of nodes is kept -/
  ncols_T : ∀ a, V a → ncols (T a) = ncols a
  /-- predicates and solvers -/
  bboxIntersect : ∀ a b, V a → V b → P.bboxIntersect (T a) (T b) = P.bboxIntersect a b
  bboxLineIntersect : ∀ a p q, V a → Vp p → Vp q →
    P.bboxLineIntersect (T a) (Tp p) (Tp q) = P.bboxLineIntersect a p q
  linErrSq : ∀ a, V a → P.linErrSq (T a) = P.linErrSq a
  segmentIntersection : ∀ p q r s, Vp p → Vp q → Vp r → Vp s →
    P.segmentIntersection (Tp p) (Tp q) (Tp r) (Tp s) = P.segmentIntersection p q r s
  parallelLines : ∀ p q r s, Vp p → Vp q → Vp r → Vp s →
    P.parallelLines (Tp p) (Tp q) (Tp r) (Tp s) = P.parallelLines p q r s
  hullCollide : ∀ a b, V a → V b → P.hullCollide (T a) (T b) = P.hullCollide a b
  /-- `vector_close` on two points (`endpoint_check`) … -/
  vectorClosePt : ∀ p q, Vp p → Vp q → P.vectorClose (Tp p) (Tp q) = P.vectorClose p q
  /-- … and on two flattened node arrays with the same number of nodes (`coincident_parameters`) -/
  vectorCloseFlat : ∀ a b, V a → V b → ncols a = ncols b →
    P.vectorClose (flatten (T a)) (flatten (T b)) = P.vectorClose (flatten a) (flatten b)
  fullNewton : ∀ s a t b, V a → V b → P.fullNewton s (T a) t (T b) = P.fullNewton s a t b
  locate : ∀ a p, V a → Vp p → P.locate (T a) (Tp p) = P.locate a p
  /-- node-producing primitives -/
  subdivide_T : ∀ a, V a → P.subdivide (T a) = (T (P.subdivide a).1, T (P.subdivide a).2)
  subdivide_V : ∀ a, V a → V (P.subdivide a).1 ∧ V (P.subdivide a).2
  specialize_T : ∀ a s t, V a → P.specialize (T a) s t = T (P.specialize a s t)
  specialize_V : ∀ a s t, V a → V (P.specialize a s t)
  specialize_ncols : ∀ a s t, V a → ncols (P.specialize a s t) = ncols a
  elevate_T : ∀ a, V a → elevate (T a) = T (elevate a)
  elevate_V : ∀ a, V a → V (elevate a)
  elevate_ncols : ∀ a, V a → ncols (elevate a) = ncols a + 1

/-- `P'` (with constants `G'`) on the transformed data answers like `P` (with `G`) on the original data.
    `E` relates the squared linearisation errors; the constant records agree except for `errValSq` -/
structure PrimsRelated (P : Prims K) (G : GeoConsts K) (P' : Prims K) (G' : GeoConsts K)
    (T : List (List K) → List (List K)) (Tp : List K → List K) (E : K → K)
    (V : List (List K) → Prop) (Vp : List K → Prop) : Prop where
  /-- the constants that are not lengths are the same -/
  maxRounds_eq : G'.maxRounds = G.maxRounds
  maxCandidates_eq : G'.maxCandidates = G.maxCandidates
  zeroThr_eq : G'.zeroThr = G.zeroThr
  ratioSq_eq : G'.ratioSq = G.ratioSq
  minWidth_eq : G'.minWidth = G.minWidth
  unhandled_eq : G'.unhandledLinesRaise = G.unhandledLinesRaise
  /-- primitives on parameters -/
  wiggle_eq : ∀ v, P'.wiggle v = P.wiggle v
  inUnit_eq : ∀ v, P'.inUnit v = P.inUnit v
  /-- the error map keeps "exactly linear" -/
  errZero : ∀ e, E e = 0 ↔ e = 0
  firstNode_T : ∀ a, V a → firstNode (T a) = Tp (firstNode a)
  lastNode_T : ∀ a, V a → lastNode (T a) = Tp (lastNode a)
  firstNode_V : ∀ a, V a → Vp (firstNode a)
  lastNode_V : ∀ a, V a → Vp (lastNode a)
  ncols_T : ∀ a, V a → ncols (T a) = ncols a
  bboxIntersect : ∀ a b, V a → V b → P'.bboxIntersect (T a) (T b) = P.bboxIntersect a b
  bboxLineIntersect : ∀ a p q, V a → Vp p → Vp q →
    P'.bboxLineIntersect (T a) (Tp p) (Tp q) = P.bboxLineIntersect a p q
  /-- the linearisation error is mapped by `E`, the decision against the threshold is the same -/
  linErrSq : ∀ a, V a → P'.linErrSq (T a) = E (P.linErrSq a)
  errLt : ∀ a, V a → (E (P.linErrSq a) < G'.errValSq ↔ P.linErrSq a < G.errValSq)
  segmentIntersection : ∀ p q r s, Vp p → Vp q → Vp r → Vp s →
    P'.segmentIntersection (Tp p) (Tp q) (Tp r) (Tp s) = P.segmentIntersection p q r s
  parallelLines : ∀ p q r s, Vp p → Vp q → Vp r → Vp s →
    P'.parallelLines (Tp p) (Tp q) (Tp r) (Tp s) = P.parallelLines p q r s
  hullCollide : ∀ a b, V a → V b → P'.hullCollide (T a) (T b) = P.hullCollide a b
  vectorClosePt : ∀ p q, Vp p → Vp q → P'.vectorClose (Tp p) (Tp q) = P.vectorClose p q
  vectorCloseFlat : ∀ a b, V a → V b → ncols a = ncols b →
    P'.vectorClose (flatten (T a)) (flatten (T b)) = P.vectorClose (flatten a) (flatten b)
  fullNewton : ∀ s a t b, V a → V b → P'.fullNewton s (T a) t (T b) = P.fullNewton s a t b
  locate : ∀ a p, V a → Vp p → P'.locate (T a) (Tp p) = P.locate a p
  subdivide_T : ∀ a, V a → P'.subdivide (T a) = (T (P.subdivide a).1, T (P.subdivide a).2)
  subdivide_V : ∀ a, V a → V (P.subdivide a).1 ∧ V (P.subdivide a).2
  specialize_T : ∀ a s t, V a → P'.specialize (T a) s t = T (P.specialize a s t)
  specialize_V : ∀ a s t, V a → V (P.specialize a s t)
  specialize_ncols : ∀ a s t, V a → ncols (P.specialize a s t) = ncols a
  elevate_T : ∀ a, V a → elevate (T a) = T (elevate a)
  elevate_V : ∀ a, V a → V (elevate a)
  elevate_ncols : ∀ a, V a → ncols (elevate a) = ncols a + 1

/-- the one-record case -/
theorem PrimsInvariant.related {P : Prims K} {T : List (List K) → List (List K)} {Tp : List K → List K}
    {V : List (List K) → Prop} {Vp : List K → Prop} (h : PrimsInvariant P T Tp V Vp) (G : GeoConsts K) :
    PrimsRelated P G P G T Tp id V Vp where
  maxRounds_eq := rfl
  maxCandidates_eq := rfl
  zeroThr_eq := rfl
  ratioSq_eq := rfl
  minWidth_eq := rfl
  unhandled_eq := rfl
  wiggle_eq := fun _ => rfl
  inUnit_eq := fun _ => rfl
  errZero := fun _ => Iff.rfl
  firstNode_T := h.firstNode_T
  lastNode_T := h.lastNode_T
  firstNode_V := h.firstNode_V
  lastNode_V := h.lastNode_V
  ncols_T := h.ncols_T
  bboxIntersect := h.bboxIntersect
  bboxLineIntersect := h.bboxLineIntersect
  linErrSq := h.linErrSq
  errLt := fun _ _ => Iff.rfl
  segmentIntersection := h.segmentIntersection
  parallelLines := h.parallelLines
  hullCollide := h.hullCollide
  vectorClosePt := h.vectorClosePt
  vectorCloseFlat := h.vectorCloseFlat
  fullNewton := h.fullNewton
  locate := h.locate
  subdivide_T := h.subdivide_T
  subdivide_V := h.subdivide_V
  specialize_T := h.specialize_T
  specialize_V := h.specialize_V
  specialize_ncols := h.specialize_ncols
  elevate_T := h.elevate_T
  elevate_V := h.elevate_V
  elevate_ncols := h.elevate_ncols

/-! ## the simulation relation (functional form) -/

/-- the same sub-curve in the other presentation: nodes mapped, parameter interval kept -/
def mapSub (T : List (List K) → List (List K)) (c : SubCurve K) : SubCurve K :=
  { nodes := T c.nodes, start := c.start, stop := c.stop }

/-- the same candidate in the other presentation: same kind, error mapped by `E` -/
def mapCand (T : List (List K) → List (List K)) (E : K → K) : Cand K → Cand K
  | .curve c => .curve (mapSub T c)
  | .lin c e => .lin (mapSub T c) (E e)

def mapPair (T : List (List K) → List (List K)) (E : K → K) (p : Cand K × Cand K) : Cand K × Cand K :=
  (mapCand T E p.1, mapCand T E p.2)

/-- a round result in the other presentation: same error / same accumulated parameters -/
def mapRes (T : List (List K) → List (List K)) (E : K → K) :
    Except Err (List (Cand K × Cand K) × List (K × K)) → Except Err (List (Cand K × Cand K) × List (K × K))
  | .error e => .error e
  | .ok (l, acc) => .ok (l.map (mapPair T E), acc)

/-- shape condition on a candidate / a pair / a round result -/
def CandV (V : List (List K) → Prop) (c : Cand K) : Prop := V c.sub.nodes

def PairV (V : List (List K) → Prop) (p : Cand K × Cand K) : Prop := CandV V p.1 ∧ CandV V p.2

def ResV (V : List (List K) → Prop) : Except Err (List (Cand K × Cand K) × List (K × K)) → Prop
  | .error _ => True
  | .ok (l, _) => ∀ p ∈ l, PairV V p

@[simp] theorem mapCand_sub (T : List (List K) → List (List K)) (E : K → K) (c : Cand K) :
    (mapCand T E c).sub = mapSub T c.sub := by cases c <;> rfl

@[simp] theorem mapCand_isLin (T : List (List K) → List (List K)) (E : K → K) (c : Cand K) :
    (mapCand T E c).isLin = c.isLin := by cases c <;> rfl

section Generic

variable {P P' : Prims K} {G G' : GeoConsts K} {T : List (List K) → List (List K)} {Tp : List K → List K}
  {E : K → K} {V : List (List K) → Prop} {Vp : List K → Prop}

/-! ## `Linearization.from_shape`, `subdivide` -/

theorem fromShape_sub_nodes (P : Prims K) (G : GeoConsts K) (c : Cand K) :
    (fromShape P G c).sub.nodes = c.sub.nodes := by
  cases c with
  | lin c e => rfl
  | curve c =>
    simp only [fromShape]
    split <;> rfl

theorem fromShape_V (P : Prims K) (G : GeoConsts K) (c : Cand K) (hc : CandV V c) : CandV V (fromShape P G c) := by
  unfold CandV; rw [fromShape_sub_nodes]; exact hc

theorem fromShape_map (h : PrimsRelated P G P' G' T Tp E V Vp) (c : Cand K) (hc : CandV V c) :
    fromShape P' G' (mapCand T E c) = mapCand T E (fromShape P G c) := by
  cases c with
  | lin c e => rfl
  | curve c =>
    have hc : V c.nodes := hc
    simp only [mapCand, fromShape, mapSub]
    rw [h.linErrSq c.nodes hc]
    by_cases hlt : P.linErrSq c.nodes < G.errValSq
    · rw [if_pos hlt, if_pos ((h.errLt c.nodes hc).2 hlt)]
    · rw [if_neg hlt, if_neg (fun h' => hlt ((h.errLt c.nodes hc).1 h'))]

theorem subdivideCand_V (h : PrimsRelated P G P' G' T Tp E V Vp) (c : Cand K) (hc : CandV V c) :
    ∀ d ∈ subdivideCand P G c, CandV V d := by
  cases c with
  | lin c e =>
    intro d hd
    simp only [subdivideCand, List.mem_singleton] at hd
    subst hd; exact hc
  | curve c =>
    intro d hd
    obtain ⟨h1, h2⟩ := h.subdivide_V c.nodes hc
    simp only [subdivideCand, List.mem_cons, List.not_mem_nil, or_false] at hd
    rcases hd with hd | hd <;> subst hd
    · exact fromShape_V P G _ h1
    · exact fromShape_V P G _ h2

theorem subdivideCand_map (h : PrimsRelated P G P' G' T Tp E V Vp) (c : Cand K) (hc : CandV V c) :
    subdivideCand P' G' (mapCand T E c) = (subdivideCand P G c).map (mapCand T E) := by
  cases c with
  | lin c e => rfl
  | curve c =>
    obtain ⟨h1, h2⟩ := h.subdivide_V c.nodes hc
    simp only [mapCand, subdivideCand, mapSub, List.map_cons, List.map_nil]
    rw [h.subdivide_T c.nodes hc]
    have e1 := fromShape_map h (.curve ⟨(P.subdivide c.nodes).1, c.start, (1 / (1 + 1) : K) * (c.start + c.stop)⟩) h1
    have e2 := fromShape_map h (.curve ⟨(P.subdivide c.nodes).2, (1 / (1 + 1) : K) * (c.start + c.stop), c.stop⟩) h2
    simp only [mapCand, mapSub] at e1 e2
    rw [e1, e2]

/-! ## `add_intersection`, `endpoint_check`, `tangent_bbox_intersection` -/

theorem addIntersection_geo (h : PrimsRelated P G P' G' T Tp E V Vp) (s t : K) (acc : List (K × K)) :
    addIntersection G' s t acc = addIntersection G s t acc := by
  unfold addIntersection
  rw [h.zeroThr_eq, h.ratioSq_eq]

theorem endpointCheck_map (h : PrimsRelated P G P' G' T Tp E V Vp) (first second : SubCurve K)
    (p q : List K) (hp : Vp p) (hq : Vp q) (s t : K) (acc : List (K × K)) :
    endpointCheck P' G' (mapSub T first) (Tp p) s (mapSub T second) (Tp q) t acc
      = endpointCheck P G first p s second q t acc := by
  unfold endpointCheck
  rw [h.vectorClosePt p q hp hq]
  simp only [addIntersection_geo h]
  rfl

theorem tangentBbox_map (h : PrimsRelated P G P' G' T Tp E V Vp) (first second : SubCurve K)
    (h1 : V first.nodes) (h2 : V second.nodes) (acc : List (K × K)) :
    tangentBbox P' G' (mapSub T first) (mapSub T second) acc = tangentBbox P G first second acc := by
  unfold tangentBbox
  have ef : (mapSub T first).nodes = T first.nodes := rfl
  have es : (mapSub T second).nodes = T second.nodes := rfl
  simp only [ef, es, h.firstNode_T _ h1, h.lastNode_T _ h1, h.firstNode_T _ h2, h.lastNode_T _ h2]
  rw [endpointCheck_map h first second _ _ (h.firstNode_V _ h1) (h.firstNode_V _ h2),
    endpointCheck_map h first second _ _ (h.firstNode_V _ h1) (h.lastNode_V _ h2),
    endpointCheck_map h first second _ _ (h.lastNode_V _ h1) (h.firstNode_V _ h2),
    endpointCheck_map h first second _ _ (h.lastNode_V _ h1) (h.lastNode_V _ h2)]

/-! ## `from_linearized` -/

theorem fromLinearized_map (h : PrimsRelated P G P' G' T Tp E V Vp) (o1 o2 : List (List K))
    (ho1 : V o1) (ho2 : V o2) (c1 : SubCurve K) (e1 : K) (c2 : SubCurve K) (e2 : K)
    (h1 : V c1.nodes) (h2 : V c2.nodes) (acc : List (K × K)) :
    fromLinearized P' G' (T o1) (T o2) (mapSub T c1) (E e1) (mapSub T c2) (E e2) acc
      = fromLinearized P G o1 o2 c1 e1 c2 e2 acc := by
  unfold fromLinearized
  have ef : (mapSub T c1).nodes = T c1.nodes := rfl
  have es : (mapSub T c2).nodes = T c2.nodes := rfl
  have ef1 : (mapSub T c1).start = c1.start := rfl
  have ef2 : (mapSub T c1).stop = c1.stop := rfl
  have es1 : (mapSub T c2).start = c2.start := rfl
  have es2 : (mapSub T c2).stop = c2.stop := rfl
  simp only [ef, es, ef1, ef2, es1, es2, h.firstNode_T _ h1, h.lastNode_T _ h1, h.firstNode_T _ h2,
    h.lastNode_T _ h2,
    h.segmentIntersection _ _ _ _ (h.firstNode_V _ h1) (h.lastNode_V _ h1) (h.firstNode_V _ h2)
      (h.lastNode_V _ h2),
    h.hullCollide _ _ h1 h2, h.fullNewton _ _ _ _ ho1 ho2, h.errZero, h.unhandled_eq, h.wiggle_eq,
    h.inUnit_eq, addIntersection_geo h]

/-! ## one candidate pair -/

theorem intersectPair_V (h : PrimsRelated P G P' G' T Tp E V Vp) (o1 o2 : List (List K))
    (a b : Cand K) (ha : CandV V a) (hb : CandV V b) (acc : List (K × K)) :
    ResV V (intersectPair P G o1 o2 a b acc) := by
  have hsub : ResV V (.ok ((subdivideCand P G a).flatMap (fun x => (subdivideCand P G b).map (fun y => (x, y))), acc)) := by
    intro p hp
    simp only [List.mem_flatMap, List.mem_map] at hp
    obtain ⟨x, hx, y, hy, rfl⟩ := hp
    exact ⟨subdivideCand_V h a ha x hx, subdivideCand_V h b hb y hy⟩
  have hnil : ∀ acc' : List (K × K), ResV V (.ok ([], acc')) := by
    intro acc' p hp; cases hp
  unfold intersectPair
  dsimp only
  split_ifs
  · exact hnil _
  · exact hnil _
  · cases a <;> cases b
    · exact hsub
    · exact hsub
    · exact hsub
    · dsimp only
      split
      · trivial
      · exact hnil _

/-- the box test of `intersect_one_round` on one pair -/
def pairBox (P : Prims K) : Cand K → Cand K → BoxKind
  | .lin c1 _, .lin c2 _ => P.bboxIntersect c1.nodes c2.nodes
  | .lin c1 _, .curve c2 => P.bboxLineIntersect c2.nodes (firstNode c1.nodes) (lastNode c1.nodes)
  | .curve c1, .lin c2 _ => P.bboxLineIntersect c1.nodes (firstNode c2.nodes) (lastNode c2.nodes)
  | .curve c1, .curve c2 => P.bboxIntersect c1.nodes c2.nodes

theorem intersectPair_eq (P : Prims K) (G : GeoConsts K) (o1 o2 : List (List K)) (first second : Cand K)
    (acc : List (K × K)) :
    intersectPair P G o1 o2 first second acc =
      if pairBox P first second = .disjoint then .ok ([], acc)
      else if pairBox P first second = .tangent ∧ !(first.isLin && second.isLin) then
        .ok ([], tangentBbox P G first.sub second.sub acc)
      else
        match first, second with
        | .lin c1 e1, .lin c2 e2 =>
          match fromLinearized P G o1 o2 c1 e1 c2 e2 acc with
          | .error e => .error e
          | .ok acc' => .ok ([], acc')
        | _, _ =>
          .ok ((subdivideCand P G first).flatMap (fun a => (subdivideCand P G second).map (fun b => (a, b))), acc) := by
  cases first <;> cases second <;> rfl

theorem pairBox_map (h : PrimsRelated P G P' G' T Tp E V Vp) (a b : Cand K) (ha : CandV V a) (hb : CandV V b) :
    pairBox P' (mapCand T E a) (mapCand T E b) = pairBox P a b := by
  cases a with
  | curve c1 =>
    cases b with
    | curve c2 => exact h.bboxIntersect c1.nodes c2.nodes ha hb
    | lin c2 e2 =>
      have hb : V c2.nodes := hb
      show P'.bboxLineIntersect (T c1.nodes) (firstNode (T c2.nodes)) (lastNode (T c2.nodes)) = _
      rw [h.firstNode_T _ hb, h.lastNode_T _ hb]
      exact h.bboxLineIntersect _ _ _ ha (h.firstNode_V _ hb) (h.lastNode_V _ hb)
  | lin c1 e1 =>
    cases b with
    | curve c2 =>
      have ha : V c1.nodes := ha
      show P'.bboxLineIntersect (T c2.nodes) (firstNode (T c1.nodes)) (lastNode (T c1.nodes)) = _
      rw [h.firstNode_T _ ha, h.lastNode_T _ ha]
      exact h.bboxLineIntersect _ _ _ hb (h.firstNode_V _ ha) (h.lastNode_V _ ha)
    | lin c2 e2 => exact h.bboxIntersect c1.nodes c2.nodes ha hb

theorem intersectPair_map (h : PrimsRelated P G P' G' T Tp E V Vp) (o1 o2 : List (List K))
    (ho1 : V o1) (ho2 : V o2) (a b : Cand K) (ha : CandV V a) (hb : CandV V b) (acc : List (K × K)) :
    intersectPair P' G' (T o1) (T o2) (mapCand T E a) (mapCand T E b) acc
      = mapRes T E (intersectPair P G o1 o2 a b acc) := by
  have hsub : (subdivideCand P' G' (mapCand T E a)).flatMap
        (fun x => (subdivideCand P' G' (mapCand T E b)).map (fun y => (x, y)))
      = ((subdivideCand P G a).flatMap (fun x => (subdivideCand P G b).map (fun y => (x, y)))).map (mapPair T E) := by
    rw [subdivideCand_map h a ha, subdivideCand_map h b hb, List.map_flatMap, List.flatMap_map]
    apply List.flatMap_congr
    intro x _
    rw [List.map_map, List.map_map]
    rfl
  have htb := tangentBbox_map h a.sub b.sub ha hb acc
  rw [intersectPair_eq, intersectPair_eq, pairBox_map h a b ha hb, mapCand_isLin, mapCand_isLin,
    mapCand_sub, mapCand_sub, htb]
  by_cases hd : pairBox P a b = .disjoint
  · rw [if_pos hd, if_pos hd]; rfl
  · rw [if_neg hd, if_neg hd]
    by_cases ht : pairBox P a b = .tangent ∧ !(a.isLin && b.isLin)
    · rw [if_pos ht, if_pos ht]; rfl
    · rw [if_neg ht, if_neg ht]
      cases a with
      | curve c1 =>
        cases b <;> (simp only [mapRes]; rw [hsub]; rfl)
      | lin c1 e1 =>
        cases b with
        | curve c2 => simp only [mapRes]; rw [hsub]; rfl
        | lin c2 e2 =>
          simp only [mapCand]
          rw [fromLinearized_map h o1 o2 ho1 ho2 c1 e1 c2 e2 ha hb acc]
          cases fromLinearized P G o1 o2 c1 e1 c2 e2 acc <;> rfl

/-! ## `intersect_one_round`: induction over the candidate list -/

/-- the loop body of `intersect_one_round` -/
def roundStep (P : Prims K) (G : GeoConsts K) (o1 o2 : List (List K))
    (st : Except Err (List (Cand K × Cand K) × List (K × K))) (pr : Cand K × Cand K) :
    Except Err (List (Cand K × Cand K) × List (K × K)) :=
  match st with
  | .error e => .error e
  | .ok (next, acc) =>
    match intersectPair P G o1 o2 pr.1 pr.2 acc with
    | .error e => .error e
    | .ok (more, acc') => .ok (next ++ more, acc')

theorem intersectOneRound_eq (P : Prims K) (G : GeoConsts K) (o1 o2 : List (List K))
    (cands : List (Cand K × Cand K)) (acc : List (K × K)) :
    intersectOneRound P G o1 o2 cands acc = cands.foldl (roundStep P G o1 o2) (.ok ([], acc)) := rfl

theorem roundStep_V (h : PrimsRelated P G P' G' T Tp E V Vp) (o1 o2 : List (List K))
    (st : Except Err (List (Cand K × Cand K) × List (K × K))) (pr : Cand K × Cand K)
    (hst : ResV V st) (hpr : PairV V pr) : ResV V (roundStep P G o1 o2 st pr) := by
  rcases st with e | ⟨next, acc⟩
  · trivial
  · have hp := intersectPair_V h o1 o2 pr.1 pr.2 hpr.1 hpr.2 acc
    unfold roundStep
    dsimp only
    rcases hip : intersectPair P G o1 o2 pr.1 pr.2 acc with e | ⟨more, acc'⟩
    · trivial
    · rw [hip] at hp
      intro p hp'
      rcases List.mem_append.mp hp' with h1 | h1
      · exact hst p h1
      · exact hp p h1

theorem roundStep_map (h : PrimsRelated P G P' G' T Tp E V Vp) (o1 o2 : List (List K))
    (ho1 : V o1) (ho2 : V o2) (st : Except Err (List (Cand K × Cand K) × List (K × K)))
    (pr : Cand K × Cand K) (hpr : PairV V pr) :
    roundStep P' G' (T o1) (T o2) (mapRes T E st) (mapPair T E pr) = mapRes T E (roundStep P G o1 o2 st pr) := by
  rcases st with e | ⟨next, acc⟩
  · rfl
  · unfold roundStep
    simp only [mapRes, mapPair]
    rw [intersectPair_map h o1 o2 ho1 ho2 pr.1 pr.2 hpr.1 hpr.2 acc]
    rcases intersectPair P G o1 o2 pr.1 pr.2 acc with e | ⟨more, acc'⟩
    · rfl
    · simp only [mapRes, List.map_append]

theorem foldl_roundStep (h : PrimsRelated P G P' G' T Tp E V Vp) (o1 o2 : List (List K))
    (ho1 : V o1) (ho2 : V o2) : ∀ (cands : List (Cand K × Cand K)) (st : Except Err (List (Cand K × Cand K) × List (K × K))),
      (∀ p ∈ cands, PairV V p) → ResV V st →
      (cands.map (mapPair T E)).foldl (roundStep P' G' (T o1) (T o2)) (mapRes T E st)
          = mapRes T E (cands.foldl (roundStep P G o1 o2) st) ∧
        ResV V (cands.foldl (roundStep P G o1 o2) st)
  | [], st, _, hst => ⟨rfl, hst⟩
  | pr :: cands, st, hc, hst => by
    simp only [List.map_cons, List.foldl_cons]
    rw [roundStep_map h o1 o2 ho1 ho2 st pr (hc pr List.mem_cons_self)]
    exact foldl_roundStep h o1 o2 ho1 ho2 cands _ (fun p hp => hc p (List.mem_cons_of_mem _ hp))
      (roundStep_V h o1 o2 st pr hst (hc pr List.mem_cons_self))

/-- **one round** runs in lock step on the two presentations -/
theorem intersectOneRound_map (h : PrimsRelated P G P' G' T Tp E V Vp) (o1 o2 : List (List K))
    (ho1 : V o1) (ho2 : V o2) (cands : List (Cand K × Cand K)) (hc : ∀ p ∈ cands, PairV V p)
    (acc : List (K × K)) :
    intersectOneRound P' G' (T o1) (T o2) (cands.map (mapPair T E)) acc
      = mapRes T E (intersectOneRound P G o1 o2 cands acc) := by
  rw [intersectOneRound_eq, intersectOneRound_eq]
  exact (foldl_roundStep h o1 o2 ho1 ho2 cands (.ok ([], acc)) hc (by intro p hp; cases hp)).1

theorem intersectOneRound_V (h : PrimsRelated P G P' G' T Tp E V Vp) (o1 o2 : List (List K))
    (ho1 : V o1) (ho2 : V o2) (cands : List (Cand K × Cand K)) (hc : ∀ p ∈ cands, PairV V p)
    (acc : List (K × K)) : ResV V (intersectOneRound P G o1 o2 cands acc) := by
  rw [intersectOneRound_eq]
  exact (foldl_roundStep h o1 o2 ho1 ho2 cands (.ok ([], acc)) hc (by intro p hp; cases hp)).2

/-! ## `prune_candidates` -/

theorem pruneCandidates_map (h : PrimsRelated P G P' G' T Tp E V Vp) :
    ∀ (cands : List (Cand K × Cand K)), (∀ p ∈ cands, PairV V p) →
      pruneCandidates P' (cands.map (mapPair T E)) = (pruneCandidates P cands).map (mapPair T E)
  | [], _ => rfl
  | pr :: cands, hc => by
    have ih := pruneCandidates_map h cands (fun p hp => hc p (List.mem_cons_of_mem _ hp))
    have hpr := hc pr List.mem_cons_self
    unfold pruneCandidates at ih ⊢
    rw [List.map_cons, List.filter_cons, List.filter_cons, ih]
    have e : P'.hullCollide (mapPair T E pr).1.sub.nodes (mapPair T E pr).2.sub.nodes
        = P.hullCollide pr.1.sub.nodes pr.2.sub.nodes := by
      simp only [mapPair, mapCand_sub]
      exact h.hullCollide _ _ hpr.1 hpr.2
    rw [e]
    split <;> rfl

theorem pruneCandidates_V (P : Prims K) (cands : List (Cand K × Cand K)) (hc : ∀ p ∈ cands, PairV V p) :
    ∀ p ∈ pruneCandidates P cands, PairV V p := by
  intro p hp
  unfold pruneCandidates at hp
  exact hc p (List.mem_filter.mp hp).1

/-! ## `make_same_degree`, `coincident_parameters` -/

theorem iter_elevate (h : PrimsRelated P G P' G' T Tp E V Vp) : ∀ (k : ℕ) (a : List (List K)), V a →
    iter elevate k (T a) = T (iter elevate k a) ∧ V (iter elevate k a) ∧
      ncols (iter elevate k a) = ncols a + k
  | 0, a, ha => ⟨rfl, ha, rfl⟩
  | k + 1, a, ha => by
    obtain ⟨e1, e2, e3⟩ := iter_elevate h k (elevate a) (h.elevate_V a ha)
    simp only [iter]
    rw [h.elevate_T a ha, e1, e3, h.elevate_ncols a ha]
    exact ⟨rfl, e2, by omega⟩

theorem makeSameDegree_map (h : PrimsRelated P G P' G' T Tp E V Vp) (n1 n2 : List (List K)) (h1 : V n1) (h2 : V n2) :
    makeSameDegree (T n1) (T n2) = (T (makeSameDegree n1 n2).1, T (makeSameDegree n1 n2).2) ∧
      V (makeSameDegree n1 n2).1 ∧ V (makeSameDegree n1 n2).2 ∧
      ncols (makeSameDegree n1 n2).1 = ncols (makeSameDegree n1 n2).2 := by
  unfold makeSameDegree
  simp only [h.ncols_T n1 h1, h.ncols_T n2 h2]
  obtain ⟨a1, a2, a3⟩ := iter_elevate h (ncols n2 - ncols n1) n1 h1
  obtain ⟨b1, b2, b3⟩ := iter_elevate h (ncols n1 - ncols n2) n2 h2
  rw [a1, b1]
  exact ⟨rfl, a2, b2, by rw [a3, b3]; omega⟩

/-- `coincident_parameters` gives the same answer on the two presentations -/
theorem coincidentParameters_map (h : PrimsRelated P G P' G' T Tp E V Vp) (n1 n2 : List (List K))
    (h1 : V n1) (h2 : V n2) :
    coincidentParameters P' G' (T n1) (T n2) = coincidentParameters P G n1 n2 := by
  obtain ⟨hm, hv1, hv2, hnc⟩ := makeSameDegree_map h n1 n2 h1 h2
  unfold coincidentParameters
  rw [hm]
  generalize makeSameDegree n1 n2 = mm at hm hv1 hv2 hnc ⊢
  obtain ⟨m1, m2⟩ := mm
  dsimp only at hv1 hv2 hnc ⊢
  have s1 : ∀ s t, P'.specialize (T m1) s t = T (P.specialize m1 s t) := fun s t => h.specialize_T m1 s t hv1
  have s2 : ∀ s t, P'.specialize (T m2) s t = T (P.specialize m2 s t) := fun s t => h.specialize_T m2 s t hv2
  have v1 : ∀ s t, P'.vectorClose (flatten (T (P.specialize m1 s t))) (flatten (T m2))
      = P.vectorClose (flatten (P.specialize m1 s t)) (flatten m2) := fun s t =>
    h.vectorCloseFlat _ _ (h.specialize_V m1 s t hv1) hv2 (by rw [h.specialize_ncols m1 s t hv1, hnc])
  have v2 : ∀ s t, P'.vectorClose (flatten (T m1)) (flatten (T (P.specialize m2 s t)))
      = P.vectorClose (flatten m1) (flatten (P.specialize m2 s t)) := fun s t =>
    h.vectorCloseFlat _ _ hv1 (h.specialize_V m2 s t hv2) (by rw [h.specialize_ncols m2 s t hv2, hnc])
  have v3 : ∀ s t s' t', P'.vectorClose (flatten (T (P.specialize m1 s t))) (flatten (T (P.specialize m2 s' t')))
      = P.vectorClose (flatten (P.specialize m1 s t)) (flatten (P.specialize m2 s' t')) := fun s t s' t' =>
    h.vectorCloseFlat _ _ (h.specialize_V m1 s t hv1) (h.specialize_V m2 s' t' hv2)
      (by rw [h.specialize_ncols m1 s t hv1, h.specialize_ncols m2 s' t' hv2, hnc])
  simp only [h.firstNode_T _ hv1, h.lastNode_T _ hv1, h.firstNode_T _ hv2, h.lastNode_T _ hv2,
    h.locate m1 _ hv1 (h.firstNode_V _ hv2), h.locate m1 _ hv1 (h.lastNode_V _ hv2),
    h.locate m2 _ hv2 (h.firstNode_V _ hv1), h.locate m2 _ hv2 (h.lastNode_V _ hv1),
    s1, s2, v1, v2, v3, h.minWidth_eq]

/-! ## `check_lines` -/

theorem checkLines_map (h : PrimsRelated P G P' G' T Tp E V Vp) (c1 c2 : Cand K) (h1 : CandV V c1) (h2 : CandV V c2) :
    checkLines P' (mapCand T E c1) (mapCand T E c2) = checkLines P c1 c2 := by
  cases c1 with
  | curve s1 => cases c2 <;> rfl
  | lin s1 e1 =>
    cases c2 with
    | curve s2 => rfl
    | lin s2 e2 =>
      have h1 : V s1.nodes := h1
      have h2 : V s2.nodes := h2
      have ef : (mapSub T s1).nodes = T s1.nodes := rfl
      have es : (mapSub T s2).nodes = T s2.nodes := rfl
      simp only [mapCand, checkLines, ef, es, h.firstNode_T _ h1, h.lastNode_T _ h1, h.firstNode_T _ h2,
        h.lastNode_T _ h2,
        h.segmentIntersection _ _ _ _ (h.firstNode_V _ h1) (h.lastNode_V _ h1) (h.firstNode_V _ h2)
          (h.lastNode_V _ h2),
        h.parallelLines _ _ _ _ (h.firstNode_V _ h1) (h.lastNode_V _ h1) (h.firstNode_V _ h2)
          (h.lastNode_V _ h2), h.errZero, h.inUnit_eq]

/-! ## the round loop and `all_intersections` -/

theorem rounds_zero (P : Prims K) (G : GeoConsts K) (n1 n2 : List (List K)) (cands : List (Cand K × Cand K))
    (acc : List (K × K)) : allIntersections.rounds P G n1 n2 0 cands acc = .error .valueError := rfl

/-- the candidate list after the optional pruning -/
def afterPrune (P : Prims K) (G : GeoConsts K) (next : List (Cand K × Cand K)) : List (Cand K × Cand K) :=
  if next.length > G.maxCandidates then pruneCandidates P next else next

theorem rounds_succ (P : Prims K) (G : GeoConsts K) (n1 n2 : List (List K)) (f : ℕ)
    (cands : List (Cand K × Cand K)) (acc : List (K × K)) :
    allIntersections.rounds P G n1 n2 (f + 1) cands acc =
      match intersectOneRound P G n1 n2 cands acc with
      | .error e => .error e
      | .ok (next, acc') =>
        if (afterPrune P G next).length > G.maxCandidates then
          match coincidentParameters P G n1 n2 with
          | .error e => .error e
          | .ok none => .error .notImplemented
          | .ok (some params) => .ok (params, true)
        else if (afterPrune P G next).isEmpty then .ok (acc', false)
        else allIntersections.rounds P G n1 n2 f (afterPrune P G next) acc' := rfl

theorem afterPrune_map (h : PrimsRelated P G P' G' T Tp E V Vp) (next : List (Cand K × Cand K))
    (hn : ∀ p ∈ next, PairV V p) :
    afterPrune P' G' (next.map (mapPair T E)) = (afterPrune P G next).map (mapPair T E) := by
  unfold afterPrune
  rw [List.length_map, h.maxCandidates_eq]
  split
  · exact pruneCandidates_map h next hn
  · rfl

theorem afterPrune_V (P : Prims K) (G : GeoConsts K) (next : List (Cand K × Cand K)) (hn : ∀ p ∈ next, PairV V p) :
    ∀ p ∈ afterPrune P G next, PairV V p := by
  unfold afterPrune
  split
  · exact pruneCandidates_V P next hn
  · exact hn

/-- **the round loop** gives the same result on the two presentations, for every fuel -/
theorem rounds_map (h : PrimsRelated P G P' G' T Tp E V Vp) (n1 n2 : List (List K))
    (h1 : V n1) (h2 : V n2) : ∀ (fuel : ℕ) (cands : List (Cand K × Cand K)) (acc : List (K × K)),
      (∀ p ∈ cands, PairV V p) →
      allIntersections.rounds P' G' (T n1) (T n2) fuel (cands.map (mapPair T E)) acc
        = allIntersections.rounds P G n1 n2 fuel cands acc
  | 0, _, _, _ => rfl
  | f + 1, cands, acc, hc => by
    rw [rounds_succ, rounds_succ, intersectOneRound_map h n1 n2 h1 h2 cands hc acc,
      coincidentParameters_map h n1 n2 h1 h2]
    have hv := intersectOneRound_V h n1 n2 h1 h2 cands hc acc
    rcases hio : intersectOneRound P G n1 n2 cands acc with e | ⟨next, acc'⟩
    · rfl
    · rw [hio] at hv
      have hv : ∀ p ∈ next, PairV V p := hv
      simp only [mapRes]
      rw [afterPrune_map h next hv, List.length_map, List.isEmpty_map, h.maxCandidates_eq,
        rounds_map h n1 n2 h1 h2 f _ acc' (afterPrune_V P G next hv)]

theorem allIntersections_eq (P : Prims K) (G : GeoConsts K) (n1 n2 : List (List K)) :
    allIntersections P G n1 n2 =
      match checkLines P (fromShape P G (.curve ⟨n1, 0, 1⟩)) (fromShape P G (.curve ⟨n2, 0, 1⟩)) with
      | some r => .ok r
      | none => allIntersections.rounds P G n1 n2 G.maxRounds
          [(fromShape P G (.curve ⟨n1, 0, 1⟩), fromShape P G (.curve ⟨n2, 0, 1⟩))] [] := rfl

/-- **general form**: `P'` with `G'` on the transformed nets returns what `P` with `G` returns on the
    original nets — same parameters, same coincidence flag, same error -/
theorem allIntersections_related (h : PrimsRelated P G P' G' T Tp E V Vp) (n1 n2 : List (List K))
    (h1 : V n1) (h2 : V n2) :
    allIntersections P' G' (T n1) (T n2) = allIntersections P G n1 n2 := by
  have c1 : CandV V (.curve ⟨n1, 0, 1⟩) := h1
  have c2 : CandV V (.curve ⟨n2, 0, 1⟩) := h2
  have e1 : fromShape P' G' (.curve ⟨T n1, 0, 1⟩) = mapCand T E (fromShape P G (.curve ⟨n1, 0, 1⟩)) :=
    fromShape_map h (.curve ⟨n1, 0, 1⟩) c1
  have e2 : fromShape P' G' (.curve ⟨T n2, 0, 1⟩) = mapCand T E (fromShape P G (.curve ⟨n2, 0, 1⟩)) :=
    fromShape_map h (.curve ⟨n2, 0, 1⟩) c2
  have v1 := fromShape_V (V := V) P G _ c1
  have v2 := fromShape_V (V := V) P G _ c2
  rw [allIntersections_eq, allIntersections_eq, e1, e2, checkLines_map h _ _ v1 v2, h.maxRounds_eq]
  have hr := rounds_map h n1 n2 h1 h2 G.maxRounds
    [(fromShape P G (.curve ⟨n1, 0, 1⟩), fromShape P G (.curve ⟨n2, 0, 1⟩))] []
    (by intro p hp; rw [List.mem_singleton] at hp; subst hp; exact ⟨v1, v2⟩)
  simp only [List.map_cons, List.map_nil, mapPair] at hr
  rw [hr]

/-- **`all_intersections` does not see the presentation change** (one record of primitives): same
    parameters, same coincidence flag, same error, for every constant record `G` (every fuel
    `G.maxRounds`, every candidate budget) -/
theorem allIntersections_invariant {P : Prims K} (h : PrimsInvariant P T Tp V Vp) (G : GeoConsts K)
    (n1 n2 : List (List K)) (h1 : V n1) (h2 : V n2) :
    allIntersections P G (T n1) (T n2) = allIntersections P G n1 n2 :=
  allIntersections_related (h.related G) n1 n2 h1 h2

end Generic

end BezierVerif.PipelineEquivariance
