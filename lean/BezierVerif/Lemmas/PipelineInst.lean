import BezierVerif.Model.GeometricInst
import BezierVerif.Lemmas.Pipeline
import BezierVerif.Lemmas.Predicates
import BezierVerif.Props.C16
import BezierVerif.Props.C10

/-!
# Lemmas/PipelineInst — the concrete primitives (`Model/GeometricInst.lean`) inside the pipeline

* `concrete_primsOK`: `concretePrims py C` satisfies the contract `Pipe.PrimsOK` of the unit-square
  theorems (C02, C18);
* the `check_lines` exit of `all_intersections` for two degree-1 nets, computed outright
  (`linesResult`, `allIntersections_lines`);
* collinear segments in the parametrisation `S1 = S0 + σ0·Δ0`, `E1 = S0 + σ1·Δ0`;
* the decision logic of the candidate-budget exit (`rounds_flag`, `coincidentParameters_shape`).
-/

namespace BezierVerif.PipeInst

open Model BezierVerif Pipe Predicates

set_option linter.unusedSectionVars false

variable {K : Type} [Field K] [LinearOrder K] [IsStrictOrderedRing K]

/-! ## the contract -/

/-- `wiggle_interval` only returns values of `[0,1]` (any non-negative wiggle) -/
theorem wiggleInterval_unit (w v x : K) (hw : 0 ≤ w) (h : wiggleInterval w v = some x) : 0 ≤ x ∧ x ≤ 1 := by
  unfold wiggleInterval at h
  split_ifs at h with h1 h2 h3 <;> simp only [Option.some.injEq] at h <;> subst h
  · exact ⟨le_rfl, zero_le_one⟩
  · exact ⟨by linarith [h2.1], by linarith [h2.2]⟩
  · exact ⟨zero_le_one, le_rfl⟩

/-- the concrete primitives satisfy the contract of the unit-square theorems -/
theorem concrete_primsOK (py : Bool) (C : PipelineConsts K) (hw : 0 ≤ C.wiggle) :
    PrimsOK (concretePrims py C) where
  wiggle_unit := fun v x h => wiggleInterval_unit C.wiggle v x hw h
  inUnit_unit := fun v h => (C16.in_interval_exact v 0 1).mp h
  parallel_unit := by
    intro a b c d l h
    simp only [concretePrims] at h
    split at h
    · rename_i sS eS sT eT hp
      cases h
      obtain ⟨ha, hb, hc, hd⟩ := C16.parallel_unit _ _ _ _ _ _ _ _ hp
      exact pair_sq _ _ _ _ ha hc hb hd
    · cases h
  locate_unit := by
    intro n p s h
    simp only [concretePrims] at h
    split at h
    · cases h
    · cases h
    · rename_i s' hl
      cases h
      exact C10.in_domain _ _ _ _ _ _ _ hl

/-! ## two degree-1 nets: the `check_lines` exit -/

/-- what `check_lines` answers for the segments `S0 → E0`, `S1 → E1` (concrete primitives):
    the segment solution if it lies in the unit square, otherwise the parallel-lines parameters
    repackaged as two columns; a failing `parallel_lines_parameters` (degenerate first segment) is
    mapped to "disjoint" by `concretePrims` -/
def linesResult (S0 E0 S1 E1 : Pt K) : List (K × K) × Bool :=
  match segmentIntersection S0 E0 S1 E1 with
  | some (s, t) => if inInterval s 0 1 && inInterval t 0 1 then ([(s, t)], false) else ([], false)
  | none =>
    match parallelLinesParameters S0 E0 S1 E1 with
    | .ok (some (startS, endS, startT, endT)) => ([(startS, startT), (endS, endT)], true)
    | _ => ([], false)

/-- the (squared) linearisation error of a net with two columns is `0` -/
theorem linErrSq_line (py : Bool) (C : PipelineConsts K) (n : List (List K)) (h : ncols n = 2) :
    (concretePrims py C).linErrSq n = 0 := by
  simp only [concretePrims, linearizationErrorSq, h, if_true]

/-- … so `from_shape` linearises it with error `0` -/
theorem fromShape_line (py : Bool) (C : PipelineConsts K) (hE : 0 < C.geo.errValSq) (c : SubCurve K)
    (h : ncols c.nodes = 2) :
    fromShape (concretePrims py C) C.geo (.curve c) = .lin c 0 := by
  unfold fromShape
  dsimp only
  rw [linErrSq_line py C c.nodes h, if_pos hE]

/-- `check_lines` on two exact lines, concrete primitives -/
theorem checkLines_lines (py : Bool) (C : PipelineConsts K) (c1 c2 : SubCurve K) :
    checkLines (concretePrims py C) (.lin c1 0) (.lin c2 0) =
      some (linesResult (ptOf (firstNode c1.nodes)) (ptOf (lastNode c1.nodes))
        (ptOf (firstNode c2.nodes)) (ptOf (lastNode c2.nodes))) := by
  unfold checkLines linesResult
  simp only [and_self, if_true, concretePrims]
  cases hseg : segmentIntersection (ptOf (firstNode c1.nodes)) (ptOf (lastNode c1.nodes))
      (ptOf (firstNode c2.nodes)) (ptOf (lastNode c2.nodes)) with
  | some st =>
    obtain ⟨s, t⟩ := st
    dsimp only
    exact (apply_ite some _ _ _).symm
  | none =>
    dsimp only
    cases hpar : parallelLinesParameters (ptOf (firstNode c1.nodes)) (ptOf (lastNode c1.nodes))
        (ptOf (firstNode c2.nodes)) (ptOf (lastNode c2.nodes)) with
    | error e => rfl
    | ok r =>
      cases r with
      | none => rfl
      | some v => obtain ⟨a, b, c, d⟩ := v; rfl

/-- two nets with two columns each never enter the subdivision loop: `all_intersections` returns
    what `check_lines` returns -/
theorem allIntersections_of_lines (py : Bool) (C : PipelineConsts K) (hE : 0 < C.geo.errValSq)
    (n1 n2 : List (List K)) (h1 : ncols n1 = 2) (h2 : ncols n2 = 2) :
    allIntersections (concretePrims py C) C.geo n1 n2 =
      .ok (linesResult (ptOf (firstNode n1)) (ptOf (lastNode n1)) (ptOf (firstNode n2)) (ptOf (lastNode n2))) := by
  unfold allIntersections
  dsimp only
  rw [fromShape_line py C hE _ h1, fromShape_line py C hE _ h2, checkLines_lines]

/-- the planar case written out -/
theorem allIntersections_lines (py : Bool) (C : PipelineConsts K) (hE : 0 < C.geo.errValSq)
    (x0 x1 y0 y1 u0 u1 v0 v1 : K) :
    allIntersections (concretePrims py C) C.geo [[x0, x1], [y0, y1]] [[u0, u1], [v0, v1]] =
      .ok (linesResult (x0, y0) (x1, y1) (u0, v0) (u1, v1)) :=
  allIntersections_of_lines py C hE _ _ rfl rfl

/-! ## collinear segments -/

/-- the point of parameter `σ` on the line through `S0` and `E0` -/
def onLine (S0 E0 : Pt K) (σ : K) : Pt K := (S0.1 + σ * (E0.1 - S0.1), S0.2 + σ * (E0.2 - S0.2))

theorem psub_ne_zero (S0 E0 : Pt K) (hne : E0 ≠ S0) : psub E0 S0 ≠ (0, 0) := by
  intro h0; apply hne
  simp only [psub, Prod.mk.injEq] at h0
  exact Prod.ext (by linarith [h0.1]) (by linarith [h0.2])

theorem delta_ne_zero (S0 E0 : Pt K) (hne : E0 ≠ S0) : E0.1 - S0.1 ≠ 0 ∨ E0.2 - S0.2 ≠ 0 := by
  by_contra hc
  push Not at hc
  exact psub_ne_zero S0 E0 hne (Prod.ext hc.1 hc.2)

/-- collinear segments (parallel directions, the second start on the first line) are of the form
    `S1 = S0 + σ0·Δ0`, `E1 = S0 + σ1·Δ0` -/
theorem collinear_exists_params (S0 E0 S1 E1 : Pt K) (hne : E0 ≠ S0)
    (hpar : cross (psub E0 S0) (psub E1 S1) = 0) (hline : cross (psub S1 S0) (psub E0 S0) = 0) :
    ∃ σ0 σ1 : K, S1 = onLine S0 E0 σ0 ∧ E1 = onLine S0 E0 σ1 := by
  have hn := dot2_self_ne_zero (psub E0 S0) (psub_ne_zero S0 E0 hne)
  have h1 : cross S0 (psub E0 S0) = cross S1 (psub E0 S0) := by
    simp only [cross, psub] at hline ⊢
    linear_combination (-1 : K) * hline
  have h2 : cross S0 (psub E0 S0) = cross E1 (psub E0 S0) := by
    simp only [cross, psub] at hpar hline ⊢
    linear_combination (-1 : K) * hline + hpar
  obtain ⟨p1, p2⟩ := on_line_param S0 S1 (psub E0 S0) hn h1
  obtain ⟨q1, q2⟩ := on_line_param S0 E1 (psub E0 S0) hn h2
  exact ⟨_, _, Prod.ext p1 p2, Prod.ext q1 q2⟩

theorem segmentIntersection_onLine (S0 E0 : Pt K) (σ0 σ1 : K) :
    segmentIntersection S0 E0 (onLine S0 E0 σ0) (onLine S0 E0 σ1) = none := by
  unfold segmentIntersection
  simp only
  rw [if_pos]
  simp only [cross, psub, onLine]
  ring

/-- on the line of the first segment `parallel_lines_parameters` sees exactly `σ0`, `σ1` -/
theorem parallelLinesParameters_onLine (S0 E0 : Pt K) (hne : E0 ≠ S0) (σ0 σ1 : K) :
    parallelLinesParameters S0 E0 (onLine S0 E0 σ0) (onLine S0 E0 σ1) = .ok (parallelParams σ0 σ1) := by
  have hn := dot2_self_ne_zero (psub E0 S0) (psub_ne_zero S0 E0 hne)
  have hl : cross S0 (psub E0 S0) = cross (onLine S0 E0 σ0) (psub E0 S0) := by
    simp only [cross, psub, onLine]; ring
  have e0 : dot2 (psub (onLine S0 E0 σ0) S0) (psub E0 S0) / dot2 (psub E0 S0) (psub E0 S0) = σ0 := by
    rw [div_eq_iff hn]; simp only [dot2, psub, onLine]; ring
  have e1 : dot2 (psub (onLine S0 E0 σ1) S0) (psub E0 S0) / dot2 (psub E0 S0) (psub E0 S0) = σ1 := by
    rw [div_eq_iff hn]; simp only [dot2, psub, onLine]; ring
  unfold parallelLinesParameters
  simp only
  rw [if_neg (not_not.mpr hl), if_neg hn, e0, e1]

/-- the `check_lines` answer for collinear segments -/
theorem linesResult_onLine (S0 E0 : Pt K) (hne : E0 ≠ S0) (σ0 σ1 : K) :
    linesResult S0 E0 (onLine S0 E0 σ0) (onLine S0 E0 σ1) =
      match parallelParams σ0 σ1 with
      | some (a, b, c, d) => ([(a, c), (b, d)], true)
      | none => ([], false) := by
  unfold linesResult
  rw [segmentIntersection_onLine, parallelLinesParameters_onLine S0 E0 hne]
  dsimp only
  cases parallelParams σ0 σ1 with
  | none => rfl
  | some v => obtain ⟨a, b, c, d⟩ := v; rfl

/-- the part of the first segment's LINE covered by the second segment is `[min σ0 σ1, max σ0 σ1]` -/
theorem common_part_iff (S0 E0 : Pt K) (hne : E0 ≠ S0) (σ0 σ1 s : K) :
    (∃ t : K, 0 ≤ t ∧ t ≤ 1 ∧ onLine S0 E0 s = onLine (onLine S0 E0 σ0) (onLine S0 E0 σ1) t) ↔
      min σ0 σ1 ≤ s ∧ s ≤ max σ0 σ1 := by
  have hD := delta_ne_zero S0 E0 hne
  have key : ∀ t : K, onLine S0 E0 s = onLine (onLine S0 E0 σ0) (onLine S0 E0 σ1) t ↔ s = σ0 + t * (σ1 - σ0) := by
    intro t
    simp only [onLine, Prod.mk.injEq]
    constructor
    · rintro ⟨e1, e2⟩
      rcases hD with hD | hD
      · apply mul_right_cancel₀ hD; linear_combination e1
      · apply mul_right_cancel₀ hD; linear_combination e2
    · intro h; subst h; constructor <;> ring
  constructor
  · rintro ⟨t, t0, t1, ht⟩
    rw [key] at ht
    subst ht
    rcases le_total σ0 σ1 with h | h
    · rw [min_eq_left h, max_eq_right h]
      constructor <;> nlinarith [mul_nonneg t0 (sub_nonneg.mpr h), mul_nonneg (sub_nonneg.mpr t1) (sub_nonneg.mpr h)]
    · rw [min_eq_right h, max_eq_left h]
      constructor <;> nlinarith [mul_nonneg t0 (sub_nonneg.mpr h), mul_nonneg (sub_nonneg.mpr t1) (sub_nonneg.mpr h)]
  · rintro ⟨h1, h2⟩
    by_cases he : σ0 = σ1
    · subst he
      rw [min_self] at h1; rw [max_self] at h2
      exact ⟨0, le_rfl, zero_le_one, (key 0).mpr (by linarith)⟩
    · have hne' : σ1 - σ0 ≠ 0 := sub_ne_zero.mpr (Ne.symm he)
      refine ⟨(s - σ0) / (σ1 - σ0), ?_, ?_, (key _).mpr (by field_simp; ring)⟩
      · rcases lt_or_gt_of_ne he with h | h
        · rw [min_eq_left h.le] at h1
          exact div_nonneg (by linarith) (by linarith)
        · rw [max_eq_left h.le] at h2
          exact div_nonneg_of_nonpos (by linarith) (by linarith)
      · rcases lt_or_gt_of_ne he with h | h
        · rw [max_eq_right h.le] at h2
          rw [div_le_one (by linarith)]; linarith
        · rw [min_eq_right h.le] at h1
          rw [div_le_one_of_neg (by linarith)]; linarith

/-! ## the twelve leaves of `parallel_lines_parameters`: order of the two columns -/

/-- the two `t`-values in terms of the two `s`-values -/
theorem parallelParams_t_values (s0 s1 a b c d : K) (h : parallelParams s0 s1 = some (a, b, c, d))
    (hne : s0 ≠ s1) : c = (a - s0) / (s1 - s0) ∧ d = (b - s0) / (s1 - s0) := by
  obtain ⟨h1, h2⟩ := parallelParams_consistent s0 s1 a b c d h
  have hne' : s1 - s0 ≠ 0 := sub_ne_zero.mpr (Ne.symm hne)
  constructor
  · rw [eq_div_iff hne']; linear_combination -h1
  · rw [eq_div_iff hne']; linear_combination -h2

/-- same direction: the columns are ordered along BOTH segments -/
theorem parallelParams_order_same (s0 s1 a b c d : K) (h : parallelParams s0 s1 = some (a, b, c, d))
    (hle : s0 ≤ s1) : a ≤ b ∧ c ≤ d := by
  unfold parallelParams at h
  rw [if_pos hle] at h
  split_ifs at h <;> simp only [Option.some.injEq, Prod.mk.injEq] at h <;>
    obtain ⟨rfl, rfl, rfl, rfl⟩ := h <;>
    refine ⟨?_, ?_⟩ <;>
    first
      | linarith
      | (apply div_nonneg <;> linarith)
      | (rw [div_le_one (by linarith)]; linarith)
      | (apply div_le_div_of_nonneg_right <;> linarith)

/-- opposite direction: the columns are ordered along the SECOND segment, i.e. the `s`-values DEcrease -/
theorem parallelParams_order_opposite (s0 s1 a b c d : K) (h : parallelParams s0 s1 = some (a, b, c, d))
    (hlt : s1 < s0) : b ≤ a ∧ c ≤ d := by
  unfold parallelParams at h
  rw [if_neg (not_le.mpr hlt)] at h
  split_ifs at h <;> simp only [Option.some.injEq, Prod.mk.injEq] at h <;>
    obtain ⟨rfl, rfl, rfl, rfl⟩ := h <;>
    refine ⟨?_, ?_⟩ <;>
    first
      | linarith
      | (apply div_nonneg <;> linarith)
      | (rw [div_le_one (by linarith)]; linarith)
      | (apply div_le_div_of_nonneg_right <;> linarith)

/-- the parameters exist exactly when `[0,1]` meets the span of `s0`, `s1` -/
theorem parallelParams_some_iff (s0 s1 : K) :
    (∃ v, parallelParams s0 s1 = some v) ↔ ¬ ((s0 < 0 ∧ s1 < 0) ∨ (1 < s0 ∧ 1 < s1)) := by
  rw [← parallelParams_none_iff]
  cases parallelParams s0 s1 <;> simp

/-- everything about the answer of `parallelParams` when the second segment is not degenerate and `[0,1]`
    meets its span: the first row holds the end points `lo = max 0 (min s0 s1)`, `hi = min 1 (max s0 s1)`
    of the common part, in the order of the second segment; the second row the matching parameters -/
theorem parallelParams_overlap (s0 s1 : K) (hne : s0 ≠ s1)
    (hov : max 0 (min s0 s1) ≤ min 1 (max s0 s1)) :
    ∃ a b c d : K, parallelParams s0 s1 = some (a, b, c, d) ∧
      (s0 < s1 → a = max 0 (min s0 s1) ∧ b = min 1 (max s0 s1)) ∧
      (s1 < s0 → a = min 1 (max s0 s1) ∧ b = max 0 (min s0 s1)) ∧
      c = (a - s0) / (s1 - s0) ∧ d = (b - s0) / (s1 - s0) ∧
      (0 ≤ a ∧ a ≤ 1) ∧ (0 ≤ b ∧ b ≤ 1) ∧ (0 ≤ c ∧ c ≤ 1) ∧ (0 ≤ d ∧ d ≤ 1) ∧ c ≤ d := by
  have hsome : ∃ v, parallelParams s0 s1 = some v := by
    rw [parallelParams_some_iff]
    rintro (⟨h1, h2⟩ | ⟨h1, h2⟩)
    · have : min 1 (max s0 s1) < 0 := lt_of_le_of_lt (min_le_right _ _) (max_lt h1 h2)
      have : (0 : K) ≤ max 0 (min s0 s1) := le_max_left _ _
      linarith
    · have : 1 < max 0 (min s0 s1) := lt_of_lt_of_le (lt_min h1 h2) (le_max_right _ _)
      have : min 1 (max s0 s1) ≤ (1 : K) := min_le_left _ _
      linarith
  obtain ⟨⟨a, b, c, d⟩, h⟩ := hsome
  obtain ⟨cf1, cf2⟩ := parallelParams_closed_form s0 s1 a b c d h
  obtain ⟨tc, td⟩ := parallelParams_t_values s0 s1 a b c d h hne
  obtain ⟨ua, ub, uc, ud⟩ := parallelParams_unit s0 s1 a b c d h
  refine ⟨a, b, c, d, h, ?_, ?_, tc, td, ua, ub, uc, ud, ?_⟩
  · intro hlt
    rw [min_eq_left hlt.le, max_eq_right hlt.le]
    exact cf1 hlt.le
  · intro hlt
    rw [min_eq_right hlt.le, max_eq_left hlt.le]
    exact cf2 hlt
  · rcases lt_or_gt_of_ne hne with hlt | hlt
    · exact (parallelParams_order_same s0 s1 a b c d h hlt.le).2
    · exact (parallelParams_order_opposite s0 s1 a b c d h hlt).2

/-! ## the candidate-budget exit -/

/-- a flagged result of the round loop is the answer of `coincident_parameters`, asked after a round that
    left more than `maxCandidates` candidates -/
theorem rounds_flag (P : Prims K) (G : GeoConsts K) (n1 n2 : List (List K)) :
    ∀ (fuel : ℕ) (cands : List (Cand K × Cand K)) (acc pts : List (K × K)),
      allIntersections.rounds P G n1 n2 fuel cands acc = .ok (pts, true) →
      coincidentParameters P G n1 n2 = .ok (some pts) ∧
      ∃ cands' acc0 next acc', intersectOneRound P G n1 n2 cands' acc0 = .ok (next, acc') ∧
        G.maxCandidates < (afterPrune P G next).length := by
  intro fuel
  induction fuel with
  | zero => intro cands acc pts h; rw [rounds_zero] at h; cases h
  | succ f ih =>
    intro cands acc pts h
    rw [rounds_succ] at h
    split at h
    · cases h
    · rename_i next acc' hround
      split_ifs at h with hmany hempty
      · split at h
        · cases h
        · cases h
        · rename_i params hco
          cases h
          exact ⟨hco, cands, acc, next, acc', hround, hmany⟩
      · cases h
      · exact ih _ _ _ h

/-- an unflagged result of the round loop: the last round left no candidate (and the budget was respected) -/
theorem rounds_unflagged (P : Prims K) (G : GeoConsts K) (n1 n2 : List (List K)) :
    ∀ (fuel : ℕ) (cands : List (Cand K × Cand K)) (acc pts : List (K × K)),
      allIntersections.rounds P G n1 n2 fuel cands acc = .ok (pts, false) →
      ∃ cands' acc0 next, intersectOneRound P G n1 n2 cands' acc0 = .ok (next, pts) ∧
        (afterPrune P G next).length ≤ G.maxCandidates ∧ (afterPrune P G next).isEmpty = true := by
  intro fuel
  induction fuel with
  | zero => intro cands acc pts h; rw [rounds_zero] at h; cases h
  | succ f ih =>
    intro cands acc pts h
    rw [rounds_succ] at h
    split at h
    · cases h
    · rename_i next acc' hround
      split_ifs at h with hmany hempty
      · split at h <;> cases h
      · cases h
        exact ⟨cands, acc, next, hround, not_lt.mp hmany, hempty⟩
      · exact ih _ _ _ h

/-- once a round leaves more than `maxCandidates` candidates (after pruning), the loop ends at once: with an
    error, or with the two coincident columns and the flag -/
theorem rounds_budget_exit (P : Prims K) (G : GeoConsts K) (n1 n2 : List (List K)) (f : ℕ)
    (cands next : List (Cand K × Cand K)) (acc acc' : List (K × K))
    (hround : intersectOneRound P G n1 n2 cands acc = .ok (next, acc'))
    (hmany : G.maxCandidates < (afterPrune P G next).length) :
    (coincidentParameters P G n1 n2 = .ok none ∧
        allIntersections.rounds P G n1 n2 (f + 1) cands acc = .error .notImplemented) ∨
    (∃ e, coincidentParameters P G n1 n2 = .error e ∧
        allIntersections.rounds P G n1 n2 (f + 1) cands acc = .error e) ∨
    (∃ l, coincidentParameters P G n1 n2 = .ok (some l) ∧
        allIntersections.rounds P G n1 n2 (f + 1) cands acc = .ok (l, true)) := by
  rw [rounds_succ, hround]
  dsimp only
  rw [if_pos hmany]
  cases hco : coincidentParameters P G n1 n2 with
  | error e => exact Or.inr (Or.inl ⟨e, rfl, rfl⟩)
  | ok r =>
    cases r with
    | none => exact Or.inl ⟨rfl, rfl⟩
    | some l => exact Or.inr (Or.inr ⟨l, rfl, rfl⟩)

/-- the six forms of a positive answer of `coincident_parameters` (`m1`, `m2`: the nets after
    `make_same_degree`); every non-literal entry is a value returned by `locate_point` -/
def CoincidentShape (P : Prims K) (m1 m2 : List (List K)) (l : List (K × K)) : Prop :=
  (∃ si sf, P.locate m1 (firstNode m2) = .ok (some si) ∧ P.locate m1 (lastNode m2) = .ok (some sf) ∧
      l = [(si, 0), (sf, 1)]) ∨
  (∃ ti tf, P.locate m2 (firstNode m1) = .ok (some ti) ∧ P.locate m2 (lastNode m1) = .ok (some tf) ∧
      l = [(0, ti), (1, tf)]) ∨
  (∃ sf tf, P.locate m1 (firstNode m2) = .ok none ∧ P.locate m1 (lastNode m2) = .ok (some sf) ∧
      P.locate m2 (firstNode m1) = .ok none ∧ P.locate m2 (lastNode m1) = .ok (some tf) ∧
      l = [(sf, 1), (1, tf)]) ∨
  (∃ sf ti, P.locate m1 (firstNode m2) = .ok none ∧ P.locate m1 (lastNode m2) = .ok (some sf) ∧
      P.locate m2 (firstNode m1) = .ok (some ti) ∧ P.locate m2 (lastNode m1) = .ok none ∧
      l = [(0, ti), (sf, 1)]) ∨
  (∃ si tf, P.locate m1 (firstNode m2) = .ok (some si) ∧ P.locate m1 (lastNode m2) = .ok none ∧
      P.locate m2 (firstNode m1) = .ok none ∧ P.locate m2 (lastNode m1) = .ok (some tf) ∧
      l = [(si, 0), (1, tf)]) ∨
  (∃ si ti, P.locate m1 (firstNode m2) = .ok (some si) ∧ P.locate m1 (lastNode m2) = .ok none ∧
      P.locate m2 (firstNode m1) = .ok (some ti) ∧ P.locate m2 (lastNode m1) = .ok none ∧
      l = [(0, ti), (si, 0)])

theorem CoincidentShape.length_eq {P : Prims K} {m1 m2 : List (List K)} {l : List (K × K)}
    (h : CoincidentShape P m1 m2 l) : l.length = 2 := by
  rcases h with ⟨_, _, _, _, rfl⟩ | ⟨_, _, _, _, rfl⟩ | ⟨_, _, _, _, _, _, rfl⟩ | ⟨_, _, _, _, _, _, rfl⟩ |
    ⟨_, _, _, _, _, _, rfl⟩ | ⟨_, _, _, _, _, _, rfl⟩ <;> rfl

theorem coincidentParameters_shape (P : Prims K) (G : GeoConsts K) (n1 n2 : List (List K))
    (l : List (K × K)) (h : coincidentParameters P G n1 n2 = .ok (some l)) :
    CoincidentShape P (makeSameDegree n1 n2).1 (makeSameDegree n1 n2).2 l := by
  unfold coincidentParameters at h
  dsimp only at h
  split at h
  · cases h
  · cases h
  · rename_i sInit sFinal hsi hsf
    split at h
    · split at h
      · cases h
        exact Or.inl ⟨_, _, hsi, hsf, rfl⟩
      · cases h
    · split at h
      · cases h
      · cases h
      · rename_i tInit tFinal hti htf
        split at h
        · cases h
        · split at h
          · cases h
            exact Or.inr (Or.inl ⟨_, _, hti, htf, rfl⟩)
          · cases h
        · split at h
          · cases h
          · rcases sInit with _ | si <;> rcases sFinal with _ | sf <;>
              rcases tInit with _ | ti <;> rcases tFinal with _ | tf <;>
              dsimp only [Option.getD] at h <;> split_ifs at h <;> cases h
            all_goals first
              | exact Or.inr (Or.inr (Or.inl ⟨_, _, hsi, hsf, hti, htf, rfl⟩))
              | exact Or.inr (Or.inr (Or.inr (Or.inl ⟨_, _, hsi, hsf, hti, htf, rfl⟩)))
              | exact Or.inr (Or.inr (Or.inr (Or.inr (Or.inl ⟨_, _, hsi, hsf, hti, htf, rfl⟩))))
              | exact Or.inr (Or.inr (Or.inr (Or.inr (Or.inr ⟨_, _, hsi, hsf, hti, htf, rfl⟩))))
              | (exfalso; simp_all)

/-- an error of `coincident_parameters` is the error of one of its four `locate_point` calls -/
theorem coincidentParameters_error (P : Prims K) (G : GeoConsts K) (n1 n2 : List (List K)) (e : Err)
    (h : coincidentParameters P G n1 n2 = .error e) :
    P.locate (makeSameDegree n1 n2).1 (firstNode (makeSameDegree n1 n2).2) = .error e ∨
    P.locate (makeSameDegree n1 n2).1 (lastNode (makeSameDegree n1 n2).2) = .error e ∨
    P.locate (makeSameDegree n1 n2).2 (firstNode (makeSameDegree n1 n2).1) = .error e ∨
    P.locate (makeSameDegree n1 n2).2 (lastNode (makeSameDegree n1 n2).1) = .error e := by
  unfold coincidentParameters at h
  dsimp only at h
  split at h
  · cases h; exact Or.inl (by assumption)
  · cases h; exact Or.inr (Or.inl (by assumption))
  · split at h
    · split at h <;> cases h
    · split at h
      · cases h; exact Or.inr (Or.inr (Or.inl (by assumption)))
      · cases h; exact Or.inr (Or.inr (Or.inr (by assumption)))
      · split at h
        · cases h
        · split at h <;> cases h
        · split at h
          · cases h
          · split at h <;> split_ifs at h

/-- the concrete `locate` can only fail with `ValueError` (Python) / `NotImplementedError` (compiled:
    `LOCATE_INVALID` is turned into "not coincident") -/
theorem concrete_locate_error (py : Bool) (C : PipelineConsts K) (nodes : List (List K)) (pt : List K) (e : Err)
    (h : (concretePrims py C).locate nodes pt = .error e) :
    e = if py then .valueError else .notImplemented := by
  simp only [concretePrims] at h
  split at h
  · cases h
  · cases h; rfl
  · cases h

/-! ## the library's constants (non-vacuity, decided counter-examples) -/

/-- the constants of the library: 20 rounds, 64 candidates, `_ERROR_VAL = 2⁻²⁶`, `ZERO_THRESHOLD = 2⁻¹⁰`,
    `NEWTON_ERROR_RATIO = 2⁻³⁶`, `_MIN_INTERVAL_WIDTH = 2⁻⁴⁰`, `WIGGLE = 2⁻⁴⁴`, `vector_close` eps `2⁻⁴⁰`,
    evaluation switch 55, 10 Newton iterations, 21 locate rounds, `LOCATE_STD_CAP = 2⁻²⁰`; exact arithmetic
    (`rnd = id`); squares where the model compares squares -/
def libConsts : PipelineConsts ℚ where
  geo := { errValSq := 1 / 2 ^ 52, maxRounds := 20, maxCandidates := 64, zeroThr := 1 / 2 ^ 10,
           ratioSq := 1 / 2 ^ 72, minWidth := 1 / 2 ^ 40, unhandledLinesRaise := true }
  vsThr := 55
  wiggle := 1 / 2 ^ 44
  epsSq := 1 / 2 ^ 80
  newtonFuel := 10
  locateRounds := 21
  locateCapSq := 1 / 2 ^ 40
  rnd := id

theorem libConsts_wiggle : (0 : ℚ) ≤ libConsts.wiggle := by norm_num [libConsts]

theorem libConsts_errVal : (0 : ℚ) < libConsts.geo.errValSq := by norm_num [libConsts]

end BezierVerif.PipeInst
