import BezierVerif.Lemmas.PipelineTranslate
import BezierVerif.Lemmas.Solve2x2

/-!
# Lemmas/PipelineLinear — linear changes of presentation: shared lemmas

Shared by Lemmas/PipelineScale.lean (scaling by `k > 0`), Lemmas/PipelineMirror.lean (mirror `x ↦ -x`, axis swap):

* `sc c row` (every entry times `c`) commutes with every LINEAR routine of the curve model, for every `c` and every row:
  de Casteljau rounds, `evaluate_multi_barycentric` (both algorithms, every degree ≥ 0 — no partition of unity needed),
  specialisation, subdivision (both variants), elevation, forward differences / derivative nets;
* `diag a b [xs, ys] = [sc a xs, sc b ys]` on planar arrays: the node-producing primitives commute with it;
  `swapRows [xs, ys] = [ys, xs]`: likewise;
* `Similar L m n`: a map `L` of the plane with `L(p) − L(q) = L(p − q)`, `cross(Lu, Lv) = m · cross(u, v)`,
  `dot(Lu, Lv) = n · dot(u, v)`, `m, n ≠ 0` (scalings: `m = n = k²`; mirror: `m = -1, n = 1`; axis swap: `m = -1, n = 1`):
  `segment_intersection`, `parallel_lines_parameters`, `line_line_collide` do not see it.
-/

set_option linter.unusedSectionVars false
set_option linter.unusedVariables false

namespace BezierVerif.PipelineLinear

open Model BezierVerif Equivariance PipelineTranslate

variable {K : Type} [Field K] [LinearOrder K] [IsStrictOrderedRing K]

/-! ## one row -/

/-- every entry times `c` -/
def sc (c : K) (row : List K) : List K := row.map (fun x => c * x)

@[simp] theorem sc_length (c : K) (row : List K) : (sc c row).length = row.length := by
  unfold sc; rw [List.length_map]

theorem getD_sc (c : K) (row : List K) (i : ℕ) : (sc c row).getD i 0 = c * row.getD i 0 := by
  unfold sc
  rw [List.getD_eq_getElem?_getD, List.getD_eq_getElem?_getD, List.getElem?_map]
  cases row[i]? <;> simp

theorem seq_sc (c : K) (row : List K) : seq (sc c row) = fun j => c * seq row j := by
  funext j; exact getD_sc c row j

theorem headD_sc (c : K) (row : List K) : (sc c row).headD 0 = c * row.headD 0 := by
  cases row <;> simp [sc]

theorem dcRound_sc (α β c : K) : ∀ l : List K, dcRound α β (sc c l) = sc c (dcRound α β l)
  | [] => rfl
  | [_] => rfl
  | x :: y :: rest => by
    have ih := dcRound_sc α β c (y :: rest)
    unfold sc at ih ⊢
    simp only [List.map_cons, dcRound] at ih ⊢
    rw [ih]
    congr 1
    ring

theorem iter_dcRound_sc (α β c : K) : ∀ (m : ℕ) (l : List K),
    iter (dcRound α β) m (sc c l) = sc c (iter (dcRound α β) m l)
  | 0, l => rfl
  | m + 1, l => by
    simp only [iter]
    rw [dcRound_sc, iter_dcRound_sc α β c m]

theorem evalDC_sc (α β c : K) : ∀ (n : ℕ) (l : List K), evalDC α β n (sc c l) = c * evalDC α β n l
  | 0, l => headD_sc c l
  | n + 1, l => by
    simp only [evalDC]
    rw [dcRound_sc, evalDC_sc α β c n]

theorem vsLoop_sc (degree : ℕ) (l1 l2 c : K) (v : ℕ → K) : ∀ i,
    (vsLoop degree l1 l2 (fun j => c * v j) i).result = c * (vsLoop degree l1 l2 v i).result ∧
    (vsLoop degree l1 l2 (fun j => c * v j) i).binom = (vsLoop degree l1 l2 v i).binom ∧
    (vsLoop degree l1 l2 (fun j => c * v j) i).pow = (vsLoop degree l1 l2 v i).pow
  | 0 => ⟨by simp only [vsLoop]; ring, rfl, rfl⟩
  | i + 1 => by
    obtain ⟨h1, h2, h3⟩ := vsLoop_sc degree l1 l2 c v i
    simp only [vsLoop, vsStep]
    rw [h1, h2, h3]
    exact ⟨by ring, rfl, rfl⟩

theorem evalVS_sc (degree : ℕ) (l1 l2 c : K) (v : ℕ → K) :
    evalVS degree l1 l2 (fun j => c * v j) = c * evalVS degree l1 l2 v := by
  obtain ⟨h1, _, h3⟩ := vsLoop_sc degree l1 l2 c v (degree - 1)
  unfold evalVS
  simp only
  rw [h1, h3]
  ring

/-- `evaluate_multi_barycentric` is linear in the control row: both algorithms, every row, any weights -/
theorem evalBary_sc (thr : ℕ) (c : K) (row : List K) (l1 l2 : K) :
    evalBary thr (sc c row) l1 l2 = c * evalBary thr row l1 l2 := by
  unfold evalBary
  rw [sc_length, seq_sc]
  split_ifs
  · exact evalDC_sc l1 l2 c _ row
  · exact evalVS_sc _ l1 l2 c _

theorem evalRow_sc (thr : ℕ) (c : K) (row : List K) (s : K) : evalRow thr (sc c row) s = c * evalRow thr row s :=
  evalBary_sc thr c row (1 - s) s

theorem diffs_sc (c : K) : ∀ row : List K, diffs (sc c row) = sc c (diffs row)
  | [] => rfl
  | [_] => rfl
  | x :: y :: rest => by
    have ih := diffs_sc c (y :: rest)
    unfold sc at ih ⊢
    simp only [List.map_cons, diffs] at ih ⊢
    rw [ih]
    congr 1
    ring

theorem derivNet_sc (c : K) (row : List K) : derivNet (sc c row) = sc c (derivNet row) := by
  unfold derivNet
  rw [diffs_sc, sc_length]
  unfold sc
  rw [List.map_map, List.map_map]
  apply List.map_congr_left
  intro x _
  simp only [Function.comp]
  ring

theorem hodographRow_sc (thr : ℕ) (c : K) (row : List K) (s : K) :
    hodographRow thr (sc c row) s = c * hodographRow thr row s := by
  unfold hodographRow
  rw [diffs_sc, sc_length, evalBary_sc]
  ring

theorem specPoint_sc (a b c : K) (row : List K) (i : ℕ) : specPoint a b (sc c row) i = c * specPoint a b row i := by
  unfold specPoint
  simp only [sc_length]
  rw [iter_dcRound_sc, iter_dcRound_sc, headD_sc]

theorem py_specializeRow_sc (a b c : K) (row : List K) :
    Py.specializeRow (sc c row) a b = sc c (Py.specializeRow row a b) := by
  unfold Py.specializeRow
  rw [sc_length]
  conv_rhs => unfold sc
  rw [List.map_map]
  apply List.map_congr_left
  intro i _
  exact specPoint_sc a b c row i

theorem elevateRow_sc (c : K) (row : List K) : elevateRow (sc c row) = sc c (elevateRow row) := by
  unfold elevateRow
  simp only [sc_length, seq_sc]
  conv_rhs => unfold sc
  rw [List.map_map]
  apply List.map_congr_left
  intro j _
  simp only [Function.comp]
  split_ifs
  · rfl
  · rfl
  · rw [← mul_div_assoc]
    congr 1
    ring

/-! ## planar arrays: `diag a b` and `swapRows` -/

/-- `x ↦ a x`, `y ↦ b y` on a planar array -/
def diag (a b : K) : List (List K) → List (List K)
  | [xs, ys] => [sc a xs, sc b ys]
  | n => n

def diagPt (a b : K) : List K → List K
  | [x, y] => [a * x, b * y]
  | p => p

/-- the same map on pairs -/
def dpt (a b : K) (p : Pt K) : Pt K := (a * p.1, b * p.2)

/-- the two rows exchanged -/
def swapRows : List (List K) → List (List K)
  | [xs, ys] => [ys, xs]
  | n => n

def swapPt : List K → List K
  | [x, y] => [y, x]
  | p => p

def spt (p : Pt K) : Pt K := (p.2, p.1)

theorem scale_eq_diag (k : K) (xs ys : List K) : scale k [xs, ys] = diag k k [xs, ys] := rfl

theorem scalePt_eq_diagPt (k x y : K) : scalePt k [x, y] = diagPt k k [x, y] := rfl

theorem mirrorX_eq_diag (xs ys : List K) : mirrorX [xs, ys] = diag (-1) 1 [xs, ys] := by
  show [xs.map (fun x => -x), ys] = [xs.map (fun x => -1 * x), ys.map (fun x => 1 * x)]
  simp only [neg_one_mul, one_mul, List.map_id']

theorem mirrorXPt_eq_diagPt (x y : K) : mirrorXPt [x, y] = diagPt (-1) 1 [x, y] := by
  show [-x, y] = [-1 * x, 1 * y]
  rw [neg_one_mul, one_mul]

theorem swapAxes_eq_swapRows (xs ys : List K) : swapAxes [xs, ys] = swapRows [xs, ys] := rfl

theorem scale_planar (k : K) (n : List (List K)) (h : Planar n) : scale k n = diag k k n := by
  obtain ⟨xs, ys, rfl, _, _⟩ := h; rfl

theorem scalePt_point2 (k : K) (p : List K) (h : Point2 p) : scalePt k p = diagPt k k p := by
  obtain ⟨x, y, rfl⟩ := point2_cases p h; rfl

theorem mirrorX_planar (n : List (List K)) (h : Planar n) : mirrorX n = diag (-1) 1 n := by
  obtain ⟨xs, ys, rfl, _, _⟩ := h; exact mirrorX_eq_diag xs ys

theorem swapAxes_planar (n : List (List K)) (h : Planar n) : swapAxes n = swapRows n := by
  obtain ⟨xs, ys, rfl, _, _⟩ := h; rfl

theorem planar_diag (a b : K) (n : List (List K)) (h : Planar n) : Planar (diag a b n) := by
  obtain ⟨xs, ys, rfl, h1, h2⟩ := h
  exact ⟨sc a xs, sc b ys, rfl, by simpa using h1, by simpa using h2⟩

theorem planar_swapRows (n : List (List K)) (h : Planar n) : Planar (swapRows n) := by
  obtain ⟨xs, ys, rfl, h1, h2⟩ := h
  exact ⟨ys, xs, rfl, h1.symm, by omega⟩

theorem ptOf_diagPt (a b : K) (p : List K) (h : Point2 p) : ptOf (diagPt a b p) = dpt a b (ptOf p) := by
  obtain ⟨x, y, rfl⟩ := point2_cases p h; rfl

theorem ptOf_swapPt (p : List K) (h : Point2 p) : ptOf (swapPt p) = spt (ptOf p) := by
  obtain ⟨x, y, rfl⟩ := point2_cases p h; rfl

theorem firstNode_diag (a b : K) (n : List (List K)) (h : Planar n) :
    firstNode (diag a b n) = diagPt a b (firstNode n) := by
  obtain ⟨xs, ys, rfl, _, _⟩ := h
  simp only [diag, firstNode, List.map_cons, List.map_nil, headD_sc, diagPt]

theorem lastNode_diag (a b : K) (n : List (List K)) (h : Planar n) :
    lastNode (diag a b n) = diagPt a b (lastNode n) := by
  obtain ⟨xs, ys, rfl, _, _⟩ := h
  simp only [diag, lastNode, List.map_cons, List.map_nil, getD_sc, sc_length, diagPt]

theorem firstNode_swapRows (n : List (List K)) (h : Planar n) : firstNode (swapRows n) = swapPt (firstNode n) := by
  obtain ⟨xs, ys, rfl, _, _⟩ := h; rfl

theorem lastNode_swapRows (n : List (List K)) (h : Planar n) : lastNode (swapRows n) = swapPt (lastNode n) := by
  obtain ⟨xs, ys, rfl, _, _⟩ := h; rfl

theorem ncols_diag (a b : K) (n : List (List K)) (h : Planar n) : ncols (diag a b n) = ncols n := by
  obtain ⟨xs, ys, rfl, _, _⟩ := h
  simp [diag, ncols]

theorem ncols_swapRows (n : List (List K)) (h : Planar n) : ncols (swapRows n) = ncols n := by
  obtain ⟨xs, ys, rfl, h1, _⟩ := h
  simp [swapRows, ncols, h1]

/-! ### node-producing routines -/

theorem py_specialize_diag (a b : K) (n : List (List K)) (s t : K) (h : Planar n) :
    Py.specialize (diag a b n) s t = diag a b (Py.specialize n s t) := by
  obtain ⟨xs, ys, rfl, _, _⟩ := h
  simp only [diag, Py.specialize, List.map_cons, List.map_nil, py_specializeRow_sc]

theorem py_specialize_swapRows (n : List (List K)) (s t : K) (h : Planar n) :
    Py.specialize (swapRows n) s t = swapRows (Py.specialize n s t) := by
  obtain ⟨xs, ys, rfl, _, _⟩ := h; rfl

theorem elevate_diag (a b : K) (n : List (List K)) (h : Planar n) : elevate (diag a b n) = diag a b (elevate n) := by
  obtain ⟨xs, ys, rfl, _, _⟩ := h
  simp only [diag, elevate, List.map_cons, List.map_nil, elevateRow_sc]

theorem elevate_swapRows (n : List (List K)) (h : Planar n) : elevate (swapRows n) = swapRows (elevate n) := by
  obtain ⟨xs, ys, rfl, _, _⟩ := h; rfl

/-- what the pipeline and `locate_point` need from a subdivision routine under a presentation change `T` -/
def SubdivCommutes (T : List (List K) → List (List K))
    (subdiv : List (List K) → List (List K) × List (List K)) : Prop :=
  ∀ n, Planar n → subdiv (T n) = (T (subdiv n).1, T (subdiv n).2) ∧ Planar (subdiv n).1 ∧ Planar (subdiv n).2

/-- a presentation change that commutes with the Python specialisation commutes with both subdivisions -/
theorem subdivCommutes_of (T : List (List K) → List (List K)) (hT : ∀ n, Planar n → Planar (T n))
    (hs : ∀ n s t, Planar n → Py.specialize (T n) s t = T (Py.specialize n s t)) (py : Bool) :
    SubdivCommutes T (if py then Py.subdivide (K := K) else F90.subdivide) := by
  have hpy : SubdivCommutes T (Py.subdivide (K := K)) := by
    intro n hn
    rw [py_subdivide_eq n hn, py_subdivide_eq _ (hT n hn), hs n _ _ hn, hs n _ _ hn]
    exact ⟨rfl, py_specialize_planar n _ _ hn, py_specialize_planar n _ _ hn⟩
  cases py
  · intro n hn
    simp only [Bool.false_eq_true, if_false]
    rw [f90_subdivide_eq n hn, f90_subdivide_eq _ (hT n hn)]
    exact hpy n hn
  · simpa using hpy

/-- … and with both specialisations -/
theorem specializeCommutes_of (T : List (List K) → List (List K)) (hT : ∀ n, Planar n → Planar (T n))
    (hs : ∀ n s t, Planar n → Py.specialize (T n) s t = T (Py.specialize n s t)) (py : Bool)
    (n : List (List K)) (s t : K) (hn : Planar n) :
    (if py then Py.specialize (K := K) else F90.specialize) (T n) s t
      = T ((if py then Py.specialize (K := K) else F90.specialize) n s t) ∧
    Planar ((if py then Py.specialize (K := K) else F90.specialize) n s t) ∧
    ncols ((if py then Py.specialize (K := K) else F90.specialize) n s t) = ncols n := by
  cases py
  · simp only [Bool.false_eq_true, if_false]
    rw [f90_specialize_eq _ s t (hT n hn), f90_specialize_eq n s t hn]
    exact ⟨hs n s t hn, py_specialize_planar n s t hn, py_specialize_ncols n s t hn⟩
  · simp only [if_true]
    exact ⟨hs n s t hn, py_specialize_planar n s t hn, py_specialize_ncols n s t hn⟩

/-! ## maps of the plane that multiply cross products and dot products by constants -/

/-- `L` is additive on differences, multiplies `cross` by `m ≠ 0` and `dot2` by `n ≠ 0` -/
structure Similar (L : Pt K → Pt K) (m n : K) : Prop where
  sub : ∀ p q, psub (L p) (L q) = L (psub p q)
  cross : ∀ u v, cross (L u) (L v) = m * cross u v
  dot : ∀ u v, dot2 (L u) (L v) = n * dot2 u v
  m_ne : m ≠ 0
  n_ne : n ≠ 0

theorem similar_dpt (a b : K) (ha : a ≠ 0) (hb : b ≠ 0) (hsq : b * b = a * a) : Similar (dpt a b) (a * b) (a * a) where
  sub := by intro p q; unfold psub dpt; ext <;> simp <;> ring
  cross := by intro u v; unfold Model.cross dpt; ring
  dot := by
    intro u v
    unfold dot2 dpt
    have : b * u.2 * (b * v.2) = (b * b) * (u.2 * v.2) := by ring
    simp only
    rw [this, hsq]; ring
  m_ne := mul_ne_zero ha hb
  n_ne := mul_ne_zero ha ha

theorem similar_spt : Similar (spt (K := K)) (-1) 1 where
  sub := by intro p q; rfl
  cross := by intro u v; unfold Model.cross spt; ring
  dot := by intro u v; unfold dot2 spt; ring
  m_ne := by norm_num
  n_ne := one_ne_zero

section SimilarLemmas
variable {L : Pt K → Pt K} {m n : K}

theorem segmentIntersection_similar (h : Similar L m n) (a b c d : Pt K) :
    Model.segmentIntersection (L a) (L b) (L c) (L d) = Model.segmentIntersection a b c d := by
  unfold Model.segmentIntersection
  simp only [h.sub, h.cross, mul_eq_zero, h.m_ne, false_or, mul_div_mul_left _ _ h.m_ne]

theorem parallelLinesParameters_similar (h : Similar L m n) (a b c d : Pt K) :
    parallelLinesParameters (L a) (L b) (L c) (L d) = parallelLinesParameters a b c d := by
  unfold parallelLinesParameters
  simp only [h.sub, h.cross, h.dot, ne_eq, mul_eq_zero, h.n_ne, false_or, mul_div_mul_left _ _ h.n_ne,
    mul_right_inj' h.m_ne]

theorem lineLineCollide_similar (h : Similar L m n) (a b c d : Pt K) :
    lineLineCollide (L a) (L b) (L c) (L d) = lineLineCollide a b c d := by
  unfold lineLineCollide
  rw [segmentIntersection_similar h, parallelLinesParameters_similar h]

end SimilarLemmas

/-! ## bounding boxes under `sc c`: `c > 0` keeps, `c < 0` exchanges minimum and maximum -/

theorem minK_mul_pos (c a b : K) (hc : 0 < c) : minK (c * a) (c * b) = c * minK a b := by
  unfold minK
  simp only [mul_lt_mul_iff_right₀ hc]
  split_ifs <;> rfl

theorem maxK_mul_pos (c a b : K) (hc : 0 < c) : maxK (c * a) (c * b) = c * maxK a b := by
  unfold maxK
  simp only [mul_lt_mul_iff_right₀ hc]
  split_ifs <;> rfl

theorem minK_mul_neg (c a b : K) (hc : c < 0) : minK (c * a) (c * b) = c * maxK a b := by
  unfold minK maxK
  simp only [mul_lt_mul_left_of_neg hc]
  split_ifs <;> rfl

theorem maxK_mul_neg (c a b : K) (hc : c < 0) : maxK (c * a) (c * b) = c * minK a b := by
  unfold minK maxK
  simp only [mul_lt_mul_left_of_neg hc]
  split_ifs <;> rfl

theorem minOf_sc_pos (c : K) (hc : 0 < c) : ∀ (xs : List K) (x : K), minOf (c * x) (sc c xs) = c * minOf x xs
  | [], x => rfl
  | y :: ys, x => by
    have ih := minOf_sc_pos c hc ys (minK x y)
    unfold minOf sc at ih ⊢
    simp only [List.map_cons, List.foldl_cons]
    rw [minK_mul_pos c x y hc, ih]

theorem maxOf_sc_pos (c : K) (hc : 0 < c) : ∀ (xs : List K) (x : K), maxOf (c * x) (sc c xs) = c * maxOf x xs
  | [], x => rfl
  | y :: ys, x => by
    have ih := maxOf_sc_pos c hc ys (maxK x y)
    unfold maxOf sc at ih ⊢
    simp only [List.map_cons, List.foldl_cons]
    rw [maxK_mul_pos c x y hc, ih]

theorem minOf_sc_neg (c : K) (hc : c < 0) : ∀ (xs : List K) (x : K), minOf (c * x) (sc c xs) = c * maxOf x xs
  | [], x => rfl
  | y :: ys, x => by
    have ih := minOf_sc_neg c hc ys (maxK x y)
    unfold minOf maxOf sc at ih ⊢
    simp only [List.map_cons, List.foldl_cons]
    rw [minK_mul_neg c x y hc, ih]

theorem maxOf_sc_neg (c : K) (hc : c < 0) : ∀ (xs : List K) (x : K), maxOf (c * x) (sc c xs) = c * minOf x xs
  | [], x => rfl
  | y :: ys, x => by
    have ih := maxOf_sc_neg c hc ys (minK x y)
    unfold minOf maxOf sc at ih ⊢
    simp only [List.map_cons, List.foldl_cons]
    rw [maxK_mul_neg c x y hc, ih]

/-- image of a box under `x ↦ a x`, `y ↦ b y` with `a, b > 0` -/
def boxPos (a b : K) (bx : K × K × K × K) : K × K × K × K := (a * bx.1, a * bx.2.1, b * bx.2.2.1, b * bx.2.2.2)

/-- image of a box under `x ↦ a x` (`a < 0`: left and right exchange), `y ↦ b y` (`b > 0`) -/
def boxNeg (a b : K) (bx : K × K × K × K) : K × K × K × K := (a * bx.2.1, a * bx.1, b * bx.2.2.1, b * bx.2.2.2)

/-- image of a box under the axis swap -/
def boxSwap (bx : K × K × K × K) : K × K × K × K := (bx.2.2.1, bx.2.2.2, bx.1, bx.2.1)

theorem bbox_diag_pos (a b : K) (ha : 0 < a) (hb : 0 < b) (xs ys : List K) :
    bbox (diag a b [xs, ys]) = (bbox [xs, ys]).map (boxPos a b) := by
  cases xs with
  | nil => cases ys <;> rfl
  | cons x xs =>
    cases ys with
    | nil => rfl
    | cons y ys =>
      show bbox [(a * x) :: sc a xs, (b * y) :: sc b ys] = _
      simp only [bbox, Except.map, boxPos]
      rw [minOf_sc_pos a ha, maxOf_sc_pos a ha, minOf_sc_pos b hb, maxOf_sc_pos b hb]

theorem bbox_diag_neg (a b : K) (ha : a < 0) (hb : 0 < b) (xs ys : List K) :
    bbox (diag a b [xs, ys]) = (bbox [xs, ys]).map (boxNeg a b) := by
  cases xs with
  | nil => cases ys <;> rfl
  | cons x xs =>
    cases ys with
    | nil => rfl
    | cons y ys =>
      show bbox [(a * x) :: sc a xs, (b * y) :: sc b ys] = _
      simp only [bbox, Except.map, boxNeg]
      rw [minOf_sc_neg a ha, maxOf_sc_neg a ha, minOf_sc_pos b hb, maxOf_sc_pos b hb]

/-- `bbox` of the row-swapped array; the two "empty row" errors are the same `valueError` -/
theorem bbox_swapRows (xs ys : List K) : bbox (swapRows [xs, ys]) = (bbox [xs, ys]).map boxSwap := by
  cases xs with
  | nil => cases ys <;> rfl
  | cons x xs =>
    cases ys with
    | nil => rfl
    | cons y ys => rfl

theorem boxRelation_pos (a b : K) (ha : 0 < a) (hb : 0 < b) (b1 b2 : K × K × K × K) :
    boxRelation (boxPos a b b1) (boxPos a b b2) = boxRelation b1 b2 := by
  obtain ⟨l1, r1, bo1, t1⟩ := b1
  obtain ⟨l2, r2, bo2, t2⟩ := b2
  simp only [boxRelation, boxPos, mul_lt_mul_iff_right₀ ha, mul_lt_mul_iff_right₀ hb, mul_right_inj' ha.ne',
    mul_right_inj' hb.ne']

theorem boxRelation_neg (a b : K) (ha : a < 0) (hb : 0 < b) (b1 b2 : K × K × K × K) :
    boxRelation (boxNeg a b b1) (boxNeg a b b2) = boxRelation b1 b2 := by
  obtain ⟨l1, r1, bo1, t1⟩ := b1
  obtain ⟨l2, r2, bo2, t2⟩ := b2
  simp only [boxRelation, boxNeg, mul_lt_mul_left_of_neg ha, mul_lt_mul_iff_right₀ hb, mul_right_inj' ha.ne,
    mul_right_inj' hb.ne']
  have e1 : (r1 < l2 ∨ r2 < l1 ∨ t2 < bo1 ∨ t1 < bo2) ↔ (r2 < l1 ∨ r1 < l2 ∨ t2 < bo1 ∨ t1 < bo2) := by tauto
  have e2 : (l2 = r1 ∨ l1 = r2 ∨ t2 = bo1 ∨ t1 = bo2) ↔ (r2 = l1 ∨ r1 = l2 ∨ t2 = bo1 ∨ t1 = bo2) := by
    constructor <;> (intro h; rcases h with h | h | h | h) <;> simp [h]
  simp only [e1, e2]

theorem boxRelation_swap (b1 b2 : K × K × K × K) : boxRelation (boxSwap b1) (boxSwap b2) = boxRelation b1 b2 := by
  obtain ⟨l1, r1, bo1, t1⟩ := b1
  obtain ⟨l2, r2, bo2, t2⟩ := b2
  simp only [boxRelation, boxSwap]
  have e1 : (t2 < bo1 ∨ t1 < bo2 ∨ r2 < l1 ∨ r1 < l2) ↔ (r2 < l1 ∨ r1 < l2 ∨ t2 < bo1 ∨ t1 < bo2) := by tauto
  have e2 : (t2 = bo1 ∨ t1 = bo2 ∨ r2 = l1 ∨ r1 = l2) ↔ (r2 = l1 ∨ r1 = l2 ∨ t2 = bo1 ∨ t1 = bo2) := by tauto
  simp only [e1, e2]

/-- `bbox_intersect` under a presentation change that maps boxes by `f` with `boxRelation` invariant -/
theorem bboxIntersect_of (T : List (List K) → List (List K)) (f : K × K × K × K → K × K × K × K)
    (hb : ∀ xs ys, bbox (T [xs, ys]) = (bbox [xs, ys]).map f)
    (hr : ∀ b1 b2, boxRelation (f b1) (f b2) = boxRelation b1 b2)
    (n1 n2 : List (List K)) (h1 : Planar n1) (h2 : Planar n2) :
    Model.bboxIntersect (T n1) (T n2) = Model.bboxIntersect n1 n2 := by
  obtain ⟨xs, ys, rfl, _, _⟩ := h1
  obtain ⟨us, vs, rfl, _, _⟩ := h2
  unfold Model.bboxIntersect
  rw [hb, hb]
  rcases bbox [xs, ys] with e1 | b1 <;> rcases bbox [us, vs] with e2 | b2 <;> simp only [Except.map]
  rw [hr]

/-! ## `linearization_error` -/

theorem secondDiffs_sc (c : K) : ∀ row : List K, secondDiffs (sc c row) = sc c (secondDiffs row)
  | [] => rfl
  | [_] => rfl
  | [_, _] => rfl
  | x :: y :: z :: rest => by
    have ih := secondDiffs_sc c (y :: z :: rest)
    unfold sc at ih ⊢
    simp only [List.map_cons, secondDiffs] at ih ⊢
    rw [ih]
    congr 1
    ring

theorem absK_mul (c x : K) : absK (c * x) = absK c * absK x := by
  rw [Predicates.absK_eq_abs, Predicates.absK_eq_abs, Predicates.absK_eq_abs, abs_mul]

theorem absK_nonneg (c : K) : 0 ≤ absK c := by rw [Predicates.absK_eq_abs]; exact abs_nonneg c

theorem absK_mul_self (c : K) : absK c * absK c = c * c := by
  rw [Predicates.absK_eq_abs]; exact abs_mul_abs_self c

theorem maxK_mul_nonneg (c a b : K) (hc : 0 ≤ c) : maxK (c * a) (c * b) = c * maxK a b := by
  rcases hc.eq_or_lt with h | h
  · subst h; simp [maxK]
  · exact maxK_mul_pos c a b h

theorem maxOf_sc_nonneg (c : K) (hc : 0 ≤ c) : ∀ (xs : List K) (x : K), maxOf (c * x) (sc c xs) = c * maxOf x xs
  | [], x => rfl
  | y :: ys, x => by
    have ih := maxOf_sc_nonneg c hc ys (maxK x y)
    unfold maxOf sc at ih ⊢
    simp only [List.map_cons, List.foldl_cons]
    rw [maxK_mul_nonneg c x y hc, ih]

theorem maxAbs?_sc (c : K) (l : List K) : maxAbs? (sc c l) = (maxAbs? l).map (fun m => absK c * m) := by
  cases l with
  | nil => rfl
  | cons x xs =>
    show some (maxOf (absK (c * x)) ((sc c xs).map absK)) = some (absK c * maxOf (absK x) (xs.map absK))
    have e : (sc c xs).map absK = sc (absK c) (xs.map absK) := by
      unfold sc
      rw [List.map_map, List.map_map]
      apply List.map_congr_left
      intro y _
      exact absK_mul c y
    rw [e, absK_mul, maxOf_sc_nonneg (absK c) (absK_nonneg c)]

/-- the squared linearisation error is multiplied by `a²` (`b² = a²`) -/
theorem linearizationErrorSq_diag (a b : K) (hsq : b * b = a * a) (n : List (List K)) (hn : Planar n) :
    linearizationErrorSq (diag a b n) = (linearizationErrorSq n).map (fun e => a * a * e) := by
  have hnc := ncols_diag a b n hn
  obtain ⟨xs, ys, rfl, _, _⟩ := hn
  unfold linearizationErrorSq
  rw [hnc]
  simp only [diag, List.mapM_cons, List.mapM_nil, secondDiffs_sc, maxAbs?_sc]
  split_ifs with h2 h3
  · simp [Except.map]
  · rfl
  · rcases maxAbs? (secondDiffs xs) with _ | w1 <;> rcases maxAbs? (secondDiffs ys) with _ | w2 <;>
      simp only [Option.map_none, Option.map_some, Option.bind_none, Option.bind_some, Except.map, bind, pure]
    · congr 1
      unfold normSq
      simp only [List.foldl_cons, List.foldl_nil]
      have e1 : absK a * w1 * (absK a * w1) = (absK a * absK a) * (w1 * w1) := by ring
      have e2 : absK b * w2 * (absK b * w2) = (absK b * absK b) * (w2 * w2) := by ring
      rw [e1, e2, absK_mul_self, absK_mul_self, hsq]
      ring

theorem linearizationErrorSq_swapRows (n : List (List K)) (hn : Planar n) :
    linearizationErrorSq (swapRows n) = linearizationErrorSq n := by
  have hnc := ncols_swapRows n hn
  obtain ⟨xs, ys, rfl, _, _⟩ := hn
  unfold linearizationErrorSq
  rw [hnc]
  simp only [swapRows, List.mapM_cons, List.mapM_nil]
  split_ifs with h2 h3
  · rfl
  · rfl
  · rcases maxAbs? (secondDiffs xs) with _ | w1 <;> rcases maxAbs? (secondDiffs ys) with _ | w2 <;>
      simp only [Option.bind_none, Option.bind_some, bind, pure]
    · congr 1
      unfold normSq
      simp only [List.foldl_cons, List.foldl_nil]
      ring

/-! ## `solve2x2` only depends on the solution set -/

theorem solve2x2_congr (A B C D E F A' B' C' D' E' F' : K)
    (hdet : A' * D' - B' * C' = 0 ↔ A * D - B * C = 0)
    (hsol : ∀ x y, (A' * x + B' * y = E' ∧ C' * x + D' * y = F') ↔ (A * x + B * y = E ∧ C * x + D * y = F)) :
    solve2x2 A' B' C' D' E' F' = solve2x2 A B C D E F := by
  by_cases h : A * D - B * C = 0
  · rw [(Solve2x2.solve2x2_none_iff A B C D E F).2 h, (Solve2x2.solve2x2_none_iff A' B' C' D' E' F').2 (hdet.2 h)]
  · have h' : A' * D' - B' * C' ≠ 0 := fun e => h (hdet.1 e)
    obtain ⟨x, y, hs, e1, e2, _⟩ := Solve2x2.solve2x2_regular A B C D E F h
    obtain ⟨x', y', hs', _, _, uniq⟩ := Solve2x2.solve2x2_regular A' B' C' D' E' F' h'
    obtain ⟨hx, hy⟩ := uniq x y ((hsol x y).2 ⟨e1, e2⟩).1 ((hsol x y).2 ⟨e1, e2⟩).2
    rw [hs, hs', hx, hy]

/-- the two equations scaled by non-zero factors -/
theorem solve2x2_rowscale (a b : K) (ha : a ≠ 0) (hb : b ≠ 0) (A B C D E F : K) :
    solve2x2 (a * A) (a * B) (b * C) (b * D) (a * E) (b * F) = solve2x2 A B C D E F := by
  apply solve2x2_congr
  · have : a * A * (b * D) - a * B * (b * C) = (a * b) * (A * D - B * C) := by ring
    rw [this, mul_eq_zero]
    constructor
    · rintro (h | h)
      · exact absurd h (mul_ne_zero ha hb)
      · exact h
    · intro h; exact Or.inr h
  · intro x y
    have e1 : a * A * x + a * B * y = a * (A * x + B * y) := by ring
    have e2 : b * C * x + b * D * y = b * (C * x + D * y) := by ring
    rw [e1, e2, mul_right_inj' ha, mul_right_inj' hb]

/-- the two equations exchanged -/
theorem solve2x2_rowswap (A B C D E F : K) : solve2x2 C D A B F E = solve2x2 A B C D E F := by
  apply solve2x2_congr
  · constructor <;> (intro h; linear_combination -h)
  · intro x y; exact and_comm

/-! ## Newton: the iteration only sees the Newton step -/

/-- the Newton step of an evaluation function: `none` = exact root, `some none` = singular -/
def stepOf (ev : NewtonEval K) (s t : K) : Option (Option (K × K)) :=
  (ev s t).map (fun x => solverOf x.1 x.2)

theorem newtonIterate_go_congr (cut : ℕ → ℕ → Bool) (rnd : K → K) (ratioSq : K) (ev ev' : NewtonEval K)
    (h : ∀ s t, stepOf ev' s t = stepOf ev s t) : ∀ (remaining index : ℕ) (st : NewtonState K),
    newtonIterate.go solverOf cut rnd ratioSq ev' remaining index st
      = newtonIterate.go solverOf cut rnd ratioSq ev remaining index st
  | 0, _, _ => rfl
  | r + 1, index, st => by
    have hst := h st.s st.t
    unfold stepOf at hst
    unfold newtonIterate.go
    rcases hev : ev st.s st.t with _ | ⟨lhs, rhs⟩
    · rcases hev' : ev' st.s st.t with _ | ⟨lhs', rhs'⟩
      · rfl
      · rw [hev, hev'] at hst; cases hst
    · rcases hev' : ev' st.s st.t with _ | ⟨lhs', rhs'⟩
      · rw [hev, hev'] at hst; cases hst
      · rw [hev, hev'] at hst
        have hs : solverOf lhs' rhs' = solverOf lhs rhs := by simpa using hst
        simp only
        rw [hs]
        rcases solverOf lhs rhs with _ | ⟨ds, dt⟩
        · rfl
        · simp only
          split_ifs
          · rfl
          · rfl
          · exact newtonIterate_go_congr cut rnd ratioSq ev ev' h r (index + 1) _

theorem newtonIterate_congr (cut : ℕ → ℕ → Bool) (rnd : K → K) (ratioSq : K) (ev ev' : NewtonEval K)
    (h : ∀ s t, stepOf ev' s t = stepOf ev s t) (fuel : ℕ) (s t : K) :
    newtonIterate solverOf cut rnd ratioSq ev' fuel s t = newtonIterate solverOf cut rnd ratioSq ev fuel s t := by
  unfold newtonIterate
  exact newtonIterate_go_congr cut rnd ratioSq ev ev' h fuel 0 _

/-- `full_newton` under a presentation change `T` that commutes with the reversal of the node order and under which
    both evaluation functions produce the same Newton steps -/
theorem fullNewton_of (T : List (List K) → List (List K)) (cut : ℕ → ℕ → Bool) (rnd : K → K) (ratioSq zeroThr : K)
    (thr fuel : ℕ)
    (hrev : ∀ n, Planar n → (T n).map List.reverse = T (n.map List.reverse))
    (hsimple : ∀ n1 n2, Planar n1 → Planar n2 → ∀ s t,
      stepOf (newtonSimple thr (T n1) (T n2)) s t = stepOf (newtonSimple thr n1 n2) s t)
    (hdouble : ∀ n1 n2, Planar n1 → Planar n2 → ∀ fuel s t,
      newtonIterate solverOf cut rnd ratioSq (newtonDouble thr (T n1) (T n2)) fuel s t
        = newtonIterate solverOf cut rnd ratioSq (newtonDouble thr n1 n2) fuel s t)
    (s : K) (n1 : List (List K)) (t : K) (n2 : List (List K)) (h1 : Planar n1) (h2 : Planar n2) :
    fullNewton solverOf cut rnd ratioSq zeroThr thr fuel s (T n1) t (T n2)
      = fullNewton solverOf cut rnd ratioSq zeroThr thr fuel s n1 t n2 := by
  have hnz : ∀ (a b : List (List K)), Planar a → Planar b → ∀ s t,
      fullNewtonNonzero solverOf cut rnd ratioSq thr fuel s (T a) t (T b)
        = fullNewtonNonzero solverOf cut rnd ratioSq thr fuel s a t b := by
    intro a b ha hb s t
    unfold fullNewtonNonzero
    rw [newtonIterate_congr cut rnd ratioSq _ _ (hsimple a b ha hb)]
    simp only [hdouble a b ha hb]
  have p1 := (reverse_translate 0 0 n1 h1).2
  have p2 := (reverse_translate 0 0 n2 h2).2
  unfold fullNewton
  simp only [hrev n1 h1, hrev n2 h2]
  rw [hnz _ _ p1 p2, hnz _ _ p1 h2, hnz _ _ h1 p2, hnz _ _ h1 h2]

theorem reverse_diag (a b : K) (n : List (List K)) (h : Planar n) :
    (diag a b n).map List.reverse = diag a b (n.map List.reverse) := by
  obtain ⟨xs, ys, rfl, _, _⟩ := h
  show [(sc a xs).reverse, (sc b ys).reverse] = [sc a xs.reverse, sc b ys.reverse]
  unfold sc
  rw [List.map_reverse, List.map_reverse]

theorem reverse_swapRows (n : List (List K)) (h : Planar n) :
    (swapRows n).map List.reverse = swapRows (n.map List.reverse) := by
  obtain ⟨xs, ys, rfl, _, _⟩ := h; rfl

/-- the simple-root Newton step under `diag a b` (`a, b ≠ 0`): both equations are scaled -/
theorem newtonSimple_diag (thr : ℕ) (a b : K) (ha : a ≠ 0) (hb : b ≠ 0) (n1 n2 : List (List K))
    (h1 : Planar n1) (h2 : Planar n2) (s t : K) :
    stepOf (newtonSimple thr (diag a b n1) (diag a b n2)) s t = stepOf (newtonSimple thr n1 n2) s t := by
  obtain ⟨xs, ys, rfl, _, _⟩ := h1
  obtain ⟨us, vs, rfl, _, _⟩ := h2
  unfold stepOf newtonSimple
  simp only [diag, List.getD_cons_zero, List.getD_cons_succ, derivNet_sc, evalRow_sc]
  have c1 : a * evalRow thr xs s - a * evalRow thr us t = a * (evalRow thr xs s - evalRow thr us t) := by ring
  have c2 : b * evalRow thr ys s - b * evalRow thr vs t = b * (evalRow thr ys s - evalRow thr vs t) := by ring
  rw [c1, c2]
  simp only [mul_eq_zero, ha, hb, false_or]
  split_ifs
  · rfl
  · simp only [Option.map_some, solverOf]
    rw [neg_mul_eq_mul_neg, neg_mul_eq_mul_neg, solve2x2_rowscale a b ha hb]

/-- … under the axis swap: the two equations are exchanged -/
theorem newtonSimple_swapRows (thr : ℕ) (n1 n2 : List (List K)) (h1 : Planar n1) (h2 : Planar n2) (s t : K) :
    stepOf (newtonSimple thr (swapRows n1) (swapRows n2)) s t = stepOf (newtonSimple thr n1 n2) s t := by
  obtain ⟨xs, ys, rfl, _, _⟩ := h1
  obtain ⟨us, vs, rfl, _, _⟩ := h2
  unfold stepOf newtonSimple
  simp only [swapRows, List.getD_cons_zero, List.getD_cons_succ]
  by_cases hc : evalRow thr xs s - evalRow thr us t = 0 ∧ evalRow thr ys s - evalRow thr vs t = 0
  · rw [if_pos hc, if_pos hc.symm]
  · rw [if_neg hc, if_neg (fun h => hc h.symm)]
    simp only [Option.map_some, solverOf]
    rw [solve2x2_rowswap]

/-! ## `locate_point` under a presentation change -/

/-- the same bisection candidate in the other presentation -/
def mapLocT (T : List (List K) → List (List K)) (c : LocCand K) : LocCand K :=
  { start := c.start, stop := c.stop, nodes := T c.nodes }

theorem locateRound_of (T : List (List K) → List (List K)) (Tp : List K → List K)
    (subdiv : List (List K) → List (List K) × List (List K)) (hs : SubdivCommutes T subdiv)
    (hc : ∀ n p, Planar n → Point2 p → containsND (T n) (Tp p) = containsND n p)
    (point : List K) (hp : Point2 point) (cands : List (LocCand K)) (hcd : ∀ c ∈ cands, Planar c.nodes) :
    locateRound subdiv (Tp point) (cands.map (mapLocT T)) = (locateRound subdiv point cands).map (mapLocT T) ∧
      ∀ c ∈ locateRound subdiv point cands, Planar c.nodes := by
  unfold locateRound
  constructor
  · rw [List.flatMap_map, List.map_flatMap]
    apply List.flatMap_congr
    intro c hcm
    have hpl := hcd c hcm
    obtain ⟨e, _, _⟩ := hs c.nodes hpl
    have en : (mapLocT T c).nodes = T c.nodes := rfl
    rw [en, hc c.nodes point hpl hp, e]
    split_ifs
    · rfl
    · rfl
  · intro c hcm
    rw [List.mem_flatMap] at hcm
    obtain ⟨c0, hc0, hmem⟩ := hcm
    obtain ⟨_, p1, p2⟩ := hs c0.nodes (hcd c0 hc0)
    split_ifs at hmem
    · simp only [List.mem_cons, List.not_mem_nil, or_false] at hmem
      rcases hmem with rfl | rfl
      · exact p1
      · exact p2
    · cases hmem

theorem iter_locateRound_of (T : List (List K) → List (List K)) (Tp : List K → List K)
    (subdiv : List (List K) → List (List K) × List (List K)) (hs : SubdivCommutes T subdiv)
    (hc : ∀ n p, Planar n → Point2 p → containsND (T n) (Tp p) = containsND n p)
    (point : List K) (hp : Point2 point) :
    ∀ (k : ℕ) (cands : List (LocCand K)), (∀ c ∈ cands, Planar c.nodes) →
      iter (locateRound subdiv (Tp point)) k (cands.map (mapLocT T))
        = (iter (locateRound subdiv point) k cands).map (mapLocT T)
  | 0, _, _ => rfl
  | k + 1, cands, hcd => by
    obtain ⟨e, hpl⟩ := locateRound_of T Tp subdiv hs hc point hp cands hcd
    simp only [iter]
    rw [e]
    exact iter_locateRound_of T Tp subdiv hs hc point hp k _ hpl

/-- `locate_point` gives the same answer when the containment test and the final Newton step do -/
theorem locatePoint_of (T : List (List K) → List (List K)) (Tp : List K → List K)
    (subdiv : List (List K) → List (List K) × List (List K)) (hs : SubdivCommutes T subdiv)
    (hc : ∀ n p, Planar n → Point2 p → containsND (T n) (Tp p) = containsND n p)
    (thr : ℕ) (hn : ∀ n p s, Planar n → Point2 p → newtonRefine thr (T n) (Tp p) s = newtonRefine thr n p s)
    (rounds : ℕ) (capSq : K) (n : List (List K)) (p : List K) (hpl : Planar n) (hp : Point2 p) :
    locatePoint subdiv thr rounds capSq (T n) (Tp p) = locatePoint subdiv thr rounds capSq n p := by
  have hit := iter_locateRound_of T Tp subdiv hs hc p hp rounds [{ start := 0, stop := 1, nodes := n }]
    (by intro c hc; rw [List.mem_singleton] at hc; subst hc; exact hpl)
  have hinit : [({ start := 0, stop := 1, nodes := T n } : LocCand K)]
      = [({ start := 0, stop := 1, nodes := n } : LocCand K)].map (mapLocT T) := rfl
  unfold locatePoint
  rw [hinit, hit]
  have hnr := fun s => hn n p s hpl hp
  have m1 : ∀ l : List (LocCand K), (l.map (mapLocT T)).map (·.start) = l.map (·.start) := by
    intro l; rw [List.map_map]; rfl
  have m2 : ∀ l : List (LocCand K), (l.map (mapLocT T)).map (·.stop) = l.map (·.stop) := by
    intro l; rw [List.map_map]; rfl
  simp only [hnr, m1, m2, List.isEmpty_map]

theorem containsRow_sc (c : K) (hc : c ≠ 0) (row : List K) (p : K) :
    containsRow (sc c row) (c * p) = containsRow row p := by
  unfold containsRow sc
  rcases lt_or_gt_of_ne hc with h | h
  · simp only [List.any_map, Function.comp_def, mul_le_mul_left_of_neg h]
    exact Bool.and_comm _ _
  · simp only [List.any_map, Function.comp_def, mul_le_mul_iff_right₀ h]

theorem containsND_diag (a b : K) (ha : a ≠ 0) (hb : b ≠ 0) (n : List (List K)) (p : List K)
    (hn : Planar n) (hp : Point2 p) : containsND (diag a b n) (diagPt a b p) = containsND n p := by
  obtain ⟨xs, ys, rfl, _, _⟩ := hn
  obtain ⟨u, v, rfl⟩ := point2_cases p hp
  unfold containsND
  simp only [diag, diagPt, List.zipWith_cons_cons, List.zipWith_nil_right, containsRow_sc a ha, containsRow_sc b hb]

theorem containsND_swapRows (n : List (List K)) (p : List K) (hn : Planar n) (hp : Point2 p) :
    containsND (swapRows n) (swapPt p) = containsND n p := by
  obtain ⟨xs, ys, rfl, _, _⟩ := hn
  obtain ⟨u, v, rfl⟩ := point2_cases p hp
  unfold containsND
  simp only [swapRows, swapPt, List.zipWith_cons_cons, List.zipWith_nil_right, List.all_cons, List.all_nil, id,
    Bool.and_true]
  exact Bool.and_comm _ _

theorem newtonRefine_diag (thr : ℕ) (a b : K) (ha : a ≠ 0) (hsq : b * b = a * a) (n : List (List K)) (p : List K)
    (s : K) (hn : Planar n) (hp : Point2 p) :
    newtonRefine thr (diag a b n) (diagPt a b p) s = newtonRefine thr n p s := by
  obtain ⟨xs, ys, rfl, _, _⟩ := hn
  obtain ⟨u, v, rfl⟩ := point2_cases p hp
  unfold newtonRefine hodograph evalPoint subRow dot
  simp only [diag, diagPt, List.map_cons, List.map_nil, hodographRow_sc, evalBary_sc, List.zipWith_cons_cons,
    List.zipWith_nil_right, List.foldl_cons, List.foldl_nil]
  congr 1
  have haa : a * a ≠ 0 := mul_ne_zero ha ha
  set e1 := evalBary thr xs (1 - s) s
  set e2 := evalBary thr ys (1 - s) s
  set h1 := hodographRow thr xs s
  set h2 := hodographRow thr ys s
  have n1 : 0 + (a * u - a * e1) * (a * h1) + (b * v - b * e2) * (b * h2)
      = (a * a) * (0 + (u - e1) * h1 + (v - e2) * h2) := by
    have : (b * v - b * e2) * (b * h2) = (b * b) * ((v - e2) * h2) := by ring
    rw [this, hsq]; ring
  have n2 : 0 + a * h1 * (a * h1) + b * h2 * (b * h2) = (a * a) * (0 + h1 * h1 + h2 * h2) := by
    have : b * h2 * (b * h2) = (b * b) * (h2 * h2) := by ring
    rw [this, hsq]; ring
  rw [n1, n2, mul_div_mul_left _ _ haa]

theorem newtonRefine_swapRows (thr : ℕ) (n : List (List K)) (p : List K) (s : K) (hn : Planar n) (hp : Point2 p) :
    newtonRefine thr (swapRows n) (swapPt p) s = newtonRefine thr n p s := by
  obtain ⟨xs, ys, rfl, _, _⟩ := hn
  obtain ⟨u, v, rfl⟩ := point2_cases p hp
  unfold newtonRefine hodograph evalPoint subRow dot
  simp only [swapRows, swapPt, List.map_cons, List.map_nil, List.zipWith_cons_cons,
    List.zipWith_nil_right, List.foldl_cons, List.foldl_nil]
  congr 1
  congr 1 <;> ring

/-! ## norms of flattened arrays -/

theorem foldl_sq_chunk2 : ∀ (l : List (Pt K)) (acc : K),
    (chunk2 l).foldl (fun acc x => acc + x * x) acc = l.foldl (fun acc p => acc + (p.1 * p.1 + p.2 * p.2)) acc
  | [], _ => rfl
  | p :: l, acc => by
    simp only [chunk2, List.foldl_cons]
    rw [foldl_sq_chunk2 l, add_assoc]

theorem foldl_sq_map (L : Pt K → Pt K) (m : K)
    (hL : ∀ p, (L p).1 * (L p).1 + (L p).2 * (L p).2 = m * (p.1 * p.1 + p.2 * p.2)) : ∀ (l : List (Pt K)) (acc : K),
    (l.map L).foldl (fun acc p => acc + (p.1 * p.1 + p.2 * p.2)) (m * acc)
      = m * l.foldl (fun acc p => acc + (p.1 * p.1 + p.2 * p.2)) acc
  | [], _ => rfl
  | p :: l, acc => by
    simp only [List.map_cons, List.foldl_cons]
    rw [hL p, ← mul_add]
    exact foldl_sq_map L m hL l _

/-- a map that multiplies squared lengths by `m` multiplies the squared norm of a flattened array by `m` -/
theorem normSq_chunk2_map (L : Pt K → Pt K) (m : K)
    (hL : ∀ p, (L p).1 * (L p).1 + (L p).2 * (L p).2 = m * (p.1 * p.1 + p.2 * p.2)) (l : List (Pt K)) :
    normSq (chunk2 (l.map L)) = m * normSq (chunk2 l) := by
  unfold normSq
  rw [foldl_sq_chunk2, foldl_sq_chunk2]
  have := foldl_sq_map L m hL l 0
  rwa [mul_zero] at this

theorem subRow_chunk2 : ∀ (l l' : List (Pt K)), subRow (chunk2 l) (chunk2 l') = chunk2 (List.zipWith psub l l')
  | [], _ => by simp [subRow, chunk2]
  | _ :: _, [] => by simp [subRow, chunk2]
  | p :: l, q :: l' => by
    have ih := subRow_chunk2 l l'
    unfold subRow at ih ⊢
    simp only [chunk2, List.zipWith_cons_cons, psub]
    rw [ih]

/-- `vector_close` on flattened arrays whose columns are mapped by `L` (additive on differences, squared lengths
    multiplied by `m > 0`): the relative branch is invariant, the two "one vector is zero" branches compare with the
    ABSOLUTE `eps²` -/
theorem vectorCloseSq_chunk2_map (L : Pt K → Pt K) (m : K) (hm : 0 < m)
    (hsub : ∀ p q, psub (L p) (L q) = L (psub p q))
    (hL : ∀ p, (L p).1 * (L p).1 + (L p).2 * (L p).2 = m * (p.1 * p.1 + p.2 * p.2))
    (l l' : List (Pt K)) (epsSq : K) :
    vectorCloseSq (chunk2 (l.map L)) (chunk2 (l'.map L)) epsSq =
      if normSq (chunk2 l) = 0 then decide (m * normSq (chunk2 l') ≤ epsSq)
      else if normSq (chunk2 l') = 0 then decide (m * normSq (chunk2 l) ≤ epsSq)
      else decide (normSq (subRow (chunk2 l) (chunk2 l')) ≤ epsSq * minK (normSq (chunk2 l)) (normSq (chunk2 l'))) := by
  unfold vectorCloseSq
  have hz : List.zipWith psub (l.map L) (l'.map L) = (List.zipWith psub l l').map L := by
    rw [List.zipWith_map, List.map_zipWith]
    congr 1
    funext p q
    exact hsub p q
  simp only [subRow_chunk2, hz, normSq_chunk2_map L m hL, mul_eq_zero, hm.ne', false_or,
    minK_mul_pos m _ _ hm]
  split_ifs
  · rfl
  · rfl
  · rw [decide_eq_decide, ← mul_assoc, mul_comm epsSq m, mul_assoc, mul_le_mul_iff_right₀ hm]

/-- for an isometry (`m = 1`) `vector_close` is invariant -/
theorem vectorCloseSq_chunk2_isometry (L : Pt K → Pt K)
    (hsub : ∀ p q, psub (L p) (L q) = L (psub p q))
    (hL : ∀ p, (L p).1 * (L p).1 + (L p).2 * (L p).2 = p.1 * p.1 + p.2 * p.2)
    (l l' : List (Pt K)) (epsSq : K) :
    vectorCloseSq (chunk2 (l.map L)) (chunk2 (l'.map L)) epsSq = vectorCloseSq (chunk2 l) (chunk2 l') epsSq := by
  rw [vectorCloseSq_chunk2_map L 1 one_pos hsub (fun p => by rw [one_mul]; exact hL p)]
  unfold vectorCloseSq
  simp only [one_mul]

theorem colsD_sc (a b : K) (xs ys : List K) : colsD (sc a xs) (sc b ys) = (colsD xs ys).map (dpt a b) := by
  unfold colsD
  rw [sc_length, List.map_map]
  apply List.map_congr_left
  intro c _
  simp only [Function.comp, getD_sc]
  rfl

theorem colsD_swap (xs ys : List K) (h : xs.length = ys.length) : colsD ys xs = (colsD xs ys).map spt := by
  unfold colsD
  rw [h, List.map_map]
  rfl

theorem flatten_diag (a b : K) (xs ys : List K) :
    flatten (diag a b [xs, ys]) = chunk2 ((colsD xs ys).map (dpt a b)) := by
  show flatten [sc a xs, sc b ys] = _
  rw [flatten_two, colsD_sc]

theorem flatten_swapRows (xs ys : List K) (h : xs.length = ys.length) :
    flatten (swapRows [xs, ys]) = chunk2 ((colsD xs ys).map spt) := by
  show flatten [ys, xs] = _
  rw [flatten_two, colsD_swap xs ys h]

/-! ## convex hull and separating axes under an orientation- and order-preserving similarity -/

/-- `L` is a `Similar` map with the same positive factor on `cross` and `dot2` that keeps the lexicographic order
    (e.g. a scaling by `k > 0`) -/
structure OrderSimilar (L : Pt K → Pt K) (m : K) : Prop extends Similar L m m where
  m_pos : 0 < m
  lex : ∀ p r, lexLt (L p) (L r) = lexLt p r
  inj : ∀ p q, L p = L q ↔ p = q
  normSq : ∀ d : Pt K, (L d).1 * (L d).1 + (L d).2 * (L d).2 = m * (d.1 * d.1 + d.2 * d.2)

section Hull
variable {L : Pt K → Pt K} {m : K}

theorem insertUnique_L (h : OrderSimilar L m) (p : Pt K) : ∀ l : List (Pt K),
    insertUnique (L p) (l.map L) = (insertUnique p l).map L
  | [] => rfl
  | r :: rest => by
    have ih := insertUnique_L h p rest
    simp only [List.map_cons, insertUnique, h.lex, h.inj]
    split_ifs
    · rfl
    · rfl
    · rw [ih]; rfl

theorem sortUnique_L (h : OrderSimilar L m) : ∀ pts : List (Pt K),
    Py.sortUnique (pts.map L) = (Py.sortUnique pts).map L
  | [] => rfl
  | p :: pts => by
    have ih := sortUnique_L h pts
    unfold Py.sortUnique at ih ⊢
    simp only [List.map_cons, List.foldr_cons]
    rw [ih, insertUnique_L h]

theorem cpc_L (h : OrderSimilar L m) (a b c : Pt K) :
    (0 < crossProductCompare (L a) (L b) (L c)) ↔ (0 < crossProductCompare a b c) := by
  unfold crossProductCompare
  rw [h.sub, h.sub, h.cross]
  exact mul_pos_iff_of_pos_left h.m_pos

theorem getP_map_L (L : Pt K → Pt K) (pts : List (Pt K)) (i : ℕ) (hi : i < pts.length) :
    getP (pts.map L) i = L (getP pts i) := by
  unfold getP
  rw [List.getD_eq_getElem?_getD, List.getD_eq_getElem?_getD, List.getElem?_map,
    List.getElem?_eq_getElem hi]
  rfl

theorem chainPop_L (h : OrderSimilar L m) (pts : List (Pt K)) (p2 : Pt K) : ∀ st : List ℕ,
    (∀ j ∈ st, j < pts.length) → chainPop (pts.map L) (L p2) st = chainPop pts p2 st
  | [], _ => by simp [chainPop]
  | [a], _ => by simp [chainPop]
  | i1 :: i0 :: rest, hst => by
    have h1 : i1 < pts.length := hst i1 (by simp)
    have h0 : i0 < pts.length := hst i0 (by simp)
    have ih := chainPop_L h pts p2 (i0 :: rest) (fun j hj => hst j (List.mem_cons_of_mem _ hj))
    rw [chainPop, chainPop, getP_map_L L pts i0 h0, getP_map_L L pts i1 h1, ih]
    simp only [cpc_L h]

theorem push_step_L (h : OrderSimilar L m) (pts : List (Pt K)) (st : List ℕ) (index : ℕ) (hi : index < pts.length)
    (hst : ∀ j ∈ st, j < pts.length) :
    (index :: chainPop (pts.map L) (getP (pts.map L) index) st = index :: chainPop pts (getP pts index) st) ∧
      (∀ j ∈ index :: chainPop pts (getP pts index) st, j < pts.length) := by
  rw [getP_map_L L pts index hi, chainPop_L h pts _ st hst]
  refine ⟨rfl, ?_⟩
  intro j hj
  rcases List.mem_cons.1 hj with rfl | hj
  · exact hi
  · exact hst j (PredicatesHull.mem_chainPop _ _ _ _ hj)

theorem lowerRevOf_L (h : OrderSimilar L m) (pts : List (Pt K)) (hn : 2 ≤ pts.length) :
    lowerRevOf (pts.map L) = lowerRevOf pts ∧ ∀ j ∈ lowerRevOf pts, j < pts.length := by
  unfold lowerRevOf
  rw [List.length_map]
  apply foldl_congr_inv (fun st : List ℕ => ∀ j ∈ st, j < pts.length)
  · intro j hj
    simp only [List.mem_cons, List.not_mem_nil, or_false] at hj
    omega
  · intro st b hb hst
    have hb' := List.mem_range'_1.1 hb
    exact push_step_L h pts st b (by omega) hst

theorem upperRevOf_L (h : OrderSimilar L m) (inS : List ℕ → ℕ → Bool) (pts : List (Pt K)) (lower : List ℕ)
    (hn : 2 ≤ pts.length) :
    upperRevOf inS (pts.map L) lower = upperRevOf inS pts lower ∧
      ∀ j ∈ upperRevOf inS pts lower, j < pts.length := by
  unfold upperRevOf
  rw [List.length_map]
  apply foldl_congr_inv (fun st : List ℕ => ∀ j ∈ st, j < pts.length)
  · intro j hj
    simp only [List.mem_cons, List.not_mem_nil, or_false] at hj
    omega
  · intro st b hb hst
    have hb' := List.mem_range.1 (List.mem_reverse.1 hb)
    obtain ⟨e1, e2⟩ := push_step_L h pts st b (by omega) hst
    split_ifs
    · exact ⟨rfl, hst⟩
    · exact ⟨e1, e2⟩

theorem hullChain_L (h : OrderSimilar L m) (inS : List ℕ → ℕ → Bool) (pts : List (Pt K)) (hn : 2 ≤ pts.length) :
    hullChain inS (pts.map L) = (hullChain inS pts).map L := by
  obtain ⟨l1, l2⟩ := lowerRevOf_L h pts hn
  obtain ⟨u1, u2⟩ := upperRevOf_L h inS pts (lowerRevOf pts).reverse hn
  rw [PipelineTranslate.hullChain_eq, PipelineTranslate.hullChain_eq, l1, u1, List.map_map]
  apply List.map_congr_left
  intro i hi
  have hlt : i < pts.length := by
    rcases List.mem_append.1 hi with hi | hi
    · exact l2 i (List.mem_reverse.1 (List.mem_of_mem_dropLast hi))
    · exact u2 i (List.mem_reverse.1 (List.mem_of_mem_dropLast hi))
  exact getP_map_L L pts i hlt

theorem py_convexHull_L (h : OrderSimilar L m) (pts : List (Pt K)) :
    Py.convexHull (pts.map L) = (Py.convexHull pts).map L := by
  unfold Py.convexHull
  simp only [sortUnique_L h, List.length_map]
  split_ifs with h3
  · rfl
  · exact hullChain_L h _ _ (by omega)

theorem f90_convexHull_L (h : OrderSimilar L m) (pts : List (Pt K)) :
    F90.convexHull (pts.map L) = (F90.convexHull pts).map L := by
  rw [PredicatesHull.convexHull_variants_agree, PredicatesHull.convexHull_variants_agree, py_convexHull_L h]

theorem polygonEdgeDirs_L (hsub : ∀ p q, psub (L p) (L q) = L (psub p q)) (poly : List (Pt K)) :
    polygonEdgeDirs (poly.map L) = (polygonEdgeDirs poly).map L := by
  unfold polygonEdgeDirs
  cases poly with
  | nil => rfl
  | cons p rest =>
    have e : ((p :: rest).map L).getLastD (0, 0) = L ((p :: rest).getLastD (0, 0)) := by
      rw [List.getLastD_eq_getLast?, List.getLastD_eq_getLast?, List.getLast?_map]
      rw [List.getLast?_eq_some_getLast (List.cons_ne_nil p rest)]
      rfl
    rw [e]
    show List.zipWith psub ((p :: rest).map L) (((p :: rest).getLastD (0, 0) :: (p :: rest)).map L) = _
    rw [List.zipWith_map, List.map_zipWith]
    congr 1
    funext a b
    exact hsub a b

theorem paramFold_L (h : OrderSimilar L m) (d : Pt K) (ns : K) : ∀ (vs : List (Pt K)) (acc : K × K),
    (vs.map L).foldl (fun (acc : K × K) w =>
        (minK acc.1 (cross (L d) w / (m * ns)), maxK acc.2 (cross (L d) w / (m * ns)))) acc
      = vs.foldl (fun (acc : K × K) w => (minK acc.1 (cross d w / ns), maxK acc.2 (cross d w / ns))) acc
  | [], _ => rfl
  | v :: vs, acc => by
    simp only [List.map_cons, List.foldl_cons]
    rw [h.cross, mul_div_mul_left _ _ h.m_ne]
    exact paramFold_L h d ns vs _

theorem paramRange_L (h : OrderSimilar L m) (d : Pt K) (ns : K) (vs : List (Pt K)) :
    paramRange (L d) (m * ns) (vs.map L) = paramRange d ns vs := by
  cases vs with
  | nil => rfl
  | cons v vs =>
    simp only [List.map_cons, paramRange]
    rw [h.cross, mul_div_mul_left _ _ h.m_ne, paramFold_L h]

theorem py_isSeparating_L (h : OrderSimilar L m) (d : Pt K) (p1 p2 : List (Pt K)) :
    Py.isSeparating (L d) (p1.map L) (p2.map L) = Py.isSeparating d p1 p2 := by
  unfold Py.isSeparating
  simp only [h.normSq, paramRange_L h, mul_eq_zero, h.m_ne, false_or]

theorem f90_isSeparatingCore_L (h : OrderSimilar L m) (d : Pt K) (p1 p2 : List (Pt K)) :
    F90.isSeparatingCore (L d) (p1.map L) (p2.map L) = F90.isSeparatingCore d p1 p2 := by
  unfold F90.isSeparatingCore
  simp only [h.dot, paramRange_L h, mul_eq_zero, h.m_ne, false_or]

theorem py_polygonCollide_L (h : OrderSimilar L m) (p1 p2 : List (Pt K)) :
    Py.polygonCollide (p1.map L) (p2.map L) = Py.polygonCollide p1 p2 := by
  unfold Py.polygonCollide
  rw [polygonEdgeDirs_L h.sub, polygonEdgeDirs_L h.sub, ← List.map_append, List.any_map]
  simp only [Function.comp_def, py_isSeparating_L h]

theorem f90_polygonCollide_L (h : OrderSimilar L m) (p1 p2 : List (Pt K)) :
    F90.polygonCollide (p1.map L) (p2.map L) = F90.polygonCollide p1 p2 := by
  unfold F90.polygonCollide
  rw [polygonEdgeDirs_L h.sub, polygonEdgeDirs_L h.sub, ← List.map_append, List.any_map]
  simp only [Function.comp_def, f90_isSeparatingCore_L h, List.isEmpty_map]

/-- the case split of `convex_hull_collide` on the two hulls -/
theorem hullMatch_L {β : Type} (L : Pt K → Pt K) (ll : Pt K → Pt K → Pt K → Pt K → β) (d' d : β)
    (hll : ∀ a b c d, ll (L a) (L b) (L c) (L d) = ll a b c d)
    (hd : d' = d) (h1 h2 : List (Pt K)) :
    (match h1.map L, h2.map L with
      | [a0, a1], [b0, b1] => ll a0 a1 b0 b1
      | _, _ => d')
    = (match h1, h2 with
      | [a0, a1], [b0, b1] => ll a0 a1 b0 b1
      | _, _ => d) := by
  rcases h1 with _ | ⟨a0, _ | ⟨a1, _ | ⟨a2, r1⟩⟩⟩ <;> rcases h2 with _ | ⟨b0, _ | ⟨b1, _ | ⟨b2, r2⟩⟩⟩ <;>
    first
      | exact hd
      | exact hll _ _ _ _

theorem py_convexHullCollide_L (h : OrderSimilar L m) (n1 n2 : List (Pt K)) :
    Py.convexHullCollide (n1.map L) (n2.map L) = Py.convexHullCollide n1 n2 := by
  unfold Py.convexHullCollide
  simp only [py_convexHull_L h]
  exact hullMatch_L L lineLineCollide _ _ (lineLineCollide_similar h.toSimilar)
    (by rw [py_polygonCollide_L h]) _ _

theorem f90_convexHullCollide_L (h : OrderSimilar L m) (n1 n2 : List (Pt K)) :
    F90.convexHullCollide (n1.map L) (n2.map L) = F90.convexHullCollide n1 n2 := by
  unfold F90.convexHullCollide
  simp only [f90_convexHull_L h]
  exact hullMatch_L L lineLineCollide _ _ (lineLineCollide_similar h.toSimilar)
    (f90_polygonCollide_L h _ _) _ _

end Hull

theorem colsOf_diag (a b : K) (xs ys : List K) : colsOf (diag a b [xs, ys]) = (colsOf [xs, ys]).map (dpt a b) := by
  show List.zip (sc a xs) (sc b ys) = List.map (dpt a b) (List.zip xs ys)
  unfold sc
  rw [List.zip_map]
  rfl

theorem colsOf_swapRows (xs ys : List K) : colsOf (swapRows [xs, ys]) = (colsOf [xs, ys]).map spt := by
  show List.zip ys xs = List.map spt (List.zip xs ys)
  rw [← List.zip_swap]
  rfl

end BezierVerif.PipelineLinear
