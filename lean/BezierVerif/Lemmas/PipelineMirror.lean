import BezierVerif.Lemmas.PipelineLinear
import BezierVerif.Lemmas.BoxLine

/-!
# Lemmas/PipelineMirror — the concrete primitives under the mirror `x ↦ -x` and the axis swap `(x, y) ↦ (y, x)`

`T = diag (-1) 1` (`= Equivariance.mirrorX` on planar arrays) and `T = swapRows` (`= Equivariance.swapAxes`).
Both are isometries that reverse the orientation.  Proved invariant (both variants, any constants):

* `bbox_intersect` (left / right exchange their roles, resp. the x- and y-tests are exchanged);
* `bbox_line_intersect`: the routine tests the bottom, right and top edge and skips the left one, and the image of the
  skipped edge is a tested one.  On a box with interior the answer is exact (Lemmas/BoxLine), hence invariant; on a
  degenerate box the general description of what is decided (`bboxLineIntersect_general`) is compared edge by edge
  — no side condition is needed;
* `linearization_error`, `segment_intersection`, `parallel_lines_parameters` (numerator and denominator change sign
  together), `vector_close` (norms are kept: it IS invariant here, unlike under translation or scaling),
  `locate_point`;
* `full_newton`: simple-root steps by `solve2x2` only depending on the solution set (row negated / rows exchanged; the
  pivot choice is irrelevant in exact arithmetic), double-root: the normal equations are literally the same numbers;
* subdivision, specialisation, elevation commute.

NOT proved: `convex_hull_collide` — hypothesis `hhull` of `concretePrims_mirror_invariant` /
`concretePrims_swap_invariant` (the lexicographic sort makes the monotone chain start at another vertex and list the
hull in the mirrored orientation; the repository has soundness of the separating-axis answer, `C16.sat_safe`, but not
its completeness, so the Bool cannot be characterised geometrically yet).
-/

set_option linter.unusedSectionVars false
set_option linter.unusedVariables false

namespace BezierVerif.PipelineMirror

open Model BezierVerif Equivariance PipelineTranslate PipelineLinear PipelineEquivariance Predicates BoxLine

variable {K : Type} [Field K] [LinearOrder K] [IsStrictOrderedRing K]

/-! ## `bbox_line_intersect` -/

/-- two calls on boxes are equal as soon as they answer `intersection` together -/
theorem bboxLine_eq_of_iff (n n' : List (List K)) (S E S' E' : Pt K) (box box' : K × K × K × K)
    (hb : bbox n = .ok box) (hb' : bbox n' = .ok box')
    (h : Model.bboxLineIntersect n' S' E' = .ok .intersection ↔ Model.bboxLineIntersect n S E = .ok .intersection) :
    Model.bboxLineIntersect n' S' E' = Model.bboxLineIntersect n S E := by
  obtain ⟨l, r, b, t⟩ := box
  obtain ⟨l', r', b', t'⟩ := box'
  rcases bboxLineIntersect_ok_cases n S E l r b t hb with h1 | h1 <;>
    rcases bboxLineIntersect_ok_cases n' S' E' l' r' b' t' hb' with h2 | h2
  · rw [h1, h2]
  · rw [h.2 h1] at h2; cases h2
  · rw [h.1 h2] at h1; cases h1
  · rw [h1, h2]

theorem inBox_mirror (l r b t : K) (p : Pt K) :
    InBox (-1 * r, -1 * l, 1 * b, 1 * t) (dpt (-1) 1 p) ↔ InBox (l, r, b, t) p := by
  unfold InBox dpt
  simp only [neg_one_mul, one_mul, neg_le_neg_iff]
  tauto

theorem onH_mirror (S E : Pt K) (l r y : K) :
    OnHorizontal (dpt (-1) 1 S) (dpt (-1) 1 E) (-1 * r) (-1 * l) (1 * y) ↔ OnHorizontal S E l r y := by
  unfold OnHorizontal dpt
  simp only [neg_one_mul, one_mul]
  constructor
  · rintro ⟨h0, τ, t0, t1, e, x1, x2⟩
    exact ⟨h0, τ, t0, t1, e, by linarith, by linarith⟩
  · rintro ⟨h0, τ, t0, t1, e, x1, x2⟩
    exact ⟨h0, τ, t0, t1, e, by linarith, by linarith⟩

theorem onV_mirror (S E : Pt K) (x b t : K) :
    OnVertical (dpt (-1) 1 S) (dpt (-1) 1 E) (-1 * x) (1 * b) (1 * t) ↔ OnVertical S E x b t := by
  unfold OnVertical dpt
  simp only [neg_one_mul, one_mul]
  constructor
  · rintro ⟨h0, τ, t0, t1, e, y1, y2⟩
    refine ⟨fun h => h0 (by linarith), τ, t0, t1, by linarith, y1, y2⟩
  · rintro ⟨h0, τ, t0, t1, e, y1, y2⟩
    refine ⟨fun h => h0 (by linarith), τ, t0, t1, by linarith, y1, y2⟩

theorem bboxLineIntersect_mirror (n : List (List K)) (p q : Pt K) (hn : Planar n) :
    Model.bboxLineIntersect (diag (-1) 1 n) (dpt (-1) 1 p) (dpt (-1) 1 q) = Model.bboxLineIntersect n p q := by
  obtain ⟨xs, ys, rfl, _, _⟩ := hn
  have hbb := bbox_diag_neg (-1 : K) 1 (by norm_num) one_pos xs ys
  rcases hb : bbox [xs, ys] with e | ⟨l, r, b, t⟩
  · unfold Model.bboxLineIntersect
    rw [hbb, hb]
    rfl
  · rw [hb] at hbb
    have hb' : bbox (diag (-1) 1 [xs, ys]) = .ok (-1 * r, -1 * l, 1 * b, 1 * t) := hbb
    obtain ⟨hlr, hbt⟩ := bbox_le _ l r b t hb
    apply bboxLine_eq_of_iff _ _ _ _ _ _ _ _ hb hb'
    by_cases hnd : l < r ∧ b < t
    · rw [bboxLineIntersect_exact _ _ _ _ _ _ _ hb' (by linarith [hnd.1]) (by linarith [hnd.2]),
        bboxLineIntersect_exact _ _ _ _ _ _ _ hb hnd.1 hnd.2]
      have key : ∀ u : K, InBox (-1 * r, -1 * l, 1 * b, 1 * t)
          ((dpt (-1) 1 p).1 + u * ((dpt (-1) 1 q).1 - (dpt (-1) 1 p).1),
            (dpt (-1) 1 p).2 + u * ((dpt (-1) 1 q).2 - (dpt (-1) 1 p).2))
          ↔ InBox (l, r, b, t) (p.1 + u * (q.1 - p.1), p.2 + u * (q.2 - p.2)) := by
        intro u
        have := inBox_mirror l r b t (p.1 + u * (q.1 - p.1), p.2 + u * (q.2 - p.2))
        rw [← this]
        unfold dpt
        have e1 : -1 * p.1 + u * (-1 * q.1 - -1 * p.1) = -1 * (p.1 + u * (q.1 - p.1)) := by ring
        have e2 : 1 * p.2 + u * (1 * q.2 - 1 * p.2) = 1 * (p.2 + u * (q.2 - p.2)) := by ring
        simp only [e1, e2]
      simp only [key]
    · rw [bboxLineIntersect_general _ _ _ _ _ _ _ hb', bboxLineIntersect_general _ _ _ _ _ _ _ hb,
        inBox_mirror, inBox_mirror, onH_mirror, onH_mirror, onV_mirror]
      have e1 : (-1 * r < -1 * l) ↔ l < r := by constructor <;> intro h <;> linarith
      have e2 : (1 * b < 1 * t) ↔ b < t := by rw [one_mul, one_mul]
      rw [e1, e2]
      by_cases hbt' : b < t
      · have hl : l = r := le_antisymm hlr (not_lt.mp (fun h => hnd ⟨h, hbt'⟩))
        subst hl
        exact Iff.rfl
      · simp only [hbt', false_and]

theorem inBox_swap (l r b t : K) (p : Pt K) : InBox (b, t, l, r) (spt p) ↔ InBox (l, r, b, t) p := by
  unfold InBox spt
  tauto

theorem bboxLineIntersect_swap (n : List (List K)) (p q : Pt K) (hn : Planar n) :
    Model.bboxLineIntersect (swapRows n) (spt p) (spt q) = Model.bboxLineIntersect n p q := by
  obtain ⟨xs, ys, rfl, _, _⟩ := hn
  have hbb := bbox_swapRows xs ys
  rcases hb : bbox [xs, ys] with e | ⟨l, r, b, t⟩
  · unfold Model.bboxLineIntersect
    rw [hbb, hb]
    rfl
  · rw [hb] at hbb
    have hb' : bbox (swapRows [xs, ys]) = .ok (b, t, l, r) := hbb
    obtain ⟨hlr, hbt⟩ := bbox_le _ l r b t hb
    apply bboxLine_eq_of_iff _ _ _ _ _ _ _ _ hb hb'
    by_cases hnd : l < r ∧ b < t
    · rw [bboxLineIntersect_exact _ _ _ _ _ _ _ hb' hnd.2 hnd.1, bboxLineIntersect_exact _ _ _ _ _ _ _ hb hnd.1 hnd.2]
      have key : ∀ u : K, InBox (b, t, l, r)
          ((spt p).1 + u * ((spt q).1 - (spt p).1), (spt p).2 + u * ((spt q).2 - (spt p).2))
          ↔ InBox (l, r, b, t) (p.1 + u * (q.1 - p.1), p.2 + u * (q.2 - p.2)) := by
        intro u
        exact inBox_swap l r b t (p.1 + u * (q.1 - p.1), p.2 + u * (q.2 - p.2))
      simp only [key]
    · rw [bboxLineIntersect_general _ _ _ _ _ _ _ hb', bboxLineIntersect_general _ _ _ _ _ _ _ hb,
        inBox_swap, inBox_swap]
      have h1 : OnHorizontal (spt p) (spt q) b t l ↔ OnVertical p q l b t := Iff.rfl
      have h2 : OnVertical (spt p) (spt q) t l r ↔ OnHorizontal p q l r t := Iff.rfl
      have h3 : OnHorizontal (spt p) (spt q) b t r ↔ OnVertical p q r b t := Iff.rfl
      rw [h1, h2, h3]
      by_cases hbt' : b < t
      · have hl : l = r := le_antisymm hlr (not_lt.mp (fun h => hnd ⟨h, hbt'⟩))
        subst hl
        simp only [hbt', true_and, lt_irrefl, false_and, false_or, or_false, or_self]
      · have hbe : b = t := le_antisymm hbt (not_lt.mp hbt')
        subst hbe
        simp only [lt_irrefl, false_and, false_or, or_false, or_self]

/-! ## the double-root Newton system -/

/-- `NewtonDoubleRoot.__call__` as a function of the evaluated quantities -/
def dblCore (f0 f1 dx1 dy1 dx2 dy2 ddx1 ddy1 ddx2 ddy2 : K) : Option ((K × K × K × K) × (K × K)) :=
  let f2 := dx1 * dy2 - dy1 * dx2
  if f0 = 0 ∧ f1 = 0 ∧ f2 = 0 then none
  else
    let j00 := dx1; let j01 := -dx2
    let j10 := dy1; let j11 := -dy2
    let j20 := ddx1 * dy2 - ddy1 * dx2
    let j21 := dx1 * ddy2 - dy1 * ddx2
    let a := j00 * j00 + j10 * j10 + j20 * j20
    let b := j00 * j01 + j10 * j11 + j20 * j21
    let d := j01 * j01 + j11 * j11 + j21 * j21
    let e := j00 * f0 + j10 * f1 + j20 * f2
    let f := j01 * f0 + j11 * f1 + j21 * f2
    some ((a, b, b, d), (e, f))

theorem newtonDouble_eq (thr : ℕ) (xs ys us vs : List K) (s t : K) :
    newtonDouble thr [xs, ys] [us, vs] s t =
      dblCore (evalRow thr xs s - evalRow thr us t) (evalRow thr ys s - evalRow thr vs t)
        (evalRow thr (derivNet xs) s) (evalRow thr (derivNet ys) s)
        (evalRow thr (derivNet us) t) (evalRow thr (derivNet vs) t)
        (evalRowOrZero thr (derivNet (derivNet xs)) s) (evalRowOrZero thr (derivNet (derivNet ys)) s)
        (evalRowOrZero thr (derivNet (derivNet us)) t) (evalRowOrZero thr (derivNet (derivNet vs)) t) := rfl

theorem dblCore_mirror (f0 f1 dx1 dy1 dx2 dy2 ddx1 ddy1 ddx2 ddy2 : K) :
    dblCore (-f0) f1 (-dx1) dy1 (-dx2) dy2 (-ddx1) ddy1 (-ddx2) ddy2
      = dblCore f0 f1 dx1 dy1 dx2 dy2 ddx1 ddy1 ddx2 ddy2 := by
  unfold dblCore
  dsimp only
  have hc : (-f0 = 0 ∧ f1 = 0 ∧ -dx1 * dy2 - dy1 * -dx2 = 0) ↔ (f0 = 0 ∧ f1 = 0 ∧ dx1 * dy2 - dy1 * dx2 = 0) := by
    rw [neg_eq_zero, show -dx1 * dy2 - dy1 * -dx2 = -(dx1 * dy2 - dy1 * dx2) by ring, neg_eq_zero]
  by_cases h : f0 = 0 ∧ f1 = 0 ∧ dx1 * dy2 - dy1 * dx2 = 0
  · rw [if_pos h, if_pos (hc.2 h)]
  · rw [if_neg h, if_neg (fun h' => h (hc.1 h'))]
    simp only [Option.some.injEq, Prod.mk.injEq]
    refine ⟨⟨?_, ?_, ?_, ?_⟩, ?_, ?_⟩ <;> ring

theorem dblCore_swap (f0 f1 dx1 dy1 dx2 dy2 ddx1 ddy1 ddx2 ddy2 : K) :
    dblCore f1 f0 dy1 dx1 dy2 dx2 ddy1 ddx1 ddy2 ddx2
      = dblCore f0 f1 dx1 dy1 dx2 dy2 ddx1 ddy1 ddx2 ddy2 := by
  unfold dblCore
  dsimp only
  have hc : (f1 = 0 ∧ f0 = 0 ∧ dy1 * dx2 - dx1 * dy2 = 0) ↔ (f0 = 0 ∧ f1 = 0 ∧ dx1 * dy2 - dy1 * dx2 = 0) := by
    rw [show dy1 * dx2 - dx1 * dy2 = -(dx1 * dy2 - dy1 * dx2) by ring, neg_eq_zero]
    tauto
  by_cases h : f0 = 0 ∧ f1 = 0 ∧ dx1 * dy2 - dy1 * dx2 = 0
  · rw [if_pos h, if_pos (hc.2 h)]
  · rw [if_neg h, if_neg (fun h' => h (hc.1 h'))]
    simp only [Option.some.injEq, Prod.mk.injEq]
    refine ⟨⟨?_, ?_, ?_, ?_⟩, ?_, ?_⟩ <;> ring

theorem evalRowOrZero_sc (thr : ℕ) (c : K) (row : List K) (s : K) :
    evalRowOrZero thr (sc c row) s = c * evalRowOrZero thr row s := by
  unfold evalRowOrZero
  have : (sc c row).isEmpty = row.isEmpty := by unfold sc; rw [List.isEmpty_map]
  rw [this]
  split_ifs
  · rw [mul_zero]
  · exact evalRow_sc thr c row s

theorem newtonDouble_mirror (thr : ℕ) (n1 n2 : List (List K)) (h1 : Planar n1) (h2 : Planar n2) :
    newtonDouble thr (diag (-1) 1 n1) (diag (-1) 1 n2) = newtonDouble thr n1 n2 := by
  obtain ⟨xs, ys, rfl, _, _⟩ := h1
  obtain ⟨us, vs, rfl, _, _⟩ := h2
  funext s t
  show newtonDouble thr [sc (-1) xs, sc 1 ys] [sc (-1) us, sc 1 vs] s t = _
  rw [newtonDouble_eq, newtonDouble_eq]
  simp only [derivNet_sc, evalRow_sc, evalRowOrZero_sc, neg_one_mul, one_mul]
  rw [← neg_sub', ]
  exact dblCore_mirror _ _ _ _ _ _ _ _ _ _

theorem newtonDouble_swap (thr : ℕ) (n1 n2 : List (List K)) (h1 : Planar n1) (h2 : Planar n2) :
    newtonDouble thr (swapRows n1) (swapRows n2) = newtonDouble thr n1 n2 := by
  obtain ⟨xs, ys, rfl, _, _⟩ := h1
  obtain ⟨us, vs, rfl, _, _⟩ := h2
  funext s t
  show newtonDouble thr [ys, xs] [vs, us] s t = _
  rw [newtonDouble_eq, newtonDouble_eq]
  exact dblCore_swap _ _ _ _ _ _ _ _ _ _

/-! ## `vector_close` -/

theorem vectorClosePt_mirror (p q : List K) (hp : Point2 p) (hq : Point2 q) (epsSq : K) :
    vectorCloseSq (diagPt (-1) 1 p) (diagPt (-1) 1 q) epsSq = vectorCloseSq p q epsSq := by
  obtain ⟨x, y, rfl⟩ := point2_cases p hp
  obtain ⟨u, v, rfl⟩ := point2_cases q hq
  exact vectorCloseSq_chunk2_isometry (dpt (-1) 1) (similar_dpt (-1) 1 (by norm_num) one_ne_zero (by norm_num)).sub
    (fun p => by unfold dpt; ring) [(x, y)] [(u, v)] epsSq

theorem vectorCloseFlat_mirror (a b : List (List K)) (ha : Planar a) (hb : Planar b) (epsSq : K) :
    vectorCloseSq (flatten (diag (-1) 1 a)) (flatten (diag (-1) 1 b)) epsSq
      = vectorCloseSq (flatten a) (flatten b) epsSq := by
  obtain ⟨xs, ys, rfl, _, _⟩ := ha
  obtain ⟨us, vs, rfl, _, _⟩ := hb
  rw [flatten_diag, flatten_diag, flatten_two, flatten_two]
  exact vectorCloseSq_chunk2_isometry (dpt (-1) 1) (similar_dpt (-1) 1 (by norm_num) one_ne_zero (by norm_num)).sub
    (fun p => by unfold dpt; ring) _ _ epsSq

theorem vectorClosePt_swap (p q : List K) (hp : Point2 p) (hq : Point2 q) (epsSq : K) :
    vectorCloseSq (swapPt p) (swapPt q) epsSq = vectorCloseSq p q epsSq := by
  obtain ⟨x, y, rfl⟩ := point2_cases p hp
  obtain ⟨u, v, rfl⟩ := point2_cases q hq
  exact vectorCloseSq_chunk2_isometry spt similar_spt.sub (fun p => by unfold spt; ring) [(x, y)] [(u, v)] epsSq

theorem vectorCloseFlat_swap (a b : List (List K)) (ha : Planar a) (hb : Planar b) (epsSq : K) :
    vectorCloseSq (flatten (swapRows a)) (flatten (swapRows b)) epsSq
      = vectorCloseSq (flatten a) (flatten b) epsSq := by
  obtain ⟨xs, ys, rfl, h1, _⟩ := ha
  obtain ⟨us, vs, rfl, h3, _⟩ := hb
  rw [flatten_swapRows xs ys h1, flatten_swapRows us vs h3, flatten_two, flatten_two]
  exact vectorCloseSq_chunk2_isometry spt similar_spt.sub (fun p => by unfold spt; ring) _ _ epsSq

/-! ## the records of concrete primitives -/

theorem similar_mirror : Similar (dpt (-1 : K) 1) (-1 * 1) (-1 * -1) :=
  similar_dpt (-1) 1 (by norm_num) one_ne_zero (by norm_num)

/-- **the concrete primitives under the mirror `x ↦ -x`**: everything except `convex_hull_collide` (`hhull`) -/
theorem concretePrims_mirror_invariant (py : Bool) (C : PipelineConsts K)
    (hhull : ∀ a b : List (List K), Planar a → Planar b →
      (concretePrims py C).hullCollide (diag (-1) 1 a) (diag (-1) 1 b) = (concretePrims py C).hullCollide a b) :
    PrimsInvariant (concretePrims py C) (diag (-1) 1) (diagPt (-1) 1) Planar Point2 where
  firstNode_T := firstNode_diag (-1) 1
  lastNode_T := lastNode_diag (-1) 1
  firstNode_V := firstNode_point2
  lastNode_V := lastNode_point2
  ncols_T := ncols_diag (-1) 1
  bboxIntersect := by
    intro a b ha hb
    show boxKindOf (Model.bboxIntersect _ _) = boxKindOf (Model.bboxIntersect a b)
    rw [bboxIntersect_of (diag (-1) 1) (boxNeg (-1) 1) (bbox_diag_neg (-1) 1 (by norm_num) one_pos)
      (boxRelation_neg (-1) 1 (by norm_num) one_pos) a b ha hb]
  bboxLineIntersect := by
    intro a p q ha hp hq
    show boxKindOf (Model.bboxLineIntersect _ (ptOf _) (ptOf _)) = boxKindOf (Model.bboxLineIntersect a (ptOf p) (ptOf q))
    rw [ptOf_diagPt (-1) 1 p hp, ptOf_diagPt (-1) 1 q hq, bboxLineIntersect_mirror a _ _ ha]
  linErrSq := by
    intro a ha
    simp only [concretePrims]
    rw [linearizationErrorSq_diag (-1) 1 (by norm_num) a ha]
    rcases linearizationErrorSq a with e | v
    · rfl
    · simp [Except.map]
  segmentIntersection := by
    intro p q r s hp hq hr hs
    show Model.segmentIntersection (ptOf _) (ptOf _) (ptOf _) (ptOf _) = Model.segmentIntersection (ptOf p) (ptOf q) (ptOf r) (ptOf s)
    rw [ptOf_diagPt (-1) 1 p hp, ptOf_diagPt (-1) 1 q hq, ptOf_diagPt (-1) 1 r hr, ptOf_diagPt (-1) 1 s hs,
      segmentIntersection_similar similar_mirror]
  parallelLines := by
    intro p q r s hp hq hr hs
    simp only [concretePrims]
    rw [ptOf_diagPt (-1) 1 p hp, ptOf_diagPt (-1) 1 q hq, ptOf_diagPt (-1) 1 r hr, ptOf_diagPt (-1) 1 s hs,
      parallelLinesParameters_similar similar_mirror]
  hullCollide := hhull
  vectorClosePt := fun p q hp hq => vectorClosePt_mirror p q hp hq C.epsSq
  vectorCloseFlat := fun a b ha hb _ => vectorCloseFlat_mirror a b ha hb C.epsSq
  fullNewton := by
    intro s a t b ha hb
    exact fullNewton_of (diag (-1) 1) _ _ _ _ _ _ (reverse_diag (-1) 1)
      (fun n1 n2 h1 h2 => newtonSimple_diag _ (-1) 1 (by norm_num) one_ne_zero n1 n2 h1 h2)
      (fun n1 n2 h1 h2 fuel s t => by rw [newtonDouble_mirror _ n1 n2 h1 h2]) s a t b ha hb
  locate := by
    intro a p ha hp
    simp only [concretePrims]
    rw [locatePoint_of (diag (-1) 1) (diagPt (-1) 1) _
      (subdivCommutes_of (diag (-1) 1) (planar_diag (-1) 1) (fun n s t hn => py_specialize_diag (-1) 1 n s t hn) py)
      (containsND_diag (-1) 1 (by norm_num) one_ne_zero) _
      (fun n p s hn hp => newtonRefine_diag _ (-1) 1 (by norm_num) (by norm_num) n p s hn hp) _ _ a p ha hp]
  subdivide_T := fun a ha =>
    (subdivCommutes_of (diag (-1) 1) (planar_diag (-1) 1) (fun n s t hn => py_specialize_diag (-1) 1 n s t hn) py a ha).1
  subdivide_V := fun a ha =>
    (subdivCommutes_of (diag (-1) 1) (planar_diag (-1) 1) (fun n s t hn => py_specialize_diag (-1) 1 n s t hn) py a ha).2
  specialize_T := fun a s t ha =>
    (specializeCommutes_of (diag (-1) 1) (planar_diag (-1) 1) (fun n s t hn => py_specialize_diag (-1) 1 n s t hn)
      py a s t ha).1
  specialize_V := fun a s t ha =>
    (specializeCommutes_of (diag (-1) 1) (planar_diag (-1) 1) (fun n s t hn => py_specialize_diag (-1) 1 n s t hn)
      py a s t ha).2.1
  specialize_ncols := fun a s t ha =>
    (specializeCommutes_of (diag (-1) 1) (planar_diag (-1) 1) (fun n s t hn => py_specialize_diag (-1) 1 n s t hn)
      py a s t ha).2.2
  elevate_T := elevate_diag (-1) 1
  elevate_V := elevate_planar
  elevate_ncols := elevate_ncols

/-- **the concrete primitives under the axis swap**: everything except `convex_hull_collide` (`hhull`) -/
theorem concretePrims_swap_invariant (py : Bool) (C : PipelineConsts K)
    (hhull : ∀ a b : List (List K), Planar a → Planar b →
      (concretePrims py C).hullCollide (swapRows a) (swapRows b) = (concretePrims py C).hullCollide a b) :
    PrimsInvariant (concretePrims py C) swapRows swapPt Planar Point2 where
  firstNode_T := firstNode_swapRows
  lastNode_T := lastNode_swapRows
  firstNode_V := firstNode_point2
  lastNode_V := lastNode_point2
  ncols_T := ncols_swapRows
  bboxIntersect := by
    intro a b ha hb
    show boxKindOf (Model.bboxIntersect _ _) = boxKindOf (Model.bboxIntersect a b)
    rw [bboxIntersect_of swapRows boxSwap bbox_swapRows boxRelation_swap a b ha hb]
  bboxLineIntersect := by
    intro a p q ha hp hq
    show boxKindOf (Model.bboxLineIntersect _ (ptOf _) (ptOf _)) = boxKindOf (Model.bboxLineIntersect a (ptOf p) (ptOf q))
    rw [ptOf_swapPt p hp, ptOf_swapPt q hq, bboxLineIntersect_swap a _ _ ha]
  linErrSq := by
    intro a ha
    simp only [concretePrims]
    rw [linearizationErrorSq_swapRows a ha]
  segmentIntersection := by
    intro p q r s hp hq hr hs
    show Model.segmentIntersection (ptOf _) (ptOf _) (ptOf _) (ptOf _) = Model.segmentIntersection (ptOf p) (ptOf q) (ptOf r) (ptOf s)
    rw [ptOf_swapPt p hp, ptOf_swapPt q hq, ptOf_swapPt r hr, ptOf_swapPt s hs,
      segmentIntersection_similar similar_spt]
  parallelLines := by
    intro p q r s hp hq hr hs
    simp only [concretePrims]
    rw [ptOf_swapPt p hp, ptOf_swapPt q hq, ptOf_swapPt r hr, ptOf_swapPt s hs,
      parallelLinesParameters_similar similar_spt]
  hullCollide := hhull
  vectorClosePt := fun p q hp hq => vectorClosePt_swap p q hp hq C.epsSq
  vectorCloseFlat := fun a b ha hb _ => vectorCloseFlat_swap a b ha hb C.epsSq
  fullNewton := by
    intro s a t b ha hb
    exact fullNewton_of swapRows _ _ _ _ _ _ reverse_swapRows
      (fun n1 n2 h1 h2 => newtonSimple_swapRows _ n1 n2 h1 h2)
      (fun n1 n2 h1 h2 fuel s t => by rw [newtonDouble_swap _ n1 n2 h1 h2]) s a t b ha hb
  locate := by
    intro a p ha hp
    simp only [concretePrims]
    rw [locatePoint_of swapRows swapPt _
      (subdivCommutes_of swapRows planar_swapRows (fun n s t hn => py_specialize_swapRows n s t hn) py)
      containsND_swapRows _ (fun n p s hn hp => newtonRefine_swapRows _ n p s hn hp) _ _ a p ha hp]
  subdivide_T := fun a ha =>
    (subdivCommutes_of swapRows planar_swapRows (fun n s t hn => py_specialize_swapRows n s t hn) py a ha).1
  subdivide_V := fun a ha =>
    (subdivCommutes_of swapRows planar_swapRows (fun n s t hn => py_specialize_swapRows n s t hn) py a ha).2
  specialize_T := fun a s t ha =>
    (specializeCommutes_of swapRows planar_swapRows (fun n s t hn => py_specialize_swapRows n s t hn) py a s t ha).1
  specialize_V := fun a s t ha =>
    (specializeCommutes_of swapRows planar_swapRows (fun n s t hn => py_specialize_swapRows n s t hn) py a s t ha).2.1
  specialize_ncols := fun a s t ha =>
    (specializeCommutes_of swapRows planar_swapRows (fun n s t hn => py_specialize_swapRows n s t hn) py a s t ha).2.2
  elevate_T := elevate_swapRows
  elevate_V := elevate_planar
  elevate_ncols := elevate_ncols

end BezierVerif.PipelineMirror
