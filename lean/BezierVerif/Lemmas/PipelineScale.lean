import BezierVerif.Lemmas.PipelineLinear

/-!
# Lemmas/PipelineScale — the concrete primitives under a scaling of the plane by `k > 0`

`T = diag k k` (`= Equivariance.scale k` on planar arrays).  The library's thresholds are a mixture of relative and
absolute quantities; what each primitive does under the scaling:

* invariant: `bbox_intersect`, `bbox_line_intersect`, `segment_intersection`, `parallel_lines_parameters`,
  `convex_hull_collide` (both variants), `locate_point`, the SIMPLE-root Newton iteration (both equations are
  multiplied by `k`, `solve2x2` returns the same step);
* commuting: subdivision, specialisation (both variants), elevation;
* `linearization_error²` is multiplied by `k²`: the decision `error < _ERROR_VAL` is the same iff the ABSOLUTE constant
  `errValSq` is multiplied by `k²` as well (`scaleGeo`);
* NOT invariant (hypotheses of `concretePrims_scale_related`):
  - `vector_close`: the branch "one of the vectors is exactly zero" compares the other norm with the absolute `eps`
    (`vectorCloseSq_scale_of_ne_zero`: invariant when neither vector is zero; invariant for `eps = 0`);
  - the DOUBLE-root Newton iteration: the Gauss–Newton system of `G = (F, B₁' × B₂')` mixes a length (`F ∝ k`) with an
    area (`B₁' × B₂' ∝ k²`), its normal equations are not homogeneous in `k`.
-/

set_option linter.unusedSectionVars false
set_option linter.unusedVariables false

namespace BezierVerif.PipelineScale

open Model BezierVerif Equivariance PipelineTranslate PipelineLinear PipelineEquivariance

variable {K : Type} [Field K] [LinearOrder K] [IsStrictOrderedRing K]

/-- the pipeline constants for data scaled by `k`: only the squared absolute linearisation threshold changes -/
def scaleGeo (k : K) (G : GeoConsts K) : GeoConsts K := { G with errValSq := k * k * G.errValSq }

/-- the constants of the primitives for data scaled by `k` (the primitives do not read `errValSq`) -/
def scaleConsts (k : K) (C : PipelineConsts K) : PipelineConsts K := { C with geo := scaleGeo k C.geo }

theorem concretePrims_scaleConsts (py : Bool) (k : K) (C : PipelineConsts K) :
    concretePrims py (scaleConsts k C) = concretePrims py C := rfl

theorem orderSimilar_scale (k : K) (hk : 0 < k) : OrderSimilar (dpt k k) (k * k) where
  toSimilar := similar_dpt k k hk.ne' hk.ne' rfl
  m_pos := mul_pos hk hk
  lex := by
    intro p r
    unfold lexLt dpt
    simp only [mul_lt_mul_iff_right₀ hk, mul_right_inj' hk.ne']
  inj := by
    intro p q
    unfold dpt
    constructor
    · intro h
      have h1 := congrArg Prod.fst h
      have h2 := congrArg Prod.snd h
      simp only [mul_right_inj' hk.ne'] at h1 h2
      exact Prod.ext h1 h2
    · intro h; rw [h]
  normSq := by intro d; unfold dpt; ring

theorem inInterval_mul (c v l r : K) (hc : 0 < c) : inInterval (c * v) (c * l) (c * r) = inInterval v l r := by
  unfold inInterval
  simp only [mul_le_mul_iff_right₀ hc]

theorem bboxLineIntersect_scale (k : K) (hk : 0 < k) (n : List (List K)) (p q : Pt K) (hn : Planar n) :
    Model.bboxLineIntersect (diag k k n) (dpt k k p) (dpt k k q) = Model.bboxLineIntersect n p q := by
  obtain ⟨xs, ys, rfl, _, _⟩ := hn
  have hS := similar_dpt k k hk.ne' hk.ne' rfl
  unfold Model.bboxLineIntersect
  rw [bbox_diag_pos k k hk hk]
  rcases bbox [xs, ys] with e1 | ⟨l, r, bo, t⟩
  · rfl
  · simp only [Except.map, boxPos]
    have e1 : ((k * l, k * bo) : Pt K) = dpt k k (l, bo) := rfl
    have e2 : ((k * r, k * bo) : Pt K) = dpt k k (r, bo) := rfl
    have e3 : ((k * r, k * t) : Pt K) = dpt k k (r, t) := rfl
    have e4 : ((k * l, k * t) : Pt K) = dpt k k (l, t) := rfl
    have f1 : (dpt k k p).1 = k * p.1 := rfl
    have f2 : (dpt k k p).2 = k * p.2 := rfl
    have f3 : (dpt k k q).1 = k * q.1 := rfl
    have f4 : (dpt k k q).2 = k * q.2 := rfl
    simp only [e1, e2, e3, e4, f1, f2, f3, f4, inInterval_mul _ _ _ _ hk, segmentIntersection_similar hS]

theorem hullCollide_scale (py : Bool) (k : K) (hk : 0 < k) (a b : List (List K)) (ha : Planar a) (hb : Planar b) :
    (if py then Py.convexHullCollide (colsOf (diag k k a)) (colsOf (diag k k b))
      else F90.convexHullCollide (colsOf (diag k k a)) (colsOf (diag k k b)))
    = (if py then Py.convexHullCollide (colsOf a) (colsOf b) else F90.convexHullCollide (colsOf a) (colsOf b)) := by
  obtain ⟨xs, ys, rfl, _, _⟩ := ha
  obtain ⟨us, vs, rfl, _, _⟩ := hb
  have h := orderSimilar_scale k hk
  rw [colsOf_diag, colsOf_diag, py_convexHullCollide_L h, f90_convexHullCollide_L h]

/-- `vector_close` on two scaled flattened arrays: invariant when neither array is zero -/
theorem vectorCloseSq_scale_of_ne_zero (k : K) (hk : 0 < k) (l l' : List (Pt K)) (epsSq : K)
    (h1 : normSq (chunk2 l) ≠ 0) (h2 : normSq (chunk2 l') ≠ 0) :
    vectorCloseSq (chunk2 (l.map (dpt k k))) (chunk2 (l'.map (dpt k k))) epsSq
      = vectorCloseSq (chunk2 l) (chunk2 l') epsSq := by
  have h := orderSimilar_scale k hk
  rw [vectorCloseSq_chunk2_map (dpt k k) (k * k) h.m_pos h.sub h.normSq, if_neg h1, if_neg h2]
  unfold vectorCloseSq
  simp only [if_neg h1, if_neg h2]

/-- **the concrete primitives under the scaling by `k > 0`**: `concretePrims py C` with the constants `scaleGeo k G` on
    the scaled data answers like `concretePrims py C` with `G` on the original data.  Hypotheses: `vector_close` (end
    points, flattened arrays) and the double-root Newton iteration, which are not scale invariant -/
theorem concretePrims_scale_related (py : Bool) (C : PipelineConsts K) (G : GeoConsts K) (k : K) (hk : 0 < k)
    (hpt : ∀ p q : List K, Point2 p → Point2 q →
      vectorCloseSq (diagPt k k p) (diagPt k k q) C.epsSq = vectorCloseSq p q C.epsSq)
    (hflat : ∀ a b : List (List K), Planar a → Planar b → ncols a = ncols b →
      vectorCloseSq (flatten (diag k k a)) (flatten (diag k k b)) C.epsSq
        = vectorCloseSq (flatten a) (flatten b) C.epsSq)
    (hdouble : ∀ n1 n2 : List (List K), Planar n1 → Planar n2 → ∀ fuel s t,
      newtonIterate solverOf (if py then Py.cut else F90.cut) C.rnd C.geo.ratioSq
          (newtonDouble C.vsThr (diag k k n1) (diag k k n2)) fuel s t
        = newtonIterate solverOf (if py then Py.cut else F90.cut) C.rnd C.geo.ratioSq
          (newtonDouble C.vsThr n1 n2) fuel s t) :
    PrimsRelated (concretePrims py C) G (concretePrims py C) (scaleGeo k G) (diag k k) (diagPt k k)
      (fun e => k * k * e) Planar Point2 where
  maxRounds_eq := rfl
  maxCandidates_eq := rfl
  zeroThr_eq := rfl
  ratioSq_eq := rfl
  minWidth_eq := rfl
  unhandled_eq := rfl
  wiggle_eq := fun _ => rfl
  inUnit_eq := fun _ => rfl
  errZero := by
    intro e
    simp only [mul_eq_zero, hk.ne', false_or]
  firstNode_T := firstNode_diag k k
  lastNode_T := lastNode_diag k k
  firstNode_V := firstNode_point2
  lastNode_V := lastNode_point2
  ncols_T := ncols_diag k k
  bboxIntersect := by
    intro a b ha hb
    show boxKindOf (Model.bboxIntersect _ _) = boxKindOf (Model.bboxIntersect a b)
    rw [bboxIntersect_of (diag k k) (boxPos k k) (bbox_diag_pos k k hk hk) (boxRelation_pos k k hk hk) a b ha hb]
  bboxLineIntersect := by
    intro a p q ha hp hq
    show boxKindOf (Model.bboxLineIntersect _ (ptOf _) (ptOf _)) = boxKindOf (Model.bboxLineIntersect a (ptOf p) (ptOf q))
    rw [ptOf_diagPt k k p hp, ptOf_diagPt k k q hq, bboxLineIntersect_scale k hk a _ _ ha]
  linErrSq := by
    intro a ha
    simp only [concretePrims]
    rw [linearizationErrorSq_diag k k rfl a ha]
    rcases linearizationErrorSq a with e | v
    · simp [Except.map]
    · rfl
  errLt := by
    intro a ha
    show k * k * _ < k * k * G.errValSq ↔ _
    exact mul_lt_mul_iff_right₀ (mul_pos hk hk)
  segmentIntersection := by
    intro p q r s hp hq hr hs
    show Model.segmentIntersection (ptOf _) (ptOf _) (ptOf _) (ptOf _) = Model.segmentIntersection (ptOf p) (ptOf q) (ptOf r) (ptOf s)
    rw [ptOf_diagPt k k p hp, ptOf_diagPt k k q hq, ptOf_diagPt k k r hr, ptOf_diagPt k k s hs,
      segmentIntersection_similar (similar_dpt k k hk.ne' hk.ne' rfl)]
  parallelLines := by
    intro p q r s hp hq hr hs
    simp only [concretePrims]
    rw [ptOf_diagPt k k p hp, ptOf_diagPt k k q hq, ptOf_diagPt k k r hr, ptOf_diagPt k k s hs,
      parallelLinesParameters_similar (similar_dpt k k hk.ne' hk.ne' rfl)]
  hullCollide := by
    intro a b ha hb
    simp only [concretePrims]
    rw [hullCollide_scale py k hk a b ha hb]
  vectorClosePt := hpt
  vectorCloseFlat := hflat
  fullNewton := by
    intro s a t b ha hb
    exact fullNewton_of (diag k k) _ _ _ _ _ _ (reverse_diag k k)
      (fun n1 n2 h1 h2 => newtonSimple_diag _ k k hk.ne' hk.ne' n1 n2 h1 h2) hdouble s a t b ha hb
  locate := by
    intro a p ha hp
    simp only [concretePrims]
    rw [locatePoint_of (diag k k) (diagPt k k) _
      (subdivCommutes_of (diag k k) (planar_diag k k) (fun n s t hn => py_specialize_diag k k n s t hn) py)
      (containsND_diag k k hk.ne' hk.ne') _ (fun n p s hn hp => newtonRefine_diag _ k k hk.ne' rfl n p s hn hp)
      _ _ a p ha hp]
  subdivide_T := fun a ha =>
    (subdivCommutes_of (diag k k) (planar_diag k k) (fun n s t hn => py_specialize_diag k k n s t hn) py a ha).1
  subdivide_V := fun a ha =>
    (subdivCommutes_of (diag k k) (planar_diag k k) (fun n s t hn => py_specialize_diag k k n s t hn) py a ha).2
  specialize_T := fun a s t ha =>
    (specializeCommutes_of (diag k k) (planar_diag k k) (fun n s t hn => py_specialize_diag k k n s t hn) py a s t ha).1
  specialize_V := fun a s t ha =>
    (specializeCommutes_of (diag k k) (planar_diag k k) (fun n s t hn => py_specialize_diag k k n s t hn) py a s t ha).2.1
  specialize_ncols := fun a s t ha =>
    (specializeCommutes_of (diag k k) (planar_diag k k) (fun n s t hn => py_specialize_diag k k n s t hn) py a s t ha).2.2
  elevate_T := elevate_diag k k
  elevate_V := elevate_planar
  elevate_ncols := elevate_ncols

/-! ### `eps = 0`: `vector_close` is equality, which every injective map keeps -/

theorem map_dpt_inj (a b : K) (ha : a ≠ 0) (hb : b ≠ 0) (l l' : List (Pt K)) :
    l.map (dpt a b) = l'.map (dpt a b) ↔ l = l' := by
  constructor
  · intro h
    refine List.map_injective_iff.mpr ?_ h
    intro p q hpq
    unfold dpt at hpq
    have h1 := congrArg Prod.fst hpq
    have h2 := congrArg Prod.snd hpq
    simp only [mul_right_inj' ha, mul_right_inj' hb] at h1 h2
    exact Prod.ext h1 h2
  · intro h; rw [h]

theorem vectorClosePt_diag_zero (a b : K) (ha : a ≠ 0) (hb : b ≠ 0) (p q : List K) (hp : Point2 p) (hq : Point2 q) :
    vectorCloseSq (diagPt a b p) (diagPt a b q) 0 = vectorCloseSq p q 0 := by
  obtain ⟨x, y, rfl⟩ := point2_cases p hp
  obtain ⟨u, v, rfl⟩ := point2_cases q hq
  rw [vectorCloseSq_zero (diagPt a b [x, y]) (diagPt a b [u, v]) rfl, vectorCloseSq_zero [x, y] [u, v] rfl,
    decide_eq_decide]
  simp only [diagPt, List.cons.injEq, mul_right_inj' ha, mul_right_inj' hb]

theorem vectorCloseFlat_diag_zero (a b : K) (ha : a ≠ 0) (hb : b ≠ 0) (n n' : List (List K)) (hn : Planar n)
    (hn' : Planar n') (hc : ncols n = ncols n') :
    vectorCloseSq (flatten (diag a b n)) (flatten (diag a b n')) 0 = vectorCloseSq (flatten n) (flatten n') 0 := by
  obtain ⟨xs, ys, rfl, h1, h2⟩ := hn
  obtain ⟨us, vs, rfl, h3, h4⟩ := hn'
  have hc' : xs.length = us.length := hc
  rw [flatten_diag, flatten_diag, flatten_two, flatten_two]
  have hl : (colsD xs ys).length = (colsD us vs).length := by
    unfold colsD; simp only [List.length_map, List.length_range]; exact hc'
  rw [vectorCloseSq_zero _ _ (by rw [chunk2_length, chunk2_length, List.length_map, List.length_map, hl]),
    vectorCloseSq_zero _ _ (by rw [chunk2_length, chunk2_length, hl]), decide_eq_decide,
    chunk2_inj, chunk2_inj, map_dpt_inj a b ha hb]

end BezierVerif.PipelineScale
