import BezierVerif.Model.GeometricInst
import BezierVerif.Lemmas.PipelineEquivariance
import BezierVerif.Lemmas.Equivariance
import BezierVerif.Lemmas.Predicates
import BezierVerif.Lemmas.PredicatesHull
import BezierVerif.Lemmas.PipelineInst
import BezierVerif.Props.C04
import Mathlib.Algebra.Order.Field.Basic
import Mathlib.Tactic.Ring
import Mathlib.Tactic.Linarith
import Mathlib.Tactic.FieldSimp

/-!
# Lemmas/PipelineTranslate — the concrete primitives under a translation of the plane

For a linearly ordered field `K`, the vector `(cx, cy)` and planar node arrays (two rows of equal
length ≥ 2, `Planar`), every transcription plugged into `concretePrims` (Model/GeometricInst.lean)
is examined under `translate [cx, cy]` (Lemmas/Equivariance):

* invariant: `bbox_intersect`, `bbox_line_intersect`, `linearization_error`, `segment_intersection`,
  `parallel_lines_parameters`, `convex_hull_collide` (both variants: the sorted distinct points, the
  monotone chain, the edge directions and the separating-axis parameter ranges all translate),
  `full_newton` (`F = B₁(s) − B₂(t)` and the hodographs do not change), `locate_point`
  (containment boxes move with the point; the Newton step sees `p − B(s)` and `B'(s)`);
* commuting: `subdivide_nodes`, `specialize_curve` (both variants), `elevate_nodes`;
* NOT invariant: `vector_close` — its tolerance is relative to the norms of the two position vectors
  (`vectorClose_not_translation_invariant`), so it enters `PipelineEquivariance.PrimsInvariant` as a
  hypothesis; it IS invariant when `eps = 0` (`vectorCloseSq_zero_iff`).
-/

set_option linter.unusedSectionVars false
set_option linter.unusedVariables false

namespace BezierVerif.PipelineTranslate

open Model BezierVerif Equivariance

variable {K : Type} [Field K] [LinearOrder K] [IsStrictOrderedRing K]

/-! ## shapes -/

/-- a planar node array: two rows of the same length, at least two nodes -/
def Planar (a : List (List K)) : Prop := ∃ xs ys, a = [xs, ys] ∧ xs.length = ys.length ∧ 2 ≤ xs.length

/-- a planar point -/
def Point2 (p : List K) : Prop := p.length = 2

/-- translation of one row -/
def tr (c : K) (row : List K) : List K := row.map (fun x => x + c)

/-- translation of a point given as a pair -/
def tpt (cx cy : K) (p : Pt K) : Pt K := (p.1 + cx, p.2 + cy)

@[simp] theorem tr_length (c : K) (row : List K) : (tr c row).length = row.length := by
  unfold tr; rw [List.length_map]

theorem translate_two (cx cy : K) (xs ys : List K) : translate [cx, cy] [xs, ys] = [tr cx xs, tr cy ys] := rfl

theorem translatePt_two (cx cy a b : K) : translatePt [cx, cy] [a, b] = [a + cx, b + cy] := rfl

theorem planar_translate (cx cy : K) (a : List (List K)) (h : Planar a) : Planar (translate [cx, cy] a) := by
  obtain ⟨xs, ys, rfl, h1, h2⟩ := h
  exact ⟨tr cx xs, tr cy ys, rfl, by simpa using h1, by simpa using h2⟩

theorem point2_cases (p : List K) (h : Point2 p) : ∃ a b, p = [a, b] := by
  match p, h with
  | [a, b], _ => exact ⟨a, b, rfl⟩

theorem ptOf_translatePt (cx cy : K) (p : List K) (h : Point2 p) :
    ptOf (translatePt [cx, cy] p) = tpt cx cy (ptOf p) := by
  obtain ⟨a, b, rfl⟩ := point2_cases p h
  rfl

theorem headD_tr (c : K) (row : List K) (h : row ≠ []) : (tr c row).headD 0 = row.headD 0 + c := by
  cases row with
  | nil => exact absurd rfl h
  | cons x xs => rfl

theorem getD_tr (c : K) (row : List K) (i : ℕ) (h : i < row.length) :
    (tr c row).getD i 0 = row.getD i 0 + c := by
  have := seq_map (fun x => x + c) row i h
  unfold seq at this
  exact this

theorem firstNode_translate (cx cy : K) (a : List (List K)) (h : Planar a) :
    firstNode (translate [cx, cy] a) = translatePt [cx, cy] (firstNode a) := by
  obtain ⟨xs, ys, rfl, h1, h2⟩ := h
  have hx : xs ≠ [] := by intro e; subst e; simp at h2
  have hy : ys ≠ [] := by intro e; subst e; rw [List.length_nil] at h1; omega
  rw [translate_two]
  simp only [firstNode, List.map_cons, List.map_nil]
  rw [headD_tr cx xs hx, headD_tr cy ys hy, translatePt_two]

theorem lastNode_translate (cx cy : K) (a : List (List K)) (h : Planar a) :
    lastNode (translate [cx, cy] a) = translatePt [cx, cy] (lastNode a) := by
  obtain ⟨xs, ys, rfl, h1, h2⟩ := h
  rw [translate_two]
  simp only [lastNode, List.map_cons, List.map_nil, tr_length]
  rw [getD_tr cx xs _ (by omega), getD_tr cy ys _ (by omega), translatePt_two]

theorem firstNode_point2 (a : List (List K)) (h : Planar a) : Point2 (firstNode a) := by
  obtain ⟨xs, ys, rfl, _, _⟩ := h; rfl

theorem lastNode_point2 (a : List (List K)) (h : Planar a) : Point2 (lastNode a) := by
  obtain ⟨xs, ys, rfl, _, _⟩ := h; rfl

theorem ncols_translate (cx cy : K) (a : List (List K)) (h : Planar a) :
    ncols (translate [cx, cy] a) = ncols a := by
  obtain ⟨xs, ys, rfl, _, _⟩ := h
  simp [translate_two, ncols]

/-! ## bounding boxes -/

theorem minK_add (a b c : K) : minK (a + c) (b + c) = minK a b + c := by
  unfold minK
  split_ifs with h1 h2 h2
  · rfl
  · exact absurd (lt_of_add_lt_add_right h1) h2
  · exact absurd (add_lt_add_left h2 c) h1
  · rfl

theorem maxK_add (a b c : K) : maxK (a + c) (b + c) = maxK a b + c := by
  unfold maxK
  split_ifs with h1 h2 h2
  · rfl
  · exact absurd (lt_of_add_lt_add_right h1) h2
  · exact absurd (add_lt_add_left h2 c) h1
  · rfl

theorem minOf_tr (c : K) : ∀ (xs : List K) (x : K), minOf (x + c) (tr c xs) = minOf x xs + c
  | [], x => rfl
  | y :: ys, x => by
    have ih := minOf_tr c ys (minK x y)
    unfold minOf tr at ih ⊢
    simp only [List.map_cons, List.foldl_cons]
    rw [minK_add, ih]

theorem maxOf_tr (c : K) : ∀ (xs : List K) (x : K), maxOf (x + c) (tr c xs) = maxOf x xs + c
  | [], x => rfl
  | y :: ys, x => by
    have ih := maxOf_tr c ys (maxK x y)
    unfold maxOf tr at ih ⊢
    simp only [List.map_cons, List.foldl_cons]
    rw [maxK_add, ih]

/-- the box shifted by `(cx, cy)` -/
def shiftBox (cx cy : K) (b : K × K × K × K) : K × K × K × K :=
  (b.1 + cx, b.2.1 + cx, b.2.2.1 + cy, b.2.2.2 + cy)

theorem bbox_translate (cx cy : K) (xs ys : List K) :
    bbox (translate [cx, cy] [xs, ys]) = (bbox [xs, ys]).map (shiftBox cx cy) := by
  rw [translate_two]
  cases xs with
  | nil => cases ys <;> rfl
  | cons x xs =>
    cases ys with
    | nil => rfl
    | cons y ys =>
      show bbox [(x + cx) :: tr cx xs, (y + cy) :: tr cy ys] = _
      simp only [bbox, Except.map, shiftBox]
      rw [minOf_tr, maxOf_tr, minOf_tr, maxOf_tr]

theorem boxRelation_shift (cx cy : K) (b1 b2 : K × K × K × K) :
    boxRelation (shiftBox cx cy b1) (shiftBox cx cy b2) = boxRelation b1 b2 := by
  obtain ⟨l1, r1, bo1, t1⟩ := b1
  obtain ⟨l2, r2, bo2, t2⟩ := b2
  simp only [boxRelation, shiftBox, add_lt_add_iff_right, add_left_inj]

theorem bboxIntersect_translate (cx cy : K) (a b : List (List K)) (ha : Planar a) (hb : Planar b) :
    Model.bboxIntersect (translate [cx, cy] a) (translate [cx, cy] b) = Model.bboxIntersect a b := by
  obtain ⟨xs, ys, rfl, _, _⟩ := ha
  obtain ⟨us, vs, rfl, _, _⟩ := hb
  unfold Model.bboxIntersect
  rw [bbox_translate, bbox_translate]
  rcases bbox [xs, ys] with e1 | b1 <;> rcases bbox [us, vs] with e2 | b2 <;> simp only [Except.map]
  rw [boxRelation_shift]

/-! ## differences of points -/

theorem psub_tpt (cx cy : K) (p q : Pt K) : psub (tpt cx cy p) (tpt cx cy q) = psub p q := by
  unfold psub tpt
  ext <;> simp

theorem segmentIntersection_tpt (cx cy : K) (a b c d : Pt K) :
    Model.segmentIntersection (tpt cx cy a) (tpt cx cy b) (tpt cx cy c) (tpt cx cy d)
      = Model.segmentIntersection a b c d := by
  unfold Model.segmentIntersection
  simp only [psub_tpt]

theorem cross_tpt (cx cy : K) (p d : Pt K) : cross (tpt cx cy p) d = cross p d + cross (cx, cy) d := by
  unfold cross tpt; ring

theorem parallelLinesParameters_tpt (cx cy : K) (a b c d : Pt K) :
    parallelLinesParameters (tpt cx cy a) (tpt cx cy b) (tpt cx cy c) (tpt cx cy d)
      = parallelLinesParameters a b c d := by
  unfold parallelLinesParameters
  simp only [psub_tpt, cross_tpt, ne_eq, add_left_inj]

theorem lineLineCollide_tpt (cx cy : K) (a b c d : Pt K) :
    lineLineCollide (tpt cx cy a) (tpt cx cy b) (tpt cx cy c) (tpt cx cy d) = lineLineCollide a b c d := by
  unfold lineLineCollide
  rw [segmentIntersection_tpt, parallelLinesParameters_tpt]

theorem inInterval_add (v l r c : K) : inInterval (v + c) (l + c) (r + c) = inInterval v l r := by
  unfold inInterval
  simp only [add_le_add_iff_right]

theorem bboxLineIntersect_translate (cx cy : K) (a : List (List K)) (p q : Pt K) (ha : Planar a) :
    Model.bboxLineIntersect (translate [cx, cy] a) (tpt cx cy p) (tpt cx cy q)
      = Model.bboxLineIntersect a p q := by
  obtain ⟨xs, ys, rfl, _, _⟩ := ha
  unfold Model.bboxLineIntersect
  rw [bbox_translate]
  rcases bbox [xs, ys] with e1 | ⟨l, r, bo, t⟩
  · rfl
  · simp only [Except.map, shiftBox]
    have e1 : ((l + cx, bo + cy) : Pt K) = tpt cx cy (l, bo) := rfl
    have e2 : ((r + cx, bo + cy) : Pt K) = tpt cx cy (r, bo) := rfl
    have e3 : ((r + cx, t + cy) : Pt K) = tpt cx cy (r, t) := rfl
    have e4 : ((l + cx, t + cy) : Pt K) = tpt cx cy (l, t) := rfl
    have f1 : (tpt cx cy p).1 = p.1 + cx := rfl
    have f2 : (tpt cx cy p).2 = p.2 + cy := rfl
    have f3 : (tpt cx cy q).1 = q.1 + cx := rfl
    have f4 : (tpt cx cy q).2 = q.2 + cy := rfl
    simp only [e1, e2, e3, e4, f1, f2, f3, f4, inInterval_add, segmentIntersection_tpt]

/-! ## `linearization_error` -/

theorem secondDiffs_tr (c : K) : ∀ row : List K, secondDiffs (tr c row) = secondDiffs row
  | [] => rfl
  | [_] => rfl
  | [_, _] => rfl
  | x :: y :: z :: rest => by
    have ih := secondDiffs_tr c (y :: z :: rest)
    unfold tr at ih ⊢
    simp only [List.map_cons, secondDiffs] at ih ⊢
    rw [ih]
    congr 1
    ring

theorem linearizationErrorSq_translate (cx cy : K) (a : List (List K)) (ha : Planar a) :
    linearizationErrorSq (translate [cx, cy] a) = linearizationErrorSq a := by
  have hn := ncols_translate cx cy a ha
  obtain ⟨xs, ys, rfl, _, _⟩ := ha
  unfold linearizationErrorSq
  rw [hn, translate_two]
  simp only [List.mapM_cons, List.mapM_nil, secondDiffs_tr]

/-! ## convex hull -/

theorem tpt_inj (cx cy : K) (p q : Pt K) : tpt cx cy p = tpt cx cy q ↔ p = q := by
  unfold tpt
  constructor
  · intro h
    have h1 := congrArg Prod.fst h
    have h2 := congrArg Prod.snd h
    simp only [add_left_inj] at h1 h2
    exact Prod.ext h1 h2
  · intro h; rw [h]

theorem lexLt_tpt (cx cy : K) (p r : Pt K) : lexLt (tpt cx cy p) (tpt cx cy r) = lexLt p r := by
  unfold lexLt tpt
  simp only [add_lt_add_iff_right, add_left_inj]

theorem insertUnique_tpt (cx cy : K) (p : Pt K) : ∀ l : List (Pt K),
    insertUnique (tpt cx cy p) (l.map (tpt cx cy)) = (insertUnique p l).map (tpt cx cy)
  | [] => rfl
  | r :: rest => by
    have ih := insertUnique_tpt cx cy p rest
    simp only [List.map_cons, insertUnique, lexLt_tpt, tpt_inj]
    split_ifs
    · rfl
    · rfl
    · rw [ih]; rfl

theorem sortUnique_tpt (cx cy : K) : ∀ pts : List (Pt K),
    Py.sortUnique (pts.map (tpt cx cy)) = (Py.sortUnique pts).map (tpt cx cy)
  | [] => rfl
  | p :: pts => by
    have ih := sortUnique_tpt cx cy pts
    unfold Py.sortUnique at ih ⊢
    simp only [List.map_cons, List.foldr_cons]
    rw [ih, insertUnique_tpt]

theorem crossProductCompare_tpt (cx cy : K) (a b c : Pt K) :
    crossProductCompare (tpt cx cy a) (tpt cx cy b) (tpt cx cy c) = crossProductCompare a b c := by
  unfold crossProductCompare
  rw [psub_tpt, psub_tpt]

theorem getP_map_tpt (cx cy : K) (pts : List (Pt K)) (i : ℕ) (h : i < pts.length) :
    getP (pts.map (tpt cx cy)) i = tpt cx cy (getP pts i) := by
  unfold getP
  rw [List.getD_eq_getElem?_getD, List.getD_eq_getElem?_getD, List.getElem?_map,
    List.getElem?_eq_getElem h]
  rfl

theorem chainPop_tpt (cx cy : K) (pts : List (Pt K)) (p2 : Pt K) : ∀ st : List ℕ,
    (∀ j ∈ st, j < pts.length) →
    chainPop (pts.map (tpt cx cy)) (tpt cx cy p2) st = chainPop pts p2 st
  | [], _ => by simp [chainPop]
  | [a], _ => by simp [chainPop]
  | i1 :: i0 :: rest, h => by
    have h1 : i1 < pts.length := h i1 (by simp)
    have h0 : i0 < pts.length := h i0 (by simp)
    have ih := chainPop_tpt cx cy pts p2 (i0 :: rest) (fun j hj => h j (List.mem_cons_of_mem _ hj))
    rw [chainPop, chainPop, getP_map_tpt cx cy pts i0 h0, getP_map_tpt cx cy pts i1 h1,
      crossProductCompare_tpt, ih]

/-- two folds that agree as long as an invariant holds -/
theorem foldl_congr_inv {α β : Type} (I : α → Prop) (f g : α → β → α) :
    ∀ (l : List β) (a : α), I a → (∀ a b, b ∈ l → I a → f a b = g a b ∧ I (g a b)) →
      l.foldl f a = l.foldl g a ∧ I (l.foldl g a)
  | [], a, ha, _ => ⟨rfl, ha⟩
  | b :: l, a, ha, hs => by
    obtain ⟨e, hi⟩ := hs a b (by simp) ha
    simp only [List.foldl_cons]
    rw [e]
    exact foldl_congr_inv I f g l _ hi (fun a' b' hb' => hs a' b' (by simp [hb']))

/-- the `lower` stack (top first) of the monotone chain -/
def lowerRevOf (pts : List (Pt K)) : List ℕ :=
  (List.range' 2 (pts.length - 2)).foldl (fun st index => index :: chainPop pts (getP pts index) st) [1, 0]

/-- the `upper` stack (top first) of the monotone chain -/
def upperRevOf (inS : List ℕ → ℕ → Bool) (pts : List (Pt K)) (lower : List ℕ) : List ℕ :=
  ((List.range (pts.length - 1)).reverse).foldl
    (fun st index =>
      if decide (0 < index) && inS lower index then st
      else index :: chainPop pts (getP pts index) st) [pts.length - 1]

theorem hullChain_eq (inS : List ℕ → ℕ → Bool) (pts : List (Pt K)) :
    hullChain inS pts = ((lowerRevOf pts).reverse.dropLast
      ++ (upperRevOf inS pts (lowerRevOf pts).reverse).reverse.dropLast).map (getP pts) := rfl

theorem push_step (cx cy : K) (pts : List (Pt K)) (st : List ℕ) (index : ℕ) (hi : index < pts.length)
    (hst : ∀ j ∈ st, j < pts.length) :
    (index :: chainPop (pts.map (tpt cx cy)) (getP (pts.map (tpt cx cy)) index) st
        = index :: chainPop pts (getP pts index) st) ∧
      (∀ j ∈ index :: chainPop pts (getP pts index) st, j < pts.length) := by
  rw [getP_map_tpt cx cy pts index hi, chainPop_tpt cx cy pts _ st hst]
  refine ⟨rfl, ?_⟩
  intro j hj
  rcases List.mem_cons.1 hj with rfl | hj
  · exact hi
  · exact hst j (PredicatesHull.mem_chainPop _ _ _ _ hj)

theorem lowerRevOf_tpt (cx cy : K) (pts : List (Pt K)) (hn : 2 ≤ pts.length) :
    lowerRevOf (pts.map (tpt cx cy)) = lowerRevOf pts ∧ ∀ j ∈ lowerRevOf pts, j < pts.length := by
  unfold lowerRevOf
  rw [List.length_map]
  apply foldl_congr_inv (fun st : List ℕ => ∀ j ∈ st, j < pts.length)
  · intro j hj
    simp only [List.mem_cons, List.not_mem_nil, or_false] at hj
    omega
  · intro st b hb hst
    have hb' := List.mem_range'_1.1 hb
    exact push_step cx cy pts st b (by omega) hst

theorem upperRevOf_tpt (cx cy : K) (inS : List ℕ → ℕ → Bool) (pts : List (Pt K)) (lower : List ℕ)
    (hn : 2 ≤ pts.length) :
    upperRevOf inS (pts.map (tpt cx cy)) lower = upperRevOf inS pts lower ∧
      ∀ j ∈ upperRevOf inS pts lower, j < pts.length := by
  unfold upperRevOf
  rw [List.length_map]
  apply foldl_congr_inv (fun st : List ℕ => ∀ j ∈ st, j < pts.length)
  · intro j hj
    simp only [List.mem_cons, List.not_mem_nil, or_false] at hj
    omega
  · intro st b hb hst
    have hb' := List.mem_range.1 (List.mem_reverse.1 hb)
    obtain ⟨e1, e2⟩ := push_step cx cy pts st b (by omega) hst
    split_ifs
    · exact ⟨rfl, hst⟩
    · exact ⟨e1, e2⟩

theorem hullChain_tpt (cx cy : K) (inS : List ℕ → ℕ → Bool) (pts : List (Pt K)) (hn : 2 ≤ pts.length) :
    hullChain inS (pts.map (tpt cx cy)) = (hullChain inS pts).map (tpt cx cy) := by
  obtain ⟨l1, l2⟩ := lowerRevOf_tpt cx cy pts hn
  obtain ⟨u1, u2⟩ := upperRevOf_tpt cx cy inS pts (lowerRevOf pts).reverse hn
  rw [hullChain_eq, hullChain_eq, l1, u1, List.map_map]
  apply List.map_congr_left
  intro i hi
  have hlt : i < pts.length := by
    rcases List.mem_append.1 hi with hi | hi
    · exact l2 i (List.mem_reverse.1 (List.mem_of_mem_dropLast hi))
    · exact u2 i (List.mem_reverse.1 (List.mem_of_mem_dropLast hi))
  exact getP_map_tpt cx cy pts i hlt

theorem py_convexHull_tpt (cx cy : K) (pts : List (Pt K)) :
    Py.convexHull (pts.map (tpt cx cy)) = (Py.convexHull pts).map (tpt cx cy) := by
  unfold Py.convexHull
  simp only [sortUnique_tpt, List.length_map]
  split_ifs with h
  · rfl
  · exact hullChain_tpt cx cy _ _ (by omega)

theorem f90_convexHull_tpt (cx cy : K) (pts : List (Pt K)) :
    F90.convexHull (pts.map (tpt cx cy)) = (F90.convexHull pts).map (tpt cx cy) := by
  rw [PredicatesHull.convexHull_variants_agree, PredicatesHull.convexHull_variants_agree, py_convexHull_tpt]

/-! ## separating axis test -/

theorem polygonEdgeDirs_tpt (cx cy : K) (poly : List (Pt K)) :
    polygonEdgeDirs (poly.map (tpt cx cy)) = polygonEdgeDirs poly := by
  unfold polygonEdgeDirs
  cases poly with
  | nil => rfl
  | cons p rest =>
    have e : ((p :: rest).map (tpt cx cy)).getLastD (0, 0) = tpt cx cy ((p :: rest).getLastD (0, 0)) := by
      rw [List.getLastD_eq_getLast?, List.getLastD_eq_getLast?, List.getLast?_map]
      rw [List.getLast?_eq_some_getLast (List.cons_ne_nil p rest)]
      rfl
    rw [e]
    show List.zipWith psub ((p :: rest).map (tpt cx cy))
      (((p :: rest).getLastD (0, 0) :: (p :: rest)).map (tpt cx cy)) = _
    rw [List.zipWith_map]
    simp only [psub_tpt]

theorem cross_dir_tpt (cx cy : K) (d v : Pt K) : cross d (tpt cx cy v) = cross d v + cross d (cx, cy) := by
  unfold cross tpt; ring

/-- a parameter range shifted by `k` -/
def shiftRange (k : K) : Option (K × K) → Option (K × K)
  | none => none
  | some (a, b) => some (a + k, b + k)

theorem paramFold_tpt (cx cy : K) (d : Pt K) (ns : K) : ∀ (vs : List (Pt K)) (acc : K × K),
    (vs.map (tpt cx cy)).foldl (fun (acc : K × K) w =>
        (minK acc.1 (cross d w / ns), maxK acc.2 (cross d w / ns)))
        (acc.1 + cross d (cx, cy) / ns, acc.2 + cross d (cx, cy) / ns)
      = ((vs.foldl (fun (acc : K × K) w => (minK acc.1 (cross d w / ns), maxK acc.2 (cross d w / ns))) acc).1
            + cross d (cx, cy) / ns,
          (vs.foldl (fun (acc : K × K) w => (minK acc.1 (cross d w / ns), maxK acc.2 (cross d w / ns))) acc).2
            + cross d (cx, cy) / ns)
  | [], acc => rfl
  | v :: vs, acc => by
    simp only [List.map_cons, List.foldl_cons]
    rw [cross_dir_tpt, add_div, minK_add, maxK_add]
    exact paramFold_tpt cx cy d ns vs (minK acc.1 (cross d v / ns), maxK acc.2 (cross d v / ns))

theorem paramRange_tpt (cx cy : K) (d : Pt K) (ns : K) (vs : List (Pt K)) :
    paramRange d ns (vs.map (tpt cx cy)) = shiftRange (cross d (cx, cy) / ns) (paramRange d ns vs) := by
  cases vs with
  | nil => rfl
  | cons v vs =>
    simp only [List.map_cons, paramRange, shiftRange]
    rw [cross_dir_tpt, add_div]
    have := paramFold_tpt cx cy d ns vs (cross d v / ns, cross d v / ns)
    simp only at this
    rw [this]

theorem sepRanges_shift (k : K) (r1 r2 : Option (K × K)) :
    sepRanges (shiftRange k r1) (shiftRange k r2) = sepRanges r1 r2 := by
  rcases r1 with _ | ⟨a, b⟩ <;> rcases r2 with _ | ⟨c, d⟩ <;>
    simp only [shiftRange, sepRanges, add_lt_add_iff_right]

theorem py_isSeparating_tpt (cx cy : K) (d : Pt K) (p1 p2 : List (Pt K)) :
    Py.isSeparating d (p1.map (tpt cx cy)) (p2.map (tpt cx cy)) = Py.isSeparating d p1 p2 := by
  unfold Py.isSeparating
  simp only [paramRange_tpt, sepRanges_shift]

theorem f90_isSeparatingCore_tpt (cx cy : K) (d : Pt K) (p1 p2 : List (Pt K)) :
    F90.isSeparatingCore d (p1.map (tpt cx cy)) (p2.map (tpt cx cy)) = F90.isSeparatingCore d p1 p2 := by
  unfold F90.isSeparatingCore
  simp only [paramRange_tpt, sepRanges_shift]

theorem py_polygonCollide_tpt (cx cy : K) (p1 p2 : List (Pt K)) :
    Py.polygonCollide (p1.map (tpt cx cy)) (p2.map (tpt cx cy)) = Py.polygonCollide p1 p2 := by
  unfold Py.polygonCollide
  simp only [polygonEdgeDirs_tpt, py_isSeparating_tpt]

theorem f90_polygonCollide_tpt (cx cy : K) (p1 p2 : List (Pt K)) :
    F90.polygonCollide (p1.map (tpt cx cy)) (p2.map (tpt cx cy)) = F90.polygonCollide p1 p2 := by
  unfold F90.polygonCollide
  simp only [polygonEdgeDirs_tpt, f90_isSeparatingCore_tpt, List.isEmpty_map]

/-- the case split of `convex_hull_collide` on the two hulls -/
theorem hullMatch_tpt {β : Type} (cx cy : K) (ll : Pt K → Pt K → Pt K → Pt K → β) (d' d : β)
    (hll : ∀ a b c d, ll (tpt cx cy a) (tpt cx cy b) (tpt cx cy c) (tpt cx cy d) = ll a b c d)
    (hd : d' = d) (h1 h2 : List (Pt K)) :
    (match h1.map (tpt cx cy), h2.map (tpt cx cy) with
      | [a0, a1], [b0, b1] => ll a0 a1 b0 b1
      | _, _ => d')
    = (match h1, h2 with
      | [a0, a1], [b0, b1] => ll a0 a1 b0 b1
      | _, _ => d) := by
  rcases h1 with _ | ⟨a0, _ | ⟨a1, _ | ⟨a2, r1⟩⟩⟩ <;> rcases h2 with _ | ⟨b0, _ | ⟨b1, _ | ⟨b2, r2⟩⟩⟩ <;>
    first
      | exact hd
      | exact hll _ _ _ _

theorem py_convexHullCollide_tpt (cx cy : K) (n1 n2 : List (Pt K)) :
    Py.convexHullCollide (n1.map (tpt cx cy)) (n2.map (tpt cx cy)) = Py.convexHullCollide n1 n2 := by
  unfold Py.convexHullCollide
  simp only [py_convexHull_tpt]
  exact hullMatch_tpt cx cy lineLineCollide _ _ (lineLineCollide_tpt cx cy)
    (by rw [py_polygonCollide_tpt]) _ _

theorem f90_convexHullCollide_tpt (cx cy : K) (n1 n2 : List (Pt K)) :
    F90.convexHullCollide (n1.map (tpt cx cy)) (n2.map (tpt cx cy)) = F90.convexHullCollide n1 n2 := by
  unfold F90.convexHullCollide
  simp only [f90_convexHull_tpt]
  exact hullMatch_tpt cx cy lineLineCollide _ _ (lineLineCollide_tpt cx cy)
    (f90_polygonCollide_tpt cx cy _ _) _ _

theorem colsOf_translate (cx cy : K) (xs ys : List K) :
    colsOf (translate [cx, cy] [xs, ys]) = (colsOf [xs, ys]).map (tpt cx cy) := by
  rw [translate_two]
  show List.zip (tr cx xs) (tr cy ys) = List.map (tpt cx cy) (List.zip xs ys)
  unfold tr
  rw [List.zip_map]
  rfl

/-! ## node-producing routines: `specialize_curve`, `subdivide_nodes`, `elevate_nodes` -/

theorem dcRound_tr (a c : K) : ∀ l : List K, dcRound (1 - a) a (tr c l) = tr c (dcRound (1 - a) a l)
  | [] => rfl
  | [_] => rfl
  | x :: y :: rest => by
    have ih := dcRound_tr a c (y :: rest)
    unfold tr at ih ⊢
    simp only [List.map_cons, dcRound] at ih ⊢
    rw [ih]
    congr 1
    ring

theorem iter_dcRound_tr (a c : K) : ∀ (m : ℕ) (l : List K),
    iter (dcRound (1 - a) a) m (tr c l) = tr c (iter (dcRound (1 - a) a) m l)
  | 0, l => rfl
  | m + 1, l => by
    simp only [iter]
    rw [dcRound_tr, iter_dcRound_tr a c m]

theorem specPoint_tr (a b c : K) (row : List K) (i : ℕ) (hi : i < row.length) :
    specPoint a b (tr c row) i = specPoint a b row i + c := by
  unfold specPoint
  simp only [tr_length]
  rw [iter_dcRound_tr, iter_dcRound_tr]
  apply headD_tr
  intro e
  have hl := congrArg List.length e
  rw [iter_dcRound_length, iter_dcRound_length] at hl
  simp only [List.length_nil] at hl
  omega

theorem py_specializeRow_tr (a b c : K) (row : List K) :
    Py.specializeRow (tr c row) a b = tr c (Py.specializeRow row a b) := by
  unfold Py.specializeRow
  rw [tr_length]
  unfold tr
  rw [List.map_map]
  apply List.map_congr_left
  intro i hi
  exact specPoint_tr a b c row i (List.mem_range.1 hi)

theorem py_specialize_translate (cx cy : K) (a : List (List K)) (s t : K) (ha : Planar a) :
    Py.specialize (translate [cx, cy] a) s t = translate [cx, cy] (Py.specialize a s t) := by
  obtain ⟨xs, ys, rfl, _, _⟩ := ha
  rw [translate_two]
  unfold Py.specialize
  simp only [List.map_cons, List.map_nil, py_specializeRow_tr]
  rfl

theorem py_specialize_planar (a : List (List K)) (s t : K) (ha : Planar a) : Planar (Py.specialize a s t) := by
  obtain ⟨xs, ys, rfl, h1, h2⟩ := ha
  exact ⟨Py.specializeRow xs s t, Py.specializeRow ys s t, rfl,
    by rw [Subdivide.specializeRow_length, Subdivide.specializeRow_length]; exact h1,
    by rw [Subdivide.specializeRow_length]; exact h2⟩

theorem py_specialize_ncols (a : List (List K)) (s t : K) (ha : Planar a) :
    ncols (Py.specialize a s t) = ncols a := by
  obtain ⟨xs, ys, rfl, h1, h2⟩ := ha
  simp [Py.specialize, ncols, Subdivide.specializeRow_length]

theorem f90_specialize_eq (a : List (List K)) (s t : K) (ha : Planar a) :
    F90.specialize a s t = Py.specialize a s t := by
  obtain ⟨xs, ys, rfl, h1, h2⟩ := ha
  unfold F90.specialize Py.specialize
  simp only [List.map_cons, List.map_nil]
  rw [C04.specialize_variants_agree xs h2, C04.specialize_variants_agree ys (by omega)]

theorem py_subdivide_eq (a : List (List K)) (ha : Planar a) :
    Py.subdivide a = (Py.specialize a 0 (1 / 2), Py.specialize a (1 / 2) 1) := by
  obtain ⟨xs, ys, rfl, h1, h2⟩ := ha
  unfold Py.subdivide Py.specialize
  simp only [List.map_cons, List.map_nil]
  rw [C04.subdivide_is_specialize xs (by omega), C04.subdivide_is_specialize ys (by omega)]

theorem f90_subdivide_eq (a : List (List K)) (ha : Planar a) : F90.subdivide a = Py.subdivide a := by
  obtain ⟨xs, ys, rfl, h1, h2⟩ := ha
  unfold F90.subdivide Py.subdivide
  simp only [List.map_cons, List.map_nil]
  rw [C04.subdivide_variants_agree xs (by omega), C04.subdivide_variants_agree ys (by omega)]

/-- what the pipeline and `locate_point` need from a subdivision routine under the translation -/
def SubdivOK (cx cy : K) (subdiv : List (List K) → List (List K) × List (List K)) : Prop :=
  ∀ a, Planar a →
    subdiv (translate [cx, cy] a) = (translate [cx, cy] (subdiv a).1, translate [cx, cy] (subdiv a).2) ∧
    Planar (subdiv a).1 ∧ Planar (subdiv a).2

theorem py_subdivOK (cx cy : K) : SubdivOK cx cy (Py.subdivide (K := K)) := by
  intro a ha
  rw [py_subdivide_eq a ha, py_subdivide_eq _ (planar_translate cx cy a ha),
    py_specialize_translate cx cy a _ _ ha, py_specialize_translate cx cy a _ _ ha]
  exact ⟨rfl, py_specialize_planar a _ _ ha, py_specialize_planar a _ _ ha⟩

theorem f90_subdivOK (cx cy : K) : SubdivOK cx cy (F90.subdivide (K := K)) := by
  intro a ha
  rw [f90_subdivide_eq a ha, f90_subdivide_eq _ (planar_translate cx cy a ha)]
  exact py_subdivOK cx cy a ha

theorem elevateRow_tr (c : K) (row : List K) (h : row ≠ []) :
    elevateRow (tr c row) = tr c (elevateRow row) := by
  have hpos : 0 < row.length := List.length_pos_iff.mpr h
  have hne : ((row.length : ℕ) : K) ≠ 0 := Nat.cast_ne_zero.mpr (by omega)
  unfold elevateRow
  simp only [tr_length]
  conv_rhs => unfold tr
  rw [List.map_map]
  apply List.map_congr_left
  intro j hj
  have hj' : j < row.length + 1 := List.mem_range.1 hj
  have hs : ∀ i, i < row.length → seq (tr c row) i = seq row i + c := fun i hi => getD_tr c row i hi
  simp only [Function.comp]
  split_ifs with h0 hn
  · exact hs 0 hpos
  · exact hs _ (by omega)
  · rw [hs (j - 1) (by omega), hs j (by omega)]
    field_simp
    ring

theorem elevate_translate (cx cy : K) (a : List (List K)) (ha : Planar a) :
    elevate (translate [cx, cy] a) = translate [cx, cy] (elevate a) := by
  obtain ⟨xs, ys, rfl, h1, h2⟩ := ha
  have hx : xs ≠ [] := by intro e; subst e; simp at h2
  have hy : ys ≠ [] := by intro e; subst e; rw [List.length_nil] at h1; omega
  rw [translate_two]
  unfold elevate
  simp only [List.map_cons, List.map_nil]
  rw [elevateRow_tr cx xs hx, elevateRow_tr cy ys hy]
  rfl

theorem elevate_planar (a : List (List K)) (ha : Planar a) : Planar (elevate a) := by
  obtain ⟨xs, ys, rfl, h1, h2⟩ := ha
  exact ⟨elevateRow xs, elevateRow ys, rfl, by rw [elevateRow_length, elevateRow_length, h1],
    by rw [elevateRow_length]; omega⟩

theorem elevate_ncols (a : List (List K)) (ha : Planar a) : ncols (elevate a) = ncols a + 1 := by
  obtain ⟨xs, ys, rfl, h1, h2⟩ := ha
  simp [elevate, ncols, elevateRow_length]

/-! ## Newton refinement -/

theorem diffs_tr (c : K) : ∀ row : List K, diffs (tr c row) = diffs row
  | [] => rfl
  | [_] => rfl
  | x :: y :: rest => by
    have ih := diffs_tr c (y :: rest)
    unfold tr at ih ⊢
    simp only [List.map_cons, diffs] at ih ⊢
    rw [ih]
    congr 1
    ring

theorem derivNet_tr (c : K) (row : List K) : derivNet (tr c row) = derivNet row := by
  unfold derivNet
  rw [diffs_tr, tr_length]

theorem evalRow_tr (thr : ℕ) (c : K) (row : List K) (h : 2 ≤ row.length) (s : K) :
    evalRow thr (tr c row) s = evalRow thr row s + c :=
  evalBary_map_add thr thr row h s c

theorem newtonSimple_translate (thr : ℕ) (cx cy : K) (a b : List (List K)) (ha : Planar a) (hb : Planar b) :
    newtonSimple thr (translate [cx, cy] a) (translate [cx, cy] b) = newtonSimple thr a b := by
  obtain ⟨xs, ys, rfl, h1, h2⟩ := ha
  obtain ⟨us, vs, rfl, h3, h4⟩ := hb
  funext s t
  rw [translate_two, translate_two]
  unfold newtonSimple
  simp only [List.getD_cons_zero, List.getD_cons_succ, derivNet_tr]
  rw [evalRow_tr thr cx xs h2, evalRow_tr thr cx us h4, evalRow_tr thr cy ys (by omega),
    evalRow_tr thr cy vs (by omega), add_sub_add_right_eq_sub, add_sub_add_right_eq_sub]

theorem newtonDouble_translate (thr : ℕ) (cx cy : K) (a b : List (List K)) (ha : Planar a) (hb : Planar b) :
    newtonDouble thr (translate [cx, cy] a) (translate [cx, cy] b) = newtonDouble thr a b := by
  obtain ⟨xs, ys, rfl, h1, h2⟩ := ha
  obtain ⟨us, vs, rfl, h3, h4⟩ := hb
  funext s t
  rw [translate_two, translate_two]
  unfold newtonDouble
  simp only [List.getD_cons_zero, List.getD_cons_succ, derivNet_tr]
  rw [evalRow_tr thr cx xs h2, evalRow_tr thr cx us h4, evalRow_tr thr cy ys (by omega),
    evalRow_tr thr cy vs (by omega), add_sub_add_right_eq_sub, add_sub_add_right_eq_sub]

theorem fullNewtonNonzero_translate (solve : Solver K) (cut : ℕ → ℕ → Bool) (rnd : K → K) (ratioSq : K)
    (thr fuel : ℕ) (cx cy : K) (s : K) (a : List (List K)) (t : K) (b : List (List K))
    (ha : Planar a) (hb : Planar b) :
    fullNewtonNonzero solve cut rnd ratioSq thr fuel s (translate [cx, cy] a) t (translate [cx, cy] b)
      = fullNewtonNonzero solve cut rnd ratioSq thr fuel s a t b := by
  unfold fullNewtonNonzero
  rw [newtonSimple_translate thr cx cy a b ha hb, newtonDouble_translate thr cx cy a b ha hb]

theorem reverse_translate (cx cy : K) (a : List (List K)) (ha : Planar a) :
    (translate [cx, cy] a).map List.reverse = translate [cx, cy] (a.map List.reverse) ∧
      Planar (a.map List.reverse) := by
  obtain ⟨xs, ys, rfl, h1, h2⟩ := ha
  refine ⟨?_, ⟨xs.reverse, ys.reverse, rfl, by simpa using h1, by simpa using h2⟩⟩
  rw [translate_two]
  show [(tr cx xs).reverse, (tr cy ys).reverse] = [tr cx xs.reverse, tr cy ys.reverse]
  unfold tr
  rw [List.map_reverse, List.map_reverse]

theorem fullNewton_translate (solve : Solver K) (cut : ℕ → ℕ → Bool) (rnd : K → K) (ratioSq zeroThr : K)
    (thr fuel : ℕ) (cx cy : K) (s : K) (a : List (List K)) (t : K) (b : List (List K))
    (ha : Planar a) (hb : Planar b) :
    fullNewton solve cut rnd ratioSq zeroThr thr fuel s (translate [cx, cy] a) t (translate [cx, cy] b)
      = fullNewton solve cut rnd ratioSq zeroThr thr fuel s a t b := by
  obtain ⟨ra, pa⟩ := reverse_translate cx cy a ha
  obtain ⟨rb, pb⟩ := reverse_translate cx cy b hb
  unfold fullNewton
  simp only [ra, rb]
  rw [fullNewtonNonzero_translate solve cut rnd ratioSq thr fuel cx cy _ _ _ _ pa pb,
    fullNewtonNonzero_translate solve cut rnd ratioSq thr fuel cx cy _ _ _ _ pa hb,
    fullNewtonNonzero_translate solve cut rnd ratioSq thr fuel cx cy _ _ _ _ ha pb,
    fullNewtonNonzero_translate solve cut rnd ratioSq thr fuel cx cy _ _ _ _ ha hb]

/-! ## `locate_point` -/

theorem containsRow_tr (c : K) (row : List K) (p : K) :
    containsRow (tr c row) (p + c) = containsRow row p := by
  unfold containsRow tr
  simp only [List.any_map, Function.comp_def, add_le_add_iff_right]

theorem containsND_translate (cx cy : K) (a : List (List K)) (p : List K) (ha : Planar a) (hp : Point2 p) :
    containsND (translate [cx, cy] a) (translatePt [cx, cy] p) = containsND a p := by
  obtain ⟨xs, ys, rfl, _, _⟩ := ha
  obtain ⟨u, v, rfl⟩ := point2_cases p hp
  rw [translate_two, translatePt_two]
  unfold containsND
  simp only [List.zipWith_cons_cons, List.zipWith_nil_right, containsRow_tr]

/-- the same bisection candidate in the translated presentation -/
def mapLoc (cx cy : K) (c : LocCand K) : LocCand K :=
  { start := c.start, stop := c.stop, nodes := translate [cx, cy] c.nodes }

theorem locateRound_translate (cx cy : K) (subdiv : List (List K) → List (List K) × List (List K))
    (hs : SubdivOK cx cy subdiv) (point : List K) (hp : Point2 point) (cands : List (LocCand K))
    (hc : ∀ c ∈ cands, Planar c.nodes) :
    locateRound subdiv (translatePt [cx, cy] point) (cands.map (mapLoc cx cy))
        = (locateRound subdiv point cands).map (mapLoc cx cy) ∧
      ∀ c ∈ locateRound subdiv point cands, Planar c.nodes := by
  unfold locateRound
  constructor
  · rw [List.flatMap_map, List.map_flatMap]
    apply List.flatMap_congr
    intro c hcm
    have hpl := hc c hcm
    obtain ⟨e, _, _⟩ := hs c.nodes hpl
    have en : (mapLoc cx cy c).nodes = translate [cx, cy] c.nodes := rfl
    rw [en, containsND_translate cx cy c.nodes point hpl hp, e]
    split_ifs
    · rfl
    · rfl
  · intro c hcm
    rw [List.mem_flatMap] at hcm
    obtain ⟨c0, hc0, hmem⟩ := hcm
    obtain ⟨_, p1, p2⟩ := hs c0.nodes (hc c0 hc0)
    split_ifs at hmem
    · simp only [List.mem_cons, List.not_mem_nil, or_false] at hmem
      rcases hmem with rfl | rfl
      · exact p1
      · exact p2
    · cases hmem

theorem iter_locateRound_translate (cx cy : K) (subdiv : List (List K) → List (List K) × List (List K))
    (hs : SubdivOK cx cy subdiv) (point : List K) (hp : Point2 point) :
    ∀ (n : ℕ) (cands : List (LocCand K)), (∀ c ∈ cands, Planar c.nodes) →
      iter (locateRound subdiv (translatePt [cx, cy] point)) n (cands.map (mapLoc cx cy))
        = (iter (locateRound subdiv point) n cands).map (mapLoc cx cy)
  | 0, _, _ => rfl
  | n + 1, cands, hc => by
    obtain ⟨e, hpl⟩ := locateRound_translate cx cy subdiv hs point hp cands hc
    simp only [iter]
    rw [e]
    exact iter_locateRound_translate cx cy subdiv hs point hp n _ hpl

theorem hodographRow_tr (thr : ℕ) (c : K) (row : List K) (s : K) :
    hodographRow thr (tr c row) s = hodographRow thr row s := by
  unfold hodographRow
  rw [diffs_tr, tr_length]

theorem newtonRefine_translate (thr : ℕ) (cx cy : K) (a : List (List K)) (p : List K) (s : K)
    (ha : Planar a) (hp : Point2 p) :
    newtonRefine thr (translate [cx, cy] a) (translatePt [cx, cy] p) s = newtonRefine thr a p s := by
  obtain ⟨xs, ys, rfl, h1, h2⟩ := ha
  obtain ⟨u, v, rfl⟩ := point2_cases p hp
  rw [translate_two, translatePt_two]
  unfold newtonRefine hodograph evalPoint subRow
  simp only [List.map_cons, List.map_nil, hodographRow_tr, List.zipWith_cons_cons, List.zipWith_nil_right]
  have e1 := evalRow_tr thr cx xs h2 s
  have e2 := evalRow_tr thr cy ys (by omega) s
  unfold evalRow at e1 e2
  rw [e1, e2, add_sub_add_right_eq_sub, add_sub_add_right_eq_sub]

theorem locatePoint_translate (cx cy : K) (subdiv : List (List K) → List (List K) × List (List K))
    (hs : SubdivOK cx cy subdiv) (thr rounds : ℕ) (capSq : K) (a : List (List K)) (p : List K)
    (ha : Planar a) (hp : Point2 p) :
    locatePoint subdiv thr rounds capSq (translate [cx, cy] a) (translatePt [cx, cy] p)
      = locatePoint subdiv thr rounds capSq a p := by
  have hit := iter_locateRound_translate cx cy subdiv hs p hp rounds [{ start := 0, stop := 1, nodes := a }]
    (by intro c hc; rw [List.mem_singleton] at hc; subst hc; exact ha)
  have hinit : [({ start := 0, stop := 1, nodes := translate [cx, cy] a } : LocCand K)]
      = [({ start := 0, stop := 1, nodes := a } : LocCand K)].map (mapLoc cx cy) := rfl
  unfold locatePoint
  rw [hinit, hit]
  have hnr := fun s => newtonRefine_translate thr cx cy a p s ha hp
  have m1 : ∀ l : List (LocCand K), (l.map (mapLoc cx cy)).map (·.start) = l.map (·.start) := by
    intro l; rw [List.map_map]; rfl
  have m2 : ∀ l : List (LocCand K), (l.map (mapLoc cx cy)).map (·.stop) = l.map (·.stop) := by
    intro l; rw [List.map_map]; rfl
  simp only [hnr, m1, m2, List.isEmpty_map]

/-! ## the record of concrete primitives -/

theorem subdivOK_of (py : Bool) (cx cy : K) :
    SubdivOK cx cy (if py then Py.subdivide (K := K) else F90.subdivide) := by
  cases py
  · exact f90_subdivOK cx cy
  · exact py_subdivOK cx cy

theorem hullCollide_translate (py : Bool) (cx cy : K) (a b : List (List K)) (ha : Planar a) (hb : Planar b) :
    (if py then Py.convexHullCollide (colsOf (translate [cx, cy] a)) (colsOf (translate [cx, cy] b))
      else F90.convexHullCollide (colsOf (translate [cx, cy] a)) (colsOf (translate [cx, cy] b)))
    = (if py then Py.convexHullCollide (colsOf a) (colsOf b) else F90.convexHullCollide (colsOf a) (colsOf b)) := by
  obtain ⟨xs, ys, rfl, _, _⟩ := ha
  obtain ⟨us, vs, rfl, _, _⟩ := hb
  rw [colsOf_translate, colsOf_translate, py_convexHullCollide_tpt, f90_convexHullCollide_tpt]

theorem specialize_of_translate (py : Bool) (cx cy : K) (a : List (List K)) (s t : K) (ha : Planar a) :
    (if py then Py.specialize (K := K) else F90.specialize) (translate [cx, cy] a) s t
      = translate [cx, cy] ((if py then Py.specialize (K := K) else F90.specialize) a s t) ∧
    Planar ((if py then Py.specialize (K := K) else F90.specialize) a s t) ∧
    ncols ((if py then Py.specialize (K := K) else F90.specialize) a s t) = ncols a := by
  cases py
  · simp only [Bool.false_eq_true, if_false]
    rw [f90_specialize_eq _ s t (planar_translate cx cy a ha), f90_specialize_eq a s t ha]
    exact ⟨py_specialize_translate cx cy a s t ha, py_specialize_planar a s t ha, py_specialize_ncols a s t ha⟩
  · simp only [if_true]
    exact ⟨py_specialize_translate cx cy a s t ha, py_specialize_planar a s t ha, py_specialize_ncols a s t ha⟩

/-- **the concrete primitives are translation invariant**, `vector_close` excepted (hypotheses `hpt`,
    `hflat`: see `vectorClose_not_translation_invariant` for why they cannot be dropped) -/
theorem concretePrims_invariant (py : Bool) (C : PipelineConsts K) (cx cy : K)
    (hpt : ∀ p q : List K, Point2 p → Point2 q →
      vectorCloseSq (translatePt [cx, cy] p) (translatePt [cx, cy] q) C.epsSq = vectorCloseSq p q C.epsSq)
    (hflat : ∀ a b : List (List K), Planar a → Planar b → ncols a = ncols b →
      vectorCloseSq (flatten (translate [cx, cy] a)) (flatten (translate [cx, cy] b)) C.epsSq
        = vectorCloseSq (flatten a) (flatten b) C.epsSq) :
    PipelineEquivariance.PrimsInvariant (concretePrims py C) (translate [cx, cy]) (translatePt [cx, cy])
      Planar Point2 where
  firstNode_T := firstNode_translate cx cy
  lastNode_T := lastNode_translate cx cy
  firstNode_V := firstNode_point2
  lastNode_V := lastNode_point2
  ncols_T := ncols_translate cx cy
  bboxIntersect := by
    intro a b ha hb
    show boxKindOf (Model.bboxIntersect _ _) = boxKindOf (Model.bboxIntersect a b)
    rw [bboxIntersect_translate cx cy a b ha hb]
  bboxLineIntersect := by
    intro a p q ha hp hq
    show boxKindOf (Model.bboxLineIntersect _ (ptOf _) (ptOf _)) = boxKindOf (Model.bboxLineIntersect a (ptOf p) (ptOf q))
    rw [ptOf_translatePt cx cy p hp, ptOf_translatePt cx cy q hq, bboxLineIntersect_translate cx cy a _ _ ha]
  linErrSq := by
    intro a ha
    simp only [concretePrims]
    rw [linearizationErrorSq_translate cx cy a ha]
  segmentIntersection := by
    intro p q r s hp hq hr hs
    show Model.segmentIntersection (ptOf _) (ptOf _) (ptOf _) (ptOf _) = Model.segmentIntersection (ptOf p) (ptOf q) (ptOf r) (ptOf s)
    rw [ptOf_translatePt cx cy p hp, ptOf_translatePt cx cy q hq, ptOf_translatePt cx cy r hr,
      ptOf_translatePt cx cy s hs, segmentIntersection_tpt]
  parallelLines := by
    intro p q r s hp hq hr hs
    simp only [concretePrims]
    rw [ptOf_translatePt cx cy p hp, ptOf_translatePt cx cy q hq, ptOf_translatePt cx cy r hr,
      ptOf_translatePt cx cy s hs, parallelLinesParameters_tpt]
  hullCollide := by
    intro a b ha hb
    simp only [concretePrims]
    rw [hullCollide_translate py cx cy a b ha hb]
  vectorClosePt := hpt
  vectorCloseFlat := hflat
  fullNewton := by
    intro s a t b ha hb
    exact fullNewton_translate _ _ _ _ _ _ _ cx cy s a t b ha hb
  locate := by
    intro a p ha hp
    simp only [concretePrims]
    rw [locatePoint_translate cx cy _ (subdivOK_of py cx cy) _ _ _ a p ha hp]
  subdivide_T := fun a ha => (subdivOK_of py cx cy a ha).1
  subdivide_V := fun a ha => (subdivOK_of py cx cy a ha).2
  specialize_T := fun a s t ha => (specialize_of_translate py cx cy a s t ha).1
  specialize_V := fun a s t ha => (specialize_of_translate py cx cy a s t ha).2.1
  specialize_ncols := fun a s t ha => (specialize_of_translate py cx cy a s t ha).2.2
  elevate_T := elevate_translate cx cy
  elevate_V := elevate_planar
  elevate_ncols := elevate_ncols

/-! ## `vector_close`: relative to the norms of the position vectors, hence NOT translation invariant;
invariant for `eps = 0` (where it is plain equality) -/

theorem foldl_sq_nonneg : ∀ (v : List K) (acc : K), 0 ≤ acc → 0 ≤ v.foldl (fun acc x => acc + x * x) acc
  | [], acc, h => h
  | x :: v, acc, h => foldl_sq_nonneg v _ (add_nonneg h (mul_self_nonneg x))

theorem foldl_sq_eq_zero_iff : ∀ (v : List K) (acc : K), 0 ≤ acc →
    (v.foldl (fun acc x => acc + x * x) acc = 0 ↔ acc = 0 ∧ ∀ x ∈ v, x = 0)
  | [], acc, _ => by simp
  | x :: v, acc, h => by
    rw [List.foldl_cons, foldl_sq_eq_zero_iff v _ (add_nonneg h (mul_self_nonneg x))]
    constructor
    · rintro ⟨h1, h2⟩
      have hx : x * x = 0 := by linarith [mul_self_nonneg x]
      have hacc : acc = 0 := by linarith [mul_self_nonneg x]
      refine ⟨hacc, ?_⟩
      intro y hy
      rcases List.mem_cons.1 hy with rfl | hy
      · exact mul_self_eq_zero.mp hx
      · exact h2 y hy
    · rintro ⟨h1, h2⟩
      have hx : x = 0 := h2 x (by simp)
      exact ⟨by rw [h1, hx]; ring, fun y hy => h2 y (List.mem_cons_of_mem _ hy)⟩

theorem normSq_nonneg (v : List K) : 0 ≤ normSq v := foldl_sq_nonneg v 0 le_rfl

theorem normSq_eq_zero_iff (v : List K) : normSq v = 0 ↔ ∀ x ∈ v, x = 0 := by
  unfold normSq
  rw [foldl_sq_eq_zero_iff v 0 le_rfl]
  simp

theorem all_zero_eq : ∀ (v w : List K), v.length = w.length → (∀ x ∈ v, x = 0) → (∀ x ∈ w, x = 0) → v = w
  | [], [], _, _, _ => rfl
  | [], _ :: _, h, _, _ => by simp at h
  | _ :: _, [], h, _, _ => by simp at h
  | x :: v, y :: w, h, hv, hw => by
    rw [hv x (by simp), hw y (by simp),
      all_zero_eq v w (by simpa using h) (fun z hz => hv z (List.mem_cons_of_mem _ hz))
        (fun z hz => hw z (List.mem_cons_of_mem _ hz))]

theorem subRow_zero_iff : ∀ (v w : List K), v.length = w.length → ((∀ x ∈ subRow v w, x = 0) ↔ v = w)
  | [], [], _ => by simp [subRow]
  | [], _ :: _, h => by simp at h
  | _ :: _, [], h => by simp at h
  | x :: v, y :: w, h => by
    have ih := subRow_zero_iff v w (by simpa using h)
    unfold subRow at ih ⊢
    simp only [List.zipWith_cons_cons, List.mem_cons, forall_eq_or_imp, List.cons.injEq, sub_eq_zero]
    rw [ih]

/-- with `eps = 0`, `vector_close` is equality (of arrays of the same size) -/
theorem vectorCloseSq_zero (v w : List K) (h : v.length = w.length) :
    vectorCloseSq v w 0 = decide (v = w) := by
  unfold vectorCloseSq
  simp only
  split_ifs with h1 h2
  · rw [decide_eq_decide]
    constructor
    · intro hle
      have hz : normSq w = 0 := le_antisymm hle (normSq_nonneg w)
      exact all_zero_eq v w h ((normSq_eq_zero_iff v).1 h1) ((normSq_eq_zero_iff w).1 hz)
    · intro e; rw [← e, h1]
  · rw [decide_eq_decide]
    constructor
    · intro hle
      exact absurd (le_antisymm hle (normSq_nonneg v)) h1
    · intro e; rw [e] at h1; exact absurd h2 h1
  · rw [decide_eq_decide, zero_mul]
    constructor
    · intro hle
      have hz : normSq (subRow v w) = 0 := le_antisymm hle (normSq_nonneg _)
      exact (subRow_zero_iff v w h).1 ((normSq_eq_zero_iff _).1 hz)
    · intro e
      have : normSq (subRow v w) = 0 := (normSq_eq_zero_iff _).2 ((subRow_zero_iff v w h).2 e)
      rw [this]

theorem vectorClosePt_zero (cx cy : K) (p q : List K) (hp : Point2 p) (hq : Point2 q) :
    vectorCloseSq (translatePt [cx, cy] p) (translatePt [cx, cy] q) 0 = vectorCloseSq p q 0 := by
  obtain ⟨a, b, rfl⟩ := point2_cases p hp
  obtain ⟨c, d, rfl⟩ := point2_cases q hq
  rw [vectorCloseSq_zero (translatePt [cx, cy] [a, b]) (translatePt [cx, cy] [c, d]) rfl,
    vectorCloseSq_zero [a, b] [c, d] rfl, decide_eq_decide]
  exact translatePt_inj [cx, cy] [a, b] [c, d] rfl rfl

/-- a list of points written as `x₀, y₀, x₁, y₁, …` (`ravel(order='F')` of a `2 × N` array) -/
def chunk2 : List (Pt K) → List K
  | [] => []
  | p :: l => p.1 :: p.2 :: chunk2 l

theorem chunk2_inj : ∀ (l l' : List (Pt K)), chunk2 l = chunk2 l' ↔ l = l'
  | [], [] => by simp
  | [], _ :: _ => by simp [chunk2]
  | _ :: _, [] => by simp [chunk2]
  | p :: l, q :: l' => by
    simp only [chunk2, List.cons.injEq]
    rw [chunk2_inj l l']
    constructor
    · rintro ⟨h1, h2, h3⟩
      exact ⟨Prod.ext h1 h2, h3⟩
    · rintro ⟨h1, h3⟩
      exact ⟨congrArg Prod.fst h1, congrArg Prod.snd h1, h3⟩

theorem chunk2_length : ∀ l : List (Pt K), (chunk2 l).length = 2 * l.length
  | [] => rfl
  | p :: l => by simp only [chunk2, List.length_cons, chunk2_length l]; omega

theorem flatten_map_pairs : ∀ (l : List ℕ) (f g : ℕ → K),
    (l.map (fun c => [f c, g c])).flatten = chunk2 (l.map (fun c => (f c, g c)))
  | [], _, _ => rfl
  | c :: l, f, g => by
    simp only [List.map_cons, List.flatten_cons, chunk2, List.cons_append, List.nil_append]
    rw [flatten_map_pairs l f g]

/-- the columns of a planar array, read through `getD` as the model's `transpose` does -/
def colsD (xs ys : List K) : List (Pt K) := (List.range xs.length).map (fun c => (xs.getD c 0, ys.getD c 0))

theorem flatten_two (xs ys : List K) : flatten [xs, ys] = chunk2 (colsD xs ys) := by
  unfold flatten transpose colsD
  have e : ncols [xs, ys] = xs.length := rfl
  rw [e]
  exact flatten_map_pairs _ (fun c => xs.getD c 0) (fun c => ys.getD c 0)

theorem colsD_tr (cx cy : K) (xs ys : List K) (h : xs.length = ys.length) :
    colsD (tr cx xs) (tr cy ys) = (colsD xs ys).map (tpt cx cy) := by
  unfold colsD
  rw [tr_length, List.map_map]
  apply List.map_congr_left
  intro c hc
  have hc' := List.mem_range.1 hc
  simp only [Function.comp]
  rw [getD_tr cx xs c hc', getD_tr cy ys c (by omega)]
  rfl

theorem map_tpt_inj (cx cy : K) (l l' : List (Pt K)) :
    l.map (tpt cx cy) = l'.map (tpt cx cy) ↔ l = l' := by
  constructor
  · intro h
    exact List.map_injective_iff.mpr (fun p q hpq => (tpt_inj cx cy p q).1 hpq) h
  · intro h; rw [h]

theorem vectorCloseFlat_zero (cx cy : K) (a b : List (List K)) (ha : Planar a) (hb : Planar b)
    (hn : ncols a = ncols b) :
    vectorCloseSq (flatten (translate [cx, cy] a)) (flatten (translate [cx, cy] b)) 0
      = vectorCloseSq (flatten a) (flatten b) 0 := by
  obtain ⟨xs, ys, rfl, h1, h2⟩ := ha
  obtain ⟨us, vs, rfl, h3, h4⟩ := hb
  have hn' : xs.length = us.length := hn
  rw [translate_two, translate_two, flatten_two, flatten_two, flatten_two, flatten_two,
    colsD_tr cx cy xs ys h1, colsD_tr cx cy us vs h3]
  have hl : (colsD xs ys).length = (colsD us vs).length := by
    unfold colsD; simp only [List.length_map, List.length_range]; exact hn'
  rw [vectorCloseSq_zero _ _ (by rw [chunk2_length, chunk2_length, List.length_map, List.length_map, hl]),
    vectorCloseSq_zero _ _ (by rw [chunk2_length, chunk2_length, hl]), decide_eq_decide,
    chunk2_inj, chunk2_inj, map_tpt_inj]

/-- the library constants with exact closeness (`vector_close` with `eps = 0`), for non-vacuity examples -/
def exactCloseConsts : PipelineConsts ℚ := { PipeInst.libConsts with epsSq := 0 }

end BezierVerif.PipelineTranslate
