import BezierVerif.Model.Helpers
import BezierVerif.Lemmas.Bridge
import Mathlib.Algebra.Order.Field.Basic
import Mathlib.Algebra.Order.AbsoluteValue.Basic
import Mathlib.Tactic.Ring
import Mathlib.Tactic.Linarith
import Mathlib.Tactic.FieldSimp
import Mathlib.Tactic.SplitIfs
import Mathlib.Tactic.LinearCombination

/-!
# Lemmas/Predicates — helper lemmas about `Model/Helpers.lean` over an ordered field

Running minima / maxima, the box of a row, the parameter part of `parallel_lines_parameters`
(twelve leaves), collinear segments.
-/

set_option linter.unusedSectionVars false
set_option linter.unusedVariables false

namespace BezierVerif.Predicates

open Model

variable {K : Type} [Field K] [LinearOrder K] [IsStrictOrderedRing K]

/-! ### scalar helpers are the Mathlib notions -/

theorem absK_eq_abs (x : K) : absK x = |x| := by
  unfold absK
  split_ifs with h
  · exact (abs_of_neg h).symm
  · exact (abs_of_nonneg (not_lt.mp h)).symm

theorem minK_eq_min (a b : K) : minK a b = min a b := by
  unfold minK
  split_ifs with h
  · exact (min_eq_right h.le).symm
  · exact (min_eq_left (not_lt.mp h)).symm

theorem maxK_eq_max (a b : K) : maxK a b = max a b := by
  unfold maxK
  split_ifs with h
  · exact (max_eq_right h.le).symm
  · exact (max_eq_left (not_lt.mp h)).symm

/-! ### running minimum / maximum of a non-empty row -/

theorem minOf_le_head : ∀ (xs : List K) (x : K), minOf x xs ≤ x := by
  intro xs
  induction xs with
  | nil => intro x; simp [minOf]
  | cons y ys ih =>
    intro x
    have h := ih (minK x y)
    simp only [minOf, List.foldl_cons] at h ⊢
    exact le_trans h (by rw [minK_eq_min]; exact min_le_left _ _)

theorem minOf_le_of_mem : ∀ (xs : List K) (x y : K), y ∈ x :: xs → minOf x xs ≤ y := by
  intro xs
  induction xs with
  | nil => intro x y h; simp at h; simp [minOf, h]
  | cons z zs ih =>
    intro x y h
    simp only [minOf, List.foldl_cons]
    rcases List.mem_cons.mp h with rfl | h'
    · exact le_trans (minOf_le_head zs (minK y z)) (by rw [minK_eq_min]; exact min_le_left _ _)
    · rcases List.mem_cons.mp h' with rfl | h''
      · exact le_trans (minOf_le_head zs (minK x y)) (by rw [minK_eq_min]; exact min_le_right _ _)
      · exact ih (minK x z) y (List.mem_cons_of_mem _ h'')

theorem minOf_mem : ∀ (xs : List K) (x : K), minOf x xs ∈ x :: xs := by
  intro xs
  induction xs with
  | nil => intro x; simp [minOf]
  | cons z zs ih =>
    intro x
    simp only [minOf, List.foldl_cons]
    have h := ih (minK x z)
    rcases List.mem_cons.mp h with h1 | h1
    · change minOf (minK x z) zs = minK x z at h1
      simp only [minOf] at h1
      rw [h1]
      unfold minK
      split_ifs <;> simp
    · exact List.mem_cons_of_mem _ (List.mem_cons_of_mem _ h1)

theorem head_le_maxOf : ∀ (xs : List K) (x : K), x ≤ maxOf x xs := by
  intro xs
  induction xs with
  | nil => intro x; simp [maxOf]
  | cons y ys ih =>
    intro x
    have h := ih (maxK x y)
    simp only [maxOf, List.foldl_cons] at h ⊢
    exact le_trans (by rw [maxK_eq_max]; exact le_max_left _ _) h

theorem le_maxOf_of_mem : ∀ (xs : List K) (x y : K), y ∈ x :: xs → y ≤ maxOf x xs := by
  intro xs
  induction xs with
  | nil => intro x y h; simp at h; simp [maxOf, h]
  | cons z zs ih =>
    intro x y h
    simp only [maxOf, List.foldl_cons]
    rcases List.mem_cons.mp h with rfl | h'
    · exact le_trans (by rw [maxK_eq_max]; exact le_max_left _ _) (head_le_maxOf zs (maxK y z))
    · rcases List.mem_cons.mp h' with rfl | h''
      · exact le_trans (by rw [maxK_eq_max]; exact le_max_right _ _) (head_le_maxOf zs (maxK x y))
      · exact ih (maxK x z) y (List.mem_cons_of_mem _ h'')

theorem maxOf_mem : ∀ (xs : List K) (x : K), maxOf x xs ∈ x :: xs := by
  intro xs
  induction xs with
  | nil => intro x; simp [maxOf]
  | cons z zs ih =>
    intro x
    simp only [maxOf, List.foldl_cons]
    have h := ih (maxK x z)
    rcases List.mem_cons.mp h with h1 | h1
    · change maxOf (maxK x z) zs = maxK x z at h1
      simp only [maxOf] at h1
      rw [h1]
      unfold maxK
      split_ifs <;> simp
    · exact List.mem_cons_of_mem _ (List.mem_cons_of_mem _ h1)

theorem minOf_le_maxOf (x : K) (xs : List K) : minOf x xs ≤ maxOf x xs :=
  le_trans (minOf_le_head xs x) (head_le_maxOf xs x)

/-! ### boxes -/

/-- the closed box `(left, right, bottom, top)` as a set of points -/
def InBox (b : K × K × K × K) (p : K × K) : Prop :=
  b.1 ≤ p.1 ∧ p.1 ≤ b.2.1 ∧ b.2.2.1 ≤ p.2 ∧ p.2 ≤ b.2.2.2

/-- a box with `left ≤ right`, `bottom ≤ top` -/
def WellFormed (b : K × K × K × K) : Prop := b.1 ≤ b.2.1 ∧ b.2.2.1 ≤ b.2.2.2

theorem bbox_rows (x : K) (xs : List K) (y : K) (ys : List K) :
    bbox [x :: xs, y :: ys] = .ok (minOf x xs, maxOf x xs, minOf y ys, maxOf y ys) := rfl

theorem bbox_ok_shape (nodes : List (List K)) (b : K × K × K × K) (h : bbox nodes = .ok b) :
    ∃ x xs y ys, nodes = [x :: xs, y :: ys] ∧
      b = (minOf x xs, maxOf x xs, minOf y ys, maxOf y ys) := by
  unfold bbox at h
  split at h
  · rename_i x xs y ys
    exact ⟨x, xs, y, ys, rfl, by cases h; rfl⟩
  all_goals cases h

/-! ### the twelve leaves of `parallel_lines_parameters` -/

/-- every emitted parameter lies in `[0, 1]` -/
theorem parallelParams_unit (s0 s1 a b c d : K) (h : parallelParams s0 s1 = some (a, b, c, d)) :
    (0 ≤ a ∧ a ≤ 1) ∧ (0 ≤ b ∧ b ≤ 1) ∧ (0 ≤ c ∧ c ≤ 1) ∧ (0 ≤ d ∧ d ≤ 1) := by
  unfold parallelParams at h
  split_ifs at h <;> simp only [Option.some.injEq, Prod.mk.injEq] at h <;>
    obtain ⟨rfl, rfl, rfl, rfl⟩ := h <;>
    refine ⟨⟨?_, ?_⟩, ⟨?_, ?_⟩, ⟨?_, ?_⟩, ⟨?_, ?_⟩⟩ <;>
    first
      | linarith
      | (apply div_nonneg <;> linarith)
      | (rw [div_le_one (by linarith)]; linarith)

/-- the two parametrisations name the same points: along the shared line `s = s0 + t (s1 - s0)` -/
theorem parallelParams_consistent (s0 s1 a b c d : K)
    (h : parallelParams s0 s1 = some (a, b, c, d)) :
    a = s0 + c * (s1 - s0) ∧ b = s0 + d * (s1 - s0) := by
  unfold parallelParams at h
  split_ifs at h <;> simp only [Option.some.injEq, Prod.mk.injEq] at h <;>
    obtain ⟨rfl, rfl, rfl, rfl⟩ := h <;>
    constructor <;>
    first
      | ring1
      | (have hne : s1 - s0 ≠ 0 := by intro h0; linarith
         field_simp; ring1)
      | (have hne : s0 - s1 ≠ 0 := by intro h0; linarith
         field_simp; ring1)

/-- disjoint exactly when the parameter interval of the second segment misses `[0, 1]` -/
theorem parallelParams_none_iff (s0 s1 : K) :
    parallelParams s0 s1 = none ↔ ((s0 < 0 ∧ s1 < 0) ∨ (1 < s0 ∧ 1 < s1)) := by
  unfold parallelParams
  split_ifs <;> simp only [reduceCtorEq, false_iff, true_iff, not_or, not_and, not_lt] <;>
    first
      | (left; constructor <;> linarith)
      | (right; constructor <;> linarith)
      | (constructor <;> intro _ <;> linarith)

/-- closed form of the first row: the end points of `[0,1] ∩ [s0, s1]` (resp. `[s1, s0]`),
    ordered along the direction of the *second* segment -/
theorem parallelParams_closed_form (s0 s1 a b c d : K)
    (h : parallelParams s0 s1 = some (a, b, c, d)) :
    (s0 ≤ s1 → a = max 0 s0 ∧ b = min 1 s1) ∧ (s1 < s0 → a = min 1 s0 ∧ b = max 0 s1) := by
  unfold parallelParams at h
  split_ifs at h with h1 h2 h3 h4 h5 h6 h7 h8 h9 h10 h11 <;>
    simp only [Option.some.injEq, Prod.mk.injEq] at h <;>
    obtain ⟨rfl, rfl, rfl, rfl⟩ := h <;>
    refine ⟨fun hle => ⟨?_, ?_⟩, fun hlt => ⟨?_, ?_⟩⟩ <;>
    first
      | (exfalso; linarith)
      | (rw [max_eq_left (by linarith)])
      | (rw [max_eq_right (by linarith)])
      | (rw [min_eq_left (by linarith)])
      | (rw [min_eq_right (by linarith)])

/-! ### collinear segments -/

/-- a point `S1` on the line through `S0` with direction `D ≠ 0` is `S0 + σ D` with
    `σ = <S1 - S0, D> / <D, D>` -/
theorem on_line_param (S0 S1 D : K × K) (hD : dot2 D D ≠ 0)
    (hline : cross S0 D = cross S1 D) :
    S1.1 = S0.1 + dot2 (psub S1 S0) D / dot2 D D * D.1 ∧
    S1.2 = S0.2 + dot2 (psub S1 S0) D / dot2 D D * D.2 := by
  simp only [cross, dot2, psub] at *
  constructor
  · rw [div_mul_eq_mul_div, ← sub_eq_iff_eq_add', eq_div_iff hD]
    linear_combination (-D.2) * hline
  · rw [div_mul_eq_mul_div, ← sub_eq_iff_eq_add', eq_div_iff hD]
    linear_combination D.1 * hline

theorem dot2_self_ne_zero (D : K × K) (h : D ≠ (0, 0)) : dot2 D D ≠ 0 := by
  intro h0
  apply h
  simp only [dot2] at h0
  have h1 : D.1 * D.1 = 0 := by nlinarith [mul_self_nonneg D.1, mul_self_nonneg D.2]
  have h2 : D.2 * D.2 = 0 := by nlinarith [mul_self_nonneg D.1, mul_self_nonneg D.2]
  exact Prod.ext (mul_self_eq_zero.mp h1) (mul_self_eq_zero.mp h2)

/-- on a common line, `[0,1]` meets the span of `s0, s1` iff not both are on the same outer side -/
theorem interval_meets_iff (s0 s1 : K) :
    (∃ s t : K, 0 ≤ s ∧ s ≤ 1 ∧ 0 ≤ t ∧ t ≤ 1 ∧ s = s0 + t * (s1 - s0)) ↔
      ¬ ((s0 < 0 ∧ s1 < 0) ∨ (1 < s0 ∧ 1 < s1)) := by
  constructor
  · rintro ⟨s, t, hs0, hs1, ht0, ht1, rfl⟩
    rintro (⟨a, b⟩ | ⟨a, b⟩)
    · nlinarith [mul_nonneg ht0 (neg_pos.mpr b).le, mul_nonneg (sub_nonneg.mpr ht1) (neg_pos.mpr a).le]
    · nlinarith [mul_nonneg ht0 (sub_pos.mpr b).le, mul_nonneg (sub_nonneg.mpr ht1) (sub_pos.mpr a).le]
  · intro h
    push Not at h
    obtain ⟨h1, h2⟩ := h
    by_cases a0 : 0 ≤ s0
    · by_cases a1 : s0 ≤ 1
      · exact ⟨s0, 0, a0, a1, le_rfl, zero_le_one, by ring⟩
      · push Not at a1
        have b1 : s1 ≤ 1 := h2 a1
        by_cases b0 : 0 ≤ s1
        · exact ⟨s1, 1, b0, b1, zero_le_one, le_rfl, by ring⟩
        · push Not at b0
          -- s1 < 0 ≤ 1 < s0 : the point s = 1
          have hne : s1 - s0 ≠ 0 := by intro h0; linarith
          refine ⟨1, (1 - s0) / (s1 - s0), zero_le_one, le_rfl, ?_, ?_, ?_⟩
          · apply div_nonneg_of_nonpos <;> linarith
          · rw [div_le_one_of_neg (by linarith)]; linarith
          · field_simp; ring
    · push Not at a0
      have b0 : 0 ≤ s1 := h1 a0
      by_cases b1 : s1 ≤ 1
      · exact ⟨s1, 1, b0, b1, zero_le_one, le_rfl, by ring⟩
      · push Not at b1
        have hne : s1 - s0 ≠ 0 := by intro h0; linarith
        refine ⟨0, (0 - s0) / (s1 - s0), le_rfl, zero_le_one, ?_, ?_, ?_⟩
        · apply div_nonneg <;> linarith
        · rw [div_le_one (by linarith)]; linarith
        · field_simp; ring

end BezierVerif.Predicates
