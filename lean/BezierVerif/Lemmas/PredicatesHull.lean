import BezierVerif.Model.Helpers
import Mathlib.Analysis.Convex.Hull
import Mathlib.Algebra.Order.Field.Basic
import Mathlib.Data.List.Infix
import Mathlib.Data.List.Perm.Basic
import Mathlib.Data.Prod.Lex
import Mathlib.Tactic.Ring
import Mathlib.Tactic.Linarith

/-!
# Lemmas/PredicatesHull — helper lemmas about `simple_convex_hull` and `polygon_collide`

* the monotone chain only ever stores indices below the number of points, the two
  sort-and-deduplicate routines only produce members of their input  ⇒  hull ⊆ input;
* the parameter ranges of `is_separating` bound every vertex parameter  ⇒  a separating edge
  direction strictly separates the two vertex sets;
* `x ↦ cross d x` is linear  ⇒  strictly separated vertex sets have disjoint convex hulls;
* both `in_sorted` binary searches decide membership in a sorted list and the `lower` chain is
  strictly increasing  ⇒  the monotone chain does not depend on the `in_sorted` variant;
* the repaired `sort_in_place` (loop state `(points, num_uniques, i)`) keeps slots `1 … i-1` strictly
  increasing, slots `i … num_uniques` above slot `i-1` and the element set of the first
  `num_uniques` slots equal to the input  ⇒  it returns `Py.sortUnique`, and the two hull routines
  agree on every input;
* historical: on duplicate-free input the old `sort_in_place` (`…Old`) also returned the sorted list.
-/

set_option linter.unusedSectionVars false
set_option linter.unusedVariables false

namespace BezierVerif.PredicatesHull

open BezierVerif Model

/-- invariant rule for `foldl` -/
theorem foldl_inv {α β : Type} (P : α → Prop) (f : α → β → α) :
    ∀ (l : List β) (a : α), P a → (∀ a b, b ∈ l → P a → P (f a b)) → P (l.foldl f a)
  | [], _, h, _ => h
  | b :: l, a, h, hf =>
    foldl_inv P f l (f a b) (hf a b (by simp) h) (fun a' b' hb' => hf a' b' (by simp [hb']))

/-- indexed invariant rule for a `foldl` over `range'` -/
theorem foldl_range'_inv {α : Type} (P : ℕ → α → Prop) (f : α → ℕ → α) :
    ∀ (k s : ℕ) (a : α), P s a → (∀ i a, s ≤ i → i < s + k → P i a → P (i + 1) (f a i)) →
      P (s + k) ((List.range' s k).foldl f a) := by
  intro k
  induction k with
  | zero => intro s a h _; simpa using h
  | succ k ih =>
    intro s a h hf
    rw [List.range'_succ, List.foldl_cons]
    have := ih (s + 1) (f a s) (hf s a le_rfl (by omega) h)
      (fun i a' h1 h2 => hf i a' (by omega) (by omega))
    rwa [show s + 1 + k = s + (k + 1) by omega] at this

theorem iter_inv {α : Type} (P : α → Prop) (f : α → α) (hf : ∀ a, P a → P (f a)) :
    ∀ (n : ℕ) (a : α), P a → P (iter f n a)
  | 0, _, h => h
  | n + 1, a, h => iter_inv P f hf n (f a) (hf a h)

section Generic
variable {K : Type} [Add K] [Sub K] [Mul K] [Div K] [Neg K] [OfNat K 0] [OfNat K 1] [NatCast K]
  [LT K] [DecidableLT K] [LE K] [DecidableLE K] [DecidableEq K]

/-! ### membership -/

theorem getP_eq_getElem (pts : List (Pt K)) (i : ℕ) (h : i < pts.length) : getP pts i = pts[i] := by
  simp [getP, h]

theorem getP_mem (pts : List (Pt K)) (i : ℕ) (h : i < pts.length) : getP pts i ∈ pts := by
  rw [getP_eq_getElem pts i h]; exact List.getElem_mem h

theorem mem_insertUnique (p : Pt K) : ∀ (l : List (Pt K)) (x : Pt K),
    x ∈ insertUnique p l → x = p ∨ x ∈ l
  | [], x, h => by simp [insertUnique] at h; exact Or.inl h
  | r :: rest, x, h => by
    unfold insertUnique at h
    split_ifs at h with h1 h2
    · simpa using h
    · exact Or.inr h
    · rcases List.mem_cons.1 h with h | h
      · exact Or.inr (by simp [h])
      · rcases mem_insertUnique p rest x h with h | h
        · exact Or.inl h
        · exact Or.inr (by simp [h])

theorem mem_sortUnique : ∀ (pts : List (Pt K)) (x : Pt K), x ∈ Py.sortUnique pts → x ∈ pts
  | [], x, h => by simp [Py.sortUnique] at h
  | a :: pts, x, h => by
    have h' : x ∈ insertUnique a (Py.sortUnique pts) := h
    rcases mem_insertUnique a _ x h' with h | h
    · simp [h]
    · exact List.mem_cons_of_mem _ (mem_sortUnique pts x h)

theorem mem_chainPop (pts : List (Pt K)) (p2 : Pt K) : ∀ (st : List ℕ) (x : ℕ),
    x ∈ chainPop pts p2 st → x ∈ st
  | [], x, h => by simp [chainPop] at h
  | [a], x, h => by simp [chainPop] at h; simp [h]
  | i1 :: i0 :: rest, x, h => by
    rw [chainPop] at h
    split_ifs at h with h1
    · exact h
    · exact List.mem_cons_of_mem _ (mem_chainPop pts p2 (i0 :: rest) x h)

/-- every index on the two chain stacks is below the number of points -/
theorem mem_hullChain (inS : List ℕ → ℕ → Bool) (pts : List (Pt K)) (hn : 2 ≤ pts.length) :
    ∀ x ∈ hullChain inS pts, x ∈ pts := by
  intro x hx
  unfold hullChain at hx
  simp only [List.mem_map, List.mem_append] at hx
  obtain ⟨i, hi, rfl⟩ := hx
  apply getP_mem
  have hlow : ∀ j ∈ (List.range' 2 (pts.length - 2)).foldl
      (fun st index => index :: chainPop pts (getP pts index) st) [1, 0], j < pts.length := by
    apply foldl_inv (fun st : List ℕ => ∀ j ∈ st, j < pts.length)
    · intro j hj
      simp only [List.mem_cons, List.not_mem_nil, or_false] at hj
      omega
    · intro st b hb hst j hj
      rcases List.mem_cons.1 hj with rfl | hj
      · have := List.mem_range'_1.1 hb; omega
      · exact hst j (mem_chainPop _ _ _ _ hj)
  rcases hi with hi | hi
  · exact hlow i (List.mem_reverse.1 (List.mem_of_mem_dropLast hi))
  · have hi' := List.mem_reverse.1 (List.mem_of_mem_dropLast hi)
    refine foldl_inv (fun st : List ℕ => ∀ j ∈ st, j < pts.length) _ _ _ ?_ ?_ i hi'
    · intro j hj
      simp only [List.mem_cons, List.not_mem_nil, or_false] at hj
      omega
    · intro st b hb hst j hj
      split_ifs at hj with hc
      · exact hst j hj
      · rcases List.mem_cons.1 hj with rfl | hj
        · have := List.mem_range.1 (List.mem_reverse.1 hb); omega
        · exact hst j (mem_chainPop _ _ _ _ hj)

theorem mem_py_convexHull (pts : List (Pt K)) : ∀ x ∈ Py.convexHull pts, x ∈ pts := by
  intro x hx
  unfold Py.convexHull at hx
  simp only at hx
  split_ifs at hx with h
  · exact mem_sortUnique pts x hx
  · exact mem_sortUnique pts x (mem_hullChain _ _ (by omega) x hx)

theorem minIndex_nil : F90.minIndex ([] : List (Pt K)) = 0 := by
  simp [F90.minIndex]

theorem minIndex_lt (l : List (Pt K)) (h : l ≠ []) : F90.minIndex l < l.length := by
  have hl : 0 < l.length := List.length_pos_iff.2 h
  unfold F90.minIndex
  apply foldl_inv (fun m : ℕ => m < l.length)
  · exact hl
  · intro m i hi hm
    have := List.mem_range'_1.1 hi
    split_ifs <;> omega

/-- invariant of `sort_in_place`: `num_uniques` never exceeds the array length and every array
    entry is one of the input points -/
def SortInv (pts : List (Pt K)) (st : List (Pt K) × ℕ) : Prop :=
  st.2 ≤ st.1.length ∧ ∀ x ∈ st.1, x ∈ pts

theorem mem_set_set (pts l : List (Pt K)) (hl : ∀ x ∈ l, x ∈ pts) (a b : ℕ) (u v : Pt K)
    (hu : u ∈ pts) (hv : v ∈ pts) : ∀ x ∈ (l.set a u).set b v, x ∈ pts := by
  intro x hx
  rcases List.mem_or_eq_of_mem_set hx with hx | rfl
  · rcases List.mem_or_eq_of_mem_set hx with hx | rfl
    · exact hl x hx
    · exact hu
  · exact hv

theorem sortStepOld_inv (pts : List (Pt K)) (st : List (Pt K) × ℕ) (i : ℕ) (hi : 1 ≤ i)
    (h : SortInv pts st) : SortInv pts (F90.sortStepOld st i) := by
  obtain ⟨arr, nu⟩ := st
  obtain ⟨hlen, hmem⟩ := h
  simp only at hlen hmem
  unfold F90.sortStepOld
  simp only
  split_ifs with h1 h2 h3
  · -- duplicate removed
    have hsl : ((arr.drop (i - 1)).take (nu + 1 - i)) ≠ [] := by
      apply List.ne_nil_of_length_pos
      simp only [List.length_take, List.length_drop]; omega
    have hmi := minIndex_lt _ hsl
    simp only [List.length_take, List.length_drop] at hmi
    refine ⟨by simp only [List.length_set]; omega, ?_⟩
    exact mem_set_set pts arr hmem _ _ _ _ (hmem _ (getP_mem _ _ (by omega)))
      (hmem _ (getP_mem _ _ (by omega)))
  · have hsl : ((arr.drop (i - 1)).take (nu + 1 - i)) ≠ [] := by
      apply List.ne_nil_of_length_pos
      simp only [List.length_take, List.length_drop]; omega
    have hmi := minIndex_lt _ hsl
    simp only [List.length_take, List.length_drop] at hmi
    refine ⟨by simp only [List.length_set]; omega, ?_⟩
    exact mem_set_set pts arr hmem _ _ _ _ (hmem _ (getP_mem _ _ (by omega)))
      (hmem _ (getP_mem _ _ (by omega)))
  · exact ⟨hlen, hmem⟩
  · exact ⟨hlen, hmem⟩

theorem sortInPlaceOld_inv (pts : List (Pt K)) : SortInv pts (F90.sortInPlaceOld pts) := by
  unfold F90.sortInPlaceOld
  simp only
  apply foldl_inv (SortInv pts)
  · split_ifs with hm
    · have hne : pts ≠ [] := by
        rintro rfl; exact hm minIndex_nil
      have hlt := minIndex_lt pts hne
      refine ⟨by simp, ?_⟩
      exact mem_set_set pts pts (fun x hx => hx) _ _ _ _ (getP_mem _ _ (by omega))
        (getP_mem _ _ hlt)
    · exact ⟨le_rfl, fun x hx => hx⟩
  · intro st i hi hst
    have := List.mem_range'_1.1 hi
    exact sortStepOld_inv pts st i (by omega) hst

theorem mem_f90_convexHullOld (pts : List (Pt K)) : ∀ x ∈ F90.convexHullOld pts, x ∈ pts := by
  intro x hx
  have hinv := sortInPlaceOld_inv pts
  unfold F90.convexHullOld at hx
  rcases hs : F90.sortInPlaceOld pts with ⟨arr, nu⟩
  rw [hs] at hinv hx
  obtain ⟨hlen, hmem⟩ := hinv
  simp only at hlen hmem hx
  split_ifs at hx with h
  · exact hmem x (List.mem_of_mem_take hx)
  · have hx' := mem_hullChain _ _ (by simp only [List.length_take]; omega) x hx
    exact hmem x (List.mem_of_mem_take hx')

/-! the repaired `sort_in_place` -/

/-- invariant of the repaired `sort_in_place` (membership only) -/
def SortInv3 (pts : List (Pt K)) (st : List (Pt K) × ℕ × ℕ) : Prop :=
  1 ≤ st.2.2 ∧ st.2.1 ≤ st.1.length ∧ ∀ x ∈ st.1, x ∈ pts

theorem sortStep_inv (pts : List (Pt K)) (st : List (Pt K) × ℕ × ℕ)
    (h : SortInv3 pts st) : SortInv3 pts (F90.sortStep st) := by
  obtain ⟨arr, nu, i⟩ := st
  obtain ⟨hi, hlen, hmem⟩ := h
  simp only at hi hlen hmem
  unfold F90.sortStep
  simp only
  split_ifs with h1 h2 h3
  · have hsl : ((arr.drop (i - 1)).take (nu + 1 - i)) ≠ [] := by
      apply List.ne_nil_of_length_pos
      simp only [List.length_take, List.length_drop]; omega
    have hmi := minIndex_lt _ hsl
    simp only [List.length_take, List.length_drop] at hmi
    refine ⟨by simp only; omega, by simp only [List.length_set]; omega, ?_⟩
    exact mem_set_set pts arr hmem _ _ _ _ (hmem _ (getP_mem _ _ (by omega)))
      (hmem _ (getP_mem _ _ (by omega)))
  · have hsl : ((arr.drop (i - 1)).take (nu + 1 - i)) ≠ [] := by
      apply List.ne_nil_of_length_pos
      simp only [List.length_take, List.length_drop]; omega
    have hmi := minIndex_lt _ hsl
    simp only [List.length_take, List.length_drop] at hmi
    refine ⟨by simp only; omega, by simp only [List.length_set]; omega, ?_⟩
    exact mem_set_set pts arr hmem _ _ _ _ (hmem _ (getP_mem _ _ (by omega)))
      (hmem _ (getP_mem _ _ (by omega)))
  · exact ⟨by simp only; omega, hlen, hmem⟩
  · exact ⟨hi, hlen, hmem⟩

theorem sortInPlace_inv (pts : List (Pt K)) :
    (F90.sortInPlace pts).2 ≤ (F90.sortInPlace pts).1.length ∧
      ∀ x ∈ (F90.sortInPlace pts).1, x ∈ pts := by
  unfold F90.sortInPlace
  simp only
  refine (iter_inv (SortInv3 pts) F90.sortStep (sortStep_inv pts) _ _ ?_).2
  split_ifs with hm
  · have hne : pts ≠ [] := by
      rintro rfl; exact hm minIndex_nil
    have hlt := minIndex_lt pts hne
    refine ⟨by simp, by simp, ?_⟩
    exact mem_set_set pts pts (fun x hx => hx) _ _ _ _ (getP_mem _ _ (by omega))
      (getP_mem _ _ hlt)
  · exact ⟨by simp, le_rfl, fun x hx => hx⟩

theorem mem_f90_convexHull (pts : List (Pt K)) : ∀ x ∈ F90.convexHull pts, x ∈ pts := by
  intro x hx
  have hinv := sortInPlace_inv pts
  unfold F90.convexHull at hx
  rcases hs : F90.sortInPlace pts with ⟨arr, nu⟩
  rw [hs] at hinv hx
  obtain ⟨hlen, hmem⟩ := hinv
  simp only at hlen hmem hx
  split_ifs at hx with h
  · exact hmem x (List.mem_of_mem_take hx)
  · have hx' := mem_hullChain _ _ (by simp only [List.length_take]; omega) x hx
    exact hmem x (List.mem_of_mem_take hx')

end Generic

/-! ### `in_sorted`: both binary searches decide membership in a sorted list -/

theorem getElem?_eq_some_getD (l : List ℕ) (i v : ℕ) :
    l[i]? = some v ↔ i < l.length ∧ l.getD i 0 = v := by
  rw [List.getElem?_eq_some_iff]
  constructor
  · rintro ⟨h, rfl⟩; exact ⟨h, by simp [h]⟩
  · rintro ⟨h, rfl⟩; exact ⟨h, by simp [h]⟩

theorem mem_iff_getD (l : List ℕ) (v : ℕ) : v ∈ l ↔ ∃ k, k < l.length ∧ l.getD k 0 = v := by
  rw [List.mem_iff_getElem?]
  simp only [getElem?_eq_some_getD]

/-- weakly increasing read-out -/
def MonoL (l : List ℕ) : Prop := ∀ i j, i ≤ j → j < l.length → l.getD i 0 ≤ l.getD j 0

theorem monoL_of_pairwise (l : List ℕ) (h : l.Pairwise (· < ·)) : MonoL l := by
  intro i j hij hj
  rcases Nat.lt_or_eq_of_le hij with hlt | rfl
  · have := (List.pairwise_iff_getElem.1 h) i j (by omega) hj hlt
    have hi : i < l.length := by omega
    simp only [List.getD_eq_getElem?_getD, List.getElem?_eq_getElem hi, List.getElem?_eq_getElem hj,
      Option.getD_some]
    exact le_of_lt this
  · exact le_rfl

theorem f90_inSortedGo_iff (l : List ℕ) (hm : MonoL l) (v : ℕ) :
    ∀ (fuel left right : ℕ), 1 ≤ left → right ≤ l.length → right + 1 - left ≤ fuel →
      (∀ k, k < l.length → l.getD k 0 = v → left ≤ k + 1 ∧ k + 1 ≤ right) →
      (F90.inSortedGo l v fuel left right = true ↔ v ∈ l) := by
  intro fuel
  induction fuel with
  | zero =>
    intro left right h1 h2 h3 h4
    simp only [F90.inSortedGo, beq_iff_eq, getElem?_eq_some_getD, mem_iff_getD]
    constructor
    · intro h; exact ⟨_, h⟩
    · rintro ⟨k, hk, hkv⟩
      have := h4 k hk hkv
      omega
  | succ fuel ih =>
    intro left right h1 h2 h3 h4
    rw [F90.inSortedGo]
    split_ifs with hlr
    · simp only
      have hmid1 : left ≤ (left + right) / 2 := by omega
      have hmid2 : (left + right) / 2 < right := by omega
      split_ifs with he hlt
      · simp only [true_iff, mem_iff_getD]
        exact ⟨(left + right) / 2 - 1, by omega, he.symm⟩
      · apply ih left ((left + right) / 2 - 1) h1 (by omega) (by omega)
        intro k hk hkv
        have := h4 k hk hkv
        have hk2 : ¬ ((left + right) / 2 - 1 ≤ k) := by
          intro hle
          have := hm _ _ hle hk
          omega
        omega
      · apply ih ((left + right) / 2 + 1) right (by omega) h2 (by omega)
        intro k hk hkv
        have := h4 k hk hkv
        have hk2 : ¬ (k ≤ (left + right) / 2 - 1) := by
          intro hle
          have := hm _ _ hle (by omega : (left + right) / 2 - 1 < l.length)
          omega
        omega
    · simp only [beq_iff_eq, getElem?_eq_some_getD, mem_iff_getD]
      constructor
      · intro h; exact ⟨_, h⟩
      · rintro ⟨k, hk, hkv⟩
        have := h4 k hk hkv
        have : k = left - 1 := by omega
        subst this
        exact ⟨hk, hkv⟩

theorem f90_inSorted_iff (l : List ℕ) (hm : MonoL l) (v : ℕ) :
    F90.inSorted l v = true ↔ v ∈ l := by
  unfold F90.inSorted
  apply f90_inSortedGo_iff l hm v _ _ _ le_rfl le_rfl (by omega)
  intro k hk _
  omega

theorem bisectLeft_spec (l : List ℕ) (hm : MonoL l) (x : ℕ) :
    ∀ (fuel lo hi : ℕ), lo ≤ hi → hi ≤ l.length → hi - lo ≤ fuel →
      (∀ k, k < lo → l.getD k 0 < x) → (∀ k, hi ≤ k → k < l.length → x ≤ l.getD k 0) →
      (bisectLeft l x fuel lo hi ≤ l.length ∧
       (∀ k, k < bisectLeft l x fuel lo hi → l.getD k 0 < x) ∧
       (∀ k, bisectLeft l x fuel lo hi ≤ k → k < l.length → x ≤ l.getD k 0)) := by
  intro fuel
  induction fuel with
  | zero =>
    intro lo hi h1 h2 h3 h4 h5
    have : lo = hi := by omega
    subst this
    simp only [bisectLeft]
    exact ⟨h2, h4, h5⟩
  | succ fuel ih =>
    intro lo hi h1 h2 h3 h4 h5
    rw [bisectLeft]
    split_ifs with hlh
    · simp only
      split_ifs with hlt
      · apply ih ((lo + hi) / 2 + 1) hi (by omega) h2 (by omega) _ h5
        intro k hk
        have := hm k ((lo + hi) / 2) (by omega) (by omega)
        omega
      · apply ih lo ((lo + hi) / 2) (by omega) (by omega) (by omega) h4
        intro k hk hkl
        have := hm ((lo + hi) / 2) k hk hkl
        omega
    · have : lo = hi := by omega
      subst this
      exact ⟨h2, h4, h5⟩

theorem py_inSorted_iff (l : List ℕ) (hm : MonoL l) (v : ℕ) :
    Py.inSorted l v = true ↔ v ∈ l := by
  obtain ⟨h1, h2, h3⟩ := bisectLeft_spec l hm v (l.length + 1) 0 l.length (Nat.zero_le _) le_rfl
    (by omega) (fun k hk => absurd hk (Nat.not_lt_zero _)) (fun k hk hk' => by omega)
  unfold Py.inSorted
  simp only
  split_ifs with hge
  · simp only [false_iff, mem_iff_getD]
    rintro ⟨k, hk, hkv⟩
    have := h2 k (by omega)
    omega
  · simp only [beq_iff_eq, getElem?_eq_some_getD, mem_iff_getD]
    constructor
    · intro h; exact ⟨_, h⟩
    · rintro ⟨k, hk, hkv⟩
      refine ⟨by omega, ?_⟩
      by_cases hkb : k < bisectLeft l v (l.length + 1) 0 l.length
      · have := h2 k hkb; omega
      · have a1 := hm _ k (not_lt.1 hkb) hk
        have a2 := h3 _ le_rfl (by omega)
        omega

theorem inSorted_variants_agree (l : List ℕ) (h : l.Pairwise (· < ·)) (v : ℕ) :
    F90.inSorted l v = Py.inSorted l v := by
  have hm := monoL_of_pairwise l h
  rw [Bool.eq_iff_iff, f90_inSorted_iff l hm, py_inSorted_iff l hm]

/-! ### the chain does not depend on the `in_sorted` variant -/

section Chain
variable {K : Type} [Add K] [Sub K] [Mul K] [Div K] [Neg K] [OfNat K 0] [OfNat K 1] [NatCast K]
  [LT K] [DecidableLT K] [LE K] [DecidableLE K] [DecidableEq K]

theorem chainPop_suffix (pts : List (Pt K)) (p2 : Pt K) : ∀ (st : List ℕ),
    chainPop pts p2 st <:+ st
  | [] => by simp [chainPop]
  | [a] => by simp [chainPop]
  | i1 :: i0 :: rest => by
    rw [chainPop]
    split_ifs with h1
    · exact List.suffix_refl _
    · exact (chainPop_suffix pts p2 (i0 :: rest)).trans (List.suffix_cons _ _)

/-- the `lower` stack is strictly decreasing from its top -/
theorem lowerRev_sorted (pts : List (Pt K)) : ∀ (k s : ℕ) (st : List ℕ),
    st.Pairwise (· > ·) → (∀ j ∈ st, j < s) →
    ((List.range' s k).foldl (fun st index => index :: chainPop pts (getP pts index) st) st).Pairwise
      (· > ·) := by
  intro k
  induction k with
  | zero => intro s st h _; simpa using h
  | succ k ih =>
    intro s st h1 h2
    rw [List.range'_succ, List.foldl_cons]
    apply ih (s + 1)
    · rw [List.pairwise_cons]
      exact ⟨fun j hj => h2 j (mem_chainPop _ _ _ _ hj), h1.sublist (chainPop_suffix _ _ _).sublist⟩
    · intro j hj
      rcases List.mem_cons.1 hj with rfl | hj
      · omega
      · have := h2 j (mem_chainPop _ _ _ _ hj); omega

/-- the monotone chain does not depend on which `in_sorted` it is given: `lower` is strictly
    increasing, where both binary searches decide membership -/
theorem hullChain_variants_agree (pts : List (Pt K)) :
    hullChain F90.inSorted pts = hullChain Py.inSorted pts := by
  have hs : (((List.range' 2 (pts.length - 2)).foldl
      (fun st index => index :: chainPop pts (getP pts index) st) [1, 0]).reverse).Pairwise
      (· < ·) := by
    rw [List.pairwise_reverse]
    exact lowerRev_sorted pts _ 2 [1, 0] (by simp) (by simp)
  unfold hullChain
  simp only [inSorted_variants_agree _ hs]

end Chain

/-! ### separating axis -/

section Field
variable {K : Type} [Field K] [LinearOrder K] [IsStrictOrderedRing K]

theorem minK_le_left (a b : K) : minK a b ≤ a := by
  unfold minK; split_ifs with h
  · exact le_of_lt h
  · exact le_rfl

theorem minK_le_right (a b : K) : minK a b ≤ b := by
  unfold minK; split_ifs with h
  · exact le_rfl
  · exact not_lt.1 h

theorem le_maxK_left (a b : K) : a ≤ maxK a b := by
  unfold maxK; split_ifs with h
  · exact le_of_lt h
  · exact le_rfl

theorem le_maxK_right (a b : K) : b ≤ maxK a b := by
  unfold maxK; split_ifs with h
  · exact le_rfl
  · exact not_lt.1 h

theorem rangeFold_bounds (g : Pt K → K) : ∀ (vs : List (Pt K)) (acc : K × K),
    (vs.foldl (fun (acc : K × K) w => (minK acc.1 (g w), maxK acc.2 (g w))) acc).1 ≤ acc.1 ∧
    acc.2 ≤ (vs.foldl (fun (acc : K × K) w => (minK acc.1 (g w), maxK acc.2 (g w))) acc).2 ∧
    ∀ w ∈ vs, (vs.foldl (fun (acc : K × K) w => (minK acc.1 (g w), maxK acc.2 (g w))) acc).1 ≤ g w ∧
      g w ≤ (vs.foldl (fun (acc : K × K) w => (minK acc.1 (g w), maxK acc.2 (g w))) acc).2
  | [], acc => by simp
  | v :: vs, acc => by
    obtain ⟨h1, h2, h3⟩ := rangeFold_bounds g vs (minK acc.1 (g v), maxK acc.2 (g v))
    simp only [List.foldl_cons]
    refine ⟨le_trans h1 (minK_le_left _ _), le_trans (le_maxK_left _ _) h2, ?_⟩
    intro w hw
    rcases List.mem_cons.1 hw with rfl | hw
    · exact ⟨le_trans h1 (minK_le_right _ _), le_trans (le_maxK_right _ _) h2⟩
    · exact h3 w hw

/-- the range returned by `paramRange` contains the parameter of every vertex -/
theorem paramRange_bounds (d : Pt K) (ns : K) (l : List (Pt K)) (mn mx : K)
    (h : paramRange d ns l = some (mn, mx)) :
    ∀ v ∈ l, mn ≤ cross d v / ns ∧ cross d v / ns ≤ mx := by
  match l, h with
  | v :: vs, h =>
    simp only [paramRange, Option.some.injEq] at h
    obtain ⟨h1, h2, h3⟩ := rangeFold_bounds (fun w => cross d w / ns) vs (cross d v / ns, cross d v / ns)
    rw [h] at h1 h2 h3
    intro w hw
    rcases List.mem_cons.1 hw with rfl | hw
    · exact ⟨h1, h2⟩
    · exact h3 w hw

theorem paramRange_isSome (d : Pt K) (ns : K) (l : List (Pt K)) (h : l ≠ []) :
    ∃ mn mx, paramRange d ns l = some (mn, mx) := by
  match l, h with
  | v :: vs, _ => exact ⟨_, _, rfl⟩

/-- disjoint parameter ranges (positive normalisation) strictly separate the vertex sets -/
theorem sep_of_ranges (d : Pt K) (ns : K) (hns : 0 < ns) (P Q : List (Pt K))
    (hP : P ≠ []) (hQ : Q ≠ [])
    (h : sepRanges (paramRange d ns P) (paramRange d ns Q) = true) :
    (∀ p ∈ P, ∀ q ∈ Q, cross d q < cross d p) ∨ (∀ p ∈ P, ∀ q ∈ Q, cross d p < cross d q) := by
  obtain ⟨mn1, mx1, h1⟩ := paramRange_isSome d ns P hP
  obtain ⟨mn2, mx2, h2⟩ := paramRange_isSome d ns Q hQ
  have b1 := paramRange_bounds d ns P mn1 mx1 h1
  have b2 := paramRange_bounds d ns Q mn2 mx2 h2
  rw [h1, h2] at h
  simp only [sepRanges, Bool.or_eq_true, decide_eq_true_eq] at h
  rcases h with h | h
  · left
    intro p hp q hq
    have := lt_of_le_of_lt (b2 q hq).2 (lt_of_lt_of_le h (b1 p hp).1)
    exact (div_lt_div_iff_of_pos_right hns).1 this
  · right
    intro p hp q hq
    have := lt_of_le_of_lt (b1 p hp).2 (lt_of_lt_of_le h (b2 q hq).1)
    exact (div_lt_div_iff_of_pos_right hns).1 this

theorem dot2_self_pos (d : Pt K) (h : dot2 d d ≠ 0) : 0 < dot2 d d := by
  have : 0 ≤ dot2 d d := by
    unfold dot2; exact add_nonneg (mul_self_nonneg _) (mul_self_nonneg _)
  exact lt_of_le_of_ne this (Ne.symm h)

theorem ne_zero_of_dot2 (d : Pt K) (h : dot2 d d ≠ 0) : d ≠ (0, 0) := by
  rintro rfl
  exact h (by simp [dot2])

/-- `x ↦ cross d x` is linear -/
theorem cross_isLinear (d : Pt K) : IsLinearMap K (fun x : Pt K => cross d x) where
  map_add x y := by simp only [cross, Prod.fst_add, Prod.snd_add]; ring
  map_smul c x := by simp only [cross, Prod.smul_fst, Prod.smul_snd, smul_eq_mul]; ring

theorem hulls_disjoint_of_lt (d : Pt K) (P Q : List (Pt K))
    (h : ∀ p ∈ P, ∀ q ∈ Q, cross d q < cross d p) :
    Disjoint (convexHull K {x : Pt K | x ∈ P}) (convexHull K {x : Pt K | x ∈ Q}) := by
  rw [Set.disjoint_left]
  intro x hxP hxQ
  have h1 : ∀ q ∈ Q, cross d q < cross d x := by
    intro q hq
    have hsub : {y : Pt K | y ∈ P} ⊆ {y : Pt K | cross d q < cross d y} := fun p hp => h p hp q hq
    exact convexHull_min hsub (convex_halfSpace_gt (cross_isLinear d) _) hxP
  have hsub : {y : Pt K | y ∈ Q} ⊆ {y : Pt K | cross d y < cross d x} := fun q hq => h1 q hq
  have := convexHull_min hsub (convex_halfSpace_lt (cross_isLinear d) _) hxQ
  exact lt_irrefl _ this

end Field

/-! ### sort-and-deduplicate: the two routines agree on duplicate-free input -/

section SelSort
variable {K : Type} [Field K] [LinearOrder K] [IsStrictOrderedRing K]

theorem lexLt_iff (p r : Pt K) : lexLt p r = true ↔ toLex p < toLex r := by
  simp [lexLt, Prod.Lex.toLex_lt_toLex]

/-- sorted for the lexicographic order -/
def LexSorted (l : List (Pt K)) : Prop := l.Pairwise (fun p r => toLex p < toLex r)

theorem insertUnique_sorted (p : Pt K) : ∀ l : List (Pt K), LexSorted l → LexSorted (insertUnique p l)
  | [], _ => by simp [insertUnique, LexSorted]
  | r :: rest, h => by
    unfold LexSorted at h ⊢
    rw [List.pairwise_cons] at h
    unfold insertUnique
    split_ifs with h1 h2
    · rw [lexLt_iff] at h1
      rw [List.pairwise_cons, List.pairwise_cons]
      refine ⟨?_, h⟩
      intro x hx
      rcases List.mem_cons.1 hx with rfl | hx
      · exact h1
      · exact lt_trans h1 (h.1 x hx)
    · exact List.pairwise_cons.2 h
    · rw [lexLt_iff] at h1
      have hlt : toLex r < toLex p := by
        rcases lt_trichotomy (toLex p) (toLex r) with h3 | h3 | h3
        · exact absurd h3 h1
        · exact absurd (toLex_inj.1 h3) h2
        · exact h3
      rw [List.pairwise_cons]
      refine ⟨?_, insertUnique_sorted p rest h.2⟩
      intro x hx
      rcases mem_insertUnique p rest x hx with rfl | hx
      · exact hlt
      · exact h.1 x hx

theorem insertUnique_perm (p : Pt K) : ∀ l : List (Pt K), p ∉ l → (insertUnique p l).Perm (p :: l)
  | [], _ => by simp [insertUnique]
  | r :: rest, h => by
    unfold insertUnique
    split_ifs with h1 h2
    · exact List.Perm.refl _
    · exact absurd (by simp [h2]) h
    · exact ((insertUnique_perm p rest (fun hm => h (List.mem_cons_of_mem _ hm))).cons r).trans
        (List.Perm.swap p r rest)

theorem sortUnique_sorted : ∀ pts : List (Pt K), LexSorted (Py.sortUnique pts)
  | [] => by simp [Py.sortUnique, LexSorted]
  | a :: pts => insertUnique_sorted a _ (sortUnique_sorted pts)

theorem sortUnique_perm : ∀ pts : List (Pt K), pts.Nodup → (Py.sortUnique pts).Perm pts
  | [], _ => by simp [Py.sortUnique]
  | a :: pts, h => by
    rw [List.nodup_cons] at h
    have h1 : Py.sortUnique (a :: pts) = insertUnique a (Py.sortUnique pts) := rfl
    rw [h1]
    exact (insertUnique_perm a _ (fun hm => h.1 (mem_sortUnique pts a hm))).trans
      ((sortUnique_perm pts h.2).cons a)

/-! selection sort (`min_index`, `sort_in_place`) -/

theorem minIndex_spec (l : List (Pt K)) (h : l ≠ []) :
    F90.minIndex l < l.length ∧ ∀ k, k < l.length → toLex (getP l (F90.minIndex l)) ≤ toLex (getP l k) := by
  have hl : 0 < l.length := List.length_pos_iff.2 h
  have key := foldl_range'_inv
    (fun (i : ℕ) (m : ℕ) => m < l.length ∧ ∀ k, k < i → toLex (getP l m) ≤ toLex (getP l k))
    (fun m i =>
      if (getP l i).1 < (getP l m).1 then i
      else if (getP l i).1 = (getP l m).1 then
        (if (getP l i).2 < (getP l m).2 then i else m)
      else m) (l.length - 1) 1 0 ⟨hl, fun k hk => by
        have : k = 0 := by omega
        subst this; exact le_rfl⟩ (by
      intro i m h1 h2 ⟨hm, hmin⟩
      have hstep : (if (getP l i).1 < (getP l m).1 then i
          else if (getP l i).1 = (getP l m).1 then
            (if (getP l i).2 < (getP l m).2 then i else m)
          else m) = if toLex (getP l i) < toLex (getP l m) then i else m := by
        have hiff := Prod.Lex.toLex_lt_toLex (x := getP l i) (y := getP l m)
        split_ifs <;> first | rfl | (exfalso; tauto)
      simp only [hstep]
      split_ifs with hlt
      · refine ⟨by omega, ?_⟩
        intro k hk
        rcases Nat.lt_or_eq_of_le (Nat.lt_succ_iff.1 hk) with hk | rfl
        · exact le_trans (le_of_lt hlt) (hmin k hk)
        · exact le_rfl
      · refine ⟨hm, ?_⟩
        intro k hk
        rcases Nat.lt_or_eq_of_le (Nat.lt_succ_iff.1 hk) with hk | rfl
        · exact hmin k hk
        · exact not_lt.1 hlt)
  rw [show 1 + (l.length - 1) = l.length by omega] at key
  exact key

theorem getP_set (l : List (Pt K)) (a k : ℕ) (x : Pt K) (hk : k < l.length) :
    getP (l.set a x) k = if a = k then x else getP l k := by
  rw [getP_eq_getElem _ _ (by simpa using hk), List.getElem_set, getP_eq_getElem _ _ hk]

theorem getP_drop (l : List (Pt K)) (a k : ℕ) : getP (l.drop a) k = getP l (a + k) := by
  simp [getP, List.getD_eq_getElem?_getD, List.getElem?_drop]

theorem getP_inj (l : List (Pt K)) (hnd : l.Nodup) (i j : ℕ) (hi : i < l.length) (hj : j < l.length)
    (h : getP l i = getP l j) : i = j := by
  rw [getP_eq_getElem _ _ hi, getP_eq_getElem _ _ hj] at h
  exact (hnd.getElem_inj_iff).1 h

theorem swap_perm (l : List (Pt K)) (a m : ℕ) (ha : a < l.length) (hm : m < l.length)
    (hne : a ≠ m) : ((l.set m (getP l a)).set a (getP l m)).Perm l := by
  rw [List.perm_iff_count]
  intro c
  rw [List.count_set (by simpa using ha), List.count_set hm, List.getElem_set_ne (by omega),
    getP_eq_getElem _ _ ha, getP_eq_getElem _ _ hm]
  have hpos : (l[m] == c) = true → 0 < l.count c := by
    intro h
    rw [beq_iff_eq] at h
    rw [List.count_pos_iff]
    exact h ▸ List.getElem_mem hm
  split_ifs with h1 h2 h2
  · have := hpos h1; omega
  · have := hpos h1; omega
  · omega
  · omega

theorem swap_sorted_step (arr arr' : List (Pt K)) (n a m : ℕ) (hn : arr.length = n)
    (ham : a ≤ m) (hm : m < n) (hnd : arr.Nodup)
    (hfin : ∀ j k, j < a → j < k → k < n → toLex (getP arr j) < toLex (getP arr k))
    (hmin : ∀ k, a ≤ k → k < n → toLex (getP arr m) ≤ toLex (getP arr k))
    (h' : ∀ k, k < n → getP arr' k =
      if a = k then getP arr m else if m = k then getP arr a else getP arr k) :
    ∀ j k, j < a + 1 → j < k → k < n → toLex (getP arr' j) < toLex (getP arr' k) := by
  intro j k hj hjk hk
  have hstrict : ∀ k, a ≤ k → k < n → k ≠ m → toLex (getP arr m) < toLex (getP arr k) := by
    intro k h1 h2 h3
    refine lt_of_le_of_ne (hmin k h1 h2) ?_
    intro he
    exact h3 (getP_inj arr hnd m k (by omega) (by omega) (toLex_inj.1 he)).symm
  rw [h' j (by omega), h' k hk]
  rcases Nat.lt_or_eq_of_le (Nat.lt_succ_iff.1 hj) with hja | rfl
  · rw [if_neg (by omega), if_neg (by omega)]
    split_ifs with h1 h2
    · exact hfin j m hja (by omega) hm
    · exact hfin j a hja hja (by omega)
    · exact hfin j k hja hjk hk
  · rw [if_pos rfl, if_neg (by omega)]
    split_ifs with h2
    · exact hstrict j le_rfl (by omega) (by omega)
    · exact hstrict k (by omega) hk (by omega)

/-- invariant of the selection sort on duplicate-free input (before step `i`, 1-based) -/
def SelInv (pts : List (Pt K)) (i : ℕ) (st : List (Pt K) × ℕ) : Prop :=
  st.2 = pts.length ∧ st.1.Perm pts ∧
    ∀ j k, j + 1 < i → j < k → k < pts.length → toLex (getP st.1 j) < toLex (getP st.1 k)

theorem sortStepOld_selInv (pts : List (Pt K)) (hnd : pts.Nodup) (i : ℕ) (hi : 2 ≤ i)
    (hin : i ≤ pts.length) (st : List (Pt K) × ℕ) (h : SelInv pts i st) :
    SelInv pts (i + 1) (F90.sortStepOld st i) := by
  obtain ⟨arr, nu⟩ := st
  obtain ⟨hnu, hperm, hsorted⟩ := h
  simp only at hnu hperm hsorted
  subst hnu
  have hlen : arr.length = pts.length := hperm.length_eq
  have hnd' : arr.Nodup := hperm.nodup_iff.2 hnd
  unfold F90.sortStepOld
  simp only
  rw [if_pos hin]
  have hsl : (arr.drop (i - 1)).take (pts.length + 1 - i) = arr.drop (i - 1) :=
    List.take_of_length_le (by simp only [List.length_drop]; omega)
  rw [hsl]
  have hne : arr.drop (i - 1) ≠ [] := by
    apply List.ne_nil_of_length_pos
    simp only [List.length_drop]; omega
  obtain ⟨hmi, hmin⟩ := minIndex_spec _ hne
  simp only [List.length_drop, getP_drop] at hmi hmin
  generalize F90.minIndex (arr.drop (i - 1)) = mi at hmi hmin ⊢
  have hmin' : ∀ k, i - 1 ≤ k → k < pts.length →
      toLex (getP arr (i - 1 + mi)) ≤ toLex (getP arr k) := by
    intro k h1 h2
    have := hmin (k - (i - 1)) (by omega)
    rwa [show i - 1 + (k - (i - 1)) = k by omega] at this
  have hm1 : mi + 1 + i - 1 - 1 = i - 1 + mi := by omega
  rw [hm1]
  have hfin : ∀ j k, j < i - 1 → j < k → k < pts.length →
      toLex (getP arr j) < toLex (getP arr k) := fun j k h1 => hsorted j k (by omega)
  split_ifs with h1 h2
  · exfalso
    have := getP_inj arr hnd' _ _ (by omega) (by omega) h2
    omega
  · refine ⟨rfl, ?_, ?_⟩
    · exact (swap_perm arr (i - 1) (i - 1 + mi) (by omega) (by omega) (by omega)).trans hperm
    · intro j k hj
      apply swap_sorted_step arr _ pts.length (i - 1) (i - 1 + mi) hlen (by omega) (by omega) hnd'
        hfin hmin' _ j k (by omega)
      intro k hk
      rw [getP_set _ _ _ _ (by simpa using (by omega : k < arr.length)),
        getP_set _ _ _ _ (by omega)]
  · refine ⟨rfl, hperm, ?_⟩
    have hmi0 : mi = 0 := by omega
    subst hmi0
    intro j k hj
    apply swap_sorted_step arr arr pts.length (i - 1) (i - 1) hlen le_rfl (by omega) hnd'
      hfin hmin' _ j k (by omega)
    intro k hk
    split_ifs with h3 <;> simp [h3]

theorem sortInPlaceOld_selInv (pts : List (Pt K)) (hnd : pts.Nodup) :
    SelInv pts (2 + (pts.length - 1)) (F90.sortInPlaceOld pts) := by
  unfold F90.sortInPlaceOld
  simp only
  apply foldl_range'_inv (SelInv pts)
  · by_cases hne : pts = []
    · subst hne
      refine ⟨rfl, ?_, ?_⟩
      · simp [minIndex_nil]
      · intro j k _ _ hk; simp at hk
    obtain ⟨hmi, hmin⟩ := minIndex_spec pts hne
    have hfin : ∀ j k, j < 0 → j < k → k < pts.length →
        toLex (getP pts j) < toLex (getP pts k) := fun j k h => absurd h (Nat.not_lt_zero _)
    split_ifs with hm
    · refine ⟨rfl, swap_perm pts 0 _ (by omega) hmi (Ne.symm hm), ?_⟩
      intro j k hj
      apply swap_sorted_step pts _ pts.length 0 (F90.minIndex pts) rfl (Nat.zero_le _) hmi hnd hfin
        (fun k _ hk => hmin k hk) _ j k (by omega)
      intro k hk
      rw [getP_set _ _ _ _ (by simpa using hk), getP_set _ _ _ _ hk]
    · refine ⟨rfl, List.Perm.refl _, ?_⟩
      intro j k hj
      have hm0 : F90.minIndex pts = 0 := not_not.1 hm
      apply swap_sorted_step pts pts pts.length 0 0 rfl le_rfl (by omega) hnd hfin
        (fun k _ hk => hm0 ▸ hmin k hk) _ j k (by omega)
      intro k hk
      split_ifs with h3 <;> simp [h3]
  · intro i st h1 h2 hst
    exact sortStepOld_selInv pts hnd i h1 (by omega) st hst

/-- on duplicate-free input the in-place selection sort returns the sorted list -/
theorem sortInPlaceOld_eq_of_nodup (pts : List (Pt K)) (hnd : pts.Nodup) :
    F90.sortInPlaceOld pts = (Py.sortUnique pts, pts.length) := by
  obtain ⟨h1, h2, h3⟩ := sortInPlaceOld_selInv pts hnd
  rcases hs : F90.sortInPlaceOld pts with ⟨arr, nu⟩
  rw [hs] at h1 h2 h3
  simp only at h1 h2 h3
  subst h1
  have hlen : arr.length = pts.length := h2.length_eq
  have hsorted : LexSorted arr := by
    unfold LexSorted
    rw [List.pairwise_iff_getElem]
    intro i j hi hj hij
    have := h3 i j (by omega) hij (by omega)
    rwa [getP_eq_getElem _ _ hi, getP_eq_getElem _ _ hj] at this
  have : arr = Py.sortUnique pts :=
    List.Perm.eq_of_pairwise (fun a b _ _ hab hba => absurd hab (lt_asymm hba)) hsorted
      (sortUnique_sorted pts) (h2.trans (sortUnique_perm pts hnd).symm)
  rw [this]

theorem convexHullOld_agree_of_nodup (pts : List (Pt K)) (hnd : pts.Nodup) :
    F90.convexHullOld pts = Py.convexHull pts := by
  have hlen : (Py.sortUnique pts).length = pts.length := (sortUnique_perm pts hnd).length_eq
  unfold F90.convexHullOld Py.convexHull
  rw [sortInPlaceOld_eq_of_nodup pts hnd]
  simp only
  rw [List.take_of_length_le (by omega), hlen]
  split_ifs
  · rfl
  · exact hullChain_variants_agree _

end SelSort

/-! ### the repaired `sort_in_place` sorts and deduplicates every input -/

section Repaired
variable {K : Type} [Field K] [LinearOrder K] [IsStrictOrderedRing K]

theorem getP_take (l : List (Pt K)) (c k : ℕ) (h : k < c) : getP (l.take c) k = getP l k := by
  simp [getP, List.getD_eq_getElem?_getD, h]

theorem mem_insertUnique_self (p : Pt K) : ∀ l : List (Pt K), p ∈ insertUnique p l
  | [] => by simp [insertUnique]
  | r :: rest => by
    unfold insertUnique
    split_ifs with h1 h2
    · simp
    · simp [h2]
    · exact List.mem_cons_of_mem _ (mem_insertUnique_self p rest)

theorem mem_insertUnique_of_mem (p : Pt K) : ∀ (l : List (Pt K)) (x : Pt K), x ∈ l →
    x ∈ insertUnique p l
  | [], x, h => by simp at h
  | r :: rest, x, h => by
    unfold insertUnique
    split_ifs with h1 h2
    · exact List.mem_cons_of_mem _ h
    · exact h
    · rcases List.mem_cons.1 h with rfl | h
      · simp
      · exact List.mem_cons_of_mem _ (mem_insertUnique_of_mem p rest x h)

theorem mem_sortUnique_iff (pts : List (Pt K)) (x : Pt K) : x ∈ Py.sortUnique pts ↔ x ∈ pts := by
  refine ⟨mem_sortUnique pts x, ?_⟩
  induction pts with
  | nil => intro h; simp at h
  | cons a pts ih =>
    intro h
    have h1 : Py.sortUnique (a :: pts) = insertUnique a (Py.sortUnique pts) := rfl
    rw [h1]
    rcases List.mem_cons.1 h with rfl | h
    · exact mem_insertUnique_self _ _
    · exact mem_insertUnique_of_mem _ _ _ (ih h)

/-- a strictly lex-increasing list is determined by its set of elements -/
theorem lexSorted_ext (l₁ l₂ : List (Pt K)) (h₁ : LexSorted l₁) (h₂ : LexSorted l₂)
    (h : ∀ x, x ∈ l₁ ↔ x ∈ l₂) : l₁ = l₂ := by
  have nd : ∀ l : List (Pt K), LexSorted l → l.Nodup := fun l hl =>
    List.Pairwise.imp (fun {a b} hab he => by rw [he] at hab; exact lt_irrefl _ hab) hl
  exact List.Perm.eq_of_pairwise (fun a b _ _ hab hba => absurd hab (lt_asymm hba)) h₁ h₂
    ((List.perm_ext_iff_of_nodup (nd l₁ h₁) (nd l₂ h₂)).2 h)

/-- `arr'` is `arr` with the entries at positions `a` and `m` exchanged (read-out below `n`) -/
def Swapped (arr arr' : List (Pt K)) (a m n : ℕ) : Prop :=
  arr'.length = arr.length ∧ ∀ k, k < n → getP arr' k =
    if a = k then getP arr m else if m = k then getP arr a else getP arr k

theorem swapped_refl (arr : List (Pt K)) (a n : ℕ) : Swapped arr arr a a n := by
  refine ⟨rfl, fun k hk => ?_⟩
  split_ifs with h <;> simp [h]

theorem swapped_set (arr : List (Pt K)) (a m : ℕ) (ha : a < arr.length) (hm : m < arr.length) :
    Swapped arr ((arr.set m (getP arr a)).set a (getP arr m)) a m arr.length := by
  refine ⟨by simp, fun k hk => ?_⟩
  rw [getP_set _ _ _ _ (by simpa using hk), getP_set _ _ _ _ hk]

theorem swapped_mem_iff (arr arr' : List (Pt K)) (a m n nu : ℕ) (h : Swapped arr arr' a m n)
    (ha : a < nu) (hm : m < nu) (hnu : nu ≤ n) (x : Pt K) :
    (∃ k, k < nu ∧ getP arr' k = x) ↔ (∃ k, k < nu ∧ getP arr k = x) := by
  obtain ⟨_, h'⟩ := h
  constructor
  · rintro ⟨k, hk, rfl⟩
    rw [h' k (by omega)]
    split_ifs with h1 h2
    · exact ⟨m, hm, rfl⟩
    · exact ⟨a, ha, rfl⟩
    · exact ⟨k, hk, rfl⟩
  · rintro ⟨k, hk, rfl⟩
    by_cases h1 : a = k
    · subst h1
      refine ⟨m, hm, ?_⟩
      rw [h' m (by omega)]
      split_ifs with h2 h3
      · rw [h2]
      · rfl
      · exact absurd rfl h3
    · by_cases h2 : m = k
      · subst h2
        refine ⟨a, ha, ?_⟩
        rw [h' a (by omega), if_pos rfl]
      · refine ⟨k, hk, ?_⟩
        rw [h' k (by omega), if_neg h1, if_neg h2]

/-- invariant of the repaired `sort_in_place` loop in state `(arr, nu, i)` (`i` 1-based):
    slots `1 … i-1` are strictly increasing, slots `i … nu` are `≥` slot `i-1`, and the first `nu`
    slots carry exactly the input points -/
def RepInv (pts arr : List (Pt K)) (nu i : ℕ) : Prop :=
  arr.length = pts.length ∧ 2 ≤ i ∧ i ≤ nu + 1 ∧ nu ≤ pts.length ∧
  (∀ j k, j < k → k + 1 < i → toLex (getP arr j) < toLex (getP arr k)) ∧
  (∀ k, i ≤ k + 1 → k < nu → toLex (getP arr (i - 2)) ≤ toLex (getP arr k)) ∧
  (∀ x, x ∈ pts ↔ ∃ k, k < nu ∧ getP arr k = x)

/-- a duplicate of slot `i-1` is moved past the end -/
theorem repInv_dup (pts arr arr' : List (Pt K)) (nu i m : ℕ) (h : RepInv pts arr nu i)
    (hle : i ≤ nu) (hm1 : i - 1 ≤ m) (hm2 : m < nu) (hdup : getP arr m = getP arr (i - 2))
    (hsw : Swapped arr arr' (nu - 1) m pts.length) : RepInv pts arr' (nu - 1) i := by
  obtain ⟨hlen, hi2, hinu, hnun, hsorted, hge, hmem⟩ := h
  obtain ⟨hlen', h'⟩ := hsw
  refine ⟨by omega, hi2, by omega, by omega, ?_, ?_, ?_⟩
  · intro j k hjk hk
    rw [h' j (by omega), h' k (by omega), if_neg (by omega), if_neg (by omega), if_neg (by omega),
      if_neg (by omega)]
    exact hsorted j k hjk hk
  · intro k hk1 hk2
    rw [h' (i - 2) (by omega), if_neg (by omega), if_neg (by omega), h' k (by omega),
      if_neg (by omega)]
    split_ifs with h1
    · exact hge (nu - 1) (by omega) (by omega)
    · exact hge k hk1 (by omega)
  · intro x
    rw [hmem x]
    have hkeep : getP arr' (i - 2) = getP arr (i - 2) := by
      rw [h' (i - 2) (by omega), if_neg (by omega), if_neg (by omega)]
    constructor
    · rintro ⟨k, hk, rfl⟩
      by_cases h1 : m = k
      · subst h1
        exact ⟨i - 2, by omega, by rw [hkeep, hdup]⟩
      · by_cases h2 : nu - 1 = k
        · subst h2
          refine ⟨m, by omega, ?_⟩
          rw [h' m (by omega), if_neg (by omega), if_pos rfl]
        · refine ⟨k, by omega, ?_⟩
          rw [h' k (by omega), if_neg h2, if_neg h1]
    · rintro ⟨k, hk, rfl⟩
      rw [h' k (by omega), if_neg (by omega)]
      split_ifs with h1
      · exact ⟨nu - 1, by omega, rfl⟩
      · exact ⟨k, by omega, rfl⟩

/-- a new smallest element is swapped into slot `i` -/
theorem repInv_place (pts arr arr' : List (Pt K)) (nu i m : ℕ) (h : RepInv pts arr nu i)
    (hle : i ≤ nu) (hm1 : i - 1 ≤ m) (hm2 : m < nu) (hnew : getP arr m ≠ getP arr (i - 2))
    (hmin : ∀ k, i - 1 ≤ k → k < nu → toLex (getP arr m) ≤ toLex (getP arr k))
    (hsw : Swapped arr arr' (i - 1) m pts.length) : RepInv pts arr' nu (i + 1) := by
  obtain ⟨hlen, hi2, hinu, hnun, hsorted, hge, hmem⟩ := h
  have hmemiff := swapped_mem_iff arr arr' (i - 1) m pts.length nu hsw (by omega) hm2 hnun
  obtain ⟨hlen', h'⟩ := hsw
  have hlt : toLex (getP arr (i - 2)) < toLex (getP arr m) :=
    lt_of_le_of_ne (hge m (by omega) hm2) (fun he => hnew (toLex_inj.1 he).symm)
  refine ⟨by omega, by omega, by omega, hnun, ?_, ?_, ?_⟩
  · intro j k hjk hk
    rw [h' j (by omega), h' k (by omega), if_neg (by omega), if_neg (by omega)]
    by_cases hk1 : i - 1 = k
    · rw [if_pos hk1]
      by_cases hj : j = i - 2
      · rw [hj]; exact hlt
      · exact lt_trans (hsorted j (i - 2) (by omega) (by omega)) hlt
    · rw [if_neg hk1, if_neg (by omega)]
      exact hsorted j k hjk (by omega)
  · intro k hk1 hk2
    rw [show i + 1 - 2 = i - 1 by omega, h' (i - 1) (by omega), if_pos rfl, h' k (by omega),
      if_neg (by omega)]
    split_ifs with h1
    · exact hmin (i - 1) le_rfl (by omega)
    · exact hmin k (by omega) hk2
  · intro x
    rw [hmem x, hmemiff x]

/-- the loop state as a triple -/
def RepInv' (pts : List (Pt K)) (st : List (Pt K) × ℕ × ℕ) : Prop :=
  RepInv pts st.1 st.2.1 st.2.2

theorem sortStep_repInv (pts : List (Pt K)) (st : List (Pt K) × ℕ × ℕ) (h : RepInv' pts st) :
    RepInv' pts (F90.sortStep st) ∧
      (F90.sortStep st).2.1 + 1 - (F90.sortStep st).2.2 ≤ st.2.1 + 1 - st.2.2 - 1 := by
  obtain ⟨arr, nu, i⟩ := st
  unfold RepInv' at h ⊢
  simp only at h
  have h0 := h
  obtain ⟨hlen, hi2, hinu, hnun, hsorted, hge, hmem⟩ := h0
  unfold F90.sortStep
  simp only
  by_cases hle : i ≤ nu
  · rw [if_pos hle]
    have hsll : ((arr.drop (i - 1)).take (nu + 1 - i)).length = nu + 1 - i := by
      simp only [List.length_take, List.length_drop]; omega
    have hne : (arr.drop (i - 1)).take (nu + 1 - i) ≠ [] := by
      apply List.ne_nil_of_length_pos; omega
    obtain ⟨hmi, hmin⟩ := minIndex_spec _ hne
    rw [hsll] at hmi hmin
    rw [getP_take _ _ _ hmi, getP_drop] at hmin
    generalize F90.minIndex ((arr.drop (i - 1)).take (nu + 1 - i)) = mi at hmi hmin ⊢
    have hmin' : ∀ k, i - 1 ≤ k → k < nu →
        toLex (getP arr (i - 1 + mi)) ≤ toLex (getP arr k) := by
      intro k h1 h2
      have := hmin (k - (i - 1)) (by omega)
      rwa [getP_take _ _ _ (by omega), getP_drop, show i - 1 + (k - (i - 1)) = k by omega] at this
    have hm1 : mi + 1 + i - 1 - 1 = i - 1 + mi := by omega
    rw [hm1]
    by_cases hdup : getP arr (i - 1 + mi) = getP arr (i - 2)
    · rw [if_pos hdup]
      simp only
      refine ⟨?_, by omega⟩
      apply repInv_dup pts arr _ nu i (i - 1 + mi) h hle (by omega) (by omega) hdup
      rw [← hlen]
      exact swapped_set arr (nu - 1) (i - 1 + mi) (by omega) (by omega)
    · rw [if_neg hdup]
      simp only
      refine ⟨?_, by omega⟩
      apply repInv_place pts arr _ nu i (i - 1 + mi) h hle (by omega) (by omega) hdup hmin'
      by_cases hmatch : mi + 1 + i - 1 ≠ i
      · rw [if_pos hmatch, ← hlen]
        exact swapped_set arr (i - 1) (i - 1 + mi) (by omega) (by omega)
      · rw [if_neg hmatch]
        have : i - 1 + mi = i - 1 := by omega
        rw [this]
        exact swapped_refl arr (i - 1) _
  · rw [if_neg hle]
    exact ⟨h, by simp only; omega⟩

theorem iter_sortStep_repInv (pts : List (Pt K)) : ∀ (f : ℕ) (st : List (Pt K) × ℕ × ℕ),
    RepInv' pts st → st.2.1 + 1 - st.2.2 ≤ f →
    RepInv' pts (iter F90.sortStep f st) ∧
      (iter F90.sortStep f st).2.2 = (iter F90.sortStep f st).2.1 + 1
  | 0, st, h, hf => by
    refine ⟨h, ?_⟩
    have := h.2.2.1
    simp only [iter]
    omega
  | f + 1, st, h, hf => by
    obtain ⟨h1, h2⟩ := sortStep_repInv pts st h
    exact iter_sortStep_repInv pts f (F90.sortStep st) h1 (by omega)

/-- the repaired `sort_in_place` sorts and deduplicates: the first `num_uniques` columns are the
    distinct input points in lexicographic order -/
theorem sortInPlace_spec (pts : List (Pt K)) :
    (F90.sortInPlace pts).1.take (F90.sortInPlace pts).2 = Py.sortUnique pts ∧
    (F90.sortInPlace pts).2 = (Py.sortUnique pts).length := by
  by_cases hne : pts = []
  · subst hne
    simp [F90.sortInPlace, minIndex_nil, iter, Py.sortUnique]
  have hpos : 0 < pts.length := List.length_pos_iff.2 hne
  obtain ⟨hmi, hmin⟩ := minIndex_spec pts hne
  have hsw : Swapped pts (if F90.minIndex pts ≠ 0
      then (pts.set (F90.minIndex pts) (getP pts 0)).set 0 (getP pts (F90.minIndex pts))
      else pts) 0 (F90.minIndex pts) pts.length := by
    split_ifs with hm
    · exact swapped_set pts 0 _ hpos hmi
    · rw [not_not.1 hm]; exact swapped_refl pts 0 _
  generalize hp0 : (if F90.minIndex pts ≠ 0
      then (pts.set (F90.minIndex pts) (getP pts 0)).set 0 (getP pts (F90.minIndex pts))
      else pts) = pts0 at hsw
  have hinit : RepInv' pts (pts0, pts.length, 2) := by
    have hmemiff := swapped_mem_iff pts pts0 0 (F90.minIndex pts) pts.length pts.length hsw hpos hmi
      le_rfl
    obtain ⟨hlen', h'⟩ := hsw
    show RepInv pts pts0 pts.length 2
    refine ⟨hlen', le_rfl, by omega, le_rfl, ?_, ?_, ?_⟩
    · intro j k hjk hk; omega
    · intro k hk1 hk2
      rw [h' 0 hpos, if_pos rfl, h' k hk2, if_neg (by omega)]
      split_ifs with h1
      · exact hmin 0 hpos
      · exact hmin k hk2
    · intro x
      rw [hmemiff x]
      constructor
      · intro hx
        obtain ⟨k, hk, hkx⟩ := List.mem_iff_getElem.1 hx
        exact ⟨k, hk, by rw [getP_eq_getElem _ _ hk, hkx]⟩
      · rintro ⟨k, hk, rfl⟩
        exact getP_mem _ _ hk
  obtain ⟨hinv, hexit⟩ := iter_sortStep_repInv pts (pts.length - 1) _ hinit (by simp only; omega)
  have hsip : F90.sortInPlace pts =
      ((iter F90.sortStep (pts.length - 1) (pts0, pts.length, 2)).1,
       (iter F90.sortStep (pts.length - 1) (pts0, pts.length, 2)).2.1) := by
    unfold F90.sortInPlace
    simp only
    rw [hp0]
  rw [hsip]
  generalize iter F90.sortStep (pts.length - 1) (pts0, pts.length, 2) = r at hinv hexit ⊢
  obtain ⟨arr, nu, i⟩ := r
  unfold RepInv' at hinv
  simp only at hinv hexit ⊢
  obtain ⟨hlen, hi2, hinu, hnun, hsorted, hge, hmem⟩ := hinv
  subst hexit
  have hmemtake : ∀ x, x ∈ arr.take nu ↔ ∃ k, k < nu ∧ getP arr k = x := by
    intro x
    rw [List.mem_take_iff_getElem]
    constructor
    · rintro ⟨k, hk, rfl⟩
      have hk' : k < nu ∧ k < arr.length := by
        rw [Nat.lt_min] at hk; exact hk
      exact ⟨k, hk'.1, getP_eq_getElem _ _ hk'.2⟩
    · rintro ⟨k, hk, rfl⟩
      have hk' : k < arr.length := by omega
      exact ⟨k, by rw [Nat.lt_min]; exact ⟨hk, hk'⟩, (getP_eq_getElem _ _ hk').symm⟩
  have hs : LexSorted (arr.take nu) := by
    unfold LexSorted
    rw [List.pairwise_iff_getElem]
    intro a b ha hb hab
    simp only [List.length_take] at ha hb
    have := hsorted a b hab (by omega)
    rw [getP_eq_getElem _ _ (by omega), getP_eq_getElem _ _ (by omega)] at this
    simpa [List.getElem_take] using this
  have heq : arr.take nu = Py.sortUnique pts := by
    apply lexSorted_ext _ _ hs (sortUnique_sorted pts)
    intro x
    rw [hmemtake x, mem_sortUnique_iff, hmem x]
  refine ⟨heq, ?_⟩
  rw [← heq, List.length_take]
  omega

theorem convexHull_variants_agree (pts : List (Pt K)) :
    F90.convexHull pts = Py.convexHull pts := by
  obtain ⟨h1, h2⟩ := sortInPlace_spec pts
  unfold F90.convexHull Py.convexHull
  rcases hs : F90.sortInPlace pts with ⟨arr, nu⟩
  rw [hs] at h1 h2
  simp only at h1 h2 ⊢
  rw [h1, h2]
  split_ifs
  · rfl
  · exact hullChain_variants_agree _

end Repaired

end BezierVerif.PredicatesHull
