import BezierVerif.Model.Protocol

/-!
# Lemmas/Protocol — helper lemmas about the hidden-state machine of `Model/Protocol` (core Lean only)
-/

namespace BezierVerif.Model.Protocol

open BezierVerif.Model

/-! ### prefix writes -/

theorem writePrefix_length {α : Type} (xs buf : List α) :
    (writePrefix xs buf).length = max xs.length buf.length := by
  simp [writePrefix]; omega

theorem take_writePrefix {α : Type} (xs buf : List α) :
    (writePrefix xs buf).take xs.length = xs := by
  simp [writePrefix]

theorem writePrefix_length_of_le {α : Type} (xs buf : List α) (h : xs.length ≤ buf.length) :
    (writePrefix xs buf).length = buf.length := by
  rw [writePrefix_length]; omega

/-! ### the status tables -/

theorem curveAction_success : curveAction stSuccess = .ret := by decide
theorem curveAction_insufficient : curveAction stInsufficientSpace = .resize := by decide
theorem triangleAction_success : triangleAction stSuccess = .ret := by decide
theorem triangleAction_insufficient : triangleAction stInsufficientSpace = .resize := by decide

theorem curveAction_cases (s : Int) :
    (s = stSuccess ∧ curveAction s = .ret) ∨ (s = stInsufficientSpace ∧ curveAction s = .resize) ∨
    (s ≠ stSuccess ∧ s ≠ stInsufficientSpace ∧ ∃ e, curveAction s = .raise e) := by
  by_cases h0 : s = 0
  · subst h0; exact Or.inl ⟨rfl, by decide⟩
  by_cases h3 : s = 3
  · subst h3; exact Or.inr (Or.inl ⟨rfl, by decide⟩)
  refine Or.inr (Or.inr ⟨h0, h3, ?_⟩)
  by_cases h2 : s = 2
  · subst h2; exact ⟨_, rfl⟩
  by_cases h1 : s = 1
  · subst h1; exact ⟨_, rfl⟩
  refine ⟨.notImplemented, ?_⟩
  have e0 : (s == (0 : Int)) = false := by simpa using h0
  have e1 : (s == (1 : Int)) = false := by simpa using h1
  have e2 : (s == (2 : Int)) = false := by simpa using h2
  have e3 : (s == (3 : Int)) = false := by simpa using h3
  simp [curveAction, actionOf, curveTable, curveElse, List.lookup, stSuccess, stNoConverge,
    stInsufficientSpace, stBadMultiplicity, e0, e1, e2, e3]

theorem triangleAction_cases (s : Int) :
    (s = stSuccess ∧ triangleAction s = .ret) ∨ (s = stInsufficientSpace ∧ triangleAction s = .resize) ∨
    (s ≠ stSuccess ∧ s ≠ stInsufficientSpace ∧ ∃ e, triangleAction s = .raise e) := by
  by_cases h0 : s = 0
  · subst h0; exact Or.inl ⟨rfl, by decide⟩
  by_cases h3 : s = 3
  · subst h3; exact Or.inr (Or.inl ⟨rfl, by decide⟩)
  refine Or.inr (Or.inr ⟨h0, h3, ?_⟩)
  by_cases h2 : s = 2
  · subst h2; exact ⟨_, rfl⟩
  by_cases h1 : s = 1
  · subst h1; exact ⟨_, rfl⟩
  by_cases h6 : s = 6
  · subst h6; exact ⟨_, rfl⟩
  by_cases h4 : s = 4
  · subst h4; exact ⟨_, rfl⟩
  by_cases h5 : s = 5
  · subst h5; exact ⟨_, rfl⟩
  by_cases h9 : s = 999
  · subst h9; exact ⟨_, rfl⟩
  refine ⟨.notImplemented, ?_⟩
  have e0 : (s == (0 : Int)) = false := by simpa using h0
  have e1 : (s == (1 : Int)) = false := by simpa using h1
  have e2 : (s == (2 : Int)) = false := by simpa using h2
  have e3 : (s == (3 : Int)) = false := by simpa using h3
  have e4 : (s == (4 : Int)) = false := by simpa using h4
  have e5 : (s == (5 : Int)) = false := by simpa using h5
  have e6 : (s == (6 : Int)) = false := by simpa using h6
  have e9 : (s == (999 : Int)) = false := by simpa using h9
  simp [triangleAction, actionOf, triangleTable, triangleElse, List.lookup, stSuccess, stNoConverge,
    stInsufficientSpace, stBadMultiplicity, stEdgeEnd, stSameCurvature, stBadInterior, stUnknown,
    e0, e1, e2, e3, e4, e5, e6, e9]

/-! ### `add_intersection` reads only what the same call wrote -/

theorem take_succ_set {α : Type} (b : List α) (n : Nat) (x : α) (h : n < b.length) :
    (b.set n x).take (n + 1) = b.take n ++ [x] := by
  induction b generalizing n with
  | nil => simp at h
  | cons a t ih =>
    cases n with
    | zero => simp
    | succ m =>
      have hm : m < t.length := by simpa using h
      simp [List.set, ih m hm]

/-- one `add_intersection` on two buffers that agree on the cells written so far -/
theorem addIntersection_step {Out : Type} (dup : Out → Out → Bool) (x : Out) (n : Nat) (b b' : List Out)
    (hb : n ≤ b.length) (hb' : n ≤ b'.length) (heq : b.take n = b'.take n) :
    (addIntersection dup (n, b) x).1 = (addIntersection dup (n, b') x).1 ∧
    (addIntersection dup (n, b) x).1 ≤ (addIntersection dup (n, b) x).2.length ∧
    (addIntersection dup (n, b') x).1 ≤ (addIntersection dup (n, b') x).2.length ∧
    (addIntersection dup (n, b) x).2.take (addIntersection dup (n, b) x).1 =
      (addIntersection dup (n, b') x).2.take (addIntersection dup (n, b) x).1 ∧
    (addIntersection dup (n, b) x).2.length = max b.length (addIntersection dup (n, b) x).1 ∧
    n ≤ (addIntersection dup (n, b) x).1 := by
  have key : ∀ c : List Out, n ≤ c.length →
      (if n < c.length then c.set n x else c.take n ++ [x]).take (n + 1) = c.take n ++ [x] ∧
      (if n < c.length then c.set n x else c.take n ++ [x]).length = max c.length (n + 1) := by
    intro c hc
    by_cases hlt : n < c.length
    · simp only [hlt, if_true]
      refine ⟨take_succ_set c n x hlt, ?_⟩
      simp; omega
    · have hn : n = c.length := by omega
      simp only [hlt, if_false]
      subst hn
      refine ⟨?_, by simp⟩
      rw [List.take_length]
      exact List.take_of_length_le (by simp)
  have hcond : ((b'.take n).any fun y => dup x y) = ((b.take n).any fun y => dup x y) := by rw [heq]
  by_cases hd : ((b.take n).any fun y => dup x y) = true
  · have hA : addIntersection dup (n, b) x = (n, b) := by simp [addIntersection, hd]
    have hA' : addIntersection dup (n, b') x = (n, b') := by
      have hd' := hd; rw [← hcond] at hd'; simp [addIntersection, hd']
    rw [hA, hA']
    exact ⟨rfl, hb, hb', heq, by simp; omega, Nat.le_refl _⟩
  · have hd' := hd; rw [← hcond] at hd'
    have hA : addIntersection dup (n, b) x =
        (n + 1, if n < b.length then b.set n x else b.take n ++ [x]) := by
      unfold addIntersection
      by_cases hlt : n < b.length <;> simp [hd, hlt]
    have hA' : addIntersection dup (n, b') x =
        (n + 1, if n < b'.length then b'.set n x else b'.take n ++ [x]) := by
      unfold addIntersection
      by_cases hlt : n < b'.length <;> simp [hd', hlt]
    have k1 := key b hb
    have k2 := key b' hb'
    rw [hA, hA']
    refine ⟨rfl, ?_, ?_, ?_, ?_, Nat.le_succ _⟩
    · show n + 1 ≤ _; rw [k1.2]; omega
    · show n + 1 ≤ _; rw [k2.2]; omega
    · show List.take (n + 1) _ = List.take (n + 1) _; rw [k1.1, k2.1, heq]
    · exact k1.2

/-- the whole fold, on two buffers that agree on the cells written so far -/
theorem addFold_inv {Out : Type} (dup : Out → Out → Bool) (found : List Out) :
    ∀ (n : Nat) (b b' : List Out), n ≤ b.length → n ≤ b'.length → b.take n = b'.take n →
    (found.foldl (addIntersection dup) (n, b)).1 = (found.foldl (addIntersection dup) (n, b')).1 ∧
    (found.foldl (addIntersection dup) (n, b)).1 ≤ (found.foldl (addIntersection dup) (n, b)).2.length ∧
    (found.foldl (addIntersection dup) (n, b)).2.take (found.foldl (addIntersection dup) (n, b)).1 =
      (found.foldl (addIntersection dup) (n, b')).2.take (found.foldl (addIntersection dup) (n, b)).1 ∧
    (found.foldl (addIntersection dup) (n, b)).2.length =
      max b.length (found.foldl (addIntersection dup) (n, b)).1 ∧
    n ≤ (found.foldl (addIntersection dup) (n, b)).1 := by
  induction found with
  | nil => intro n b b' hb hb' heq; exact ⟨rfl, hb, heq, by simp; omega, Nat.le_refl _⟩
  | cons x xs ih =>
    intro n b b' hb hb' heq
    have st := addIntersection_step dup x n b b' hb hb' heq
    simp only [List.foldl_cons]
    generalize hA : addIntersection dup (n, b) x = A at st
    generalize hA' : addIntersection dup (n, b') x = A' at st
    obtain ⟨n1, b1⟩ := A
    obtain ⟨n1', b1'⟩ := A'
    simp only at st
    obtain ⟨e1, l1, l1', t1, len1, mono1⟩ := st
    subst e1
    have r := ih n1 b1 b1' l1 l1' t1
    obtain ⟨r1, r2, r3, r4, r5⟩ := r
    refine ⟨r1, r2, r3, ?_, Nat.le_trans mono1 r5⟩
    rw [r4, len1]; omega

/-- NON-INTERFERENCE on the Fortran side: whatever `INTERSECTIONS_WORKSPACE` held (any capacity, any
contents), the call reports the same count and leaves the same columns in the first cells; the capacity
becomes the maximum of the old one and the count. -/
theorem fortranCurve_spec {Out : Type} (dup : Out → Out → Bool) (r : CurveRes Out) (buf : List Out) :
    (fortranCurve dup r buf).1 = (curveOuts dup r).length ∧
    (fortranCurve dup r buf).2.take (curveOuts dup r).length = curveOuts dup r ∧
    (fortranCurve dup r buf).2.length = max buf.length (curveOuts dup r).length := by
  unfold curveOuts fortranCurve
  by_cases hd : r.direct = true
  · simp only [hd, if_true]
    have e : writePrefix r.found ([] : List Out) = r.found := by simp [writePrefix]
    rw [e]
    exact ⟨rfl, take_writePrefix _ _, by rw [writePrefix_length]; omega⟩
  · simp only [hd]
    have a := addFold_inv dup r.found 0 buf [] (Nat.zero_le _) (Nat.zero_le _) (by simp)
    have a0 := addFold_inv dup r.found 0 [] [] (Nat.zero_le _) (Nat.zero_le _) rfl
    obtain ⟨a1, a2, a3, a4, _⟩ := a
    obtain ⟨_, b2, _, b4, _⟩ := a0
    have hl : (r.found.foldl (addIntersection dup) (0, ([] : List Out))).2.length =
        (r.found.foldl (addIntersection dup) (0, ([] : List Out))).1 := by
      rw [b4]; simp
    simp only [Bool.false_eq_true, if_false]
    refine ⟨by rw [hl, a1], ?_, by rw [hl, ← a1]; exact a4⟩
    rw [hl, ← a1, a3, a1, ← hl, List.take_length]

/-- one pass through the body of `curve_intersections` -/
theorem curveAttempt_spec {Out Seg : Type} (dup : Out → Out → Bool) (r : CurveRes Out)
    (hs : r.status ≠ stInsufficientSpace) (h : Hidden Out Seg) :
    (curveAttempt dup r h).2.segEnds = h.segEnds ∧ (curveAttempt dup r h).2.segs = h.segs ∧
    (curveAttempt dup r h).2.fSegEnds = h.fSegEnds ∧ (curveAttempt dup r h).2.fSegs = h.fSegs ∧
    (curveAttempt dup r h).2.allocs = h.allocs ∧
    (curveAttempt dup r h).2.fInter.length = max h.fInter.length (curveOuts dup r).length ∧
    (curveAttempt dup r h).2.curves.length = h.curves.length ∧
    (if r.status = stSuccess ∧ h.curves.length < (curveOuts dup r).length
      then (curveAttempt dup r h).1 = .tooSmall (curveOuts dup r).length
      else (curveAttempt dup r h).1 = .done (pureCurve dup r)) := by
  obtain ⟨f1, f2, f3⟩ := fortranCurve_spec dup r h.fInter
  rcases curveAction_cases r.status with ⟨h0, _⟩ | ⟨h3, _⟩ | ⟨h0, _, e, he⟩
  · by_cases hlt : h.curves.length < (curveOuts dup r).length
    · simp [curveAttempt, curveABI, h0, f1, f3, hlt, curveAction_insufficient]
    · have hle : (curveOuts dup r).length ≤ h.curves.length := by omega
      simp [curveAttempt, curveABI, h0, f1, f2, f3, hlt, curveAction_success, pureCurve,
        writePrefix_length_of_le, hle, take_writePrefix]
  · exact absurd h3 hs
  · simp [curveAttempt, curveABI, h0, f1, f3, he, pureCurve]

theorem curveNeed_eq {Out : Type} (dup : Out → Out → Bool) (r : CurveRes Out) :
    curveNeed dup r = if r.status = stSuccess then (curveOuts dup r).length else 0 := rfl

/-- `curve_intersections(…, allow_resize=False)` on a workspace that is large enough -/
theorem curveCallN_zero_fits {Out Seg : Type} (dup : Out → Out → Bool) (j : Junk Out Seg) (r : CurveRes Out)
    (hs : r.status ≠ stInsufficientSpace) (h : Hidden Out Seg)
    (hfit : ¬ (r.status = stSuccess ∧ h.curves.length < (curveOuts dup r).length)) (k : Nat) :
    curveCallN dup j r k h = (pureCurve dup r, (curveAttempt dup r h).2) := by
  have A := curveAttempt_spec dup r hs h
  obtain ⟨_, _, _, _, _, _, _, a8⟩ := A
  rw [if_neg hfit] at a8
  generalize hA : curveAttempt dup r h = A at a8
  obtain ⟨a1, a2⟩ := A
  simp only at a8
  subst a8
  cases k <;> simp [curveCallN, hA]

/-- the full wrapper: result, sizes, frame, number of resizes -/
theorem curveCall_spec {Out Seg : Type} (dup : Out → Out → Bool) (j : Junk Out Seg) (r : CurveRes Out)
    (hs : r.status ≠ stInsufficientSpace) (h : Hidden Out Seg) :
    (curveCall dup j r h).1 = pureCurve dup r ∧
    (curveCall dup j r h).2.curves.length = max h.curves.length (curveNeed dup r) ∧
    (curveCall dup j r h).2.segEnds = h.segEnds ∧ (curveCall dup j r h).2.segs = h.segs ∧
    (curveCall dup j r h).2.fSegEnds = h.fSegEnds ∧ (curveCall dup j r h).2.fSegs = h.fSegs ∧
    (curveCall dup j r h).2.fInter.length = max h.fInter.length (curveOuts dup r).length ∧
    h.allocs ≤ (curveCall dup j r h).2.allocs ∧ (curveCall dup j r h).2.allocs ≤ h.allocs + 1 := by
  have A := curveAttempt_spec dup r hs h
  obtain ⟨a1, a2, a3, a4, a5, a6, a7, a8⟩ := A
  by_cases hc : r.status = stSuccess ∧ h.curves.length < (curveOuts dup r).length
  · -- one resize, then the retry fits
    rw [if_pos hc] at a8
    have hcall : curveCall dup j r h =
        curveCallN dup j r 0 (resetCurves j (curveOuts dup r).length (curveAttempt dup r h).2) := by
      generalize hA : curveAttempt dup r h = A at a8
      obtain ⟨x1, x2⟩ := A
      simp only at a8
      subst a8
      simp [curveCall, curveCallN, hA]
    have hfit : ¬ (r.status = stSuccess ∧
        (resetCurves j (curveOuts dup r).length (curveAttempt dup r h).2).curves.length <
          (curveOuts dup r).length) := by
      simp [resetCurves]
    rw [hcall, curveCallN_zero_fits dup j r hs _ hfit 0]
    have B := curveAttempt_spec dup r hs (resetCurves j (curveOuts dup r).length (curveAttempt dup r h).2)
    obtain ⟨b1, b2, b3, b4, b5, b6, b7, _⟩ := B
    refine ⟨rfl, ?_, ?_, ?_, ?_, ?_, ?_, ?_, ?_⟩
    · rw [b7, curveNeed_eq, if_pos hc.1]; simp [resetCurves]; omega
    · rw [b1]; simpa [resetCurves] using a1
    · rw [b2]; simpa [resetCurves] using a2
    · rw [b3]; simpa [resetCurves] using a3
    · rw [b4]; simpa [resetCurves] using a4
    · rw [b6]; simp [resetCurves, a6]
    · rw [b5]; simp [resetCurves, a5]
    · rw [b5]; simp [resetCurves, a5]
  · rw [if_neg hc] at a8
    have hcall : curveCall dup j r h = (pureCurve dup r, (curveAttempt dup r h).2) :=
      curveCallN_zero_fits dup j r hs h hc 1
    rw [hcall]
    refine ⟨rfl, ?_, a1, a2, a3, a4, a6, by rw [a5]; exact Nat.le_refl _, by rw [a5]; omega⟩
    show (curveAttempt dup r h).2.curves.length = _
    rw [a7, curveNeed_eq]
    by_cases h0 : r.status = stSuccess
    · rw [if_pos h0]
      have : ¬ h.curves.length < (curveOuts dup r).length := fun hl => hc ⟨h0, hl⟩
      omega
    · rw [if_neg h0]; omega

/-! ### segment ends and the polygon rebuild loop -/

theorem cumEnds_length {Seg : Type} (ps : List (List Seg)) : ∀ acc, (cumEnds acc ps).length = ps.length := by
  induction ps with
  | nil => intro acc; rfl
  | cons p ps ih => intro acc; simp [cumEnds, ih]

/-- the last entry of `segment_ends` is the total number of segments -/
theorem cumEnds_last {Seg : Type} (ps : List (List Seg)) :
    ∀ acc, ps ≠ [] → (cumEnds acc ps).getD (ps.length - 1) 0 = acc + ps.flatten.length := by
  induction ps with
  | nil => intro acc h; exact absurd rfl h
  | cons p ps ih =>
    intro acc _
    cases ps with
    | nil => simp [cumEnds]
    | cons q qs =>
      have := ih (acc + p.length) (by simp)
      simp only [List.length_cons, Nat.add_sub_cancel] at this
      simp only [cumEnds, List.length_cons, Nat.add_sub_cancel, List.flatten_cons, List.length_append]
      simp only [cumEnds, List.flatten_cons, List.length_append] at this
      rw [List.getD_cons_succ, this]; omega

/-- the loop of `_triangle_intersections_success` inverts the (ends, flat segments) encoding -/
theorem rebuildFrom_cumEnds {Seg : Type} (segs : List Seg) (ps : List (List Seg)) :
    ∀ (acc : Nat) (rest : List Seg), segs.drop acc = ps.flatten ++ rest →
      rebuildFrom segs acc (cumEnds acc ps) = ps := by
  induction ps with
  | nil => intro acc rest _; rfl
  | cons p ps ih =>
    intro acc rest hd
    simp only [cumEnds, rebuildFrom]
    have h1 : (segs.drop acc).take (acc + p.length - acc) = p := by
      rw [hd, Nat.add_sub_cancel_left]; simp
    have h2 : segs.drop (acc + p.length) = ps.flatten ++ rest := by
      rw [← List.drop_drop, hd]; simp [List.append_assoc]
    rw [h1, ih (acc + p.length) rest h2]

theorem getD_writePrefix_lt {α : Type} (xs buf : List α) (i : Nat) (d : α) (h : i < xs.length) :
    (writePrefix xs buf).getD i d = xs.getD i d := by
  simp [writePrefix, List.getD_eq_getElem?_getD, List.getElem?_append_left h]

theorem flatten_length_zero_of_length_zero {α : Type} (ps : List (List α)) (h : ps.length = 0) :
    ps.flatten.length = 0 := by
  cases ps with
  | nil => rfl
  | cons _ _ => simp at h

/-- one pass through the body of `triangle_intersections` -/
theorem triangleAttempt_spec {Out Seg : Type} (r : TriRes Seg) (hs : r.status ≠ stInsufficientSpace)
    (h : Hidden Out Seg) :
    (triangleAttempt r h).2.curves = h.curves ∧ (triangleAttempt r h).2.fInter = h.fInter ∧
    (triangleAttempt r h).2.allocs = h.allocs ∧
    (triangleAttempt r h).2.fSegEnds.length = max h.fSegEnds.length r.polys.length ∧
    (triangleAttempt r h).2.fSegs.length = max h.fSegs.length r.polys.flatten.length ∧
    (triangleAttempt r h).2.segEnds.length = h.segEnds.length ∧
    (triangleAttempt r h).2.segs.length = h.segs.length ∧
    (if r.status = stSuccess ∧ h.segEnds.length < r.polys.length then
        (triangleAttempt r h).1 = .tooSmall r.polys.length
      else if r.status = stSuccess ∧ h.segs.length < r.polys.flatten.length then
        (triangleAttempt r h).1 = .tooSmall r.polys.length ∧
        (triangleAttempt r h).2.segEnds.getD (r.polys.length - 1) 0 = r.polys.flatten.length
      else (triangleAttempt r h).1 = .done (pureTriangle r)) := by
  have hE := cumEnds_length r.polys 0
  have lenE : (writePrefix (cumEnds 0 r.polys) h.fSegEnds).length = max h.fSegEnds.length r.polys.length := by
    rw [writePrefix_length, hE]; omega
  have lenS : (writePrefix r.polys.flatten h.fSegs).length = max h.fSegs.length r.polys.flatten.length := by
    rw [writePrefix_length]; omega
  have tkE : (writePrefix (cumEnds 0 r.polys) h.fSegEnds).take r.polys.length = cumEnds 0 r.polys := by
    have := take_writePrefix (cumEnds 0 r.polys) h.fSegEnds
    rwa [hE] at this
  have tkS : (writePrefix r.polys.flatten h.fSegs).take r.polys.flatten.length = r.polys.flatten :=
    take_writePrefix _ _
  rcases triangleAction_cases r.status with ⟨h0, _⟩ | ⟨h3, _⟩ | ⟨h0, _, e, he⟩
  · by_cases hn : r.polys.length = 0
    · -- nothing intersected: the buffers of the caller are not touched
      have hm := flatten_length_zero_of_length_zero r.polys hn
      have hp : r.polys = [] := List.eq_nil_of_length_eq_zero hn
      have c1 : ¬ (r.status = stSuccess ∧ h.segEnds.length < r.polys.length) := by omega
      have c2 : ¬ (r.status = stSuccess ∧ h.segs.length < r.polys.flatten.length) := by omega
      rw [if_neg c1, if_neg c2]
      cases hc : r.contained <;>
        simp [-List.length_flatten, triangleAttempt, triangleABI, h0, hn, lenE, lenS, triangleAction_success, pureTriangle, hc,
          rebuildFrom, hp, writePrefix, cumEnds]
    · by_cases he : h.segEnds.length < r.polys.length
      · have c1 : r.status = stSuccess ∧ h.segEnds.length < r.polys.length := ⟨h0, he⟩
        rw [if_pos c1]
        simp [-List.length_flatten, triangleAttempt, triangleABI, h0, hn, he, lenE, lenS, triangleAction_insufficient]
      · have hle : r.polys.length ≤ h.segEnds.length := by omega
        have c1 : ¬ (r.status = stSuccess ∧ h.segEnds.length < r.polys.length) := fun c => he c.2
        rw [if_neg c1]
        have hne : r.polys ≠ [] := fun hp => hn (by rw [hp]; rfl)
        have hlast := cumEnds_last r.polys 0 hne
        have hidx : r.polys.length - 1 < (cumEnds 0 r.polys).length := by rw [hE]; omega
        have hnum : (writePrefix (cumEnds 0 r.polys) h.segEnds).getD (r.polys.length - 1) 0 =
            r.polys.flatten.length := by
          rw [getD_writePrefix_lt _ _ _ _ hidx, hlast]; omega
        have hnum' : (writePrefix (cumEnds 0 r.polys) h.segEnds)[r.polys.length - 1]?.getD 0 =
            r.polys.flatten.length := by
          rw [← List.getD_eq_getElem?_getD]; exact hnum
        have lenEnds : (writePrefix (cumEnds 0 r.polys) h.segEnds).length = h.segEnds.length := by
          rw [writePrefix_length_of_le]; rw [hE]; exact hle
        by_cases hsg : h.segs.length < r.polys.flatten.length
        · have c2 : r.status = stSuccess ∧ h.segs.length < r.polys.flatten.length := ⟨h0, hsg⟩
          rw [if_pos c2]
          simp [-List.length_flatten, triangleAttempt, triangleABI, h0, hn, he, lenE, lenS, tkE, hnum', hsg, lenEnds,
            triangleAction_insufficient]
        · have c2 : ¬ (r.status = stSuccess ∧ h.segs.length < r.polys.flatten.length) := fun c => hsg c.2
          rw [if_neg c2]
          have hles : r.polys.flatten.length ≤ h.segs.length := by omega
          have lenSegs : (writePrefix r.polys.flatten h.segs).length = h.segs.length :=
            writePrefix_length_of_le _ _ hles
          have tkEnds : (writePrefix (cumEnds 0 r.polys) h.segEnds).take r.polys.length = cumEnds 0 r.polys := by
            have := take_writePrefix (cumEnds 0 r.polys) h.segEnds
            rwa [hE] at this
          have hreb : rebuildFrom (writePrefix r.polys.flatten h.segs) 0 (cumEnds 0 r.polys) = r.polys :=
            rebuildFrom_cumEnds _ r.polys 0 (h.segs.drop r.polys.flatten.length) (by simp [writePrefix])
          cases hc : r.contained <;>
            simp [-List.length_flatten, triangleAttempt, triangleABI, h0, hn, he, lenE, lenS, tkE, tkS, hnum', hsg, lenEnds, lenSegs,
              triangleAction_success, pureTriangle, hc, tkEnds, hreb]
  · exact absurd h3 hs
  · have c1 : ¬ (r.status = stSuccess ∧ h.segEnds.length < r.polys.length) := fun c => h0 c.1
    have c2 : ¬ (r.status = stSuccess ∧ h.segs.length < r.polys.flatten.length) := fun c => h0 c.1
    rw [if_neg c1, if_neg c2]
    simp [-List.length_flatten, triangleAttempt, triangleABI, h0, lenE, lenS, he, pureTriangle]

attribute [-simp] List.length_flatten

/-- how many of the two workspaces are too small for this call -/
def deficit {Out Seg : Type} (r : TriRes Seg) (h : Hidden Out Seg) : Nat :=
  (if r.status = stSuccess ∧ h.segEnds.length < r.polys.length then 1 else 0) +
  (if r.status = stSuccess ∧ h.segs.length < r.polys.flatten.length then 1 else 0)

theorem triangleNeed_eq {Seg : Type} (r : TriRes Seg) :
    triangleNeed r = if r.status = stSuccess then (r.polys.length, r.polys.flatten.length) else (0, 0) := rfl

theorem deficit_le_two {Out Seg : Type} (r : TriRes Seg) (h : Hidden Out Seg) : deficit r h ≤ 2 := by
  unfold deficit; split <;> split <;> omega

theorem max_need_fst {Seg : Type} (r : TriRes Seg) (e : Nat)
    (c1 : ¬ (r.status = stSuccess ∧ e < r.polys.length)) : e = max e (triangleNeed r).1 := by
  rw [triangleNeed_eq]
  by_cases h0 : r.status = stSuccess
  · rw [if_pos h0]
    have : ¬ e < r.polys.length := fun hl => c1 ⟨h0, hl⟩
    show e = max e r.polys.length
    omega
  · rw [if_neg h0]; show e = max e 0; omega

theorem max_need_snd {Seg : Type} (r : TriRes Seg) (s : Nat)
    (c2 : ¬ (r.status = stSuccess ∧ s < r.polys.flatten.length)) : s = max s (triangleNeed r).2 := by
  rw [triangleNeed_eq]
  by_cases h0 : r.status = stSuccess
  · rw [if_pos h0]
    have : ¬ s < r.polys.flatten.length := fun hl => c2 ⟨h0, hl⟩
    show s = max s r.polys.flatten.length
    omega
  · rw [if_neg h0]; show s = max s 0; omega

/-- both workspaces are large enough: any number of allowed resizes gives the pure result at once -/
theorem triangleCallN_fits {Out Seg : Type} (j : Junk Out Seg) (r : TriRes Seg)
    (hs : r.status ≠ stInsufficientSpace) (h : Hidden Out Seg)
    (c1 : ¬ (r.status = stSuccess ∧ h.segEnds.length < r.polys.length))
    (c2 : ¬ (r.status = stSuccess ∧ h.segs.length < r.polys.flatten.length)) (k : Nat) :
    triangleCallN j r k h = (pureTriangle r, (triangleAttempt r h).2) := by
  have A := triangleAttempt_spec r hs h
  obtain ⟨_, _, _, _, _, _, _, a8⟩ := A
  rw [if_neg c1, if_neg c2] at a8
  generalize hA : triangleAttempt r h = A at a8
  obtain ⟨x1, x2⟩ := A
  simp only at a8
  subst a8
  cases k <;> simp [triangleCallN, hA]

/-- the wrapper with `k` resizes allowed succeeds as soon as `k` covers the number of workspaces that are
too small; each too-small workspace costs exactly one resize -/
theorem triangleCallN_spec {Out Seg : Type} (j : Junk Out Seg) (r : TriRes Seg)
    (hs : r.status ≠ stInsufficientSpace) :
    ∀ (k : Nat) (h : Hidden Out Seg), deficit r h ≤ k →
    (triangleCallN j r k h).1 = pureTriangle r ∧
    (triangleCallN j r k h).2.segEnds.length = max h.segEnds.length (triangleNeed r).1 ∧
    (triangleCallN j r k h).2.segs.length = max h.segs.length (triangleNeed r).2 ∧
    (triangleCallN j r k h).2.curves = h.curves ∧ (triangleCallN j r k h).2.fInter = h.fInter ∧
    (triangleCallN j r k h).2.fSegEnds.length = max h.fSegEnds.length r.polys.length ∧
    (triangleCallN j r k h).2.fSegs.length = max h.fSegs.length r.polys.flatten.length ∧
    (triangleCallN j r k h).2.allocs = h.allocs + deficit r h := by
  have fits : ∀ (k : Nat) (h : Hidden Out Seg),
      ¬ (r.status = stSuccess ∧ h.segEnds.length < r.polys.length) →
      ¬ (r.status = stSuccess ∧ h.segs.length < r.polys.flatten.length) →
      (triangleCallN j r k h).1 = pureTriangle r ∧
      (triangleCallN j r k h).2.segEnds.length = max h.segEnds.length (triangleNeed r).1 ∧
      (triangleCallN j r k h).2.segs.length = max h.segs.length (triangleNeed r).2 ∧
      (triangleCallN j r k h).2.curves = h.curves ∧ (triangleCallN j r k h).2.fInter = h.fInter ∧
      (triangleCallN j r k h).2.fSegEnds.length = max h.fSegEnds.length r.polys.length ∧
      (triangleCallN j r k h).2.fSegs.length = max h.fSegs.length r.polys.flatten.length ∧
      (triangleCallN j r k h).2.allocs = h.allocs + deficit r h := by
    intro k h c1 c2
    have A := triangleAttempt_spec r hs h
    obtain ⟨a1, a2, a3, a4, a5, a6, a7, _⟩ := A
    have hdef : deficit r h = 0 := by unfold deficit; rw [if_neg c1, if_neg c2]
    rw [triangleCallN_fits j r hs h c1 c2 k]
    refine ⟨rfl, ?_, ?_, a1, a2, a4, a5, ?_⟩
    · show (triangleAttempt r h).2.segEnds.length = _
      rw [a6]; exact max_need_fst r _ c1
    · show (triangleAttempt r h).2.segs.length = _
      rw [a7]; exact max_need_snd r _ c2
    · show (triangleAttempt r h).2.allocs = _
      rw [a3, hdef]; rfl
  intro k
  induction k with
  | zero =>
    intro h hd
    have c1 : ¬ (r.status = stSuccess ∧ h.segEnds.length < r.polys.length) := by
      intro c; unfold deficit at hd; rw [if_pos c] at hd; omega
    have c2 : ¬ (r.status = stSuccess ∧ h.segs.length < r.polys.flatten.length) := by
      intro c; unfold deficit at hd; rw [if_pos c] at hd; omega
    exact fits 0 h c1 c2
  | succ k ih =>
    intro h hd
    have A := triangleAttempt_spec r hs h
    obtain ⟨a1, a2, a3, a4, a5, a6, a7, a8⟩ := A
    by_cases c1 : r.status = stSuccess ∧ h.segEnds.length < r.polys.length
    · -- segment ends too small: resize them, retry
      rw [if_pos c1] at a8
      generalize hA : triangleAttempt r h = A at a1 a2 a3 a4 a5 a6 a7 a8
      obtain ⟨x1, x2⟩ := A
      simp only at a1 a2 a3 a4 a5 a6 a7 a8
      subst a8
      have hres : triangleResize j h.segEnds.length r.polys.length x2 = resetSegEnds j r.polys.length x2 := by
        unfold triangleResize; rw [if_pos c1.2]
      have hcall : triangleCallN j r (k + 1) h = triangleCallN j r k (resetSegEnds j r.polys.length x2) := by
        simp [triangleCallN, hA, hres]
      have l1 : (resetSegEnds j r.polys.length x2).segEnds.length = r.polys.length := by simp [resetSegEnds]
      have l2 : (resetSegEnds j r.polys.length x2).segs.length = h.segs.length := by simp [resetSegEnds, a7]
      have hd' : deficit r (resetSegEnds j r.polys.length x2) + 1 = deficit r h := by
        unfold deficit
        rw [l1, l2, if_pos c1, if_neg (fun c => Nat.lt_irrefl _ c.2)]
        omega
      have R := ih (resetSegEnds j r.polys.length x2) (by omega)
      obtain ⟨r1, r2, r3, r4, r5, r6, r7, r8⟩ := R
      rw [hcall]
      refine ⟨r1, ?_, ?_, ?_, ?_, ?_, ?_, ?_⟩
      · rw [r2, l1, triangleNeed_eq, if_pos c1.1]; show max r.polys.length r.polys.length = max _ r.polys.length; omega
      · rw [r3, l2]
      · rw [r4]; simpa [resetSegEnds] using a1
      · rw [r5]; simpa [resetSegEnds] using a2
      · rw [r6]; simp [resetSegEnds, a4]
      · rw [r7]; simp [resetSegEnds, a5]
      · rw [r8, ← hd']; simp [resetSegEnds, a3]; omega
    · rw [if_neg c1] at a8
      by_cases c2 : r.status = stSuccess ∧ h.segs.length < r.polys.flatten.length
      · -- segments too small: the needed size is read from the populated segment ends
        rw [if_pos c2] at a8
        generalize hA : triangleAttempt r h = A at a1 a2 a3 a4 a5 a6 a7 a8
        obtain ⟨x1, x2⟩ := A
        simp only at a1 a2 a3 a4 a5 a6 a7 a8
        obtain ⟨a8, a9⟩ := a8
        subst a8
        have hnl : ¬ h.segEnds.length < r.polys.length := fun hl => c1 ⟨c2.1, hl⟩
        have hres : triangleResize j h.segEnds.length r.polys.length x2 =
            resetSegs j r.polys.flatten.length x2 := by
          unfold triangleResize; rw [if_neg hnl, a9]
        have hcall : triangleCallN j r (k + 1) h =
            triangleCallN j r k (resetSegs j r.polys.flatten.length x2) := by
          simp [triangleCallN, hA, hres]
        have l1 : (resetSegs j r.polys.flatten.length x2).segEnds.length = h.segEnds.length := by
          simp [resetSegs, a6]
        have l2 : (resetSegs j r.polys.flatten.length x2).segs.length = r.polys.flatten.length := by
          simp [resetSegs]
        have d0 : deficit r (resetSegs j r.polys.flatten.length x2) = 0 := by
          unfold deficit
          rw [l1, l2, if_neg c1, if_neg (fun c => Nat.lt_irrefl _ c.2)]
        have d1 : deficit r h = 1 := by
          unfold deficit; rw [if_neg c1, if_pos c2]
        have R := ih (resetSegs j r.polys.flatten.length x2) (by omega)
        obtain ⟨r1, r2, r3, r4, r5, r6, r7, r8⟩ := R
        rw [hcall]
        refine ⟨r1, ?_, ?_, ?_, ?_, ?_, ?_, ?_⟩
        · rw [r2, l1]
        · rw [r3, l2, triangleNeed_eq, if_pos c2.1]
          show max r.polys.flatten.length r.polys.flatten.length = max _ r.polys.flatten.length
          omega
        · rw [r4]; simpa [resetSegs] using a1
        · rw [r5]; simpa [resetSegs] using a2
        · rw [r6]; simp [resetSegs, a4]
        · rw [r7]; simp [resetSegs, a5]
        · rw [r8, d0, d1]; simp [resetSegs, a3]
      · exact fits (k + 1) h c1 c2

/-! ### the implementation machine refines the specification machine -/

/-- the two inner functions never report `INSUFFICIENT_SPACE` themselves (only the `_abi` routines do) -/
def World.Sound {CIn TIn Out Seg : Type} (W : World CIn TIn Out Seg) : Prop :=
  (∀ inp, (W.fc inp).status ≠ stInsufficientSpace) ∧ (∀ inp, (W.ft inp).status ≠ stInsufficientSpace)

theorem triangleCall_spec {Out Seg : Type} (j : Junk Out Seg) (r : TriRes Seg)
    (hs : r.status ≠ stInsufficientSpace) (h : Hidden Out Seg) :
    (triangleCall j r h).1 = pureTriangle r ∧
    (triangleCall j r h).2.segEnds.length = max h.segEnds.length (triangleNeed r).1 ∧
    (triangleCall j r h).2.segs.length = max h.segs.length (triangleNeed r).2 ∧
    (triangleCall j r h).2.curves = h.curves ∧ (triangleCall j r h).2.fInter = h.fInter ∧
    (triangleCall j r h).2.fSegEnds.length = max h.fSegEnds.length r.polys.length ∧
    (triangleCall j r h).2.fSegs.length = max h.fSegs.length r.polys.flatten.length ∧
    (triangleCall j r h).2.allocs = h.allocs + deficit r h :=
  triangleCallN_spec j r hs 2 h (deficit_le_two r h)

theorem step_refines {CIn TIn Out Seg : Type} (W : World CIn TIn Out Seg) (hW : W.Sound)
    (op : Op CIn TIn) (h : Hidden Out Seg) :
    (step W op h).1 = (specStep W op h.sizes).1 ∧ (step W op h).2.sizes = (specStep W op h.sizes).2 ∧
    (step W op h).2.fcaps = fcapStep W op h.fcaps := by
  cases op with
  | curve inp =>
    obtain ⟨c1, c2, c3, c4, c5, c6, c7, _, _⟩ := curveCall_spec W.dup W.junk (W.fc inp) (hW.1 inp) h
    refine ⟨?_, ?_, ?_⟩
    · simp [step, specStep, Hidden.sizes, c1]
    · simp [step, specStep, Hidden.sizes, c2, c3, c4]
    · simp [step, fcapStep, Hidden.fcaps, c5, c6, c7]
  | triangle inp =>
    obtain ⟨t1, t2, t3, t4, t5, t6, t7, _⟩ := triangleCall_spec W.junk (W.ft inp) (hW.2 inp) h
    refine ⟨?_, ?_, ?_⟩
    · simp [step, specStep, Hidden.sizes, t1]
    · simp [step, specStep, Hidden.sizes, t2, t3, t4]
    · simp [step, fcapStep, Hidden.fcaps, t5, t6, t7]
  | freeCurve => simp [step, specStep, fcapStep, Hidden.sizes, Hidden.fcaps, freeCurve]
  | freeTriangle => simp [step, specStep, fcapStep, Hidden.sizes, Hidden.fcaps, freeTriangle]
  | curveSize => simp [step, specStep, fcapStep, Hidden.sizes]
  | triangleSizes => simp [step, specStep, fcapStep, Hidden.sizes]
  | resetCurves n => simp [step, specStep, fcapStep, Hidden.sizes, Hidden.fcaps, resetCurves]
  | resetSegEnds n => simp [step, specStep, fcapStep, Hidden.sizes, Hidden.fcaps, resetSegEnds]
  | resetSegs n => simp [step, specStep, fcapStep, Hidden.sizes, Hidden.fcaps, resetSegs]

theorem run_refines {CIn TIn Out Seg : Type} (W : World CIn TIn Out Seg) (hW : W.Sound)
    (ops : List (Op CIn TIn)) :
    ∀ h : Hidden Out Seg,
    (run W ops h).1 = (specRun W ops h.sizes).1 ∧ (run W ops h).2.sizes = (specRun W ops h.sizes).2 ∧
    (run W ops h).2.fcaps = ops.foldl (fun z op => fcapStep W op z) h.fcaps := by
  induction ops with
  | nil => intro h; exact ⟨rfl, rfl, rfl⟩
  | cons op ops ih =>
    intro h
    obtain ⟨s1, s2, s3⟩ := step_refines W hW op h
    obtain ⟨i1, i2, i3⟩ := ih (step W op h).2
    refine ⟨?_, ?_, ?_⟩
    · simp only [run, specRun]; rw [s1, i1, s2]
    · simp only [run, specRun]; rw [i2, s2]
    · simp only [run, List.foldl_cons]; rw [i3, s3]

/-- the specification machine does not look at junk -/
theorem specStep_junk {CIn TIn Out Seg : Type} (W : World CIn TIn Out Seg) (j' : Junk Out Seg)
    (op : Op CIn TIn) (z : Nat × Nat × Nat) :
    specStep { W with junk := j' } op z = specStep W op z := by
  cases op <;> rfl

theorem specRun_junk {CIn TIn Out Seg : Type} (W : World CIn TIn Out Seg) (j' : Junk Out Seg)
    (ops : List (Op CIn TIn)) : ∀ z, specRun { W with junk := j' } ops z = specRun W ops z := by
  induction ops with
  | nil => intro z; rfl
  | cons op ops ih => intro z; simp only [specRun, specStep_junk, ih]

end BezierVerif.Model.Protocol
