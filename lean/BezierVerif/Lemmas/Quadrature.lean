import BezierVerif.Model.Quadrature
import BezierVerif.Model.Area
import BezierVerif.Lemmas.Deriv
import Mathlib.Algebra.Order.Field.Basic
import Mathlib.Algebra.Order.BigOperators.Ring.Finset
import Mathlib.Algebra.BigOperators.Intervals
import Mathlib.Algebra.BigOperators.Field
import Mathlib.Tactic.LinearCombination
import Mathlib.Data.Nat.Choose.Sum
import Mathlib.Data.Nat.Cast.Field
import Mathlib.Tactic.Ring
import Mathlib.Tactic.FieldSimp
import Mathlib.Tactic.Linarith
import Mathlib.Tactic.Positivity
import Mathlib.Tactic.NormNum

/-!
# Lemmas/Quadrature — symmetric quadrature rules on polynomials; `Model.Quad.qk21` as such a rule
-/

set_option linter.unusedSectionVars false

namespace BezierVerif.QuadLemmas

open Finset BezierVerif.Model BezierVerif.Model.Quad

variable {K : Type} [Field K] [LinearOrder K] [IsStrictOrderedRing K]

/-! ## polynomials on coefficient lists -/

/-- `Σ_k c_k x^k` -/
def polySum (cs : List K) (x : K) : K := ∑ k ∈ range cs.length, seq cs k * x ^ k

/-- the formal integral `∫_a^b Σ c_k x^k dx = Σ_k c_k (b^(k+1) − a^(k+1))/(k+1)` -/
def polyInt (cs : List K) (a b : K) : K :=
  ∑ k ∈ range cs.length, seq cs k * ((b ^ (k+1) - a ^ (k+1)) / ((k + 1 : ℕ) : K))

/-- `Σ_k |c_k| M^k` -/
def polyBound (cs : List K) (M : K) : K := ∑ k ∈ range cs.length, |seq cs k| * M ^ k

theorem seq_cons_zero (c : K) (cs : List K) : seq (c :: cs) 0 = c := rfl
theorem seq_cons_succ (c : K) (cs : List K) (k : ℕ) : seq (c :: cs) (k+1) = seq cs k := rfl

theorem polyEval_eq_polySum : ∀ (cs : List K) (x : K), polyEval cs x = polySum cs x
  | [], x => by simp [polyEval, polySum]
  | c :: cs, x => by
    unfold polySum
    rw [polyEval, polyEval_eq_polySum cs x, List.length_cons, Finset.sum_range_succ']
    simp only [seq_cons_zero, seq_cons_succ, pow_zero, mul_one, polySum, Finset.mul_sum]
    rw [add_comm]
    congr 1
    apply Finset.sum_congr rfl
    intro k _
    ring

/-! ## symmetric rules -/

/-- a symmetric rule on `[-1, 1]`: centre weight `wc` at `0`, pairs `±x i` with weight `w i`, `i < n` -/
def symRule (n : ℕ) (wc : K) (w x : ℕ → K) (g : K → K) : K :=
  wc * g 0 + ∑ i ∈ range n, w i * (g (- x i) + g (x i))

theorem symRule_add (n : ℕ) (wc : K) (w x : ℕ → K) (g1 g2 : K → K) :
    symRule n wc w x (fun t => g1 t + g2 t) = symRule n wc w x g1 + symRule n wc w x g2 := by
  unfold symRule
  rw [add_add_add_comm, ← Finset.sum_add_distrib, mul_add]
  congr 1
  apply Finset.sum_congr rfl
  intro i _
  ring

theorem symRule_smul (n : ℕ) (wc : K) (w x : ℕ → K) (α : K) (g : K → K) :
    symRule n wc w x (fun t => α * g t) = α * symRule n wc w x g := by
  unfold symRule
  rw [mul_add, Finset.mul_sum]
  congr 1
  · ring
  · apply Finset.sum_congr rfl
    intro i _
    ring

theorem symRule_zero (n : ℕ) (wc : K) (w x : ℕ → K) : symRule n wc w x (fun _ => 0) = 0 := by
  simp [symRule]

theorem symRule_sum (n : ℕ) (wc : K) (w x : ℕ → K) {ι : Type} (s : Finset ι) (G : ι → K → K) :
    symRule n wc w x (fun t => ∑ k ∈ s, G k t) = ∑ k ∈ s, symRule n wc w x (G k) := by
  classical
  induction s using Finset.induction_on with
  | empty => simp [symRule_zero]
  | insert a s ha ih =>
    simp only [Finset.sum_insert ha]
    rw [symRule_add, ih]

/-- odd moments vanish by symmetry -/
theorem symRule_odd (n : ℕ) (wc : K) (w x : ℕ → K) (m : ℕ) (hm : Odd m) :
    symRule n wc w x (fun t => t ^ m) = 0 := by
  unfold symRule
  have h0 : (0 : K) ^ m = 0 := zero_pow (by rcases hm with ⟨k, rfl⟩; omega)
  simp only [h0, mul_zero, zero_add]
  apply Finset.sum_eq_zero
  intro i _
  rw [Odd.neg_pow hm]
  ring

/-- the exact moments of `[-1, 1]` -/
def mom (m : ℕ) : K := if Even m then 2 / ((m + 1 : ℕ) : K) else 0

/-- `((c+h)^(k+1) − (c−h)^(k+1))/(k+1) = h Σ_m C(k,m) c^(k−m) h^m mom_m`: the exact integral of
    `t ↦ (c + h t)^k` over `[-1,1]`, scaled by `h`, through the binomial theorem -/
theorem shifted_monomial_integral (c h : K) (k : ℕ) :
    ((c + h) ^ (k+1) - (c - h) ^ (k+1)) / ((k + 1 : ℕ) : K)
      = h * ∑ m ∈ range (k+1), (k.choose m : K) * c ^ (k - m) * h ^ m * mom m := by
  have e1 : (c + h) ^ (k+1) = ∑ j ∈ range (k+1+1), h ^ j * c ^ (k+1-j) * ((k+1).choose j : K) := by
    rw [add_comm, add_pow]
  have e2 : (c - h) ^ (k+1) = ∑ j ∈ range (k+1+1), (-h) ^ j * c ^ (k+1-j) * ((k+1).choose j : K) := by
    rw [sub_eq_add_neg, add_comm, add_pow]
  rw [e1, e2, ← Finset.sum_sub_distrib, Finset.sum_range_succ']
  simp only [pow_zero, Nat.sub_zero, Nat.choose_zero_right, Nat.cast_one, mul_one, one_mul, sub_self, add_zero]
  rw [Finset.sum_div, Finset.mul_sum]
  apply Finset.sum_congr rfl
  intro m hm
  have hk : ((k + 1 : ℕ) : K) ≠ 0 := Nat.cast_ne_zero.mpr (Nat.succ_ne_zero k)
  have hm1 : ((m + 1 : ℕ) : K) ≠ 0 := Nat.cast_ne_zero.mpr (Nat.succ_ne_zero m)
  have hch : (((k+1).choose (m+1) : ℕ) : K) * ((m + 1 : ℕ) : K) = ((k + 1 : ℕ) : K) * ((k.choose m : ℕ) : K) := by
    have := Nat.add_one_mul_choose_eq k m
    have h2 : (((k+1) * k.choose m : ℕ) : K) = (((k+1).choose (m+1) * (m+1) : ℕ) : K) := by
      exact_mod_cast congrArg (Nat.cast (R := K)) this
    push_cast at h2 ⊢
    linear_combination -h2
  have hsub : k + 1 - (m + 1) = k - m := by omega
  rw [hsub]
  unfold mom
  by_cases hev : Even m
  · have hodd : Odd (m + 1) := hev.add_one
    rw [if_pos hev, Odd.neg_pow hodd]
    field_simp
    linear_combination (2 * c ^ (k - m) * h ^ (m + 1)) * hch
  · have hev' : Even (m + 1) := by
      rcases Nat.even_or_odd m with h' | h'
      · exact absurd h' hev
      · exact h'.add_one
    rw [if_neg hev, Even.neg_pow hev']
    simp

/-- the rule applied to a shifted monomial, through the binomial theorem -/
theorem symRule_shifted_monomial (n : ℕ) (wc : K) (w x : ℕ → K) (c h : K) (k : ℕ) :
    symRule n wc w x (fun t => (c + h * t) ^ k)
      = ∑ m ∈ range (k+1), (k.choose m : K) * c ^ (k - m) * h ^ m * symRule n wc w x (fun t => t ^ m) := by
  have e : (fun t : K => (c + h * t) ^ k)
      = fun t => ∑ m ∈ range (k+1), ((k.choose m : K) * c ^ (k - m) * h ^ m) * t ^ m := by
    funext t
    rw [add_comm, add_pow]
    apply Finset.sum_congr rfl
    intro m _
    rw [mul_pow]
    ring
  rw [e, symRule_sum]
  apply Finset.sum_congr rfl
  intro m _
  rw [symRule_smul]

/-- error of a symmetric rule on one shifted monomial -/
theorem symRule_monomial_error (n : ℕ) (wc : K) (w x : ℕ → K) (ε : K) (k : ℕ)
    (hmom : ∀ m, m ≤ k → |symRule n wc w x (fun t => t ^ m) - mom m| ≤ ε) (c h : K) :
    |h * symRule n wc w x (fun t => (c + h * t) ^ k)
        - ((c + h) ^ (k+1) - (c - h) ^ (k+1)) / ((k + 1 : ℕ) : K)| ≤ ε * |h| * (|c| + |h|) ^ k := by
  rw [shifted_monomial_integral, symRule_shifted_monomial, ← mul_sub, ← Finset.sum_sub_distrib, abs_mul]
  have hb : |∑ m ∈ range (k+1), ((k.choose m : K) * c ^ (k - m) * h ^ m * symRule n wc w x (fun t => t ^ m)
        - (k.choose m : K) * c ^ (k - m) * h ^ m * mom m)| ≤ ε * (|c| + |h|) ^ k := by
    calc _ ≤ ∑ m ∈ range (k+1), |((k.choose m : K) * c ^ (k - m) * h ^ m * symRule n wc w x (fun t => t ^ m)
              - (k.choose m : K) * c ^ (k - m) * h ^ m * mom m)| := Finset.abs_sum_le_sum_abs _ _
      _ ≤ ∑ m ∈ range (k+1), ε * (|h| ^ m * |c| ^ (k - m) * (k.choose m : K)) := by
          apply Finset.sum_le_sum
          intro m hm
          have hmk : m ≤ k := by have := Finset.mem_range.mp hm; omega
          rw [← mul_sub, abs_mul, abs_mul, abs_mul, abs_pow, abs_pow, Nat.abs_cast]
          have h1 := hmom m hmk
          have h2 : (0 : K) ≤ (k.choose m : K) * |c| ^ (k - m) * |h| ^ m := by positivity
          calc _ ≤ (k.choose m : K) * |c| ^ (k - m) * |h| ^ m * ε := mul_le_mul_of_nonneg_left h1 h2
            _ = _ := by ring
      _ = ε * (|c| + |h|) ^ k := by
          rw [← Finset.mul_sum, add_comm |c| |h|, add_pow]
  calc |h| * _ ≤ |h| * (ε * (|c| + |h|) ^ k) := mul_le_mul_of_nonneg_left hb (abs_nonneg h)
    _ = _ := by ring

/-- all moments below `N` are within `ε` once the even ones are (the odd ones vanish on both sides) -/
theorem moments_all (n : ℕ) (wc : K) (w x : ℕ → K) (N : ℕ) (ε : K)
    (hmom : ∀ m, m < N → Even m → |symRule n wc w x (fun t => t ^ m) - 2 / ((m + 1 : ℕ) : K)| ≤ ε)
    (m : ℕ) (hm : m < N) : |symRule n wc w x (fun t => t ^ m) - mom m| ≤ ε := by
  unfold mom
  by_cases hev : Even m
  · rw [if_pos hev]; exact hmom m hm hev
  · have hodd : Odd m := Nat.not_even_iff_odd.mp hev
    rw [if_neg hev, symRule_odd n wc w x m hodd, sub_zero, abs_zero]
    have h0 := hmom 0 (by omega) (by simp)
    exact le_trans (abs_nonneg _) h0

/-- **error of a symmetric rule on a polynomial of degree `< N`** whose even moments below `N`
    are exact up to `ε`: the rule on `[c − h, c + h]` misses the formal integral by at most
    `ε · |h| · Σ_k |c_k| (|c| + |h|)^k` -/
theorem symRule_poly_error (n : ℕ) (wc : K) (w x : ℕ → K) (N : ℕ) (ε : K)
    (hmom : ∀ m, m < N → Even m → |symRule n wc w x (fun t => t ^ m) - 2 / ((m + 1 : ℕ) : K)| ≤ ε)
    (cs : List K) (hlen : cs.length ≤ N) (c h : K) :
    |h * symRule n wc w x (fun t => polySum cs (c + h * t)) - polyInt cs (c - h) (c + h)|
      ≤ ε * |h| * polyBound cs (|c| + |h|) := by
  unfold polySum polyInt polyBound
  rw [symRule_sum, Finset.mul_sum, ← Finset.sum_sub_distrib, Finset.mul_sum]
  calc _ ≤ ∑ k ∈ range cs.length, |h * symRule n wc w x (fun t => seq cs k * (c + h * t) ^ k)
              - seq cs k * (((c + h) ^ (k+1) - (c - h) ^ (k+1)) / ((k + 1 : ℕ) : K))| :=
        Finset.abs_sum_le_sum_abs _ _
    _ ≤ _ := by
        apply Finset.sum_le_sum
        intro k hk
        have hkN : k < N := by have := Finset.mem_range.mp hk; omega
        rw [symRule_smul]
        have e : h * (seq cs k * symRule n wc w x (fun t => (c + h * t) ^ k))
              - seq cs k * (((c + h) ^ (k+1) - (c - h) ^ (k+1)) / ((k + 1 : ℕ) : K))
            = seq cs k * (h * symRule n wc w x (fun t => (c + h * t) ^ k)
              - ((c + h) ^ (k+1) - (c - h) ^ (k+1)) / ((k + 1 : ℕ) : K)) := by ring
        rw [e, abs_mul]
        have hk' := symRule_monomial_error n wc w x ε k
          (fun m hm => moments_all n wc w x N ε hmom m (by omega)) c h
        calc _ ≤ |seq cs k| * (ε * |h| * (|c| + |h|) ^ k) := mul_le_mul_of_nonneg_left hk' (abs_nonneg _)
          _ = _ := by ring

/-- `|c| + |h| = max |c − h| |c + h|` -/
theorem abs_add_abs_eq_max (c h : K) : |c| + |h| = max |c - h| |c + h| := by
  rcases le_total 0 c with hc | hc <;> rcases le_total 0 h with hh | hh
  · rw [abs_of_nonneg hc, abs_of_nonneg hh, abs_of_nonneg (by linarith : 0 ≤ c + h)]
    have : |c - h| ≤ c + h := abs_le.mpr ⟨by linarith, by linarith⟩
    rw [max_eq_right this]
  · rw [abs_of_nonneg hc, abs_of_nonpos hh, abs_of_nonneg (by linarith : 0 ≤ c - h)]
    have : |c + h| ≤ c - h := abs_le.mpr ⟨by linarith, by linarith⟩
    rw [max_eq_left this]; ring
  · rw [abs_of_nonpos hc, abs_of_nonneg hh, abs_of_nonpos (by linarith : c - h ≤ 0)]
    have : |c + h| ≤ -(c - h) := abs_le.mpr ⟨by linarith, by linarith⟩
    rw [max_eq_left this]; ring
  · rw [abs_of_nonpos hc, abs_of_nonpos hh, abs_of_nonpos (by linarith : c + h ≤ 0)]
    have : |c - h| ≤ -(c + h) := abs_le.mpr ⟨by linarith, by linarith⟩
    rw [max_eq_right this]; ring

/-! ## the model's helpers are the Mathlib notions -/

theorem qabs_eq_abs (x : K) : qabs x = |x| := by
  unfold qabs
  split
  · next h => rw [abs_of_neg h]
  · next h => rw [abs_of_nonneg (not_lt.mp h)]

theorem qmax_eq_max (a b : K) : qmax a b = max a b := by
  unfold qmax
  split
  · next h => rw [max_eq_right h.le]
  · next h => rw [max_eq_left (not_lt.mp h)]

theorem qmin_eq_min (a b : K) : qmin a b = min a b := by
  unfold qmin
  split
  · next h => rw [min_eq_right h.le]
  · next h => rw [min_eq_left (not_lt.mp h)]

theorem qpow_eq_pow (x : K) : ∀ m : ℕ, qpow x m = x ^ m
  | 0 => by simp [qpow]
  | m+1 => by rw [qpow, qpow_eq_pow x m, pow_succ]

/-! ## `qk21` is a pair of symmetric rules -/

/-- the 21-point Kronrod rule of a table on `[-1,1]`: centre weight `wgk(11)`, pairs `±xgk(i)`, `wgk(i)`, `i = 1..10` -/
def kronrodRule (T : QKTables K) (g : K → K) : K :=
  symRule 10 (seq T.wgk 10) (seq T.wgk) (seq T.xgk) g

/-- the embedded 10-point Gauss rule: pairs `±xgk(2j)`, `wg(j)`, `j = 1..5` -/
def gaussRule (T : QKTables K) (g : K → K) : K :=
  symRule 5 0 (seq T.wg) (fun j => seq T.xgk (2 * j + 1)) g

theorem range5 : List.range 5 = [0, 1, 2, 3, 4] := rfl
theorem range10 : List.range 10 = [0, 1, 2, 3, 4, 5, 6, 7, 8, 9] := rfl

/-- `centr`, `hlgth` of the model -/
def centr (a b : K) : K := 1 / (1 + 1) * (a + b)
def hlgth (a b : K) : K := 1 / (1 + 1) * (b - a)

theorem qk21_resk (T : QKTables K) (f : K → K) (a b : K) :
    (qk21 T f a b).resk = kronrodRule T (fun t => f (centr a b + hlgth a b * t)) := by
  simp only [qk21, doLoop, range5, List.foldl, gaussStep, kronrodStep, kronrodRule, symRule,
    Finset.sum_range_succ, Finset.sum_range_zero, centr, hlgth, mul_neg, ← sub_eq_add_neg, mul_zero, add_zero]
  norm_num
  ring

theorem qk21_resg (T : QKTables K) (f : K → K) (a b : K) :
    (qk21 T f a b).resg = gaussRule T (fun t => f (centr a b + hlgth a b * t)) := by
  simp only [qk21, doLoop, range5, List.foldl, gaussStep, kronrodStep, gaussRule, symRule,
    Finset.sum_range_succ, Finset.sum_range_zero, centr, hlgth, mul_neg, ← sub_eq_add_neg, mul_zero, add_zero]
  norm_num

theorem qk21_result (T : QKTables K) (f : K → K) (a b : K) :
    (qk21 T f a b).result = (qk21 T f a b).resk * hlgth a b := rfl

theorem qk21_rawErr (T : QKTables K) (f : K → K) (a b : K) :
    (qk21 T f a b).rawErr = |((qk21 T f a b).resk - (qk21 T f a b).resg) * hlgth a b| := by
  rw [← qabs_eq_abs]; rfl

theorem replicate10 : List.replicate 10 (0 : K) = [0, 0, 0, 0, 0, 0, 0, 0, 0, 0] := rfl

/-- `resabs` is the Kronrod rule on `|f|` (uses only `wgk(11) ≥ 0`) -/
theorem qk21_resabs (T : QKTables K) (f : K → K) (a b : K) (hw : 0 ≤ seq T.wgk 10) :
    (qk21 T f a b).resabs = kronrodRule T (fun t => |f (centr a b + hlgth a b * t)|) * |hlgth a b| := by
  simp only [qk21, doLoop, range5, List.foldl, gaussStep, kronrodStep, kronrodRule, symRule, qabs_eq_abs,
    Finset.sum_range_succ, Finset.sum_range_zero, centr, hlgth, mul_neg, ← sub_eq_add_neg, mul_zero, add_zero,
    abs_mul, abs_of_nonneg hw]
  norm_num
  left
  ring

/-- `resasc` is the Kronrod rule on `|f − reskh|` -/
theorem qk21_resasc (T : QKTables K) (f : K → K) (a b : K) :
    (qk21 T f a b).resasc
      = kronrodRule T (fun t => |f (centr a b + hlgth a b * t) - (qk21 T f a b).reskh|) * |hlgth a b| := by
  simp only [qk21, doLoop, range5, range10, replicate10, List.foldl, gaussStep, kronrodStep, kronrodRule, symRule,
    qabs_eq_abs, Finset.sum_range_succ, Finset.sum_range_zero, centr, hlgth, mul_neg, ← sub_eq_add_neg, mul_zero,
    add_zero]
  norm_num [seq, List.set]
  left
  ring

/-! ## the Boolean obligations of the model, unpacked -/

theorem centr_neg_one_one : centr (-1 : K) 1 = 0 := by unfold centr; ring
theorem hlgth_neg_one_one : hlgth (-1 : K) 1 = 1 := by unfold hlgth; ring

theorem kronrodMomentDefect_eq (T : QKTables K) (m : ℕ) :
    kronrodMomentDefect T m = kronrodRule T (fun t => t ^ m) - 2 / ((m + 1 : ℕ) : K) := by
  unfold kronrodMomentDefect
  rw [qk21_result, qk21_resk, centr_neg_one_one, hlgth_neg_one_one, mul_one]
  simp only [zero_add, one_mul, qpow_eq_pow]
  norm_num

theorem gaussMomentDefect_eq (T : QKTables K) (m : ℕ) :
    gaussMomentDefect T m = gaussRule T (fun t => t ^ m) - 2 / ((m + 1 : ℕ) : K) := by
  unfold gaussMomentDefect
  rw [qk21_resg, centr_neg_one_one, hlgth_neg_one_one]
  simp only [zero_add, one_mul, qpow_eq_pow]
  norm_num

theorem kronrodMomentsOK_spec (T : QKTables K) (N : ℕ) (ε : K) (h : kronrodMomentsOK T N ε = true) :
    ∀ m, m < N → Even m → |kronrodRule T (fun t => t ^ m) - 2 / ((m + 1 : ℕ) : K)| ≤ ε := by
  intro m hm hev
  unfold kronrodMomentsOK at h
  rw [List.all_eq_true] at h
  have h1 := h m (List.mem_range.mpr hm)
  have h2 : (m % 2 == 1) = false := by
    have : m % 2 = 0 := Nat.even_iff.mp hev
    simp [this]
  rw [h2, Bool.false_or, decide_eq_true_eq, qabs_eq_abs, kronrodMomentDefect_eq] at h1
  exact h1

theorem gaussMomentsOK_spec (T : QKTables K) (N : ℕ) (ε : K) (h : gaussMomentsOK T N ε = true) :
    ∀ m, m < N → Even m → |gaussRule T (fun t => t ^ m) - 2 / ((m + 1 : ℕ) : K)| ≤ ε := by
  intro m hm hev
  unfold gaussMomentsOK at h
  rw [List.all_eq_true] at h
  have h1 := h m (List.mem_range.mpr hm)
  have h2 : (m % 2 == 1) = false := by
    have : m % 2 = 0 := Nat.even_iff.mp hev
    simp [this]
  rw [h2, Bool.false_or, decide_eq_true_eq, qabs_eq_abs, gaussMomentDefect_eq] at h1
  exact h1

theorem seq_pos_of_all (l : List K) (h : l.all (fun w => decide (0 < w)) = true) (i : ℕ) (hi : i < l.length) :
    0 < seq l i := by
  rw [List.all_eq_true] at h
  have hm : seq l i ∈ l := by
    unfold seq
    rw [List.getD_eq_getElem?_getD, List.getElem?_eq_getElem hi]
    exact List.getElem_mem hi
  simpa using h _ hm

theorem weightsPositive_wgk (T : QKTables K) (hs : shapeOK T = true) (hw : weightsPositive T = true)
    (i : ℕ) (hi : i < 11) : 0 < seq T.wgk i := by
  unfold shapeOK at hs
  unfold weightsPositive at hw
  simp only [Bool.and_eq_true, beq_iff_eq] at hs hw
  exact seq_pos_of_all _ hw.2 i (by omega)

/-! ## monotonicity / congruence of symmetric rules -/

theorem symRule_congr (n : ℕ) (wc : K) (w x : ℕ → K) (g1 g2 : K → K) (h0 : g1 0 = g2 0)
    (h : ∀ i, i < n → g1 (- x i) = g2 (- x i) ∧ g1 (x i) = g2 (x i)) :
    symRule n wc w x g1 = symRule n wc w x g2 := by
  unfold symRule
  rw [h0]
  congr 1
  apply Finset.sum_congr rfl
  intro i hi
  rw [(h i (Finset.mem_range.mp hi)).1, (h i (Finset.mem_range.mp hi)).2]

theorem symRule_nonneg (n : ℕ) (wc : K) (w x : ℕ → K) (g : K → K) (hwc : 0 ≤ wc) (hw : ∀ i, i < n → 0 ≤ w i)
    (hg : ∀ t, 0 ≤ g t) : 0 ≤ symRule n wc w x g := by
  unfold symRule
  apply add_nonneg (mul_nonneg hwc (hg 0))
  apply Finset.sum_nonneg
  intro i hi
  exact mul_nonneg (hw i (Finset.mem_range.mp hi)) (add_nonneg (hg _) (hg _))

/-! ## the integrand of `compute_length` -/

theorem seq_map_mul (c : K) (l : List K) (j : ℕ) : seq (l.map (fun d => c * d)) j = c * seq l j := by
  unfold seq
  by_cases hj : j < l.length
  · simp [List.getD_eq_getElem?_getD, hj]
  · simp [List.getD_eq_getElem?_getD, not_lt.mp hj]

/-- evaluating the pre-scaled difference row (what `compute_length` does) is `evaluate_hodograph` -/
theorem evalBary_firstDerivRow (thr : ℕ) (row : List K) (h : 2 ≤ row.length) (s : K) :
    evalBary thr (firstDerivRow row) (1 - s) s = hodographRow thr row s := by
  have hl : (firstDerivRow row).length = row.length - 1 := by simp [firstDerivRow, Deriv.diffs_length]
  rw [Deriv.evalBary_one_sub thr _ (by omega), hodographRow,
    Deriv.evalBary_one_sub thr (diffs row) (by rw [Deriv.diffs_length]; omega), hl, Deriv.diffs_length]
  unfold bern firstDerivRow
  rw [Finset.mul_sum]
  apply Finset.sum_congr rfl
  intro j _
  rw [seq_map_mul]
  ring

/-- `vec_size(s) = sqrt(Σ_r hodograph_r(s)²)`: the closure of `compute_length` is the square root of
    `Model.lengthIntegrandSq` (whose summands are the exact derivatives, C11.hodograph_is_derivative) -/
theorem lengthSpeed_eq (sqrtK : K → K) (thr : ℕ) (nodes : List (List K)) (h : ∀ row ∈ nodes, 2 ≤ row.length)
    (s : K) : lengthSpeed sqrtK thr nodes s = sqrtK (lengthIntegrandSq thr nodes s) := by
  unfold lengthSpeed lengthIntegrandSq hodograph
  congr 2
  rw [List.map_map]
  apply List.map_congr_left
  intro row hrow
  exact evalBary_firstDerivRow thr row (h row hrow) s

end BezierVerif.QuadLemmas
