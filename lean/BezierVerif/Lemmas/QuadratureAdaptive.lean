import BezierVerif.Model.QuadratureAdaptive
import BezierVerif.Lemmas.Quadrature

/-!
# Lemmas/QuadratureAdaptive — helper lemmas for Props/C12QuadAdaptive

1-based arrays (`get1`/`set1`/`geti`/`seti`), the three insertion loops of `dqpsrt` with their loop
invariants ("descending with a hole"), sums over updated arrays, projections of `agseBisect`, the
control part `agseControl` (which leaves the interval lists alone), the loop `agseLoop` with its trace.
-/

set_option linter.unusedSectionVars false
set_option linter.unusedVariables false

namespace BezierVerif.QuadLemmas

open Finset BezierVerif.Model BezierVerif.Model.Quad

variable {K : Type} [Field K] [LinearOrder K] [IsStrictOrderedRing K]

/-! ## 1-based arrays -/

theorem geti_seti (l : List ℕ) (i j v : ℕ) (h1 : 1 ≤ i) (h1' : 1 ≤ j) :
    geti (seti l i v) j = if i = j ∧ i ≤ l.length then v else geti l j := by
  unfold geti seti
  simp only [List.getD_eq_getElem?_getD, List.getElem?_set]
  by_cases h : i = j
  · subst h
    by_cases h2 : i ≤ l.length
    · have : i - 1 < l.length := by omega
      simp [this, h2]
    · have : ¬ i - 1 < l.length := by omega
      simp [this, h2]
  · have : i - 1 ≠ j - 1 := by omega
    simp [this, h]

theorem geti_seti_same (l : List ℕ) (i v : ℕ) (h1 : 1 ≤ i) (h2 : i ≤ l.length) : geti (seti l i v) i = v := by
  rw [geti_seti l i i v h1 h1]; simp [h2]

theorem geti_seti_ne (l : List ℕ) (i j v : ℕ) (h1 : 1 ≤ i) (h1' : 1 ≤ j) (h : i ≠ j) :
    geti (seti l i v) j = geti l j := by
  rw [geti_seti l i j v h1 h1']; simp [h]

@[simp] theorem length_seti (l : List ℕ) (i v : ℕ) : (seti l i v).length = l.length := by
  unfold seti; simp

theorem get1_set1 (l : List K) (i j : ℕ) (v : K) (h1 : 1 ≤ i) (h1' : 1 ≤ j) :
    get1 (set1 l i v) j = if i = j ∧ i ≤ l.length then v else get1 l j := by
  unfold get1 set1 seq
  simp only [List.getD_eq_getElem?_getD, List.getElem?_set]
  by_cases h : i = j
  · subst h
    by_cases h2 : i ≤ l.length
    · have : i - 1 < l.length := by omega
      simp [this, h2]
    · have : ¬ i - 1 < l.length := by omega
      simp [this, h2]
  · have : i - 1 ≠ j - 1 := by omega
    simp [this, h]

@[simp] theorem length_set1 (l : List K) (i : ℕ) (v : K) : (set1 l i v).length = l.length := by
  unfold set1; simp

/-- 0-based view of `set1` -/
theorem seq_set1 (l : List K) (i k : ℕ) (v : K) (h1 : 1 ≤ i) :
    seq (set1 l i v) k = if i = k + 1 ∧ i ≤ l.length then v else seq l k := by
  have := get1_set1 l i (k+1) v h1 (by omega)
  simpa [get1] using this

/-! ## `dqpsrt`: the value at a position, "descending", "descending with a hole" -/

/-- the error estimate the `p`-th entry of `iord` points to -/
def valAt (elist : List K) (iord : List ℕ) (p : ℕ) : K := get1 elist (geti iord p)

/-- `elist(iord(1)) ≥ … ≥ elist(iord(hi))` -/
def DescOn (elist : List K) (iord : List ℕ) (hi : ℕ) : Prop :=
  ∀ i j, 1 ≤ i → i < j → j ≤ hi → valAt elist iord j ≤ valAt elist iord i

/-- descending on the positions `1..hi` other than `h` -/
def HoleDesc (elist : List K) (iord : List ℕ) (h hi : ℕ) : Prop :=
  ∀ i j, 1 ≤ i → i < j → j ≤ hi → i ≠ h → j ≠ h → valAt elist iord j ≤ valAt elist iord i

theorem valAt_seti (elist : List K) (iord : List ℕ) (i j v : ℕ) (h1 : 1 ≤ i) (h1' : 1 ≤ j) :
    valAt elist (seti iord i v) j = if i = j ∧ i ≤ iord.length then get1 elist v else valAt elist iord j := by
  unfold valAt
  rw [geti_seti iord i j v h1 h1']
  split <;> rfl

theorem valAt_seti_same (elist : List K) (iord : List ℕ) (i v : ℕ) (h1 : 1 ≤ i) (h2 : i ≤ iord.length) :
    valAt elist (seti iord i v) i = get1 elist v := by
  rw [valAt_seti _ _ _ _ _ h1 h1]; simp [h2]

theorem valAt_seti_ne (elist : List K) (iord : List ℕ) (i j v : ℕ) (h1 : 1 ≤ i) (h1' : 1 ≤ j) (h : i ≠ j) :
    valAt elist (seti iord i v) j = valAt elist iord j := by
  rw [valAt_seti _ _ _ _ _ h1 h1']; simp [h]

/-- loop 1 (`do i = 1,ido`): the hole moves up from `nrmax` to the returned `nrmax'`; afterwards everything
    above the hole is `≥ errmax` (when the loop had its full count `ido = nrmax - 1`) -/
theorem psrtUp_spec (elist : List K) (errmax : K) (hi : ℕ) :
    ∀ (k : ℕ) (iord : List ℕ) (nrmax : ℕ), k + 1 ≤ nrmax → nrmax ≤ iord.length → nrmax ≤ hi + 1 →
      HoleDesc elist iord nrmax hi →
      HoleDesc elist (psrtUp elist errmax k iord nrmax).1 (psrtUp elist errmax k iord nrmax).2 hi
        ∧ 1 ≤ (psrtUp elist errmax k iord nrmax).2 ∧ (psrtUp elist errmax k iord nrmax).2 ≤ nrmax
        ∧ (psrtUp elist errmax k iord nrmax).1.length = iord.length
        ∧ (k + 1 = nrmax → ∀ j, 1 ≤ j → j < (psrtUp elist errmax k iord nrmax).2 →
            errmax ≤ valAt elist (psrtUp elist errmax k iord nrmax).1 j) := by
  intro k
  induction k with
  | zero =>
    intro iord nrmax hk hlen hnh hd
    simp only [psrtUp]
    refine ⟨hd, by omega, le_refl _, trivial, ?_⟩
    intro h j hj1 hj2
    omega
  | succ k ih =>
    intro iord nrmax hk hlen hnh hd
    simp only [psrtUp]
    split
    · next hle =>
      refine ⟨hd, by omega, le_refl _, rfl, ?_⟩
      intro _ j hj1 hj2
      by_cases hj : j = nrmax - 1
      · subst hj; exact hle
      · exact le_trans hle (hd j (nrmax - 1) hj1 (by omega) (by omega) (by omega) (by omega))
    · next hgt =>
      have hd' : HoleDesc elist (seti iord nrmax (geti iord (nrmax - 1))) (nrmax - 1) hi := by
        intro i j hi1 hij hjh hin hjn
        by_cases h1 : nrmax = j
        · subst h1
          rw [valAt_seti_same _ _ _ _ (by omega) hlen, valAt_seti_ne _ _ _ _ _ (by omega) hi1 (by omega)]
          exact hd i (nrmax - 1) hi1 (by omega) (by omega) (by omega) (by omega)
        · by_cases h2 : nrmax = i
          · subst h2
            rw [valAt_seti_same _ _ _ _ (by omega) hlen, valAt_seti_ne _ _ _ _ _ (by omega) (by omega) h1]
            exact hd (nrmax - 1) j (by omega) (by omega) hjh (by omega) (by omega)
          · rw [valAt_seti_ne _ _ _ _ _ (by omega) (by omega) h1, valAt_seti_ne _ _ _ _ _ (by omega) hi1 h2]
            exact hd i j hi1 hij hjh (by omega) (by omega)
      obtain ⟨a, b, c, d, e⟩ := ih (seti iord nrmax (geti iord (nrmax - 1))) (nrmax - 1) (by omega)
        (by simp; omega) (by omega) hd'
      refine ⟨a, b, by omega, by rw [d]; simp, ?_⟩
      intro hk2
      exact e (by omega)

/-- filling the hole with a value that fits gives a descending list -/
theorem fill_hole (elist : List K) (iord : List ℕ) (h hi v : ℕ) (hd : HoleDesc elist iord h hi)
    (h1 : 1 ≤ h) (h2 : h ≤ iord.length)
    (habove : ∀ i, 1 ≤ i → i < h → get1 elist v ≤ valAt elist iord i)
    (hbelow : ∀ j, h < j → j ≤ hi → valAt elist iord j ≤ get1 elist v) :
    DescOn elist (seti iord h v) hi := by
  intro i j hi1 hij hjh
  by_cases e1 : h = j
  · subst e1
    rw [valAt_seti_same _ _ _ _ h1 h2, valAt_seti_ne _ _ _ _ _ h1 hi1 (by omega)]
    exact habove i hi1 hij
  · by_cases e2 : h = i
    · subst e2
      rw [valAt_seti_same _ _ _ _ h1 h2, valAt_seti_ne _ _ _ _ _ h1 (by omega) e1]
      exact hbelow j hij hjh
    · rw [valAt_seti_ne _ _ _ _ _ h1 (by omega) e1, valAt_seti_ne _ _ _ _ _ h1 hi1 e2]
      exact hd i j hi1 hij hjh (by omega) (by omega)

theorem DescOn.toHole (elist : List K) (iord : List ℕ) (hi : ℕ) (hd : DescOn elist iord hi) :
    HoleDesc elist iord (hi + 1) (hi + 1) := by
  intro i j hi1 hij hjh hin hjn
  exact hd i j hi1 hij (by omega)

/-- loop 2 (`do i = ibeg,jbnd`, top-down insertion of `errmax`) -/
theorem psrtDown_spec (elist : List K) (errmax : K) (jbnd : ℕ) :
    ∀ (f i : ℕ) (iord : List ℕ), 2 ≤ i → i + f = jbnd + 1 → jbnd ≤ iord.length →
      HoleDesc elist iord (i - 1) jbnd → (∀ j, 1 ≤ j → j < i - 1 → errmax ≤ valAt elist iord j) →
      ((psrtDown elist errmax f i iord).2 = none →
          HoleDesc elist (psrtDown elist errmax f i iord).1 jbnd jbnd
          ∧ (∀ j, 1 ≤ j → j < jbnd → errmax ≤ valAt elist (psrtDown elist errmax f i iord).1 j))
      ∧ (∀ i', (psrtDown elist errmax f i iord).2 = some i' →
          i ≤ i' ∧ i' ≤ jbnd ∧ HoleDesc elist (psrtDown elist errmax f i iord).1 (i' - 1) jbnd
          ∧ (∀ j, 1 ≤ j → j < i' - 1 → errmax ≤ valAt elist (psrtDown elist errmax f i iord).1 j)
          ∧ valAt elist (psrtDown elist errmax f i iord).1 i' ≤ errmax)
      ∧ (psrtDown elist errmax f i iord).1.length = iord.length := by
  intro f
  induction f with
  | zero =>
    intro i iord hi2 hif hlen hd habove
    simp only [psrtDown]
    have : i - 1 = jbnd := by omega
    rw [this] at hd habove
    exact ⟨fun _ => ⟨hd, habove⟩, fun i' h => by simp at h, trivial⟩
  | succ f ih =>
    intro i iord hi2 hif hlen hd habove
    simp only [psrtDown]
    split
    · next hle =>
      refine ⟨fun h => by simp at h, ?_, rfl⟩
      intro i' h
      simp only [Option.some.injEq] at h
      subst h
      exact ⟨le_refl _, by omega, hd, habove, hle⟩
    · next hgt =>
      have hgt' : errmax < valAt elist iord i := not_le.mp hgt
      have hd' : HoleDesc elist (seti iord (i - 1) (geti iord i)) (i + 1 - 1) jbnd := by
        intro a b ha1 hab hbh han hbn
        by_cases h1 : i - 1 = b
        · rw [← h1, valAt_seti_same _ _ _ _ (by omega) (by omega), valAt_seti_ne _ _ _ _ _ (by omega) ha1 (by omega)]
          exact hd a i ha1 (by omega) (by omega) (by omega) (by omega)
        · by_cases h2 : i - 1 = a
          · rw [← h2, valAt_seti_same _ _ _ _ (by omega) (by omega), valAt_seti_ne _ _ _ _ _ (by omega) (by omega) h1]
            exact hd i b (by omega) (by omega) hbh (by omega) (by omega)
          · rw [valAt_seti_ne _ _ _ _ _ (by omega) (by omega) h1, valAt_seti_ne _ _ _ _ _ (by omega) ha1 h2]
            exact hd a b ha1 hab hbh (by omega) (by omega)
      have habove' : ∀ j, 1 ≤ j → j < i + 1 - 1 → errmax ≤ valAt elist (seti iord (i - 1) (geti iord i)) j := by
        intro j hj1 hj2
        by_cases h1 : i - 1 = j
        · rw [← h1, valAt_seti_same _ _ _ _ (by omega) (by omega)]
          exact hgt'.le
        · rw [valAt_seti_ne _ _ _ _ _ (by omega) hj1 h1]
          exact habove j hj1 (by omega)
      obtain ⟨a, b, c⟩ := ih (i + 1) (seti iord (i - 1) (geti iord i)) (by omega) (by omega) (by simp; omega) hd' habove'
      refine ⟨a, ?_, by rw [c]; simp⟩
      intro i' h
      obtain ⟨b1, b2, b3, b4, b5⟩ := b i' h
      exact ⟨by omega, b2, b3, b4, b5⟩

/-- loop 3 (`do j = i,jbnd`, bottom-up insertion of `errmin`) -/
theorem psrtBottom_spec (elist : List K) (errmin : K) (jbnd : ℕ) :
    ∀ (f k : ℕ) (iord : List ℕ), f ≤ k → k ≤ jbnd → jbnd + 1 ≤ iord.length →
      HoleDesc elist iord (k + 1) (jbnd + 1) → (∀ j, k + 2 ≤ j → j ≤ jbnd + 1 → valAt elist iord j ≤ errmin) →
      HoleDesc elist (psrtBottom elist errmin f k iord).1 ((psrtBottom elist errmin f k iord).2.1 + 1) (jbnd + 1)
      ∧ (∀ j, (psrtBottom elist errmin f k iord).2.1 + 2 ≤ j → j ≤ jbnd + 1 →
            valAt elist (psrtBottom elist errmin f k iord).1 j ≤ errmin)
      ∧ ((psrtBottom elist errmin f k iord).2.2 = true →
            1 ≤ (psrtBottom elist errmin f k iord).2.1 ∧
            errmin < valAt elist (psrtBottom elist errmin f k iord).1 (psrtBottom elist errmin f k iord).2.1)
      ∧ ((psrtBottom elist errmin f k iord).2.2 = false → (psrtBottom elist errmin f k iord).2.1 = k - f)
      ∧ (psrtBottom elist errmin f k iord).2.1 ≤ k
      ∧ (∀ p, 1 ≤ p → p ≤ (psrtBottom elist errmin f k iord).2.1 →
            geti (psrtBottom elist errmin f k iord).1 p = geti iord p)
      ∧ (psrtBottom elist errmin f k iord).1.length = iord.length := by
  intro f
  induction f with
  | zero =>
    intro k iord hfk hk hlen hd hbelow
    simp only [psrtBottom]
    exact ⟨hd, hbelow, fun h => by simp at h, fun _ => by omega, le_refl _, fun _ _ _ => trivial, trivial⟩
  | succ f ih =>
    intro k iord hfk hk hlen hd hbelow
    simp only [psrtBottom]
    split
    · next hlt =>
      exact ⟨hd, hbelow, fun _ => ⟨(by show 1 ≤ k; omega), hlt⟩, fun h => by simp at h, le_refl _, fun p _ _ => rfl, rfl⟩
    · next hge =>
      have hge' : valAt elist iord k ≤ errmin := not_lt.mp hge
      have hd' : HoleDesc elist (seti iord (k + 1) (geti iord k)) (k - 1 + 1) (jbnd + 1) := by
        have hk1 : k - 1 + 1 = k := by omega
        rw [hk1]
        intro a b ha1 hab hbh han hbn
        by_cases h1 : k + 1 = b
        · rw [← h1, valAt_seti_same _ _ _ _ (by omega) (by omega), valAt_seti_ne _ _ _ _ _ (by omega) ha1 (by omega)]
          exact hd a k ha1 (by omega) (by omega) (by omega) (by omega)
        · by_cases h2 : k + 1 = a
          · rw [← h2, valAt_seti_same _ _ _ _ (by omega) (by omega), valAt_seti_ne _ _ _ _ _ (by omega) (by omega) h1]
            exact hd k b (by omega) (by omega) hbh (by omega) (by omega)
          · rw [valAt_seti_ne _ _ _ _ _ (by omega) (by omega) h1, valAt_seti_ne _ _ _ _ _ (by omega) ha1 h2]
            exact hd a b ha1 hab hbh (by omega) (by omega)
      have hbelow' : ∀ j, k - 1 + 2 ≤ j → j ≤ jbnd + 1 → valAt elist (seti iord (k + 1) (geti iord k)) j ≤ errmin := by
        intro j hj1 hj2
        by_cases h1 : k + 1 = j
        · rw [← h1, valAt_seti_same _ _ _ _ (by omega) (by omega)]
          exact hge'
        · rw [valAt_seti_ne _ _ _ _ _ (by omega) (by omega) h1]
          exact hbelow j (by omega) hj2
      obtain ⟨a, b, c, d, e, g, l⟩ := ih (k - 1) (seti iord (k + 1) (geti iord k)) (by omega) (by omega) (by simp; omega)
        hd' hbelow'
      refine ⟨a, b, c, ?_, by omega, ?_, by rw [l]; simp⟩
      · intro h
        rw [d h]
        omega
      · intro p hp1 hp2
        rw [g p hp1 hp2, geti_seti_ne _ _ _ _ (by omega) hp1 (by omega)]

theorem psrtFinish_spec (elist : List K) (iord : List ℕ) (nrmax : ℕ) :
    (psrtFinish elist iord nrmax).iord = iord ∧ (psrtFinish elist iord nrmax).nrmax = nrmax
    ∧ (psrtFinish elist iord nrmax).maxerr = geti iord nrmax
    ∧ (psrtFinish elist iord nrmax).ermax = get1 elist (geti iord nrmax) := ⟨rfl, rfl, rfl, rfl⟩

/-- `dqpsrt` (more than two intervals): descending order on `1..jupbn`, label 90 -/
theorem dqpsrt_desc (limit last maxerr : ℕ) (elist : List K) (iord : List ℕ) (nrmax : ℕ)
    (hlast : 2 < last) (hJ : jupbnOf limit last ≤ iord.length)
    (hnr : 1 ≤ nrmax) (hnr2 : nrmax < jupbnOf limit last)
    (hmin : get1 elist last ≤ get1 elist maxerr)
    (hsorted : HoleDesc elist iord nrmax (jupbnOf limit last - 1)) :
    DescOn elist (dqpsrt limit last maxerr elist iord nrmax).iord (jupbnOf limit last)
    ∧ (dqpsrt limit last maxerr elist iord nrmax).maxerr
        = geti (dqpsrt limit last maxerr elist iord nrmax).iord (dqpsrt limit last maxerr elist iord nrmax).nrmax
    ∧ (dqpsrt limit last maxerr elist iord nrmax).ermax
        = get1 elist (dqpsrt limit last maxerr elist iord nrmax).maxerr
    ∧ 1 ≤ (dqpsrt limit last maxerr elist iord nrmax).nrmax
    ∧ (dqpsrt limit last maxerr elist iord nrmax).nrmax ≤ nrmax
    ∧ (dqpsrt limit last maxerr elist iord nrmax).iord.length = iord.length := by
  unfold dqpsrt
  rw [if_neg (by omega)]
  simp only []
  generalize hJdef : jupbnOf limit last = J at *
  obtain ⟨u1, u2, u3, u4, u5⟩ := psrtUp_spec elist (get1 elist maxerr) (J - 1) (nrmax - 1) iord nrmax (by omega)
    (by omega) (by omega) hsorted
  generalize hup : psrtUp elist (get1 elist maxerr) (nrmax - 1) iord nrmax = up at *
  obtain ⟨d1, d2, d3⟩ := psrtDown_spec elist (get1 elist maxerr) (J - 1) (J - 1 + 1 - (up.2 + 1)) (up.2 + 1) up.1
    (by omega) (by omega) (by omega) (by simpa using u1) (by simpa using u5 (by omega))
  split
  · next iord' heq =>
    rw [heq] at d1 d3
    obtain ⟨e1, e2⟩ := d1 rfl
    simp only [] at e1 e2 d3
    have hlen' : iord'.length = iord.length := by rw [d3, u4]
    -- fill the hole at `jbnd` with `maxerr`, then position `jupbn` with `last`
    have f1 : DescOn elist (seti iord' (J - 1) maxerr) (J - 1) :=
      fill_hole elist iord' (J - 1) (J - 1) maxerr e1 (by omega) (by omega) e2 (fun j h1 h2 => by omega)
    have f2 := fill_hole elist (seti iord' (J - 1) maxerr) (J - 1 + 1) (J - 1 + 1) last (DescOn.toHole _ _ _ f1)
      (by omega) (by simp; omega)
      (by
        intro i hi1 hi2
        by_cases hi : i = J - 1
        · rw [hi, valAt_seti_same _ _ _ _ (by omega) (by omega)]; exact hmin
        · rw [valAt_seti_ne _ _ _ _ _ (by omega) hi1 (by omega)]
          exact le_trans hmin (e2 i hi1 (by omega)))
      (fun j h1 h2 => by omega)
    have hJ1 : J - 1 + 1 = J := by omega
    rw [hJ1] at f2
    obtain ⟨p1, p2, p3, p4⟩ := psrtFinish_spec elist (seti (seti iord' (J - 1) maxerr) J last) up.2
    rw [p1, p2, p3, p4]
    exact ⟨f2, rfl, rfl, u2, u3, by simp [hlen']⟩
  · next iord' i' heq =>
    rw [heq] at d2 d3
    obtain ⟨g1, g2, g3, g4, g5⟩ := d2 i' rfl
    simp only [] at g3 g4 g5 d3
    have hlen' : iord'.length = iord.length := by rw [d3, u4]
    have f1 : DescOn elist (seti iord' (i' - 1) maxerr) (J - 1) :=
      fill_hole elist iord' (i' - 1) (J - 1) maxerr g3 (by omega) (by omega) g4
        (by
          intro j h1 h2
          by_cases hj : j = i'
          · rw [hj]; exact g5
          · exact le_trans (g3 i' j (by omega) (by omega) h2 (by omega) (by omega)) g5)
    obtain ⟨b1, b2, b3, b4, b5, b6, b7⟩ := psrtBottom_spec elist (get1 elist last) (J - 1) (J - 1 + 1 - i') (J - 1)
      (seti iord' (i' - 1) maxerr) (by omega) (le_refl _) (by simp; omega) (DescOn.toHole _ _ _ f1)
      (fun j h1 h2 => by omega)
    generalize hbot : psrtBottom elist (get1 elist last) (J - 1 + 1 - i') (J - 1) (seti iord' (i' - 1) maxerr) = bot at *
    have hlenb : bot.1.length = iord.length := by rw [b7]; simp [hlen']
    -- the value at the gap fits: everything above is `≥ errmin`
    have habove : ∀ i, 1 ≤ i → i < bot.2.1 + 1 → get1 elist last ≤ valAt elist bot.1 i := by
      intro i hi1 hi2
      cases hb : bot.2.2
      · -- loop ran to completion: `k = i' - 1`, the entry there is `maxerr`
        have hk : bot.2.1 = i' - 1 := by rw [b4 hb]; omega
        have hv : ∀ p, 1 ≤ p → p ≤ i' - 1 → valAt elist bot.1 p = valAt elist (seti iord' (i' - 1) maxerr) p := by
          intro p hp1 hp2
          unfold valAt
          rw [b6 p hp1 (by omega)]
        rw [hv i hi1 (by omega)]
        have hm : valAt elist (seti iord' (i' - 1) maxerr) (i' - 1) = get1 elist maxerr :=
          valAt_seti_same _ _ _ _ (by omega) (by omega)
        by_cases hi : i = i' - 1
        · rw [hi, hm]; exact hmin
        · exact le_trans hmin (hm ▸ f1 i (i' - 1) hi1 (by omega) (by omega))
      · obtain ⟨c1, c2⟩ := b3 hb
        by_cases hi : i = bot.2.1
        · rw [hi]; exact c2.le
        · exact le_trans c2.le (b1 i bot.2.1 hi1 (by omega) (by omega) (by omega) (by omega))
    have f2 := fill_hole elist bot.1 (bot.2.1 + 1) (J - 1 + 1) last b1 (by omega) (by omega) habove
      (fun j h1 h2 => b2 j (by omega) h2)
    have hJ1 : J - 1 + 1 = J := by omega
    rw [hJ1] at f2
    obtain ⟨bio, bk, bb⟩ := bot
    cases bb
    · dsimp only at b4 f2 hlenb ⊢
      have hk : i' = bk + 1 := by rw [b4 rfl]; omega
      rw [hk]
      obtain ⟨p1, p2, p3, p4⟩ := psrtFinish_spec elist (seti bio (bk + 1) last) up.2
      rw [p1, p2, p3, p4]
      exact ⟨f2, rfl, rfl, u2, u3, by simp [hlenb]⟩
    · dsimp only at f2 hlenb ⊢
      obtain ⟨p1, p2, p3, p4⟩ := psrtFinish_spec elist (seti bio (bk + 1) last) up.2
      rw [p1, p2, p3, p4]
      exact ⟨f2, rfl, rfl, u2, u3, by simp [hlenb]⟩

/-! ## `dqpsrt`: the entries stay valid interval numbers -/

/-- every entry at the positions `1..M` satisfies `P` -/
def AllAt (P : ℕ → Prop) (iord : List ℕ) (M : ℕ) : Prop := ∀ p, 1 ≤ p → p ≤ M → P (geti iord p)

theorem AllAt.seti {P : ℕ → Prop} {iord : List ℕ} {M : ℕ} (h : AllAt P iord M) (i v : ℕ) (hi : 1 ≤ i) (hv : P v) :
    AllAt P (seti iord i v) M := by
  intro p hp1 hp2
  rw [geti_seti _ _ _ _ hi hp1]
  split
  · exact hv
  · exact h p hp1 hp2

theorem psrtUp_all (P : ℕ → Prop) (elist : List K) (errmax : K) (M : ℕ) :
    ∀ (k : ℕ) (iord : List ℕ) (nrmax : ℕ), k + 1 ≤ nrmax → nrmax ≤ M + 1 → AllAt P iord M →
      AllAt P (psrtUp elist errmax k iord nrmax).1 M := by
  intro k
  induction k with
  | zero => intro iord nrmax _ _ h; simpa [psrtUp] using h
  | succ k ih =>
    intro iord nrmax hk hM h
    simp only [psrtUp]
    split
    · exact h
    · exact ih _ _ (by omega) (by omega) (h.seti nrmax _ (by omega) (h (nrmax - 1) (by omega) (by omega)))

theorem psrtDown_all (P : ℕ → Prop) (elist : List K) (errmax : K) (M : ℕ) :
    ∀ (f i : ℕ) (iord : List ℕ), 2 ≤ i → i + f ≤ M + 1 → AllAt P iord M →
      AllAt P (psrtDown elist errmax f i iord).1 M := by
  intro f
  induction f with
  | zero => intro i iord _ _ h; simpa [psrtDown] using h
  | succ f ih =>
    intro i iord hi hM h
    simp only [psrtDown]
    split
    · exact h
    · exact ih _ _ (by omega) (by omega) (h.seti (i - 1) _ (by omega) (h i (by omega) (by omega)))

theorem psrtBottom_all (P : ℕ → Prop) (elist : List K) (errmin : K) (M T : ℕ) :
    ∀ (f k : ℕ) (iord : List ℕ), f ≤ k → k ≤ M → k + 1 ≤ iord.length → AllAt P iord M →
      (∀ p, k + 2 ≤ p → p ≤ T → P (geti iord p)) →
      AllAt P (psrtBottom elist errmin f k iord).1 M
      ∧ (∀ p, (psrtBottom elist errmin f k iord).2.1 + 2 ≤ p → p ≤ T →
          P (geti (psrtBottom elist errmin f k iord).1 p)) := by
  intro f
  induction f with
  | zero =>
    intro k iord _ _ _ h hT
    simp only [psrtBottom]
    exact ⟨h, hT⟩
  | succ f ih =>
    intro k iord hfk hM hlen h hT
    simp only [psrtBottom]
    split
    · exact ⟨h, hT⟩
    · have hP : P (geti iord k) := h k (by omega) hM
      refine ih (k - 1) (seti iord (k + 1) (geti iord k)) (by omega) (by omega) (by simp; omega)
        (h.seti (k + 1) _ (by omega) hP) ?_
      intro p hp1 hp2
      by_cases hp : k + 1 = p
      · rw [← hp, geti_seti_same _ _ _ (by omega) hlen]; exact hP
      · rw [geti_seti_ne _ _ _ _ (by omega) (by omega) hp]
        exact hT p (by omega) hp2

theorem psrtUp_basic (elist : List K) (errmax : K) :
    ∀ (k : ℕ) (iord : List ℕ) (nrmax : ℕ), k + 1 ≤ nrmax →
      1 ≤ (psrtUp elist errmax k iord nrmax).2 ∧ (psrtUp elist errmax k iord nrmax).2 ≤ nrmax
      ∧ (psrtUp elist errmax k iord nrmax).1.length = iord.length := by
  intro k
  induction k with
  | zero => intro iord nrmax h; simp only [psrtUp]; exact ⟨by omega, le_refl _, trivial⟩
  | succ k ih =>
    intro iord nrmax h
    simp only [psrtUp]
    split
    · exact ⟨by omega, le_refl _, rfl⟩
    · obtain ⟨a, b, c⟩ := ih (seti iord nrmax (geti iord (nrmax - 1))) (nrmax - 1) (by omega)
      exact ⟨a, by omega, by rw [c]; simp⟩

theorem psrtDown_basic (elist : List K) (errmax : K) :
    ∀ (f i : ℕ) (iord : List ℕ),
      (∀ i', (psrtDown elist errmax f i iord).2 = some i' → i ≤ i' ∧ i' < i + f)
      ∧ (psrtDown elist errmax f i iord).1.length = iord.length := by
  intro f
  induction f with
  | zero => intro i iord; simp [psrtDown]
  | succ f ih =>
    intro i iord
    simp only [psrtDown]
    split
    · refine ⟨?_, rfl⟩
      intro i' h
      simp only [Option.some.injEq] at h
      omega
    · obtain ⟨a, b⟩ := ih (i + 1) (seti iord (i - 1) (geti iord i))
      refine ⟨?_, by rw [b]; simp⟩
      intro i' h
      have := a i' h
      omega

theorem psrtBottom_basic (elist : List K) (errmin : K) :
    ∀ (f k : ℕ) (iord : List ℕ),
      (psrtBottom elist errmin f k iord).2.1 ≤ k ∧ k - f ≤ (psrtBottom elist errmin f k iord).2.1
      ∧ ((psrtBottom elist errmin f k iord).2.2 = false → (psrtBottom elist errmin f k iord).2.1 = k - f)
      ∧ (psrtBottom elist errmin f k iord).1.length = iord.length := by
  intro f
  induction f with
  | zero => intro k iord; simp [psrtBottom]
  | succ f ih =>
    intro k iord
    simp only [psrtBottom]
    split
    · exact ⟨le_refl _, (by show k - (f + 1) ≤ k; omega), fun h => by simp at h, rfl⟩
    · obtain ⟨a, b, c, d⟩ := ih (k - 1) (seti iord (k + 1) (geti iord k))
      refine ⟨by omega, by omega, ?_, by rw [d]; simp⟩
      intro h
      rw [c h]
      omega

/-- `dqpsrt` keeps a property of the entries at positions `1..M` and gives it to the entry at `jupbn` -/
theorem dqpsrt_all (P : ℕ → Prop) (limit last maxerr : ℕ) (elist : List K) (iord : List ℕ) (nrmax M : ℕ)
    (hlast : 2 < last) (hJ : jupbnOf limit last ≤ iord.length) (hJM : jupbnOf limit last ≤ M + 1)
    (hnr : 1 ≤ nrmax) (hnrM : nrmax ≤ M) (hJ2 : 2 ≤ jupbnOf limit last)
    (hP : AllAt P iord M) (hmax : P maxerr) (hl : P last) :
    AllAt P (dqpsrt limit last maxerr elist iord nrmax).iord M
    ∧ P (geti (dqpsrt limit last maxerr elist iord nrmax).iord (jupbnOf limit last)) := by
  unfold dqpsrt
  rw [if_neg (by omega)]
  simp only []
  generalize hJdef : jupbnOf limit last = J at *
  have hu := psrtUp_all P elist (get1 elist maxerr) M (nrmax - 1) iord nrmax (by omega) (by omega) hP
  obtain ⟨u2, u3, u4⟩ := psrtUp_basic elist (get1 elist maxerr) (nrmax - 1) iord nrmax (by omega)
  generalize hup : psrtUp elist (get1 elist maxerr) (nrmax - 1) iord nrmax = up at *
  have hd := psrtDown_all P elist (get1 elist maxerr) M (J - 1 + 1 - (up.2 + 1)) (up.2 + 1) up.1 (by omega) (by omega) hu
  obtain ⟨d2, d3⟩ := psrtDown_basic elist (get1 elist maxerr) (J - 1 + 1 - (up.2 + 1)) (up.2 + 1) up.1
  generalize hdn : psrtDown elist (get1 elist maxerr) (J - 1 + 1 - (up.2 + 1)) (up.2 + 1) up.1 = dn at *
  obtain ⟨iord', o⟩ := dn
  cases o with
  | none =>
    dsimp only at hd d3 ⊢
    have hlen' : iord'.length = iord.length := by rw [d3, u4]
    obtain ⟨p1, p2, p3, p4⟩ := psrtFinish_spec elist (seti (seti iord' (J - 1) maxerr) J last) up.2
    rw [p1]
    refine ⟨(hd.seti (J - 1) maxerr (by omega) hmax).seti J last (by omega) hl, ?_⟩
    rw [geti_seti_same _ _ _ (by omega) (by simp; omega)]
    exact hl
  | some i' =>
    dsimp only at hd d2 d3 ⊢
    obtain ⟨g1, g2⟩ := d2 i' rfl
    have hlen' : iord'.length = iord.length := by rw [d3, u4]
    have h1 := hd.seti (i' - 1) maxerr (by omega) hmax
    obtain ⟨b1, b2⟩ := psrtBottom_all P elist (get1 elist last) M J (J - 1 + 1 - i') (J - 1)
      (seti iord' (i' - 1) maxerr) (by omega) (by omega) (by simp; omega) h1 (fun p h1 h2 => by omega)
    obtain ⟨c1, c2, c3, c4⟩ := psrtBottom_basic elist (get1 elist last) (J - 1 + 1 - i') (J - 1) (seti iord' (i' - 1) maxerr)
    generalize hbot : psrtBottom elist (get1 elist last) (J - 1 + 1 - i') (J - 1) (seti iord' (i' - 1) maxerr) = bot at *
    obtain ⟨bio, bk, bb⟩ := bot
    have hlenb : bio.length = iord.length := by
      have := c4; dsimp only at this; rw [this]; simp [hlen']
    cases bb
    · dsimp only at b1 b2 c1 c2 c3 ⊢
      have hk : bk = i' - 1 := by rw [c3 rfl]; omega
      obtain ⟨p1, p2, p3, p4⟩ := psrtFinish_spec elist (seti bio i' last) up.2
      rw [p1]
      refine ⟨b1.seti i' last (by omega) hl, ?_⟩
      rw [geti_seti_ne _ _ _ _ (by omega) (by omega) (by omega)]
      exact b2 J (by omega) (le_refl _)
    · dsimp only at b1 b2 c1 c2 ⊢
      obtain ⟨p1, p2, p3, p4⟩ := psrtFinish_spec elist (seti bio (bk + 1) last) up.2
      rw [p1]
      refine ⟨b1.seti (bk + 1) last (by omega) hl, ?_⟩
      by_cases hk : bk + 1 = J
      · rw [hk, geti_seti_same _ _ _ (by omega) (by omega)]; exact hl
      · rw [geti_seti_ne _ _ _ _ (by omega) (by omega) hk]
        exact b2 J (by omega) (le_refl _)

/-! ## sums over updated arrays -/

theorem sumRlist_eq (l : List K) (n : ℕ) : sumRlist l n = ∑ k ∈ range n, seq l k := by
  unfold sumRlist doLoop
  induction n with
  | zero => simp
  | succ n ih =>
    rw [List.range_succ, List.foldl_append, ih, Finset.sum_range_succ]
    simp [get1]

theorem sum_update_two (h h' : ℕ → K) (n j : ℕ) (hj : j < n) (hsame : ∀ k, k < n → k ≠ j → h' k = h k) :
    ∑ k ∈ range (n + 1), h' k = ∑ k ∈ range n, h k - h j + h' j + h' n := by
  rw [Finset.sum_range_succ]
  have hm : j ∈ range n := Finset.mem_range.mpr hj
  rw [← Finset.add_sum_erase (range n) h hm, ← Finset.add_sum_erase (range n) h' hm]
  have : ∑ x ∈ (range n).erase j, h' x = ∑ x ∈ (range n).erase j, h x := by
    apply Finset.sum_congr rfl
    intro k hk
    rw [Finset.mem_erase, Finset.mem_range] at hk
    exact hsame k hk.2 hk.1
  rw [this]
  ring

theorem seq_upd1 (l : List K) (m k : ℕ) (x : K) (hm : 1 ≤ m) (hml : m ≤ l.length) :
    seq (set1 l m x) k = if k = m - 1 then x else seq l k := by
  rw [seq_set1 l m k x hm]
  by_cases h : k = m - 1
  · rw [if_pos h, if_pos ⟨by omega, hml⟩]
  · rw [if_neg h, if_neg (fun hc => h (by omega))]

theorem seq_upd2 (l : List K) (m n k : ℕ) (x y : K) (hm : 1 ≤ m) (hmn : m ≤ n) (hL : n + 1 ≤ l.length) :
    seq (set1 (set1 l m x) (n + 1) y) k = if k = n then y else if k = m - 1 then x else seq l k := by
  rw [seq_upd1 _ (n + 1) k y (by omega) (by simp; omega), seq_upd1 l m k x hm (by omega)]
  simp

theorem seq_upd4 (l : List K) (m n k : ℕ) (x y x' y' : K) (hm : 1 ≤ m) (hmn : m ≤ n) (hL : n + 1 ≤ l.length) :
    seq (set1 (set1 (set1 (set1 l m x) (n + 1) y) m x') (n + 1) y') k
      = if k = n then y' else if k = m - 1 then x' else seq l k := by
  rw [seq_upd2 _ m n k x' y' hm hmn (by simp; omega), seq_upd2 l m n k x y hm hmn hL]
  split_ifs <;> rfl

/-! ## `agseBisect` field by field -/

section bisect
variable (E : AgseEnv K) (st : AgseSt K) (last : ℕ)

/-- the midpoint `b1 = a2` -/
def bisMid : K := E.C.half * (get1 st.alist st.maxerr + get1 st.blist st.maxerr)
/-- `call dqk21(f,a1,b1,…)` -/
def bisK1 : K21Out K := dqk21 E.pow15 E.epmach E.uflow E.T E.f (get1 st.alist st.maxerr) (bisMid E st)
/-- `call dqk21(f,a2,b2,…)` -/
def bisK2 : K21Out K := dqk21 E.pow15 E.epmach E.uflow E.T E.f (bisMid E st) (get1 st.blist st.maxerr)

theorem agseBisect_alist : (agseBisect E st last).alist =
    if (bisK1 E st).abserr < (bisK2 E st).abserr then
      set1 (set1 st.alist st.maxerr (bisMid E st)) last (get1 st.alist st.maxerr)
    else set1 st.alist last (bisMid E st) := by
  unfold agseBisect bisK1 bisK2 bisMid
  dsimp only
  split <;> rfl

theorem agseBisect_blist : (agseBisect E st last).blist =
    if (bisK1 E st).abserr < (bisK2 E st).abserr then set1 st.blist last (bisMid E st)
    else set1 (set1 st.blist st.maxerr (bisMid E st)) last (get1 st.blist st.maxerr) := by
  unfold agseBisect bisK1 bisK2 bisMid
  dsimp only
  split <;> rfl

theorem agseBisect_rlist : (agseBisect E st last).rlist =
    if (bisK1 E st).abserr < (bisK2 E st).abserr then
      set1 (set1 (set1 (set1 st.rlist st.maxerr (bisK1 E st).result) last (bisK2 E st).result) st.maxerr
        (bisK2 E st).result) last (bisK1 E st).result
    else set1 (set1 st.rlist st.maxerr (bisK1 E st).result) last (bisK2 E st).result := by
  unfold agseBisect bisK1 bisK2 bisMid
  dsimp only
  split <;> rfl

theorem agseBisect_elist : (agseBisect E st last).elist =
    if (bisK1 E st).abserr < (bisK2 E st).abserr then
      set1 (set1 st.elist st.maxerr (bisK2 E st).abserr) last (bisK1 E st).abserr
    else set1 (set1 st.elist st.maxerr (bisK1 E st).abserr) last (bisK2 E st).abserr := by
  unfold agseBisect bisK1 bisK2 bisMid
  dsimp only
  split <;> rfl

theorem agseBisect_area : (agseBisect E st last).area =
    st.area + ((bisK1 E st).result + (bisK2 E st).result) - get1 st.rlist st.maxerr := rfl

theorem agseBisect_errsum : (agseBisect E st last).errsum =
    st.errsum + ((bisK1 E st).abserr + (bisK2 E st).abserr) - st.errmax := rfl

theorem agseBisect_last : (agseBisect E st last).last = last := rfl

theorem agseBisect_psrt :
    (agseBisect E st last).iord = (dqpsrt E.limit last st.maxerr (agseBisect E st last).elist st.iord st.nrmax).iord
    ∧ (agseBisect E st last).nrmax = (dqpsrt E.limit last st.maxerr (agseBisect E st last).elist st.iord st.nrmax).nrmax
    ∧ (agseBisect E st last).maxerr = (dqpsrt E.limit last st.maxerr (agseBisect E st last).elist st.iord st.nrmax).maxerr
    ∧ (agseBisect E st last).errmax = (dqpsrt E.limit last st.maxerr (agseBisect E st last).elist st.iord st.nrmax).ermax :=
  ⟨rfl, rfl, rfl, rfl⟩

end bisect

/-! ## `dqpsrt`: what holds without any assumption on the order -/

theorem dqpsrt_basic (limit last maxerr : ℕ) (elist : List K) (iord : List ℕ) (nrmax : ℕ) (hnr : 1 ≤ nrmax) :
    (dqpsrt limit last maxerr elist iord nrmax).iord.length = iord.length
    ∧ 1 ≤ (dqpsrt limit last maxerr elist iord nrmax).nrmax
    ∧ (dqpsrt limit last maxerr elist iord nrmax).nrmax ≤ nrmax
    ∧ (dqpsrt limit last maxerr elist iord nrmax).maxerr
        = geti (dqpsrt limit last maxerr elist iord nrmax).iord (dqpsrt limit last maxerr elist iord nrmax).nrmax
    ∧ (dqpsrt limit last maxerr elist iord nrmax).ermax
        = get1 elist (dqpsrt limit last maxerr elist iord nrmax).maxerr := by
  unfold dqpsrt
  split
  · exact ⟨by simp [psrtFinish], hnr, le_refl _, rfl, rfl⟩
  · simp only []
    obtain ⟨u2, u3, u4⟩ := psrtUp_basic elist (get1 elist maxerr) (nrmax - 1) iord nrmax (by omega)
    generalize psrtUp elist (get1 elist maxerr) (nrmax - 1) iord nrmax = up at *
    obtain ⟨d2, d3⟩ := psrtDown_basic elist (get1 elist maxerr) (jupbnOf limit last - 1 + 1 - (up.2 + 1)) (up.2 + 1) up.1
    generalize psrtDown elist (get1 elist maxerr) (jupbnOf limit last - 1 + 1 - (up.2 + 1)) (up.2 + 1) up.1 = dn at *
    obtain ⟨iord', o⟩ := dn
    cases o with
    | none =>
      dsimp only at d3 ⊢
      exact ⟨by simp [psrtFinish, d3, u4], u2, u3, rfl, rfl⟩
    | some i' =>
      dsimp only at d3 ⊢
      obtain ⟨c1, c2, c3, c4⟩ := psrtBottom_basic elist (get1 elist last) (jupbnOf limit last - 1 + 1 - i')
        (jupbnOf limit last - 1) (seti iord' (i' - 1) maxerr)
      generalize psrtBottom elist (get1 elist last) (jupbnOf limit last - 1 + 1 - i') (jupbnOf limit last - 1)
        (seti iord' (i' - 1) maxerr) = bot at *
      obtain ⟨bio, bk, bb⟩ := bot
      cases bb <;> dsimp only at c4 ⊢ <;> exact ⟨by simp [psrtFinish, c4, d3, u4], u2, u3, rfl, rfl⟩

theorem jupbnOf_le (limit last : ℕ) (h : last ≤ limit) : jupbnOf limit last ≤ min last (limit / 2 + 2) := by
  unfold jupbnOf
  split <;> omega

theorem jupbnOf_ge (limit last : ℕ) (h : last ≤ limit) (h3 : 3 ≤ last) : 3 ≤ jupbnOf limit last := by
  unfold jupbnOf
  split <;> omega

theorem AllAt.mono {P Q : ℕ → Prop} {iord : List ℕ} {M : ℕ} (h : AllAt P iord M) (hPQ : ∀ x, P x → Q x) :
    AllAt Q iord M := fun p h1 h2 => hPQ _ (h p h1 h2)

/-! ## the invariant of the main loop -/

/-- partition and sums (holds in every state the loop reaches) -/
structure AgseCore (E : AgseEnv K) (st : AgseSt K) : Prop where
  last1 : 1 ≤ st.last
  lastL : st.last ≤ E.limit
  lenA : st.alist.length = E.limit
  lenB : st.blist.length = E.limit
  lenR : st.rlist.length = E.limit
  lenE : st.elist.length = E.limit
  /-- the intervals `(alist k, blist k)` telescope to `(a, b)` for every function on the end points -/
  part : ∀ g : K → K, ∑ k ∈ range st.last, (g (seq st.blist k) - g (seq st.alist k)) = g E.b - g E.a
  ordered : ∀ k, k < st.last → seq st.alist k < seq st.blist k
  area : st.area = ∑ k ∈ range st.last, seq st.rlist k
  errsum : st.errsum = ∑ k ∈ range st.last, seq st.elist k

/-- the pointer part (holds whenever the loop continues) -/
structure AgseAux (E : AgseEnv K) (st : AgseSt K) : Prop where
  lenI : st.iord.length = E.limit
  valid : AllAt (fun x => 1 ≤ x ∧ x ≤ st.last) st.iord (min st.last (E.limit / 2 + 2))
  nrmax1 : 1 ≤ st.nrmax
  nrmaxM : st.nrmax ≤ min st.last (E.limit / 2 + 2)
  maxerr : st.maxerr = geti st.iord st.nrmax
  errmax : st.errmax = get1 st.elist st.maxerr

theorem AgseAux.maxerr_valid {E : AgseEnv K} {st : AgseSt K} (h : AgseAux E st) :
    1 ≤ st.maxerr ∧ st.maxerr ≤ st.last := by
  rw [h.maxerr]
  exact h.valid st.nrmax h.nrmax1 h.nrmaxM

theorem agseBisect_inv (E : AgseEnv K) (st : AgseSt K) (hhalf : E.C.half = 1 / 2)
    (hc : AgseCore E st) (ha : AgseAux E st) (hL : st.last + 1 ≤ E.limit) :
    AgseCore E (agseBisect E st (st.last + 1)) ∧ AgseAux E (agseBisect E st (st.last + 1)) := by
  obtain ⟨hm1, hm2⟩ := ha.maxerr_valid
  have hn1 := hc.last1
  have hmid : bisMid E st = (get1 st.alist st.maxerr + get1 st.blist st.maxerr) / 2 := by
    unfold bisMid; rw [hhalf]; ring
  have hga : get1 st.alist st.maxerr = seq st.alist (st.maxerr - 1) := rfl
  have hgb : get1 st.blist st.maxerr = seq st.blist (st.maxerr - 1) := rfl
  have hord := hc.ordered (st.maxerr - 1) (by omega)
  have hlen : (agseBisect E st (st.last + 1)).alist.length = E.limit ∧ (agseBisect E st (st.last + 1)).blist.length = E.limit
      ∧ (agseBisect E st (st.last + 1)).rlist.length = E.limit ∧ (agseBisect E st (st.last + 1)).elist.length = E.limit := by
    rw [agseBisect_alist, agseBisect_blist, agseBisect_rlist, agseBisect_elist]
    refine ⟨?_, ?_, ?_, ?_⟩ <;> split <;> simp [hc.lenA, hc.lenB, hc.lenR, hc.lenE]
  have hcore : AgseCore E (agseBisect E st (st.last + 1)) := by
    refine ⟨by rw [agseBisect_last]; omega, by rw [agseBisect_last]; exact hL, hlen.1, hlen.2.1, hlen.2.2.1,
      hlen.2.2.2, ?_, ?_, ?_, ?_⟩
    · -- telescoping
      intro g
      rw [agseBisect_last, ← hc.part g]
      rw [sum_update_two (fun k => g (seq st.blist k) - g (seq st.alist k))
        (fun k => g (seq (agseBisect E st (st.last + 1)).blist k) - g (seq (agseBisect E st (st.last + 1)).alist k)) st.last (st.maxerr - 1) (by omega)]
      · rw [agseBisect_alist, agseBisect_blist]
        split
        · simp only [seq_upd2 st.alist st.maxerr st.last _ _ _ hm1 hm2 (by rw [hc.lenA]; omega),
            seq_upd1 st.blist (st.last + 1) _ _ (by omega) (by rw [hc.lenB]; omega)]
          have e1 : ¬ (st.maxerr - 1 = st.last) := by omega
          simp only [Nat.add_sub_cancel, e1, if_false, if_true, hga]
          ring
        · simp only [seq_upd2 st.blist st.maxerr st.last _ _ _ hm1 hm2 (by rw [hc.lenB]; omega),
            seq_upd1 st.alist (st.last + 1) _ _ (by omega) (by rw [hc.lenA]; omega)]
          have e1 : ¬ (st.maxerr - 1 = st.last) := by omega
          simp only [Nat.add_sub_cancel, e1, if_false, if_true, hgb]
          ring
      · intro k hk hkm
        rw [agseBisect_alist, agseBisect_blist]
        have e1 : ¬ (k = st.last) := by omega
        split
        · simp only [seq_upd2 st.alist st.maxerr st.last _ _ _ hm1 hm2 (by rw [hc.lenA]; omega),
            seq_upd1 st.blist (st.last + 1) _ _ (by omega) (by rw [hc.lenB]; omega), Nat.add_sub_cancel, e1, hkm, if_false]
        · simp only [seq_upd2 st.blist st.maxerr st.last _ _ _ hm1 hm2 (by rw [hc.lenB]; omega),
            seq_upd1 st.alist (st.last + 1) _ _ (by omega) (by rw [hc.lenA]; omega), Nat.add_sub_cancel, e1, hkm, if_false]
    · -- every interval is non-degenerate
      intro k hk
      rw [agseBisect_last] at hk
      rw [agseBisect_alist, agseBisect_blist]
      have hlt1 : seq st.alist (st.maxerr - 1) < bisMid E st := by rw [hmid, hga, hgb]; linarith
      have hlt2 : bisMid E st < seq st.blist (st.maxerr - 1) := by rw [hmid, hga, hgb]; linarith
      split
      · simp only [seq_upd2 st.alist st.maxerr st.last _ _ _ hm1 hm2 (by rw [hc.lenA]; omega),
          seq_upd1 st.blist (st.last + 1) _ _ (by omega) (by rw [hc.lenB]; omega), Nat.add_sub_cancel]
        by_cases e1 : k = st.last
        · simp only [e1, if_true, hga]; exact hlt1
        · by_cases e2 : k = st.maxerr - 1
          · subst e2
            simp only [e1, if_false, if_true]; exact hlt2
          · simp only [e1, e2, if_false]; exact hc.ordered k (by omega)
      · simp only [seq_upd2 st.blist st.maxerr st.last _ _ _ hm1 hm2 (by rw [hc.lenB]; omega),
          seq_upd1 st.alist (st.last + 1) _ _ (by omega) (by rw [hc.lenA]; omega), Nat.add_sub_cancel]
        by_cases e1 : k = st.last
        · simp only [e1, if_true, hgb]; exact hlt2
        · by_cases e2 : k = st.maxerr - 1
          · subst e2
            simp only [e1, if_false, if_true]; exact hlt1
          · simp only [e1, e2, if_false]; exact hc.ordered k (by omega)
    · -- area
      rw [agseBisect_last, agseBisect_area, hc.area]
      rw [sum_update_two (seq st.rlist) (seq (agseBisect E st (st.last + 1)).rlist) st.last (st.maxerr - 1) (by omega)]
      · rw [agseBisect_rlist]
        have e1 : ¬ (st.maxerr - 1 = st.last) := by omega
        have hgr : get1 st.rlist st.maxerr = seq st.rlist (st.maxerr - 1) := rfl
        rw [hgr]
        split
        · simp only [seq_upd4 st.rlist st.maxerr st.last _ _ _ _ _ hm1 hm2 (by rw [hc.lenR]; omega), e1, if_false, if_true]
          ring
        · simp only [seq_upd2 st.rlist st.maxerr st.last _ _ _ hm1 hm2 (by rw [hc.lenR]; omega), e1, if_false, if_true]
          ring
      · intro k hk hkm
        rw [agseBisect_rlist]
        have e1 : ¬ (k = st.last) := by omega
        split
        · simp only [seq_upd4 st.rlist st.maxerr st.last _ _ _ _ _ hm1 hm2 (by rw [hc.lenR]; omega), e1, hkm, if_false]
        · simp only [seq_upd2 st.rlist st.maxerr st.last _ _ _ hm1 hm2 (by rw [hc.lenR]; omega), e1, hkm, if_false]
    · -- errsum
      rw [agseBisect_last, agseBisect_errsum, hc.errsum, ha.errmax]
      rw [sum_update_two (seq st.elist) (seq (agseBisect E st (st.last + 1)).elist) st.last (st.maxerr - 1) (by omega)]
      · rw [agseBisect_elist]
        have e1 : ¬ (st.maxerr - 1 = st.last) := by omega
        have hge : get1 st.elist st.maxerr = seq st.elist (st.maxerr - 1) := rfl
        rw [hge]
        split
        · simp only [seq_upd2 st.elist st.maxerr st.last _ _ _ hm1 hm2 (by rw [hc.lenE]; omega), e1, if_false, if_true]
          ring
        · simp only [seq_upd2 st.elist st.maxerr st.last _ _ _ hm1 hm2 (by rw [hc.lenE]; omega), e1, if_false, if_true]
          ring
      · intro k hk hkm
        rw [agseBisect_elist]
        have e1 : ¬ (k = st.last) := by omega
        split <;> simp only [seq_upd2 st.elist st.maxerr st.last _ _ _ hm1 hm2 (by rw [hc.lenE]; omega), e1, hkm, if_false]
  refine ⟨hcore, ?_⟩
  -- the pointer part, from `dqpsrt`
  obtain ⟨q1, q2, q3, q4⟩ := agseBisect_psrt E st (st.last + 1)
  obtain ⟨b1, b2, b3, b4, b5⟩ := dqpsrt_basic E.limit (st.last + 1) st.maxerr (agseBisect E st (st.last + 1)).elist st.iord st.nrmax ha.nrmax1
  have hvalid : AllAt (fun x => 1 ≤ x ∧ x ≤ (st.last + 1)) (agseBisect E st (st.last + 1)).iord (min (st.last + 1) (E.limit / 2 + 2)) := by
    rw [q1]
    have hP0 : AllAt (fun x => 1 ≤ x ∧ x ≤ (st.last + 1)) st.iord (min st.last (E.limit / 2 + 2)) :=
      ha.valid.mono (fun x hx => ⟨hx.1, by omega⟩)
    by_cases h2 : 2 < (st.last + 1)
    · obtain ⟨c1, c2⟩ := dqpsrt_all (fun x => 1 ≤ x ∧ x ≤ (st.last + 1)) E.limit (st.last + 1) st.maxerr (agseBisect E st (st.last + 1)).elist st.iord
        st.nrmax (min st.last (E.limit / 2 + 2)) h2 (by rw [ha.lenI]; have := jupbnOf_le E.limit (st.last + 1) hL; omega)
        (by have := jupbnOf_le E.limit (st.last + 1) hL; omega) ha.nrmax1 ha.nrmaxM
        (by have := jupbnOf_ge E.limit (st.last + 1) hL (by omega); omega) hP0 ⟨hm1, by omega⟩ ⟨by omega, le_refl _⟩
      intro p hp1 hp2
      by_cases hp : p ≤ min st.last (E.limit / 2 + 2)
      · exact c1 p hp1 hp
      · have hnorm : ¬ ((st.last + 1) > E.limit / 2 + 2) := by omega
        have hJ : jupbnOf E.limit (st.last + 1) = (st.last + 1) := by unfold jupbnOf; rw [if_neg hnorm]
        have : p = (st.last + 1) := by omega
        rw [this]
        rw [hJ] at c2
        exact c2
    · -- `(st.last + 1) = 2`: `iord(1) = 1`, `iord(2) = 2`
      have hl2 : (st.last + 1) = 2 := by omega
      unfold dqpsrt
      rw [if_pos (by omega)]
      show AllAt _ (seti (seti st.iord 1 1) 2 2) _
      intro p hp1 hp2
      have hp : p = 1 ∨ p = 2 := by omega
      rcases hp with rfl | rfl
      · rw [geti_seti_ne _ _ _ _ (by omega) (by omega) (by omega), geti_seti_same _ _ _ (by omega) (by rw [ha.lenI]; omega)]
        omega
      · rw [geti_seti_same _ _ _ (by omega) (by simp; rw [ha.lenI]; omega)]
        omega
  refine ⟨by rw [q1, b1, ha.lenI], ?_, by rw [q2]; exact b2, ?_, by rw [q3, q1, q2]; exact b4, by rw [q4, q3]; exact b5⟩
  · rw [agseBisect_last]; exact hvalid
  · rw [agseBisect_last, q2]
    have := ha.nrmaxM
    omega

/-! ## the control part leaves the interval lists, the sums and `iord` alone -/

/-- same interval data in two states -/
def SameCore (st st' : AgseSt K) : Prop :=
  st'.alist = st.alist ∧ st'.blist = st.blist ∧ st'.rlist = st.rlist ∧ st'.elist = st.elist ∧ st'.last = st.last
  ∧ st'.area = st.area ∧ st'.errsum = st.errsum ∧ st'.iord = st.iord

theorem SameCore.refl (st : AgseSt K) : SameCore st st := ⟨rfl, rfl, rfl, rfl, rfl, rfl, rfl, rfl⟩

theorem SameCore.trans {s1 s2 s3 : AgseSt K} (h12 : SameCore s1 s2) (h23 : SameCore s2 s3) : SameCore s1 s3 := by
  obtain ⟨a1, a2, a3, a4, a5, a6, a7, a8⟩ := h12
  obtain ⟨b1, b2, b3, b4, b5, b6, b7, b8⟩ := h23
  exact ⟨b1.trans a1, b2.trans a2, b3.trans a3, b4.trans a4, b5.trans a5, b6.trans a6, b7.trans a7, b8.trans a8⟩

theorem AgseCore.of_same {E : AgseEnv K} {st st' : AgseSt K} (h : AgseCore E st) (hs : SameCore st st') :
    AgseCore E st' := by
  obtain ⟨a1, a2, a3, a4, a5, a6, a7, a8⟩ := hs
  exact ⟨by rw [a5]; exact h.last1, by rw [a5]; exact h.lastL, by rw [a1]; exact h.lenA, by rw [a2]; exact h.lenB,
    by rw [a3]; exact h.lenR, by rw [a4]; exact h.lenE, by rw [a5, a1, a2]; exact h.part,
    by rw [a5, a1, a2]; exact h.ordered, by rw [a6, a5, a3]; exact h.area, by rw [a7, a5, a4]; exact h.errsum⟩

theorem agseSeek_same : ∀ (f : ℕ) (st : AgseSt K), SameCore st (agseSeek st f).1 := by
  intro f
  induction f with
  | zero => intro st; exact SameCore.refl st
  | succ f ih =>
    intro st
    simp only [agseSeek]
    split
    · exact ⟨rfl, rfl, rfl, rfl, rfl, rfl, rfl, rfl⟩
    · exact SameCore.trans ⟨rfl, rfl, rfl, rfl, rfl, rfl, rfl, rfl⟩ (ih _)

theorem agseLabel70_same (E : AgseEnv K) (st : AgseSt K) : SameCore st (agseLabel70 E st).1 := by
  unfold agseLabel70
  dsimp only
  split <;> exact ⟨rfl, rfl, rfl, rfl, rfl, rfl, rfl, rfl⟩

theorem agseLabel60_same (E : AgseEnv K) (st : AgseSt K) : SameCore st (agseLabel60 E st) :=
  ⟨rfl, rfl, rfl, rfl, rfl, rfl, rfl, rfl⟩

theorem agseExtrapolate_same (E : AgseEnv K) (st : AgseSt K) : SameCore st (agseExtrapolate E st).1 := by
  unfold agseExtrapolate
  dsimp only
  split
  · exact SameCore.trans (agseLabel60_same E st) (agseLabel70_same E _)
  · split
    · exact ⟨rfl, rfl, rfl, rfl, rfl, rfl, rfl, rfl⟩
    · exact SameCore.trans (SameCore.trans (agseLabel60_same E st) ⟨rfl, rfl, rfl, rfl, rfl, rfl, rfl, rfl⟩)
        (agseLabel70_same E _)

theorem agseLabel40_same (E : AgseEnv K) (st : AgseSt K) : SameCore st (agseLabel40 E st).1 := by
  unfold agseLabel40
  split
  · exact agseExtrapolate_same E st
  · dsimp only
    have hs := agseSeek_same (jupbnOf E.limit st.last + 1 - st.nrmax) st
    split
    · next st' heq => rw [heq] at hs; exact hs
    · next st' heq => rw [heq] at hs; exact SameCore.trans hs (agseExtrapolate_same E st')

theorem agseControl_same (E : AgseEnv K) (st : AgseSt K) : SameCore st (agseControl E st).1 := by
  unfold agseControl
  dsimp only
  repeat' split
  all_goals first
    | exact ⟨rfl, rfl, rfl, rfl, rfl, rfl, rfl, rfl⟩
    | exact SameCore.trans ⟨rfl, rfl, rfl, rfl, rfl, rfl, rfl, rfl⟩ (agseLabel40_same E _)

/-! ## the pointers `nrmax`, `maxerr`, `errmax` after the control part -/

def PtrOK (E : AgseEnv K) (st : AgseSt K) : Prop :=
  1 ≤ st.nrmax ∧ st.nrmax ≤ min st.last (E.limit / 2 + 2) ∧ st.maxerr = geti st.iord st.nrmax
  ∧ st.errmax = get1 st.elist st.maxerr

theorem agseSeek_ptr : ∀ (f : ℕ) (st : AgseSt K), (agseSeek st f).2 = true →
    (agseSeek st f).1.maxerr = geti (agseSeek st f).1.iord (agseSeek st f).1.nrmax
    ∧ (agseSeek st f).1.errmax = get1 (agseSeek st f).1.elist (agseSeek st f).1.maxerr
    ∧ st.nrmax ≤ (agseSeek st f).1.nrmax ∧ (agseSeek st f).1.nrmax < st.nrmax + f := by
  intro f
  induction f with
  | zero => intro st h; simp [agseSeek] at h
  | succ f ih =>
    intro st h
    simp only [agseSeek] at h ⊢
    split
    · exact ⟨rfl, rfl, le_refl _, (by show st.nrmax < st.nrmax + (f + 1); omega)⟩
    · next hc =>
      rw [if_neg hc] at h
      obtain ⟨a, b, c, d⟩ := ih _ h
      exact ⟨a, b, le_trans (by show st.nrmax ≤ st.nrmax + 1; omega) c, lt_of_lt_of_le d (by show st.nrmax + 1 + f ≤ st.nrmax + (f + 1); omega)⟩

theorem agseLabel70_ptr (E : AgseEnv K) (st : AgseSt K) (h : (agseLabel70 E st).2 = .exhausted) :
    (agseLabel70 E st).1.nrmax = 1
    ∧ (agseLabel70 E st).1.maxerr = geti (agseLabel70 E st).1.iord 1
    ∧ (agseLabel70 E st).1.errmax = get1 (agseLabel70 E st).1.elist (agseLabel70 E st).1.maxerr := by
  unfold agseLabel70 at h ⊢
  dsimp only at h ⊢
  split at h
  · exact absurd h (by simp)
  · next hc => rw [if_neg hc]; exact ⟨rfl, rfl, rfl⟩

theorem agseExtrapolate_ptr (E : AgseEnv K) (st : AgseSt K) (h : (agseExtrapolate E st).2 = .exhausted) :
    (agseExtrapolate E st).1.nrmax = 1
    ∧ (agseExtrapolate E st).1.maxerr = geti (agseExtrapolate E st).1.iord 1
    ∧ (agseExtrapolate E st).1.errmax = get1 (agseExtrapolate E st).1.elist (agseExtrapolate E st).1.maxerr := by
  unfold agseExtrapolate at h ⊢
  dsimp only at h ⊢
  split at h
  · next hc => rw [if_pos hc]; exact agseLabel70_ptr E _ h
  · next hc =>
    rw [if_neg hc]
    split at h
    · exact absurd h (by simp)
    · next hc2 => rw [if_neg hc2]; exact agseLabel70_ptr E _ h

theorem agseLabel40_ptr (E : AgseEnv K) (st : AgseSt K) (hnr : 1 ≤ st.nrmax) (h1 : 1 ≤ st.last) (hL : st.last ≤ E.limit)
    (h : (agseLabel40 E st).2 = .exhausted) : PtrOK E (agseLabel40 E st).1 := by
  have hsame := agseLabel40_same E st
  unfold PtrOK
  rw [hsame.2.2.2.2.1]
  unfold agseLabel40 at h ⊢
  split at h
  · next hc =>
    rw [if_pos hc]
    obtain ⟨a, b, c⟩ := agseExtrapolate_ptr E st h
    rw [a]
    exact ⟨le_refl _, by omega, a ▸ b, c⟩
  · next hc =>
    rw [if_neg hc]
    dsimp only at h ⊢
    have hs := agseSeek_same (jupbnOf E.limit st.last + 1 - st.nrmax) st
    have hp := agseSeek_ptr (jupbnOf E.limit st.last + 1 - st.nrmax) st
    generalize agseSeek st (jupbnOf E.limit st.last + 1 - st.nrmax) = sk at *
    obtain ⟨st', found⟩ := sk
    cases found
    · dsimp only at h ⊢
      obtain ⟨a, b, c⟩ := agseExtrapolate_ptr E st' h
      rw [a]
      exact ⟨le_refl _, by omega, a ▸ b, c⟩
    · dsimp only at h hp ⊢
      obtain ⟨a, b, c, d⟩ := hp rfl
      have := jupbnOf_le E.limit st.last hL
      exact ⟨by omega, by omega, a, b⟩

theorem agseControl_ptr (E : AgseEnv K) (st : AgseSt K) (hp : PtrOK E st) (h2 : 2 ≤ st.last) (hL : st.last ≤ E.limit)
    (h : (agseControl E st).2 = .exhausted) : PtrOK E (agseControl E st).1 := by
  obtain ⟨p1, p2, p3, p4⟩ := hp
  unfold agseControl at h ⊢
  dsimp only at h ⊢
  by_cases c1 : st.errsum ≤ st.errbnd
  · rw [if_pos c1] at h; simp at h
  rw [if_neg c1] at h ⊢
  by_cases c2 : st.ier ≠ 0
  · rw [if_pos c2] at h; simp at h
  rw [if_neg c2] at h ⊢
  by_cases c3 : st.last = 2
  · rw [if_pos c3]; exact ⟨p1, p2, p3, p4⟩
  rw [if_neg c3] at h ⊢
  by_cases c4 : st.noext = true
  · rw [if_pos c4]; exact ⟨p1, p2, p3, p4⟩
  rw [if_neg c4] at h ⊢
  by_cases c5 : st.extrap = true
  · rw [if_pos c5] at h ⊢; exact agseLabel40_ptr E _ p1 (by show 1 ≤ st.last; omega) hL h
  rw [if_neg c5] at h ⊢
  by_cases c6 : st.small < qabs (get1 st.blist st.maxerr - get1 st.alist st.maxerr)
  · rw [if_pos c6]; exact ⟨p1, p2, p3, p4⟩
  rw [if_neg c6] at h ⊢
  exact agseLabel40_ptr E _ (by show 1 ≤ 2; omega) (by show 1 ≤ st.last; omega) hL h

/-! ## one iteration, the loop, its trace -/

theorem agseBody_inv (E : AgseEnv K) (st : AgseSt K) (hhalf : E.C.half = 1 / 2)
    (hc : AgseCore E st) (ha : AgseAux E st) (hL : st.last + 1 ≤ E.limit) :
    AgseCore E (agseBody E st (st.last + 1)).1
    ∧ ((agseBody E st (st.last + 1)).2 = .exhausted → AgseAux E (agseBody E st (st.last + 1)).1)
    ∧ (agseBody E st (st.last + 1)).1.last = st.last + 1 := by
  obtain ⟨c1, a1⟩ := agseBisect_inv E st hhalf hc ha hL
  have hs := agseControl_same E (agseBisect E st (st.last + 1))
  unfold agseBody
  refine ⟨c1.of_same hs, ?_, by rw [hs.2.2.2.2.1, agseBisect_last]⟩
  intro hex
  have hlast : (agseBisect E st (st.last + 1)).last = st.last + 1 := agseBisect_last E st _
  obtain ⟨p1, p2, p3, p4⟩ := agseControl_ptr E (agseBisect E st (st.last + 1))
    ⟨a1.nrmax1, a1.nrmaxM, a1.maxerr, a1.errmax⟩ (by rw [hlast]; have := hc.last1; omega) (by rw [hlast]; exact hL) hex
  obtain ⟨s1, s2, s3, s4, s5, s6, s7, s8⟩ := hs
  exact ⟨by rw [s8]; exact a1.lenI, by rw [s8, s5]; exact a1.valid, p1, p2, p3, p4⟩

/-- the states after each executed iteration of `do 90 last = 2,limit` -/
def agseTrace (E : AgseEnv K) : ℕ → ℕ → AgseSt K → List (AgseSt K)
  | 0, _, _ => []
  | f+1, last, st =>
    match agseBody E st last with
    | (st', .exhausted) => st' :: agseTrace E f (last + 1) st'
    | (st', _) => [st']

/-- **every state the loop reaches satisfies the partition / sum invariant** -/
theorem agseTrace_core (E : AgseEnv K) (hhalf : E.C.half = 1 / 2) :
    ∀ (f last : ℕ) (st : AgseSt K), AgseCore E st → AgseAux E st → last = st.last + 1 → last + f ≤ E.limit + 1 →
      ∀ s ∈ agseTrace E f last st, AgseCore E s := by
  intro f
  induction f with
  | zero => intro last st _ _ _ _ s hs; simp [agseTrace] at hs
  | succ f ih =>
    intro last st hc ha hl hf s hs
    subst hl
    obtain ⟨b1, b2, b3⟩ := agseBody_inv E st hhalf hc ha (by omega)
    simp only [agseTrace] at hs
    generalize agseBody E st (st.last + 1) = body at *
    obtain ⟨st', ex⟩ := body
    cases ex
    · dsimp only at hs b1 b2 b3
      rcases List.mem_cons.mp hs with rfl | hs'
      · exact b1
      · exact ih (st.last + 1 + 1) st' b1 (b2 rfl) (by rw [b3]) (by omega) s hs'
    · dsimp only at hs b1; rw [List.mem_singleton] at hs; rw [hs]; exact b1
    · dsimp only at hs b1; rw [List.mem_singleton] at hs; rw [hs]; exact b1

/-- when the loop is left through `go to 100` / `go to 115`, its final state is the last state of the trace -/
theorem agseLoop_mem_trace (E : AgseEnv K) :
    ∀ (f last : ℕ) (st : AgseSt K), (agseLoop E f last st).2 ≠ .exhausted →
      (agseLoop E f last st).1 ∈ agseTrace E f last st := by
  intro f
  induction f with
  | zero => intro last st h; simp [agseLoop] at h
  | succ f ih =>
    intro last st h
    simp only [agseLoop, agseTrace] at h ⊢
    generalize agseBody E st last = body at *
    obtain ⟨st', ex⟩ := body
    cases ex
    · dsimp only at h ⊢
      exact List.mem_cons_of_mem _ (ih _ _ h)
    · dsimp only; exact List.mem_singleton.mpr rfl
    · dsimp only; exact List.mem_singleton.mpr rfl

theorem agseBisect_ier_limit (E : AgseEnv K) (st : AgseSt K) (last : ℕ) (h : last = E.limit) :
    (agseBisect E st last).ier ≠ 0 := by
  unfold agseBisect
  dsimp only
  split
  · omega
  · first | omega | (rw [if_pos h]; omega)

theorem agseControl_ier (E : AgseEnv K) (st : AgseSt K) (h : st.ier ≠ 0) : (agseControl E st).2 ≠ .exhausted := by
  unfold agseControl
  dsimp only
  split
  · simp
  · first | simp | (rw [if_pos h]; simp)

/-- **totality**: with at least one iteration available and the loop variable ending at `limit`, the loop is
    left through `go to 100` or `go to 115`, never by running to completion -/
theorem agseLoop_total (E : AgseEnv K) :
    ∀ (f last : ℕ) (st : AgseSt K), 1 ≤ f → last + f = E.limit + 1 → (agseLoop E f last st).2 ≠ .exhausted := by
  intro f
  induction f with
  | zero => intro last st h; omega
  | succ f ih =>
    intro last st _ hf
    simp only [agseLoop]
    have hbody : f = 0 → (agseBody E st last).2 ≠ .exhausted := by
      intro hf0
      unfold agseBody
      exact agseControl_ier E _ (agseBisect_ier_limit E st last (by omega))
    generalize agseBody E st last = body at *
    obtain ⟨st', ex⟩ := body
    cases ex
    · dsimp only at hbody ⊢
      by_cases hf0 : f = 0
      · exact absurd rfl (hbody hf0)
      · exact ih (last + 1) st' (by omega) (by omega)
    · simp
    · simp

/-- the loop variable: the final state has `2 ≤ last ≤ limit` and `last` counts the iterations -/
theorem agseLoop_last (E : AgseEnv K) :
    ∀ (f last : ℕ) (st : AgseSt K), (agseLoop E f last st).2 ≠ .exhausted →
      last ≤ (agseLoop E f last st).1.last ∧ (agseLoop E f last st).1.last < last + f := by
  intro f
  induction f with
  | zero => intro last st h; simp [agseLoop] at h
  | succ f ih =>
    intro last st h
    simp only [agseLoop] at h ⊢
    have hb : (agseBody E st last).1.last = last := by
      unfold agseBody; rw [(agseControl_same E _).2.2.2.2.1, agseBisect_last]
    generalize agseBody E st last = body at *
    obtain ⟨st', ex⟩ := body
    cases ex
    · dsimp only at h hb ⊢
      have := ih (last + 1) st' h
      omega
    · dsimp only at hb ⊢; omega
    · dsimp only at hb ⊢; omega

/-! ## the state at the entry of the loop -/

theorem agseInit_inv (E : AgseEnv K) (r : K21Out K) (hlim : 1 ≤ E.limit) (hab : E.a < E.b) :
    AgseCore E (agseInit E r) ∧ AgseAux E (agseInit E r) := by
  have hs : ∀ x : K, seq (set1 (List.replicate E.limit (0 : K)) 1 x) 0 = x := by
    intro x
    rw [seq_upd1 _ 1 0 x (le_refl _) (by simp; omega)]
    simp
  constructor
  · refine ⟨le_refl _, hlim, by simp [agseInit], by simp [agseInit], by simp [agseInit], by simp [agseInit], ?_, ?_, ?_, ?_⟩
    · intro g
      show ∑ k ∈ range 1, _ = _
      simp only [Finset.sum_range_one, agseInit, hs]
    · intro k hk
      have : k = 0 := by have : k < 1 := hk; omega
      subst this
      simp only [agseInit, hs]
      exact hab
    · show r.result = ∑ k ∈ range 1, _
      simp only [Finset.sum_range_one, agseInit, hs]
    · show r.abserr = ∑ k ∈ range 1, _
      simp only [Finset.sum_range_one, agseInit, hs]
  · have hi : geti (seti (List.replicate E.limit 0) 1 1) 1 = 1 := geti_seti_same _ _ _ (le_refl _) (by simp; omega)
    refine ⟨by simp [agseInit], ?_, le_refl _, ?_, ?_, ?_⟩
    · intro p hp1 hp2
      have : p = 1 := by
        have : p ≤ min 1 (E.limit / 2 + 2) := hp2
        omega
      subst this
      show 1 ≤ geti (seti (List.replicate E.limit 0) 1 1) 1 ∧ geti (seti (List.replicate E.limit 0) 1 1) 1 ≤ 1
      rw [hi]; omega
    · show 1 ≤ min 1 (E.limit / 2 + 2)
      omega
    · show 1 = geti (seti (List.replicate E.limit 0) 1 1) 1
      rw [hi]
    · show r.abserr = get1 (set1 (List.replicate E.limit (0 : K)) 1 r.abserr) 1
      exact (hs r.abserr).symm

/-! ## where `result` comes from -/

theorem dqelg_nres (C : AgseConsts K) (epmach oflow : K) (n : ℕ) (epstab res3la : List K) (nres : ℕ) :
    (dqelg C epmach oflow n epstab res3la nres).nres = nres + 1 := by
  unfold dqelg
  dsimp only
  repeat' split
  all_goals rfl


theorem agseLabel70_res (E : AgseEnv K) (st : AgseSt K) :
    (agseLabel70 E st).1.result = st.result ∧ (agseLabel70 E st).1.abserr = st.abserr
    ∧ (agseLabel70 E st).1.reseps = st.reseps ∧ (agseLabel70 E st).1.nres = st.nres := by
  unfold agseLabel70
  dsimp only
  split <;> exact ⟨rfl, rfl, rfl, rfl⟩

theorem agseLabel70_res' (E : AgseEnv K) (st : AgseSt K) (h : st.result = st.reseps) (hn : 0 < st.nres) :
    (agseLabel70 E st).1.result = (agseLabel70 E st).1.reseps ∧ 0 < (agseLabel70 E st).1.nres := by
  obtain ⟨a, b, c, d⟩ := agseLabel70_res E st
  rw [a, c, h, d]
  exact ⟨rfl, hn⟩

theorem agseLabel60_nres (E : AgseEnv K) (st : AgseSt K) : 0 < (agseLabel60 E st).nres := by
  show 0 < (dqelg E.C E.epmach E.oflow (st.numrl2 + 1) (set1 st.rlist2 (st.numrl2 + 1) st.area) st.res3la st.nres).nres
  rw [dqelg_nres]
  omega

theorem agseSeek_res : ∀ (f : ℕ) (st : AgseSt K),
    (agseSeek st f).1.result = st.result ∧ (agseSeek st f).1.abserr = st.abserr := by
  intro f
  induction f with
  | zero => intro st; exact ⟨rfl, rfl⟩
  | succ f ih =>
    intro st
    simp only [agseSeek]
    split
    · exact ⟨rfl, rfl⟩
    · exact ih _

/-- an iteration either keeps `result` and `abserr` or sets `result` to the `reseps` that `dqelg` returned -/
def ResStep (st st' : AgseSt K) : Prop :=
  (st'.result = st.result ∧ st'.abserr = st.abserr) ∨ (st'.result = st'.reseps ∧ 0 < st'.nres)


theorem agseExtrapolate_res (E : AgseEnv K) (st : AgseSt K) : ResStep st (agseExtrapolate E st).1 := by
  unfold agseExtrapolate
  dsimp only
  split
  · obtain ⟨a, b, c, d⟩ := agseLabel70_res E (agseLabel60 E st)
    exact Or.inl ⟨a, b⟩
  · split
    · exact Or.inr ⟨rfl, agseLabel60_nres E st⟩
    · exact Or.inr (agseLabel70_res' E _ rfl (agseLabel60_nres E st))

theorem agseLabel40_res (E : AgseEnv K) (st : AgseSt K) : ResStep st (agseLabel40 E st).1 := by
  unfold agseLabel40
  split
  · exact agseExtrapolate_res E st
  · dsimp only
    have hs := agseSeek_res (jupbnOf E.limit st.last + 1 - st.nrmax) st
    generalize agseSeek st (jupbnOf E.limit st.last + 1 - st.nrmax) = sk at *
    obtain ⟨st', found⟩ := sk
    cases found
    · dsimp only at hs ⊢
      rcases agseExtrapolate_res E st' with h | h
      · exact Or.inl ⟨h.1.trans hs.1, h.2.trans hs.2⟩
      · exact Or.inr h
    · exact Or.inl hs

theorem agseControl_res (E : AgseEnv K) (st : AgseSt K) : ResStep st (agseControl E st).1 := by
  unfold agseControl
  dsimp only
  repeat' split
  all_goals first
    | exact Or.inl ⟨rfl, rfl⟩
    | exact agseLabel40_res E _

theorem agseBody_res (E : AgseEnv K) (st : AgseSt K) (last : ℕ) : ResStep st (agseBody E st last).1 := by
  unfold agseBody
  rcases agseControl_res E (agseBisect E st last) with h | h
  · exact Or.inl h
  · exact Or.inr h

/-- along the loop: `abserr` is still `oflow`, or `result` is what it was (predicate `R`), or it is the `reseps`
    of one of the states of the trace -/
theorem agseLoop_result (E : AgseEnv K) :
    ∀ (f last : ℕ) (st : AgseSt K) (R : K → Prop), (st.abserr = E.oflow ∨ R st.result) →
      (agseLoop E f last st).1.abserr = E.oflow ∨ R (agseLoop E f last st).1.result
      ∨ ∃ s ∈ agseTrace E f last st, 0 < s.nres ∧ (agseLoop E f last st).1.result = s.reseps := by
  intro f
  induction f with
  | zero =>
    intro last st R h
    simp only [agseLoop]
    rcases h with h | h
    · exact Or.inl h
    · exact Or.inr (Or.inl h)
  | succ f ih =>
    intro last st R h
    have hb := agseBody_res E st last
    simp only [agseLoop, agseTrace]
    generalize agseBody E st last = body at *
    obtain ⟨st', ex⟩ := body
    dsimp only at hb
    have hst' : st'.abserr = E.oflow ∨ R st'.result ∨ (st'.result = st'.reseps ∧ 0 < st'.nres) := by
      rcases hb with ⟨h1, h2⟩ | h1
      · rcases h with h | h
        · exact Or.inl (h2.trans h)
        · exact Or.inr (Or.inl (h1 ▸ h))
      · exact Or.inr (Or.inr h1)
    cases ex
    · dsimp only
      have := ih (last + 1) st' (fun x => R x ∨ (x = st'.reseps ∧ 0 < st'.nres)) (by
        rcases hst' with h | h | h
        · exact Or.inl h
        · exact Or.inr (Or.inl h)
        · exact Or.inr (Or.inr h))
      rcases this with h | (h | h) | ⟨s, hs, h⟩
      · exact Or.inl h
      · exact Or.inr (Or.inl h)
      · exact Or.inr (Or.inr ⟨st', List.mem_cons_self, h.2, h.1⟩)
      · exact Or.inr (Or.inr ⟨s, List.mem_cons_of_mem _ hs, h⟩)
    all_goals
      dsimp only
      rcases hst' with h | h | h
      · exact Or.inl h
      · exact Or.inr (Or.inl h)
      · exact Or.inr (Or.inr ⟨st', List.mem_singleton.mpr rfl, h.2, h.1⟩)

/-! ## the final part -/

/-- the lists, `last` and `neval` of the output are those of the final state -/
def OutOf (E : AgseEnv K) (st : AgseSt K) (o : AgseOut K) : Prop :=
  o.alist = st.alist ∧ o.blist = st.blist ∧ o.rlist = st.rlist ∧ o.elist = st.elist ∧ o.iord = st.iord
  ∧ o.last = st.last ∧ o.neval = E.C.nevalMul * st.last - E.C.nevalOff

theorem agseReturn_out (E : AgseEnv K) (st : AgseSt K) (result abserr : K) (ier : ℕ) :
    OutOf E st (agseReturn E.C st result abserr ier) ∧ (agseReturn E.C st result abserr ier).result = result :=
  ⟨⟨rfl, rfl, rfl, rfl, rfl, rfl, rfl⟩, rfl⟩

theorem agseLabel115_out (E : AgseEnv K) (st : AgseSt K) (ier : ℕ) :
    OutOf E st (agseLabel115 E.C st ier) ∧ (agseLabel115 E.C st ier).result = sumRlist st.rlist st.last :=
  ⟨⟨rfl, rfl, rfl, rfl, rfl, rfl, rfl⟩, rfl⟩

theorem agseLabel110_out (E : AgseEnv K) (st : AgseSt K) (abserr : K) (ier : ℕ) :
    OutOf E st (agseLabel110 E.C st abserr ier) ∧ (agseLabel110 E.C st abserr ier).result = st.result := by
  unfold agseLabel110
  split <;> exact ⟨⟨rfl, rfl, rfl, rfl, rfl, rfl, rfl⟩, rfl⟩

theorem agseFinal_spec (E : AgseEnv K) (st : AgseSt K) (lab : LoopExit) :
    OutOf E st (agseFinal E st lab)
    ∧ ((agseFinal E st lab).result = sumRlist st.rlist st.last
        ∨ ((agseFinal E st lab).result = st.result ∧ st.abserr ≠ E.oflow)) := by
  have h115 := fun ier => agseLabel115_out E st ier
  have h110 := fun abserr ier => agseLabel110_out E st abserr ier
  have hret := fun result abserr ier => agseReturn_out E st result abserr ier
  unfold agseFinal
  cases lab
  case to115 => exact ⟨(h115 _).1, Or.inl (h115 _).2⟩
  all_goals
    dsimp only
    by_cases c1 : st.abserr = E.oflow
    · rw [if_pos c1]; exact ⟨(h115 _).1, Or.inl (h115 _).2⟩
    rw [if_neg c1]
    split_ifs
    all_goals first
      | exact ⟨(h115 _).1, Or.inl (h115 _).2⟩
      | exact ⟨(h110 _ _).1, Or.inr ⟨(h110 _ _).2, c1⟩⟩
      | exact ⟨(hret _ _ _).1, Or.inr ⟨(hret _ _ _).2, c1⟩⟩

/-! ## the first step of `dqagse` is `agseFirstStep` -/

/-- the first `dqk21` call of `dqagse` -/
def firstK21 (E : AgseEnv K) : K21Out K := dqk21 E.pow15 E.epmach E.uflow E.T E.f E.a E.b

/-- the run of the main loop from the initial state -/
def mainLoop (E : AgseEnv K) : AgseSt K × LoopExit := agseLoop E (E.limit - 1) 2 (agseInit E (firstK21 E))

theorem dqagse_first_step (E : AgseEnv K) (hc50 : E.C.c50 = ((50 : ℕ) : K)) (hc100 : E.C.c100 = ((100 : ℕ) : K)) :
    ((agseFirstStep E.pow15 E.epmach E.uflow E.C.floor28 E.T E.f E.a E.b E.epsabs E.epsrel E.limit).done = true →
      (dqagse E).result = (agseFirstStep E.pow15 E.epmach E.uflow E.C.floor28 E.T E.f E.a E.b E.epsabs E.epsrel E.limit).result
      ∧ (dqagse E).abserr = (agseFirstStep E.pow15 E.epmach E.uflow E.C.floor28 E.T E.f E.a E.b E.epsabs E.epsrel E.limit).abserr
      ∧ (dqagse E).ier = (agseFirstStep E.pow15 E.epmach E.uflow E.C.floor28 E.T E.f E.a E.b E.epsabs E.epsrel E.limit).ier
      ∧ (dqagse E).last ≤ 1)
    ∧ ((agseFirstStep E.pow15 E.epmach E.uflow E.C.floor28 E.T E.f E.a E.b E.epsabs E.epsrel E.limit).done = false →
      dqagse E = agseFinal E (mainLoop E).1 (mainLoop E).2) := by
  unfold dqagse agseFirstStep mainLoop firstK21
  dsimp only
  rw [hc50, hc100]
  by_cases hg : E.epsabs ≤ 0 ∧ E.epsrel < qmax (((50 : ℕ) : K) * E.epmach) E.C.floor28
  · rw [if_pos hg, if_pos hg]
    exact ⟨fun _ => ⟨rfl, rfl, rfl, by simp⟩, fun h => by simp at h⟩
  · rw [if_neg hg, if_neg hg]
    constructor
    · intro h
      simp only [Bool.or_eq_true, Bool.and_eq_true, decide_eq_true_eq] at h
      have h' : ((if E.limit = 1 then 1 else if (dqk21 E.pow15 E.epmach E.uflow E.T E.f E.a E.b).abserr ≤ ((100 : ℕ) : K) * E.epmach * (dqk21 E.pow15 E.epmach E.uflow E.T E.f E.a E.b).resabs ∧ qmax E.epsabs (E.epsrel * qabs (dqk21 E.pow15 E.epmach E.uflow E.T E.f E.a E.b).result) < (dqk21 E.pow15 E.epmach E.uflow E.T E.f E.a E.b).abserr then 2 else 0) ≠ 0 ∨ (dqk21 E.pow15 E.epmach E.uflow E.T E.f E.a E.b).abserr ≤ qmax E.epsabs (E.epsrel * qabs (dqk21 E.pow15 E.epmach E.uflow E.T E.f E.a E.b).result) ∧ (dqk21 E.pow15 E.epmach E.uflow E.T E.f E.a E.b).abserr ≠ (dqk21 E.pow15 E.epmach E.uflow E.T E.f E.a E.b).resasc) ∨ (dqk21 E.pow15 E.epmach E.uflow E.T E.f E.a E.b).abserr = 0 := h
      have hc : (if E.limit = 1 then 1 else if (dqk21 E.pow15 E.epmach E.uflow E.T E.f E.a E.b).abserr ≤ ((100 : ℕ) : K) * E.epmach * (dqk21 E.pow15 E.epmach E.uflow E.T E.f E.a E.b).resabs ∧ qmax E.epsabs (E.epsrel * qabs (dqk21 E.pow15 E.epmach E.uflow E.T E.f E.a E.b).result) < (dqk21 E.pow15 E.epmach E.uflow E.T E.f E.a E.b).abserr then 2 else 0) ≠ 0 ∨ (dqk21 E.pow15 E.epmach E.uflow E.T E.f E.a E.b).abserr ≤ qmax E.epsabs (E.epsrel * qabs (dqk21 E.pow15 E.epmach E.uflow E.T E.f E.a E.b).result) ∧ (dqk21 E.pow15 E.epmach E.uflow E.T E.f E.a E.b).abserr ≠ (dqk21 E.pow15 E.epmach E.uflow E.T E.f E.a E.b).resasc ∨ (dqk21 E.pow15 E.epmach E.uflow E.T E.f E.a E.b).abserr = 0 := by
        tauto
      rw [if_pos hc]
      exact ⟨rfl, rfl, rfl, le_refl _⟩
    · intro h
      simp only [Bool.or_eq_false_iff, Bool.and_eq_false_iff, decide_eq_false_iff_not] at h
      have h' : (¬ (if E.limit = 1 then 1 else if (dqk21 E.pow15 E.epmach E.uflow E.T E.f E.a E.b).abserr ≤ ((100 : ℕ) : K) * E.epmach * (dqk21 E.pow15 E.epmach E.uflow E.T E.f E.a E.b).resabs ∧ qmax E.epsabs (E.epsrel * qabs (dqk21 E.pow15 E.epmach E.uflow E.T E.f E.a E.b).result) < (dqk21 E.pow15 E.epmach E.uflow E.T E.f E.a E.b).abserr then 2 else 0) ≠ 0 ∧ (¬ (dqk21 E.pow15 E.epmach E.uflow E.T E.f E.a E.b).abserr ≤ qmax E.epsabs (E.epsrel * qabs (dqk21 E.pow15 E.epmach E.uflow E.T E.f E.a E.b).result) ∨ ¬ (dqk21 E.pow15 E.epmach E.uflow E.T E.f E.a E.b).abserr ≠ (dqk21 E.pow15 E.epmach E.uflow E.T E.f E.a E.b).resasc)) ∧ ¬ (dqk21 E.pow15 E.epmach E.uflow E.T E.f E.a E.b).abserr = 0 := h
      have hc : ¬ ((if E.limit = 1 then 1 else if (dqk21 E.pow15 E.epmach E.uflow E.T E.f E.a E.b).abserr ≤ ((100 : ℕ) : K) * E.epmach * (dqk21 E.pow15 E.epmach E.uflow E.T E.f E.a E.b).resabs ∧ qmax E.epsabs (E.epsrel * qabs (dqk21 E.pow15 E.epmach E.uflow E.T E.f E.a E.b).result) < (dqk21 E.pow15 E.epmach E.uflow E.T E.f E.a E.b).abserr then 2 else 0) ≠ 0 ∨ (dqk21 E.pow15 E.epmach E.uflow E.T E.f E.a E.b).abserr ≤ qmax E.epsabs (E.epsrel * qabs (dqk21 E.pow15 E.epmach E.uflow E.T E.f E.a E.b).result) ∧ (dqk21 E.pow15 E.epmach E.uflow E.T E.f E.a E.b).abserr ≠ (dqk21 E.pow15 E.epmach E.uflow E.T E.f E.a E.b).resasc ∨ (dqk21 E.pow15 E.epmach E.uflow E.T E.f E.a E.b).abserr = 0) := by
        tauto
      rw [if_neg hc]

/-- the three ways `dqagse` returns: invalid input (`last = 0`), after the first `dqk21` (`last = 1`), or through
    the final part entered from the main loop -/
theorem dqagse_cases (E : AgseEnv K) :
    ((dqagse E).last ≤ 1 ∧ (dqagse E).neval = E.C.nevalMul * (dqagse E).last - E.C.nevalOff)
    ∨ dqagse E = agseFinal E (mainLoop E).1 (mainLoop E).2 := by
  unfold dqagse mainLoop firstK21
  dsimp only
  by_cases hg : E.epsabs ≤ 0 ∧ E.epsrel < qmax (E.C.c50 * E.epmach) E.C.floor28
  · rw [if_pos hg]
    exact Or.inl ⟨by simp, by simp⟩
  · rw [if_neg hg]
    by_cases hc : (if E.limit = 1 then 1 else if (dqk21 E.pow15 E.epmach E.uflow E.T E.f E.a E.b).abserr ≤ E.C.c100 * E.epmach * (dqk21 E.pow15 E.epmach E.uflow E.T E.f E.a E.b).resabs ∧ qmax E.epsabs (E.epsrel * qabs (dqk21 E.pow15 E.epmach E.uflow E.T E.f E.a E.b).result) < (dqk21 E.pow15 E.epmach E.uflow E.T E.f E.a E.b).abserr then 2 else 0) ≠ 0 ∨ (dqk21 E.pow15 E.epmach E.uflow E.T E.f E.a E.b).abserr ≤ qmax E.epsabs (E.epsrel * qabs (dqk21 E.pow15 E.epmach E.uflow E.T E.f E.a E.b).result) ∧ (dqk21 E.pow15 E.epmach E.uflow E.T E.f E.a E.b).abserr ≠ (dqk21 E.pow15 E.epmach E.uflow E.T E.f E.a E.b).resasc ∨ (dqk21 E.pow15 E.epmach E.uflow E.T E.f E.a E.b).abserr = 0
    · rw [if_pos hc]
      exact Or.inl ⟨le_refl _, rfl⟩
    · rw [if_neg hc]
      exact Or.inr rfl

/-- `limit = 1`: the loop is not entered (`ier = 1`, `go to 140`) -/
theorem dqagse_limit_one (E : AgseEnv K) (hlim : E.limit = 1) : (dqagse E).last ≤ 1 := by
  unfold dqagse
  dsimp only
  by_cases hg : E.epsabs ≤ 0 ∧ E.epsrel < qmax (E.C.c50 * E.epmach) E.C.floor28
  · rw [if_pos hg]; simp
  · rw [if_neg hg]
    have hc : (if E.limit = 1 then 1 else if (dqk21 E.pow15 E.epmach E.uflow E.T E.f E.a E.b).abserr ≤ E.C.c100 * E.epmach * (dqk21 E.pow15 E.epmach E.uflow E.T E.f E.a E.b).resabs ∧ qmax E.epsabs (E.epsrel * qabs (dqk21 E.pow15 E.epmach E.uflow E.T E.f E.a E.b).result) < (dqk21 E.pow15 E.epmach E.uflow E.T E.f E.a E.b).abserr then 2 else 0) ≠ 0 ∨ (dqk21 E.pow15 E.epmach E.uflow E.T E.f E.a E.b).abserr ≤ qmax E.epsabs (E.epsrel * qabs (dqk21 E.pow15 E.epmach E.uflow E.T E.f E.a E.b).result) ∧ (dqk21 E.pow15 E.epmach E.uflow E.T E.f E.a E.b).abserr ≠ (dqk21 E.pow15 E.epmach E.uflow E.T E.f E.a E.b).resasc ∨ (dqk21 E.pow15 E.epmach E.uflow E.T E.f E.a E.b).abserr = 0 := Or.inl (by rw [if_pos hlim]; omega)
    rw [if_pos hc]
