import BezierVerif.Lemmas.Quadrature
import Mathlib.Analysis.SpecialFunctions.Integrals.Basic

/-!
# Lemmas/QuadratureReal — the formal integral `polyInt` is the interval integral over `ℝ`
-/

namespace BezierVerif.QuadLemmas

open Finset BezierVerif.Model

/-- `polyInt cs a b = ∫_a^b Σ_k c_k x^k dx` (Mathlib's interval integral) -/
theorem polyInt_eq_integral (cs : List ℝ) (a b : ℝ) : polyInt cs a b = ∫ x in a..b, polySum cs x := by
  unfold polyInt polySum
  rw [intervalIntegral.integral_finsetSum]
  · apply Finset.sum_congr rfl
    intro k _
    rw [intervalIntegral.integral_const_mul, integral_pow]
    push_cast
    ring
  · intro k _
    exact (continuous_const.mul (continuous_pow k)).intervalIntegrable _ _

end BezierVerif.QuadLemmas
