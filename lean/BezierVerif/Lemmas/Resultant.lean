import BezierVerif.Lemmas.Algebraic
import BezierVerif.Lemmas.Deriv
import Mathlib.RingTheory.Polynomial.Resultant.Basic
import Mathlib.LinearAlgebra.Matrix.Notation
import Mathlib.LinearAlgebra.Matrix.Block
import Mathlib.FieldTheory.IsAlgClosed.Basic
import Mathlib.Algebra.Polynomial.Degree.Lemmas
import Mathlib.Algebra.Polynomial.Roots
import Mathlib.Tactic.Ring
import Mathlib.Tactic.FinCases

/-!
# Lemmas/Resultant — helpers for `Props/C19More.lean`

* the implicit functions `evaluate1/2/3` of `Model/Algebraic.lean` are (up to the sign `-1, 1, 1`)
  Mathlib's Sylvester resultant `Polynomial.resultant (X(s) − x) (Y(s) − y) d d`; both are the
  determinant of the Bezout matrix of brackets `[ij] = dᵢ eⱼ − dⱼ eᵢ` (`bez2`, `bez3`);
* consequences of the resultant: zero set, identically zero iff degree-elevated;
* the characteristic polynomial of the companion matrix, every size;
* functions `K → K` that are polynomials of bounded degree (`IsPolyLe`), the composition
  `t ↦ f₁(B₂(t))` has degree `≤ d₁ d₂`;
* the root set of a Bernstein polynomial through the σ-polynomial.
-/

set_option linter.unusedSectionVars false
set_option linter.unusedSimpArgs false
set_option linter.unusedVariables false

namespace BezierVerif.ResLemmas

open Polynomial Finset BezierVerif BezierVerif.Model BezierVerif.Model.Alg BezierVerif.AlgLemmas
  BezierVerif.Deriv

/-! ### Bezout forms and the two Sylvester layouts -/

section Ring
variable {R : Type} [CommRing R]

/-- determinant of the symmetric 3×3 Bezout matrix
    `[[b01, b02, b03], [b02, b03 + b12, b13], [b03, b13, b23]]` -/
def bezDet3 (b01 b02 b03 b12 b13 b23 : R) : R :=
  b01 * ((b03 + b12) * b23 - b13 * b13) - b02 * (b02 * b23 - b13 * b03)
    + b03 * (b02 * b13 - (b03 + b12) * b03)

/-- Bezout resultant of two cubic forms with coefficients `d`, `e` -/
def bez3 (d0 d1 d2 d3 e0 e1 e2 e3 : R) : R :=
  bezDet3 (d0 * e1 - d1 * e0) (d0 * e2 - d2 * e0) (d0 * e3 - d3 * e0)
    (d1 * e2 - d2 * e1) (d1 * e3 - d3 * e1) (d2 * e3 - d3 * e2)

/-- determinant of the 2×2 Bezout matrix `[[b01, b02], [b02, b12]]`, negated -/
def bezDet2 (b01 b02 b12 : R) : R := b02 * b02 - b01 * b12

/-- Bezout resultant of two quadratic forms -/
def bez2 (d0 d1 d2 e0 e1 e2 : R) : R :=
  bezDet2 (d0 * e1 - d1 * e0) (d0 * e2 - d2 * e0) (d1 * e2 - d2 * e1)

/-- the row-interleaved 6×6 Sylvester determinant (layout of `_evaluate3`) is the Bezout determinant -/
theorem det6_rows (d0 d1 d2 d3 e0 e1 e2 e3 : R) :
    Matrix.det !![d0, d1, d2, d3, 0, 0; e0, e1, e2, e3, 0, 0; 0, d0, d1, d2, d3, 0; 0, e0, e1, e2, e3, 0;
      0, 0, d0, d1, d2, d3; 0, 0, e0, e1, e2, e3] = bez3 d0 d1 d2 d3 e0 e1 e2 e3 := by
  simp [Matrix.det_succ_row_zero, Fin.sum_univ_succ, Matrix.submatrix, Fin.succAbove, bez3, bezDet3]
  ring

/-- the column-block 6×6 Sylvester determinant (layout of `Polynomial.sylvester f g 3 3`) -/
theorem det6_cols (a0 a1 a2 a3 b0 b1 b2 b3 : R) :
    Matrix.det !![b0, 0, 0, a0, 0, 0; b1, b0, 0, a1, a0, 0; b2, b1, b0, a2, a1, a0; b3, b2, b1, a3, a2, a1;
      0, b3, b2, 0, a3, a2; 0, 0, b3, 0, 0, a3] = bez3 a0 a1 a2 a3 b0 b1 b2 b3 := by
  simp [Matrix.det_succ_row_zero, Fin.sum_univ_succ, Matrix.submatrix, Fin.succAbove, bez3, bezDet3]
  ring

theorem det4_cols (a0 a1 a2 b0 b1 b2 : R) :
    Matrix.det !![b0, 0, a0, 0; b1, b0, a1, a0; b2, b1, a2, a1; 0, b2, 0, a2] = bez2 a0 a1 a2 b0 b1 b2 := by
  simp [Matrix.det_succ_row_zero, Fin.sum_univ_succ, Matrix.submatrix, Fin.succAbove, bez2, bezDet2]
  ring

/-- the Bezout forms are invariant under the Bernstein → power change of basis
    (scaled Bernstein coefficients `dⱼ = C(n,j) cⱼ`) -/
theorem bez3_basis (d0 d1 d2 d3 e0 e1 e2 e3 : R) :
    bez3 d0 d1 d2 d3 e0 e1 e2 e3 =
      bez3 d0 (d1 - 3 * d0) (d2 - 2 * d1 + 3 * d0) (d3 - d2 + d1 - d0)
        e0 (e1 - 3 * e0) (e2 - 2 * e1 + 3 * e0) (e3 - e2 + e1 - e0) := by
  simp only [bez3, bezDet3]; ring

theorem bez2_basis (d0 d1 d2 e0 e1 e2 : R) :
    bez2 d0 d1 d2 e0 e1 e2 = bez2 d0 (d1 - 2 * d0) (d2 - d1 + d0) e0 (e1 - 2 * e0) (e2 - e1 + e0) := by
  simp only [bez2, bezDet2]; ring

theorem sylvester11 (f g : R[X]) :
    sylvester f g 1 1 = !![g.coeff 0, f.coeff 0; g.coeff 1, f.coeff 1] := by
  ext i j
  fin_cases i <;> fin_cases j <;> simp [sylvester, Fin.addCases, Fin.subNat, Fin.castLT]

theorem sylvester22 (f g : R[X]) :
    sylvester f g 2 2 = !![g.coeff 0, 0, f.coeff 0, 0;
      g.coeff 1, g.coeff 0, f.coeff 1, f.coeff 0;
      g.coeff 2, g.coeff 1, f.coeff 2, f.coeff 1;
      0, g.coeff 2, 0, f.coeff 2] := by
  ext i j
  fin_cases i <;> fin_cases j <;> simp [sylvester, Fin.addCases, Fin.subNat, Fin.castLT]

theorem sylvester33 (f g : R[X]) :
    sylvester f g 3 3 = !![g.coeff 0, 0, 0, f.coeff 0, 0, 0;
      g.coeff 1, g.coeff 0, 0, f.coeff 1, f.coeff 0, 0;
      g.coeff 2, g.coeff 1, g.coeff 0, f.coeff 2, f.coeff 1, f.coeff 0;
      g.coeff 3, g.coeff 2, g.coeff 1, f.coeff 3, f.coeff 2, f.coeff 1;
      0, g.coeff 3, g.coeff 2, 0, f.coeff 3, f.coeff 2;
      0, 0, g.coeff 3, 0, 0, f.coeff 3] := by
  ext i j
  fin_cases i <;> fin_cases j <;> simp [sylvester, Fin.addCases, Fin.subNat, Fin.castLT]

theorem resultant11 (f g : R[X]) :
    resultant f g 1 1 = f.coeff 1 * g.coeff 0 - f.coeff 0 * g.coeff 1 := by
  rw [resultant, sylvester11, Matrix.det_fin_two_of]; ring

theorem resultant22 (f g : R[X]) :
    resultant f g 2 2 = bez2 (f.coeff 0) (f.coeff 1) (f.coeff 2) (g.coeff 0) (g.coeff 1) (g.coeff 2) := by
  rw [resultant, sylvester22, det4_cols]

theorem resultant33 (f g : R[X]) :
    resultant f g 3 3 = bez3 (f.coeff 0) (f.coeff 1) (f.coeff 2) (f.coeff 3)
      (g.coeff 0) (g.coeff 1) (g.coeff 2) (g.coeff 3) := by
  rw [resultant, sylvester33, det6_cols]

end Ring

section Field
variable {K : Type} [Field K]

/-! ### power-basis form of the Bernstein coordinate polynomials (degree 1, 2, 3) -/

theorem bernPoly_one (c0 c1 : K) : bernPoly 1 (seq [c0, c1]) = C c0 + C (c1 - c0) * X := by
  simp [bernPoly, bernsteinPolynomial, Finset.sum_range_succ, seq, Nat.choose]
  ring

theorem bernPoly_two (c0 c1 c2 : K) :
    bernPoly 2 (seq [c0, c1, c2]) = C c0 + C (2 * (c1 - c0)) * X + C (c2 - 2 * c1 + c0) * X ^ 2 := by
  simp [bernPoly, bernsteinPolynomial, Finset.sum_range_succ, seq, Nat.choose]
  rw [show (C (2:K)) = 2 from map_ofNat C 2]
  ring

theorem bernPoly_three (c0 c1 c2 c3 : K) :
    bernPoly 3 (seq [c0, c1, c2, c3]) = C c0 + C (3 * (c1 - c0)) * X + C (3 * (c2 - 2 * c1 + c0)) * X ^ 2
      + C (c3 - 3 * c2 + 3 * c1 - c0) * X ^ 3 := by
  simp [bernPoly, bernsteinPolynomial, Finset.sum_range_succ, seq, Nat.choose]
  rw [show (C (2:K)) = 2 from map_ofNat C 2, show (C (3:K)) = 3 from map_ofNat C 3]
  ring

theorem coeff_bernPoly_one_sub (c0 c1 x : K) :
    (bernPoly 1 (seq [c0, c1]) - C x).coeff 0 = c0 - x ∧
    (bernPoly 1 (seq [c0, c1]) - C x).coeff 1 = c1 - c0 := by
  rw [bernPoly_one]; simp [coeff_add, coeff_sub, coeff_C_mul, coeff_X, coeff_C, -map_sub]

theorem coeff_bernPoly_two_sub (c0 c1 c2 x : K) :
    (bernPoly 2 (seq [c0, c1, c2]) - C x).coeff 0 = c0 - x ∧
    (bernPoly 2 (seq [c0, c1, c2]) - C x).coeff 1 = 2 * (c1 - c0) ∧
    (bernPoly 2 (seq [c0, c1, c2]) - C x).coeff 2 = c2 - 2 * c1 + c0 := by
  rw [bernPoly_two]; simp [coeff_add, coeff_sub, coeff_C_mul, coeff_X, coeff_C, coeff_X_pow, -map_sub, -map_add, -map_mul]

theorem coeff_bernPoly_three_sub (c0 c1 c2 c3 x : K) :
    (bernPoly 3 (seq [c0, c1, c2, c3]) - C x).coeff 0 = c0 - x ∧
    (bernPoly 3 (seq [c0, c1, c2, c3]) - C x).coeff 1 = 3 * (c1 - c0) ∧
    (bernPoly 3 (seq [c0, c1, c2, c3]) - C x).coeff 2 = 3 * (c2 - 2 * c1 + c0) ∧
    (bernPoly 3 (seq [c0, c1, c2, c3]) - C x).coeff 3 = c3 - 3 * c2 + 3 * c1 - c0 := by
  rw [bernPoly_three]; simp [coeff_add, coeff_sub, coeff_C_mul, coeff_X, coeff_C, coeff_X_pow, -map_sub, -map_add, -map_mul]

/-! ### the implicit functions are Bezout determinants of the scaled Bernstein coefficients -/

theorem evaluate2_eq_bez (x0 x1 x2 y0 y1 y2 x y : K) :
    evaluate2 x0 x1 x2 y0 y1 y2 x y =
      bez2 (x0 - x) ((x1 - x) * 2) (x2 - x) (y0 - y) ((y1 - y) * 2) (y2 - y) := by
  simp only [evaluate2, bez2, bezDet2, nat_eq, Nat.cast_ofNat]; ring

theorem toMatrix_sylvester3 (x0 x1 x2 x3 y0 y1 y2 y3 x y : K) :
    toMatrix 6 (sylvester3 [x0, x1, x2, x3] [y0, y1, y2, y3] x y) =
      !![x0 - x, (x1 - x) * 3, (x2 - x) * 3, x3 - x, 0, 0;
         y0 - y, (y1 - y) * 3, (y2 - y) * 3, y3 - y, 0, 0;
         0, x0 - x, (x1 - x) * 3, (x2 - x) * 3, x3 - x, 0;
         0, y0 - y, (y1 - y) * 3, (y2 - y) * 3, y3 - y, 0;
         0, 0, x0 - x, (x1 - x) * 3, (x2 - x) * 3, x3 - x;
         0, 0, y0 - y, (y1 - y) * 3, (y2 - y) * 3, y3 - y] := by
  ext i j
  fin_cases i <;> fin_cases j <;>
    simp [toMatrix, sylvester3, shiftRow, delta3, seq, nat, List.range_succ]

theorem evaluate3_eq_bez (x0 x1 x2 x3 y0 y1 y2 y3 x y : K) :
    evaluate3 [x0, x1, x2, x3] [y0, y1, y2, y3] x y =
      bez3 (x0 - x) ((x1 - x) * 3) ((x2 - x) * 3) (x3 - x) (y0 - y) ((y1 - y) * 3) ((y2 - y) * 3) (y3 - y) := by
  unfold evaluate3
  rw [det_eq_matrix_det, toMatrix_sylvester3, det6_rows]

/-! ### … hence Sylvester resultants of `X(s) − x`, `Y(s) − y` (constants `-1, 1, 1`) -/

theorem evaluate1_eq_resultant (x0 x1 y0 y1 x y : K) :
    evaluate1 x0 x1 y0 y1 x y =
      -resultant (bernPoly 1 (seq [x0, x1]) - C x) (bernPoly 1 (seq [y0, y1]) - C y) 1 1 := by
  obtain ⟨a0, a1⟩ := coeff_bernPoly_one_sub x0 x1 x
  obtain ⟨b0, b1⟩ := coeff_bernPoly_one_sub y0 y1 y
  rw [resultant11, a0, a1, b0, b1, evaluate1]; ring

theorem evaluate2_eq_resultant (x0 x1 x2 y0 y1 y2 x y : K) :
    evaluate2 x0 x1 x2 y0 y1 y2 x y =
      resultant (bernPoly 2 (seq [x0, x1, x2]) - C x) (bernPoly 2 (seq [y0, y1, y2]) - C y) 2 2 := by
  obtain ⟨a0, a1, a2⟩ := coeff_bernPoly_two_sub x0 x1 x2 x
  obtain ⟨b0, b1, b2⟩ := coeff_bernPoly_two_sub y0 y1 y2 y
  rw [resultant22, a0, a1, a2, b0, b1, b2, evaluate2_eq_bez, bez2_basis]
  congr 1 <;> ring

theorem evaluate3_eq_resultant (x0 x1 x2 x3 y0 y1 y2 y3 x y : K) :
    evaluate3 [x0, x1, x2, x3] [y0, y1, y2, y3] x y =
      resultant (bernPoly 3 (seq [x0, x1, x2, x3]) - C x) (bernPoly 3 (seq [y0, y1, y2, y3]) - C y) 3 3 := by
  obtain ⟨a0, a1, a2, a3⟩ := coeff_bernPoly_three_sub x0 x1 x2 x3 x
  obtain ⟨b0, b1, b2, b3⟩ := coeff_bernPoly_three_sub y0 y1 y2 y3 y
  rw [resultant33, a0, a1, a2, a3, b0, b1, b2, b3, evaluate3_eq_bez, bez3_basis]
  congr 1 <;> ring

end Field

section Field
variable {K : Type} [Field K]

/-! ### degrees -/

theorem natDegree_bernsteinPolynomial_le (n j : ℕ) : (bernsteinPolynomial K n j).natDegree ≤ n := by
  by_cases hj : j ≤ n
  · unfold bernsteinPolynomial
    have h1 : ((n.choose j : K[X])).natDegree ≤ 0 := (natDegree_natCast _).le
    have h2 : ((X : K[X]) ^ j).natDegree ≤ j := natDegree_X_pow_le j
    have h3 : ((1 - X : K[X]) ^ (n - j)).natDegree ≤ (n - j) * 1 :=
      natDegree_pow_le_of_le _ (natDegree_sub_le_of_le natDegree_one.le natDegree_X_le)
    have := natDegree_mul_le_of_le (natDegree_mul_le_of_le h1 h2) h3
    omega
  · rw [bernsteinPolynomial.eq_zero_of_lt K (by omega)]; simp

theorem natDegree_bernPoly_le (n : ℕ) (v : ℕ → K) : (bernPoly n v).natDegree ≤ n := by
  unfold bernPoly
  apply natDegree_sum_le_of_forall_le
  intro j _
  exact (natDegree_C_mul_le _ _).trans (natDegree_bernsteinPolynomial_le n j)

theorem natDegree_bernPoly_sub_C_le (n : ℕ) (v : ℕ → K) (x : K) : (bernPoly n v - C x).natDegree ≤ n :=
  (natDegree_sub_le_of_le (natDegree_bernPoly_le n v) ((natDegree_C x).le.trans (Nat.zero_le n))).trans
    (max_self n).le

theorem coeff_bernPoly_sub_C (n : ℕ) (hn : 1 ≤ n) (v : ℕ → K) (x : K) :
    (bernPoly n v - C x).coeff n = (bernPoly n v).coeff n := by
  rw [coeff_sub, coeff_C, if_neg (by omega), sub_zero]

/-! ### what a vanishing resultant (formal degrees `d, d`) means -/

theorem resultant_eq_zero_iff_of_coeff_left {f g : K[X]} {d : ℕ} (hf : f.natDegree ≤ d)
    (hg : g.natDegree ≤ d) (h : f.coeff d ≠ 0) : resultant f g d d = 0 ↔ ¬ IsCoprime f g := by
  have hfn : f.natDegree = d := le_antisymm hf (le_natDegree_of_ne_zero h)
  have hf0 : f ≠ 0 := fun h0 => h (by rw [h0, coeff_zero])
  obtain ⟨k, hk⟩ : ∃ k, d = g.natDegree + k := ⟨d - g.natDegree, by omega⟩
  have h1 : resultant f g d d = f.coeff d ^ k * resultant f g d g.natDegree := by
    conv_lhs => rw [hk]
    rw [← hk]
    have := resultant_add_right_deg f g d g.natDegree k le_rfl
    rw [← hk] at this
    exact this
  have h2 : resultant f g d g.natDegree = resultant f g := by rw [← hfn]
  rw [h1, h2, mul_eq_zero, resultant_eq_zero_iff]
  constructor
  · rintro (h' | h')
    · exact absurd h' (pow_ne_zero k h)
    · exact h'.2
  · intro h'; exact Or.inr ⟨Or.inl hf0, h'⟩

theorem resultant_eq_zero_iff_of_coeff {f g : K[X]} {d : ℕ} (hf : f.natDegree ≤ d)
    (hg : g.natDegree ≤ d) (h : f.coeff d ≠ 0 ∨ g.coeff d ≠ 0) :
    resultant f g d d = 0 ↔ ¬ IsCoprime f g := by
  rcases h with h | h
  · exact resultant_eq_zero_iff_of_coeff_left hf hg h
  · rw [resultant_comm, mul_eq_zero, isCoprime_comm]
    rw [← resultant_eq_zero_iff_of_coeff_left hg hf h]
    constructor
    · rintro (h' | h')
      · exact absurd h' (pow_ne_zero _ (neg_ne_zero.mpr one_ne_zero))
      · exact h'
    · intro h'; exact Or.inr h'

theorem resultant_eq_zero_of_coeff_eq_zero {f g : K[X]} {d : ℕ} (hd : 1 ≤ d) (hf : f.natDegree ≤ d)
    (hg : g.natDegree ≤ d) (h1 : f.coeff d = 0) (h2 : g.coeff d = 0) : resultant f g d d = 0 := by
  have lt : ∀ p : K[X], p.natDegree ≤ d → p.coeff d = 0 → p.natDegree < d := by
    intro p hp hc
    rcases Nat.lt_or_ge p.natDegree d with h | h
    · exact h
    · have hpd : p.natDegree = d := le_antisymm hp h
      by_cases hp0 : p = 0
      · rw [hp0, natDegree_zero]; omega
      · exact absurd (hpd ▸ hc) (by rw [coeff_natDegree]; exact leadingCoeff_ne_zero.mpr hp0)
  exact resultant_eq_zero_of_lt_lt f g d d (lt f hf h1) (lt g hg h2)

/-- common roots in an algebraically closed extension -/
theorem not_isCoprime_iff_common_root (L : Type) [Field L] [IsAlgClosed L] [Algebra K L] (f g : K[X]) :
    ¬ IsCoprime f g ↔ ∃ s : L, aeval s f = 0 ∧ aeval s g = 0 := by
  have := Polynomial.isCoprime_iff_aeval_ne_zero_of_isAlgClosed (k := K) L f g
  rw [this]
  simp only [not_forall, not_or, ne_eq, not_not]

end Field

/-! ### the implicit function is not identically zero unless the curve is degree-elevated -/

section Ring
variable {R : Type} [CommRing R]

theorem bez3_third_difference_y (a0 a1 a2 a3 b0 b1 b2 b3 : R) :
    bez3 a0 a1 a2 a3 b0 b1 b2 b3 - 3 * bez3 a0 a1 a2 a3 (b0 - 1) b1 b2 b3
      + 3 * bez3 a0 a1 a2 a3 (b0 - 2) b1 b2 b3 - bez3 a0 a1 a2 a3 (b0 - 3) b1 b2 b3 = 6 * a3 ^ 3 := by
  simp only [bez3, bezDet3]; ring

theorem bez3_third_difference_x (a0 a1 a2 a3 b0 b1 b2 b3 : R) :
    bez3 a0 a1 a2 a3 b0 b1 b2 b3 - 3 * bez3 (a0 - 1) a1 a2 a3 b0 b1 b2 b3
      + 3 * bez3 (a0 - 2) a1 a2 a3 b0 b1 b2 b3 - bez3 (a0 - 3) a1 a2 a3 b0 b1 b2 b3 = -(6 * b3 ^ 3) := by
  simp only [bez3, bezDet3]; ring

theorem bez2_second_difference_y (a0 a1 a2 b0 b1 b2 : R) :
    bez2 a0 a1 a2 b0 b1 b2 - 2 * bez2 a0 a1 a2 (b0 - 1) b1 b2 + bez2 a0 a1 a2 (b0 - 2) b1 b2
      = 2 * a2 ^ 2 := by
  simp only [bez2, bezDet2]; ring

theorem bez2_second_difference_x (a0 a1 a2 b0 b1 b2 : R) :
    bez2 a0 a1 a2 b0 b1 b2 - 2 * bez2 (a0 - 1) a1 a2 b0 b1 b2 + bez2 (a0 - 2) a1 a2 b0 b1 b2
      = 2 * b2 ^ 2 := by
  simp only [bez2, bezDet2]; ring

end Ring

section Field
variable {K : Type} [Field K]

/-- the implicit function in power coefficients -/
theorem evaluate3_eq_bez_power (x0 x1 x2 x3 y0 y1 y2 y3 x y : K) :
    evaluate3 [x0, x1, x2, x3] [y0, y1, y2, y3] x y =
      bez3 (x0 - x) (3 * (x1 - x0)) (3 * (x2 - 2 * x1 + x0)) (x3 - 3 * x2 + 3 * x1 - x0)
        (y0 - y) (3 * (y1 - y0)) (3 * (y2 - 2 * y1 + y0)) (y3 - 3 * y2 + 3 * y1 - y0) := by
  rw [evaluate3_eq_bez, bez3_basis]; congr 1 <;> ring

theorem evaluate2_eq_bez_power (x0 x1 x2 y0 y1 y2 x y : K) :
    evaluate2 x0 x1 x2 y0 y1 y2 x y =
      bez2 (x0 - x) (2 * (x1 - x0)) (x2 - 2 * x1 + x0) (y0 - y) (2 * (y1 - y0)) (y2 - 2 * y1 + y0) := by
  rw [evaluate2_eq_bez, bez2_basis]; congr 1 <;> ring

variable [CharZero K]

theorem evaluate1_not_identically_zero (x0 x1 y0 y1 : K) (h : x1 - x0 ≠ 0 ∨ y1 - y0 ≠ 0) :
    ∃ x y, evaluate1 x0 x1 y0 y1 x y ≠ 0 := by
  by_contra hc
  push Not at hc
  have e1 := hc 0 0
  have e2 := hc 0 1
  have e3 := hc 1 0
  simp only [evaluate1] at e1 e2 e3
  rcases h with h | h
  · apply h; linear_combination e2 - e1
  · apply h; linear_combination e1 - e3

theorem evaluate2_not_identically_zero (x0 x1 x2 y0 y1 y2 : K)
    (h : x2 - 2 * x1 + x0 ≠ 0 ∨ y2 - 2 * y1 + y0 ≠ 0) :
    ∃ x y, evaluate2 x0 x1 x2 y0 y1 y2 x y ≠ 0 := by
  by_contra hc
  push Not at hc
  simp only [evaluate2_eq_bez_power] at hc
  have two : (2 : K) ≠ 0 := two_ne_zero
  rcases h with h | h
  · have := bez2_second_difference_y (x0 - 0) (2 * (x1 - x0)) (x2 - 2 * x1 + x0) (y0 - 0) (2 * (y1 - y0))
      (y2 - 2 * y1 + y0)
    rw [sub_sub, sub_sub, hc 0 0, hc 0 (0 + 1), hc 0 (0 + 2)] at this
    have h' : 2 * (x2 - 2 * x1 + x0) ^ 2 = 0 := by rw [← this]; ring
    exact h (pow_eq_zero_iff (two_ne_zero) |>.mp ((mul_eq_zero.mp h').resolve_left two))
  · have := bez2_second_difference_x (x0 - 0) (2 * (x1 - x0)) (x2 - 2 * x1 + x0) (y0 - 0) (2 * (y1 - y0))
      (y2 - 2 * y1 + y0)
    rw [sub_sub, sub_sub, hc 0 0, hc (0 + 1) 0, hc (0 + 2) 0] at this
    have h' : 2 * (y2 - 2 * y1 + y0) ^ 2 = 0 := by rw [← this]; ring
    exact h (pow_eq_zero_iff (two_ne_zero) |>.mp ((mul_eq_zero.mp h').resolve_left two))

theorem evaluate3_not_identically_zero (x0 x1 x2 x3 y0 y1 y2 y3 : K)
    (h : x3 - 3 * x2 + 3 * x1 - x0 ≠ 0 ∨ y3 - 3 * y2 + 3 * y1 - y0 ≠ 0) :
    ∃ x y, evaluate3 [x0, x1, x2, x3] [y0, y1, y2, y3] x y ≠ 0 := by
  by_contra hc
  push Not at hc
  simp only [evaluate3_eq_bez_power] at hc
  have six : (6 : K) ≠ 0 := by norm_num
  rcases h with h | h
  · have := bez3_third_difference_y (x0 - 0) (3 * (x1 - x0)) (3 * (x2 - 2 * x1 + x0)) (x3 - 3 * x2 + 3 * x1 - x0)
      (y0 - 0) (3 * (y1 - y0)) (3 * (y2 - 2 * y1 + y0)) (y3 - 3 * y2 + 3 * y1 - y0)
    rw [sub_sub, sub_sub, sub_sub, hc 0 0, hc 0 (0 + 1), hc 0 (0 + 2), hc 0 (0 + 3)] at this
    have h' : 6 * (x3 - 3 * x2 + 3 * x1 - x0) ^ 3 = 0 := by rw [← this]; ring
    exact h (pow_eq_zero_iff (by norm_num) |>.mp ((mul_eq_zero.mp h').resolve_left six))
  · have := bez3_third_difference_x (x0 - 0) (3 * (x1 - x0)) (3 * (x2 - 2 * x1 + x0)) (x3 - 3 * x2 + 3 * x1 - x0)
      (y0 - 0) (3 * (y1 - y0)) (3 * (y2 - 2 * y1 + y0)) (y3 - 3 * y2 + 3 * y1 - y0)
    rw [sub_sub, sub_sub, sub_sub, hc 0 0, hc (0 + 1) 0, hc (0 + 2) 0, hc (0 + 3) 0] at this
    have h' : 6 * (y3 - 3 * y2 + 3 * y1 - y0) ^ 3 = 0 := by linear_combination this
    exact h (pow_eq_zero_iff (by norm_num) |>.mp ((mul_eq_zero.mp h').resolve_left six))

end Field


section Field
variable {K : Type} [Field K]

/-! ### characteristic polynomial of the companion matrix, every size -/

/-- `lam·I − companion` as a matrix, entries as in `charMatrix_companion_entry`
    (`s k` = coefficient of `σ^k`) -/
def compChar (s : ℕ → K) (e : ℕ) (lam : K) : Matrix (Fin e) (Fin e) K :=
  fun i j => if (i : ℕ) = 0 then (if (j : ℕ) = 0 then lam else 0) + s (e - 1 - j)
    else (if (i : ℕ) = j then lam else 0) - (if (j : ℕ) + 1 = i then 1 else 0)

theorem toMatrix_charMatrix_companion (sc : List K) (e : ℕ) (hlen : sc.length = e) (lam : K) :
    toMatrix e (charMatrix e lam (companionOfSigma sc e)) = compChar (seq sc) e lam := by
  ext i j
  simp only [toMatrix, compChar]
  rw [charMatrix_companion_entry sc e hlen lam i j i.isLt j.isLt]

/-- the minor without first row and last column is upper triangular with `-1` on the diagonal -/
theorem compChar_minor_first (s : ℕ → K) (e : ℕ) (lam : K) :
    ((compChar s (e + 1) lam).submatrix Fin.succ Fin.castSucc).det = (-1) ^ e := by
  have htri : ((compChar s (e + 1) lam).submatrix Fin.succ Fin.castSucc).BlockTriangular id := by
    intro i j hij
    simp only [id] at hij
    simp only [Matrix.submatrix_apply, compChar, Fin.val_succ, Fin.val_castSucc]
    have : (j : ℕ) < i := hij
    rw [if_neg (by omega), if_neg (by omega), if_neg (by omega), sub_zero]
  rw [Matrix.det_of_isUpperTriangular htri]
  have : ∀ i : Fin e, (compChar s (e + 1) lam).submatrix Fin.succ Fin.castSucc i i = -1 := by
    intro i
    simp only [Matrix.submatrix_apply, compChar, Fin.val_succ, Fin.val_castSucc]
    rw [if_neg (by omega), if_neg (by omega)]
    simp
  rw [Finset.prod_congr rfl (fun i _ => this i)]
  simp

/-- the minor without last row and last column is the companion of the shifted polynomial -/
theorem compChar_minor_last (s : ℕ → K) (e : ℕ) (lam : K) :
    (compChar s (e + 1) lam).submatrix Fin.castSucc Fin.castSucc = compChar (fun k => s (k + 1)) e lam := by
  ext i j
  simp only [Matrix.submatrix_apply, compChar, Fin.val_castSucc]
  have hj := j.isLt
  have : e + 1 - 1 - (j : ℕ) = e - 1 - (j : ℕ) + 1 := by omega
  rw [this]

theorem compChar_det (lam : K) : ∀ (e : ℕ) (s : ℕ → K), 1 ≤ e →
    (compChar s e lam).det = lam ^ e + ∑ k ∈ range e, s k * lam ^ k
  | 0, _, h => by omega
  | 1, s, _ => by
    simp [Matrix.det_fin_one, compChar]
  | e + 2, s, _ => by
    rw [Matrix.det_succ_column _ (Fin.last (e + 1))]
    rw [Fin.sum_univ_succ, Fin.sum_univ_castSucc]
    have hmid : ∀ i : Fin e, compChar s (e + 2) lam i.castSucc.succ (Fin.last (e + 1)) = 0 := by
      intro i
      simp only [compChar, Fin.val_succ, Fin.val_castSucc, Fin.val_last]
      have := i.isLt
      rw [if_neg (by omega), if_neg (by omega), if_neg (by omega), sub_zero]
    simp only [hmid, mul_zero, zero_mul, Finset.sum_const_zero, zero_add]
    have h0 : compChar s (e + 2) lam 0 (Fin.last (e + 1)) = s 0 := by
      simp [compChar]
    have hl : compChar s (e + 2) lam (Fin.last e).succ (Fin.last (e + 1)) = lam := by
      simp [compChar]
    rw [h0, hl, Fin.succAbove_last]
    have hs : (Fin.last e).succ = Fin.last (e + 1) := rfl
    rw [hs, Fin.succAbove_last, compChar_minor_last, compChar_det lam (e + 1) _ (by omega)]
    have hz : (0 : Fin (e + 2)).succAbove = Fin.succ := by
      funext i; simp [Fin.succAbove]
    rw [hz, compChar_minor_first]
    rw [Finset.sum_range_succ' _ (e + 1)]
    simp only [Fin.val_zero, Fin.val_last, zero_add, pow_zero, mul_one]
    have e1 : ((-1 : K)) ^ (e + 1) * s 0 * (-1) ^ (e + 1) = s 0 := by
      rw [mul_comm ((-1 : K) ^ (e + 1)) (s 0), mul_assoc, ← pow_add, ← two_mul, pow_mul]; simp
    have e2 : ((-1 : K)) ^ (e + 1 + (e + 1)) = 1 := by rw [← two_mul, pow_mul]; simp
    rw [e1, e2, one_mul, mul_add, Finset.mul_sum]
    rw [show lam ^ (e + 2) = lam * lam ^ (e + 1) by rw [pow_succ']]
    have : ∀ k ∈ range (e + 1), lam * (s (k + 1) * lam ^ k) = s (k + 1) * lam ^ (k + 1) := by
      intro k _; rw [pow_succ]; ring
    rw [Finset.sum_congr rfl this]
    ring

/-- **every size**: `det (lam·I − companion) = lam^e + Σ_{k<e} sc_k lam^k` -/
theorem companion_charpoly_all (sc : List K) (e : ℕ) (he : 1 ≤ e) (hlen : sc.length = e) (lam : K) :
    det e (charMatrix e lam (companionOfSigma sc e)) = lam ^ e + ∑ k ∈ range e, seq sc k * lam ^ k := by
  rw [det_eq_matrix_det, toMatrix_charMatrix_companion sc e hlen, compChar_det lam e _ he]

end Field


section Field
variable {K : Type} [Field K]

/-! ### polynomial functions of bounded degree -/

/-- `h` is a polynomial function of degree `≤ n` -/
def IsPolyLe (n : ℕ) (h : K → K) : Prop := ∃ p : K[X], p.natDegree ≤ n ∧ ∀ t, h t = p.eval t

theorem IsPolyLe.const (c : K) (n : ℕ) : IsPolyLe n (fun _ => c) :=
  ⟨C c, by simp, by simp⟩

theorem IsPolyLe.mono {m n : ℕ} {f : K → K} (hf : IsPolyLe m f) (h : m ≤ n) : IsPolyLe n f := by
  obtain ⟨p, hp, he⟩ := hf
  exact ⟨p, hp.trans h, he⟩

theorem IsPolyLe.congr {n : ℕ} {f g : K → K} (hf : IsPolyLe n f) (h : ∀ t, g t = f t) : IsPolyLe n g := by
  obtain ⟨p, hp, he⟩ := hf
  exact ⟨p, hp, fun t => (h t).trans (he t)⟩

theorem IsPolyLe.add {n : ℕ} {f g : K → K} (hf : IsPolyLe n f) (hg : IsPolyLe n g) :
    IsPolyLe n (fun t => f t + g t) := by
  obtain ⟨p, hp, he⟩ := hf
  obtain ⟨q, hq, hq'⟩ := hg
  exact ⟨p + q, natDegree_add_le_of_degree_le hp hq, fun t => by simp only [eval_add, he, hq']⟩

theorem IsPolyLe.sub {n : ℕ} {f g : K → K} (hf : IsPolyLe n f) (hg : IsPolyLe n g) :
    IsPolyLe n (fun t => f t - g t) := by
  obtain ⟨p, hp, he⟩ := hf
  obtain ⟨q, hq, hq'⟩ := hg
  exact ⟨p - q, (natDegree_sub_le_of_le hp hq).trans (max_self n).le, fun t => by simp only [eval_sub, he, hq']⟩

theorem IsPolyLe.mul {m n : ℕ} {f g : K → K} (hf : IsPolyLe m f) (hg : IsPolyLe n g) :
    IsPolyLe (m + n) (fun t => f t * g t) := by
  obtain ⟨p, hp, he⟩ := hf
  obtain ⟨q, hq, hq'⟩ := hg
  exact ⟨p * q, natDegree_mul_le_of_le hp hq, fun t => by simp only [eval_mul, he, hq']⟩

theorem IsPolyLe.const_mul {n : ℕ} {f : K → K} (c : K) (hf : IsPolyLe n f) :
    IsPolyLe n (fun t => c * f t) :=
  ((IsPolyLe.const c 0).mul hf).mono (by omega)

theorem isPolyLe_bern (n : ℕ) (v : ℕ → K) : IsPolyLe n (fun t => bern n (1 - t) t v) :=
  ⟨bernPoly n v, natDegree_bernPoly_le n v, fun t => (eval_bernPoly n v t).symm⟩

/-- a polynomial function of degree `≤ N` has a coefficient list of length `N + 1` -/
theorem IsPolyLe.exists_list {N : ℕ} {h : K → K} (hf : IsPolyLe N h) :
    ∃ p : List K, p.length = N + 1 ∧ ∀ t, h t = polyval p t := by
  obtain ⟨P, hP, he⟩ := hf
  refine ⟨(List.range (N + 1)).map (fun k => P.coeff k), by simp, fun t => ?_⟩
  rw [he, polyval_eq_sum, List.length_map, List.length_range,
    eval_eq_sum_range' (Nat.lt_succ_of_le hP)]
  apply Finset.sum_congr rfl
  intro k hk
  rw [seq_map_range (N + 1) _ k (mem_range.mp hk)]

/-- a bracket `Dᵢ Eⱼ − Dⱼ Eᵢ` of weighted differences `Dᵢ = (xᵢ − X)·wᵢ`, `Eⱼ = (yⱼ − Y)·wⱼ` is affine
    in `(X, Y)` — the products `X·Y` cancel -/
theorem isPolyLe_bracket {n : ℕ} {X Y : K → K} (hX : IsPolyLe n X) (hY : IsPolyLe n Y)
    (wi wj xi xj yi yj : K) :
    IsPolyLe n (fun t => ((xi - X t) * wi) * ((yj - Y t) * wj) - ((xj - X t) * wj) * ((yi - Y t) * wi)) := by
  have h := ((IsPolyLe.const (wi * wj * (xi * yj - xj * yi)) n).add
    (hX.const_mul (wi * wj * (yi - yj)))).add (hY.const_mul (wi * wj * (xj - xi)))
  exact h.congr (fun t => by ring)

theorem isPolyLe_bezDet2 {n : ℕ} {b01 b02 b12 : K → K} (h01 : IsPolyLe n b01) (h02 : IsPolyLe n b02)
    (h12 : IsPolyLe n b12) : IsPolyLe (2 * n) (fun t => bezDet2 (b01 t) (b02 t) (b12 t)) := by
  unfold bezDet2
  exact ((h02.mul h02).sub (h01.mul h12)).mono (by omega)

theorem isPolyLe_bezDet3 {n : ℕ} {b01 b02 b03 b12 b13 b23 : K → K} (h01 : IsPolyLe n b01)
    (h02 : IsPolyLe n b02) (h03 : IsPolyLe n b03) (h12 : IsPolyLe n b12) (h13 : IsPolyLe n b13)
    (h23 : IsPolyLe n b23) :
    IsPolyLe (3 * n) (fun t => bezDet3 (b01 t) (b02 t) (b03 t) (b12 t) (b13 t) (b23 t)) := by
  unfold bezDet3
  have t1 := h01.mul ((((h03.add h12).mul h23)).sub (h13.mul h13))
  have t2 := h02.mul ((h02.mul h23).sub (h13.mul h03))
  have t3 := h03.mul ((h02.mul h13).sub ((h03.add h12).mul h03))
  exact ((t1.sub t2).add t3).mono (by omega)

/-! ### the composition `t ↦ f₁(B₂(t))` has degree `≤ d₁ d₂` -/

theorem evaluate1_comp_isPolyLe {n : ℕ} {X Y : K → K} (hX : IsPolyLe n X) (hY : IsPolyLe n Y)
    (x0 x1 y0 y1 : K) : IsPolyLe (1 * n) (fun t => evaluate1 x0 x1 y0 y1 (X t) (Y t)) := by
  have := isPolyLe_bracket hX hY 1 1 x0 x1 y0 y1
  exact (this.congr (fun t => by simp only [evaluate1]; ring)).mono (by omega)

theorem evaluate2_comp_isPolyLe {n : ℕ} {X Y : K → K} (hX : IsPolyLe n X) (hY : IsPolyLe n Y)
    (x0 x1 x2 y0 y1 y2 : K) :
    IsPolyLe (2 * n) (fun t => evaluate2 x0 x1 x2 y0 y1 y2 (X t) (Y t)) := by
  have h := isPolyLe_bezDet2 (isPolyLe_bracket hX hY 1 2 x0 x1 y0 y1) (isPolyLe_bracket hX hY 1 1 x0 x2 y0 y2)
    (isPolyLe_bracket hX hY 2 1 x1 x2 y1 y2)
  exact h.congr (fun t => by rw [evaluate2_eq_bez]; simp only [bez2, mul_one])

theorem evaluate3_comp_isPolyLe {n : ℕ} {X Y : K → K} (hX : IsPolyLe n X) (hY : IsPolyLe n Y)
    (x0 x1 x2 x3 y0 y1 y2 y3 : K) :
    IsPolyLe (3 * n) (fun t => evaluate3 [x0, x1, x2, x3] [y0, y1, y2, y3] (X t) (Y t)) := by
  have h := isPolyLe_bezDet3 (isPolyLe_bracket hX hY 1 3 x0 x1 y0 y1) (isPolyLe_bracket hX hY 1 3 x0 x2 y0 y2)
    (isPolyLe_bracket hX hY 1 1 x0 x3 y0 y3) (isPolyLe_bracket hX hY 3 3 x1 x2 y1 y2)
    (isPolyLe_bracket hX hY 3 1 x1 x3 y1 y3) (isPolyLe_bracket hX hY 3 1 x2 x3 y2 y3)
  exact h.congr (fun t => by rw [evaluate3_eq_bez]; simp only [bez3, mul_one])

/-- `eval_intersection_polynomial` on two planar nets is `evaluate` at the Bernstein sums -/
theorem evalIntersectionPolynomial_eq [CharZero K] (thr : ℕ) (nodes1 : List (List K)) (xs2 ys2 : List K)
    (hx : 2 ≤ xs2.length) (hy : 2 ≤ ys2.length) (t : K) :
    evalIntersectionPolynomial thr nodes1 [xs2, ys2] t =
      evaluate nodes1 (bern (xs2.length - 1) (1 - t) t (seq xs2)) (bern (ys2.length - 1) (1 - t) t (seq ys2)) := by
  unfold evalIntersectionPolynomial
  simp only [evalPoint, List.map_cons, List.map_nil, seq_cons_zero, seq_cons_succ]
  rw [evalBary_eq_bern thr xs2 hx, evalBary_eq_bern thr ys2 hy]

/-- **degree bound**: for an implicitized curve of degree `d₁ ∈ {1,2,3}` and any second curve of
    degree `d₂ ≥ 1`, `t ↦ f₁(B₂(t))` is a polynomial of degree `≤ d₁ d₂` -/
theorem composition_degree_bound [CharZero K] (thr : ℕ) (xs1 ys1 xs2 ys2 : List K)
    (h1 : xs1.length = ys1.length) (h12 : 2 ≤ xs1.length) (h14 : xs1.length ≤ 4)
    (h2 : xs2.length = ys2.length) (h22 : 2 ≤ xs2.length) :
    ∃ p : List K, p.length = (xs1.length - 1) * (xs2.length - 1) + 1 ∧
      ∀ t, evalIntersectionPolynomial thr [xs1, ys1] [xs2, ys2] t = .ok (polyval p t) := by
  have hX := isPolyLe_bern (xs2.length - 1) (seq xs2)
  have hY := isPolyLe_bern (ys2.length - 1) (seq ys2)
  rw [← h2] at hY
  match xs1, ys1, h1, h12, h14 with
  | [x0, x1], [y0, y1], _, _, _ =>
    obtain ⟨p, hp, he⟩ := (evaluate1_comp_isPolyLe hX hY x0 x1 y0 y1).exists_list
    refine ⟨p, hp, fun t => ?_⟩
    rw [evalIntersectionPolynomial_eq thr _ xs2 ys2 h22 (by omega), ← he, ← h2]
    rfl
  | [x0, x1, x2], [y0, y1, y2], _, _, _ =>
    obtain ⟨p, hp, he⟩ := (evaluate2_comp_isPolyLe hX hY x0 x1 x2 y0 y1 y2).exists_list
    refine ⟨p, hp, fun t => ?_⟩
    rw [evalIntersectionPolynomial_eq thr _ xs2 ys2 h22 (by omega), ← he, ← h2]
    rfl
  | [x0, x1, x2, x3], [y0, y1, y2, y3], _, _, _ =>
    obtain ⟨p, hp, he⟩ := (evaluate3_comp_isPolyLe hX hY x0 x1 x2 x3 y0 y1 y2 y3).exists_list
    refine ⟨p, hp, fun t => ?_⟩
    rw [evalIntersectionPolynomial_eq thr _ xs2 ys2 h22 (by omega), ← he, ← h2]
    rfl

end Field


section Field
variable {K : Type} [Field K]

/-! ### root set of a Bernstein polynomial through the σ-polynomial -/

/-- the Möbius pair `s ↦ σ = s/(1-s)`, `σ ↦ s = σ/(1+σ)` -/
theorem mobius_back (σ : K) (h : 1 + σ ≠ 0) :
    1 - σ / (1 + σ) ≠ 0 ∧ (σ / (1 + σ)) / (1 - σ / (1 + σ)) = σ := by
  have e : 1 - σ / (1 + σ) = 1 / (1 + σ) := by field_simp; ring
  constructor
  · rw [e]; exact one_div_ne_zero h
  · rw [e]; field_simp

theorem mobius_forth (s : K) (h : 1 - s ≠ 0) :
    1 + s / (1 - s) ≠ 0 ∧ (s / (1 - s)) / (1 + s / (1 - s)) = s := by
  have e : 1 + s / (1 - s) = 1 / (1 - s) := by field_simp; ring
  constructor
  · rw [e]; exact one_div_ne_zero h
  · rw [e]; field_simp

/-- root set, given the two factorizations of `sigma` -/
theorem root_set_of_sigma (B q : K → K) (n e : ℕ) (hen : e ≤ n) (lead : K) (hlead : lead ≠ 0) (R : K → K)
    (h4 : ∀ s : K, 1 - s ≠ 0 → B s = (1 - s) ^ n * lead * q (s / (1 - s)))
    (h5 : ∀ s : K, B s = (1 - s) ^ (n - e) * R s) (h6 : R 1 = lead) (s : K) :
    B s = 0 ↔ (s = 1 ∧ e < n) ∨ ∃ σ : K, 1 + σ ≠ 0 ∧ q σ = 0 ∧ s = σ / (1 + σ) := by
  constructor
  · intro hB
    by_cases hs : 1 - s = 0
    · left
      have hs1 : s = 1 := by linear_combination -hs
      refine ⟨hs1, ?_⟩
      by_contra hne
      have hne' : n - e = 0 := by omega
      rw [h5, hne', pow_zero, one_mul, hs1, h6] at hB
      exact hlead hB
    · right
      obtain ⟨m1, m2⟩ := mobius_forth s hs
      refine ⟨s / (1 - s), m1, ?_, m2.symm⟩
      rw [h4 s hs] at hB
      rcases mul_eq_zero.mp hB with h' | h'
      · rcases mul_eq_zero.mp h' with h'' | h''
        · exact absurd (eq_zero_of_pow_eq_zero h'') hs
        · exact absurd h'' hlead
      · exact h'
  · rintro (⟨rfl, hlt⟩ | ⟨σ, h1, hq, rfl⟩)
    · rw [h5, sub_self, zero_pow (by omega), zero_mul]
    · obtain ⟨m1, m2⟩ := mobius_back σ h1
      rw [h4 _ m1, m2, hq, mul_zero]

end Field


/-- the constant between `evaluate` and the resultant: `-1` for lines, `1` for degree 2 and 3 -/
def implicitSign {K : Type} [Field K] (d : ℕ) : K := if d = 1 then -1 else 1

theorem implicitSign_ne_zero {K : Type} [Field K] (d : ℕ) : (implicitSign d : K) ≠ 0 := by
  unfold implicitSign; split <;> simp

/-! ### coefficient lists are determined by their values -/

section Field
variable {K : Type} [Field K]

theorem eval_listPoly (c : List K) (x : K) : (listPoly c).eval x = polyval c x := by
  unfold listPoly
  rw [eval_finsetSum, polyval_eq_sum]
  simp [eval_monomial]

theorem coeff_listPoly (c : List K) (j : ℕ) (hj : j < c.length) : (listPoly c).coeff j = seq c j := by
  unfold listPoly
  rw [finsetSum_coeff]
  simp only [coeff_monomial]
  rw [Finset.sum_ite_eq' (range c.length) j, if_pos (mem_range.mpr hj)]

/-- two coefficient lists of the same length with the same values everywhere are equal -/
theorem polyval_injective [Infinite K] (p p' : List K) (hl : p.length = p'.length)
    (h : ∀ t, polyval p t = polyval p' t) : p = p' := by
  have e : listPoly p = listPoly p' :=
    Polynomial.funext (fun t => by rw [eval_listPoly, eval_listPoly, h])
  apply list_ext_seq _ _ hl
  intro j hj
  rw [← coeff_listPoly p j hj, e, coeff_listPoly p' j (hl ▸ hj)]

end Field

/-- the node counts behind the three `polyfit` helpers -/
theorem pbKind_fit_dims (a b : ℕ) (k : PBKind) (h : pbKind a b = some k) :
    (k = .pb23 → a = 3 ∧ b = 4) ∧ (k = .deg8 → a = 3 ∧ b = 5) ∧ (k = .pb33 → a = 4 ∧ b = 4) := by
  unfold pbKind at h
  split at h <;> simp_all <;> subst h <;> simp

end BezierVerif.ResLemmas
