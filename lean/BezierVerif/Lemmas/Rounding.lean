import BezierVerif.Model.Curve
import BezierVerif.Lemmas.Bridge
import BezierVerif.Lemmas.VS
import Mathlib.Algebra.Order.Field.Basic
import Mathlib.Algebra.Order.AbsoluteValue.Basic
import Mathlib.Algebra.Order.BigOperators.Ring.Finset
import Mathlib.Tactic.Ring
import Mathlib.Tactic.Linarith
import Mathlib.Tactic.Positivity

/-!
# Lemmas/Rounding — the model executed in a rounded arithmetic

`Fl F fl` wraps an ordered field `F` with a rounding function `fl : F → F`; every operation of
the notation classes used by `Model/*` is *the exact operation followed by `fl`*.  Instantiating
the (unchanged) model definitions at `K := Fl F fl` therefore runs the transcribed algorithms in
rounded arithmetic.  Under the standard model `|fl x - x| ≤ u * |x|` the results stay within
`((1+u)^k - 1) · Σ_j |C(n,j) a^(n-j) b^j v_j|` of the exact Bernstein sum.

Conventions.
* `0`, `1` and natural-number casts are injected exactly (small integers are representable).
* Input data (`a`, `b`, the control values) are injected exactly with `Fl.mk` (they *are* the
  floating-point inputs); part 4 adds the rounding of `1 - s`.
* The running binomial of the VS loop is exact under `VSBinomExact` (discharged for binary64 and
  all degrees below the switch by `Tables/C01.lean: binomials_exact_py`).
-/

set_option linter.unusedSectionVars false

namespace BezierVerif

open Finset Model

/-! ## the rounded number type -/

/-- `F` with every arithmetic operation followed by the rounding `fl` -/
structure Fl (F : Type) (fl : F → F) where
  val : F

namespace Fl
variable {F : Type} [Field F] {fl : F → F}

instance : Add (Fl F fl) := ⟨fun x y => ⟨fl (x.val + y.val)⟩⟩
instance : Sub (Fl F fl) := ⟨fun x y => ⟨fl (x.val - y.val)⟩⟩
instance : Mul (Fl F fl) := ⟨fun x y => ⟨fl (x.val * y.val)⟩⟩
instance : Div (Fl F fl) := ⟨fun x y => ⟨fl (x.val / y.val)⟩⟩
instance : Neg (Fl F fl) := ⟨fun x => ⟨fl (-x.val)⟩⟩
instance : OfNat (Fl F fl) 0 := ⟨⟨0⟩⟩
instance : OfNat (Fl F fl) 1 := ⟨⟨1⟩⟩
/-- exact injection: small naturals are assumed representable -/
instance : NatCast (Fl F fl) := ⟨fun n => ⟨(n : F)⟩⟩

@[simp] theorem add_val (x y : Fl F fl) : (x + y).val = fl (x.val + y.val) := rfl
@[simp] theorem sub_val (x y : Fl F fl) : (x - y).val = fl (x.val - y.val) := rfl
@[simp] theorem mul_val (x y : Fl F fl) : (x * y).val = fl (x.val * y.val) := rfl
@[simp] theorem div_val (x y : Fl F fl) : (x / y).val = fl (x.val / y.val) := rfl
@[simp] theorem neg_val (x : Fl F fl) : (-x).val = fl (-x.val) := rfl
@[simp] theorem zero_val : (0 : Fl F fl).val = 0 := rfl
@[simp] theorem one_val : (1 : Fl F fl).val = 1 := rfl
@[simp] theorem natCast_val (n : ℕ) : ((n : ℕ) : Fl F fl).val = (n : F) := rfl

end Fl

/-! ## list facts that only need the notation classes -/
section Generic
variable {K : Type} [Add K] [Sub K] [Mul K] [Div K] [Neg K] [OfNat K 0] [OfNat K 1] [NatCast K]

theorem dcRound_length' (a b : K) : ∀ l : List K, (dcRound a b l).length = l.length - 1
  | [] => rfl
  | [_] => rfl
  | x :: y :: rest => by
    simp only [dcRound, List.length_cons]
    rw [dcRound_length' a b (y :: rest)]; simp

theorem seq_dcRound' (a b : K) : ∀ (l : List K) (j : ℕ), j + 1 < l.length →
    seq (dcRound a b l) j = a * seq l j + b * seq l (j+1)
  | [], j, h => by simp at h
  | [_], j, h => by simp at h
  | x :: y :: rest, 0, _ => by simp [dcRound, seq]
  | x :: y :: rest, j+1, h => by
    have ih := seq_dcRound' a b (y :: rest) j (by simpa using h)
    simp only [dcRound, seq, List.getD_cons_succ] at ih ⊢
    exact ih

theorem headD_eq_seq' (l : List K) : l.headD 0 = seq l 0 := by
  cases l <;> simp [seq]

end Generic

/-! ## the standard model: one rounded product, one rounded sum -/
section Model
variable {F : Type} [Field F] [LinearOrder F] [IsStrictOrderedRing F]

theorem pow_sub_one_mono (u : F) (hu : 0 ≤ u) {a b : ℕ} (h : a ≤ b) :
    (1+u)^a - 1 ≤ (1+u)^b - 1 := by
  have : (1+u)^a ≤ (1+u)^b := pow_le_pow_right₀ (by linarith) h
  linarith

theorem pow_sub_one_nonneg (u : F) (hu : 0 ≤ u) (k : ℕ) : 0 ≤ (1+u)^k - 1 := by
  have : (1:F) ≤ (1+u)^k := one_le_pow₀ (by linarith)
  linarith

/-- rounding one product of a perturbed factor by an exact factor:
    `|fl (x̂ c) - x c| ≤ (ρ^(k+1) - 1) X |c|` whenever `|x̂ - x| ≤ (ρ^k - 1) X` and `|x| ≤ X` -/
theorem fl_mul_exact (fl : F → F) (u : F) (hu : 0 ≤ u) (hfl : ∀ x, |fl x - x| ≤ u * |x|)
    (k : ℕ) (xh x X c : F) (herr : |xh - x| ≤ ((1+u)^k - 1) * X) (hmag : |x| ≤ X) :
    |fl (xh * c) - x * c| ≤ ((1+u)^(k+1) - 1) * (X * |c|) ∧ |x * c| ≤ X * |c| := by
  have hρ : (1:F) ≤ (1+u)^k := one_le_pow₀ (by linarith)
  have hX : 0 ≤ X := le_trans (abs_nonneg _) hmag
  have hxh : |xh| ≤ (1+u)^k * X := by
    have h1 : |xh| ≤ |xh - x| + |x| := by have := abs_add_le (xh - x) x; simpa using this
    nlinarith
  have e := hfl (xh * c)
  rw [abs_mul] at e
  have t : fl (xh * c) - x * c = (fl (xh * c) - xh * c) + (xh - x) * c := by ring
  constructor
  · rw [t]
    have tri := abs_add_le (fl (xh * c) - xh * c) ((xh - x) * c)
    rw [abs_mul (xh - x) c] at tri
    have hc := abs_nonneg c
    have g1 : u * (|xh| * |c|) ≤ u * ((1+u)^k * X * |c|) := by
      apply mul_le_mul_of_nonneg_left _ hu
      exact mul_le_mul_of_nonneg_right hxh hc
    have g2 : |xh - x| * |c| ≤ ((1+u)^k - 1) * X * |c| := mul_le_mul_of_nonneg_right herr hc
    calc |fl (xh * c) - xh * c + (xh - x) * c|
        ≤ u * ((1+u)^k * X * |c|) + ((1+u)^k - 1) * X * |c| := by linarith
      _ = ((1+u)^(k+1) - 1) * (X * |c|) := by ring
  · rw [abs_mul]; exact mul_le_mul_of_nonneg_right hmag (abs_nonneg c)

/-- the same with the exact factor on the left (the model writes `a * x`, `l1 * v 0`, …) -/
theorem fl_exact_mul (fl : F → F) (u : F) (hu : 0 ≤ u) (hfl : ∀ x, |fl x - x| ≤ u * |x|)
    (k : ℕ) (xh x X c : F) (herr : |xh - x| ≤ ((1+u)^k - 1) * X) (hmag : |x| ≤ X) :
    |fl (c * xh) - c * x| ≤ ((1+u)^(k+1) - 1) * (|c| * X) ∧ |c * x| ≤ |c| * X := by
  have := fl_mul_exact fl u hu hfl k xh x X c herr hmag
  rwa [mul_comm xh c, mul_comm x c, mul_comm X |c|] at this

/-- rounding one sum of two perturbed terms with a common exponent `k` -/
theorem fl_add (fl : F → F) (u : F) (hu : 0 ≤ u) (hfl : ∀ x, |fl x - x| ≤ u * |x|)
    (k : ℕ) (xh x X yh y Y : F)
    (hx : |xh - x| ≤ ((1+u)^k - 1) * X) (hxm : |x| ≤ X)
    (hy : |yh - y| ≤ ((1+u)^k - 1) * Y) (hym : |y| ≤ Y) :
    |fl (xh + yh) - (x + y)| ≤ ((1+u)^(k+1) - 1) * (X + Y) ∧ |x + y| ≤ X + Y := by
  have hρ : (1:F) ≤ (1+u)^k := one_le_pow₀ (by linarith)
  have hX : 0 ≤ X := le_trans (abs_nonneg _) hxm
  have hY : 0 ≤ Y := le_trans (abs_nonneg _) hym
  have hxh : |xh| ≤ (1+u)^k * X := by
    have h1 : |xh| ≤ |xh - x| + |x| := by have := abs_add_le (xh - x) x; simpa using this
    nlinarith
  have hyh : |yh| ≤ (1+u)^k * Y := by
    have h1 : |yh| ≤ |yh - y| + |y| := by have := abs_add_le (yh - y) y; simpa using this
    nlinarith
  have e := hfl (xh + yh)
  have s := abs_add_le xh yh
  constructor
  · have t : fl (xh + yh) - (x + y) = (fl (xh + yh) - (xh + yh)) + ((xh - x) + (yh - y)) := by
      ring
    rw [t]
    have tri := abs_add_le (fl (xh + yh) - (xh + yh)) ((xh - x) + (yh - y))
    have tri2 := abs_add_le (xh - x) (yh - y)
    have g : u * |xh + yh| ≤ u * ((1+u)^k * (X + Y)) := by
      apply mul_le_mul_of_nonneg_left _ hu; nlinarith
    calc |fl (xh + yh) - (xh + yh) + (xh - x + (yh - y))|
        ≤ u * ((1+u)^k * (X + Y)) + (((1+u)^k - 1) * X + ((1+u)^k - 1) * Y) := by linarith
      _ = ((1+u)^(k+1) - 1) * (X + Y) := by ring
  · have := abs_add_le x y; linarith

/-- weaken an error bound to a larger exponent -/
theorem weaken (u : F) (hu : 0 ≤ u) {a b : ℕ} (h : a ≤ b) (xh x X : F) (hX : 0 ≤ X)
    (hx : |xh - x| ≤ ((1+u)^a - 1) * X) : |xh - x| ≤ ((1+u)^b - 1) * X :=
  le_trans hx (mul_le_mul_of_nonneg_right (pow_sub_one_mono u hu h) hX)

/-- one de Casteljau entry `fl (fl (a x̂) + fl (b ŷ))`: two more factors `(1+u)` -/
theorem dc_entry (fl : F → F) (u : F) (hu : 0 ≤ u) (hfl : ∀ x, |fl x - x| ≤ u * |x|)
    (a b : F) (k : ℕ) (xh x X yh y Y : F)
    (hx : |xh - x| ≤ ((1+u)^k - 1) * X) (hxm : |x| ≤ X)
    (hy : |yh - y| ≤ ((1+u)^k - 1) * Y) (hym : |y| ≤ Y) :
    |fl (fl (a * xh) + fl (b * yh)) - (a * x + b * y)| ≤ ((1+u)^(k+2) - 1) * (|a| * X + |b| * Y) ∧
    |a * x + b * y| ≤ |a| * X + |b| * Y := by
  have P := fl_exact_mul fl u hu hfl k xh x X a hx hxm
  have Q := fl_exact_mul fl u hu hfl k yh y Y b hy hym
  exact fl_add fl u hu hfl (k+1) _ _ _ _ _ _ P.1 P.2 Q.1 Q.2

end Model

/-! ## de Casteljau in rounded arithmetic -/
section DC
variable {F : Type} [Field F] [LinearOrder F] [IsStrictOrderedRing F]

/-- general form: perturbed input rows, error exponent `k` on the data, `k + 2n` on the value -/
theorem dc_rounding_aux (fl : F → F) (u : F) (hu : 0 ≤ u) (hfl : ∀ x, |fl x - x| ≤ u * |x|)
    (a b : F) : ∀ (n k : ℕ) (lh : List (Fl F fl)) (l A : List F),
    lh.length = n + 1 → l.length = n + 1 → A.length = n + 1 →
    (∀ j ≤ n, |(seq lh j).val - seq l j| ≤ ((1+u)^k - 1) * seq A j) →
    (∀ j ≤ n, |seq l j| ≤ seq A j) →
    |(evalDC (⟨a⟩ : Fl F fl) ⟨b⟩ n lh).val - evalDC a b n l|
        ≤ ((1+u)^(k + 2*n) - 1) * evalDC |a| |b| n A ∧
    |evalDC a b n l| ≤ evalDC |a| |b| n A := by
  intro n
  induction n with
  | zero =>
    intro k lh l A _ _ _ h1 h2
    simp only [evalDC, headD_eq_seq']
    exact ⟨by simpa using h1 0 le_rfl, h2 0 le_rfl⟩
  | succ n ih =>
    intro k lh l A hlh hl hA h1 h2
    simp only [evalDC]
    have e : k + 2 * (n + 1) = (k + 2) + 2 * n := by ring
    rw [e]
    refine ih (k+2) _ _ _ (by rw [dcRound_length', hlh]; rfl) (by rw [dcRound_length', hl]; rfl)
      (by rw [dcRound_length', hA]; rfl) ?_ ?_
    · intro j hj
      rw [seq_dcRound' _ _ lh j (by omega), seq_dcRound' _ _ l j (by omega),
        seq_dcRound' _ _ A j (by omega)]
      exact (dc_entry fl u hu hfl a b k _ _ _ _ _ _ (h1 j (by omega)) (h2 j (by omega))
        (h1 (j+1) (by omega)) (h2 (j+1) (by omega))).1
    · intro j hj
      rw [seq_dcRound' _ _ l j (by omega), seq_dcRound' _ _ A j (by omega)]
      exact (dc_entry fl u hu hfl a b k _ _ _ _ _ _ (h1 j (by omega)) (h2 j (by omega))
        (h1 (j+1) (by omega)) (h2 (j+1) (by omega))).2

theorem seq_map_mk (fl : F → F) (l : List F) (j : ℕ) :
    (seq (l.map (Fl.mk (fl := fl))) j).val = seq l j := by
  unfold seq
  rw [List.getD_eq_getElem?_getD, List.getD_eq_getElem?_getD, List.getElem?_map]
  cases l[j]? <;> rfl

theorem seq_map_mk' (fl : F → F) (l : List F) :
    seq (l.map (Fl.mk (fl := fl))) = fun j => (⟨seq l j⟩ : Fl F fl) := by
  funext j
  have := seq_map_mk fl l j
  cases h : seq (l.map (Fl.mk (fl := fl))) j
  rw [h] at this; simp only at this; rw [this]

theorem seq_map_abs (l : List F) (j : ℕ) : seq (l.map (|·|)) j = |seq l j| := by
  unfold seq
  rw [List.getD_eq_getElem?_getD, List.getD_eq_getElem?_getD, List.getElem?_map]
  cases l[j]? <;> simp

/-- **de Casteljau, rounded vs exact**, inputs exactly representable -/
theorem dc_rounding_evalDC (fl : F → F) (u : F) (hu : 0 ≤ u) (hfl : ∀ x, |fl x - x| ≤ u * |x|)
    (a b : F) (n : ℕ) (l : List F) (hl : l.length = n + 1) :
    |(evalDC (⟨a⟩ : Fl F fl) ⟨b⟩ n (l.map Fl.mk)).val - evalDC a b n l|
      ≤ ((1+u)^(2*n) - 1) * evalDC |a| |b| n (l.map (|·|)) := by
  have := (dc_rounding_aux fl u hu hfl a b n 0 (l.map Fl.mk) l (l.map (|·|))
    (by simpa using hl) hl (by simpa using hl)
    (by intro j _; rw [seq_map_mk]; simp)
    (by intro j _; rw [seq_map_abs])).1
  simpa using this

/-- the magnitude sum: `Σ_j C(n,j) |a|^(n-j) |b|^j |v_j| = Σ_j |C(n,j) a^(n-j) b^j v_j|` -/
theorem bern_abs (n : ℕ) (a b : F) (v : ℕ → F) :
    bern n |a| |b| (fun j => |v j|) = ∑ j ∈ range (n+1), |(n.choose j : F) * a^(n-j) * b^j * v j| := by
  unfold bern
  apply Finset.sum_congr rfl
  intro j _
  rw [abs_mul, abs_mul, abs_mul, abs_pow, abs_pow, Nat.abs_cast]

theorem abs_bern_le (n : ℕ) (a b : F) (v : ℕ → F) :
    |bern n a b v| ≤ bern n |a| |b| (fun j => |v j|) := by
  rw [bern_abs]; exact Finset.abs_sum_le_sum_abs _ _

theorem evalDC_abs_eq_bern (a b : F) (n : ℕ) (l : List F) (hl : l.length = n + 1) :
    evalDC |a| |b| n (l.map (|·|)) = bern n |a| |b| (fun j => |seq l j|) := by
  rw [evalDC_eq_bern _ _ n _ (by simpa using hl)]
  congr 1; funext j; exact seq_map_abs l j

end DC

/-! ## the VS (Horner-like) loop in rounded arithmetic -/
section VS
variable {F : Type} [Field F] [LinearOrder F] [IsStrictOrderedRing F]

/-- the running binomial of degree `n` is computed without rounding: `fl` is the identity on the
    products `C(n,i)·(n-i)` and on the quotients `C(n,i+1)` that occur
    (`Tables/C01.lean: vsBinomialsExact` is this statement for binary64). -/
def VSBinomExact (fl : F → F) (n : ℕ) : Prop :=
  ∀ i, i < n →
    fl ((n.choose i : F) * ((n - i : ℕ) : F)) = (n.choose i : F) * ((n - i : ℕ) : F) ∧
    fl ((n.choose (i+1) : ℕ) : F) = ((n.choose (i+1) : ℕ) : F)

theorem choose_succ_div (n i : ℕ) :
    ((n.choose i : F) * ((n - i : ℕ) : F)) / ((i + 1 : ℕ) : F) = (n.choose (i+1) : F) := by
  have h1 : (n.choose (i+1)) * (i+1) = n.choose i * (n - i) := Nat.choose_succ_right_eq n i
  have hne : ((i+1 : ℕ) : F) ≠ 0 := Nat.cast_ne_zero.mpr (Nat.succ_ne_zero i)
  rw [div_eq_iff hne]
  exact_mod_cast h1.symm

/-- the rounded loop carries the exact binomial -/
theorem vsLoop_fl_binom (fl : F → F) (n : ℕ) (hbin : VSBinomExact fl n)
    (A B : Fl F fl) (V : ℕ → Fl F fl) : ∀ i, i < n →
    (vsLoop n A B V i).binom.val = (n.choose i : F) := by
  intro i
  induction i with
  | zero => intro _; simp [vsLoop]
  | succ i ih =>
    intro hi
    have hb := ih (by omega)
    obtain ⟨e1, e2⟩ := hbin i (by omega)
    have hidx : n - (i + 1) + 1 = n - i := by omega
    show fl (fl ((vsLoop n A B V i).binom.val * ((n - (i+1) + 1 : ℕ) : F)) / ((i+1 : ℕ) : F)) = _
    rw [hb, hidx, e1, choose_succ_div, e2]

/-- one step of the exact loop, with the running binomial identified -/
theorem vsLoop_succ_result (n : ℕ) (a b : F) (v : ℕ → F) (i : ℕ) (hi : i + 1 < n) :
    (vsLoop n a b v (i+1)).result =
      ((vsLoop n a b v i).result +
        (n.choose (i+1) : F) * ((vsLoop n a b v i).pow * b) * v (i+1)) * a := by
  have hb := (vsLoop_inv n a b v (i+1) hi).1
  show ((vsLoop n a b v i).result +
      (vsLoop n a b v (i+1)).binom * ((vsLoop n a b v i).pow * b) * v (i+1)) * a = _
  rw [hb]

/-- **loop invariant in rounded arithmetic**: the running power carries `i` roundings, the
    accumulator at most `2i+3`, both relative to the same loop run on absolute values -/
theorem vsLoop_rounding (fl : F → F) (u : F) (hu : 0 ≤ u) (hfl : ∀ x, |fl x - x| ≤ u * |x|)
    (n : ℕ) (hbin : VSBinomExact fl n) (a b : F) (v : ℕ → F) : ∀ i, i < n →
    (|(vsLoop n (⟨a⟩ : Fl F fl) ⟨b⟩ (fun j => ⟨v j⟩) i).pow.val - (vsLoop n a b v i).pow|
        ≤ ((1+u)^i - 1) * (vsLoop n |a| |b| (fun j => |v j|) i).pow ∧
     |(vsLoop n a b v i).pow| ≤ (vsLoop n |a| |b| (fun j => |v j|) i).pow) ∧
    (|(vsLoop n (⟨a⟩ : Fl F fl) ⟨b⟩ (fun j => ⟨v j⟩) i).result.val - (vsLoop n a b v i).result|
        ≤ ((1+u)^(2*i+3) - 1) * (vsLoop n |a| |b| (fun j => |v j|) i).result ∧
     |(vsLoop n a b v i).result| ≤ (vsLoop n |a| |b| (fun j => |v j|) i).result) := by
  intro i
  induction i with
  | zero =>
    intro _
    refine ⟨⟨by simp [vsLoop], by simp [vsLoop]⟩, ?_⟩
    have h0 := fl_exact_mul fl u hu hfl 0 (v 0) (v 0) |v 0| a (by simp) le_rfl
    refine ⟨?_, h0.2⟩
    have := h0.1
    simp only [zero_add] at this
    exact weaken u hu (by omega : 1 ≤ 2*0+3) _ _ _
      (mul_nonneg (abs_nonneg _) (abs_nonneg _)) this
  | succ i ih =>
    intro hi
    obtain ⟨⟨hp, hpm⟩, ⟨hr, hrm⟩⟩ := ih (by omega)
    have hbfl := vsLoop_fl_binom fl n hbin (⟨a⟩ : Fl F fl) ⟨b⟩ (fun j => ⟨v j⟩) (i+1) hi
    -- the power
    have P := fl_mul_exact fl u hu hfl i _ _ _ b hp hpm
    -- binom * pow, then * v_(i+1): exponent i+3
    have Q := fl_exact_mul fl u hu hfl (i+1) _ _ _ (n.choose (i+1) : F) P.1 P.2
    have Rr := fl_mul_exact fl u hu hfl (i+2) _ _ _ (v (i+1)) Q.1 Q.2
    -- common exponent 2i+3 for the two summands
    have hTabs := le_trans (abs_nonneg _) Rr.2
    have T1 := weaken u hu (by omega : i+2+1 ≤ 2*i+3) _ _ _ hTabs Rr.1
    have Ssum := fl_add fl u hu hfl (2*i+3) _ _ _ _ _ _ hr hrm T1 Rr.2
    have Fin := fl_mul_exact fl u hu hfl (2*i+3+1) _ _ _ a Ssum.1 Ssum.2
    have e : 2*i+3+1+1 = 2*(i+1)+3 := by ring
    rw [e] at Fin
    rw [vsLoop_succ_result n a b v i hi, vsLoop_succ_result n |a| |b| _ i hi]
    rw [Nat.abs_cast] at Fin
    have hres : (vsLoop n (⟨a⟩ : Fl F fl) ⟨b⟩ (fun j => ⟨v j⟩) (i+1)).result.val =
        fl (fl ((vsLoop n (⟨a⟩ : Fl F fl) ⟨b⟩ (fun j => ⟨v j⟩) i).result.val +
          fl (fl ((n.choose (i+1) : F) *
            fl ((vsLoop n (⟨a⟩ : Fl F fl) ⟨b⟩ (fun j => ⟨v j⟩) i).pow.val * b)) * v (i+1))) * a) := by
      rw [← hbfl]; rfl
    rw [hres]
    exact ⟨⟨P.1, P.2⟩, ⟨Fin.1, Fin.2⟩⟩

/-- **VS, rounded vs exact**, inputs exactly representable, every degree `n ≥ 1` -/
theorem vs_rounding_evalVS (fl : F → F) (u : F) (hu : 0 ≤ u) (hfl : ∀ x, |fl x - x| ≤ u * |x|)
    (n : ℕ) (hn : 1 ≤ n) (hbin : VSBinomExact fl n) (a b : F) (v : ℕ → F) :
    |(evalVS n (⟨a⟩ : Fl F fl) ⟨b⟩ (fun j => ⟨v j⟩)).val - evalVS n a b v|
      ≤ ((1+u)^(2*n+2) - 1) * evalVS n |a| |b| (fun j => |v j|) := by
  obtain ⟨⟨hp, hpm⟩, ⟨hr, hrm⟩⟩ := vsLoop_rounding fl u hu hfl n hbin a b v (n-1) (by omega)
  have P := fl_exact_mul fl u hu hfl (n-1) _ _ _ b hp hpm
  have Q := fl_mul_exact fl u hu hfl (n-1+1) _ _ _ (v n) P.1 P.2
  have hQabs := le_trans (abs_nonneg _) Q.2
  have hRabs := le_trans (abs_nonneg _) hrm
  have T1 := weaken u hu (by omega : n-1+1+1 ≤ 2*n+1) _ _ _ hQabs Q.1
  have R1 := weaken u hu (by omega : 2*(n-1)+3 ≤ 2*n+1) _ _ _ hRabs hr
  exact (fl_add fl u hu hfl (2*n+1) _ _ _ _ _ _ R1 hrm T1 Q.2).1

end VS

/-! ## statements relative to the Bernstein sum, and the dispatch -/
section Bern
variable {F : Type} [Field F] [LinearOrder F] [IsStrictOrderedRing F]

theorem bern_abs_nonneg (n : ℕ) (a b : F) (v : ℕ → F) : 0 ≤ bern n |a| |b| (fun j => |v j|) :=
  le_trans (abs_nonneg _) (abs_bern_le n a b v)

theorem dc_rounding_bern (fl : F → F) (u : F) (hu : 0 ≤ u) (hfl : ∀ x, |fl x - x| ≤ u * |x|)
    (a b : F) (n : ℕ) (l : List F) (hl : l.length = n + 1) :
    |(evalDC (⟨a⟩ : Fl F fl) ⟨b⟩ n (l.map Fl.mk)).val - bern n a b (seq l)|
      ≤ ((1+u)^(2*n) - 1) * bern n |a| |b| (fun j => |seq l j|) := by
  rw [← evalDC_eq_bern a b n l hl, ← evalDC_abs_eq_bern a b n l hl]
  exact dc_rounding_evalDC fl u hu hfl a b n l hl

theorem vs_rounding_bern (fl : F → F) (u : F) (hu : 0 ≤ u) (hfl : ∀ x, |fl x - x| ≤ u * |x|)
    (n : ℕ) (hn : 1 ≤ n) (hbin : VSBinomExact fl n) (a b : F) (v : ℕ → F) :
    |(evalVS n (⟨a⟩ : Fl F fl) ⟨b⟩ (fun j => ⟨v j⟩)).val - bern n a b v|
      ≤ ((1+u)^(2*n+2) - 1) * bern n |a| |b| (fun j => |v j|) := by
  have h1 : bern n a b v = evalVS n a b v := (evalVS_eq_bern n hn a b v).symm
  have h2 : bern n |a| |b| (fun j => |v j|) = evalVS n |a| |b| (fun j => |v j|) :=
    (evalVS_eq_bern n hn |a| |b| _).symm
  rw [h1, h2]
  exact vs_rounding_evalVS fl u hu hfl n hn hbin a b v

/-- either side of the silent switch: the larger of the two constants -/
theorem bary_rounding_bern (fl : F → F) (u : F) (hu : 0 ≤ u) (hfl : ∀ x, |fl x - x| ≤ u * |x|)
    (thr : ℕ) (row : List F) (h : 2 ≤ row.length)
    (hbin : row.length ≤ thr → VSBinomExact fl (row.length - 1)) (a b : F) :
    |(evalBary thr (row.map Fl.mk) (⟨a⟩ : Fl F fl) ⟨b⟩).val - bern (row.length - 1) a b (seq row)|
      ≤ ((1+u)^(2*(row.length - 1)+2) - 1)
          * bern (row.length - 1) |a| |b| (fun j => |seq row j|) := by
  unfold evalBary
  rw [List.length_map]
  split
  · refine le_trans (dc_rounding_bern fl u hu hfl a b _ row (by omega)) ?_
    exact mul_le_mul_of_nonneg_right (pow_sub_one_mono u hu (by omega)) (bern_abs_nonneg _ _ _ _)
  · rw [seq_map_mk']
    exact vs_rounding_bern fl u hu hfl _ (by omega) (hbin (by omega)) a b (seq row)

/-! ### `λ₁ = fl (1 - s)`: a perturbed first weight -/

theorem pow_perturb (u : F) (ah a : F) (h : |ah - a| ≤ u * |a|) : ∀ k : ℕ,
    |ah^k - a^k| ≤ ((1+u)^k - 1) * |a|^k ∧ |ah|^k ≤ (1+u)^k * |a|^k := by
  have hah : |ah| ≤ (1+u) * |a| := by
    have h1 : |ah| ≤ |ah - a| + |a| := by have := abs_add_le (ah - a) a; simpa using this
    linarith
  intro k
  induction k with
  | zero => simp
  | succ k ih =>
    obtain ⟨h1, h2⟩ := ih
    have h2' : |ah|^(k+1) ≤ (1+u)^(k+1) * |a|^(k+1) := by
      rw [← mul_pow]; exact pow_le_pow_left₀ (abs_nonneg _) hah _
    refine ⟨?_, h2'⟩
    have t : ah^(k+1) - a^(k+1) = ah^k * (ah - a) + (ah^k - a^k) * a := by ring
    rw [t]
    have tri := abs_add_le (ah^k * (ah - a)) ((ah^k - a^k) * a)
    rw [abs_mul, abs_mul, abs_pow] at tri
    have g1 : |ah|^k * |ah - a| ≤ ((1+u)^k * |a|^k) * (u * |a|) :=
      mul_le_mul h2 h (abs_nonneg _) (le_trans (pow_nonneg (abs_nonneg _) _) h2)
    have g2 : |ah^k - a^k| * |a| ≤ ((1+u)^k - 1) * |a|^k * |a| :=
      mul_le_mul_of_nonneg_right h1 (abs_nonneg _)
    calc |ah^k * (ah - a) + (ah^k - a^k) * a|
        ≤ ((1+u)^k * |a|^k) * (u * |a|) + ((1+u)^k - 1) * |a|^k * |a| := by linarith
      _ = ((1+u)^(k+1) - 1) * |a|^(k+1) := by ring

theorem bern_perturb (u : F) (hu : 0 ≤ u) (ah a : F) (h : |ah - a| ≤ u * |a|)
    (n : ℕ) (b : F) (v : ℕ → F) :
    |bern n ah b v - bern n a b v| ≤ ((1+u)^n - 1) * bern n |a| |b| (fun j => |v j|) ∧
    bern n |ah| |b| (fun j => |v j|) ≤ (1+u)^n * bern n |a| |b| (fun j => |v j|) := by
  unfold bern
  constructor
  · rw [← Finset.sum_sub_distrib, Finset.mul_sum]
    refine le_trans (Finset.abs_sum_le_sum_abs _ _) (Finset.sum_le_sum ?_)
    intro j hj
    have hp := (pow_perturb u ah a h (n-j)).1
    have t : (n.choose j : F) * ah^(n-j) * b^j * v j - (n.choose j : F) * a^(n-j) * b^j * v j
        = (n.choose j : F) * (ah^(n-j) - a^(n-j)) * b^j * v j := by ring
    rw [t, abs_mul, abs_mul, abs_mul, Nat.abs_cast, abs_pow b]
    have hm := pow_sub_one_mono u hu (Nat.sub_le n j)
    have hc : (0:F) ≤ (n.choose j : F) := Nat.cast_nonneg _
    have hA : 0 ≤ |a|^(n-j) := pow_nonneg (abs_nonneg _) _
    have hB : 0 ≤ |b|^j * |v j| := mul_nonneg (pow_nonneg (abs_nonneg _) _) (abs_nonneg _)
    have hp' : |ah^(n-j) - a^(n-j)| ≤ ((1+u)^n - 1) * |a|^(n-j) :=
      le_trans hp (mul_le_mul_of_nonneg_right hm hA)
    calc (n.choose j : F) * |ah^(n-j) - a^(n-j)| * |b|^j * |v j|
        = ((n.choose j : F) * (|b|^j * |v j|)) * |ah^(n-j) - a^(n-j)| := by ring
      _ ≤ ((n.choose j : F) * (|b|^j * |v j|)) * (((1+u)^n - 1) * |a|^(n-j)) :=
          mul_le_mul_of_nonneg_left hp' (mul_nonneg hc hB)
      _ = ((1+u)^n - 1) * ((n.choose j : F) * |a|^(n-j) * |b|^j * |v j|) := by ring
  · rw [Finset.mul_sum]
    refine Finset.sum_le_sum ?_
    intro j hj
    have hp := (pow_perturb u ah a h (n-j)).2
    have hρ : (1:F) ≤ 1 + u := by linarith
    have hm : (1+u)^(n-j) ≤ (1+u)^n := pow_le_pow_right₀ hρ (Nat.sub_le n j)
    have hc : (0:F) ≤ (n.choose j : F) := Nat.cast_nonneg _
    have hA : 0 ≤ |a|^(n-j) := pow_nonneg (abs_nonneg _) _
    have hB : 0 ≤ |b|^j * |v j| := mul_nonneg (pow_nonneg (abs_nonneg _) _) (abs_nonneg _)
    have hp' : |ah|^(n-j) ≤ (1+u)^n * |a|^(n-j) :=
      le_trans hp (mul_le_mul_of_nonneg_right hm hA)
    calc (n.choose j : F) * |ah|^(n-j) * |b|^j * |v j|
        = ((n.choose j : F) * (|b|^j * |v j|)) * |ah|^(n-j) := by ring
      _ ≤ ((n.choose j : F) * (|b|^j * |v j|)) * ((1+u)^n * |a|^(n-j)) :=
          mul_le_mul_of_nonneg_left hp' (mul_nonneg hc hB)
      _ = (1+u)^n * ((n.choose j : F) * |a|^(n-j) * |b|^j * |v j|) := by ring

/-- the library's call `evaluate_multi_barycentric(nodes, 1 - s, s)` with the subtraction rounded:
    `n` further factors `(1+u)` (one per occurrence of `λ₁` in a term) -/
theorem bary_rounding_one_less (fl : F → F) (u : F) (hu : 0 ≤ u)
    (hfl : ∀ x, |fl x - x| ≤ u * |x|)
    (thr : ℕ) (row : List F) (h : 2 ≤ row.length)
    (hbin : row.length ≤ thr → VSBinomExact fl (row.length - 1)) (s : F) :
    |(evalBary thr (row.map Fl.mk) (1 - (⟨s⟩ : Fl F fl)) ⟨s⟩).val
        - bern (row.length - 1) (1 - s) s (seq row)|
      ≤ ((1+u)^(3*(row.length - 1)+2) - 1)
          * bern (row.length - 1) |1 - s| |s| (fun j => |seq row j|) := by
  set n := row.length - 1 with hn
  have e : (1 - (⟨s⟩ : Fl F fl)) = ⟨fl (1 - s)⟩ := rfl
  rw [e]
  have hB := bary_rounding_bern fl u hu hfl thr row h hbin (fl (1 - s)) s
  rw [← hn] at hB
  obtain ⟨p1, p2⟩ := bern_perturb u hu (fl (1 - s)) (1 - s) (hfl _) n s (seq row)
  have h0 := bern_abs_nonneg n (1 - s) s (seq row)
  set B := bern n |1 - s| |s| (fun j => |seq row j|) with hBdef
  set B' := bern n |fl (1 - s)| |s| (fun j => |seq row j|) with hB'def
  have hc := pow_sub_one_nonneg u hu (2*n+2)
  have t : (evalBary thr (row.map Fl.mk) (⟨fl (1 - s)⟩ : Fl F fl) ⟨s⟩).val - bern n (1 - s) s (seq row)
      = ((evalBary thr (row.map Fl.mk) (⟨fl (1 - s)⟩ : Fl F fl) ⟨s⟩).val
          - bern n (fl (1 - s)) s (seq row))
        + (bern n (fl (1 - s)) s (seq row) - bern n (1 - s) s (seq row)) := by ring
  rw [t]
  refine le_trans (abs_add_le _ _) ?_
  have g : ((1+u)^(2*n+2) - 1) * B' ≤ ((1+u)^(2*n+2) - 1) * ((1+u)^n * B) :=
    mul_le_mul_of_nonneg_left p2 hc
  calc _ ≤ ((1+u)^(2*n+2) - 1) * ((1+u)^n * B) + ((1+u)^n - 1) * B := by linarith
    _ = ((1+u)^(3*n+2) - 1) * B := by ring

end Bern

end BezierVerif
