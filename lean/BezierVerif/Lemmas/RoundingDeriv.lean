import BezierVerif.Lemmas.RoundingMore
import BezierVerif.Lemmas.Deriv
import BezierVerif.Lemmas.TriDeriv
import BezierVerif.Model.TriDeriv
import BezierVerif.Model.Locate

/-!
# Lemmas/RoundingDeriv — derivative routines and the Newton step in rounded arithmetic

Helpers for `Props/C11Rounding.lean` and `Props/C10Rounding.lean`, on top of the relation
`Near fl u k x̂ x X` of `Lemmas/RoundingMore.lean`.

* **Evaluation of data given with relative error.**  The evaluation theorems of C01 / C05
  (`bary_rounding_one_less`, `py_evalBarycentricRow_near`, `cartesian_perturb`) are stated for
  control values that are numbers of the arithmetic.  A difference net *computed* in the
  arithmetic consists of numbers of the arithmetic, too (the values `x̂.val`); the evaluation
  theorem is applied to these numbers, and the Bernstein sums are linear in the data, so a
  perturbation of the data by `((1+u)^k - 1)·A_j` moves the sum by `((1+u)^k - 1)·Σ |term|(A)`
  (`bern_data_perturb`, `triBern_data_perturb`, then `Near.perturb`):
  `evalBary_one_sub_near`, `evalBary_near_any`, `py_evalCartesianRow_near`.
* **First and second differences** (`NearL.diffs_exact`, `NearL.diffs`), the hodograph, the
  concavity vector, the curvature numerator, `jacobian_s/t`, `jacobian_det`.
* **A quotient of two computed numbers** with the denominator bounded away from zero
  (`Near.div`), and one Newton step `newton_refine` for curves (`newtonRefine_near`).
-/

set_option linter.unusedSectionVars false
set_option linter.unusedVariables false

namespace BezierVerif

open Finset Model BezierVerif.Tri BezierVerif.TriD

section Generic
variable {F : Type} [Field F] [LinearOrder F] [IsStrictOrderedRing F] {fl : F → F} {u : F}

/-! ## computed numbers are numbers of the arithmetic -/

theorem map_mk_map_val (lh : List (Fl F fl)) : (lh.map (fun x => x.val)).map Fl.mk = lh := by
  rw [List.map_map]
  conv_rhs => rw [← List.map_id lh]
  apply List.map_congr_left
  intro x _
  cases x; rfl

theorem seq_map_val (lh : List (Fl F fl)) (j : ℕ) :
    seq (lh.map (fun x => x.val)) j = (seq lh j).val := by
  unfold seq
  rw [List.getD_eq_getElem?_getD, List.getD_eq_getElem?_getD, List.getElem?_map]
  cases lh[j]? <;> rfl

/-! ## the Bernstein sums are linear in the data -/

/-- data perturbed by `(R - 1)·A_j`, `|v_j| ≤ A_j`: the sum moves by `(R - 1)·Σ |term|(A)` -/
theorem bern_data_perturb (R : F) (hR : 1 ≤ R) (n : ℕ) (a b : F) (v' v A : ℕ → F)
    (h1 : ∀ j, j ≤ n → |v' j - v j| ≤ (R - 1) * A j) (h2 : ∀ j, j ≤ n → |v j| ≤ A j) :
    |bern n a b v' - bern n a b v| ≤ (R - 1) * bern n |a| |b| A ∧
    bern n |a| |b| (fun j => |v' j|) ≤ R * bern n |a| |b| A ∧
    |bern n a b v| ≤ bern n |a| |b| A := by
  unfold bern
  refine ⟨?_, ?_, ?_⟩
  · rw [← Finset.sum_sub_distrib, Finset.mul_sum]
    refine le_trans (Finset.abs_sum_le_sum_abs _ _) (Finset.sum_le_sum ?_)
    intro j hj
    have hj' : j ≤ n := by have := Finset.mem_range.mp hj; omega
    have t : (n.choose j : F) * a^(n-j) * b^j * v' j - (n.choose j : F) * a^(n-j) * b^j * v j
        = (n.choose j : F) * a^(n-j) * b^j * (v' j - v j) := by ring
    rw [t, abs_mul, abs_mul, abs_mul, Nat.abs_cast, abs_pow, abs_pow]
    have hc : 0 ≤ (n.choose j : F) * |a|^(n-j) * |b|^j := by positivity
    calc (n.choose j : F) * |a|^(n-j) * |b|^j * |v' j - v j|
        ≤ (n.choose j : F) * |a|^(n-j) * |b|^j * ((R - 1) * A j) :=
          mul_le_mul_of_nonneg_left (h1 j hj') hc
      _ = (R - 1) * ((n.choose j : F) * |a|^(n-j) * |b|^j * A j) := by ring
  · rw [Finset.mul_sum]
    refine Finset.sum_le_sum ?_
    intro j hj
    have hj' : j ≤ n := by have := Finset.mem_range.mp hj; omega
    have hc : 0 ≤ (n.choose j : F) * |a|^(n-j) * |b|^j := by positivity
    have hv : |v' j| ≤ R * A j := by
      have t1 : |v' j| ≤ |v' j - v j| + |v j| := by
        have := abs_add_le (v' j - v j) (v j); simpa using this
      have := h1 j hj'; have := h2 j hj'
      linarith
    calc (n.choose j : F) * |a|^(n-j) * |b|^j * |v' j|
        ≤ (n.choose j : F) * |a|^(n-j) * |b|^j * (R * A j) := mul_le_mul_of_nonneg_left hv hc
      _ = R * ((n.choose j : F) * |a|^(n-j) * |b|^j * A j) := by ring
  · refine le_trans (Finset.abs_sum_le_sum_abs _ _) (Finset.sum_le_sum ?_)
    intro j hj
    have hj' : j ≤ n := by have := Finset.mem_range.mp hj; omega
    rw [abs_mul, abs_mul, abs_mul, Nat.abs_cast, abs_pow, abs_pow]
    have hc : 0 ≤ (n.choose j : F) * |a|^(n-j) * |b|^j := by positivity
    exact mul_le_mul_of_nonneg_left (h2 j hj') hc

/-- the same for the bivariate sum; the weights of the scale are any non-negative numbers that
    dominate `|l1|, |l2|, |l3|` (the Cartesian entry point uses `|1 - s| + |t|` for `|λ₁|`) -/
theorem triBern_data_perturb (R : F) (hR : 1 ≤ R) (d : ℕ) (l1 l2 l3 L1 L2 L3 : F)
    (hl1 : |l1| ≤ L1) (hl2 : |l2| ≤ L2) (hl3 : |l3| ≤ L3) (w' w W : Net F)
    (h1 : ∀ j k, j + k ≤ d → |w' j k - w j k| ≤ (R - 1) * W j k)
    (h2 : ∀ j k, j + k ≤ d → |w j k| ≤ W j k) :
    |triBern d l1 l2 l3 w' - triBern d l1 l2 l3 w| ≤ (R - 1) * triBern d L1 L2 L3 W ∧
    triBern d L1 L2 L3 (fun j k => |w' j k|) ≤ R * triBern d L1 L2 L3 W ∧
    |triBern d l1 l2 l3 w| ≤ triBern d L1 L2 L3 W := by
  have hL1 : 0 ≤ L1 := le_trans (abs_nonneg _) hl1
  have hL2 : 0 ≤ L2 := le_trans (abs_nonneg _) hl2
  have hL3 : 0 ≤ L3 := le_trans (abs_nonneg _) hl3
  have hmon : ∀ j k, j + k ≤ d →
      ((d.choose k * (d-k).choose j : ℕ) : F) * |l1|^(d-k-j) * |l2|^j * |l3|^k
        ≤ ((d.choose k * (d-k).choose j : ℕ) : F) * L1^(d-k-j) * L2^j * L3^k := by
    intro j k _
    have p1 : |l1|^(d-k-j) ≤ L1^(d-k-j) := pow_le_pow_left₀ (abs_nonneg _) hl1 _
    have p2 : |l2|^j ≤ L2^j := pow_le_pow_left₀ (abs_nonneg _) hl2 _
    have p3 : |l3|^k ≤ L3^k := pow_le_pow_left₀ (abs_nonneg _) hl3 _
    have hc : (0:F) ≤ ((d.choose k * (d-k).choose j : ℕ) : F) := Nat.cast_nonneg _
    have q1 : ((d.choose k * (d-k).choose j : ℕ) : F) * |l1|^(d-k-j)
        ≤ ((d.choose k * (d-k).choose j : ℕ) : F) * L1^(d-k-j) := mul_le_mul_of_nonneg_left p1 hc
    have q2 := mul_le_mul q1 p2 (by positivity) (by positivity)
    exact mul_le_mul q2 p3 (by positivity) (by positivity)
  have hjk : ∀ k ∈ range (d+1), ∀ j ∈ range (d-k+1), j + k ≤ d := by
    intro k hk j hj
    have := Finset.mem_range.mp hk; have := Finset.mem_range.mp hj; omega
  unfold triBern
  refine ⟨?_, ?_, ?_⟩
  · rw [← Finset.sum_sub_distrib, Finset.mul_sum]
    refine le_trans (Finset.abs_sum_le_sum_abs _ _) (Finset.sum_le_sum ?_)
    intro k hk
    rw [← Finset.sum_sub_distrib, Finset.mul_sum]
    refine le_trans (Finset.abs_sum_le_sum_abs _ _) (Finset.sum_le_sum ?_)
    intro j hj
    have hle := hjk k hk j hj
    have t : ((d.choose k * (d-k).choose j : ℕ) : F) * l1^(d-k-j) * l2^j * l3^k * w' j k
        - ((d.choose k * (d-k).choose j : ℕ) : F) * l1^(d-k-j) * l2^j * l3^k * w j k
        = ((d.choose k * (d-k).choose j : ℕ) : F) * l1^(d-k-j) * l2^j * l3^k * (w' j k - w j k) := by
      ring
    rw [t, abs_mul, abs_mul, abs_mul, abs_mul, Nat.abs_cast, abs_pow, abs_pow, abs_pow]
    have hW : 0 ≤ W j k := le_trans (abs_nonneg _) (h2 j k hle)
    have hR' : 0 ≤ R - 1 := by linarith
    calc ((d.choose k * (d-k).choose j : ℕ) : F) * |l1|^(d-k-j) * |l2|^j * |l3|^k * |w' j k - w j k|
        ≤ (((d.choose k * (d-k).choose j : ℕ) : F) * L1^(d-k-j) * L2^j * L3^k) * ((R - 1) * W j k) :=
          mul_le_mul (hmon j k hle) (h1 j k hle) (abs_nonneg _) (by positivity)
      _ = (R - 1) * (((d.choose k * (d-k).choose j : ℕ) : F) * L1^(d-k-j) * L2^j * L3^k * W j k) := by
          ring
  · rw [Finset.mul_sum]
    refine Finset.sum_le_sum ?_
    intro k hk
    rw [Finset.mul_sum]
    refine Finset.sum_le_sum ?_
    intro j hj
    have hle := hjk k hk j hj
    have hv : |w' j k| ≤ R * W j k := by
      have t1 : |w' j k| ≤ |w' j k - w j k| + |w j k| := by
        have := abs_add_le (w' j k - w j k) (w j k); simpa using this
      have := h1 j k hle; have := h2 j k hle
      linarith
    have hc : 0 ≤ ((d.choose k * (d-k).choose j : ℕ) : F) * L1^(d-k-j) * L2^j * L3^k := by positivity
    calc ((d.choose k * (d-k).choose j : ℕ) : F) * L1^(d-k-j) * L2^j * L3^k * |w' j k|
        ≤ ((d.choose k * (d-k).choose j : ℕ) : F) * L1^(d-k-j) * L2^j * L3^k * (R * W j k) :=
          mul_le_mul_of_nonneg_left hv hc
      _ = R * (((d.choose k * (d-k).choose j : ℕ) : F) * L1^(d-k-j) * L2^j * L3^k * W j k) := by ring
  · refine le_trans (Finset.abs_sum_le_sum_abs _ _) (Finset.sum_le_sum ?_)
    intro k hk
    refine le_trans (Finset.abs_sum_le_sum_abs _ _) (Finset.sum_le_sum ?_)
    intro j hj
    have hle := hjk k hk j hj
    rw [abs_mul, abs_mul, abs_mul, abs_mul, Nat.abs_cast, abs_pow, abs_pow, abs_pow]
    have hW : 0 ≤ W j k := le_trans (abs_nonneg _) (h2 j k hle)
    exact mul_le_mul (hmon j k hle) (h2 j k hle) (abs_nonneg _) (by positivity)

end Generic

/-! ## curves: evaluation of perturbed data, differences, hodograph, concavity, curvature -/
section Curve
variable {F : Type} [Field F] [LinearOrder F] [IsStrictOrderedRing F] {fl : F → F} {u : F}

/-- **evaluation of data given with relative error** (two or more nodes), weights
    `(fl (1 - s), s)`: `3n + 2` roundings of the evaluation (`bary_rounding_one_less`) on top of
    the `k` of the data, relative to the Bernstein sum of the scales of the data -/
theorem evalBary_one_sub_near (S : StdModel fl u) (thr : ℕ) {k : ℕ} {lh : List (Fl F fl)}
    {l A : List F} (H : NearL fl u k lh l A) (h : 2 ≤ l.length)
    (hbin : l.length ≤ thr → VSBinomExact fl (l.length - 1)) (s : F) :
    Near fl u (3 * (l.length - 1) + 2 + k) (evalBary thr lh (1 - (⟨s⟩ : Fl F fl)) ⟨s⟩)
      (bern (l.length - 1) (1 - s) s (seq l)) (bern (l.length - 1) |1 - s| |s| (seq A)) := by
  have hlen : (lh.map (fun x => x.val)).length = l.length := by
    rw [List.length_map]; exact H.length_eq.1
  have B := BezierVerif.bary_rounding_one_less fl u S.hu S.hfl thr (lh.map (fun x => x.val))
    (by rw [hlen]; exact h) (by rw [hlen]; exact hbin) s
  rw [map_mk_map_val, hlen] at B
  have N0 : Near fl u (3 * (l.length - 1) + 2) (evalBary thr lh (1 - (⟨s⟩ : Fl F fl)) ⟨s⟩)
      (bern (l.length - 1) (1 - s) s (seq (lh.map (fun x => x.val))))
      (bern (l.length - 1) |1 - s| |s| (fun j => |seq (lh.map (fun x => x.val)) j|)) :=
    ⟨B, abs_bern_le _ _ _ _⟩
  have hR : (1:F) ≤ (1+u)^k := one_le_pow₀ (by linarith [S.hu])
  obtain ⟨p1, p2, p3⟩ := bern_data_perturb ((1+u)^k) hR (l.length - 1) (1 - s) s
    (seq (lh.map (fun x => x.val))) (seq l) (seq A)
    (fun j _ => by rw [seq_map_val]; exact (H.seq S j).1) (fun j _ => (H.seq S j).2)
  exact N0.perturb S p1 p2 p3

/-- a row with at most one node: the VS branch computes `fl (1-s)·v₀ + (s·1)·v₀`, the de Casteljau
    branch returns `v₀` -/
theorem evalBary_short_near (S : StdModel fl u) (thr : ℕ) {k : ℕ} {lh : List (Fl F fl)}
    {l A : List F} (H : NearL fl u k lh l A) (h : l.length ≤ 1) (s : F) :
    Near fl u (k + 3) (evalBary thr lh (1 - (⟨s⟩ : Fl F fl)) ⟨s⟩) (evalBary thr l (1 - s) s)
      (evalBary thr A |1 - s| |s|) := by
  obtain ⟨e1, e2⟩ := H.length_eq
  have ha := Near.one_sub (fl := fl) S s
  have hb := Near.exact (fl := fl) 0 S s
  have hn : l.length - 1 = 0 := by omega
  unfold evalBary
  rw [e1, e2, hn]
  split
  · simp only [evalDC]
    exact (H.headD S).mono S (by omega)
  · have v0 := H.seq S 0
    have t1 := ha.mul S v0
    have t2 := (hb.mul S (Near.one 0 S)).mul S v0
    have := t1.add' S t2
    simp only [evalVS, vsLoop, Nat.zero_sub]
    exact this.cast (by omega)

/-- **every row length**: the exact model on the scales is the scale -/
theorem evalBary_near_any (S : StdModel fl u) (thr : ℕ) {k : ℕ} {lh : List (Fl F fl)}
    {l A : List F} (H : NearL fl u k lh l A)
    (hbin : 2 ≤ l.length → l.length ≤ thr → VSBinomExact fl (l.length - 1)) (s : F) :
    Near fl u (3 * (l.length - 1) + 3 + k) (evalBary thr lh (1 - (⟨s⟩ : Fl F fl)) ⟨s⟩)
      (evalBary thr l (1 - s) s) (evalBary thr A |1 - s| |s|) := by
  by_cases h : 2 ≤ l.length
  · have e2 := H.length_eq.2
    rw [evalBary_eq_bern thr l h, evalBary_eq_bern thr A (by omega), e2]
    exact (evalBary_one_sub_near S thr H h (hbin h) s).mono S (by omega)
  · exact (evalBary_short_near S thr H (by omega) s).mono S (by omega)

/-- first differences of numbers of the arithmetic: one rounding each, scale `|v_{j+1} - v_j|` -/
theorem NearL.diffs_exact (S : StdModel fl u) : ∀ row : List F,
    NearL fl u 1 (diffs (row.map (Fl.mk (fl := fl)))) (diffs row) ((diffs row).map (|·|))
  | [] => .nil
  | [_] => .nil
  | x :: y :: rest => by
    have ih := NearL.diffs_exact S (y :: rest)
    simp only [List.map_cons, diffs] at ih ⊢
    exact .cons (Near.of_fl S rfl) ih

/-- sums of neighbours: the scale of a difference of computed numbers -/
def adjSums : List F → List F
  | x :: y :: rest => (y + x) :: adjSums (y :: rest)
  | _ => []

/-- differences of computed numbers: one more rounding, the scale is the sum of the two scales -/
theorem NearL.diffs (S : StdModel fl u) {k : ℕ} {lh : List (Fl F fl)} {l A : List F}
    (H : NearL fl u k lh l A) : NearL fl u (k + 1) (Model.diffs lh) (Model.diffs l) (adjSums A) := by
  induction H with
  | nil => exact .nil
  | cons h1 h2 ih =>
    cases h2 with
    | nil => exact .nil
    | cons h3 h4 =>
      simp only [Model.diffs, adjSums]
      exact .cons (h3.sub S h1) ih

/-- the exact model of `evaluate_hodograph` on the absolute values of the difference net -/
def absHodographRow (thr : ℕ) (row : List F) (s : F) : F :=
  ((row.length - 1 : ℕ) : F) * evalBary thr ((diffs row).map (|·|)) |1 - s| |s|

/-- three or more nodes: the scale is `n · Σ_j |C(n-1,j) (1-s)^(n-1-j) s^j Δ_j|` -/
theorem absHodographRow_eq (thr : ℕ) (row : List F) (h : 3 ≤ row.length) (s : F) :
    absHodographRow thr row s
      = ((row.length - 1 : ℕ) : F)
          * bern (row.length - 2) |1 - s| |s| (fun j => |seq (diffs row) j|) := by
  unfold absHodographRow
  rw [evalBary_eq_bern thr _ (by rw [List.length_map, Deriv.diffs_length]; omega), List.length_map,
    Deriv.diffs_length]
  congr 2
  funext j; exact seq_map_abs _ j

/-- **`evaluate_hodograph` in rounded arithmetic**, three or more nodes (`n = N - 1 ≥ 2`):
    one rounding per difference, `3(n-1) + 2` for the evaluation, one for the factor `n` -/
theorem hodographRow_near (S : StdModel fl u) (thr : ℕ) (row : List F) (h : 3 ≤ row.length)
    (hbin : row.length - 1 ≤ thr → VSBinomExact fl (row.length - 2)) (s : F) :
    Near fl u (3 * (row.length - 1) + 1) (hodographRow thr (row.map Fl.mk) (⟨s⟩ : Fl F fl))
      (hodographRow thr row s) (absHodographRow thr row s) := by
  have hd : (diffs row).length = row.length - 1 := Deriv.diffs_length row
  have D := NearL.diffs_exact (fl := fl) S row
  have E := evalBary_one_sub_near S thr D (by omega) (by rw [hd]; exact hbin) s
  have M := (Near.natCast 0 S (row.length - 1)).mul S E
  unfold hodographRow absHodographRow
  rw [List.length_map, evalBary_eq_bern thr (diffs row) (by omega),
    evalBary_eq_bern thr _ (by rw [List.length_map]; omega), List.length_map]
  exact M.cast (by omega)

/-- every row with two or more nodes (a line evaluates a one-node row through the VS branch:
    `fl (1-s)·Δ + (s·1)·Δ`); scale: the exact model on the absolute differences -/
theorem hodographRow_near_any (S : StdModel fl u) (thr : ℕ) (row : List F) (h : 2 ≤ row.length)
    (hbin : 3 ≤ row.length → row.length - 1 ≤ thr → VSBinomExact fl (row.length - 2)) (s : F) :
    Near fl u (3 * (row.length - 1) + 2) (hodographRow thr (row.map Fl.mk) (⟨s⟩ : Fl F fl))
      (hodographRow thr row s) (absHodographRow thr row s) := by
  have hd : (diffs row).length = row.length - 1 := Deriv.diffs_length row
  have D := NearL.diffs_exact (fl := fl) S row
  have E := evalBary_near_any S thr D
    (by rw [hd]; intro h2 h3; exact hbin (by omega) h3) s
  have M := (Near.natCast 0 S (row.length - 1)).mul S E
  unfold hodographRow absHodographRow
  rw [List.length_map]
  exact M.cast (by omega)

/-- the exact model of the concavity vector on the scales of the second differences
    (`|Δ_{j+1}| + |Δ_j|`: the second difference of rounded first differences may cancel) -/
def absConcavityRow (thr : ℕ) (row : List F) (s : F) : F :=
  (((row.length - 1 : ℕ) : F) * ((row.length - 2 : ℕ) : F))
    * evalBary thr (adjSums ((diffs row).map (|·|))) |1 - s| |s|

/-- **concavity vector of `get_curvature` in rounded arithmetic**, three or more nodes -/
theorem concavityRow_near (S : StdModel fl u) (thr : ℕ) (row : List F) (h : 3 ≤ row.length)
    (hbin : 4 ≤ row.length → row.length - 2 ≤ thr → VSBinomExact fl (row.length - 3)) (s : F) :
    Near fl u (3 * (row.length - 1) + 1) (concavityRow thr (row.map Fl.mk) (⟨s⟩ : Fl F fl))
      (concavityRow thr row s) (absConcavityRow thr row s) := by
  have hd : (diffs (diffs row)).length = row.length - 2 := by
    rw [Deriv.diffs_length, Deriv.diffs_length]; omega
  have D := NearL.diffs S (NearL.diffs_exact (fl := fl) S row)
  have E := evalBary_near_any S thr D
    (by rw [hd]; intro h2 h3; exact hbin (by omega) h3) s
  have Cf := (Near.natCast (fl := fl) 0 S (row.length - 1)).mul S (Near.natCast 0 S (row.length - 2))
  have M := Cf.mul S E
  unfold concavityRow absConcavityRow
  rw [List.length_map]
  exact M.cast (by omega)

/-- **numerator and squared tangent norm of `get_curvature`** (planar curve with three or more
    nodes, the tangent is an input array): `T × B''` with `3n + 3` roundings, `⟨T, T⟩` with 3 -/
theorem curvatureParts_near (S : StdModel fl u) (thr : ℕ) (xs ys : List F) (h : 3 ≤ xs.length)
    (hl : ys.length = xs.length)
    (hbin : 4 ≤ xs.length → xs.length - 2 ≤ thr → VSBinomExact fl (xs.length - 3)) (tx ty s : F) :
    Near fl u (3 * (xs.length - 1) + 3)
      (curvatureParts thr [xs.map Fl.mk, ys.map Fl.mk] [(⟨tx⟩ : Fl F fl), ⟨ty⟩] ⟨s⟩).1
      (curvatureParts thr [xs, ys] [tx, ty] s).1
      (|tx| * absConcavityRow thr ys s + |ty| * absConcavityRow thr xs s) ∧
    Near fl u 3
      (curvatureParts thr [xs.map Fl.mk, ys.map Fl.mk] [(⟨tx⟩ : Fl F fl), ⟨ty⟩] ⟨s⟩).2
      (curvatureParts thr [xs, ys] [tx, ty] s).2 (0 + |tx| * |tx| + |ty| * |ty|) := by
  have hne : ¬ ncols [xs, ys] = 2 := by simp [ncols]; omega
  have hne' : ¬ ncols [xs.map (Fl.mk (fl := fl)), ys.map Fl.mk] = 2 := by simp [ncols]; omega
  have cx := concavityRow_near S thr xs h hbin s
  have cy := concavityRow_near S thr ys (by omega) (by rw [hl]; exact hbin) s
  rw [hl] at cy
  have ex := Near.exact (fl := fl) 0 S tx
  have ey := Near.exact (fl := fl) 0 S ty
  unfold curvatureParts
  rw [if_neg hne, if_neg hne']
  constructor
  · have := (ex.mul S cy).sub S (ey.mul S cx)
    simp only [cross2, seq, List.map_cons, List.map_nil, List.getD_cons_zero, List.getD_cons_succ]
    exact this.cast (by omega)
  · have := ((Near.zero 1 S).add S ((ex.mul S ex).cast (by norm_num))).add S
      ((ey.mul S ey).mono S (by norm_num))
    simp only [Model.dot, List.zipWith_cons_cons, List.zipWith_nil_right, List.foldl_cons,
      List.foldl_nil]
    exact this

end Curve

/-! ## triangles: `jacobian_s`, `jacobian_t`, evaluation at a Cartesian point, `jacobian_det` -/
section Triangle
variable {F : Type} [Field F] [LinearOrder F] [IsStrictOrderedRing F] {fl : F → F} {u : F}

/-- `jacobian_s` on numbers of the arithmetic: the difference and the product by the degree, two
    roundings per entry, scale `|d (v_{i+1} - v_i)|` -/
theorem jacobianSRow_near (S : StdModel fl u) (d : ℕ) (row : List F) :
    NearL fl u 2 (jacobianSRow d (row.map (Fl.mk (fl := fl)))) (jacobianSRow d row)
      ((jacobianSRow d row).map (|·|)) := by
  unfold jacobianSRow
  rw [List.map_map]
  apply All3.map_list
  intro p _
  simp only [Function.comp]
  rw [seq_map_mk', abs_mul, Nat.abs_cast]
  exact ((Near.natCast 0 S d).mul S (Near.of_fl S rfl)).cast (by norm_num)

/-- `jacobian_t` -/
theorem jacobianTRow_near (S : StdModel fl u) (d : ℕ) (row : List F) :
    NearL fl u 2 (jacobianTRow d (row.map (Fl.mk (fl := fl)))) (jacobianTRow d row)
      ((jacobianTRow d row).map (|·|)) := by
  unfold jacobianTRow
  rw [List.map_map]
  apply All3.map_list
  intro p _
  simp only [Function.comp]
  rw [seq_map_mk', abs_mul, Nat.abs_cast]
  exact ((Near.natCast 0 S d).mul S (Near.of_fl S rfl)).cast (by norm_num)

/-- **`evaluate_barycentric` at a Cartesian point `(s, t)` of data given with relative error**:
    `2d + 4` roundings of the row loop, `2d` for `λ₁ = fl (fl (1 - s) - t)`, `k` of the data;
    the scale uses `|1 - s| + |t|` in place of `|λ₁|` (the two subtractions may cancel) -/
theorem py_evalCartesianRow_near (S : StdModel fl u) (thr d : ℕ) (hbin : TriBinomExact fl d)
    (hrows : ∀ n, 1 ≤ n → n ≤ d → n + 1 ≤ thr → VSBinomExact fl n)
    {k : ℕ} {lh : List (Fl F fl)} {l A : List F} (H : NearL fl u k lh l A)
    (h : l.length = numNodes d) (s t : F) :
    Near fl u (4 * d + 4 + k) (Py.evalBarycentricRow thr d lh (cartesian (⟨s⟩ : Fl F fl) ⟨t⟩))
      (triBern d (1 - s - t) s t (netOf d l)) (triBern d (|1 - s| + |t|) |s| |t| (netOf d A)) := by
  have hlen : (lh.map (fun x => x.val)).length = numNodes d := by
    rw [List.length_map, H.length_eq.1, h]
  have N1 := cartesian_perturb S d _ (lh.map (fun x => x.val)) s t
    (py_evalBarycentricRow_near S thr d hbin hrows (lh.map (fun x => x.val)) hlen
      ⟨fl (fl (1 - s) - t), s, t⟩)
  rw [map_mk_map_val, netOf_map_abs] at N1
  rw [cartesian_fl]
  have hR : (1:F) ≤ (1+u)^k := one_le_pow₀ (by linarith [S.hu])
  have hl1 : |1 - s - t| ≤ |1 - s| + |t| := abs_sub (1 - s) t
  have q1 : ∀ j k', j + k' ≤ d → |netOf d (lh.map (fun x => x.val)) j k' - netOf d l j k'|
      ≤ ((1+u)^k - 1) * netOf d A j k' := by
    intro j k' _
    simp only [netOf]
    rw [seq_map_val]
    exact (H.seq S _).1
  have q2 : ∀ j k', j + k' ≤ d → |netOf d l j k'| ≤ netOf d A j k' := fun j k' _ => (H.seq S _).2
  obtain ⟨p1, p2, p3⟩ := triBern_data_perturb ((1+u)^k) hR d (1 - s - t) s t (|1 - s| + |t|) |s| |t|
    hl1 le_rfl le_rfl (netOf d (lh.map (fun x => x.val))) (netOf d l) (netOf d A) q1 q2
  have N2 := N1.perturb S p1 p2 p3
  exact N2.cast (by ring)

/-- the scale of `∂B/∂s`: the Bernstein sum of the absolute `jacobian_s` net -/
def absJacS (d : ℕ) (row : List F) (s t : F) : F :=
  triBern (d - 1) (|1 - s| + |t|) |s| |t| (netOf (d - 1) ((jacobianSRow d row).map (|·|)))

/-- the scale of `∂B/∂t` -/
def absJacT (d : ℕ) (row : List F) (s t : F) : F :=
  triBern (d - 1) (|1 - s| + |t|) |s| |t| (netOf (d - 1) ((jacobianTRow d row).map (|·|)))

/-- one partial derivative as `jacobian_det` evaluates it, degree `d ≥ 1`: `4d + 2` roundings -/
theorem evalJacS_near (S : StdModel fl u) (thr d : ℕ) (hd : 1 ≤ d) (hbin : TriBinomExact fl (d - 1))
    (hrows : ∀ n, 1 ≤ n → n ≤ d - 1 → n + 1 ≤ thr → VSBinomExact fl n) (row : List F) (s t : F) :
    Near fl u (4 * d + 2)
      (Py.evalBarycentricRow thr (d - 1) (jacobianSRow d (row.map Fl.mk)) (cartesian (⟨s⟩ : Fl F fl) ⟨t⟩))
      (Py.evalBarycentricRow thr (d - 1) (jacobianSRow d row) (cartesian s t)) (absJacS d row s t) := by
  have hl := jacobianSRow_length d hd row
  rw [Py_evalBarycentricRow_eq thr (d - 1) _ _ (by rw [hl, numNodes_eq_rowStart])]
  exact (py_evalCartesianRow_near S thr (d - 1) hbin hrows (jacobianSRow_near S d row) hl s t).cast
    (by omega)

theorem evalJacT_near (S : StdModel fl u) (thr d : ℕ) (hd : 1 ≤ d) (hbin : TriBinomExact fl (d - 1))
    (hrows : ∀ n, 1 ≤ n → n ≤ d - 1 → n + 1 ≤ thr → VSBinomExact fl n) (row : List F) (s t : F) :
    Near fl u (4 * d + 2)
      (Py.evalBarycentricRow thr (d - 1) (jacobianTRow d (row.map Fl.mk)) (cartesian (⟨s⟩ : Fl F fl) ⟨t⟩))
      (Py.evalBarycentricRow thr (d - 1) (jacobianTRow d row) (cartesian s t)) (absJacT d row s t) := by
  have hl := jacobianTRow_length d hd row
  rw [Py_evalBarycentricRow_eq thr (d - 1) _ _ (by rw [hl, numNodes_eq_rowStart])]
  exact (py_evalCartesianRow_near S thr (d - 1) hbin hrows (jacobianTRow_near S d row) hl s t).cast
    (by omega)

/-- **`jacobian_det` in rounded arithmetic**, degree `d ≥ 2`: the 2×2 determinant of four evaluated
    partial derivatives, `2(4d+2) + 2` roundings, relative to `|x_s||y_t| + |y_s||x_t|` formed with
    the scales of the factors -/
theorem jacobianDet_near (S : StdModel fl u) (thr d : ℕ) (hd : 2 ≤ d) (hbin : TriBinomExact fl (d - 1))
    (hrows : ∀ n, 1 ≤ n → n ≤ d - 1 → n + 1 ≤ thr → VSBinomExact fl n) (xs ys : List F) (s t : F) :
    Near fl u (8 * d + 6)
      (jacobianDet thr d [xs.map Fl.mk, ys.map Fl.mk] (⟨s⟩ : Fl F fl) ⟨t⟩)
      (jacobianDet thr d [xs, ys] s t)
      (absJacS d xs s t * absJacT d ys s t + absJacS d ys s t * absJacT d xs s t) := by
  have h1 : ¬ d = 1 := by omega
  have xS := evalJacS_near S thr d (by omega) hbin hrows xs s t
  have yS := evalJacS_near S thr d (by omega) hbin hrows ys s t
  have xT := evalJacT_near S thr d (by omega) hbin hrows xs s t
  have yT := evalJacT_near S thr d (by omega) hbin hrows ys s t
  have := (xS.mul S yT).sub S (yS.mul S xT)
  unfold jacobianDet jacobianBoth
  simp only [h1, if_false, Py.evalBarycentric, List.map_cons, List.map_nil, List.cons_append,
    List.nil_append, seq, List.getD_cons_zero, List.getD_cons_succ]
  exact this.cast (by ring)

/-- degree 1: the determinant of the four (constant) Jacobian entries, `2·2 + 2` roundings -/
theorem jacobianDet_near_one (S : StdModel fl u) (thr : ℕ) (xs ys : List F) (s t : F) :
    Near fl u 6
      (jacobianDet thr 1 [xs.map Fl.mk, ys.map Fl.mk] (⟨s⟩ : Fl F fl) ⟨t⟩)
      (jacobianDet thr 1 [xs, ys] s t)
      (seq ((jacobianSRow 1 xs).map (|·|)) 0 * seq ((jacobianTRow 1 ys).map (|·|)) 0
        + seq ((jacobianSRow 1 ys).map (|·|)) 0 * seq ((jacobianTRow 1 xs).map (|·|)) 0) := by
  have xS := (jacobianSRow_near S 1 xs).seq S 0
  have yS := (jacobianSRow_near S 1 ys).seq S 0
  have xT := (jacobianTRow_near S 1 xs).seq S 0
  have yT := (jacobianTRow_near S 1 ys).seq S 0
  have := (xS.mul S yT).sub S (yS.mul S xT)
  unfold jacobianDet jacobianBoth
  simp only [if_true, List.map_cons, List.map_nil, List.cons_append, List.nil_append,
    List.getD_cons_zero, List.getD_cons_succ]
  simp only [seq, List.getD_cons_zero, List.getD_cons_succ] at this ⊢
  exact this

end Triangle

/-! ## a quotient of computed numbers; one Newton step for curves -/
section Newton
variable {F : Type} [Field F] [LinearOrder F] [IsStrictOrderedRing F] {fl : F → F} {u : F}

/-- **quotient of two computed numbers**, the denominator bounded away from zero by more than its
    own error: `0 < m ≤ |y| - ((1+u)^k - 1)·Y`.  The error of `x̂ / ŷ` is that of the numerator
    over `m` plus `|x|/|y|` times that of the denominator over `m` -/
theorem Near.div (S : StdModel fl u) {j k : ℕ} {xh yh : Fl F fl} {x X y Y m : F}
    (hx : Near fl u j xh x X) (hy : Near fl u k yh y Y) (hm : 0 < m)
    (hmy : m ≤ |y| - ((1+u)^k - 1) * Y) :
    Near fl u (max (j + 1) k) (xh / yh) (x / y) ((X + |x| * Y / |y|) / m) := by
  have hu := S.hu
  have hX := hx.scale_nonneg
  have hY := hy.scale_nonneg
  have hcY : 0 ≤ ((1+u)^k - 1) * Y := mul_nonneg (pow_sub_one_nonneg u hu k) hY
  have hypos : 0 < |y| := by linarith
  have hy0 : y ≠ 0 := abs_pos.mp hypos
  have hyh : m ≤ |yh.val| := by
    have t : |y| ≤ |yh.val| + |yh.val - y| := by
      have := abs_sub yh.val (yh.val - y)
      rwa [sub_sub_cancel] at this
    have := hy.1
    linarith
  have hyhpos : 0 < |yh.val| := lt_of_lt_of_le hm hyh
  have hyh0 : yh.val ≠ 0 := abs_pos.mp hyhpos
  have hmi : 0 ≤ m⁻¹ := inv_nonneg.mpr hm.le
  have hinv : |yh.val|⁻¹ ≤ m⁻¹ := inv_anti₀ hm hyh
  have hinvy : |y|⁻¹ ≤ m⁻¹ := inv_anti₀ hm (by linarith)
  have hyi : 0 ≤ |y|⁻¹ := inv_nonneg.mpr hypos.le
  have hρj : (1:F) ≤ (1+u)^j := one_le_pow₀ (by linarith)
  have ax := hx.abs_val_le S
  set W := |x| * Y / |y| with hW
  have hW0 : 0 ≤ W := div_nonneg (mul_nonneg (abs_nonneg _) hY) hypos.le
  constructor
  · show |fl (xh.val / yh.val) - x / y| ≤ _
    have e := S.hfl (xh.val / yh.val)
    have hE : |xh.val / yh.val| ≤ (1+u)^j * X * m⁻¹ := by
      rw [div_eq_mul_inv, abs_mul, abs_inv]
      exact mul_le_mul ax hinv (inv_nonneg.mpr (abs_nonneg _)) (by positivity)
    have t : xh.val / yh.val - x / y
        = (xh.val - x) * yh.val⁻¹ + x * (y - yh.val) * (yh.val⁻¹ * y⁻¹) := by
      field_simp
      ring
    have b1 : |(xh.val - x) * yh.val⁻¹| ≤ ((1+u)^j - 1) * X * m⁻¹ := by
      rw [abs_mul, abs_inv]
      exact mul_le_mul hx.1 hinv (inv_nonneg.mpr (abs_nonneg _))
        (mul_nonneg (by linarith) hX)
    have b2 : |x * (y - yh.val) * (yh.val⁻¹ * y⁻¹)| ≤ |x| * (((1+u)^k - 1) * Y) * (m⁻¹ * |y|⁻¹) := by
      rw [abs_mul, abs_mul, abs_mul, abs_inv, abs_inv]
      have h1 : |y - yh.val| ≤ ((1+u)^k - 1) * Y := by rw [abs_sub_comm]; exact hy.1
      have h2 : |x| * |y - yh.val| ≤ |x| * (((1+u)^k - 1) * Y) :=
        mul_le_mul_of_nonneg_left h1 (abs_nonneg _)
      have h3 : |yh.val|⁻¹ * |y|⁻¹ ≤ m⁻¹ * |y|⁻¹ := mul_le_mul_of_nonneg_right hinv hyi
      exact mul_le_mul h2 h3 (mul_nonneg (inv_nonneg.mpr (abs_nonneg _)) hyi)
        (mul_nonneg (abs_nonneg _) hcY)
    have t2 : fl (xh.val / yh.val) - x / y
        = (fl (xh.val / yh.val) - xh.val / yh.val) + (xh.val / yh.val - x / y) := by ring
    rw [t2]
    have tri := abs_add_le (fl (xh.val / yh.val) - xh.val / yh.val) (xh.val / yh.val - x / y)
    have tri2 : |xh.val / yh.val - x / y|
        ≤ |(xh.val - x) * yh.val⁻¹| + |x * (y - yh.val) * (yh.val⁻¹ * y⁻¹)| := by
      rw [t]; exact abs_add_le _ _
    have g1 : u * |xh.val / yh.val| ≤ u * ((1+u)^j * X * m⁻¹) := mul_le_mul_of_nonneg_left hE hu
    have c1 : ((1+u)^(j+1) - 1) * (X * m⁻¹) ≤ ((1+u)^(max (j+1) k) - 1) * (X * m⁻¹) :=
      mul_le_mul_of_nonneg_right (pow_sub_one_mono u hu (le_max_left _ _)) (mul_nonneg hX hmi)
    have c2 : ((1+u)^k - 1) * (W * m⁻¹) ≤ ((1+u)^(max (j+1) k) - 1) * (W * m⁻¹) :=
      mul_le_mul_of_nonneg_right (pow_sub_one_mono u hu (le_max_right _ _)) (mul_nonneg hW0 hmi)
    calc _ ≤ u * ((1+u)^j * X * m⁻¹)
            + (((1+u)^j - 1) * X * m⁻¹ + |x| * (((1+u)^k - 1) * Y) * (m⁻¹ * |y|⁻¹)) := by linarith
      _ = ((1+u)^(j+1) - 1) * (X * m⁻¹) + ((1+u)^k - 1) * (W * m⁻¹) := by
          rw [hW, div_eq_mul_inv]; ring
      _ ≤ ((1+u)^(max (j+1) k) - 1) * (X * m⁻¹) + ((1+u)^(max (j+1) k) - 1) * (W * m⁻¹) := by
          linarith
      _ = ((1+u)^(max (j+1) k) - 1) * ((X + W) / m) := by rw [div_eq_mul_inv]; ring
  · rw [abs_div, div_eq_mul_inv, div_eq_mul_inv]
    have h1 : |x| * |y|⁻¹ ≤ X * m⁻¹ := mul_le_mul hx.2 hinvy hyi hX
    have h2 : X * m⁻¹ ≤ (X + W) * m⁻¹ := mul_le_mul_of_nonneg_right (by linarith) hmi
    linarith

/-- differences entry by entry -/
theorem NearL.zipWith_sub (S : StdModel fl u) {i j : ℕ} {xh yh : List (Fl F fl)} {x X y Y : List F}
    (hx : NearL fl u i xh x X) (hy : NearL fl u j yh y Y) :
    NearL fl u (max i j + 1) (List.zipWith (· - ·) xh yh) (List.zipWith (· - ·) x y)
      (List.zipWith (· + ·) X Y) := by
  induction hx generalizing yh y Y with
  | nil => simpa using All3.nil
  | cons h1 _ ih =>
    cases hy with
    | nil => simpa using All3.nil
    | cons h2 h3 => simpa using All3.cons (h1.sub' S h2) (ih h3)

/-- evaluation of numbers of the arithmetic at `(fl (1 - s), s)`, relative to the exact model on
    absolute values -/
theorem evalBary_exact_data_near (S : StdModel fl u) (thr : ℕ) (row : List F) (h : 2 ≤ row.length)
    (hbin : row.length ≤ thr → VSBinomExact fl (row.length - 1)) (s : F) :
    Near fl u (3 * (row.length - 1) + 2) (evalBary thr (row.map Fl.mk) (1 - (⟨s⟩ : Fl F fl)) ⟨s⟩)
      (evalBary thr row (1 - s) s) (evalBary thr (row.map (|·|)) |1 - s| |s|) := by
  rw [evalBary_eq_bern thr row h, evalBary_eq_bern thr _ (by rw [List.length_map]; exact h),
    List.length_map]
  exact (evalBary_one_sub_near S thr (NearL.map_mk S 0 row) h hbin s).cast (by omega)

/-- the exact model of `evaluate_multi` at one parameter on absolute values -/
def absEvalPoint (thr : ℕ) (nodes : List (List F)) (s : F) : List F :=
  nodes.map (fun row => evalBary thr (row.map (|·|)) |1 - s| |s|)

/-- the exact model of `evaluate_hodograph` on the absolute difference nets -/
def absHodograph (thr : ℕ) (nodes : List (List F)) (s : F) : List F :=
  nodes.map (fun row => absHodographRow thr row s)

/-- numerator `⟨p − B(s), B'(s)⟩` and denominator `⟨B'(s), B'(s)⟩` of the Newton step -/
def newtonNum (thr : ℕ) (nodes : List (List F)) (point : List F) (s : F) : F :=
  dot (subRow point (evalPoint thr nodes s)) (hodograph thr nodes s)

def newtonDen (thr : ℕ) (nodes : List (List F)) (s : F) : F :=
  dot (hodograph thr nodes s) (hodograph thr nodes s)

/-- their scales: `Σ_r (|p_r| + Σ|terms of B_r|)·(Σ|terms of B'_r|)` and `Σ_r (Σ|terms of B'_r|)²` -/
def newtonNumAbs (thr : ℕ) (nodes : List (List F)) (point : List F) (s : F) : F :=
  dot (List.zipWith (· + ·) (point.map (|·|)) (absEvalPoint thr nodes s)) (absHodograph thr nodes s)

def newtonDenAbs (thr : ℕ) (nodes : List (List F)) (s : F) : F :=
  dot (absHodograph thr nodes s) (absHodograph thr nodes s)

theorem newtonRefine_eq (thr : ℕ) (nodes : List (List F)) (point : List F) (s : F) :
    newtonRefine thr nodes point s = s + newtonNum thr nodes point s / newtonDen thr nodes s := rfl

/-- `evaluate_multi` at one parameter, all rows of a degree-`n` curve -/
theorem evalPoint_near (S : StdModel fl u) (thr n : ℕ) (hn : 1 ≤ n) (nodes : List (List F))
    (hN : ∀ row ∈ nodes, row.length = n + 1) (hbinE : n + 1 ≤ thr → VSBinomExact fl n) (s : F) :
    NearL fl u (3 * n + 2) (evalPoint thr (nodes.map (List.map Fl.mk)) (⟨s⟩ : Fl F fl))
      (evalPoint thr nodes s) (absEvalPoint thr nodes s) := by
  unfold evalPoint absEvalPoint
  rw [List.map_map]
  apply All3.map_list
  intro row hrow
  have hl := hN row hrow
  simp only [Function.comp]
  have := evalBary_exact_data_near S thr row (by omega) (by rw [hl]; exact hbinE) s
  rw [hl] at this
  exact this

/-- `evaluate_hodograph`, all rows -/
theorem hodograph_near (S : StdModel fl u) (thr n : ℕ) (hn : 1 ≤ n) (nodes : List (List F))
    (hN : ∀ row ∈ nodes, row.length = n + 1) (hbinH : 2 ≤ n → n ≤ thr → VSBinomExact fl (n - 1))
    (s : F) :
    NearL fl u (3 * n + 2) (hodograph thr (nodes.map (List.map Fl.mk)) (⟨s⟩ : Fl F fl))
      (hodograph thr nodes s) (absHodograph thr nodes s) := by
  unfold hodograph absHodograph
  rw [List.map_map]
  apply All3.map_list
  intro row hrow
  have hl := hN row hrow
  simp only [Function.comp]
  have := hodographRow_near_any S thr row (by omega)
    (by rw [hl]; intro h3 h4; exact hbinH (by omega) h4) s
  rw [hl] at this
  exact this

/-- **one Newton step `newton_refine` (curve) in rounded arithmetic**: degree `n ≥ 1`, any
    dimension `dim = nodes.length`; `B'(s)·B'(s)` bounded away from zero by more than its own
    rounding error (`0 < m ≤ |den| - ((1+u)^(6n+5+dim) - 1)·denAbs`) -/
theorem newtonRefine_near (S : StdModel fl u) (thr n : ℕ) (hn : 1 ≤ n) (nodes : List (List F))
    (hN : ∀ row ∈ nodes, row.length = n + 1) (hbinE : n + 1 ≤ thr → VSBinomExact fl n)
    (hbinH : 2 ≤ n → n ≤ thr → VSBinomExact fl (n - 1)) (point : List F)
    (hp : point.length = nodes.length) (s m : F) (hm : 0 < m)
    (hmy : m ≤ |newtonDen thr nodes s|
        - ((1+u)^(6 * n + 5 + nodes.length) - 1) * newtonDenAbs thr nodes s) :
    Near fl u (6 * n + 8 + nodes.length)
      (newtonRefine thr (nodes.map (List.map Fl.mk)) (point.map Fl.mk) (⟨s⟩ : Fl F fl))
      (newtonRefine thr nodes point s)
      (|s| + (newtonNumAbs thr nodes point s
          + |newtonNum thr nodes point s| * newtonDenAbs thr nodes s / |newtonDen thr nodes s|) / m) := by
  have hE := evalPoint_near S thr n hn nodes hN hbinE s
  have hH := hodograph_near S thr n hn nodes hN hbinH s
  have hdelta := NearL.zipWith_sub S (NearL.map_mk S 0 point) hE
  have hnum := Near.dot S hdelta hH
  have hden := Near.dot S hH hH
  have l1 : (List.zipWith (· - ·) point (evalPoint thr nodes s)).length = nodes.length := by
    simp [evalPoint, hp]
  have l2 : (hodograph thr nodes s).length = nodes.length := by simp [hodograph]
  rw [l1] at hnum
  rw [l2] at hden
  have hden' : Near fl u (6 * n + 5 + nodes.length) _ _ _ := hden.cast (by omega)
  have hq := Near.div S hnum hden' hm hmy
  have hs := (Near.exact 0 S s).add' S hq
  rw [newtonRefine_eq]
  exact hs.cast (by omega)

end Newton

/-! ## further forms: the final addition of the Newton step, `jacobian_both`, second differences -/
section More
variable {F : Type} [Field F] [LinearOrder F] [IsStrictOrderedRing F] {fl : F → F} {u : F}

/-- a number of the arithmetic plus a computed number: the datum only sees the last rounding -/
theorem Near.add_exact_left (S : StdModel fl u) {k : ℕ} {qh : Fl F fl} {q Q : F} (s : F)
    (hq : Near fl u k qh q Q) :
    |((⟨s⟩ : Fl F fl) + qh).val - (s + q)| ≤ u * |s| + ((1+u)^(k+1) - 1) * Q := by
  have hu := S.hu
  have aq := hq.abs_val_le S
  have e := S.hfl (s + qh.val)
  have t : fl (s + qh.val) - (s + q) = (fl (s + qh.val) - (s + qh.val)) + (qh.val - q) := by ring
  show |fl (s + qh.val) - (s + q)| ≤ _
  rw [t]
  have tri := abs_add_le (fl (s + qh.val) - (s + qh.val)) (qh.val - q)
  have tri2 := abs_add_le s qh.val
  have g : u * |s + qh.val| ≤ u * (|s| + (1+u)^k * Q) :=
    mul_le_mul_of_nonneg_left (by linarith) hu
  calc _ ≤ u * (|s| + (1+u)^k * Q) + ((1+u)^k - 1) * Q := by linarith [hq.1]
    _ = u * |s| + ((1+u)^(k+1) - 1) * Q := by ring

/-- the Newton step with the last addition separated: the starting parameter `s` only carries one
    rounding -/
theorem newtonRefine_sharp (S : StdModel fl u) (thr n : ℕ) (hn : 1 ≤ n) (nodes : List (List F))
    (hN : ∀ row ∈ nodes, row.length = n + 1) (hbinE : n + 1 ≤ thr → VSBinomExact fl n)
    (hbinH : 2 ≤ n → n ≤ thr → VSBinomExact fl (n - 1)) (point : List F)
    (hp : point.length = nodes.length) (s m : F) (hm : 0 < m)
    (hmy : m ≤ |newtonDen thr nodes s|
        - ((1+u)^(6 * n + 5 + nodes.length) - 1) * newtonDenAbs thr nodes s) :
    |(newtonRefine thr (nodes.map (List.map Fl.mk)) (point.map Fl.mk) (⟨s⟩ : Fl F fl)).val
        - newtonRefine thr nodes point s|
      ≤ u * |s| + ((1+u)^(6 * n + 8 + nodes.length) - 1)
          * ((newtonNumAbs thr nodes point s
              + |newtonNum thr nodes point s| * newtonDenAbs thr nodes s / |newtonDen thr nodes s|) / m) := by
  have hE := evalPoint_near S thr n hn nodes hN hbinE s
  have hH := hodograph_near S thr n hn nodes hN hbinH s
  have hdelta := NearL.zipWith_sub S (NearL.map_mk S 0 point) hE
  have hnum := Near.dot S hdelta hH
  have hden := Near.dot S hH hH
  have l1 : (List.zipWith (· - ·) point (evalPoint thr nodes s)).length = nodes.length := by
    simp [evalPoint, hp]
  have l2 : (hodograph thr nodes s).length = nodes.length := by simp [hodograph]
  rw [l1] at hnum
  rw [l2] at hden
  have hden' : Near fl u (6 * n + 5 + nodes.length) _ _ _ := hden.cast (by omega)
  have hq := (Near.div S hnum hden' hm hmy).cast
    (by omega : max (max 0 (3 * n + 2) + 1 + (3 * n + 2) + 1 + nodes.length + 1)
      (6 * n + 5 + nodes.length) = 6 * n + 7 + nodes.length)
  have := Near.add_exact_left S s hq
  have e : 6 * n + 7 + nodes.length + 1 = 6 * n + 8 + nodes.length := by omega
  rw [e] at this
  rw [newtonRefine_eq]
  exact this

theorem adjSums_length : ∀ l : List F, (adjSums l).length = l.length - 1
  | [] => rfl
  | [_] => rfl
  | x :: y :: rest => by
    simp only [adjSums, List.length_cons]
    rw [adjSums_length (y :: rest)]; simp

theorem seq_adjSums : ∀ (l : List F) (j : ℕ), j + 1 < l.length →
    seq (adjSums l) j = seq l (j+1) + seq l j
  | [], j, h => by simp at h
  | [_], j, h => by simp at h
  | x :: y :: rest, 0, _ => by simp [adjSums, seq]
  | x :: y :: rest, j+1, h => by
    have ih := seq_adjSums (y :: rest) j (by simpa using h)
    simp only [adjSums, seq, List.getD_cons_succ] at ih ⊢
    exact ih

/-- four or more nodes: the scale of the concavity vector as a sum of magnitudes -/
theorem absConcavityRow_eq (thr : ℕ) (row : List F) (h : 4 ≤ row.length) (s : F) :
    absConcavityRow thr row s
      = (((row.length - 1 : ℕ) : F) * ((row.length - 2 : ℕ) : F))
          * bern (row.length - 3) |1 - s| |s|
              (fun j => |seq (diffs row) (j+1)| + |seq (diffs row) j|) := by
  have hd : ((diffs row).map (|·|)).length = row.length - 1 := by
    rw [List.length_map, Deriv.diffs_length]
  unfold absConcavityRow
  rw [evalBary_eq_bern thr _ (by rw [adjSums_length, hd]; omega), adjSums_length, hd]
  congr 1
  have e : row.length - 1 - 1 - 1 = row.length - 3 := by omega
  rw [e]
  apply bern_congr'
  intro j hj
  rw [seq_adjSums _ j (by rw [hd]; omega), seq_map_abs, seq_map_abs]

/-- **`jacobian_both`**: all rows, two roundings per entry -/
theorem jacobianBoth_near (S : StdModel fl u) (d : ℕ) (nodes : List (List F)) :
    NearM fl u 2 (jacobianBoth d (nodes.map (List.map (Fl.mk (fl := fl))))) (jacobianBoth d nodes)
      ((jacobianBoth d nodes).map (List.map (|·|))) := by
  unfold jacobianBoth
  rw [List.map_append, List.map_map, List.map_map, List.map_map, List.map_map]
  exact (All3.map_list _ _ _ nodes (fun row _ => jacobianSRow_near S d row)).append
    (All3.map_list _ _ _ nodes (fun row _ => jacobianTRow_near S d row))

end More

/-! ## comparator form of the Newton step -/
section NewtonComparator
variable {F : Type} [Field F] [LinearOrder F] [IsStrictOrderedRing F] {fl : F → F} {u : F}

theorem newtonAbs_nonneg (S : StdModel fl u) (thr n : ℕ) (hn : 1 ≤ n) (nodes : List (List F))
    (hN : ∀ row ∈ nodes, row.length = n + 1) (point : List F) (s : F) :
    0 ≤ newtonNumAbs thr nodes point s ∧ 0 ≤ newtonDenAbs thr nodes s ∧ 0 ≤ newtonDen thr nodes s := by
  have S0 : StdModel (id : F → F) 0 := ⟨le_rfl, by intro x; simp⟩
  have hE := evalPoint_near S0 thr n hn nodes hN (fun _ _ _ => ⟨rfl, rfl⟩) s
  have hH := hodograph_near S0 thr n hn nodes hN (fun _ _ _ _ => ⟨rfl, rfl⟩) s
  have hdelta := NearL.zipWith_sub S0 (NearL.map_mk S0 0 point) hE
  refine ⟨(Near.dot S0 hdelta hH).scale_nonneg, (Near.dot S0 hH hH).scale_nonneg, ?_⟩
  -- a sum of squares
  unfold newtonDen Model.dot
  have key : ∀ (l : List F) (a : F), 0 ≤ a → 0 ≤ (List.zipWith (· * ·) l l).foldl (· + ·) a := by
    intro l
    induction l with
    | nil => intro a ha; simpa using ha
    | cons x l ih =>
      intro a ha
      simp only [List.zipWith_cons_cons, List.foldl_cons]
      exact ih _ (by nlinarith [mul_self_nonneg x])
  exact key _ 0 le_rfl

/-- **comparator form** (`u ≤ 2⁻⁵³`, `n ≤ 2^30`, at most 16 coordinates): if the denominator
    `B'(s)·B'(s)` exceeds four times its own rounding error, the computed Newton step is within
    `4(3n+12)·u·(|s| + numAbs/den + |num|·denAbs/den²)` of the exact one – the tolerance of
    `harness/props/c11.py` for `newton_refine` -/
theorem newtonRefine_comparator (S : StdModel fl u) (hu53 : u ≤ 1 / 2^53) (thr n : ℕ) (hn : 1 ≤ n)
    (hn' : n ≤ 2^30) (nodes : List (List F)) (hdim : nodes.length ≤ 16)
    (hN : ∀ row ∈ nodes, row.length = n + 1) (hbinE : n + 1 ≤ thr → VSBinomExact fl n)
    (hbinH : 2 ≤ n → n ≤ thr → VSBinomExact fl (n - 1)) (point : List F)
    (hp : point.length = nodes.length) (s : F) (hpos : 0 < newtonDen thr nodes s)
    (hcond : 4 * (((1+u)^(6 * n + 5 + nodes.length) - 1) * newtonDenAbs thr nodes s)
        ≤ newtonDen thr nodes s) :
    |(newtonRefine thr (nodes.map (List.map Fl.mk)) (point.map Fl.mk) (⟨s⟩ : Fl F fl)).val
        - newtonRefine thr nodes point s|
      ≤ (4 * (3 * (n : F) + 12)) * u
          * (|s| + newtonNumAbs thr nodes point s / newtonDen thr nodes s
              + |newtonNum thr nodes point s| * newtonDenAbs thr nodes s
                  / (newtonDen thr nodes s)^2) := by
  obtain ⟨hNa, hDa, _⟩ := newtonAbs_nonneg S thr n hn nodes hN point s
  set den := newtonDen thr nodes s with hden
  set N := newtonNumAbs thr nodes point s with hNdef
  set D := newtonDenAbs thr nodes s with hDdef
  set num := newtonNum thr nodes point s with hnumdef
  have hm : 0 < 3 / 4 * den := by positivity
  have habs : |den| = den := abs_of_pos hpos
  have hmy : 3 / 4 * den ≤ |den| - ((1+u)^(6 * n + 5 + nodes.length) - 1) * D := by
    rw [habs]; linarith
  have hnear := newtonRefine_near S thr n hn nodes hN hbinE hbinH point hp s (3 / 4 * den) hm hmy
  have hk : ((6 * n + 8 + nodes.length : ℕ) : F) * u ≤ 1 / 100 :=
    ku_small u S.hu hu53 _ (by have : (2:ℕ)^40 = 1024 * 2^30 := by norm_num
                               omega)
  have hn0 : (0 : F) ≤ (n : F) := Nat.cast_nonneg _
  have hdimF : ((nodes.length : ℕ) : F) ≤ 16 := by exact_mod_cast hdim
  have hC : 101 / 100 * ((6 * n + 8 + nodes.length : ℕ) : F) ≤ 9 * (n : F) + 36 := by
    push_cast; linarith
  have h1 := hnear.comparator_le S hk (9 * (n : F) + 36) hC
  rw [habs] at h1
  refine le_trans h1 ?_
  have hT : 0 ≤ N / den + |num| * D / den^2 := by positivity
  have e : (N + |num| * D / den) / (3 / 4 * den) = 4 / 3 * (N / den + |num| * D / den^2) := by
    field_simp
  rw [e]
  have hs := abs_nonneg s
  have hu := S.hu
  have e2 : (9 * (n : F) + 36) * u * (|s| + 4 / 3 * (N / den + |num| * D / den^2))
      = (9 * (n : F) + 36) * (u * |s|) + (4 * (3 * (n : F) + 12)) * (u * (N / den + |num| * D / den^2)) := by
    ring
  have e3 : (4 * (3 * (n : F) + 12)) * u * (|s| + N / den + |num| * D / den^2)
      = (4 * (3 * (n : F) + 12)) * (u * |s|)
        + (4 * (3 * (n : F) + 12)) * (u * (N / den + |num| * D / den^2)) := by ring
  rw [e2, e3]
  have : (9 * (n : F) + 36) * (u * |s|) ≤ (4 * (3 * (n : F) + 12)) * (u * |s|) :=
    mul_le_mul_of_nonneg_right (by linarith) (mul_nonneg hu hs)
  linarith

end NewtonComparator

/-! ## the concrete arithmetic `flDy` keeps every natural number -/

theorem flDy_nat (m : ℕ) : flDy (m : ℚ) = (m : ℚ) := by
  unfold flDy
  rw [if_pos (by simp)]

theorem flDy_vsBinomExact (n : ℕ) : VSBinomExact flDy n := by
  intro i _
  refine ⟨?_, flDy_nat _⟩
  rw [← Nat.cast_mul]
  exact flDy_nat _

theorem flDy_triBinomExact (d : ℕ) : Tri.TriBinomExact flDy d := by
  intro k _
  refine ⟨?_, flDy_nat _⟩
  rw [← Nat.cast_mul]
  exact flDy_nat _

end BezierVerif
