import BezierVerif.Lemmas.Rounding
import BezierVerif.Model.Triangle
import BezierVerif.Lemmas.Subdivide
import BezierVerif.Lemmas.TriRounding
import BezierVerif.Lemmas.TriSpecializePy
import Mathlib.Algebra.Order.Field.Rat
import Mathlib.Algebra.Order.Ring.Rat

/-!
# Lemmas/RoundingMore — a logical relation for running the model in rounded arithmetic

`Near fl u k x̂ x X` says: the value `x̂ : Fl F fl` computed in rounded arithmetic is within
`((1+u)^k - 1)·X` of the exact value `x`, and `|x| ≤ X` (`X` is the *same computation on absolute
values*, the condition scale).  Every operation of the model moves the triple forward
(`Near.mul`, `Near.add`, …), so a rounding bound for a routine is obtained by running the routine
three times in parallel: in `Fl F fl`, in `F`, and in `F` on absolute values.  `All3 R` lifts a
ternary relation to lists (`take`, `drop`, `++`, `map`, `getD` are compatible), so routines that
only shuffle data between arithmetic steps need no index arithmetic at all.

Contents: the relation and its rules; the comparator inequality `(1+u)^k - 1 ≤ 1.01·k·u`;
dot products / `rowMul`; the curve rounds `dcRound` with perturbed weights, blossoms;
the triangle round `dcRound3` and the Fortran specialisation workspaces.
-/

set_option linter.unusedSectionVars false
set_option linter.unusedVariables false

namespace BezierVerif

open Finset Model

/-! ## a ternary `Forall` on lists -/

inductive All3 {α β γ : Type} (R : α → β → γ → Prop) : List α → List β → List γ → Prop
  | nil : All3 R [] [] []
  | cons {a b c la lb lc} : R a b c → All3 R la lb lc → All3 R (a :: la) (b :: lb) (c :: lc)

namespace All3
variable {α β γ : Type} {R : α → β → γ → Prop}

theorem length_eq {la lb lc} (h : All3 R la lb lc) : la.length = lb.length ∧ lc.length = lb.length := by
  induction h with
  | nil => exact ⟨rfl, rfl⟩
  | cons _ _ ih => simp [ih.1, ih.2]

theorem mono {R' : α → β → γ → Prop} (hR : ∀ a b c, R a b c → R' a b c) {la lb lc}
    (h : All3 R la lb lc) : All3 R' la lb lc := by
  induction h with
  | nil => exact .nil
  | cons h1 _ ih => exact .cons (hR _ _ _ h1) ih

theorem append {la lb lc la' lb' lc'} (h : All3 R la lb lc) (h' : All3 R la' lb' lc') :
    All3 R (la ++ la') (lb ++ lb') (lc ++ lc') := by
  induction h with
  | nil => simpa using h'
  | cons h1 _ ih => exact .cons h1 ih

theorem take {la lb lc} (h : All3 R la lb lc) (n : ℕ) : All3 R (la.take n) (lb.take n) (lc.take n) := by
  induction h generalizing n with
  | nil => simpa using All3.nil
  | cons h1 _ ih =>
    cases n with
    | zero => simpa using All3.nil
    | succ n => simpa using All3.cons h1 (ih n)

theorem drop {la lb lc} (h : All3 R la lb lc) (n : ℕ) : All3 R (la.drop n) (lb.drop n) (lc.drop n) := by
  induction h generalizing n with
  | nil => simpa using All3.nil
  | cons h1 h2 ih =>
    cases n with
    | zero => simpa using All3.cons h1 h2
    | succ n => simpa using ih n

theorem reverse {la lb lc} (h : All3 R la lb lc) : All3 R la.reverse lb.reverse lc.reverse := by
  induction h with
  | nil => exact .nil
  | cons h1 _ ih =>
    simp only [List.reverse_cons]
    exact ih.append (.cons h1 .nil)

theorem getD {la lb lc} (h : All3 R la lb lc) {a b c} (h0 : R a b c) (j : ℕ) :
    R (la.getD j a) (lb.getD j b) (lc.getD j c) := by
  induction h generalizing j with
  | nil => simpa using h0
  | cons h1 _ ih =>
    cases j with
    | zero => simpa using h1
    | succ j => simpa using ih j

theorem headD {la lb lc} (h : All3 R la lb lc) {a b c} (h0 : R a b c) :
    R (la.headD a) (lb.headD b) (lc.headD c) := by
  cases h with
  | nil => simpa using h0
  | cons h1 _ => simpa using h1

theorem getLastD {la lb lc} (h : All3 R la lb lc) {a b c} (h0 : R a b c) :
    R (la.getLastD a) (lb.getLastD b) (lc.getLastD c) := by
  induction h generalizing a b c with
  | nil => simpa using h0
  | cons h1 h2 ih =>
    simp only [List.getLastD_cons]
    exact ih h1

/-- map three functions that respect the relations -/
theorem map {α' β' γ' : Type} {R' : α' → β' → γ' → Prop} {f : α → α'} {g : β → β'} {h : γ → γ'}
    (hR : ∀ a b c, R a b c → R' (f a) (g b) (h c)) {la lb lc} (H : All3 R la lb lc) :
    All3 R' (la.map f) (lb.map g) (lc.map h) := by
  induction H with
  | nil => exact .nil
  | cons h1 _ ih => exact .cons (hR _ _ _ h1) ih

/-- three lists built over the same index list -/
theorem map_list {ι : Type} (f : ι → α) (g : ι → β) (h : ι → γ) (l : List ι)
    (H : ∀ i ∈ l, R (f i) (g i) (h i)) : All3 R (l.map f) (l.map g) (l.map h) := by
  induction l with
  | nil => exact .nil
  | cons i l ih =>
    exact .cons (H i (by simp)) (ih (fun i hi => H i (by simp [hi])))

/-- flatten lists of lists -/
theorem flatten {R : α → β → γ → Prop} {la : List (List α)} {lb : List (List β)} {lc : List (List γ)}
    (H : All3 (All3 R) la lb lc) : All3 R la.flatten lb.flatten lc.flatten := by
  induction H with
  | nil => exact .nil
  | cons h1 _ ih => simpa using h1.append ih

end All3

/-! ## the relation `Near` -/
section Near
variable {F : Type} [Field F] [LinearOrder F] [IsStrictOrderedRing F]

/-- the standard model of rounded arithmetic with unit round-off `u` -/
structure StdModel (fl : F → F) (u : F) : Prop where
  hu : 0 ≤ u
  hfl : ∀ x, |fl x - x| ≤ u * |x|

/-- `x̂` (computed) is within `((1+u)^k - 1)·X` of `x` (exact), and `|x| ≤ X` -/
def Near (fl : F → F) (u : F) (k : ℕ) (xh : Fl F fl) (x X : F) : Prop :=
  |xh.val - x| ≤ ((1+u)^k - 1) * X ∧ |x| ≤ X

namespace Near
variable {fl : F → F} {u : F}

theorem scale_nonneg {k : ℕ} {xh : Fl F fl} {x X : F} (h : Near fl u k xh x X) : 0 ≤ X :=
  le_trans (abs_nonneg _) h.2

/-- a datum of the arithmetic, injected exactly -/
theorem exact (k : ℕ) (S : StdModel fl u) (x : F) : Near fl u k (⟨x⟩ : Fl F fl) x |x| := by
  refine ⟨?_, le_rfl⟩
  simp only [sub_self, abs_zero]
  exact mul_nonneg (pow_sub_one_nonneg u S.hu k) (abs_nonneg _)

theorem zero (k : ℕ) (S : StdModel fl u) : Near fl u k (0 : Fl F fl) 0 0 := by
  have := exact k S (0 : F)
  rw [abs_zero] at this; exact this

theorem one (k : ℕ) (S : StdModel fl u) : Near fl u k (1 : Fl F fl) 1 1 := by
  have := exact k S (1 : F)
  rw [abs_one] at this; exact this

theorem natCast (k : ℕ) (S : StdModel fl u) (n : ℕ) : Near fl u k ((n : ℕ) : Fl F fl) (n : F) (n : F) := by
  have := exact k S (n : F)
  rwa [Nat.abs_cast] at this

theorem mono (S : StdModel fl u) {j k : ℕ} (hjk : j ≤ k) {xh : Fl F fl} {x X : F}
    (h : Near fl u j xh x X) : Near fl u k xh x X :=
  ⟨weaken u S.hu hjk _ _ _ h.scale_nonneg h.1, h.2⟩

/-- enlarge the scale -/
theorem mono_scale (S : StdModel fl u) {k : ℕ} {xh : Fl F fl} {x X X' : F} (hX : X ≤ X')
    (h : Near fl u k xh x X) : Near fl u k xh x X' :=
  ⟨le_trans h.1 (mul_le_mul_of_nonneg_left hX (pow_sub_one_nonneg u S.hu k)), le_trans h.2 hX⟩

/-- the computed value itself is at most `(1+u)^k X` -/
theorem abs_val_le (S : StdModel fl u) {k : ℕ} {xh : Fl F fl} {x X : F} (h : Near fl u k xh x X) :
    |xh.val| ≤ (1+u)^k * X := by
  have h1 : |xh.val| ≤ |xh.val - x| + |x| := by
    have := abs_add_le (xh.val - x) x; simpa using this
  have := h.1; have := h.2
  nlinarith

/-- one operation on exact operands: one rounding of the exact result -/
theorem of_fl (S : StdModel fl u) {xh : Fl F fl} {x : F} (h : xh.val = fl x) :
    Near fl u 1 xh x |x| := by
  refine ⟨?_, le_rfl⟩
  rw [h]; simpa using S.hfl x

/-- `1 - a` for a datum `a` -/
theorem one_sub (S : StdModel fl u) (a : F) :
    Near fl u 1 ((1 : Fl F fl) - ⟨a⟩) (1 - a) |1 - a| := of_fl S rfl

/-- general product: the exponents add, plus one for the rounding of the product -/
theorem mul (S : StdModel fl u) {j k : ℕ} {xh yh : Fl F fl} {x X y Y : F}
    (hx : Near fl u j xh x X) (hy : Near fl u k yh y Y) :
    Near fl u (j + k + 1) (xh * yh) (x * y) (X * Y) := by
  have hX := hx.scale_nonneg
  have hY := hy.scale_nonneg
  have hu := S.hu
  have hρj : (1:F) ≤ (1+u)^j := one_le_pow₀ (by linarith)
  have hρk : (1:F) ≤ (1+u)^k := one_le_pow₀ (by linarith)
  have ax := hx.abs_val_le S
  have ay := hy.abs_val_le S
  constructor
  · show |fl (xh.val * yh.val) - x * y| ≤ _
    have e := S.hfl (xh.val * yh.val)
    rw [abs_mul] at e
    have t : fl (xh.val * yh.val) - x * y
        = (fl (xh.val * yh.val) - xh.val * yh.val) + ((xh.val - x) * yh.val + x * (yh.val - y)) := by
      ring
    rw [t]
    have tri := abs_add_le (fl (xh.val * yh.val) - xh.val * yh.val)
      ((xh.val - x) * yh.val + x * (yh.val - y))
    have tri2 := abs_add_le ((xh.val - x) * yh.val) (x * (yh.val - y))
    rw [abs_mul, abs_mul] at tri2
    have g0 : |xh.val| * |yh.val| ≤ ((1+u)^j * X) * ((1+u)^k * Y) :=
      mul_le_mul ax ay (abs_nonneg _) (by positivity)
    have g1 : u * (|xh.val| * |yh.val|) ≤ u * (((1+u)^j * X) * ((1+u)^k * Y)) :=
      mul_le_mul_of_nonneg_left g0 hu
    have g2 : |xh.val - x| * |yh.val| ≤ (((1+u)^j - 1) * X) * ((1+u)^k * Y) :=
      mul_le_mul hx.1 ay (abs_nonneg _) (mul_nonneg (by linarith) hX)
    have g3 : |x| * |yh.val - y| ≤ X * (((1+u)^k - 1) * Y) :=
      mul_le_mul hx.2 hy.1 (abs_nonneg _) hX
    calc _ ≤ u * (((1+u)^j * X) * ((1+u)^k * Y)) + ((((1+u)^j - 1) * X) * ((1+u)^k * Y)
              + X * (((1+u)^k - 1) * Y)) := by linarith
      _ = ((1+u)^(j+k+1) - 1) * (X * Y) := by ring
  · rw [abs_mul]; exact mul_le_mul hx.2 hy.2 (abs_nonneg _) hX

/-- sum of two terms with a common exponent -/
theorem add (S : StdModel fl u) {k : ℕ} {xh yh : Fl F fl} {x X y Y : F}
    (hx : Near fl u k xh x X) (hy : Near fl u k yh y Y) :
    Near fl u (k + 1) (xh + yh) (x + y) (X + Y) :=
  fl_add fl u S.hu S.hfl k _ _ _ _ _ _ hx.1 hx.2 hy.1 hy.2

/-- sum of two terms with different exponents -/
theorem add' (S : StdModel fl u) {j k : ℕ} {xh yh : Fl F fl} {x X y Y : F}
    (hx : Near fl u j xh x X) (hy : Near fl u k yh y Y) :
    Near fl u (max j k + 1) (xh + yh) (x + y) (X + Y) :=
  add S (hx.mono S (le_max_left j k)) (hy.mono S (le_max_right j k))

/-- difference: the scale is still the sum -/
theorem sub (S : StdModel fl u) {k : ℕ} {xh yh : Fl F fl} {x X y Y : F}
    (hx : Near fl u k xh x X) (hy : Near fl u k yh y Y) :
    Near fl u (k + 1) (xh - yh) (x - y) (X + Y) := by
  have hy' : |(-yh.val) - (-y)| ≤ ((1+u)^k - 1) * Y := by
    have : -yh.val - -y = -(yh.val - y) := by ring
    rw [this, abs_neg]; exact hy.1
  have hym : |(-y)| ≤ Y := by rw [abs_neg]; exact hy.2
  have := fl_add fl u S.hu S.hfl k xh.val x X (-yh.val) (-y) Y hx.1 hx.2 hy' hym
  simpa [Near, sub_eq_add_neg] using this

theorem sub' (S : StdModel fl u) {j k : ℕ} {xh yh : Fl F fl} {x X y Y : F}
    (hx : Near fl u j xh x X) (hy : Near fl u k yh y Y) :
    Near fl u (max j k + 1) (xh - yh) (x - y) (X + Y) :=
  sub S (hx.mono S (le_max_left j k)) (hy.mono S (le_max_right j k))

/-- negation (rounded in `Fl`, although exact in IEEE arithmetic) -/
theorem neg (S : StdModel fl u) {k : ℕ} {xh : Fl F fl} {x X : F}
    (hx : Near fl u k xh x X) : Near fl u (k + 1) (-xh) (-x) X := by
  have h1 : Near fl u 0 (⟨-1⟩ : Fl F fl) (-1) |(-1 : F)| := exact 0 S _
  have := mul S hx h1
  unfold Near at this ⊢
  simpa using this

/-- division by an exactly known number -/
theorem div_exact (S : StdModel fl u) {k : ℕ} {xh : Fl F fl} {x X : F}
    (hx : Near fl u k xh x X) (c : F) :
    Near fl u (k + 1) (xh / (⟨c⟩ : Fl F fl)) (x / c) (X / |c|) := by
  have h1 : Near fl u 0 (⟨c⁻¹⟩ : Fl F fl) c⁻¹ |c⁻¹| := exact 0 S _
  have := mul S hx h1
  simp only [add_zero, abs_inv] at this
  simpa [Near, div_eq_mul_inv] using this

end Near

/-! ## the comparator inequality -/

/-- `(1+u)^k ≤ 1 + k u + (k u)^2` as long as `k u ≤ 1` -/
theorem pow_le_quad (u : F) (hu : 0 ≤ u) : ∀ k : ℕ, (k : F) * u ≤ 1 →
    (1+u)^k ≤ 1 + (k : F) * u + ((k : F) * u)^2 := by
  intro k
  induction k with
  | zero => intro _; simp
  | succ k ih =>
    intro hk
    have hk0 : (0:F) ≤ (k : F) := Nat.cast_nonneg k
    have hk' : (k : F) * u ≤ 1 := by
      push_cast at hk; nlinarith
    have h := ih hk'
    have hpos : (0:F) ≤ 1 + u := by linarith
    have h2 : (1+u)^(k+1) ≤ (1 + (k : F) * u + ((k : F) * u)^2) * (1 + u) := by
      rw [pow_succ]; exact mul_le_mul_of_nonneg_right h hpos
    refine le_trans h2 ?_
    push_cast
    have hu2 : 0 ≤ u^2 := sq_nonneg u
    have key : (k : F)^2 * u ≤ (k : F) := by
      have : (k : F) * ((k : F) * u) ≤ (k : F) * 1 := mul_le_mul_of_nonneg_left hk' hk0
      nlinarith
    have key2 : (k : F)^2 * u * u^2 ≤ (k : F) * u^2 := mul_le_mul_of_nonneg_right key hu2
    nlinarith

/-- **comparator form**: `(1+u)^k - 1 ≤ 1.01 · k · u` whenever `k u ≤ 1/100` -/
theorem pow_sub_one_le_comparator (u : F) (hu : 0 ≤ u) (k : ℕ) (hk : (k : F) * u ≤ 1 / 100) :
    (1+u)^k - 1 ≤ 101 / 100 * ((k : F) * u) := by
  have h := pow_le_quad u hu k (by linarith)
  have h0 : 0 ≤ (k : F) * u := mul_nonneg (Nat.cast_nonneg k) hu
  nlinarith

/-- the side condition of the comparator inequality for binary64 and every `k ≤ 2^40` -/
theorem ku_small (u : F) (hu : 0 ≤ u) (hu53 : u ≤ 1 / 2^53) (k : ℕ) (hk : k ≤ 2^40) :
    (k : F) * u ≤ 1 / 100 := by
  have h1 : (k : F) ≤ 2^40 := by exact_mod_cast hk
  have h2 : (k : F) * u ≤ 2^40 * (1 / 2^53) :=
    mul_le_mul h1 hu53 hu (by positivity)
  refine le_trans h2 ?_
  norm_num

/-- the comparator form of a `Near` statement -/
theorem Near.comparator {fl : F → F} {u : F} (S : StdModel fl u) {k : ℕ} {xh : Fl F fl} {x X : F}
    (h : Near fl u k xh x X) (hk : (k : F) * u ≤ 1 / 100) :
    |xh.val - x| ≤ 101 / 100 * ((k : F) * u) * X :=
  le_trans h.1 (mul_le_mul_of_nonneg_right (pow_sub_one_le_comparator u S.hu k hk) h.scale_nonneg)

/-- the comparator form with an explicit constant `C ≥ 1.01 k` -/
theorem Near.comparator_le {fl : F → F} {u : F} (S : StdModel fl u) {k : ℕ} {xh : Fl F fl} {x X : F}
    (h : Near fl u k xh x X) (hk : (k : F) * u ≤ 1 / 100) (C : F) (hC : 101 / 100 * (k : F) ≤ C) :
    |xh.val - x| ≤ C * u * X := by
  refine le_trans (h.comparator S hk) ?_
  have hX := h.scale_nonneg
  have : 101 / 100 * ((k : F) * u) ≤ C * u := by
    have := mul_le_mul_of_nonneg_right hC S.hu
    linarith
  exact mul_le_mul_of_nonneg_right this hX

end Near


/-! ## lists, dot products, matrix products -/
section Lists
variable {F : Type} [Field F] [LinearOrder F] [IsStrictOrderedRing F] {fl : F → F} {u : F}

/-- `Near` entry by entry -/
abbrev NearL (fl : F → F) (u : F) (k : ℕ) := All3 (Near fl u k)

/-- `Near` row by row, entry by entry -/
abbrev NearM (fl : F → F) (u : F) (k : ℕ) := All3 (NearL fl u k)

theorem Near.cast {j k : ℕ} (h : j = k) {xh : Fl F fl} {x X : F} (H : Near fl u j xh x X) :
    Near fl u k xh x X := h ▸ H

theorem NearL.cast {j k : ℕ} (h : j = k) {lh : List (Fl F fl)} {l A : List F}
    (H : NearL fl u j lh l A) : NearL fl u k lh l A := h ▸ H

theorem NearL.mono (S : StdModel fl u) {j k : ℕ} (h : j ≤ k) {lh : List (Fl F fl)} {l A : List F}
    (H : NearL fl u j lh l A) : NearL fl u k lh l A :=
  All3.mono (fun _ _ _ hx => hx.mono S h) H

theorem NearL.seq (S : StdModel fl u) {k : ℕ} {lh : List (Fl F fl)} {l A : List F}
    (H : NearL fl u k lh l A) (j : ℕ) : Near fl u k (seq lh j) (seq l j) (seq A j) :=
  All3.getD H (Near.zero k S) j

theorem NearL.headD (S : StdModel fl u) {k : ℕ} {lh : List (Fl F fl)} {l A : List F}
    (H : NearL fl u k lh l A) : Near fl u k (lh.headD 0) (l.headD 0) (A.headD 0) :=
  All3.headD H (Near.zero k S)

/-- data of the arithmetic, injected exactly -/
theorem NearL.map_mk (S : StdModel fl u) (k : ℕ) (l : List F) :
    NearL fl u k (l.map Fl.mk) l (l.map (|·|)) := by
  have := All3.map_list (R := Near fl u k) (Fl.mk (fl := fl)) id (|·|) l
    (fun x _ => Near.exact k S x)
  simpa using this

/-- a matrix of the arithmetic, injected exactly -/
theorem NearM.map_mk (S : StdModel fl u) (k : ℕ) (M : List (List F)) :
    NearM fl u k (M.map (List.map Fl.mk)) M (M.map (List.map (|·|))) := by
  have := All3.map_list (R := NearL fl u k) (List.map (Fl.mk (fl := fl))) id (List.map (|·|)) M
    (fun r _ => NearL.map_mk S k r)
  simpa using this

theorem NearL.zipWith_mul (S : StdModel fl u) {i j : ℕ} {xh yh : List (Fl F fl)} {x X y Y : List F}
    (hx : NearL fl u i xh x X) (hy : NearL fl u j yh y Y) :
    NearL fl u (i + j + 1) (List.zipWith (· * ·) xh yh) (List.zipWith (· * ·) x y)
      (List.zipWith (· * ·) X Y) := by
  induction hx generalizing yh y Y with
  | nil => simpa using All3.nil
  | cons h1 _ ih =>
    cases hy with
    | nil => simpa using All3.nil
    | cons h2 h3 => simpa using All3.cons (h1.mul S h2) (ih h3)

/-- a left-to-right sum: one more rounding per term -/
theorem Near.foldl_add (S : StdModel fl u) {t : ℕ} {th : List (Fl F fl)} {ts T : List F}
    (H : NearL fl u t th ts T) : ∀ {s : ℕ} {acch : Fl F fl} {acc A : F},
    Near fl u (t + s) acch acc A →
    Near fl u (t + s + ts.length) (th.foldl (· + ·) acch) (ts.foldl (· + ·) acc) (T.foldl (· + ·) A) := by
  induction H with
  | nil => intro s acch acc A h; simpa using h
  | cons h1 _ ih =>
    intro s acch acc A h
    simp only [List.foldl_cons, List.length_cons]
    have := ih (s := s + 1) ((h.add S (h1.mono S (Nat.le_add_right t s))).cast (by omega))
    exact this.cast (by omega)

/-- **dot product** of `L` terms, factors with exponents `i`, `j`: exponent `i + j + 1 + L` -/
theorem Near.dot (S : StdModel fl u) {i j : ℕ} {xh yh : List (Fl F fl)} {x X y Y : List F}
    (hx : NearL fl u i xh x X) (hy : NearL fl u j yh y Y) :
    Near fl u (i + j + 1 + x.length) (Model.dot xh yh) (Model.dot x y) (Model.dot X Y) := by
  unfold Model.dot
  have hz := NearL.zipWith_mul S hx hy
  have := Near.foldl_add S hz (s := 0) (Near.zero _ S)
  refine this.mono S ?_
  simp only [List.length_zipWith]
  omega

theorem NearM.ncols {k : ℕ} {Mh : List (List (Fl F fl))} {M MA : List (List F)}
    (H : NearM fl u k Mh M MA) : ncols Mh = ncols M ∧ ncols MA = ncols M := by
  unfold Model.ncols
  exact (All3.headD H All3.nil).length_eq

theorem NearM.col (S : StdModel fl u) {k : ℕ} {Mh : List (List (Fl F fl))} {M MA : List (List F)}
    (H : NearM fl u k Mh M MA) (c : ℕ) : NearL fl u k (Model.col Mh c) (Model.col M c) (Model.col MA c) :=
  All3.map (fun _ _ _ hr => All3.getD hr (Near.zero k S) c) H

/-- **`row · M`**: every entry is a dot product of `row.length` terms -/
theorem NearL.rowMul (S : StdModel fl u) {i j : ℕ} {rh : List (Fl F fl)} {r R : List F}
    {Mh : List (List (Fl F fl))} {M MA : List (List F)}
    (hr : NearL fl u i rh r R) (hM : NearM fl u j Mh M MA) :
    NearL fl u (i + j + 1 + r.length) (Model.rowMul rh Mh) (Model.rowMul r M) (Model.rowMul R MA) := by
  unfold Model.rowMul
  rw [hM.ncols.1, hM.ncols.2]
  exact All3.map_list _ _ _ _ (fun c _ => Near.dot S hr (hM.col S c))

/-- a sum `Σ_{i<m} f i` accumulated from `0` by a `do` loop -/
theorem Near.foldl_range (S : StdModel fl u) {t : ℕ} (fh : ℕ → Fl F fl) (f A : ℕ → F) (m : ℕ)
    (H : ∀ i < m, Near fl u t (fh i) (f i) (A i)) :
    Near fl u (t + m) ((List.range m).foldl (fun acc i => acc + fh i) 0)
      ((List.range m).foldl (fun acc i => acc + f i) 0)
      ((List.range m).foldl (fun acc i => acc + A i) 0) := by
  induction m with
  | zero => simpa using Near.zero t S
  | succ m ih =>
    rw [List.range_succ, List.foldl_append, List.foldl_append, List.foldl_append]
    simp only [List.foldl_cons, List.foldl_nil]
    have h1 := ih (fun i hi => H i (by omega))
    have h2 := (H m (by omega)).mono S (Nat.le_add_right t m)
    exact (h1.add S h2).cast (by omega)

end Lists

/-! ## curve rounds and blossoms -/
section NoLaws
variable {K : Type} [Add K] [Sub K] [Mul K] [Div K] [Neg K] [OfNat K 0] [OfNat K 1] [NatCast K]

/-- the blossom at the parameters `ts`, one de Casteljau round `dcRound (1 - t) t` per parameter,
    in the order of the list -/
def blossomL (ts : List K) (row : List K) : List K :=
  ts.foldl (fun r t => dcRound (1 - t) t r) row

theorem blossomL_append (t1 t2 : List K) (row : List K) :
    blossomL (t1 ++ t2) row = blossomL t2 (blossomL t1 row) := List.foldl_append ..

theorem blossomL_replicate (t : K) : ∀ (m : ℕ) (row : List K),
    blossomL (List.replicate m t) row = iter (dcRound (1 - t) t) m row
  | 0, _ => rfl
  | m+1, row => by
    show blossomL (List.replicate m t) (dcRound (1 - t) t row) = _
    rw [blossomL_replicate t m]; rfl

/-- the Python dictionary entry as a blossom: `n-i` parameters `a`, then `i` parameters `b` -/
theorem specPoint_eq_blossomL (a b : K) (row : List K) (i : ℕ) :
    specPoint a b row i
      = (blossomL (List.replicate (row.length - 1 - i) a ++ List.replicate i b) row).headD 0 := by
  unfold specPoint
  simp only
  rw [blossomL_append, blossomL_replicate, blossomL_replicate]

/-- state of the Fortran column workspace after `k` passes of the loop `index_ = 3 ..` -/
def f90Cols (row : List K) (a b : K) (k : ℕ) : List (List K) :=
  (List.range (k+2)).map (fun j =>
    blossomL (List.replicate j b ++ List.replicate (k + 1 - j) a) row)

theorem f90Cols_step (row : List K) (a b : K) (k : ℕ) :
    (f90Cols row a b k).map (dcRound (1 - a) a)
      ++ [dcRound (1 - b) b ((f90Cols row a b k).getLastD [])] = f90Cols row a b (k+1) := by
  have hlast : (f90Cols row a b k).getLastD [] = blossomL (List.replicate (k+1) b) row := by
    unfold f90Cols
    rw [List.range_succ, List.map_append]
    simp
  have hstep : ∀ (t : K) (ts : List K), dcRound (1 - t) t (blossomL ts row) = blossomL (ts ++ [t]) row := by
    intro t ts; rw [blossomL_append]; rfl
  rw [hlast, hstep, ← List.replicate_succ']
  unfold f90Cols
  rw [show k + 1 + 2 = (k + 2) + 1 from rfl, List.range_succ (n := k+2), List.map_append, List.map_map]
  congr 1
  · apply List.map_congr_left
    intro j hj
    have hj' : j < k + 2 := List.mem_range.mp hj
    simp only [Function.comp]
    rw [hstep, List.append_assoc, ← List.replicate_succ']
    congr 3; omega
  · simp

/-- the generic Fortran workspace of `specialize_curve` in any arithmetic: column `j` is the
    blossom with `j` parameters `b` first and then `n-j` parameters `a` -/
theorem f90_specializeGeneric_blossomL (row : List K) (h : 2 ≤ row.length) (a b : K) :
    F90.specializeGenericRow row a b = (List.range row.length).map (fun j =>
      (blossomL (List.replicate j b ++ List.replicate (row.length - 1 - j) a) row).headD 0) := by
  unfold F90.specializeGenericRow
  simp only
  rw [Subdivide.foldl_const_eq_iter (fun cols : List (List K) =>
        (cols.map (dcRound (1 - a) a)) ++ [dcRound (1 - b) b (cols.getLastD [])])]
  have hinv : ∀ k, iter (fun cols : List (List K) =>
        (cols.map (dcRound (1 - a) a)) ++ [dcRound (1 - b) b (cols.getLastD [])]) k
        [dcRound (1 - a) a row, dcRound (1 - b) b row] = f90Cols row a b k := by
    intro k
    induction k with
    | zero => simp [iter, f90Cols, List.range_succ, blossomL]
    | succ k ih => rw [Subdivide.iter_succ', ih, f90Cols_step]
  rw [hinv, List.length_range]
  unfold f90Cols
  rw [List.map_map, show row.length - 2 + 2 = row.length by omega]
  apply List.map_congr_left
  intro j hj
  have hj' : j < row.length := List.mem_range.mp hj
  simp only [Function.comp]
  congr 4; omega

end NoLaws

section Curve
variable {F : Type} [Field F] [LinearOrder F] [IsStrictOrderedRing F] {fl : F → F} {u : F}

/-- the absolute blossom (the script's `abs_blossom`): the same rounds with the weights
    `|1 - t|`, `|t|` -/
def absBlossomL (ts : List F) (A : List F) : List F :=
  ts.foldl (fun r t => dcRound |1 - t| |t| r) A

/-- one round with perturbed weights (exponent `j`) on perturbed data (exponent `k`) -/
theorem NearL.dcRound (S : StdModel fl u) {j k : ℕ} {ah bh : Fl F fl} {a A' b B' : F}
    (ha : Near fl u j ah a A') (hb : Near fl u j bh b B')
    {lh : List (Fl F fl)} {l A : List F} (H : NearL fl u k lh l A) :
    NearL fl u (j + k + 2) (Model.dcRound ah bh lh) (Model.dcRound a b l) (Model.dcRound A' B' A) := by
  induction H with
  | nil => simpa [Model.dcRound] using All3.nil
  | cons h1 h2 ih =>
    cases h2 with
    | nil => simpa [Model.dcRound] using All3.nil
    | cons h3 h4 =>
      simp only [Model.dcRound]
      exact All3.cons ((ha.mul S h1).add S (hb.mul S h3)) ih

/-- **blossom in rounded arithmetic**: three roundings per round (`fl (1 - t)`, the products, the
    sum), relative to the absolute blossom -/
theorem NearL.blossomL (S : StdModel fl u) : ∀ (ts : List F) {k : ℕ} {lh : List (Fl F fl)} {l A : List F},
    NearL fl u k lh l A →
    NearL fl u (k + 3 * ts.length) (BezierVerif.blossomL (ts.map Fl.mk) lh) (BezierVerif.blossomL ts l)
      (absBlossomL ts A)
  | [], k, lh, l, A, H => by simpa [BezierVerif.blossomL, absBlossomL] using H
  | t :: ts, k, lh, l, A, H => by
    have h1 : NearL fl u (1 + k + 2) (Model.dcRound ((1 : Fl F fl) - ⟨t⟩) ⟨t⟩ lh)
        (Model.dcRound (1 - t) t l) (Model.dcRound |1 - t| |t| A) :=
      NearL.dcRound S (Near.one_sub S t) (Near.exact 1 S t) H
    have := NearL.blossomL S ts h1
    exact this.cast (by simp only [List.length_cons]; omega)

end Curve


/-! ## exactly representable dyadic weights (subdivision matrices, Pascal rows) -/
section Dyadic
variable {F : Type} [Field F] [LinearOrder F] [IsStrictOrderedRing F] {fl : F → F} {u : F}

/-- `fl` is the identity on the dyadic numbers `m / 2^k`, `k ≤ n`, `m ≤ 2^(n+1)`
    (binary64: true for every `n ≤ 52` – integers up to `2^53` are representable and scaling by
    `2^-k` is exact) -/
def DyadicExact (fl : F → F) (n : ℕ) : Prop :=
  ∀ k m : ℕ, k ≤ n → m ≤ 2^(n+1) → fl ((m : F) / 2^k) = (m : F) / 2^k

theorem DyadicExact.mono {n n' : ℕ} (h : n' ≤ n) (hD : DyadicExact fl n) : DyadicExact fl n' :=
  fun k m hk hm => hD k m (le_trans hk h)
    (le_trans hm (Nat.pow_le_pow_right (by norm_num) (by omega)))

theorem DyadicExact.nat (hD : DyadicExact fl n) (m : ℕ) (hm : m ≤ 2^(n+1)) : fl (m : F) = (m : F) := by
  have := hD 0 m (Nat.zero_le n) hm
  simpa using this

/-- `x = m / 2^c` with `m ≤ 2^c` -/
def Dy (c : ℕ) (x : F) : Prop := ∃ m : ℕ, m ≤ 2^c ∧ x = (m : F) / 2^c

theorem Dy.nonneg {c : ℕ} {x : F} (h : Dy c x) : 0 ≤ x := by
  obtain ⟨m, _, rfl⟩ := h; positivity

theorem Dy.zero (c : ℕ) : Dy c (0 : F) := ⟨0, Nat.zero_le _, by simp⟩

theorem Dy.up {c : ℕ} {x : F} (h : Dy c x) : Dy (c+1) x := by
  obtain ⟨m, hm, rfl⟩ := h
  refine ⟨2 * m, by rw [pow_succ]; omega, ?_⟩
  have h2 : (2 : F)^c ≠ 0 := pow_ne_zero _ two_ne_zero
  push_cast; rw [pow_succ]; field_simp

theorem half_mul_dy (m c : ℕ) : (1 / (1 + 1) : F) * ((m : F) / 2^c) = (m : F) / 2^(c+1) := by
  rw [pow_succ, div_mul_div_comm]; congr 1 <;> ring

variable (fl) in
/-- the constants `2` and `1/2` of the arithmetic are exact -/
theorem half_exact {n : ℕ} (hn : 1 ≤ n) (hD : DyadicExact fl n) :
    ((1 : Fl F fl) / (1 + 1)) = ⟨1 / (1 + 1)⟩ := by
  have h2 : fl ((1:F) + 1) = 1 + 1 := by
    have := hD.nat 2 (by calc 2 = 2^1 := rfl
                          _ ≤ 2^(n+1) := Nat.pow_le_pow_right (by norm_num) (by omega))
    have e : ((2 : ℕ) : F) = 1 + 1 := by norm_num
    rwa [e] at this
  have hh : fl ((1:F) / (1 + 1)) = 1 / (1 + 1) := by
    have := hD 1 1 hn Nat.one_le_two_pow
    have e : ((1 : ℕ) : F) / 2^1 = 1 / (1 + 1) := by norm_num
    rwa [e] at this
  show (⟨fl (1 / fl (1 + 1))⟩ : Fl F fl) = _
  rw [h2, hh]

theorem mem_zipWith {α β γ : Type} (f : α → β → γ) : ∀ (X : List α) (Y : List β) (z : γ),
    z ∈ List.zipWith f X Y → ∃ a ∈ X, ∃ b ∈ Y, z = f a b
  | [], _, z, h => by simp at h
  | _ :: _, [], z, h => by simp at h
  | a :: X, b :: Y, z, h => by
    rw [List.zipWith_cons_cons, List.mem_cons] at h
    rcases h with rfl | h
    · exact ⟨a, by simp, b, by simp, rfl⟩
    · obtain ⟨a', ha, b', hb, e⟩ := mem_zipWith f X Y z h
      exact ⟨a', by simp [ha], b', by simp [hb], e⟩

/-- a binary operation that is exact on all pairs commutes with the exact injection -/
theorem zipWith_map_mk (g : Fl F fl → Fl F fl → Fl F fl) (gF : F → F → F) :
    ∀ (X Y : List F), (∀ a ∈ X, ∀ b ∈ Y, g ⟨a⟩ ⟨b⟩ = ⟨gF a b⟩) →
    List.zipWith g (X.map Fl.mk) (Y.map Fl.mk) = (List.zipWith gF X Y).map Fl.mk
  | [], _, _ => by simp
  | _ :: _, [], _ => by simp
  | a :: X, b :: Y, h => by
    simp only [List.map_cons, List.zipWith_cons_cons]
    rw [h a (by simp) b (by simp),
      zipWith_map_mk g gF X Y (fun a' ha b' hb => h a' (by simp [ha]) b' (by simp [hb]))]

/-- the sum of two halves of dyadic numbers of level `c` -/
theorem dy_add_exact {n c : ℕ} (hc : c ≤ n) (hD : DyadicExact fl n) {a b : F}
    (ha : ∃ m : ℕ, m ≤ 2^c ∧ a = (m:F) / 2^(c+1)) (hb : ∃ m : ℕ, m ≤ 2^c ∧ b = (m:F) / 2^(c+1))
    (hc1 : c + 1 ≤ n) : fl (a + b) = a + b ∧ Dy (c+1) (a + b) := by
  obtain ⟨m1, h1, rfl⟩ := ha
  obtain ⟨m2, h2, rfl⟩ := hb
  have hle : m1 + m2 ≤ 2^(c+1) := by rw [pow_succ]; omega
  have e : (m1:F) / 2^(c+1) + (m2:F) / 2^(c+1) = ((m1 + m2 : ℕ) : F) / 2^(c+1) := by
    push_cast; ring
  rw [e]
  exact ⟨hD (c+1) (m1+m2) hc1 (le_trans hle (Nat.pow_le_pow_right (by norm_num) (by omega))),
    ⟨m1 + m2, hle, rfl⟩⟩

/-- **the columns of the left subdivision matrix are computed without rounding** -/
theorem leftCol_exact {n : ℕ} (hD : DyadicExact fl n) : ∀ c, c ≤ n →
    leftCol (K := Fl F fl) c = (leftCol (K := F) c).map Fl.mk ∧ ∀ x ∈ leftCol (K := F) c, Dy c x := by
  intro c
  induction c with
  | zero =>
    intro _
    refine ⟨rfl, ?_⟩
    intro x hx
    simp only [leftCol, List.mem_singleton] at hx
    exact ⟨1, by simp, by simp [hx]⟩
  | succ c ih =>
    intro hc
    obtain ⟨e, hdy⟩ := ih (by omega)
    set p := leftCol (K := F) c with hp
    have hhalf := half_exact fl (by omega : 1 ≤ n) hD
    -- the halves
    have hH : ∀ x ∈ p, ∃ m : ℕ, m ≤ 2^c ∧ (1 / (1 + 1) : F) * x = (m:F) / 2^(c+1) := by
      intro x hx
      obtain ⟨m, hm, rfl⟩ := hdy x hx
      exact ⟨m, hm, half_mul_dy m c⟩
    have hmap : (p.map Fl.mk).map (fun x => ((1 : Fl F fl) / (1 + 1)) * x)
        = (p.map (fun x => (1 / (1 + 1) : F) * x)).map Fl.mk := by
      rw [List.map_map, List.map_map]
      apply List.map_congr_left
      intro x hx
      obtain ⟨m, hm, em⟩ := hH x hx
      simp only [Function.comp, hhalf]
      show (⟨fl ((1 / (1 + 1) : F) * x)⟩ : Fl F fl) = _
      rw [em, hD (c+1) m hc (le_trans hm (Nat.pow_le_pow_right (by norm_num) (by omega)))]
    have hall : ∀ z, z ∈ (p.map (fun x => (1 / (1 + 1) : F) * x)) ++ [0] ∨
        z ∈ (0 : F) :: (p.map (fun x => (1 / (1 + 1) : F) * x)) →
        ∃ m : ℕ, m ≤ 2^c ∧ z = (m:F) / 2^(c+1) := by
      intro z hz
      have : z = 0 ∨ z ∈ p.map (fun x => (1 / (1 + 1) : F) * x) := by
        rcases hz with hz | hz
        · rw [List.mem_append, List.mem_singleton] at hz; tauto
        · rw [List.mem_cons] at hz; tauto
      rcases this with rfl | hz
      · exact ⟨0, Nat.zero_le _, by simp⟩
      · obtain ⟨x, hx, rfl⟩ := List.mem_map.mp hz
        exact hH x hx
    constructor
    · show pascalHalfStep (leftCol (K := Fl F fl) c) = (pascalHalfStep p).map Fl.mk
      rw [e]
      unfold pascalHalfStep
      simp only
      rw [hmap]
      have e1 : (p.map (fun x => (1 / (1 + 1) : F) * x)).map (Fl.mk (fl := fl)) ++ [0]
          = ((p.map (fun x => (1 / (1 + 1) : F) * x)) ++ [0]).map Fl.mk := by
        rw [List.map_append]; rfl
      have e2 : (0 : Fl F fl) :: (p.map (fun x => (1 / (1 + 1) : F) * x)).map (Fl.mk (fl := fl))
          = ((0 : F) :: (p.map (fun x => (1 / (1 + 1) : F) * x))).map Fl.mk := rfl
      rw [e1, e2]
      apply zipWith_map_mk
      intro a ha b hb
      have := (dy_add_exact (fl := fl) (by omega : c ≤ n) hD (hall a (Or.inl ha)) (hall b (Or.inr hb)) hc).1
      show (⟨fl (a + b)⟩ : Fl F fl) = _
      rw [this]
    · intro x hx
      have hx' : x ∈ pascalHalfStep p := hx
      unfold pascalHalfStep at hx'
      obtain ⟨a, ha, b, hb, rfl⟩ := mem_zipWith _ _ _ _ hx'
      exact (dy_add_exact (fl := fl) (by omega : c ≤ n) hD (hall a (Or.inl ha)) (hall b (Or.inr hb)) hc).2

theorem getD_map_mk (l : List F) (r : ℕ) :
    (l.map (Fl.mk (fl := fl))).getD r 0 = ⟨l.getD r 0⟩ := by
  rw [List.getD_eq_getElem?_getD, List.getD_eq_getElem?_getD, List.getElem?_map]
  cases l[r]? <;> rfl

/-- **`make_subdivision_matrices` in the rounded arithmetic is the exact pair of matrices** -/
theorem subdivMat_exact {n : ℕ} (hD : DyadicExact fl n) :
    leftMat (K := Fl F fl) n = (leftMat (K := F) n).map (List.map Fl.mk) ∧
    rightMat (K := Fl F fl) n = (rightMat (K := F) n).map (List.map Fl.mk) := by
  constructor
  · unfold leftMat
    rw [List.map_map]
    apply List.map_congr_left
    intro r _
    simp only [Function.comp, List.map_map]
    apply List.map_congr_left
    intro c hc
    have hc' : c ≤ n := by have := List.mem_range.mp hc; omega
    simp only [Function.comp]
    rw [(leftCol_exact hD c hc').1, getD_map_mk]
  · unfold rightMat
    rw [List.map_map]
    apply List.map_congr_left
    intro r _
    simp only [Function.comp, List.map_map]
    apply List.map_congr_left
    intro c hc
    simp only [Function.comp]
    split
    · rfl
    · rw [(leftCol_exact hD (n - c) (by omega)).1, getD_map_mk]

/-- the entries of the subdivision matrices are non-negative -/
theorem subdivMat_abs (n : ℕ) :
    (leftMat (K := F) n).map (List.map (|·|)) = leftMat n ∧
    (rightMat (K := F) n).map (List.map (|·|)) = rightMat n := by
  have hnn : ∀ c r, 0 ≤ (leftCol (K := F) c).getD r 0 := by
    intro c r
    have := Subdivide.seq_leftCol (K := F) c r
    unfold seq at this
    rw [this]; positivity
  constructor
  · unfold leftMat
    rw [List.map_map]
    apply List.map_congr_left
    intro r _
    simp only [Function.comp, List.map_map]
    apply List.map_congr_left
    intro c _
    simp only [Function.comp]
    exact abs_of_nonneg (hnn c r)
  · unfold rightMat
    rw [List.map_map]
    apply List.map_congr_left
    intro r _
    simp only [Function.comp, List.map_map]
    apply List.map_congr_left
    intro c _
    simp only [Function.comp]
    split
    · simp
    · exact abs_of_nonneg (hnn _ _)

/-- **the in-place Pascal row of the Fortran loop is computed without rounding** (row for
    `elt_index = e+1`, `e + 1 ≤ nn`, needs the dyadic numbers of level `e`) -/
theorem f90PascalRow_exact {n : ℕ} (hD : DyadicExact fl n) (nn : ℕ) : ∀ e, e ≤ n →
    f90PascalRow (K := Fl F fl) nn (e+1) = (f90PascalRow (K := F) nn (e+1)).map Fl.mk ∧
    ∀ x ∈ f90PascalRow (K := F) nn (e+1), Dy e x := by
  intro e
  induction e with
  | zero =>
    intro _
    constructor
    · show ((1 : Fl F fl) :: List.replicate (nn - 1) 0) = ((1 : F) :: List.replicate (nn - 1) 0).map Fl.mk
      rw [List.map_cons, List.map_replicate]; rfl
    · intro x hx
      have hx' : x ∈ (1 : F) :: List.replicate (nn - 1) 0 := hx
      simp only [List.mem_cons, List.mem_replicate] at hx'
      replace hx := hx'
      rcases hx with rfl | ⟨_, rfl⟩
      · exact ⟨1, by simp, by simp⟩
      · exact Dy.zero 0
  | succ e ih =>
    intro he
    obtain ⟨eq, hdy⟩ := ih (by omega)
    set p := f90PascalRow (K := F) nn (e+1) with hp
    have hhalf := half_exact fl (by omega : 1 ≤ n) hD
    have key : ∀ a ∈ p, ∀ b ∈ p, fl (a + b) = a + b ∧
        fl ((1 / (1 + 1) : F) * (a + b)) = 1 / (1 + 1) * (a + b) ∧ Dy (e+1) (1 / (1 + 1) * (a + b)) := by
      intro a ha b hb
      obtain ⟨m1, h1, rfl⟩ := hdy a ha
      obtain ⟨m2, h2, rfl⟩ := hdy b hb
      have hle : m1 + m2 ≤ 2^(e+1) := by rw [pow_succ]; omega
      have hle' : m1 + m2 ≤ 2^(n+1) := le_trans hle (Nat.pow_le_pow_right (by norm_num) (by omega))
      have e1 : (m1:F) / 2^e + (m2:F) / 2^e = ((m1 + m2 : ℕ) : F) / 2^e := by push_cast; ring
      have h2e : (2 : F)^e ≠ 0 := pow_ne_zero _ two_ne_zero
      have e2 : (1 / (1 + 1) : F) * (((m1 + m2 : ℕ) : F) / 2^e) = ((m1 + m2 : ℕ) : F) / 2^(e+1) :=
        half_mul_dy _ _
      rw [e1, e2]
      exact ⟨hD e _ (by omega) hle', hD (e+1) _ he hle', ⟨m1 + m2, hle, rfl⟩⟩
    constructor
    · show f90PascalStep (f90PascalRow (K := Fl F fl) nn (e+1)) (e+2) = (f90PascalStep p (e+2)).map Fl.mk
      rw [eq]
      unfold f90PascalStep
      simp only
      rw [← List.map_take, ← List.map_reverse, ← List.map_drop, List.map_append]
      congr 1
      apply zipWith_map_mk
      intro a ha b hb
      have ha' : a ∈ p := List.mem_of_mem_take ha
      have hb' : b ∈ p := List.mem_of_mem_take (List.mem_reverse.mp hb)
      obtain ⟨k1, k2, _⟩ := key a ha' b hb'
      rw [hhalf]
      show (⟨fl ((1 / (1 + 1) : F) * fl (a + b))⟩ : Fl F fl) = _
      rw [k1, k2]
    · intro x hx
      have hx' : x ∈ f90PascalStep p (e+2) := hx
      unfold f90PascalStep at hx'
      simp only [List.mem_append] at hx'
      rcases hx' with hx' | hx'
      · obtain ⟨a, ha, b, hb, rfl⟩ := mem_zipWith _ _ _ _ hx'
        exact (key a (List.mem_of_mem_take ha) b (List.mem_of_mem_take (List.mem_reverse.mp hb))).2.2
      · exact (hdy x (List.mem_of_mem_drop hx')).up

end Dyadic


/-! ## curve specialisation and subdivision -/
section CurveRoutines
variable {F : Type} [Field F] [LinearOrder F] [IsStrictOrderedRing F] {fl : F → F} {u : F}

/-- the script's `spec_scale(row, a, b)[i]`: the absolute blossom with `n-i` parameters `a` and
    `i` parameters `b` -/
def absSpecPoint (a b : F) (row : List F) (i : ℕ) : F :=
  (absBlossomL (List.replicate (row.length - 1 - i) a ++ List.replicate i b) (row.map (|·|))).headD 0

theorem absBlossomL_append (t1 t2 A : List F) :
    absBlossomL (t1 ++ t2) A = absBlossomL t2 (absBlossomL t1 A) := List.foldl_append ..

theorem absBlossomL_replicate (t : F) : ∀ (m : ℕ) (A : List F),
    absBlossomL (List.replicate m t) A = iter (dcRound |1 - t| |t|) m A
  | 0, _ => rfl
  | m+1, A => by
    show absBlossomL (List.replicate m t) (dcRound |1 - t| |t| A) = _
    rw [absBlossomL_replicate t m]; rfl

/-- the absolute blossom does not depend on the order of the rounds -/
theorem absBlossomL_swap (a b : F) (m j : ℕ) (A : List F) :
    absBlossomL (List.replicate j b ++ List.replicate m a) A
      = absBlossomL (List.replicate m a ++ List.replicate j b) A := by
  rw [absBlossomL_append, absBlossomL_append, absBlossomL_replicate, absBlossomL_replicate,
    absBlossomL_replicate, absBlossomL_replicate]
  exact Subdivide.iter_comm _ _ (Subdivide.dcRound_comm _ _ _ _) m j A

/-- parameters in `[0,1]`: the absolute blossom is the blossom (of the absolute values) -/
theorem absBlossomL_eq_blossomL : ∀ (ts A : List F), (∀ t ∈ ts, 0 ≤ t ∧ t ≤ 1) →
    absBlossomL ts A = blossomL ts A
  | [], _, _ => rfl
  | t :: ts, A, h => by
    have ht := h t (by simp)
    show absBlossomL ts (dcRound |1 - t| |t| A) = blossomL ts (dcRound (1 - t) t A)
    rw [abs_of_nonneg ht.1, abs_of_nonneg (by linarith : 0 ≤ 1 - t)]
    exact absBlossomL_eq_blossomL ts _ (fun t' ht' => h t' (by simp [ht']))

/-- a blossom of `ts.length` rounds of exactly given data, at its head -/
theorem blossom_head_near (S : StdModel fl u) (ts : List F) (row : List F) :
    Near fl u (3 * ts.length) ((blossomL (ts.map Fl.mk) (row.map Fl.mk)).headD 0)
      ((blossomL ts row).headD 0) ((absBlossomL ts (row.map (|·|))).headD 0) :=
  ((NearL.blossomL S ts (NearL.map_mk S 0 row)).headD S).cast (by omega)

/-- **`specialize_curve` (Python dictionary), entry `i`**: `3n` roundings, relative to the absolute
    blossom -/
theorem specPoint_near (S : StdModel fl u) (a b : F) (row : List F) (i : ℕ) (hi : i + 1 ≤ row.length) :
    Near fl u (3 * (row.length - 1)) (specPoint (⟨a⟩ : Fl F fl) ⟨b⟩ (row.map Fl.mk) i)
      (specPoint a b row i) (absSpecPoint a b row i) := by
  rw [specPoint_eq_blossomL, specPoint_eq_blossomL, List.length_map]
  have e : List.replicate (row.length - 1 - i) (⟨a⟩ : Fl F fl) ++ List.replicate i ⟨b⟩
      = (List.replicate (row.length - 1 - i) a ++ List.replicate i b).map Fl.mk := by
    simp [List.map_append, List.map_replicate]
  rw [e]
  have := blossom_head_near S (List.replicate (row.length - 1 - i) a ++ List.replicate i b) row
  exact this.cast (by simp only [List.length_append, List.length_replicate]; omega)

/-- **`specialize_curve` (Fortran column workspace), column `j`**: the rounds are applied in the
    other order, the bound is the same -/
theorem f90_specializeGeneric_near (S : StdModel fl u) (a b : F) (row : List F) (h : 2 ≤ row.length)
    (j : ℕ) (hj : j < row.length) :
    Near fl u (3 * (row.length - 1)) (seq (F90.specializeGenericRow (row.map Fl.mk) (⟨a⟩ : Fl F fl) ⟨b⟩) j)
      (seq (F90.specializeGenericRow row a b) j) (absSpecPoint a b row j) := by
  rw [f90_specializeGeneric_blossomL _ (by simpa using h), f90_specializeGeneric_blossomL _ h,
    List.length_map, Subdivide.seq_map_range _ _ _ hj, Subdivide.seq_map_range _ _ _ hj]
  have e : List.replicate j (⟨b⟩ : Fl F fl) ++ List.replicate (row.length - 1 - j) ⟨a⟩
      = (List.replicate j b ++ List.replicate (row.length - 1 - j) a).map Fl.mk := by
    simp [List.map_append, List.map_replicate]
  rw [e]
  have := blossom_head_near S (List.replicate j b ++ List.replicate (row.length - 1 - j) a) row
  unfold absSpecPoint
  rw [← absBlossomL_swap]
  exact this.cast (by simp only [List.length_append, List.length_replicate]; omega)

theorem Near.exact_nonneg (S : StdModel fl u) (k : ℕ) {c : F} (hc : 0 ≤ c) :
    Near fl u k (⟨c⟩ : Fl F fl) c c := by
  have := Near.exact k S c
  rwa [abs_of_nonneg hc] at this

/-- `Model.rowMul` with an exactly represented matrix with non-negative entries -/
theorem rowMul_exact_near (S : StdModel fl u) (row : List F) (M : List (List F))
    (hM : M.map (List.map (|·|)) = M) :
    NearL fl u (row.length + 1) (Model.rowMul (row.map Fl.mk) (M.map (List.map Fl.mk)))
      (Model.rowMul row M) (Model.rowMul (row.map (|·|)) M) := by
  have := NearL.rowMul S (NearL.map_mk S 0 row) (NearM.map_mk S 0 M)
  rw [hM] at this
  exact this.cast (by omega)

/-- **`subdivide_nodes` (Python, two matrix products)**: every entry is a dot product of `n+1`
    terms with exactly computed weights, `n+2` roundings -/
theorem py_subdivide_near (S : StdModel fl u) (row : List F) (hD : DyadicExact fl (row.length - 1)) :
    NearL fl u (row.length + 1) (Py.subdivideRow (row.map (Fl.mk (fl := fl)))).1
      (Py.subdivideRow row).1 (Py.subdivideRow (row.map (|·|))).1 ∧
    NearL fl u (row.length + 1) (Py.subdivideRow (row.map (Fl.mk (fl := fl)))).2
      (Py.subdivideRow row).2 (Py.subdivideRow (row.map (|·|))).2 := by
  unfold Py.subdivideRow
  simp only [List.length_map]
  obtain ⟨eL, eR⟩ := subdivMat_exact hD
  rw [eL, eR]
  exact ⟨rowMul_exact_near S row _ (subdivMat_abs _).1, rowMul_exact_near S row _ (subdivMat_abs _).2⟩

theorem seq_nonneg_of_forall {l : List F} (h : ∀ x ∈ l, 0 ≤ x) (i : ℕ) : 0 ≤ seq l i := by
  unfold seq
  rw [List.getD_eq_getElem?_getD]
  cases hi : l[i]? with
  | none => simp
  | some x => exact h x (List.mem_of_getElem? hi)

/-- **`subdivide_nodes_generic` (Fortran accumulation loops)**: `e+2` roundings in entry `e` -/
theorem f90_subdivideGeneric_near (S : StdModel fl u) (row : List F)
    (hD : DyadicExact fl (row.length - 1)) :
    NearL fl u (row.length + 1) (F90.subdivideGenericRow (row.map (Fl.mk (fl := fl)))).1
      (F90.subdivideGenericRow row).1 (F90.subdivideGenericRow (row.map (|·|))).1 ∧
    NearL fl u (row.length + 1) (F90.subdivideGenericRow (row.map (Fl.mk (fl := fl)))).2
      (F90.subdivideGenericRow row).2 (F90.subdivideGenericRow (row.map (|·|))).2 := by
  unfold F90.subdivideGenericRow
  simp only [List.length_map]
  have hp : ∀ e0 ∈ List.range row.length, ∀ i,
      Near fl u 0 (seq (f90PascalRow (K := Fl F fl) row.length (e0+1)) i)
        (seq (f90PascalRow (K := F) row.length (e0+1)) i) (seq (f90PascalRow (K := F) row.length (e0+1)) i) := by
    intro e0 he0 i
    have he : e0 ≤ row.length - 1 := by have := List.mem_range.mp he0; omega
    obtain ⟨e1, e2⟩ := f90PascalRow_exact hD row.length e0 he
    rw [e1, seq_map_mk']
    exact Near.exact_nonneg S 0 (seq_nonneg_of_forall (fun x hx => (e2 x hx).nonneg) i)
  have hv : ∀ i, Near fl u 0 (seq (row.map (Fl.mk (fl := fl))) i) (seq row i) (seq (row.map (|·|)) i) :=
    (NearL.map_mk S 0 row).seq S
  constructor
  · apply All3.map_list
    intro e0 he0
    have he : e0 + 1 ≤ row.length := by have := List.mem_range.mp he0; omega
    have := Near.foldl_range S (t := 1)
      (fun pi => seq (f90PascalRow (K := Fl F fl) row.length (e0+1)) pi * seq (row.map (Fl.mk (fl := fl))) pi)
      (fun pi => seq (f90PascalRow (K := F) row.length (e0+1)) pi * seq row pi)
      (fun pi => seq (f90PascalRow (K := F) row.length (e0+1)) pi * seq (row.map (|·|)) pi) (e0+1)
      (fun i _ => ((hp e0 he0 i).mul S (hv i)).cast (by omega))
    exact this.mono S (by omega)
  · apply All3.reverse
    apply All3.map_list
    intro e0 he0
    have he : e0 + 1 ≤ row.length := by have := List.mem_range.mp he0; omega
    have := Near.foldl_range S (t := 1)
      (fun pi => seq (f90PascalRow (K := Fl F fl) row.length (e0+1)) pi
        * seq (row.map (Fl.mk (fl := fl))) (row.length - 1 - pi))
      (fun pi => seq (f90PascalRow (K := F) row.length (e0+1)) pi * seq row (row.length - 1 - pi))
      (fun pi => seq (f90PascalRow (K := F) row.length (e0+1)) pi * seq (row.map (|·|)) (row.length - 1 - pi))
      (e0+1) (fun i _ => ((hp e0 he0 i).mul S (hv _)).cast (by omega))
    exact this.mono S (by omega)

/-- the small constants of the Fortran closed forms are exact -/
theorem consts_exact (hD : DyadicExact fl 3) :
    ((1 : Fl F fl) + 1 = ⟨1 + 1⟩) ∧ ((1 : Fl F fl) + 1 + 1 = ⟨1 + 1 + 1⟩) ∧
    ((1 : Fl F fl) / (1 + 1) = ⟨1 / (1 + 1)⟩) ∧
    ((1 : Fl F fl) / (1 + 1 + 1 + 1) = ⟨1 / (1 + 1 + 1 + 1)⟩) ∧
    ((1 : Fl F fl) / (1 + 1 + 1 + 1 + 1 + 1 + 1 + 1) = ⟨1 / (1 + 1 + 1 + 1 + 1 + 1 + 1 + 1)⟩) := by
  have hn : ∀ m : ℕ, m ≤ 16 → fl (m : F) = (m : F) := fun m hm => hD.nat m (by norm_num; exact hm)
  have h2 : fl ((1:F) + 1) = 1 + 1 := by have := hn 2 (by norm_num); norm_num at this ⊢; exact this
  have h3 : fl ((1:F) + 1 + 1) = 1 + 1 + 1 := by have := hn 3 (by norm_num); norm_num at this ⊢; exact this
  have h4 : fl ((1:F) + 1 + 1 + 1) = 1 + 1 + 1 + 1 := by
    have := hn 4 (by norm_num); norm_num at this ⊢; exact this
  have h5 : fl ((1:F) + 1 + 1 + 1 + 1) = 1 + 1 + 1 + 1 + 1 := by
    have := hn 5 (by norm_num); norm_num at this ⊢; exact this
  have h6 : fl ((1:F) + 1 + 1 + 1 + 1 + 1) = 1 + 1 + 1 + 1 + 1 + 1 := by
    have := hn 6 (by norm_num); norm_num at this ⊢; exact this
  have h7 : fl ((1:F) + 1 + 1 + 1 + 1 + 1 + 1) = 1 + 1 + 1 + 1 + 1 + 1 + 1 := by
    have := hn 7 (by norm_num); norm_num at this ⊢; exact this
  have h8 : fl ((1:F) + 1 + 1 + 1 + 1 + 1 + 1 + 1) = 1 + 1 + 1 + 1 + 1 + 1 + 1 + 1 := by
    have := hn 8 (by norm_num); norm_num at this ⊢; exact this
  have q2 : fl ((1:F) / (1 + 1)) = 1 / (1 + 1) := by
    have := hD 1 1 (by norm_num) (by norm_num); norm_num at this ⊢; exact this
  have q4 : fl ((1:F) / (1 + 1 + 1 + 1)) = 1 / (1 + 1 + 1 + 1) := by
    have := hD 2 1 (by norm_num) (by norm_num); norm_num at this ⊢; exact this
  have q8 : fl ((1:F) / (1 + 1 + 1 + 1 + 1 + 1 + 1 + 1)) = 1 / (1 + 1 + 1 + 1 + 1 + 1 + 1 + 1) := by
    have := hD 3 1 (by norm_num) (by norm_num); norm_num at this ⊢; exact this
  refine ⟨?_, ?_, ?_, ?_, ?_⟩
  · show (⟨fl (1 + 1)⟩ : Fl F fl) = _
    rw [h2]
  · show (⟨fl (fl (1 + 1) + 1)⟩ : Fl F fl) = _
    rw [h2, h3]
  · show (⟨fl (1 / fl (1 + 1))⟩ : Fl F fl) = _
    rw [h2, q2]
  · show (⟨fl (1 / fl (fl (fl (1 + 1) + 1) + 1))⟩ : Fl F fl) = _
    rw [h2, h3, h4, q4]
  · show (⟨fl (1 / fl (fl (fl (fl (fl (fl (fl (1 + 1) + 1) + 1) + 1) + 1) + 1) + 1))⟩ : Fl F fl) = _
    rw [h2, h3, h4, h5, h6, h7, h8, q8]


/-- entry-wise inequalities out of a `NearL` statement -/
theorem NearL.bound (S : StdModel fl u) {k : ℕ} {lh : List (Fl F fl)} {l A : List F}
    (H : NearL fl u k lh l A) (i : ℕ) :
    |(Model.seq lh i).val - Model.seq l i| ≤ ((1+u)^k - 1) * Model.seq A i := (H.seq S i).1

/-- **`subdivide_nodes` (Fortran: closed forms for 2, 3, 4 nodes, accumulation loops otherwise)** -/
theorem f90_subdivide_near (S : StdModel fl u) (row : List F)
    (hD : DyadicExact fl (max 3 (row.length - 1))) :
    NearL fl u (row.length + 1) (F90.subdivideRow (row.map (Fl.mk (fl := fl)))).1
      (F90.subdivideRow row).1 (F90.subdivideRow (row.map (|·|))).1 ∧
    NearL fl u (row.length + 1) (F90.subdivideRow (row.map (Fl.mk (fl := fl)))).2
      (F90.subdivideRow row).2 (F90.subdivideRow (row.map (|·|))).2 := by
  have hD3 : DyadicExact fl 3 := hD.mono (le_max_left _ _)
  have hDn : DyadicExact fl (row.length - 1) := hD.mono (le_max_right _ _)
  obtain ⟨c2, c3, ch, cq, ce⟩ := consts_exact hD3
  have n2 : Near fl u 0 ((1 : Fl F fl) + 1) (1 + 1) (1 + 1) := by
    rw [c2]; exact Near.exact_nonneg S 0 (by norm_num)
  have n3 : Near fl u 0 ((1 : Fl F fl) + 1 + 1) (1 + 1 + 1) (1 + 1 + 1) := by
    rw [c3]; exact Near.exact_nonneg S 0 (by norm_num)
  have nh : Near fl u 0 ((1 : Fl F fl) / (1 + 1)) (1 / (1 + 1)) (1 / (1 + 1)) := by
    rw [ch]; exact Near.exact_nonneg S 0 (by norm_num)
  have nq : Near fl u 0 ((1 : Fl F fl) / (1 + 1 + 1 + 1)) (1 / (1 + 1 + 1 + 1)) (1 / (1 + 1 + 1 + 1)) := by
    rw [cq]; exact Near.exact_nonneg S 0 (by norm_num)
  have ne : Near fl u 0 ((1 : Fl F fl) / (1 + 1 + 1 + 1 + 1 + 1 + 1 + 1))
      (1 / (1 + 1 + 1 + 1 + 1 + 1 + 1 + 1)) (1 / (1 + 1 + 1 + 1 + 1 + 1 + 1 + 1)) := by
    rw [ce]; exact Near.exact_nonneg S 0 (by norm_num)
  match row, hDn with
  | [], hDn => exact f90_subdivideGeneric_near S [] hDn
  | [x], hDn => exact f90_subdivideGeneric_near S [x] hDn
  | [a, b], _ =>
    have ea := Near.exact 0 S a
    have eb := Near.exact 0 S b
    have l2 := (nh.mul S (ea.add S eb)).mono S (by norm_num : 0 + (0 + 1) + 1 ≤ 3)
    simp only [F90.subdivideRow, List.map_cons, List.map_nil, List.length_cons, List.length_nil]
    exact ⟨.cons (ea.mono S (by norm_num)) (.cons l2 .nil), .cons l2 (.cons (eb.mono S (by norm_num)) .nil)⟩
  | [a, b, c], _ =>
    have ea := Near.exact 0 S a
    have eb := Near.exact 0 S b
    have ec := Near.exact 0 S c
    have hab := (nh.mul S (ea.add S eb)).mono S (by norm_num : 0 + (0 + 1) + 1 ≤ 4)
    have hbc := (nh.mul S (eb.add S ec)).mono S (by norm_num : 0 + (0 + 1) + 1 ≤ 4)
    have l3 := (nq.mul S (((ea.mono S (by norm_num : 0 ≤ 1)).add S (n2.mul S eb)).add' S ec)).mono S
      (by norm_num : 0 + (max (0 + 0 + 1 + 1) 0 + 1) + 1 ≤ 4)
    simp only [F90.subdivideRow, List.map_cons, List.map_nil, List.length_cons, List.length_nil]
    exact ⟨.cons (ea.mono S (by norm_num)) (.cons hab (.cons l3 .nil)),
      .cons l3 (.cons hbc (.cons (ec.mono S (by norm_num)) .nil))⟩
  | [a, b, c, d], _ =>
    have ea := Near.exact 0 S a
    have eb := Near.exact 0 S b
    have ec := Near.exact 0 S c
    have ed := Near.exact 0 S d
    have hab := (nh.mul S (ea.add S eb)).mono S (by norm_num : 0 + (0 + 1) + 1 ≤ 5)
    have hcd := (nh.mul S (ec.add S ed)).mono S (by norm_num : 0 + (0 + 1) + 1 ≤ 5)
    have qabc := (nq.mul S (((ea.mono S (by norm_num : 0 ≤ 1)).add S (n2.mul S eb)).add' S ec)).mono S
      (by norm_num : 0 + (max (0 + 0 + 1 + 1) 0 + 1) + 1 ≤ 5)
    have qbcd := (nq.mul S (((eb.mono S (by norm_num : 0 ≤ 1)).add S (n2.mul S ec)).add' S ed)).mono S
      (by norm_num : 0 + (max (0 + 0 + 1 + 1) 0 + 1) + 1 ≤ 5)
    have l4 := (ne.mul S ((((ea.mono S (by norm_num : 0 ≤ 1)).add S (n3.mul S eb)).add' S
      (n3.mul S ec)).add' S ed)).mono S
      (by norm_num : 0 + (max (max (0 + 0 + 1 + 1) (0 + 0 + 1) + 1) 0 + 1) + 1 ≤ 5)
    simp only [F90.subdivideRow, List.map_cons, List.map_nil, List.length_cons, List.length_nil]
    exact ⟨.cons (ea.mono S (by norm_num)) (.cons hab (.cons qabc (.cons l4 .nil))),
      .cons l4 (.cons qbcd (.cons hcd (.cons (ed.mono S (by norm_num)) .nil)))⟩
  | a :: b :: c :: d :: e :: rest, hDn =>
    exact f90_subdivideGeneric_near S (a :: b :: c :: d :: e :: rest) hDn

end CurveRoutines


/-! ## triangle rounds and the Fortran specialisation workspaces -/
section TriangleRounds
variable {F : Type} [Field F] [LinearOrder F] [IsStrictOrderedRing F] {fl : F → F} {u : F}

open BezierVerif.Tri

/-- a weight triple, component-wise -/
def NearB (fl : F → F) (u : F) (j : ℕ) (wh : Bary (Fl F fl)) (w W : Bary F) : Prop :=
  Near fl u j wh.l1 w.l1 W.l1 ∧ Near fl u j wh.l2 w.l2 W.l2 ∧ Near fl u j wh.l3 w.l3 W.l3

/-- weights of the arithmetic, injected exactly -/
theorem NearB.exact (S : StdModel fl u) (j : ℕ) (w : Bary F) : NearB fl u j (mkBary fl w) w (absBary w) :=
  ⟨Near.exact j S _, Near.exact j S _, Near.exact j S _⟩

theorem dcInner3_near (S : StdModel fl u) {j k : ℕ} {wh : Bary (Fl F fl)} {w W : Bary F}
    (hw : NearB fl u j wh w W) {vh : ℕ → Fl F fl} {v V : ℕ → F}
    (hv : ∀ p, Near fl u k (vh p) (v p) (V p)) : ∀ cnt p1 p2 p3,
    NearL fl u (j + k + 3) (dcInner3 wh vh cnt p1 p2 p3) (dcInner3 w v cnt p1 p2 p3)
      (dcInner3 W V cnt p1 p2 p3)
  | 0, _, _, _ => .nil
  | cnt+1, p1, p2, p3 => by
    simp only [dcInner3]
    refine .cons ?_ (dcInner3_near S hw hv cnt _ _ _)
    exact ((((hw.1.mul S (hv p1)).add S (hw.2.1.mul S (hv p2))).add' S (hw.2.2.mul S (hv p3)))).cast
      (by omega)

theorem dcOuter3_near (S : StdModel fl u) {j k : ℕ} {wh : Bary (Fl F fl)} {w W : Bary F}
    (hw : NearB fl u j wh w W) {vh : ℕ → Fl F fl} {v V : ℕ → F}
    (hv : ∀ p, Near fl u k (vh p) (v p) (V p)) (degree : ℕ) : ∀ fuel kk p1 p2 p3,
    NearL fl u (j + k + 3) (dcOuter3 wh vh degree fuel kk p1 p2 p3) (dcOuter3 w v degree fuel kk p1 p2 p3)
      (dcOuter3 W V degree fuel kk p1 p2 p3)
  | 0, _, _, _, _ => .nil
  | fuel+1, kk, p1, p2, p3 => by
    simp only [dcOuter3]
    exact (dcInner3_near S hw hv _ _ _ _).append (dcOuter3_near S hw hv degree fuel _ _ _ _)

/-- **one triangle de Casteljau round**: three more roundings on top of those of the weights -/
theorem NearL.dcRound3 (S : StdModel fl u) {j k : ℕ} {wh : Bary (Fl F fl)} {w W : Bary F}
    (hw : NearB fl u j wh w W) (degree : ℕ) {lh : List (Fl F fl)} {l A : List F}
    (H : NearL fl u k lh l A) :
    NearL fl u (j + k + 3) (Model.dcRound3 degree wh lh) (Model.dcRound3 degree w l)
      (Model.dcRound3 degree W A) :=
  dcOuter3_near S hw (H.seq S) degree _ _ _ _ _

theorem roundsFrom_near (S : StdModel fl u) {j k : ℕ} {wh : Bary (Fl F fl)} {w W : Bary F}
    (hw : NearB fl u j wh w W) (ld sz : ℕ) {lh : List (Fl F fl)} {l A : List F}
    (H : NearL fl u k lh l A) : ∀ cnt ri,
    NearL fl u (j + k + 3) (F90.roundsFrom ld sz wh lh cnt ri) (F90.roundsFrom ld sz w l cnt ri)
      (F90.roundsFrom ld sz W A cnt ri)
  | 0, _ => .nil
  | cnt+1, ri => by
    simp only [F90.roundsFrom]
    exact (NearL.dcRound3 S hw ld ((H.drop ri).take sz)).append (roundsFrom_near S hw ld sz H cnt _)

theorem oneRound_near (S : StdModel fl u) {j k : ℕ} {ah bh ch : Bary (Fl F fl)} {a A' b B' c C' : Bary F}
    (ha : NearB fl u j ah a A') (hb : NearB fl u j bh b B') (hc : NearB fl u j ch c C')
    (sz step ld : ℕ) {lh : List (Fl F fl)} {l A : List F} (H : NearL fl u k lh l A) :
    NearL fl u (j + k + 3) (F90.triSpecializeOneRound sz step ld ah bh ch lh)
      (F90.triSpecializeOneRound sz step ld a b c l) (F90.triSpecializeOneRound sz step ld A' B' C' A) := by
  unfold F90.triSpecializeOneRound
  exact ((NearL.dcRound3 S ha ld (H.take sz)).append (roundsFrom_near S hb ld sz H _ _)).append
    (roundsFrom_near S hc ld sz H _ _)

/-- the loop of `specialize_triangle` (Fortran): after `s` steps the workspace carries
    `s·(j+3)` roundings; the integer running variables do not depend on the arithmetic -/
theorem triSpecializeLoop_near (S : StdModel fl u) {j : ℕ} {ah bh ch : Bary (Fl F fl)}
    {a A' b B' c C' : Bary F}
    (ha : NearB fl u j ah a A') (hb : NearB fl u j bh b B') (hc : NearB fl u j ch c C')
    (d : ℕ) {lh : List (Fl F fl)} {l A : List F} (H : NearL fl u 0 lh l A) : ∀ s,
    NearL fl u (s * (j + 3)) (F90.triSpecializeLoop d ah bh ch lh s).work
      (F90.triSpecializeLoop d a b c l s).work (F90.triSpecializeLoop d A' B' C' A s).work ∧
    (F90.triSpecializeLoop d ah bh ch lh s).size = (F90.triSpecializeLoop d a b c l s).size ∧
    (F90.triSpecializeLoop d A' B' C' A s).size = (F90.triSpecializeLoop d a b c l s).size ∧
    (F90.triSpecializeLoop d ah bh ch lh s).deltaSize = (F90.triSpecializeLoop d a b c l s).deltaSize ∧
    (F90.triSpecializeLoop d A' B' C' A s).deltaSize = (F90.triSpecializeLoop d a b c l s).deltaSize := by
  intro s
  induction s with
  | zero => exact ⟨by simpa [F90.triSpecializeLoop] using H, rfl, rfl, rfl, rfl⟩
  | succ s ih =>
    obtain ⟨hw, s1, s2, d1, d2⟩ := ih
    simp only [F90.triSpecializeLoop, F90.triSpecializeStepState]
    rw [s1, s2, d1, d2]
    refine ⟨?_, rfl, rfl, rfl, rfl⟩
    exact (oneRound_near S ha hb hc _ _ _ hw).cast (by ring)

/-- **`specialize_triangle` (Fortran workspaces) in rounded arithmetic**: `3d` roundings, relative
    to the same routine on absolute values with absolute weights (the absolute blossom) -/
theorem f90_triSpecialize_near (S : StdModel fl u) (d : ℕ) (row : List F) (wa wb wc : Bary F) :
    NearL fl u (3 * d)
      (F90.triSpecializeRow d (row.map Fl.mk) (mkBary fl wa) (mkBary fl wb) (mkBary fl wc))
      (F90.triSpecializeRow d row wa wb wc)
      (F90.triSpecializeRow d (row.map (|·|)) (absBary wa) (absBary wb) (absBary wc)) := by
  unfold F90.triSpecializeRow
  simp only [List.length_map]
  have := (triSpecializeLoop_near S (NearB.exact S 0 wa) (NearB.exact S 0 wb) (NearB.exact S 0 wc) d
    (NearL.map_mk S 0 row) d).1
  exact NearL.cast (by ring) (this.take row.length)

/-- the six subdivision weights are exact in the arithmetic -/
theorem subWeights_exact (hD : DyadicExact fl 1) :
    (subWeights (K := Fl F fl)).w0 = mkBary fl (subWeights (K := F)).w0 ∧
    (subWeights (K := Fl F fl)).w1 = mkBary fl (subWeights (K := F)).w1 ∧
    (subWeights (K := Fl F fl)).w2 = mkBary fl (subWeights (K := F)).w2 ∧
    (subWeights (K := Fl F fl)).w3 = mkBary fl (subWeights (K := F)).w3 ∧
    (subWeights (K := Fl F fl)).w4 = mkBary fl (subWeights (K := F)).w4 ∧
    (subWeights (K := Fl F fl)).w5 = mkBary fl (subWeights (K := F)).w5 := by
  have hh := half_exact fl le_rfl hD
  simp only [subWeights, mkBary, hh]
  exact ⟨rfl, rfl, rfl, rfl, rfl, rfl⟩

theorem subWeights_abs :
    absBary (subWeights (K := F)).w0 = subWeights.w0 ∧ absBary (subWeights (K := F)).w1 = subWeights.w1 ∧
    absBary (subWeights (K := F)).w2 = subWeights.w2 ∧ absBary (subWeights (K := F)).w3 = subWeights.w3 ∧
    absBary (subWeights (K := F)).w4 = subWeights.w4 ∧ absBary (subWeights (K := F)).w5 = subWeights.w5 := by
  simp [subWeights, absBary]

/-- **generic branch of `subdivide_nodes` (Fortran)** in rounded arithmetic -/
theorem f90_triSubdivideGeneric_near (S : StdModel fl u) (hD : DyadicExact fl 1) (d : ℕ) (row : List F)
    (qt : Quarter) :
    NearL fl u (3 * d) (F90.triSubdivideGenericRow (subWeights (K := Fl F fl)) d (row.map Fl.mk) qt)
      (F90.triSubdivideGenericRow subWeights d row qt)
      (F90.triSubdivideGenericRow subWeights d (row.map (|·|)) qt) := by
  obtain ⟨e0, e1, e2, e3, e4, e5⟩ := subWeights_exact (fl := fl) hD
  obtain ⟨a0, a1, a2, a3, a4, a5⟩ := subWeights_abs (F := F)
  unfold F90.triSubdivideGenericRow
  cases qt <;> simp only [quarterWeights]
  · have := f90_triSpecialize_near S d row (subWeights (K := F)).w0 subWeights.w1 subWeights.w2
    rwa [← e0, ← e1, ← e2, a0, a1, a2] at this
  · have := f90_triSpecialize_near S d row (subWeights (K := F)).w3 subWeights.w2 subWeights.w1
    rwa [← e3, ← e2, ← e1, a3, a2, a1] at this
  · have := f90_triSpecialize_near S d row (subWeights (K := F)).w1 subWeights.w4 subWeights.w3
    rwa [← e1, ← e4, ← e3, a1, a4, a3] at this
  · have := f90_triSpecialize_near S d row (subWeights (K := F)).w2 subWeights.w3 subWeights.w5
    rwa [← e2, ← e3, ← e5, a2, a3, a5] at this


/-- a list that dominates its own absolute values entry by entry is non-negative -/
theorem map_abs_eq_self_of_all3 {R : Fl F fl → F → F → Prop} (hR : ∀ a b c, R a b c → |b| ≤ c)
    {la : List (Fl F fl)} {l : List F} (H : All3 R la l l) : l.map (|·|) = l := by
  have key : ∀ (la : List (Fl F fl)) (l l' : List F), All3 R la l l' → l' = l → l.map (|·|) = l := by
    intro la l l' H
    induction H with
    | nil => intro _; rfl
    | cons h1 _ ih =>
      intro e
      rw [List.cons.injEq] at e
      obtain ⟨e1, e2⟩ := e
      have := hR _ _ _ h1
      rw [e1] at this
      rw [List.map_cons, ih e2, abs_of_nonneg (le_trans (abs_nonneg _) this)]
  exact key la l l H rfl

theorem unitVec_abs (N r : ℕ) : (unitVec (K := F) N r).map (|·|) = unitVec N r := by
  unfold unitVec
  rw [List.map_map]
  apply List.map_congr_left
  intro t _
  simp only [Function.comp]
  split <;> simp

/-- the model-derived operator matrices of the four quarters have non-negative entries -/
theorem triSubdivMat_abs (d : ℕ) (qt : Quarter) :
    (triSubdivMat (subWeights (K := F)) d qt).map (List.map (|·|)) = triSubdivMat subWeights d qt := by
  unfold triSubdivMat identity
  simp only [List.map_map]
  apply List.map_congr_left
  intro r _
  simp only [Function.comp]
  have S : StdModel (id : F → F) 0 := ⟨le_rfl, by intro x; simp⟩
  have := f90_triSubdivideGeneric_near S (fun _ _ _ _ => rfl) d (unitVec (K := F) (numNodes d) r) qt
  rw [unitVec_abs] at this
  exact map_abs_eq_self_of_all3 (fun _ _ _ h => h.2) this

end TriangleRounds


/-! ## `evaluate_barycentric_multi` (Fortran, `real(c_double)` binomial) in rounded arithmetic -/
section TriEvalF90

section NoLaws
variable {K : Type} [Add K] [Sub K] [Mul K] [Div K] [Neg K] [OfNat K 0] [OfNat K 1] [NatCast K]

/-- the integer index and the running binomial of the Fortran loop are those of the Python loop,
    in any arithmetic -/
theorem F90_triLoopReal_index_binom (thr d : ℕ) (row : List K) (w : Bary K) : ∀ t,
    (F90.triLoopReal thr d row w t).index = (Py.triLoop thr d row w t).index ∧
    (F90.triLoopReal thr d row w t).binom = (Py.triLoop thr d row w t).binom := by
  intro t
  induction t with
  | zero => exact ⟨rfl, rfl⟩
  | succ t ih =>
    obtain ⟨hi, hb⟩ := ih
    simp only [F90.triLoopReal, Py.triLoop, F90.triStepReal, Py.triStep, hi, hb]
    exact ⟨trivial, trivial⟩

end NoLaws

variable {F : Type} [Field F] [LinearOrder F] [IsStrictOrderedRing F] {fl : F → F} {u : F}

open BezierVerif.Tri

theorem Fl.eq_mk {x : Fl F fl} {v : F} (h : x.val = v) : x = ⟨v⟩ := by
  cases x; simp only at h; rw [h]

/-- **the Fortran row loop in rounded arithmetic** against the exact Python loop (the two exact
    loops agree, `F90_triLoopReal_eq`); the copy `evaluated = nodes(:, num_nodes)` costs no
    rounding, the order of the product `λ₃ * evaluated` does not matter -/
theorem f90_triLoopReal_rounding (S : StdModel fl u) (thr d : ℕ) (hbin : TriBinomExact fl d)
    (hrows : ∀ n, 1 ≤ n → n ≤ d → n + 1 ≤ thr → VSBinomExact fl n)
    (row : List F) (hlen : row.length = rowStart d (d+1)) (w : Bary F) : ∀ t, t ≤ d →
    Near fl u (2*t+4) (F90.triLoopReal thr d (row.map Fl.mk) (mkBary fl w) t).result
      (Py.triLoop thr d row w t).result (Py.triLoop thr d (row.map (|·|)) (absBary w) t).result := by
  have hu := S.hu
  have hfl := S.hfl
  have hlenA : (row.map (|·|)).length = rowStart d (d+1) := by rw [List.length_map, hlen]
  have hlenM : (row.map (Fl.mk (fl := fl))).length = rowStart d (d+1) := by rw [List.length_map, hlen]
  intro t
  induction t with
  | zero =>
    intro _
    simp only [F90.triLoopReal, Py.triLoop, List.length_map]
    have hv : seq (row.map (Fl.mk (fl := fl))) (row.length - 1) = ⟨seq row (row.length - 1)⟩ := by
      rw [seq_map_mk']
    have ha : seq (row.map (|·|)) (row.length - 1) = |seq row (row.length - 1)| := seq_map_abs row _
    rw [hv, ha, zero_add, zero_add]
    exact Near.exact _ S _
  | succ t ih =>
    intro ht
    have herr := ih (by omega)
    have hk : d - 1 - t < d := by omega
    set k := d - 1 - t with hkdef
    have e : d - t = k + 1 := by omega
    -- exact runs
    obtain ⟨xi, xb, _⟩ := Py_triLoop_inv thr d row w hlen t (by omega)
    obtain ⟨ai, ab, _⟩ := Py_triLoop_inv thr d (row.map (|·|)) (absBary w) hlenA t (by omega)
    rw [e] at xi xb ai ab
    obtain ⟨_, _, xr⟩ := Py_triStep_spec thr d k row w (Py.triLoop thr d row w t) hk hlen xi xb
    obtain ⟨_, _, ar⟩ := Py_triStep_spec thr d k (row.map (|·|)) (absBary w)
      (Py.triLoop thr d (row.map (|·|)) (absBary w) t) hk hlenA ai ab
    have hx : (Py.triLoop thr d row w (t+1)).result
        = (Py.triLoop thr d row w t).result * w.l3 + (d.choose k : F) * bern (d - k) w.l1 w.l2 (netRow d row k) := xr
    have hA : (Py.triLoop thr d (row.map (|·|)) (absBary w) (t+1)).result
        = (Py.triLoop thr d (row.map (|·|)) (absBary w) t).result * |w.l3|
          + (d.choose k : F) * bern (d - k) |w.l1| |w.l2| (netRow d (row.map (|·|)) k) := ar
    -- rounded run
    have mi := Py_triLoop_index thr d (row.map (Fl.mk (fl := fl))) (mkBary fl w) hlenM t (by omega)
    rw [e] at mi
    have fi := (F90_triLoopReal_index_binom thr d (row.map (Fl.mk (fl := fl))) (mkBary fl w) t).1
    rw [mi] at fi
    have hrs : rowStart d (k+1) = rowStart d k + (d + 1 - k) := rfl
    have i1 : rowStart d (k+1) - 1 + k - d = rowStart d k := by rw [hrs]; omega
    have i2 : rowStart d (k+1) - 1 = rowStart d k + (d - k) := by rw [hrs]; omega
    have mb := triLoop_fl_binom fl thr d hbin (row.map Fl.mk) (mkBary fl w) (t+1) ht
    have e' : d - (t + 1) = k := by omega
    rw [e', ← (F90_triLoopReal_index_binom thr d (row.map (Fl.mk (fl := fl))) (mkBary fl w) (t+1)).2] at mb
    have mb' := Fl.eq_mk mb
    set sl := triSlice row (rowStart d k) (rowStart d k + (d - k)) with hsl
    have hin := rowStart_add_le d k (by omega)
    have hsll : sl.length = d - k + 1 := by rw [hsl, slice_length _ _ _ (by omega)]; omega
    have hslice : triSlice (row.map (Fl.mk (fl := fl))) (rowStart d k) (rowStart d k + (d - k)) = sl.map Fl.mk := by
      rw [hsl]; unfold triSlice; rw [List.map_take, List.map_drop]
    have hm0 : (F90.triLoopReal thr d (row.map Fl.mk) (mkBary fl w) (t+1)).result
        = (mkBary fl w).l3 * (F90.triLoopReal thr d (row.map Fl.mk) (mkBary fl w) t).result
          + (F90.triLoopReal thr d (row.map Fl.mk) (mkBary fl w) (t+1)).binom
            * evalBary thr (triSlice (row.map Fl.mk)
                ((F90.triLoopReal thr d (row.map Fl.mk) (mkBary fl w) t).index - 1 + k - d)
                ((F90.triLoopReal thr d (row.map Fl.mk) (mkBary fl w) t).index - 1))
              (mkBary fl w).l1 (mkBary fl w).l2 := rfl
    rw [fi, i1, i2, hslice, mb'] at hm0
    -- the curve routine on the row
    have hcol := bary_rounding_bern fl u hu hfl thr sl (by omega)
      (fun hle => hrows (sl.length - 1) (by omega) (by omega) (by omega)) w.l1 w.l2
    rw [hsll] at hcol
    simp only [Nat.add_sub_cancel] at hcol
    have hc1 : bern (d - k) w.l1 w.l2 (seq sl) = bern (d - k) w.l1 w.l2 (netRow d row k) :=
      bern_congr' _ _ _ _ _ (fun j hj => seq_slice row _ _ j (by omega))
    have hc2 : bern (d - k) |w.l1| |w.l2| (fun j => |seq sl j|)
        = bern (d - k) |w.l1| |w.l2| (netRow d (row.map (|·|)) k) := by
      apply bern_congr'
      intro j hj
      simp only [netRow]
      rw [seq_map_abs, seq_slice row _ _ j (by omega)]
    rw [hc1, hc2] at hcol
    have hdk : 2 * (d - k) + 2 = 2 * t + 4 := by omega
    rw [hdk] at hcol
    have hcolmag : |bern (d - k) w.l1 w.l2 (netRow d row k)|
        ≤ bern (d - k) |w.l1| |w.l2| (netRow d (row.map (|·|)) k) := by
      rw [← hc2, ← hc1]; exact abs_bern_le _ _ _ _
    have ncol : Near fl u (2*t+4) (evalBary thr (sl.map Fl.mk) (⟨w.l1⟩ : Fl F fl) ⟨w.l2⟩)
        (bern (d - k) w.l1 w.l2 (netRow d row k))
        (bern (d - k) |w.l1| |w.l2| (netRow d (row.map (|·|)) k)) := ⟨hcol, hcolmag⟩
    -- assemble
    have p1 := (Near.exact 0 S w.l3).mul S herr
    have p2 := (Near.exact_nonneg S 0 (Nat.cast_nonneg (d.choose k) : (0:F) ≤ (d.choose k : F))).mul S ncol
    have p3 := (p1.add S p2).cast (by omega : 0 + (2*t+4) + 1 + 1 = 2*(t+1)+4)
    rw [hm0, hx, hA, mul_comm _ w.l3, mul_comm _ |w.l3|]
    exact p3

/-- **`evaluate_barycentric_multi` (Fortran, real binomial)** vs the bivariate Bernstein sum -/
theorem f90_evalBarycentricRowReal_near (S : StdModel fl u) (thr d : ℕ) (hbin : TriBinomExact fl d)
    (hrows : ∀ n, 1 ≤ n → n ≤ d → n + 1 ≤ thr → VSBinomExact fl n)
    (row : List F) (h : row.length = numNodes d) (w : Bary F) :
    Near fl u (2*d+4) (F90.evalBarycentricRowReal thr d (row.map Fl.mk) (mkBary fl w))
      (triBern d w.l1 w.l2 w.l3 (netOf d row))
      (triBern d |w.l1| |w.l2| |w.l3| (netOf d (row.map (|·|)))) := by
  have hlen : row.length = rowStart d (d+1) := by rw [h, numNodes_eq_rowStart]
  have hlenA : (row.map (|·|)).length = rowStart d (d+1) := by rw [List.length_map, hlen]
  have := f90_triLoopReal_rounding S thr d hbin hrows row hlen w d le_rfl
  rw [← Py_evalBarycentricRow_eq thr d row w hlen]
  have ha := Py_evalBarycentricRow_eq thr d (row.map (|·|)) (absBary w) hlenA
  simp only [absBary] at ha
  rw [← ha]
  exact this


/-! ### a perturbed first weight (`λ₁ = fl (fl (1 - s) - t)` of the Cartesian entry points) -/

/-- powers of a perturbed number: `|â - a| ≤ (R-1) L`, `|a| ≤ L` -/
theorem pow_perturb_gen (R L ah a : F) (hR : 1 ≤ R) (h : |ah - a| ≤ (R - 1) * L) (ha : |a| ≤ L) :
    ∀ k : ℕ, |ah^k - a^k| ≤ (R^k - 1) * L^k ∧ |ah|^k ≤ R^k * L^k ∧ |a|^k ≤ L^k := by
  have hL : 0 ≤ L := le_trans (abs_nonneg _) ha
  have hah : |ah| ≤ R * L := by
    have h1 : |ah| ≤ |ah - a| + |a| := by have := abs_add_le (ah - a) a; simpa using this
    nlinarith
  intro k
  induction k with
  | zero => simp
  | succ k ih =>
    obtain ⟨h1, h2, h3⟩ := ih
    have h2' : |ah|^(k+1) ≤ R^(k+1) * L^(k+1) := by
      rw [← mul_pow]; exact pow_le_pow_left₀ (abs_nonneg _) hah _
    have h3' : |a|^(k+1) ≤ L^(k+1) := pow_le_pow_left₀ (abs_nonneg _) ha _
    refine ⟨?_, h2', h3'⟩
    have t : ah^(k+1) - a^(k+1) = ah^k * (ah - a) + (ah^k - a^k) * a := by ring
    rw [t]
    have tri := abs_add_le (ah^k * (ah - a)) ((ah^k - a^k) * a)
    rw [abs_mul, abs_mul, abs_pow] at tri
    have hRk : (1:F) ≤ R^k := one_le_pow₀ hR
    have g1 : |ah|^k * |ah - a| ≤ (R^k * L^k) * ((R - 1) * L) :=
      mul_le_mul h2 h (abs_nonneg _) (le_trans (pow_nonneg (abs_nonneg _) _) h2)
    have g2 : |ah^k - a^k| * |a| ≤ ((R^k - 1) * L^k) * L :=
      mul_le_mul h1 ha (abs_nonneg _) (mul_nonneg (by linarith) (pow_nonneg hL _))
    calc |ah^k * (ah - a) + (ah^k - a^k) * a|
        ≤ (R^k * L^k) * ((R - 1) * L) + ((R^k - 1) * L^k) * L := by linarith
      _ = (R^(k+1) - 1) * L^(k+1) := by ring

/-- the bivariate Bernstein sum with a perturbed first weight -/
theorem triBern_perturb (R L ah a : F) (hR : 1 ≤ R) (h : |ah - a| ≤ (R - 1) * L) (ha : |a| ≤ L)
    (d : ℕ) (b c : F) (v : Net F) :
    |triBern d ah b c v - triBern d a b c v| ≤ (R^d - 1) * triBern d L |b| |c| (fun j k => |v j k|) ∧
    triBern d |ah| |b| |c| (fun j k => |v j k|) ≤ R^d * triBern d L |b| |c| (fun j k => |v j k|) ∧
    |triBern d a b c v| ≤ triBern d L |b| |c| (fun j k => |v j k|) := by
  have hL : 0 ≤ L := le_trans (abs_nonneg _) ha
  have hmono : ∀ e, e ≤ d → R^e ≤ R^d := fun e he => pow_le_pow_right₀ hR he
  unfold triBern
  refine ⟨?_, ?_, ?_⟩
  · rw [← Finset.sum_sub_distrib, Finset.mul_sum]
    refine le_trans (Finset.abs_sum_le_sum_abs _ _) (Finset.sum_le_sum ?_)
    intro k hk
    rw [← Finset.sum_sub_distrib, Finset.mul_sum]
    refine le_trans (Finset.abs_sum_le_sum_abs _ _) (Finset.sum_le_sum ?_)
    intro j hj
    obtain ⟨hp, _, _⟩ := pow_perturb_gen R L ah a hR h ha (d-k-j)
    have t : ((d.choose k * (d-k).choose j : ℕ) : F) * ah^(d-k-j) * b^j * c^k * v j k
        - ((d.choose k * (d-k).choose j : ℕ) : F) * a^(d-k-j) * b^j * c^k * v j k
        = ((d.choose k * (d-k).choose j : ℕ) : F) * (ah^(d-k-j) - a^(d-k-j)) * b^j * c^k * v j k := by ring
    rw [t, abs_mul, abs_mul, abs_mul, abs_mul, Nat.abs_cast, abs_pow b, abs_pow c]
    have hm : R^(d-k-j) - 1 ≤ R^d - 1 := by have := hmono (d-k-j) (by omega); linarith
    have hA : 0 ≤ L^(d-k-j) := pow_nonneg hL _
    have hp' : |ah^(d-k-j) - a^(d-k-j)| ≤ (R^d - 1) * L^(d-k-j) :=
      le_trans hp (mul_le_mul_of_nonneg_right hm hA)
    have hB : 0 ≤ ((d.choose k * (d-k).choose j : ℕ) : F) * (|b|^j * |c|^k * |v j k|) := by positivity
    calc ((d.choose k * (d-k).choose j : ℕ) : F) * |ah^(d-k-j) - a^(d-k-j)| * |b|^j * |c|^k * |v j k|
        = (((d.choose k * (d-k).choose j : ℕ) : F) * (|b|^j * |c|^k * |v j k|)) * |ah^(d-k-j) - a^(d-k-j)| := by ring
      _ ≤ (((d.choose k * (d-k).choose j : ℕ) : F) * (|b|^j * |c|^k * |v j k|)) * ((R^d - 1) * L^(d-k-j)) :=
          mul_le_mul_of_nonneg_left hp' hB
      _ = (R^d - 1) * (((d.choose k * (d-k).choose j : ℕ) : F) * L^(d-k-j) * |b|^j * |c|^k * |v j k|) := by ring
  · rw [Finset.mul_sum]
    refine Finset.sum_le_sum ?_
    intro k hk
    rw [Finset.mul_sum]
    refine Finset.sum_le_sum ?_
    intro j hj
    obtain ⟨_, hp, _⟩ := pow_perturb_gen R L ah a hR h ha (d-k-j)
    have hA : 0 ≤ L^(d-k-j) := pow_nonneg hL _
    have hp' : |ah|^(d-k-j) ≤ R^d * L^(d-k-j) :=
      le_trans hp (mul_le_mul_of_nonneg_right (hmono _ (by omega)) hA)
    have hB : 0 ≤ ((d.choose k * (d-k).choose j : ℕ) : F) * (|b|^j * |c|^k * |v j k|) := by positivity
    calc ((d.choose k * (d-k).choose j : ℕ) : F) * |ah|^(d-k-j) * |b|^j * |c|^k * |v j k|
        = (((d.choose k * (d-k).choose j : ℕ) : F) * (|b|^j * |c|^k * |v j k|)) * |ah|^(d-k-j) := by ring
      _ ≤ (((d.choose k * (d-k).choose j : ℕ) : F) * (|b|^j * |c|^k * |v j k|)) * (R^d * L^(d-k-j)) :=
          mul_le_mul_of_nonneg_left hp' hB
      _ = R^d * (((d.choose k * (d-k).choose j : ℕ) : F) * L^(d-k-j) * |b|^j * |c|^k * |v j k|) := by ring
  · refine le_trans (Finset.abs_sum_le_sum_abs _ _) (Finset.sum_le_sum ?_)
    intro k hk
    refine le_trans (Finset.abs_sum_le_sum_abs _ _) (Finset.sum_le_sum ?_)
    intro j hj
    obtain ⟨_, _, hp⟩ := pow_perturb_gen R L ah a hR h ha (d-k-j)
    rw [abs_mul, abs_mul, abs_mul, abs_mul, Nat.abs_cast, abs_pow, abs_pow, abs_pow]
    have hB : 0 ≤ ((d.choose k * (d-k).choose j : ℕ) : F) * (|b|^j * |c|^k * |v j k|) := by positivity
    calc ((d.choose k * (d-k).choose j : ℕ) : F) * |a|^(d-k-j) * |b|^j * |c|^k * |v j k|
        = (((d.choose k * (d-k).choose j : ℕ) : F) * (|b|^j * |c|^k * |v j k|)) * |a|^(d-k-j) := by ring
      _ ≤ (((d.choose k * (d-k).choose j : ℕ) : F) * (|b|^j * |c|^k * |v j k|)) * L^(d-k-j) :=
          mul_le_mul_of_nonneg_left hp hB
      _ = ((d.choose k * (d-k).choose j : ℕ) : F) * L^(d-k-j) * |b|^j * |c|^k * |v j k| := by ring

/-- change the reference value: `x̂` near `x'` (scale `X'`), `x'` near `x` (scale `X`) -/
theorem Near.perturb (S : StdModel fl u) {k j : ℕ} {xh : Fl F fl} {x' X' x X : F}
    (h : Near fl u k xh x' X') (h1 : |x' - x| ≤ ((1+u)^j - 1) * X) (h2 : X' ≤ (1+u)^j * X)
    (h3 : |x| ≤ X) : Near fl u (k + j) xh x X := by
  refine ⟨?_, h3⟩
  have t : xh.val - x = (xh.val - x') + (x' - x) := by ring
  rw [t]
  have tri := abs_add_le (xh.val - x') (x' - x)
  have hc := pow_sub_one_nonneg u S.hu k
  have g : ((1+u)^k - 1) * X' ≤ ((1+u)^k - 1) * ((1+u)^j * X) := mul_le_mul_of_nonneg_left h2 hc
  calc _ ≤ ((1+u)^k - 1) * ((1+u)^j * X) + ((1+u)^j - 1) * X := by linarith [h.1]
    _ = ((1+u)^(k+j) - 1) * X := by ring

theorem netOf_map_abs (d : ℕ) (row : List F) : netOf d (row.map (|·|)) = fun j k => |netOf d row j k| := by
  funext j k; simp only [netOf]; exact seq_map_abs row _

/-- the Cartesian weights in the arithmetic: `λ₁ = fl (fl (1 - s) - t)` is a number of the
    arithmetic -/
theorem cartesian_fl (s t : F) :
    cartesian (⟨s⟩ : Fl F fl) ⟨t⟩ = mkBary fl ⟨fl (fl (1 - s) - t), s, t⟩ := rfl

/-- **Cartesian entry point**: from a bound for the barycentric routine at the weights
    `(λ̂₁, s, t)` to a bound against the exact `λ₁ = 1 - s - t`: `2d` more roundings, the scale
    uses `|1 - s| + |t|` in place of `|λ₁|` (the two subtractions may cancel) -/
theorem cartesian_perturb (S : StdModel fl u) (d k : ℕ) (row : List F) (s t : F) {xh : Fl F fl}
    (h : Near fl u k xh (triBern d (fl (fl (1 - s) - t)) s t (netOf d row))
      (triBern d |fl (fl (1 - s) - t)| |s| |t| (netOf d (row.map (|·|))))) :
    Near fl u (k + 2 * d) xh (triBern d (1 - s - t) s t (netOf d row))
      (triBern d (|1 - s| + |t|) |s| |t| (netOf d (row.map (|·|)))) := by
  have hl : Near fl u 2 (((1 : Fl F fl) - ⟨s⟩) - ⟨t⟩) (1 - s - t) (|1 - s| + |t|) :=
    ((Near.one_sub S s).sub' S (Near.exact 0 S t)).cast (by norm_num)
  have hR : (1 : F) ≤ (1+u)^2 := one_le_pow₀ (by linarith [S.hu])
  obtain ⟨p1, p2, p3⟩ := triBern_perturb ((1+u)^2) (|1 - s| + |t|) (fl (fl (1 - s) - t)) (1 - s - t) hR
    hl.1 hl.2 d s t (netOf d row)
  rw [← pow_mul] at p1 p2
  rw [netOf_map_abs] at h ⊢
  exact h.perturb S p1 p2 p3


/-- `evaluate_barycentric` (Python) in `Near` form (Lemmas/TriRounding) -/
theorem py_evalBarycentricRow_near (S : StdModel fl u) (thr d : ℕ) (hbin : TriBinomExact fl d)
    (hrows : ∀ n, 1 ≤ n → n ≤ d → n + 1 ≤ thr → VSBinomExact fl n)
    (row : List F) (h : row.length = numNodes d) (w : Bary F) :
    Near fl u (2*d+4) (Py.evalBarycentricRow thr d (row.map Fl.mk) (mkBary fl w))
      (triBern d w.l1 w.l2 w.l3 (netOf d row))
      (triBern d |w.l1| |w.l2| |w.l3| (netOf d (row.map (|·|)))) := by
  have hlen : row.length = rowStart d (d+1) := by rw [h, numNodes_eq_rowStart]
  have hlenA : (row.map (|·|)).length = rowStart d (d+1) := by rw [List.length_map, hlen]
  have := triLoop_rounding fl u S.hu S.hfl thr d hbin hrows row hlen w d le_rfl
  rw [← Py_evalBarycentricRow_eq thr d row w hlen]
  have ha := Py_evalBarycentricRow_eq thr d (row.map (|·|)) (absBary w) hlenA
  simp only [absBary] at ha
  rw [← ha]
  exact this


/-! ### the shipped Fortran loop (`integer(c_int)` binomial) while the 32-bit binomial is exact -/

theorem intToK_natCast' {K : Type} [Neg K] [NatCast K] (n : ℕ) :
    intToK (K := K) ((n : ℕ) : ℤ) = ((n : ℕ) : K) := by
  unfold intToK
  have : ¬ ((n : ℤ) < 0) := by omega
  rw [if_neg this]; simp

/-- as long as the 32-bit running binomial is the true binomial coefficient (`d ≤ 29`,
    `binomAfter_exact_le_29`) the Fortran loop with the `integer(c_int)` binomial computes, in the
    rounded arithmetic, exactly what the loop with the real binomial computes -/
theorem F90_triLoop_eq_real_fl (thr d : ℕ) (hbin : TriBinomExact fl d)
    (hex : ∀ t, t ≤ d → F90.binomAfter d t = ((d.choose (d - t) : ℕ) : ℤ))
    (row : List (Fl F fl)) (w : Bary (Fl F fl)) : ∀ t, t ≤ d →
    (F90.triLoop thr d row w t).index = (F90.triLoopReal thr d row w t).index ∧
    (F90.triLoop thr d row w t).result = (F90.triLoopReal thr d row w t).result := by
  intro t
  induction t with
  | zero => intro _; exact ⟨rfl, rfl⟩
  | succ t ih =>
    intro ht
    obtain ⟨hi, hr⟩ := ih (by omega)
    have hb1 : (F90.triLoop thr d row w (t+1)).binom = ((d.choose (d - (t+1)) : ℕ) : ℤ) := by
      rw [F90_triLoop_binom' thr d row w (t+1)]; exact hex (t+1) ht
    have hb2 : (F90.triLoopReal thr d row w (t+1)).binom = ((d.choose (d - (t+1)) : ℕ) : Fl F fl) := by
      rw [(F90_triLoopReal_index_binom thr d row w (t+1)).2]
      exact Fl.eq_mk (triLoop_fl_binom fl thr d hbin row w (t+1) ht)
    have e1 : (F90.triLoop thr d row w (t+1)).result
        = w.l3 * (F90.triLoop thr d row w t).result
          + intToK (F90.triLoop thr d row w (t+1)).binom
            * evalBary thr (triSlice row ((F90.triLoop thr d row w t).index - 1 + (d - 1 - t) - d)
                ((F90.triLoop thr d row w t).index - 1)) w.l1 w.l2 := rfl
    have e2 : (F90.triLoopReal thr d row w (t+1)).result
        = w.l3 * (F90.triLoopReal thr d row w t).result
          + (F90.triLoopReal thr d row w (t+1)).binom
            * evalBary thr (triSlice row ((F90.triLoopReal thr d row w t).index - 1 + (d - 1 - t) - d)
                ((F90.triLoopReal thr d row w t).index - 1)) w.l1 w.l2 := rfl
    refine ⟨?_, ?_⟩
    · show (F90.triLoop thr d row w t).index - 1 + (d - 1 - t) - d
        = (F90.triLoopReal thr d row w t).index - 1 + (d - 1 - t) - d
      rw [hi]
    · rw [e1, e2, hb1, hb2, intToK_natCast', hi, hr]

theorem F90_evalBarycentricRow_eq_real_fl (thr d : ℕ) (hbin : TriBinomExact fl d)
    (hex : ∀ t, t ≤ d → F90.binomAfter d t = ((d.choose (d - t) : ℕ) : ℤ))
    (row : List (Fl F fl)) (w : Bary (Fl F fl)) :
    F90.evalBarycentricRow thr d row w = F90.evalBarycentricRowReal thr d row w :=
  (F90_triLoop_eq_real_fl thr d hbin hex row w d le_rfl).2

end TriEvalF90


/-! ## elevation and reduction -/
section ElevReduce
variable {F : Type} [Field F] [LinearOrder F] [IsStrictOrderedRing F] {fl : F → F} {u : F}

/-- **`elevate_nodes` (Python)**: `(j v_{j-1} + fl (N - j) v_j) / N`, four roundings (the weight
    `N - j` is formed in the arithmetic), end points copied -/
theorem elevateRow_near (S : StdModel fl u) (row : List F) :
    NearL fl u 4 (elevateRow (row.map (Fl.mk (fl := fl)))) (elevateRow row) (elevateRow (row.map (|·|))) := by
  unfold elevateRow
  simp only [List.length_map]
  have hv : ∀ i, Near fl u 0 (seq (row.map (Fl.mk (fl := fl))) i) (seq row i) (seq (row.map (|·|)) i) :=
    (NearL.map_mk S 0 row).seq S
  apply All3.map_list
  intro j hj
  have hj' : j ≤ row.length := by have := List.mem_range.mp hj; omega
  by_cases h0 : j = 0
  · simp only [if_pos h0]; exact (hv 0).mono S (by norm_num)
  · by_cases h1 : j = row.length
    · simp only [if_neg h0, if_pos h1]; exact (hv _).mono S (by norm_num)
    · simp only [if_neg h0, if_neg h1]
      have hw : Near fl u 1 (((row.length : ℕ) : Fl F fl) - ((j : ℕ) : Fl F fl)) ((row.length : F) - (j : F))
          ((row.length : F) - (j : F)) := by
        have := Near.of_fl S (xh := ((row.length : ℕ) : Fl F fl) - ((j : ℕ) : Fl F fl))
          (x := (row.length : F) - (j : F)) rfl
        rwa [abs_of_nonneg] at this
        have : (j : F) ≤ (row.length : F) := by exact_mod_cast hj'
        linarith
      have h1' := ((Near.natCast 0 S j).mul S (hv (j - 1))).add' S (hw.mul S (hv j))
      have h2 := h1'.div_exact S ((row.length : ℕ) : F)
      rw [Nat.abs_cast] at h2
      exact h2.cast (by norm_num)

/-- **`elevate_nodes` (Fortran)**: integer weights, three roundings -/
theorem f90_elevateRow_near (S : StdModel fl u) (row : List F) :
    NearL fl u 3 (F90.elevateRow (row.map (Fl.mk (fl := fl)))) (F90.elevateRow row)
      (F90.elevateRow (row.map (|·|))) := by
  unfold F90.elevateRow
  simp only [List.length_map]
  have hv : ∀ i, Near fl u 0 (seq (row.map (Fl.mk (fl := fl))) i) (seq row i) (seq (row.map (|·|)) i) :=
    (NearL.map_mk S 0 row).seq S
  apply All3.map_list
  intro j hj
  by_cases h0 : j = 0
  · simp only [if_pos h0]; exact (hv 0).mono S (by norm_num)
  · by_cases h1 : j = row.length
    · simp only [if_neg h0, if_pos h1]; exact (hv _).mono S (by norm_num)
    · simp only [if_neg h0, if_neg h1]
      have h1' := ((Near.natCast 0 S j).mul S (hv (j - 1))).add S
        ((Near.natCast 0 S (row.length - j)).mul S (hv j))
      have h2 := h1'.div_exact S ((row.length : ℕ) : F)
      rw [Nat.abs_cast] at h2
      exact h2.cast (by norm_num)

/-- a rational literal `a / b` of the model: at most two roundings (`-n` and the quotient) -/
theorem q_near (S : StdModel fl u) (a : ℤ) (b : ℕ) :
    Near fl u 2 (q (K := Fl F fl) a b) (q (K := F) a b) |q (K := F) a b| := by
  unfold q
  split
  · have h := ((Near.natCast 0 S a.natAbs).neg S).div_exact S ((b : ℕ) : F)
    have e : |(-((a.natAbs : ℕ) : F)) / ((b : ℕ) : F)| = ((a.natAbs : ℕ) : F) / |((b : ℕ) : F)| := by
      rw [abs_div, abs_neg, Nat.abs_cast]
    rw [e]
    exact h.cast (by norm_num)
  · exact (Near.of_fl S (xh := ((a.natAbs : ℕ) : Fl F fl) / ((b : ℕ) : Fl F fl))
      (x := ((a.natAbs : ℕ) : F) / ((b : ℕ) : F)) rfl).mono S (by norm_num)

/-- the integer data of the reduction tables -/
def reductionData : ℕ → Option (List (List (ℤ × ℕ)))
  | 2 => some [[(1, 2)], [(1, 2)]]
  | 3 => some [[(5, 6), (-1, 6)], [(2, 6), (2, 6)], [(-1, 6), (5, 6)]]
  | 4 => some [[(19, 20), (-5, 20), (1, 20)], [(3, 20), (15, 20), (-3, 20)],
               [(-3, 20), (15, 20), (3, 20)], [(1, 20), (-5, 20), (19, 20)]]
  | 5 => some [[(207, 210), (-53, 210), (17, 210), (-3, 210)],
               [(12, 210), (212, 210), (-68, 210), (12, 210)],
               [(-18, 210), (102, 210), (102, 210), (-18, 210)],
               [(12, 210), (-68, 210), (212, 210), (12, 210)],
               [(-3, 210), (17, 210), (-53, 210), (207, 210)]]
  | _ => none

theorem reductionMat_eq_data {K : Type} [Add K] [Sub K] [Mul K] [Div K] [Neg K] [OfNat K 0] [OfNat K 1]
    [NatCast K] (n : ℕ) :
    reductionMat (K := K) n = (reductionData n).map (List.map (List.map (fun p => q p.1 p.2))) := by
  match n with
  | 0 | 1 => rfl
  | 2 | 3 | 4 | 5 => rfl
  | _ + 6 => rfl

/-- the reduction matrix formed in the arithmetic against the exact rational matrix -/
theorem reductionMat_near (S : StdModel fl u) (n : ℕ) (r : List (List F))
    (hr : reductionMat (K := F) n = some r) :
    ∃ rh, reductionMat (K := Fl F fl) n = some rh ∧ NearM fl u 2 rh r (r.map (List.map (|·|))) := by
  rw [reductionMat_eq_data] at hr ⊢
  cases hd : reductionData n with
  | none => rw [hd] at hr; simp at hr
  | some data =>
    rw [hd] at hr
    simp only [Option.map_some, Option.some.injEq] at hr
    subst hr
    refine ⟨_, rfl, ?_⟩
    rw [List.map_map]
    apply All3.map_list
    intro rowd _
    simp only [Function.comp, List.map_map]
    apply All3.map_list
    intro p _
    exact q_near S p.1 p.2

/-- **`reduce_pseudo_inverse`** in rounded arithmetic: every output is a dot product of `N` terms
    with weights that carry two roundings: `N + 3` -/
theorem reducePinv_near (S : StdModel fl u) (nodes : List (List F)) (r : List (List F))
    (hr : reductionMat (K := F) (ncols nodes) = some r) :
    ∃ out, reducePinv (nodes.map (List.map (Fl.mk (fl := fl)))) = .ok out ∧
      All3 (fun oh o O => ∀ k, o.length ≤ k → NearL fl u (k + 3) oh (rowMul o r) (rowMul O (r.map (List.map (|·|)))))
        out nodes (nodes.map (List.map (|·|))) := by
  obtain ⟨rh, e, hM⟩ := reductionMat_near (fl := fl) S (ncols nodes) r hr
  have hn : ncols (nodes.map (List.map (Fl.mk (fl := fl)))) = ncols nodes := by
    cases nodes with
    | nil => rfl
    | cons a t => simp [ncols]
  refine ⟨matMul (nodes.map (List.map Fl.mk)) rh, ?_, ?_⟩
  · unfold reducePinv; rw [hn, e]
  · unfold matMul
    rw [List.map_map]
    have := All3.map_list (R := fun oh o O => ∀ k, o.length ≤ k →
        NearL fl u (k + 3) oh (rowMul o r) (rowMul O (r.map (List.map (|·|)))))
      ((fun rr => rowMul rr rh) ∘ List.map (Fl.mk (fl := fl))) id (List.map (|·|)) nodes
      (fun row _ k hk => by
        have hk' : row.length ≤ k := hk
        exact (NearL.rowMul S (NearL.map_mk S 0 row) hM).mono S (by omega))
    simpa using this

end ElevReduce


/-! ## a concrete inexact arithmetic on `ℚ` satisfying every hypothesis (for non-vacuity) -/

/-- dyadic numbers with denominator up to `2^64` are kept, every other number is multiplied by
    `1 + 2⁻¹⁰` -/
def flDy (x : ℚ) : ℚ := if x.den ∣ 2^64 then x else x * (1 + 1/1024)

/-- it satisfies the standard model with `u = 2⁻¹⁰` -/
theorem flDy_std : StdModel flDy (1/1024) := by
  refine ⟨by norm_num, ?_⟩
  intro x
  unfold flDy
  split
  · simp
  · have : x * (1 + 1/1024) - x = 1/1024 * x := by ring
    rw [this, abs_mul]; norm_num

/-- the dyadic weights are exact -/
theorem flDy_dyadic (n : ℕ) (hn : n ≤ 64) : DyadicExact flDy n := by
  intro k m hk _
  unfold flDy
  rw [if_pos]
  have e : ((m : ℚ) / 2^k) = Rat.divInt (m : ℤ) ((2^k : ℕ) : ℤ) := by
    rw [Rat.divInt_eq_div]; push_cast; rfl
  rw [e]
  have h1 := Rat.den_dvd (m : ℤ) ((2^k : ℕ) : ℤ)
  have h2 : (Rat.divInt (m : ℤ) ((2^k : ℕ) : ℤ)).den ∣ 2^k := Int.natCast_dvd_natCast.mp h1
  exact dvd_trans h2 (Nat.pow_dvd_pow 2 (by omega))

/-- it is inexact: `fl (1/3) ≠ 1/3` -/
theorem flDy_inexact : flDy (1/3) ≠ 1/3 := by
  have hden : (1 / 3 : ℚ).den = 3 := by
    have : (1 / 3 : ℚ) = Rat.divInt 1 3 := by rw [Rat.divInt_eq_div]; norm_num
    rw [this]; rfl
  unfold flDy
  rw [if_neg (by rw [hden]; decide)]
  norm_num

end BezierVerif
