import BezierVerif.Lemmas.RoundingDeriv
import BezierVerif.Lemmas.Solve2x2
import BezierVerif.Lemmas.NewtonGate
import BezierVerif.Model.Newton
import BezierVerif.Model.Solve2x2

/-!
# Lemmas/RoundingNewton — one curve–curve Newton step (`NewtonSimpleRoot` + `solve2x2`) in rounded arithmetic

Helpers for `Props/C02Rounding.lean`, on top of `Near fl u k x̂ x X` (`Lemmas/RoundingMore.lean`) and `Near.div`
(`Lemmas/RoundingDeriv.lean`).

* `FlCmp`: comparisons on `Fl F fl` are the comparisons of the values (exact in floating point), as scoped instances;
* `elimStep`, `solve2x2_eq_elim`: the two pivot branches of `solve2x2` are one elimination routine applied to the rows
  in the two orders; `ElimData` (the exact operands, their scales, the two lower bounds) with the exact intermediate
  quantities `ratio`, `den`, `num`, `y`, `x` and their scales `ratioS`, `denS`, `numS`, `yS`, `xS`;
* `elimStep_near`: the elimination in rounded arithmetic on operands known with `k` roundings — `2k+4` roundings for `y`,
  `3k+7` for `x`, pivot and denominator bounded away from zero by more than their own error;
* `ElimData.solves`, `ElimData.unique`: `(x, y)` is the solution of the linear system;
* `derivNet_near`, `evalRow_derivNet_near`, `evalRow_near`, `newtonSimple_fl_some`: the six numbers handed to `solve2x2`
  by `NewtonSimpleRoot` evaluated in rounded arithmetic;
* `Sys2`, `Sys2.pivotC`, `Sys2.pivotA`, `simpleSys`: the exact system of `NewtonSimpleRoot` with its scales, and the
  operands of the two pivot branches;
* `fl_ge`, `fl_le`, `sumSq_fl_ge`, `sumSq_fl_le`: one-sided bounds for rounded sums of squares (the exit test).
-/

set_option linter.unusedSectionVars false
set_option linter.unusedVariables false

namespace BezierVerif.RNewton

open Model BezierVerif

/-! ## comparisons on `Fl` -/

namespace FlCmp
variable {F : Type} [Field F] [LinearOrder F] {fl : F → F}

scoped instance : LT (Fl F fl) := ⟨fun x y => x.val < y.val⟩
scoped instance : LE (Fl F fl) := ⟨fun x y => x.val ≤ y.val⟩
scoped instance : DecidableLT (Fl F fl) := fun x y => inferInstanceAs (Decidable (x.val < y.val))
scoped instance : DecidableLE (Fl F fl) := fun x y => inferInstanceAs (Decidable (x.val ≤ y.val))
scoped instance : DecidableEq (Fl F fl) := fun x y =>
  decidable_of_iff (x.val = y.val) ⟨fun h => by cases x; cases y; simp_all, fun h => h ▸ rfl⟩

theorem lt_iff (x y : Fl F fl) : x < y ↔ x.val < y.val := Iff.rfl
theorem eq_zero_iff (x : Fl F fl) : x = 0 ↔ x.val = 0 :=
  ⟨fun h => h ▸ rfl, fun h => by cases x; simp_all [show (0 : Fl F fl) = ⟨0⟩ from rfl]⟩

end FlCmp

/-! ## the elimination routine behind both branches of `solve2x2` -/

section Elim
variable {K : Type} [Sub K] [Mul K] [Div K] [Neg K] [OfNat K 0] [LT K] [DecidableLT K] [DecidableEq K]

/-- pivot row `(P, Bp | Ep)`, other row `(Q, Bq | Eq)` -/
def elimStep (P Q Bp Bq Ep Eq : K) : Option (K × K) :=
  let ratio := Q / P
  let denominator := Bq - ratio * Bp
  if denominator = 0 then none
  else
    let y := (Eq - ratio * Ep) / denominator
    let x := (Ep - Bp * y) / P
    some (x, y)

theorem solve2x2_eq_elim (A B C D E F : K) :
    solve2x2 A B C D E F =
      if absK A < absK C then elimStep C A D B F E
      else if A = 0 then none else elimStep A C B D E F := rfl

end Elim

/-- exact operands of the elimination, their scales, and the lower bounds of pivot and denominator -/
structure ElimData (F : Type) where
  P : F
  Q : F
  Bp : F
  Bq : F
  Ep : F
  Eq : F
  Pb : F
  Qb : F
  Bpb : F
  Bqb : F
  Epb : F
  Eqb : F
  mP : F
  md : F

namespace ElimData
variable {F : Type} [Field F] [LinearOrder F] [IsStrictOrderedRing F] (d : ElimData F)

def ratio : F := d.Q / d.P
def den : F := d.Bq - d.ratio * d.Bp
def num : F := d.Eq - d.ratio * d.Ep
def y : F := d.num / d.den
def x : F := (d.Ep - d.Bp * d.y) / d.P
/-- scale of the computed `ratio` (`Near.div`) -/
def ratioS : F := (d.Qb + |d.Q| * d.Pb / |d.P|) / d.mP
def denS : F := d.Bqb + d.ratioS * d.Bpb
def numS : F := d.Eqb + d.ratioS * d.Epb
def yS : F := (d.numS + |d.num| * d.denS / |d.den|) / d.md
def xS : F := ((d.Epb + d.Bpb * d.yS) + |d.Ep - d.Bp * d.y| * d.Pb / |d.P|) / d.mP

/-- the exact routine returns `(x, y)` -/
theorem elim_exact (h : d.den ≠ 0) : elimStep d.P d.Q d.Bp d.Bq d.Ep d.Eq = some (d.x, d.y) := by
  unfold elimStep
  simp only []
  rw [if_neg (show d.Bq - d.Q / d.P * d.Bp ≠ 0 from h)]
  rfl

/-- `(x, y)` solves the two equations -/
theorem solves (hP : d.P ≠ 0) (hd : d.den ≠ 0) :
    d.P * d.x + d.Bp * d.y = d.Ep ∧ d.Q * d.x + d.Bq * d.y = d.Eq := by
  have hden : d.P * d.Bq - d.Q * d.Bp ≠ 0 := by
    intro h0
    apply hd
    unfold den ratio
    field_simp
    linarith
  have e : d.den = (d.P * d.Bq - d.Q * d.Bp) / d.P := by unfold den ratio; field_simp
  unfold x y num
  rw [e]
  unfold ratio
  constructor <;> field_simp <;> ring

/-- … and is the only solution -/
theorem unique (hP : d.P ≠ 0) (hd : d.den ≠ 0) (x' y' : F)
    (h1 : d.P * x' + d.Bp * y' = d.Ep) (h2 : d.Q * x' + d.Bq * y' = d.Eq) : x' = d.x ∧ y' = d.y := by
  obtain ⟨e1, e2⟩ := d.solves hP hd
  have hdet : d.P * d.Bq - d.Q * d.Bp ≠ 0 := by
    intro h0
    apply hd
    unfold den ratio
    field_simp
    linarith
  have hx : (d.P * d.Bq - d.Q * d.Bp) * (x' - d.x) = 0 := by
    have : (d.P * d.Bq - d.Q * d.Bp) * (x' - d.x)
        = d.Bq * ((d.P * x' + d.Bp * y') - (d.P * d.x + d.Bp * d.y))
          - d.Bp * ((d.Q * x' + d.Bq * y') - (d.Q * d.x + d.Bq * d.y)) := by ring
    rw [this, h1, h2, e1, e2]; ring
  have hy : (d.P * d.Bq - d.Q * d.Bp) * (y' - d.y) = 0 := by
    have : (d.P * d.Bq - d.Q * d.Bp) * (y' - d.y)
        = d.P * ((d.Q * x' + d.Bq * y') - (d.Q * d.x + d.Bq * d.y))
          - d.Q * ((d.P * x' + d.Bp * y') - (d.P * d.x + d.Bp * d.y)) := by ring
    rw [this, h1, h2, e1, e2]; ring
  rcases mul_eq_zero.mp hx with h | h
  · exact absurd h hdet
  rcases mul_eq_zero.mp hy with h' | h'
  · exact absurd h' hdet
  exact ⟨sub_eq_zero.mp h, sub_eq_zero.mp h'⟩

end ElimData

/-! ## the elimination in rounded arithmetic -/

section ElimNear
variable {F : Type} [Field F] [LinearOrder F] [IsStrictOrderedRing F] {fl : F → F} {u : F}

open FlCmp

/-- a computed number whose exact value is bounded away from zero by more than its error is not zero -/
theorem Near.val_ne_zero (S : StdModel fl u) {k : ℕ} {yh : Fl F fl} {y Y m : F} (hy : Near fl u k yh y Y)
    (hm : 0 < m) (hmy : m ≤ |y| - ((1+u)^k - 1) * Y) : yh.val ≠ 0 ∧ y ≠ 0 := by
  have hY := hy.scale_nonneg
  have hcY : 0 ≤ ((1+u)^k - 1) * Y := mul_nonneg (pow_sub_one_nonneg u S.hu k) hY
  have hypos : 0 < |y| := by linarith
  have t : |y| ≤ |yh.val| + |yh.val - y| := by
    have := abs_sub yh.val (yh.val - y)
    rwa [sub_sub_cancel] at this
  have := hy.1
  have hyh : 0 < |yh.val| := by linarith
  exact ⟨abs_pos.mp hyh, abs_pos.mp hypos⟩

/-- **the elimination in rounded arithmetic**: operands known with `k` roundings, pivot `P` and denominator
    `Bq − (Q/P)·Bp` bounded away from zero by more than their own rounding error.  The routine does not report
    `singular`; `y` carries `2k+4` and `x` `3k+7` roundings relative to the scales `yS`, `xS`. -/
theorem elimStep_near (S : StdModel fl u) (d : ElimData F) {k : ℕ} {Ph Qh Bph Bqh Eph Eqh : Fl F fl}
    (hP : Near fl u k Ph d.P d.Pb) (hQ : Near fl u k Qh d.Q d.Qb)
    (hBp : Near fl u k Bph d.Bp d.Bpb) (hBq : Near fl u k Bqh d.Bq d.Bqb)
    (hEp : Near fl u k Eph d.Ep d.Epb) (hEq : Near fl u k Eqh d.Eq d.Eqb)
    (hmP : 0 < d.mP) (hP' : d.mP ≤ |d.P| - ((1+u)^k - 1) * d.Pb)
    (hmd : 0 < d.md) (hd' : d.md ≤ |d.den| - ((1+u)^(2*k+3) - 1) * d.denS) :
    ∃ xh yh, elimStep Ph Qh Bph Bqh Eph Eqh = some (xh, yh) ∧
      Near fl u (3*k+7) xh d.x d.xS ∧ Near fl u (2*k+4) yh d.y d.yS := by
  have hr : Near fl u (k+1) (Qh / Ph) d.ratio d.ratioS :=
    (Near.div S hQ hP hmP hP').cast (by omega)
  have hden : Near fl u (2*k+3) (Bqh - Qh / Ph * Bph) d.den d.denS :=
    (hBq.sub' S (hr.mul S hBp)).cast (by omega)
  have hnum : Near fl u (2*k+3) (Eqh - Qh / Ph * Eph) d.num d.numS :=
    (hEq.sub' S (hr.mul S hEp)).cast (by omega)
  have hne := (Near.val_ne_zero S hden hmd hd').1
  have hy : Near fl u (2*k+4) ((Eqh - Qh / Ph * Eph) / (Bqh - Qh / Ph * Bph)) d.y d.yS :=
    (Near.div S hnum hden hmd hd').cast (by omega)
  have hxn : Near fl u (3*k+6) (Eph - Bph * ((Eqh - Qh / Ph * Eph) / (Bqh - Qh / Ph * Bph)))
      (d.Ep - d.Bp * d.y) (d.Epb + d.Bpb * d.yS) :=
    (hEp.sub' S (hBp.mul S hy)).cast (by omega)
  have hx : Near fl u (3*k+7) ((Eph - Bph * ((Eqh - Qh / Ph * Eph) / (Bqh - Qh / Ph * Bph))) / Ph) d.x d.xS :=
    (Near.div S hxn hP hmP hP').cast (by omega)
  refine ⟨_, _, ?_, hx, hy⟩
  unfold elimStep
  simp only []
  rw [if_neg (fun h => hne ((eq_zero_iff _).mp h))]

end ElimNear

/-! ## the system of `NewtonSimpleRoot` in rounded arithmetic -/

section Simple
variable {F : Type} [Field F] [LinearOrder F] [IsStrictOrderedRing F] {fl : F → F} {u : F}

/-- scale of the derivative net: `(N−1)·|Δ_j|` -/
def absDerivNet (row : List F) : List F :=
  ((diffs row).map (|·|)).map (fun x => (((row.length - 1 : ℕ) : F)) * x)

/-- `derivNet` of numbers of the arithmetic: one rounding per difference, one for the factor -/
theorem derivNet_near (S : StdModel fl u) (row : List F) :
    NearL fl u 2 (derivNet (row.map (Fl.mk (fl := fl)))) (derivNet row) (absDerivNet row) := by
  unfold derivNet absDerivNet
  rw [List.length_map]
  have D := NearL.diffs_exact (fl := fl) S row
  refine All3.map ?_ D
  intro a b c h
  exact ((Near.natCast 0 S (row.length - 1)).mul S h).cast (by omega)

theorem derivNet_length (row : List F) : (derivNet row).length = row.length - 1 := by
  unfold derivNet
  rw [List.length_map, Deriv.diffs_length]

/-- the exact model on absolute values: the scale of an evaluated row -/
def absEvalRow (thr : ℕ) (row : List F) (s : F) : F := evalBary thr (row.map (|·|)) |1 - s| |s|

/-- `evalRow` on numbers of the arithmetic (two or more nodes) -/
theorem evalRow_near (S : StdModel fl u) (thr : ℕ) (hbin : ∀ n, n + 1 ≤ thr → VSBinomExact fl n)
    (row : List F) (h : 2 ≤ row.length) (s : F) :
    Near fl u (3 * (row.length - 1) + 2) (evalRow thr (row.map Fl.mk) (⟨s⟩ : Fl F fl)) (evalRow thr row s)
      (absEvalRow thr row s) :=
  evalBary_exact_data_near S thr row h (fun hl => hbin _ (by omega)) s

/-- `evalRow` of the derivative net (`NewtonSimpleRoot` evaluates `(N−1)·Δ` as a Bézier net of one degree less) -/
theorem evalRow_derivNet_near (S : StdModel fl u) (thr : ℕ) (hbin : ∀ n, n + 1 ≤ thr → VSBinomExact fl n)
    (row : List F) (h : 2 ≤ row.length) (s : F) :
    Near fl u (3 * (row.length - 1) + 2) (evalRow thr (derivNet (row.map Fl.mk)) (⟨s⟩ : Fl F fl))
      (evalRow thr (derivNet row) s) (evalBary thr (absDerivNet row) |1 - s| |s|) := by
  have hl := derivNet_length row
  have := evalBary_near_any S thr (derivNet_near (fl := fl) S row)
    (fun h2 h3 => hbin _ (by omega)) s
  unfold evalRow
  exact this.cast (by rw [hl]; omega)

end Simple

/-! ## the system of `NewtonSimpleRoot` and its scales -/

section Sys
variable {F : Type} [Field F] [LinearOrder F] [IsStrictOrderedRing F]


/-- a 2×2 system `[[a, b], [c, d]]·(x, y) = (e, f)` with a scale for each number -/
structure Sys2 (F : Type) where
  a : F
  b : F
  c : F
  d : F
  e : F
  f : F
  ab : F
  bb : F
  cb : F
  db : F
  eb : F
  fb : F

/-- branch `|a| < |c|` of `solve2x2`: pivot `c`, rows exchanged -/
def Sys2.pivotC (σ : Sys2 F) (mP md : F) : ElimData F :=
  { P := σ.c, Q := σ.a, Bp := σ.d, Bq := σ.b, Ep := σ.f, Eq := σ.e,
    Pb := σ.cb, Qb := σ.ab, Bpb := σ.db, Bqb := σ.bb, Epb := σ.fb, Eqb := σ.eb, mP := mP, md := md }

/-- the other branch: pivot `a` -/
def Sys2.pivotA (σ : Sys2 F) (mP md : F) : ElimData F :=
  { P := σ.a, Q := σ.c, Bp := σ.b, Bq := σ.d, Ep := σ.e, Eq := σ.f,
    Pb := σ.ab, Qb := σ.cb, Bpb := σ.bb, Bqb := σ.db, Epb := σ.eb, Eqb := σ.fb, mP := mP, md := md }

/-- the system of `NewtonSimpleRoot` at `(s, t)` in exact arithmetic (`Gate.newtonSimple_some`) and the scales of its
    entries: the exact evaluation on the absolute values of the data -/
def simpleSys (thr : ℕ) (x1 y1 x2 y2 : List F) (s t : F) : Sys2 F :=
  { a := hodographRow thr x1 s, b := -(hodographRow thr x2 t),
    c := hodographRow thr y1 s, d := -(hodographRow thr y2 t),
    e := evalBary thr x1 (1 - s) s - evalBary thr x2 (1 - t) t,
    f := evalBary thr y1 (1 - s) s - evalBary thr y2 (1 - t) t,
    ab := evalBary thr (absDerivNet x1) |1 - s| |s|, bb := evalBary thr (absDerivNet x2) |1 - t| |t|,
    cb := evalBary thr (absDerivNet y1) |1 - s| |s|, db := evalBary thr (absDerivNet y2) |1 - t| |t|,
    eb := absEvalRow thr x1 s + absEvalRow thr x2 t, fb := absEvalRow thr y1 s + absEvalRow thr y2 t }

end Sys

/-! ## one-sided bounds for the exit test -/

section Exit
variable {F : Type} [Field F] [LinearOrder F] [IsStrictOrderedRing F] {fl : F → F} {u : F}

theorem fl_ge (S : StdModel fl u) (x : F) (hx : 0 ≤ x) : (1 - u) * x ≤ fl x := by
  have := S.hfl x
  rw [abs_of_nonneg hx, abs_le] at this
  linarith [this.1]

theorem fl_le (S : StdModel fl u) (x : F) (hx : 0 ≤ x) : fl x ≤ (1 + u) * x := by
  have := S.hfl x
  rw [abs_of_nonneg hx, abs_le] at this
  linarith [this.2]

theorem fl_nonneg (S : StdModel fl u) (hu1 : u ≤ 1) (x : F) (hx : 0 ≤ x) : 0 ≤ fl x :=
  le_trans (mul_nonneg (by linarith) hx) (fl_ge S x hx)

/-- `a*a + b*b` in rounded arithmetic from below -/
theorem sumSq_fl_ge (S : StdModel fl u) (hu1 : u ≤ 1) (a b : Fl F fl) :
    (1 - u)^2 * (a.val * a.val + b.val * b.val) ≤ (a * a + b * b).val := by
  have ha := mul_self_nonneg a.val
  have hb := mul_self_nonneg b.val
  have h1 := fl_ge S _ ha
  have h2 := fl_ge S _ hb
  have h3 := fl_ge S (fl (a.val * a.val) + fl (b.val * b.val))
    (add_nonneg (fl_nonneg S hu1 _ ha) (fl_nonneg S hu1 _ hb))
  have hu0 : 0 ≤ 1 - u := by linarith
  show _ ≤ fl (fl (a.val * a.val) + fl (b.val * b.val))
  have : (1 - u) * ((1 - u) * (a.val * a.val + b.val * b.val))
      ≤ (1 - u) * (fl (a.val * a.val) + fl (b.val * b.val)) :=
    mul_le_mul_of_nonneg_left (by linarith) hu0
  calc (1 - u)^2 * (a.val * a.val + b.val * b.val)
      = (1 - u) * ((1 - u) * (a.val * a.val + b.val * b.val)) := by ring
    _ ≤ _ := le_trans this h3

/-- `a*a + b*b` in rounded arithmetic from above -/
theorem sumSq_fl_le (S : StdModel fl u) (a b : Fl F fl) :
    (a * a + b * b).val ≤ (1 + u)^2 * (a.val * a.val + b.val * b.val) := by
  have hu := S.hu
  have ha := mul_self_nonneg a.val
  have hb := mul_self_nonneg b.val
  have h1 := fl_le S _ ha
  have h2 := fl_le S _ hb
  have e := S.hfl (fl (a.val * a.val) + fl (b.val * b.val))
  have h3 : fl (fl (a.val * a.val) + fl (b.val * b.val))
      ≤ (1 + u) * |fl (a.val * a.val) + fl (b.val * b.val)| := by
    rw [abs_le] at e
    have := le_abs_self (fl (a.val * a.val) + fl (b.val * b.val))
    nlinarith [e.2]
  have h4 : |fl (a.val * a.val) + fl (b.val * b.val)| ≤ (1 + u) * (a.val * a.val + b.val * b.val) := by
    rw [abs_le]
    have l1 := fl_ge S _ ha
    have l2 := fl_ge S _ hb
    constructor
    · nlinarith
    · linarith
  show fl (fl (a.val * a.val) + fl (b.val * b.val)) ≤ _
  have : (1 + u) * |fl (a.val * a.val) + fl (b.val * b.val)|
      ≤ (1 + u) * ((1 + u) * (a.val * a.val + b.val * b.val)) :=
    mul_le_mul_of_nonneg_left h4 (by linarith)
  calc _ ≤ (1 + u) * ((1 + u) * (a.val * a.val + b.val * b.val)) := le_trans h3 this
    _ = _ := by ring

end Exit

end BezierVerif.RNewton
