import BezierVerif.Lemmas.Rounding
import BezierVerif.Tables.C01

/-!
# Lemmas/RoundingTables — discharging `VSBinomExact` from the kernel-checked table

`Tables/C01.lean` decides, for every degree below the extracted switch, that the products
`C(n,i)·(n-i)` and the quotients `C(n,i+1)` of the running binomial have an odd part `< 2^53`
(`rep53`).  A rounding function that is the identity on such integers (binary64: every integer
`m·2^e`, `m < 2^53`, below the overflow threshold, is a floating-point number) therefore satisfies
`VSBinomExact` for all those degrees, and the binomial hypothesis of `bary_rounding_bern` /
`bary_rounding_one_less` disappears for the library's actual switch.
-/

set_option linter.unusedSectionVars false

namespace BezierVerif

open Finset Model BezierVerif.Generated

theorem Tables.C01.choose_eq : ∀ n k : ℕ, Tables.C01.choose n k = Nat.choose n k
  | _, 0 => by simp [Tables.C01.choose]
  | 0, k+1 => by simp [Tables.C01.choose]
  | n+1, k+1 => by
    simp [Tables.C01.choose, Tables.C01.choose_eq n k, Tables.C01.choose_eq n (k+1),
      Nat.choose_succ_succ]

section
variable {F : Type} [Field F] [LinearOrder F] [IsStrictOrderedRing F]

/-- `fl` is the identity on the integers with odd part `< 2^53` (as binary64 rounding is) -/
def Rep53Exact (fl : F → F) : Prop := ∀ x : ℕ, Tables.C01.rep53 x = true → fl (x : F) = (x : F)

/-- non-vacuity: exact arithmetic satisfies it -/
example : Rep53Exact (id : F → F) := fun _ _ => rfl

theorem vsBinomExact_of_table (fl : F → F) (hrep : Rep53Exact fl) (n : ℕ)
    (h : Tables.C01.vsBinomialsExact n = true) : VSBinomExact fl n := by
  intro i hi
  unfold Tables.C01.vsBinomialsExact at h
  rw [List.all_eq_true] at h
  have := h i (List.mem_range.mpr hi)
  rw [Bool.and_eq_true, Tables.C01.choose_eq, Tables.C01.choose_eq] at this
  refine ⟨?_, hrep _ this.2⟩
  rw [← Nat.cast_mul]; exact hrep _ this.1

theorem vsBinomExact_below (fl : F → F) (hrep : Rep53Exact fl) (thr : ℕ)
    (hthr : (List.range thr).all Tables.C01.vsBinomialsExact = true) (n : ℕ) (hn : n < thr) :
    VSBinomExact fl n := by
  rw [List.all_eq_true] at hthr
  exact vsBinomExact_of_table fl hrep n (hthr n (List.mem_range.mpr hn))

end

namespace C01
variable {F : Type} [Field F] [LinearOrder F] [IsStrictOrderedRing F]

/-- C01 rounding bound for the Python implementation's extracted switch: standard model plus
    "integers with odd part `< 2^53` are exact"; no hypothesis on the binomials is left -/
theorem bary_rounding_py (fl : F → F) (u : F) (hu : 0 ≤ u) (hfl : ∀ x, |fl x - x| ≤ u * |x|)
    (hrep : Rep53Exact fl) (row : List F) (h : 2 ≤ row.length) (s : F) :
    |(evalBary py_curve_vs_threshold (row.map Fl.mk) (1 - (⟨s⟩ : Fl F fl)) ⟨s⟩).val
        - bern (row.length - 1) (1 - s) s (seq row)|
      ≤ ((1+u)^(3*(row.length - 1)+2) - 1)
          * ∑ j ∈ range (row.length - 1 + 1),
              |((row.length - 1).choose j : F) * (1 - s)^(row.length - 1 - j) * s^j * seq row j| := by
  rw [← bern_abs]
  exact BezierVerif.bary_rounding_one_less fl u hu hfl _ row h
    (fun hle => vsBinomExact_below fl hrep _ Tables.C01.binomials_exact_py _ (by omega)) s

/-- the same for the Fortran implementation's extracted switch -/
theorem bary_rounding_f90 (fl : F → F) (u : F) (hu : 0 ≤ u) (hfl : ∀ x, |fl x - x| ≤ u * |x|)
    (hrep : Rep53Exact fl) (row : List F) (h : 2 ≤ row.length) (s : F) :
    |(evalBary f90_curve_vs_threshold (row.map Fl.mk) (1 - (⟨s⟩ : Fl F fl)) ⟨s⟩).val
        - bern (row.length - 1) (1 - s) s (seq row)|
      ≤ ((1+u)^(3*(row.length - 1)+2) - 1)
          * ∑ j ∈ range (row.length - 1 + 1),
              |((row.length - 1).choose j : F) * (1 - s)^(row.length - 1 - j) * s^j * seq row j| := by
  rw [← bern_abs]
  exact BezierVerif.bary_rounding_one_less fl u hu hfl _ row h
    (fun hle => vsBinomExact_below fl hrep _ Tables.C01.binomials_exact_f90 _ (by omega)) s

end C01

end BezierVerif
