import BezierVerif.Lemmas.RoundingMore
import BezierVerif.Lemmas.TriDeriv
import BezierVerif.Lemmas.RoundingTriPy

/-!
# Lemmas/RoundingTriElev — `Triangle.elevate` (`Model.Tri.elevateRow`) in rounded arithmetic

The elevation loops accumulate `acc[p] += c * x` through three running parents `p1, p2, p3`.  Each
of the three parents only moves forward, so every position of the accumulator is hit at most once
per stream, i.e. at most three times in total.  A uniform error exponent on the whole accumulator
would grow with the number of loop iterations; instead the exponent is tracked *per position*:

* `elevCnt p1 p2 p3 q = [q < p1] + [q < p2] + [q < p3]` bounds the number of additions that
  position `q` has received when the parents stand at `p1, p2, p3`;
* `AddRel R T` is an abstract "logical relation" between three runs of the loops (in three
  unrelated arithmetics `K1 K2 K3`): `R e` relates accumulator entries that received at most `e`
  additions, `T` relates the added terms; `elevOuter_rel` transports it through both loops without
  any side condition on the positions (an out-of-range `triAddAt` is the identity in all runs).

Instances: `R e = Near (e+1)`, `T = Near 1` in the plain standard model (the first addition onto
the initial `0` is rounded: `fl (0 + y)`), giving `3 + 1` roundings before the division and `5`
after it; `R e = Near e` (and "all three entries are `0`" when `e = 0`), `T = Near 1` on numbers
of the arithmetic, when `fl` is idempotent (`fl (0 + fl z) = fl z`), giving `4`.
-/

set_option linter.unusedSectionVars false
set_option linter.unusedVariables false

namespace BezierVerif.TriElevR

open Finset Model BezierVerif BezierVerif.Tri BezierVerif.TriD

/-! ## list facts without arithmetic laws -/
section Raw
variable {K : Type} [Add K] [Sub K] [Mul K] [Div K] [Neg K] [OfNat K 0] [OfNat K 1] [NatCast K]

/-- an out-of-range `l[p] += x` changes nothing -/
theorem triAddAt_of_length_le : ∀ (l : List K) (p : ℕ) (x : K), l.length ≤ p → triAddAt l p x = l
  | [], _, _, _ => rfl
  | _ :: _, 0, _, h => by simp at h
  | y :: rest, p+1, x, h => by
    simp only [triAddAt]
    rw [triAddAt_of_length_le rest p x (by simpa using h)]

theorem seq_replicate_zero_raw (n q : ℕ) : seq (List.replicate n (0 : K)) q = 0 := by
  unfold seq
  rw [List.getD_eq_getElem?_getD, List.getElem?_replicate]
  split <;> rfl

end Raw

/-- three lists of the same length whose entries are related position by position -/
theorem all3_of_getD {α β γ : Type} {R : α → β → γ → Prop} (a0 : α) (b0 : β) (c0 : γ) :
    ∀ (lb : List β) (la : List α) (lc : List γ), la.length = lb.length → lc.length = lb.length →
    (∀ q, q < lb.length → R (la.getD q a0) (lb.getD q b0) (lc.getD q c0)) → All3 R la lb lc
  | [], la, lc, ha, hc, _ => by
    have ea : la = [] := List.length_eq_zero_iff.mp (by simpa using ha)
    have ec : lc = [] := List.length_eq_zero_iff.mp (by simpa using hc)
    rw [ea, ec]; exact .nil
  | b :: lb, [], _, ha, _, _ => by simp at ha
  | b :: lb, _ :: _, [], _, hc, _ => by simp at hc
  | b :: lb, a :: la, c :: lc, ha, hc, H => by
    refine .cons ?_ (all3_of_getD a0 b0 c0 lb la lc (by simpa using ha) (by simpa using hc) ?_)
    · simpa using H 0 (by simp)
    · intro q hq
      simpa using H (q+1) (by simpa using hq)

/-! ## three runs of the loops, related position by position -/
section Abstract
variable {K1 K2 K3 : Type}
  [Add K1] [Sub K1] [Mul K1] [Div K1] [Neg K1] [OfNat K1 0] [OfNat K1 1] [NatCast K1]
  [Add K2] [Sub K2] [Mul K2] [Div K2] [Neg K2] [OfNat K2 0] [OfNat K2 1] [NatCast K2]
  [Add K3] [Sub K3] [Mul K3] [Div K3] [Neg K3] [OfNat K3 0] [OfNat K3 1] [NatCast K3]

/-- `l[p] = x` in three lists at once -/
theorem all3_triSetAt {R : K1 → K2 → K3 → Prop} {la : List K1} {lb : List K2} {lc : List K3}
    (H : All3 R la lb lc) {a : K1} {b : K2} {c : K3} (h : R a b c) (p : ℕ) :
    All3 R (triSetAt la p a) (triSetAt lb p b) (triSetAt lc p c) := by
  induction H generalizing p with
  | nil => exact .nil
  | cons h1 h2 ih =>
    cases p with
    | zero => exact .cons h h2
    | succ p => exact .cons h1 (ih p)

/-- number of parents that have already passed position `q` -/
def elevCnt (p1 p2 p3 q : ℕ) : ℕ :=
  (if q < p1 then 1 else 0) + (if q < p2 then 1 else 0) + (if q < p3 then 1 else 0)

theorem elevCnt_le (p1 p2 p3 q : ℕ) : elevCnt p1 p2 p3 q ≤ 3 := by
  unfold elevCnt; split_ifs <;> omega

theorem elevCnt_mono {p1 p2 p3 p1' p2' p3' : ℕ} (h1 : p1 ≤ p1') (h2 : p2 ≤ p2') (h3 : p3 ≤ p3') (q : ℕ) :
    elevCnt p1 p2 p3 q ≤ elevCnt p1' p2' p3' q := by
  unfold elevCnt; split_ifs <;> omega

theorem elevCnt_step (p1 p2 p3 q : ℕ) :
    elevCnt (p1+1) (p2+1) (p3+1) q
      = elevCnt p1 p2 p3 q + (if q = p1 then 1 else 0) + (if q = p2 then 1 else 0)
          + (if q = p3 then 1 else 0) := by
  unfold elevCnt; split_ifs <;> omega

/-- `R e` relates accumulator entries of the three runs that received at most `e` additions;
    `T` relates the added terms -/
structure AddRel (R : ℕ → K1 → K2 → K3 → Prop) (T : K1 → K2 → K3 → Prop) : Prop where
  mono : ∀ {e e' : ℕ} {a : K1} {b : K2} {c : K3}, e ≤ e' → R e a b c → R e' a b c
  add : ∀ {e : ℕ} {a : K1} {b : K2} {c : K3} {x : K1} {y : K2} {z : K3},
    R e a b c → T x y z → R (e+1) (a + x) (b + y) (c + z)
  zero : R 0 0 0 0

variable {R : ℕ → K1 → K2 → K3 → Prop} {T : K1 → K2 → K3 → Prop}

/-- one `l[p] += x` in the three runs: the count at `p` goes up by one, nothing else changes;
    no condition on `p` (out of range: nothing happens in any of the runs) -/
theorem rel_triAddAt (A : AddRel R T) {e : ℕ → ℕ} {l1 : List K1} {l2 : List K2} {l3 : List K3}
    (h12 : l1.length = l2.length) (h32 : l3.length = l2.length)
    (H : ∀ q, R (e q) (seq l1 q) (seq l2 q) (seq l3 q)) (p : ℕ) {x : K1} {y : K2} {z : K3}
    (hT : T x y z) :
    ∀ q, R (e q + (if q = p then 1 else 0)) (seq (triAddAt l1 p x) q) (seq (triAddAt l2 p y) q)
      (seq (triAddAt l3 p z) q) := by
  intro q
  by_cases hq : q = p
  · subst hq
    rw [if_pos rfl]
    by_cases hp : q < l2.length
    · rw [seq_triAddAt_self l1 q x (by omega), seq_triAddAt_self l2 q y hp,
        seq_triAddAt_self l3 q z (by omega)]
      exact A.add (H q) hT
    · rw [triAddAt_of_length_le l1 q x (by omega), triAddAt_of_length_le l2 q y (by omega),
        triAddAt_of_length_le l3 q z (by omega)]
      exact A.mono (Nat.le_succ _) (H q)
  · rw [if_neg hq, Nat.add_zero, seq_triAddAt_ne l1 p q x hq, seq_triAddAt_ne l2 p q y hq,
      seq_triAddAt_ne l3 p q z hq]
    exact H q

/-- the invariant of both loops: the integer running variables coincide in the three runs, the
    accumulators have the same length, and entry `q` is related with the count `elevCnt … q` -/
structure ElevRel (R : ℕ → K1 → K2 → K3 → Prop) (s1 : ElevState K1) (s2 : ElevState K2)
    (s3 : ElevState K3) : Prop where
  i12 : s1.index = s2.index
  i32 : s3.index = s2.index
  a12 : s1.p1 = s2.p1
  a32 : s3.p1 = s2.p1
  b12 : s1.p2 = s2.p2
  b32 : s3.p2 = s2.p2
  c12 : s1.p3 = s2.p3
  c32 : s3.p3 = s2.p3
  l12 : s1.acc.length = s2.acc.length
  l32 : s3.acc.length = s2.acc.length
  rel : ∀ q, R (elevCnt s2.p1 s2.p2 s2.p3 q) (seq s1.acc q) (seq s2.acc q) (seq s3.acc q)

/-- the inner loop keeps the invariant -/
theorem elevInner_rel (A : AddRel R T) (d k : ℕ) (v1 : ℕ → K1) (v2 : ℕ → K2) (v3 : ℕ → K3)
    (hv : ∀ c i : ℕ, T (((c : ℕ) : K1) * v1 i) (((c : ℕ) : K2) * v2 i) (((c : ℕ) : K3) * v3 i)) :
    ∀ (cnt j : ℕ) (s1 : ElevState K1) (s2 : ElevState K2) (s3 : ElevState K3),
    ElevRel R s1 s2 s3 →
    ElevRel R (elevInner d k v1 cnt j s1) (elevInner d k v2 cnt j s2) (elevInner d k v3 cnt j s3) := by
  intro cnt
  induction cnt with
  | zero => intro j s1 s2 s3 h; exact h
  | succ cnt ih =>
    intro j s1 s2 s3 h
    rw [elevInner, elevInner, elevInner]
    apply ih
    obtain ⟨i12, i32, a12, a32, b12, b32, c12, c32, l12, l32, rel⟩ := h
    have r1 := rel_triAddAt A (e := fun q => elevCnt s2.p1 s2.p2 s2.p3 q) l12 l32 rel s2.p1
      (hv (d - j - k + 1) s2.index)
    have r2 := rel_triAddAt A
      (e := fun q => elevCnt s2.p1 s2.p2 s2.p3 q + (if q = s2.p1 then 1 else 0))
      (by rw [triAddAt_length, triAddAt_length, l12]) (by rw [triAddAt_length, triAddAt_length, l32])
      r1 s2.p2 (hv (j + 1) s2.index)
    have r3 := rel_triAddAt A
      (e := fun q => elevCnt s2.p1 s2.p2 s2.p3 q + (if q = s2.p1 then 1 else 0)
        + (if q = s2.p2 then 1 else 0))
      (by simp only [triAddAt_length]; exact l12) (by simp only [triAddAt_length]; exact l32)
      r2 s2.p3 (hv (k + 1) s2.index)
    refine ⟨by simp only [i12], by simp only [i32], by simp only [a12], by simp only [a32],
      by simp only [b12], by simp only [b32], by simp only [c12], by simp only [c32],
      by simp only [triAddAt_length]; exact l12, by simp only [triAddAt_length]; exact l32, ?_⟩
    intro q
    simp only [i12, i32, a12, a32, b12, b32, c12, c32]
    rw [elevCnt_step]
    exact r3 q

/-- the outer loop keeps the invariant -/
theorem elevOuter_rel (A : AddRel R T) (d : ℕ) (v1 : ℕ → K1) (v2 : ℕ → K2) (v3 : ℕ → K3)
    (hv : ∀ c i : ℕ, T (((c : ℕ) : K1) * v1 i) (((c : ℕ) : K2) * v2 i) (((c : ℕ) : K3) * v3 i)) :
    ∀ (fuel k : ℕ) (s1 : ElevState K1) (s2 : ElevState K2) (s3 : ElevState K3),
    ElevRel R s1 s2 s3 →
    ElevRel R (elevOuter d v1 fuel k s1) (elevOuter d v2 fuel k s2) (elevOuter d v3 fuel k s3) := by
  intro fuel
  induction fuel with
  | zero => intro k s1 s2 s3 h; exact h
  | succ fuel ih =>
    intro k s1 s2 s3 h
    rw [elevOuter, elevOuter, elevOuter]
    apply ih
    obtain ⟨i12, i32, a12, a32, b12, b32, c12, c32, l12, l32, rel⟩ :=
      elevInner_rel A d k v1 v2 v3 hv (d + 1 - k) 0 s1 s2 s3 h
    refine ⟨i12, i32, by simp only [a12], by simp only [a32], by simp only [b12],
      by simp only [b32], c12, c32, l12, l32, ?_⟩
    intro q
    exact A.mono (elevCnt_mono (Nat.le_succ _) (Nat.le_succ _) le_rfl q) (rel q)

/-- **the accumulators after the loops**, started from `zeros(n)` with the parents `0, 1, d + 2`:
    same length, and every entry has received at most three additions -/
theorem elevAcc_rel (A : AddRel R T) (d n : ℕ) (v1 : ℕ → K1) (v2 : ℕ → K2) (v3 : ℕ → K3)
    (hv : ∀ c i : ℕ, T (((c : ℕ) : K1) * v1 i) (((c : ℕ) : K2) * v2 i) (((c : ℕ) : K3) * v3 i)) :
    ElevRel R
      (elevOuter d v1 (d + 1) 0
        { acc := List.replicate n 0, index := 0, p1 := 0, p2 := 1, p3 := d + 2 })
      (elevOuter d v2 (d + 1) 0
        { acc := List.replicate n 0, index := 0, p1 := 0, p2 := 1, p3 := d + 2 })
      (elevOuter d v3 (d + 1) 0
        { acc := List.replicate n 0, index := 0, p1 := 0, p2 := 1, p3 := d + 2 }) := by
  apply elevOuter_rel A d v1 v2 v3 hv
  refine ⟨rfl, rfl, rfl, rfl, rfl, rfl, rfl, rfl, by simp, by simp, ?_⟩
  intro q
  simp only [seq_replicate_zero_raw]
  exact A.mono (Nat.zero_le _) A.zero

end Abstract

/-! ## the two instances in rounded arithmetic -/
section Inst
variable {F : Type} [Field F] [LinearOrder F] [IsStrictOrderedRing F] {fl : F → F} {u : F}

/-- plain standard model: the first addition onto the initial zero is a rounded operation -/
theorem addRel_near (S : StdModel fl u) :
    AddRel (K1 := Fl F fl) (K2 := F) (K3 := F) (fun e => Near fl u (e + 1)) (Near fl u 1) where
  mono := fun h H => H.mono S (by omega)
  add := fun H hT => (H.add' S hT).cast (by omega)
  zero := Near.zero 1 S

/-- entries that received `e` additions in an idempotent arithmetic: `e` roundings, and all three
    entries are still `0` when `e = 0` -/
def NearZ (fl : F → F) (u : F) (e : ℕ) (xh : Fl F fl) (x X : F) : Prop :=
  Near fl u e xh x X ∧ (e = 0 → xh.val = 0 ∧ x = 0 ∧ X = 0)

/-- added terms that are numbers of the arithmetic -/
def NearT (fl : F → F) (u : F) (xh : Fl F fl) (x X : F) : Prop :=
  Near fl u 1 xh x X ∧ fl xh.val = xh.val

/-- idempotent rounding: `fl (0 + fl z) = fl z`, the first addition is free -/
theorem addRel_nearZ (S : StdModel fl u) :
    AddRel (K1 := Fl F fl) (K2 := F) (K3 := F) (NearZ fl u) (NearT fl u) where
  mono := by
    intro e e' a b c h H
    exact ⟨H.1.mono S h, fun h0 => H.2 (by omega)⟩
  add := by
    intro e a b c x y z H hT
    refine ⟨?_, fun h0 => absurd h0 (Nat.succ_ne_zero e)⟩
    by_cases he : e = 0
    · obtain ⟨ha, hb, hc⟩ := H.2 he
      subst he
      have e1 : (a + x).val = x.val := by
        show fl (a.val + x.val) = x.val
        rw [ha, zero_add, hT.2]
      have := hT.1
      unfold Near at this ⊢
      simp only [e1, hb, hc, zero_add]
      exact this
    · exact (H.1.add' S hT.1).cast (by omega)
  zero := ⟨Near.zero 0 S, fun _ => ⟨rfl, rfl, rfl⟩⟩

/-- the divisor `degree + 1.0` of the model in `Fl` is one rounded addition; it is exact under the
    stated hypothesis -/
theorem divisor_exact (d : ℕ) (hd : fl ((d : F) + 1) = (d : F) + 1) :
    (((d : ℕ) : Fl F fl) + 1) = ⟨(d : F) + 1⟩ := by
  show (⟨fl ((d : F) + 1)⟩ : Fl F fl) = _
  rw [hd]

/-- from a per-entry bound on the accumulators to the bound on the result: division by the exact
    `d + 1`, then the three corner copies -/
theorem elevateRow_of_acc (S : StdModel fl u) (d : ℕ) (hd : fl ((d : F) + 1) = (d : F) + 1)
    (row : List F) (m : ℕ)
    (H : ∀ q, Near fl u m
      (seq (elevOuter d (seq (row.map (Fl.mk (fl := fl)))) (d + 1) 0
        { acc := List.replicate (row.length + d + 2) 0, index := 0, p1 := 0, p2 := 1, p3 := d + 2 }).acc q)
      (seq (elevOuter d (seq row) (d + 1) 0
        { acc := List.replicate (row.length + d + 2) 0, index := 0, p1 := 0, p2 := 1, p3 := d + 2 }).acc q)
      (seq (elevOuter d (seq (row.map (|·|))) (d + 1) 0
        { acc := List.replicate (row.length + d + 2) 0, index := 0, p1 := 0, p2 := 1, p3 := d + 2 }).acc q)) :
    NearL fl u (m + 1) (Tri.elevateRow d (row.map (Fl.mk (fl := fl)))) (Tri.elevateRow d row)
      (Tri.elevateRow d (row.map (|·|))) := by
  have hv : ∀ i, Near fl u (m + 1) (seq (row.map (Fl.mk (fl := fl))) i) (seq row i)
      (seq (row.map (|·|)) i) := fun i => ((NearL.map_mk S 0 row).seq S i).mono S (Nat.zero_le _)
  have HL : NearL fl u m
      (elevOuter d (seq (row.map (Fl.mk (fl := fl)))) (d + 1) 0
        { acc := List.replicate (row.length + d + 2) 0, index := 0, p1 := 0, p2 := 1, p3 := d + 2 }).acc
      (elevOuter d (seq row) (d + 1) 0
        { acc := List.replicate (row.length + d + 2) 0, index := 0, p1 := 0, p2 := 1, p3 := d + 2 }).acc
      (elevOuter d (seq (row.map (|·|))) (d + 1) 0
        { acc := List.replicate (row.length + d + 2) 0, index := 0, p1 := 0, p2 := 1, p3 := d + 2 }).acc :=
    all3_of_getD 0 0 0 _ _ _ (by simp [elevOuter_length]) (by simp [elevOuter_length])
      (fun q _ => H q)
  have hpos : (0 : F) ≤ (d : F) + 1 := by positivity
  have HD := All3.map (R' := Near fl u (m + 1))
    (f := fun x : Fl F fl => x / (((d : ℕ) : Fl F fl) + 1))
    (g := fun x : F => x / (((d : ℕ) : F) + 1)) (h := fun x : F => x / (((d : ℕ) : F) + 1))
    (fun a b c h => by
      have := h.div_exact S ((d : F) + 1)
      rw [abs_of_nonneg hpos] at this
      rw [divisor_exact d hd]
      exact this) HL
  unfold Tri.elevateRow
  simp only [triSetAt_length, divRow, List.length_map, elevOuter_length, List.length_replicate]
  exact all3_triSetAt (all3_triSetAt (all3_triSetAt HD (hv 0) 0) (hv d) (d + 1)) (hv _) _

/-- **`Triangle.elevate` in rounded arithmetic**: one product, up to three additions (the first one
    onto the initial `0` is rounded too), the division: five roundings per entry, relative to the
    same routine on the absolute values; every degree, every row -/
theorem triElevateRow_near (S : StdModel fl u) (d : ℕ) (hd : fl ((d : F) + 1) = (d : F) + 1)
    (row : List F) :
    NearL fl u 5 (Tri.elevateRow d (row.map (Fl.mk (fl := fl)))) (Tri.elevateRow d row)
      (Tri.elevateRow d (row.map (|·|))) := by
  have hv0 : ∀ i, Near fl u 0 (seq (row.map (Fl.mk (fl := fl))) i) (seq row i)
      (seq (row.map (|·|)) i) := (NearL.map_mk S 0 row).seq S
  have E := elevAcc_rel (addRel_near S) d (row.length + d + 2)
    (seq (row.map (Fl.mk (fl := fl)))) (seq row) (seq (row.map (|·|)))
    (fun c i => ((Near.natCast 0 S c).mul S (hv0 i)).cast (by norm_num))
  exact elevateRow_of_acc S d hd row 4
    (fun q => (E.rel q).mono S (Nat.succ_le_succ (elevCnt_le _ _ _ q)))

/-- **idempotent rounding** (`fl (fl x) = fl x`, as for every rounding onto a set of representable
    numbers): the addition onto the initial `0` is free, four roundings per entry -/
theorem triElevateRow_near_idem (S : StdModel fl u) (hidem : ∀ x, fl (fl x) = fl x) (d : ℕ)
    (hd : fl ((d : F) + 1) = (d : F) + 1) (row : List F) :
    NearL fl u 4 (Tri.elevateRow d (row.map (Fl.mk (fl := fl)))) (Tri.elevateRow d row)
      (Tri.elevateRow d (row.map (|·|))) := by
  have hv0 : ∀ i, Near fl u 0 (seq (row.map (Fl.mk (fl := fl))) i) (seq row i)
      (seq (row.map (|·|)) i) := (NearL.map_mk S 0 row).seq S
  have E := elevAcc_rel (addRel_nearZ S) d (row.length + d + 2)
    (seq (row.map (Fl.mk (fl := fl)))) (seq row) (seq (row.map (|·|)))
    (fun c i => ⟨((Near.natCast 0 S c).mul S (hv0 i)).cast (by norm_num), hidem _⟩)
  exact elevateRow_of_acc S d hd row 3
    (fun q => (E.rel q).1.mono S (elevCnt_le _ _ _ q))

/-! ## the scale: the elevation formula on the absolute values -/

/-- **the scale of the bound**: the routine run on `|v|` is the `|v|`-weighted mean
    `(i |v(i-1,j,k)| + j |v(i,j-1,k)| + k |v(i,j,k-1)|) / (d+1)`, `i = d + 1 - j - k` -/
theorem triElevateRow_abs_scale (d : ℕ) (row : List F) (h : row.length = numNodes d) (j k : ℕ)
    (hjk : j + k ≤ d + 1) :
    seq (Tri.elevateRow d (row.map (|·|))) (triIndex (d+1) j k) =
      (((d + 1 - j - k : ℕ) : F) * |seq row (triIndex d j k)| + (j : F) * |seq row (triIndex d (j-1) k)|
        + (k : F) * |seq row (triIndex d j (k-1))|) / ((d : F) + 1) := by
  have := netOf_triElevateRow d (row.map (|·|)) (by simpa using h) j k hjk
  simp only [netOf, elevNum, seq_map_abs] at this
  exact this

/-- the weights `i, j, k` sum to `d + 1`: the scale is at most any bound of the `|v|` -/
theorem triElevateRow_abs_scale_le (d : ℕ) (row : List F) (h : row.length = numNodes d) (M : F)
    (hM : ∀ i, |seq row i| ≤ M) (q : ℕ) :
    seq (Tri.elevateRow d (row.map (|·|))) q ≤ M := by
  have hM0 : 0 ≤ M := le_trans (abs_nonneg _) (hM 0)
  have hlen : (Tri.elevateRow d (row.map (|·|))).length = rowStart (d+1) (d+2) := by
    rw [triElevateRow_length, List.length_map, h, numNodes_eq_rowStart, rowStart_shift d (d+1)]
    omega
  by_cases hq : q < rowStart (d+1) (d+2)
  · obtain ⟨k, j, hk, hj, rfl⟩ := TriPy.rowStart_decomp (d+1) (d+2) q hq
    have hjk : j + k ≤ d + 1 := by omega
    have e := triElevateRow_abs_scale d row h j k hjk
    unfold triIndex at e
    rw [e]
    have hpos : (0 : F) < (d : F) + 1 := by positivity
    rw [div_le_iff₀ hpos]
    have hsum : ((d + 1 - j - k : ℕ) : F) + (j : F) + (k : F) = (d : F) + 1 := by
      have : d + 1 - j - k + j + k = d + 1 := by omega
      exact_mod_cast this
    have h1 := mul_le_mul_of_nonneg_left (hM (rowStart d k + j)) (Nat.cast_nonneg (α := F) (d + 1 - j - k))
    have h2 := mul_le_mul_of_nonneg_left (hM (rowStart d k + (j - 1))) (Nat.cast_nonneg (α := F) j)
    have h3 := mul_le_mul_of_nonneg_left (hM (rowStart d (k - 1) + j)) (Nat.cast_nonneg (α := F) k)
    calc _ ≤ ((d + 1 - j - k : ℕ) : F) * M + (j : F) * M + (k : F) * M := by linarith
      _ = M * ((d : F) + 1) := by rw [← hsum]; ring
  · unfold seq
    rw [List.getD_eq_getElem?_getD, List.getElem?_eq_none (by omega)]
    exact hM0

/-! ## the concrete arithmetics of the non-vacuity examples keep `d + 1` -/

theorem den_natCast_succ (d : ℕ) : ((d : ℚ) + 1).den = 1 := by
  have : ((d : ℚ) + 1) = ((d + 1 : ℕ) : ℚ) := by push_cast; ring
  rw [this, Rat.den_natCast]

theorem flDy_natCast_succ (d : ℕ) : flDy ((d : ℚ) + 1) = (d : ℚ) + 1 := by
  unfold flDy
  rw [if_pos (by rw [den_natCast_succ]; exact one_dvd _)]

theorem flFlush_natCast_succ (d : ℕ) : TriPy.flFlush ((d : ℚ) + 1) = (d : ℚ) + 1 := by
  unfold TriPy.flFlush
  rw [if_pos (by rw [den_natCast_succ]; exact one_dvd _)]

end Inst

end BezierVerif.TriElevR
