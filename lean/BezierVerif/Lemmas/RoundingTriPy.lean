import BezierVerif.Lemmas.RoundingMore

/-!
# Lemmas/RoundingTriPy — the Python dictionary algorithm of `specialize_triangle` in rounded
# arithmetic

Python's `specialize_triangle` does not run `de_casteljau_one_round` on the sub-nets; it multiplies
them by the matrices `make_transform(degree, w)` (the round applied to the identity matrix).  In an
arithmetic whose rounding is *idempotent* (`fl (fl x) = fl x`, as every rounding to a set of
representable numbers is) and in which the weights are numbers of the arithmetic (`fl w = w`),

* the matrix entries are exactly `λ₁`, `λ₂`, `λ₃` or `0` (products with `0`/`1`, sums with `0`),
* in the dot product all other terms are exact zeros and adding an exact zero to a number of the
  arithmetic does not change it,

so `matrix_product(sub_nodes, transform)` *is* `de_casteljau_one_round(sub_nodes)`, bit for bit
(`rowMulCols_makeTransform_fl`).  The dictionary walk is then the one of
`Lemmas/TriSpecializePy.lean`, re-proved here for any arithmetic in which that identity holds.
-/

set_option linter.unusedSectionVars false
set_option linter.unusedVariables false

namespace BezierVerif.TriPy

open Finset Model BezierVerif BezierVerif.Tri

/-! ## the dictionary walk in any arithmetic -/
section NoLaws
variable {K : Type} [Add K] [Sub K] [Mul K] [Div K] [Neg K] [OfNat K 0] [OfNat K 1] [NatCast K]

/-- rounds applied one after the other, the degree dropping by one (generic copy of
    `Tri.applyRounds`) -/
def applyRoundsG : List (Bary K) → ℕ → List K → List K
  | [], _, row => row
  | w :: ws, d, row => applyRoundsG ws (d - 1) (dcRound3 d w row)

theorem applyRoundsG_append (ws : List (Bary K)) (w : Bary K) : ∀ (d : ℕ) (row : List K),
    applyRoundsG (ws ++ [w]) d row = dcRound3 (d - ws.length) w (applyRoundsG ws d row) := by
  induction ws with
  | nil => intro d row; simp [applyRoundsG]
  | cons u us ih =>
    intro d row
    simp only [List.cons_append, applyRoundsG, List.length_cons]
    rw [ih]
    have : d - 1 - us.length = d - (us.length + 1) := by omega
    rw [this]

theorem applyRoundsG_length (ws : List (Bary K)) : ∀ (d : ℕ) (row : List K), ws.length ≤ d →
    row.length = rowStart d (d+1) →
    (applyRoundsG ws d row).length = rowStart (d - ws.length) (d - ws.length + 1) := by
  induction ws with
  | nil => intro d row _ h; simpa [applyRoundsG] using h
  | cons u us ih =>
    intro d row hd hrow
    simp only [applyRoundsG, List.length_cons] at hd ⊢
    have hl : (dcRound3 d u row).length = rowStart (d - 1) (d - 1 + 1) := by
      rw [dcRound3_length d (by omega)]
      have : d - 1 + 1 = d := by omega
      rw [this]
    rw [ih (d - 1) _ (by omega) hl]
    have : d - 1 - us.length = d - (us.length + 1) := by omega
    rw [this]

/-- the value stored under a key -/
def keyValG (wa wb wc : Bary K) (d : ℕ) (row : List K) (key : List ℕ) : List K :=
  applyRoundsG (key.map (pickW wa wb wc)) d row

def dictOfG (wa wb wc : Bary K) (d : ℕ) (row : List K) (keys : List (List ℕ)) : TriDict K :=
  keys.map (fun key => (key, keyValG wa wb wc d row key))

theorem keyValG_length (wa wb wc : Bary K) (d : ℕ) (row : List K) (hrow : row.length = rowStart d (d+1))
    (key : List ℕ) (hk : key.length ≤ d) :
    (keyValG wa wb wc d row key).length = rowStart (d - key.length) (d - key.length + 1) := by
  unfold keyValG
  rw [applyRoundsG_length _ d row (by simpa using hk) hrow, List.length_map]

/-- "multiplying by the transform is one round" for the three weight triples, all degrees -/
def TransformIsRound (wa wb wc : Bary K) : Prop :=
  ∀ (rd : ℕ), 1 ≤ rd → ∀ m : ℕ, ∀ sub : List K, sub.length = numNodes rd →
    rowMulCols sub (transpose (makeTransform rd (pickW wa wb wc m))) = dcRound3 rd (pickW wa wb wc m) sub

theorem Py_specializeStep_dictG (wa wb wc : Bary K) (H : TransformIsRound wa wb wc) (d n : ℕ)
    (row : List K) (hrow : row.length = rowStart d (d+1)) (hn : n + 1 < d) (keys : List (List ℕ))
    (hkeys : ∀ key ∈ keys, key.length = n + 1) :
    Py.triSpecializeStep (d - (n + 1)) wa wb wc (dictOfG wa wb wc d row keys)
      = dictOfG wa wb wc d row (nextKeys keys) := by
  unfold Py.triSpecializeStep dictOfG nextKeys
  simp only
  rw [List.flatMap_map, List.map_flatMap]
  apply List.flatMap_congr
  intro key hkey
  rw [List.map_map]
  apply List.map_congr_left
  intro m hm
  simp only [Function.comp]
  congr 1
  have hl := hkeys key hkey
  have hval := keyValG_length wa wb wc d row hrow key (by omega)
  rw [hl] at hval
  have hpick : (if m = 0 then transpose (makeTransform (d - (n + 1)) wa)
      else if m = 1 then transpose (makeTransform (d - (n + 1)) wb)
      else transpose (makeTransform (d - (n + 1)) wc))
      = transpose (makeTransform (d - (n + 1)) (pickW wa wb wc m)) := by
    unfold pickW; split_ifs <;> rfl
  rw [hpick, H (d - (n + 1)) (by omega) m _ (by rw [hval, numNodes_eq_rowStart])]
  unfold keyValG
  rw [List.map_append, List.map_cons, List.map_nil, applyRoundsG_append, List.length_map, hl]

theorem Py_specializeLoop_dictG (wa wb wc : Bary K) (H : TransformIsRound wa wb wc) (d : ℕ)
    (row : List K) (hrow : row.length = rowStart d (d+1)) : ∀ fuel n, n + 1 + fuel = d →
    Py.triSpecializeLoop wa wb wc fuel (dictOfG wa wb wc d row (ascKeys n))
      = dictOfG wa wb wc d row (ascKeys (n + fuel)) := by
  intro fuel
  induction fuel with
  | zero => intro n _; rfl
  | succ fuel ih =>
    intro n hn
    simp only [Py.triSpecializeLoop]
    have e : fuel + 1 = d - (n + 1) := by omega
    rw [e, Py_specializeStep_dictG wa wb wc H d n row hrow (by omega) _ (ascKeys_length n)]
    have := ih (n+1) (by omega)
    simp only [ascKeys] at this ⊢
    rw [this]
    congr 2
    omega

theorem lookup_dictOfG (wa wb wc : Bary K) (d : ℕ) (row : List K) (keys : List (List ℕ)) (key : List ℕ)
    (h : key ∈ keys) :
    (dictOfG wa wb wc d row keys).lookup key = some (keyValG wa wb wc d row key) := by
  unfold dictOfG
  induction keys with
  | nil => simp at h
  | cons k0 ks ih =>
    simp only [List.map_cons, List.lookup_cons]
    by_cases hk : key = k0
    · subst hk; simp
    · have : (key == k0) = false := by simpa using hk
      rw [this]
      exact ih (by simpa [hk] using h)

/-- **the Python dictionary algorithm, in any arithmetic in which the transforms act as rounds**:
    entry `t` of the result is the head of the rounds named by the key of `t` -/
theorem Py_specializeRow_eq_rounds (d : ℕ) (hd : 1 ≤ d) (wa wb wc : Bary K)
    (H : TransformIsRound wa wb wc) (row : List K) (hrow : row.length = rowStart d (d+1)) :
    Py.triSpecializeRow d row wa wb wc
      = .ok ((tripleOrder d).map (fun t => (keyValG wa wb wc d row (triKeyOf t)).headD 0)) := by
  unfold Py.triSpecializeRow
  simp only
  have h0 : ([([0], dcRound3 d wa row), ([1], dcRound3 d wb row), ([2], dcRound3 d wc row)] : TriDict K)
      = dictOfG wa wb wc d row (ascKeys 0) := by
    simp [dictOfG, ascKeys, keyValG, applyRoundsG, pickW]
  rw [h0, Py_specializeLoop_dictG wa wb wc H d row hrow (d - 1) 0 (by omega)]
  unfold Py.reducedToMatrix
  apply mapE_ok
  intro t ht
  have hsum := tripleOrder_sum d t ht
  have hmem : triKeyOf t ∈ ascKeys (0 + (d - 1)) := by
    obtain ⟨i, j, k⟩ := t
    exact keyOf_mem_ascKeys _ i j k (by simp only at hsum; omega)
  simp only [lookup_dictOfG wa wb wc d row _ _ hmem]

end NoLaws


/-! ## the transform acts as a round in an idempotent arithmetic -/
section FlCrux
variable {F : Type} [Field F] [LinearOrder F] [IsStrictOrderedRing F] {fl : F → F}

/-- the rounding is a projection onto the numbers of the arithmetic, and `0` is one of them -/
structure Idem (fl : F → F) : Prop where
  idem : ∀ x, fl (fl x) = fl x
  zero : fl 0 = 0

/-- the three weights are numbers of the arithmetic -/
def BaryFix (fl : F → F) (w : Bary F) : Prop := fl w.l1 = w.l1 ∧ fl w.l2 = w.l2 ∧ fl w.l3 = w.l3

theorem add_zero_fl (I : Idem fl) (x : Fl F fl) (hx : fl x.val = x.val) : x + 0 = x := by
  cases x with | mk v =>
  show (⟨fl (v + 0)⟩ : Fl F fl) = ⟨v⟩
  rw [add_zero]; exact congrArg Fl.mk hx

theorem zero_add_fl (I : Idem fl) (x : Fl F fl) (hx : fl x.val = x.val) : 0 + x = x := by
  cases x with | mk v =>
  show (⟨fl (0 + v)⟩ : Fl F fl) = ⟨v⟩
  rw [zero_add]; exact congrArg Fl.mk hx

theorem isFl_add (I : Idem fl) (x y : Fl F fl) : fl (x + y).val = (x + y).val := I.idem _
theorem isFl_mul (I : Idem fl) (x y : Fl F fl) : fl (x * y).val = (x * y).val := I.idem _

theorem mul_zero_fl (I : Idem fl) (x : Fl F fl) : x * 0 = 0 := by
  show (⟨fl (x.val * 0)⟩ : Fl F fl) = ⟨0⟩
  rw [mul_zero, I.zero]

theorem mul_comm_fl (x y : Fl F fl) : x * y = y * x := by
  show (⟨fl (x.val * y.val)⟩ : Fl F fl) = ⟨fl (y.val * x.val)⟩
  rw [mul_comm]

theorem seq_unitVec_fl (N r i : ℕ) (hr : r < N) :
    seq (unitVec (K := Fl F fl) N r) i = if i = r then 1 else 0 := by
  unfold unitVec seq
  rcases Nat.lt_or_ge i N with hi | hi
  · rw [List.getD_eq_getElem?_getD, List.getElem?_map, List.getElem?_range hi]; rfl
  · rw [List.getD_eq_getElem?_getD, List.getElem?_eq_none (by simp; exact hi)]
    have : i ≠ r := by omega
    simp [this]

/-- a matrix entry of the transform: `λ₁`, `λ₂`, `λ₃` or `0`, exactly -/
theorem coef_fl (I : Idem fl) (w : Bary F) (hw : BaryFix fl w) (q1 q2 q3 p : ℕ)
    (h12 : q1 ≠ q2) (h13 : q1 ≠ q3) (h23 : q2 ≠ q3) :
    (mkBary fl w).l1 * (if q1 = p then (1 : Fl F fl) else 0) + (mkBary fl w).l2 * (if q2 = p then 1 else 0)
        + (mkBary fl w).l3 * (if q3 = p then 1 else 0)
      = if p = q1 then ⟨w.l1⟩ else if p = q2 then ⟨w.l2⟩ else if p = q3 then ⟨w.l3⟩ else 0 := by
  obtain ⟨f1, f2, f3⟩ := hw
  by_cases e1 : p = q1
  · subst e1
    rw [if_pos rfl, if_neg (Ne.symm h12), if_neg (Ne.symm h13), if_pos rfl]
    show (⟨fl (fl (fl (w.l1 * 1) + fl (w.l2 * 0)) + fl (w.l3 * 0))⟩ : Fl F fl) = ⟨w.l1⟩
    simp only [mul_one, mul_zero, add_zero, zero_add, I.zero, f1, f2, f3]
  · by_cases e2 : p = q2
    · subst e2
      rw [if_neg (Ne.symm e1), if_pos rfl, if_neg (Ne.symm h23), if_neg e1, if_pos rfl]
      show (⟨fl (fl (fl (w.l1 * 0) + fl (w.l2 * 1)) + fl (w.l3 * 0))⟩ : Fl F fl) = ⟨w.l2⟩
      simp only [mul_one, mul_zero, add_zero, zero_add, I.zero, f1, f2, f3]
    · by_cases e3 : p = q3
      · subst e3
        rw [if_neg (Ne.symm e1), if_neg (Ne.symm e2), if_pos rfl, if_neg e1, if_neg e2, if_pos rfl]
        show (⟨fl (fl (fl (w.l1 * 0) + fl (w.l2 * 0)) + fl (w.l3 * 1))⟩ : Fl F fl) = ⟨w.l3⟩
        simp only [mul_one, mul_zero, add_zero, zero_add, I.zero, f1, f2, f3]
      · rw [if_neg (Ne.symm e1), if_neg (Ne.symm e2), if_neg (Ne.symm e3), if_neg e1, if_neg e2, if_neg e3]
        show (⟨fl (fl (fl (w.l1 * 0) + fl (w.l2 * 0)) + fl (w.l3 * 0))⟩ : Fl F fl) = ⟨0⟩
        simp only [mul_one, mul_zero, add_zero, zero_add, I.zero, f1, f2, f3]

/-- a sum with three non-zero terms at increasing positions: all other additions are exact -/
theorem sparse_fold (I : Idem fl) (g : ℕ → Fl F fl) (q1 q2 q3 N : ℕ) (h12 : q1 < q2) (h23 : q2 < q3)
    (hN : q3 < N) (t1 t2 t3 : Fl F fl) (ht1 : fl t1.val = t1.val)
    (hg : ∀ p, g p = if p = q1 then t1 else if p = q2 then t2 else if p = q3 then t3 else 0) :
    (List.range N).foldl (fun acc p => acc + g p) 0 = t1 + t2 + t3 := by
  have key : ∀ m, m ≤ N → (List.range m).foldl (fun acc p => acc + g p) 0
      = if m ≤ q1 then 0 else if m ≤ q2 then t1 else if m ≤ q3 then t1 + t2 else t1 + t2 + t3 := by
    intro m
    induction m with
    | zero => intro _; simp
    | succ m ih =>
      intro hm
      rw [List.range_succ, List.foldl_append, ih (by omega)]
      simp only [List.foldl_cons, List.foldl_nil]
      rw [hg m]
      have z0 : fl (0 : Fl F fl).val = (0 : Fl F fl).val := I.zero
      by_cases c1 : m < q1
      · rw [if_pos (by omega), if_neg (by omega), if_neg (by omega), if_neg (by omega), if_pos (by omega)]
        exact add_zero_fl I 0 z0
      · by_cases c2 : m = q1
        · rw [if_pos (by omega), if_pos c2, if_neg (by omega), if_pos (by omega)]
          exact zero_add_fl I t1 ht1
        · by_cases c3 : m < q2
          · rw [if_neg (by omega), if_pos (by omega), if_neg c2, if_neg (by omega), if_neg (by omega),
              if_neg (by omega), if_pos (by omega)]
            exact add_zero_fl I t1 ht1
          · by_cases c4 : m = q2
            · rw [if_neg (by omega), if_pos (by omega), if_neg c2, if_pos c4, if_neg (by omega),
                if_neg (by omega), if_pos (by omega)]
            · by_cases c5 : m < q3
              · rw [if_neg (by omega), if_neg (by omega), if_pos (by omega), if_neg c2, if_neg c4,
                  if_neg (by omega), if_neg (by omega), if_neg (by omega), if_pos (by omega)]
                exact add_zero_fl I _ (isFl_add I t1 t2)
              · by_cases c6 : m = q3
                · rw [if_neg (by omega), if_neg (by omega), if_pos (by omega), if_neg c2, if_neg c4,
                    if_pos c6, if_neg (by omega), if_neg (by omega), if_neg (by omega)]
                · rw [if_neg (by omega), if_neg (by omega), if_neg (by omega), if_neg c2, if_neg c4,
                    if_neg c6, if_neg (by omega), if_neg (by omega), if_neg (by omega)]
                  exact add_zero_fl I _ (isFl_add I _ t3)
  rw [key N le_rfl, if_neg (by omega), if_neg (by omega), if_neg (by omega)]


theorem rowStart_decomp (d : ℕ) : ∀ m c, c < rowStart d m →
    ∃ k j, k < m ∧ j < d + 1 - k ∧ c = rowStart d k + j := by
  intro m
  induction m with
  | zero => intro c h; simp [rowStart] at h
  | succ m ih =>
    intro c h
    rw [rowStart_succ] at h
    by_cases hc : c < rowStart d m
    · obtain ⟨k, j, hk, hj, e⟩ := ih c hc
      exact ⟨k, j, by omega, hj, e⟩
    · exact ⟨m, c - rowStart d m, by omega, by omega, by omega⟩

theorem list_ext_seq_fl (l1 l2 : List (Fl F fl)) (hl : l1.length = l2.length)
    (h : ∀ c, c < l1.length → seq l1 c = seq l2 c) : l1 = l2 := by
  apply List.ext_getElem hl
  intro c h1 h2
  have := h c h1
  unfold seq at this
  rw [List.getD_eq_getElem?_getD, List.getD_eq_getElem?_getD, List.getElem?_eq_getElem h1,
    List.getElem?_eq_getElem h2] at this
  simpa using this

theorem dot_map_range_fl (x : List (Fl F fl)) (N : ℕ) (f : ℕ → Fl F fl) (hx : x.length = N) :
    dot x ((List.range N).map f) = (List.range N).foldl (fun acc p => acc + seq x p * f p) 0 := by
  unfold dot
  have hz : List.zipWith (· * ·) x ((List.range N).map f) = (List.range N).map (fun p => seq x p * f p) := by
    apply List.ext_getElem
    · simp [hx]
    · intro i h1 h2
      have hi : i < x.length := by simp at h1; omega
      simp [seq, List.getD_eq_getElem?_getD, List.getElem?_eq_getElem hi]
  rw [hz, List.foldl_map]

/-- **`matrix_product(sub_nodes, make_transform(degree, w))` is one round, bit for bit**, in an
    idempotent arithmetic with weights of the arithmetic -/
theorem rowMulCols_makeTransform_fl (I : Idem fl) (rd : ℕ) (hrd : 1 ≤ rd) (w : Bary F)
    (hw : BaryFix fl w) (sub : List (Fl F fl)) (hsub : sub.length = numNodes rd) :
    rowMulCols sub (transpose (makeTransform rd (mkBary fl w))) = dcRound3 rd (mkBary fl w) sub := by
  have hNeq : numNodes rd = rowStart rd (rd+1) := numNodes_eq_rowStart rd
  have hN : 1 ≤ numNodes rd := by rw [hNeq, rowStart_succ]; omega
  have hncols : ncols (makeTransform rd (mkBary fl w)) = rowStart (rd - 1) rd := by
    unfold ncols makeTransform identity
    obtain ⟨n, hn⟩ : ∃ n, numNodes rd = n + 1 := ⟨numNodes rd - 1, by omega⟩
    rw [hn, List.range_succ_eq_map]
    simp only [List.map_cons, List.headD_cons]
    exact dcRound3_length rd hrd _ _
  apply list_ext_seq_fl
  · unfold rowMulCols transpose
    rw [List.length_map, List.length_map, List.length_range, hncols, dcRound3_length rd hrd]
  · intro c hc
    have hc' : c < rowStart (rd - 1) rd := by
      unfold rowMulCols transpose at hc
      rw [List.length_map, List.length_map, List.length_range, hncols] at hc
      exact hc
    have hl : seq (rowMulCols sub (transpose (makeTransform rd (mkBary fl w)))) c
        = dot sub (col (makeTransform rd (mkBary fl w)) c) := by
      unfold rowMulCols transpose seq
      rw [List.map_map, List.getD_eq_getElem?_getD, List.getElem?_map, hncols, List.getElem?_range hc']
      rfl
    have hcol : col (makeTransform rd (mkBary fl w)) c
        = (List.range (numNodes rd)).map
            (fun r => seq (dcRound3 rd (mkBary fl w) (unitVec (numNodes rd) r)) c) := by
      unfold col makeTransform identity
      rw [List.map_map, List.map_map]; rfl
    rw [hl, hcol, dot_map_range_fl sub (numNodes rd) _ hsub]
    -- the position of output `c`
    obtain ⟨k, j, hk, hj, rfl⟩ := rowStart_decomp (rd - 1) rd c hc'
    have hjk : j + k < rd := by omega
    rw [seq_dcRound3 rd hrd _ sub j k hjk]
    have hP3 : rowStart rd (k + 1) + j < numNodes rd := by
      rw [hNeq]
      have h1 : rowStart rd (k + 1) + j < rowStart rd (k + 2) := by
        rw [rowStart_succ rd (k+1)]; omega
      exact lt_of_lt_of_le h1 (rowStart_mono rd _ _ (by omega))
    have hP13 : rowStart rd k + (j + 1) < rowStart rd (k + 1) + j := by
      rw [rowStart_succ]; omega
    set q1 := rowStart rd k + j with hq1
    set q2 := rowStart rd k + (j + 1) with hq2
    set q3 := rowStart rd (k + 1) + j with hq3
    have h12 : q1 < q2 := by omega
    have key := sparse_fold I
      (fun p => seq sub p * seq (dcRound3 rd (mkBary fl w) (unitVec (numNodes rd) p)) (rowStart (rd - 1) k + j))
      q1 q2 q3 (numNodes rd) h12 hP13 hP3
      (seq sub q1 * ⟨w.l1⟩) (seq sub q2 * ⟨w.l2⟩) (seq sub q3 * ⟨w.l3⟩) (isFl_mul I _ _) ?_
    · rw [key, mul_comm_fl (seq sub q1), mul_comm_fl (seq sub q2), mul_comm_fl (seq sub q3)]
      rfl
    · intro p
      by_cases hp : p < numNodes rd
      · show seq sub p * seq (dcRound3 rd (mkBary fl w) (unitVec (numNodes rd) p)) (rowStart (rd - 1) k + j) = _
        rw [seq_dcRound3 rd hrd _ _ j k hjk, seq_unitVec_fl _ _ _ hp, seq_unitVec_fl _ _ _ hp,
          seq_unitVec_fl _ _ _ hp, ← hq1, ← hq2, ← hq3,
          coef_fl I w hw q1 q2 q3 p (by omega) (by omega) (by omega)]
        split_ifs with a1 a2 a3
        · rw [a1]
        · rw [a2]
        · rw [a3]
        · exact mul_zero_fl I _
      · -- beyond the net: the control value read is the default `0`
        have hs : seq sub p = 0 := by
          unfold seq
          rw [List.getD_eq_getElem?_getD, List.getElem?_eq_none (by omega)]; rfl
        show seq sub p * seq (dcRound3 rd (mkBary fl w) (unitVec (numNodes rd) p)) (rowStart (rd - 1) k + j) = _
        rw [hs, if_neg (by omega), if_neg (by omega), if_neg (by omega)]
        show (⟨fl (0 * _)⟩ : Fl F fl) = ⟨0⟩
        rw [zero_mul, I.zero]

end FlCrux


/-! ## the rounding bound for the Python algorithm -/
section PyNear
variable {F : Type} [Field F] [LinearOrder F] [IsStrictOrderedRing F] {fl : F → F} {u : F}

theorem pickW_mk (wa wb wc : Bary F) (m : ℕ) :
    pickW (mkBary fl wa) (mkBary fl wb) (mkBary fl wc) m = mkBary fl (pickW wa wb wc m) := by
  unfold pickW; split_ifs <;> rfl

theorem pickW_abs (wa wb wc : Bary F) (m : ℕ) :
    pickW (absBary wa) (absBary wb) (absBary wc) m = absBary (pickW wa wb wc m) := by
  unfold pickW; split_ifs <;> rfl

theorem transformIsRound_fl (I : Idem fl) (wa wb wc : Bary F) (ha : BaryFix fl wa) (hb : BaryFix fl wb)
    (hc : BaryFix fl wc) : TransformIsRound (mkBary fl wa) (mkBary fl wb) (mkBary fl wc) := by
  intro rd hrd m sub hsub
  rw [pickW_mk]
  refine rowMulCols_makeTransform_fl I rd hrd _ ?_ sub hsub
  unfold pickW; split_ifs <;> assumption

/-- the generic rounds are the rounds of `Lemmas/TriSpecialize` -/
theorem applyRoundsG_eq (ws : List (Bary F)) : ∀ (d : ℕ) (row : List F),
    applyRoundsG ws d row = applyRounds ws d row := by
  induction ws with
  | nil => intro d row; rfl
  | cons w ws ih => intro d row; simp only [applyRoundsG, applyRounds, ih]

/-- a sequence of rounds in rounded arithmetic: three roundings per round -/
theorem applyRoundsG_near (S : StdModel fl u) : ∀ (ws : List (Bary F)) (d k : ℕ)
    {lh : List (Fl F fl)} {l A : List F}, NearL fl u k lh l A →
    NearL fl u (k + 3 * ws.length) (applyRoundsG (ws.map (mkBary fl)) d lh) (applyRoundsG ws d l)
      (applyRoundsG (ws.map absBary) d A)
  | [], d, k, lh, l, A, H => by simpa [applyRoundsG] using H
  | w :: ws, d, k, lh, l, A, H => by
    simp only [List.map_cons, applyRoundsG]
    have h1 := NearL.dcRound3 S (NearB.exact S 0 w) d H
    exact NearL.cast (by simp only [List.length_cons]; omega) (applyRoundsG_near S ws (d - 1) _ h1)

/-- **`specialize_triangle` (Python dictionary and transform matrices) in rounded arithmetic**:
    the call succeeds and every entry is within `((1+u)^(3d) - 1) ·` absolute blossom of the exact
    result (which is the result of the Fortran variant, `C09.specialize_variants_agree`) -/
theorem py_triSpecialize_near (S : StdModel fl u) (I : Idem fl) (d : ℕ) (hd : 1 ≤ d) (row : List F)
    (hrow : row.length = numNodes d) (wa wb wc : Bary F) (ha : BaryFix fl wa) (hb : BaryFix fl wb)
    (hc : BaryFix fl wc) :
    ∃ out, Py.triSpecializeRow d (row.map Fl.mk) (mkBary fl wa) (mkBary fl wb) (mkBary fl wc) = .ok out ∧
      NearL fl u (3 * d) out (F90.triSpecializeRow d row wa wb wc)
        (F90.triSpecializeRow d (row.map (|·|)) (absBary wa) (absBary wb) (absBary wc)) := by
  have hrow' : row.length = rowStart d (d+1) := by rw [hrow, numNodes_eq_rowStart]
  have hrowM : (row.map (Fl.mk (fl := fl))).length = rowStart d (d+1) := by rw [List.length_map, hrow']
  have hrowA : (row.map (|·|)).length = rowStart d (d+1) := by rw [List.length_map, hrow']
  refine ⟨_, Py_specializeRow_eq_rounds d hd _ _ _ (transformIsRound_fl I wa wb wc ha hb hc) _ hrowM, ?_⟩
  rw [F90_specializeRow_eq d wa wb wc row hrow', F90_specializeRow_eq d _ _ _ _ hrowA]
  apply All3.map_list
  intro t ht
  have hsum := tripleOrder_sum d t ht
  unfold keyValG blossomNet
  rw [← keyOf_map_pick, ← keyOf_map_pick, ← applyRoundsG_eq, ← applyRoundsG_eq]
  have e1 : (triKeyOf t).map (pickW (mkBary fl wa) (mkBary fl wb) (mkBary fl wc))
      = ((triKeyOf t).map (pickW wa wb wc)).map (mkBary fl) := by
    rw [List.map_map]; apply List.map_congr_left; intro m _; exact pickW_mk wa wb wc m
  have e2 : (triKeyOf t).map (pickW (absBary wa) (absBary wb) (absBary wc))
      = ((triKeyOf t).map (pickW wa wb wc)).map absBary := by
    rw [List.map_map]; apply List.map_congr_left; intro m _; exact pickW_abs wa wb wc m
  rw [e1, e2]
  have := (applyRoundsG_near S ((triKeyOf t).map (pickW wa wb wc)) d 0 (NearL.map_mk S 0 row)).headD S
  refine this.cast ?_
  have hl : (triKeyOf t).length = t.1 + t.2.1 + t.2.2 := by
    unfold triKeyOf; simp only [List.length_append, List.length_replicate]
  rw [List.length_map, hl, hsum]; omega

/-- the subdivision weights are numbers of the arithmetic -/
theorem subWeights_fix (I : Idem fl) (hD : DyadicExact fl 1) :
    BaryFix fl (subWeights (K := F)).w0 ∧ BaryFix fl (subWeights (K := F)).w1 ∧
    BaryFix fl (subWeights (K := F)).w2 ∧ BaryFix fl (subWeights (K := F)).w3 ∧
    BaryFix fl (subWeights (K := F)).w4 ∧ BaryFix fl (subWeights (K := F)).w5 := by
  have h1 : fl (1 : F) = 1 := by have := hD.nat 1 (by norm_num); simpa using this
  have hh : fl ((1 : F) / (1 + 1)) = 1 / (1 + 1) := by
    have := hD 1 1 le_rfl (by norm_num); norm_num at this ⊢; exact this
  have h0 := I.zero
  simp only [subWeights, BaryFix]
  exact ⟨⟨h1, h0, h0⟩, ⟨hh, hh, h0⟩, ⟨hh, h0, hh⟩, ⟨h0, hh, hh⟩, ⟨h0, h1, h0⟩, ⟨h0, h0, h1⟩⟩

/-- **generic branch of `subdivide_nodes` (Python)** in rounded arithmetic -/
theorem py_triSubdivideGeneric_near (S : StdModel fl u) (I : Idem fl) (hD : DyadicExact fl 1) (d : ℕ)
    (hd : 1 ≤ d) (row : List F) (hrow : row.length = numNodes d) (qt : Quarter) :
    ∃ out, Py.triSubdivideGenericRow (subWeights (K := Fl F fl)) d (row.map Fl.mk) qt = .ok out ∧
      NearL fl u (3 * d) out (F90.triSubdivideGenericRow subWeights d row qt)
        (F90.triSubdivideGenericRow subWeights d (row.map (|·|)) qt) := by
  obtain ⟨e0, e1, e2, e3, e4, e5⟩ := subWeights_exact (fl := fl) hD
  obtain ⟨a0, a1, a2, a3, a4, a5⟩ := subWeights_abs (F := F)
  obtain ⟨f0, f1, f2, f3, f4, f5⟩ := subWeights_fix I hD
  unfold Py.triSubdivideGenericRow F90.triSubdivideGenericRow
  cases qt <;> simp only [quarterWeights]
  · have := py_triSpecialize_near S I d hd row hrow _ _ _ f0 f1 f2
    rwa [← e0, ← e1, ← e2, a0, a1, a2] at this
  · have := py_triSpecialize_near S I d hd row hrow _ _ _ f3 f2 f1
    rwa [← e3, ← e2, ← e1, a3, a2, a1] at this
  · have := py_triSpecialize_near S I d hd row hrow _ _ _ f1 f4 f3
    rwa [← e1, ← e4, ← e3, a1, a4, a3] at this
  · have := py_triSpecialize_near S I d hd row hrow _ _ _ f2 f3 f5
    rwa [← e2, ← e3, ← e5, a2, a3, a5] at this

end PyNear


/-! ## a concrete idempotent inexact arithmetic on `ℚ` (for non-vacuity) -/

/-- dyadic numbers with denominator up to `2^64` are kept, everything else is flushed to `0`:
    idempotent, exact on the dyadic weights, standard model with the (huge) unit round-off `u = 1` -/
def flFlush (x : ℚ) : ℚ := if x.den ∣ 2^64 then x else 0

theorem flFlush_std : StdModel flFlush 1 := by
  refine ⟨by norm_num, ?_⟩
  intro x
  unfold flFlush
  split <;> simp

theorem flFlush_idem : Idem flFlush := by
  refine ⟨?_, ?_⟩
  · intro x
    by_cases h : x.den ∣ 2^64
    · have e : flFlush x = x := by unfold flFlush; rw [if_pos h]
      rw [e, e]
    · have e : flFlush x = 0 := by unfold flFlush; rw [if_neg h]
      rw [e]; unfold flFlush; rw [if_pos (by simp)]
  · unfold flFlush; rw [if_pos (by simp)]

theorem flFlush_dyadic (n : ℕ) (hn : n ≤ 64) : DyadicExact flFlush n := by
  intro k m hk _
  unfold flFlush
  rw [if_pos]
  have e : ((m : ℚ) / 2^k) = Rat.divInt (m : ℤ) ((2^k : ℕ) : ℤ) := by
    rw [Rat.divInt_eq_div]; push_cast; rfl
  rw [e]
  have h1 := Rat.den_dvd (m : ℤ) ((2^k : ℕ) : ℤ)
  have h2 : (Rat.divInt (m : ℤ) ((2^k : ℕ) : ℤ)).den ∣ 2^k := Int.natCast_dvd_natCast.mp h1
  exact dvd_trans h2 (Nat.pow_dvd_pow 2 (by omega))

end BezierVerif.TriPy
