import BezierVerif.Lemmas.Coverage
import Mathlib.Tactic.Ring
import Mathlib.Tactic.Linarith
import Mathlib.Tactic.LinearCombination
import Mathlib.Tactic.Positivity
import Mathlib.Tactic.NormNum
import Mathlib.Tactic.FieldSimp
import Mathlib.Algebra.Order.BigOperators.Group.Finset

/-!
# Lemmas/SelfCover — helpers for the coverage / soundness theorems of `self_intersections` (`Props/C18Cover.lean`)

* angles in `[0, π)` as vectors of the half-open upper half plane `UpperOpen` (up to positive scaling): order by the
  cross product, `upper_mono` (a smaller angle still fits), `fits_assoc`;
* `cone_of_go`: if the turning-angle recursion `anglesBelowPi.go` accepts the turn numbers of a list of non-zero
  directions, all directions lie in a cone of opening `< π` around the first one; `halfplane_of_turning`: an explicit
  separating direction `d` with `d · e > 0` for every direction;
* `curve_strictMono_weak`, `dir_strictMono`: all hodograph control points in a closed half plane `d · Δ ≥ 0`, one of
  them strictly inside ⇒ `d · B(s)` strictly increasing on `[0, 1]`;
* `mergePairs_covers`: the merge with `add_intersection` keeps, for every pair of the blocks, the pair or a witness
  within the drop relation;
* `SubdivOK`, `Net2`, `NonConst`: the contract on `subdivide_nodes` used by the recursion (satisfied by either
  implementation), genuine `2 × N` nets, non-constant curves.
-/

namespace BezierVerif.SelfCover

open Model BezierVerif Pipe Cover

set_option linter.unusedSectionVars false
set_option linter.unusedVariables false

variable {K : Type} [Field K] [LinearOrder K] [IsStrictOrderedRing K]

/-! ## angles in `[0, π)` -/

/-- `a × b` -/
def cross (a b : K × K) : K := a.1 * b.2 - a.2 * b.1

/-- `a · b` -/
def dotp (a b : K × K) : K := a.1 * b.1 + a.2 * b.2

/-- complex conjugate -/
def conj (a : K × K) : K × K := (a.1, -a.2)

/-- squared norm -/
def nsq (a : K × K) : K := a.1 * a.1 + a.2 * a.2

theorem pos_right_of_mul_pos (a b : K) (h : 0 < a * b) (ha : 0 ≤ a) : 0 < b := by
  by_contra hn
  have := mul_nonpos_of_nonneg_of_nonpos ha (not_lt.mp hn)
  linarith

theorem nonneg_right_of_mul_nonneg (a b : K) (h : 0 ≤ a * b) (ha : 0 < a) : 0 ≤ b := by
  by_contra hn
  have := mul_neg_of_pos_of_neg ha (not_le.mp hn)
  linarith

theorem cmul_comm (a b : K × K) : cmul a b = cmul b a := by
  unfold cmul; exact Prod.ext (by ring) (by ring)

theorem cmul_assoc (a b c : K × K) : cmul (cmul a b) c = cmul a (cmul b c) := by
  unfold cmul; exact Prod.ext (by ring) (by ring)

theorem cmul_one (a : K × K) : cmul a (1, 0) = a := by
  unfold cmul; exact Prod.ext (by simp) (by simp)

theorem one_cmul (a : K × K) : cmul (1, 0) a = a := by
  rw [cmul_comm, cmul_one]

theorem upper_one : UpperOpen ((1, 0) : K × K) := Or.inr ⟨rfl, zero_lt_one⟩

theorem upper_im (a : K × K) (h : UpperOpen a) : 0 ≤ a.2 := by
  rcases h with h | ⟨h, _⟩
  · exact h.le
  · exact h.ge

theorem upper_nsq (a : K × K) (h : UpperOpen a) : 0 < nsq a := by
  unfold nsq
  rcases h with h | ⟨_, h⟩
  · nlinarith [mul_self_nonneg a.1, mul_pos h h]
  · nlinarith [mul_self_nonneg a.2, mul_pos h h]

theorem nsq_nonneg (a : K × K) : 0 ≤ nsq a := by
  unfold nsq; nlinarith [mul_self_nonneg a.1, mul_self_nonneg a.2]

theorem nsq_pos_of_ne (a : K × K) (h : a ≠ (0, 0)) : 0 < nsq a := by
  unfold nsq
  by_cases h1 : a.1 = 0
  · have h2 : a.2 ≠ 0 := fun h2 => h (Prod.ext h1 h2)
    nlinarith [mul_self_nonneg a.1, mul_self_pos.mpr h2]
  · nlinarith [mul_self_nonneg a.2, mul_self_pos.mpr h1]

theorem upper_smul (c : K) (hc : 0 < c) (a : K × K) (h : UpperOpen a) : UpperOpen (c * a.1, c * a.2) := by
  rcases h with h | ⟨h0, h1⟩
  · exact Or.inl (mul_pos hc h)
  · exact Or.inr ⟨by simp [h0], mul_pos hc h1⟩

/-- `x ∈ [0,π)`, `y ∈ [0,π]`, `x + y ∈ [0,π)` ⇒ `y ∈ [0,π)` -/
theorem upper_right (x y : K × K) (hx : UpperOpen x) (hy : 0 ≤ y.2) (hxy : UpperOpen (cmul x y)) : UpperOpen y := by
  rcases lt_or_eq_of_le hy with h | h
  · exact Or.inl h
  · right
    refine ⟨h.symm, ?_⟩
    have e1 : (cmul x y).1 = x.1 * y.1 := by unfold cmul; simp [← h]
    have e2 : (cmul x y).2 = x.2 * y.1 := by unfold cmul; simp [← h]
    unfold UpperOpen at hxy
    rw [e1, e2] at hxy
    rcases hx with hx | ⟨hx0, hx1⟩
    · rcases hxy with h1 | ⟨h1, h2⟩
      · exact pos_right_of_mul_pos _ _ h1 hx.le
      · have : y.1 = 0 := by
          rcases mul_eq_zero.mp h1 with h' | h'
          · exact absurd h' (ne_of_gt hx)
          · exact h'
        rw [this] at h2; simp at h2
    · rcases hxy with h1 | ⟨_, h2⟩
      · rw [hx0] at h1; simp at h1
      · exact pos_right_of_mul_pos _ _ h2 hx1.le

/-- **monotonicity**: `arg x ≤ arg y`, `arg y + arg z < π` ⇒ `arg x + arg z < π` -/
theorem upper_mono (x y z : K × K) (hx : UpperOpen x) (hy : UpperOpen y) (hle : 0 ≤ cross x y) (hz : 0 ≤ z.2)
    (hyz : UpperOpen (cmul y z)) : UpperOpen (cmul x z) := by
  have hzU : UpperOpen z := upper_right y z hy hz hyz
  rcases hzU with hz2 | ⟨hz0, hz1⟩
  · -- z.2 > 0
    rcases hy with hy2 | ⟨hy0, hy1⟩
    · -- y.2 > 0
      have hx2 := upper_im x hx
      have hyz2 := upper_im _ hyz
      have key : y.2 * (cmul x z).2 = x.2 * (cmul y z).2 + z.2 * cross x y := by
        unfold cmul cross; ring
      have h1 : 0 ≤ x.2 * (cmul y z).2 := mul_nonneg hx2 hyz2
      have h2 : 0 ≤ z.2 * cross x y := mul_nonneg hz2.le hle
      have hnn : 0 ≤ y.2 * (cmul x z).2 := by rw [key]; linarith
      have hnn' : 0 ≤ (cmul x z).2 := nonneg_right_of_mul_nonneg _ _ hnn hy2
      rcases lt_or_eq_of_le hnn' with hpos | hzero
      · exact Or.inl hpos
      · -- (xz).2 = 0
        have hk : x.2 * (cmul y z).2 + z.2 * cross x y = 0 := by rw [← key, ← hzero]; simp
        have h1z : x.2 * (cmul y z).2 = 0 := by linarith
        have h2z : z.2 * cross x y = 0 := by linarith
        have hc : cross x y = 0 := by
          rcases mul_eq_zero.mp h2z with h | h
          · exact absurd h (ne_of_gt hz2)
          · exact h
        rcases lt_or_eq_of_le hx2 with hx2p | hx20
        · -- x.2 > 0: (yz).2 = 0, x parallel to y
          have hyz0 : (cmul y z).2 = 0 := by
            rcases mul_eq_zero.mp h1z with h | h
            · exact absurd h (ne_of_gt hx2p)
            · exact h
          have hyz1 : 0 < (cmul y z).1 := by
            rcases hyz with h | ⟨_, h⟩
            · rw [hyz0] at h; exact absurd h (lt_irrefl _)
            · exact h
          right
          refine ⟨hzero.symm, ?_⟩
          have e : y.2 * (cmul x z).1 = x.2 * (cmul y z).1 + z.1 * cross x y := by
            unfold cmul cross; ring
          rw [hc, mul_zero, add_zero] at e
          have : 0 < y.2 * (cmul x z).1 := by rw [e]; exact mul_pos hx2p hyz1
          exact pos_right_of_mul_pos _ _ this hy2.le
        · -- x.2 = 0, x.1 > 0: (xz).2 = x.1 z.2 > 0
          have hx1 : 0 < x.1 := by
            rcases hx with h | ⟨_, h⟩
            · rw [← hx20] at h; exact absurd h (lt_irrefl _)
            · exact h
          have : (cmul x z).2 = x.1 * z.2 := by unfold cmul; rw [← hx20]; ring
          rw [this] at hzero
          have := mul_pos hx1 hz2
          rw [← hzero] at this; exact absurd this (lt_irrefl _)
    · -- y.2 = 0, y.1 > 0
      have hx2 := upper_im x hx
      have : cross x y = - (x.2 * y.1) := by unfold cross; rw [hy0]; ring
      rw [this] at hle
      have hx20 : x.2 = 0 := by
        rcases lt_or_eq_of_le hx2 with h | h
        · have := mul_pos h hy1; linarith
        · exact h.symm
      have hx1 : 0 < x.1 := by
        rcases hx with h | ⟨_, h⟩
        · rw [hx20] at h; exact absurd h (lt_irrefl _)
        · exact h
      left
      have : (cmul x z).2 = x.1 * z.2 := by unfold cmul; rw [hx20]; ring
      rw [this]; exact mul_pos hx1 hz2
  · -- z is a positive real
    have e : cmul x z = (z.1 * x.1, z.1 * x.2) := by
      unfold cmul; rw [hz0]; exact Prod.ext (by simp; ring) (by simp; ring)
    rw [e]; exact upper_smul z.1 hz1 x hx

/-- the order `arg x ≤ arg y` on `[0, π)` is transitive -/
theorem cross_trans (x y t : K × K) (hx : UpperOpen x) (hy : UpperOpen y) (ht : UpperOpen t)
    (h1 : 0 ≤ cross x y) (h2 : 0 ≤ cross y t) : 0 ≤ cross x t := by
  have key : y.2 * cross x t = x.2 * cross y t + t.2 * cross x y := by unfold cross; ring
  rcases hy with hy2 | ⟨hy0, hy1⟩
  · have : 0 ≤ y.2 * cross x t := by
      rw [key]; exact add_nonneg (mul_nonneg (upper_im x hx) h2) (mul_nonneg (upper_im t ht) h1)
    exact nonneg_right_of_mul_nonneg _ _ this hy2
  · have hx2 := upper_im x hx
    have e : cross x y = - (x.2 * y.1) := by unfold cross; rw [hy0]; ring
    rw [e] at h1
    have hx20 : x.2 = 0 := by
      rcases lt_or_eq_of_le hx2 with h | h
      · have := mul_pos h hy1; linarith
      · exact h.symm
    have hx1 : 0 < x.1 := by
      rcases hx with h | ⟨_, h⟩
      · rw [hx20] at h; exact absurd h (lt_irrefl _)
      · exact h
    have : cross x t = x.1 * t.2 := by unfold cross; rw [hx20]; ring
    rw [this]; exact mul_nonneg hx1.le (upper_im t ht)

theorem cross_self_cmul (a z : K × K) : cross a (cmul a z) = nsq a * z.2 := by
  unfold cross cmul nsq; ring

theorem cross_self_cmul' (a z : K × K) : cross a (cmul z a) = nsq a * z.2 := by
  unfold cross cmul nsq; ring

theorem cross_cmul_right (x y z : K × K) : cross (cmul x z) (cmul y z) = nsq z * cross x y := by
  unfold cross cmul nsq; ring

/-- `arg x + arg y < π` -/
def Fits (x y : K × K) : Prop := UpperOpen x ∧ UpperOpen y ∧ UpperOpen (cmul x y)

theorem fits_mono_right (x y y' : K × K) (h : Fits x y) (hy' : UpperOpen y') (hle : 0 ≤ cross y' y) :
    UpperOpen (cmul x y') := by
  rw [cmul_comm]
  apply upper_mono y' y x hy' h.2.1 hle (upper_im x h.1)
  rw [cmul_comm]; exact h.2.2

theorem fits_assoc (x y z : K × K) (h1 : Fits x y) (h2 : Fits (cmul x y) z) :
    Fits y z ∧ Fits x (cmul y z) := by
  have hyz : UpperOpen (cmul y z) := by
    apply upper_mono y (cmul x y) z h1.2.1 h1.2.2 ?_ (upper_im z h2.2.1) h2.2.2
    rw [cross_self_cmul']
    exact mul_nonneg (nsq_nonneg y) (upper_im x h1.1)
  refine ⟨⟨h1.2.1, h2.2.1, hyz⟩, h1.1, hyz, ?_⟩
  rw [← cmul_assoc]; exact h2.2.2

/-! ## the cone of directions accepted by the turning-angle recursion -/

theorem turnNumbers_cons_cons (a b : K × K) (rest : List (K × K)) :
    turnNumbers (a :: b :: rest)
      = (a.1 * b.1 + a.2 * b.2, absK (a.1 * b.2 - a.2 * b.1)) :: turnNumbers (b :: rest) := rfl

theorem turnNumbers_single (a : K × K) : turnNumbers [a] = [] := rfl

theorem absK_eq (x : K) : absK x = if x < 0 then -x else x := rfl

/-- the signed turn number `e₁ · conj e₀`: `|e₀|² e₁ = u e₀` -/
def turnOf (e0 e1 : K × K) : K × K := (dotp e0 e1, cross e0 e1)

theorem turnOf_spec (e0 e1 : K × K) : (nsq e0 * e1.1, nsq e0 * e1.2) = cmul (turnOf e0 e1) e0 := by
  unfold turnOf cmul dotp cross nsq; exact Prod.ext (by simp; ring) (by simp; ring)

/-- **cone**: if `anglesBelowPi.go` started at `w` (argument in `[0,π)`) accepts the turn numbers of the non-zero
    directions `e₀ :: es`, there are `a, b` (arguments `α, β ∈ [0,π)`, `arg w + α + β < π`) such that every
    direction is a positive multiple of `q e₀` with `−β ≤ arg q ≤ α` (written `q b ∈ [0,π)`, `arg (q b) ≤ arg (a b)`) -/
theorem cone_of_go : ∀ (es : List (K × K)) (e0 w : K × K), (∀ e ∈ e0 :: es, e ≠ (0, 0)) → UpperOpen w →
    anglesBelowPi.go (turnNumbers (e0 :: es)) w = true →
    ∃ a b : K × K, UpperOpen a ∧ UpperOpen b ∧ UpperOpen (cmul a b) ∧ UpperOpen (cmul w (cmul a b)) ∧
      ∀ e ∈ e0 :: es, ∃ (q : K × K) (c : K), 0 < c ∧ (c * e.1, c * e.2) = cmul q e0 ∧
        UpperOpen (cmul q b) ∧ 0 ≤ cross (cmul q b) (cmul a b) := by
  intro es
  induction es with
  | nil =>
    intro e0 w _ hw _
    refine ⟨(1, 0), (1, 0), upper_one, upper_one, ?_, ?_, ?_⟩
    · rw [cmul_one]; exact upper_one
    · rw [cmul_one, cmul_one]; exact hw
    · intro e he
      rw [List.mem_singleton] at he
      subst he
      refine ⟨(1, 0), 1, zero_lt_one, ?_, ?_, ?_⟩
      · rw [one_cmul]; simp
      · rw [cmul_one]; exact upper_one
      · rw [cmul_one]; unfold cross; simp
  | cons e1 rest ih =>
    intro e0 w hne hw hgo
    rw [turnNumbers_cons_cons, go_cons] at hgo
    set z : K × K := (e0.1 * e1.1 + e0.2 * e1.2, absK (e0.1 * e1.2 - e0.2 * e1.1)) with hz
    have hwz : UpperOpen (cmul w z) := by
      by_contra hn; rw [if_neg hn] at hgo; cases hgo
    rw [if_pos hwz] at hgo
    have hz2 : 0 ≤ z.2 := by
      show 0 ≤ absK (e0.1 * e1.2 - e0.2 * e1.1)
      rw [absK_eq]; split_ifs with h
      · linarith
      · exact not_lt.mp h
    have hzU : UpperOpen z := upper_right w z hw hz2 hwz
    have hnz : 0 < nsq z := upper_nsq z hzU
    have hN0 : 0 < nsq e0 := nsq_pos_of_ne e0 (hne e0 List.mem_cons_self)
    obtain ⟨a', b', ha', hb', hab', hwab', hel⟩ :=
      ih e1 (cmul w z) (fun e he => hne e (List.mem_cons_of_mem _ he)) hwz hgo
    have hF1 : Fits w z := ⟨hw, hzU, hwz⟩
    have hF2 : Fits (cmul w z) (cmul a' b') := ⟨hwz, hab', hwab'⟩
    obtain ⟨hF3, hF4⟩ := fits_assoc w z (cmul a' b') hF1 hF2
    -- `hF3 : Fits z (a' b')`, `hF4 : Fits w (z (a' b'))`
    have hspec := turnOf_spec e0 e1
    by_cases hcr : e0.1 * e1.2 - e0.2 * e1.1 < 0
    · -- right turn: `u = conj z`
      have hu : turnOf e0 e1 = conj z := by
        unfold turnOf conj dotp cross
        rw [hz]; simp only [absK_eq, if_pos hcr]; exact Prod.ext rfl (by simp)
      have hzb : UpperOpen (cmul z b') := by
        apply fits_mono_right z (cmul a' b') b' hF3 hb'
        rw [cross_self_cmul']; exact mul_nonneg (nsq_nonneg b') (upper_im a' ha')
      have e3 : cmul a' (cmul z b') = cmul z (cmul a' b') := by
        unfold cmul; exact Prod.ext (by ring) (by ring)
      have hab : UpperOpen (cmul a' (cmul z b')) := by rw [e3]; exact hF3.2.2
      refine ⟨a', cmul z b', ha', hzb, hab, ?_, ?_⟩
      · rw [e3]; exact hF4.2.2
      · intro e he
        rcases List.mem_cons.mp he with rfl | he'
        · refine ⟨(1, 0), 1, zero_lt_one, ?_, ?_, ?_⟩
          · rw [one_cmul]; simp
          · rw [one_cmul]; exact hzb
          · rw [one_cmul, cross_self_cmul']
            exact mul_nonneg (nsq_nonneg _) (upper_im a' ha')
        · obtain ⟨q', c', hc', hq', hU', hle'⟩ := hel e he'
          refine ⟨cmul q' (conj z), c' * nsq e0, mul_pos hc' hN0, ?_, ?_, ?_⟩
          · have h1 : c' * e.1 = (cmul q' e1).1 := congrArg Prod.fst hq'
            have h2 : c' * e.2 = (cmul q' e1).2 := congrArg Prod.snd hq'
            have s1 : nsq e0 * e1.1 = (cmul (conj z) e0).1 := by rw [← hu]; exact congrArg Prod.fst hspec
            have s2 : nsq e0 * e1.2 = (cmul (conj z) e0).2 := by rw [← hu]; exact congrArg Prod.snd hspec
            unfold cmul at h1 h2 s1 s2 ⊢
            simp only at h1 h2 s1 s2 ⊢
            refine Prod.ext ?_ ?_
            · simp only; linear_combination (nsq e0) * h1 + q'.1 * s1 - q'.2 * s2
            · simp only; linear_combination (nsq e0) * h2 + q'.1 * s2 + q'.2 * s1
          · have e4 : cmul (cmul q' (conj z)) (cmul z b') = (nsq z * (cmul q' b').1, nsq z * (cmul q' b').2) := by
              unfold cmul conj nsq; exact Prod.ext (by simp; ring) (by simp; ring)
            rw [e4]; exact upper_smul _ hnz _ hU'
          · have e4 : cmul (cmul q' (conj z)) (cmul z b') = (nsq z * (cmul q' b').1, nsq z * (cmul q' b').2) := by
              unfold cmul conj nsq; exact Prod.ext (by simp; ring) (by simp; ring)
            have e5 : cmul a' (cmul z b') = cmul (cmul a' b') z := by
              unfold cmul; exact Prod.ext (by ring) (by ring)
            rw [e4, e5]
            have ht : UpperOpen (cmul (cmul a' b') z) := by rw [← e5]; exact hab
            have h3 : 0 ≤ cross (cmul q' b') (cmul (cmul a' b') z) := by
              apply cross_trans _ (cmul a' b') _ hU' hab' ht hle'
              rw [cross_self_cmul]; exact mul_nonneg (nsq_nonneg _) hz2
            have : cross (nsq z * (cmul q' b').1, nsq z * (cmul q' b').2) (cmul (cmul a' b') z)
                = nsq z * cross (cmul q' b') (cmul (cmul a' b') z) := by
              unfold cross; simp only; ring
            rw [this]; exact mul_nonneg hnz.le h3
    · -- left turn: `u = z`
      have hu : turnOf e0 e1 = z := by
        unfold turnOf dotp cross
        rw [hz]; simp only [absK_eq, if_neg hcr]
      have hza : UpperOpen (cmul z a') := by
        apply fits_mono_right z (cmul a' b') a' hF3 ha'
        rw [cross_self_cmul]; exact mul_nonneg (nsq_nonneg a') (upper_im b' hb')
      have hab : UpperOpen (cmul (cmul z a') b') := by rw [cmul_assoc]; exact hF3.2.2
      refine ⟨cmul z a', b', hza, hb', hab, ?_, ?_⟩
      · rw [cmul_assoc]; exact hF4.2.2
      · intro e he
        rcases List.mem_cons.mp he with rfl | he'
        · refine ⟨(1, 0), 1, zero_lt_one, ?_, ?_, ?_⟩
          · rw [one_cmul]; simp
          · rw [one_cmul]; exact hb'
          · rw [one_cmul, cross_self_cmul']
            exact mul_nonneg (nsq_nonneg _) (upper_im _ hza)
        · obtain ⟨q', c', hc', hq', hU', hle'⟩ := hel e he'
          refine ⟨cmul q' z, c' * nsq e0, mul_pos hc' hN0, ?_, ?_, ?_⟩
          · have h1 : c' * e.1 = (cmul q' e1).1 := congrArg Prod.fst hq'
            have h2 : c' * e.2 = (cmul q' e1).2 := congrArg Prod.snd hq'
            have s1 : nsq e0 * e1.1 = (cmul z e0).1 := by rw [← hu]; exact congrArg Prod.fst hspec
            have s2 : nsq e0 * e1.2 = (cmul z e0).2 := by rw [← hu]; exact congrArg Prod.snd hspec
            unfold cmul at h1 h2 s1 s2 ⊢
            simp only at h1 h2 s1 s2 ⊢
            refine Prod.ext ?_ ?_
            · simp only; linear_combination (nsq e0) * h1 + q'.1 * s1 - q'.2 * s2
            · simp only; linear_combination (nsq e0) * h2 + q'.1 * s2 + q'.2 * s1
          · have e4 : cmul (cmul q' z) b' = cmul z (cmul q' b') := by
              unfold cmul; exact Prod.ext (by ring) (by ring)
            rw [e4]
            exact fits_mono_right z (cmul a' b') (cmul q' b') hF3 hU' hle'
          · have e4 : cmul (cmul q' z) b' = cmul (cmul q' b') z := by
              unfold cmul; exact Prod.ext (by ring) (by ring)
            have e5 : cmul (cmul z a') b' = cmul (cmul a' b') z := by
              unfold cmul; exact Prod.ext (by ring) (by ring)
            rw [e4, e5, cross_cmul_right]
            exact mul_nonneg hnz.le hle'

/-- from the cone to an explicit separating direction -/
theorem halfplane_of_cone (es : List (K × K)) (e0 a b : K × K) (he0 : e0 ≠ (0, 0)) (ha : UpperOpen a) (hb : UpperOpen b)
    (hab : UpperOpen (cmul a b))
    (hel : ∀ e ∈ es, ∃ (q : K × K) (c : K), 0 < c ∧ (c * e.1, c * e.2) = cmul q e0 ∧
        UpperOpen (cmul q b) ∧ 0 ≤ cross (cmul q b) (cmul a b)) :
    ∃ d : K × K, ∀ e ∈ es, 0 < dotp d e := by
  have hN0 : 0 < nsq e0 := nsq_pos_of_ne e0 he0
  -- `D`: a direction with `D · Q > 0` for every `Q ∈ [0, arg (a b)]`
  obtain ⟨D, hD⟩ : ∃ D : K × K, ∀ Q : K × K, UpperOpen Q → 0 ≤ cross Q (cmul a b) → 0 < dotp D Q := by
    rcases hab with hT2 | ⟨hT0, hT1⟩
    · refine ⟨((cmul a b).2, 1 - (cmul a b).1), ?_⟩
      intro Q hQ hle
      have e : dotp ((cmul a b).2, 1 - (cmul a b).1) Q = Q.2 + cross Q (cmul a b) := by
        unfold dotp cross; simp only; ring
      rw [e]
      rcases hQ with hQ2 | ⟨hQ0, hQ1⟩
      · linarith
      · have : cross Q (cmul a b) = Q.1 * (cmul a b).2 := by unfold cross; rw [hQ0]; ring
        rw [hQ0, this, zero_add]; exact mul_pos hQ1 hT2
    · refine ⟨(1, 0), ?_⟩
      intro Q hQ hle
      have e : cross Q (cmul a b) = - (Q.2 * (cmul a b).1) := by unfold cross; rw [hT0]; ring
      rw [e] at hle
      have hQ2 := upper_im Q hQ
      have hQ20 : Q.2 = 0 := by
        rcases lt_or_eq_of_le hQ2 with h | h
        · have := mul_pos h hT1; linarith
        · exact h.symm
      have hQ1 : 0 < Q.1 := by
        rcases hQ with h | ⟨_, h⟩
        · rw [hQ20] at h; exact absurd h (lt_irrefl _)
        · exact h
      unfold dotp; simpa using hQ1
  refine ⟨cmul (cmul D (conj b)) e0, ?_⟩
  intro e he
  obtain ⟨q, c, hc, hq, hU, hle⟩ := hel e he
  have hpos := hD (cmul q b) hU hle
  have h1 : c * e.1 = (cmul q e0).1 := congrArg Prod.fst hq
  have h2 : c * e.2 = (cmul q e0).2 := congrArg Prod.snd hq
  have key : c * dotp (cmul (cmul D (conj b)) e0) e = nsq e0 * dotp D (cmul q b) := by
    unfold cmul at h1 h2
    simp only at h1 h2
    unfold dotp cmul conj nsq
    simp only
    linear_combination ((D.1 * b.1 + D.2 * b.2) * e0.1 - (D.2 * b.1 - D.1 * b.2) * e0.2) * h1
      + ((D.1 * b.1 + D.2 * b.2) * e0.2 + (D.2 * b.1 - D.1 * b.2) * e0.1) * h2
  have : 0 < c * dotp (cmul (cmul D (conj b)) e0) e := by rw [key]; exact mul_pos hN0 hpos
  exact pos_right_of_mul_pos _ _ this hc.le

/-- **half plane**: if the test `anglesBelowPi` accepts the turn numbers of a non-empty list of non-zero directions,
    some direction `d` has `d · e > 0` for all of them -/
theorem halfplane_of_turning (e0 : K × K) (es : List (K × K)) (hne : ∀ e ∈ e0 :: es, e ≠ (0, 0))
    (h : anglesBelowPi (turnNumbers (e0 :: es)) = true) : ∃ d : K × K, ∀ e ∈ e0 :: es, 0 < dotp d e := by
  obtain ⟨a, b, ha, hb, hab, _, hel⟩ := cone_of_go es e0 (1, 0) hne upper_one h
  exact halfplane_of_cone (e0 :: es) e0 a b (hne e0 List.mem_cons_self) ha hb hab hel

/-! ## `edgeDirs` and the test `turningBelowPi` -/

theorem edgeDirs_ne (xs ys : List K) : ∀ e ∈ edgeDirs xs ys, e ≠ (0, 0) := by
  intro e he
  unfold edgeDirs at he
  rw [List.mem_map] at he
  obtain ⟨p, _, rfl⟩ := he
  split_ifs with h
  · intro h'; have := congrArg Prod.fst h'; simp at this
  · intro h'; exact h ⟨congrArg Prod.fst h', congrArg Prod.snd h'⟩

theorem edgeDirs_mem (xs ys : List K) (p : K × K) (hp : p ∈ List.zip (diffs xs) (diffs ys)) (hne : p ≠ (0, 0)) :
    p ∈ edgeDirs xs ys := by
  unfold edgeDirs
  rw [List.mem_map]
  refine ⟨p, hp, ?_⟩
  rw [if_neg]
  intro h; exact hne (Prod.ext h.1 h.2)

theorem edgeDirs_length (xs ys : List K) (hy : ys.length = xs.length) :
    (edgeDirs xs ys).length = xs.length - 1 := by
  unfold edgeDirs
  rw [List.length_map, List.length_zip, Lipschitz.diffs_length, Lipschitz.diffs_length, hy, min_self]

theorem turnNumbers_short : ∀ (l : List (K × K)), l.length ≤ 1 → turnNumbers l = []
  | [], _ => rfl
  | [_], _ => rfl
  | _ :: _ :: _, h => by simp at h

theorem anglesBelowPi_nil : anglesBelowPi ([] : List (K × K)) = true := rfl

/-- on a genuine `2 × N` net, `N ≥ 2`, the test `discrete_turning_angle(nodes) < π` is the angle test on the edge
    directions (for `N = 2` there is a single direction and nothing to test) -/
theorem turningBelowPi_pair (xs ys : List K) (hx : 2 ≤ xs.length) (hy : ys.length = xs.length)
    (h : turningBelowPi [xs, ys] = true) : anglesBelowPi (turnNumbers (edgeDirs xs ys)) = true := by
  unfold turningBelowPi at h
  have hn : ncols [xs, ys] = xs.length := rfl
  rw [hn] at h
  split_ifs at h with h3
  · rw [turnNumbers_short _ (by rw [edgeDirs_length xs ys hy]; omega)]; rfl
  · exact h

/-- **the separating direction**: when the test passes, some `d` has `d · Δ_j > 0` for every non-zero edge `Δ_j` of the
    control polygon, and (trivially) `d · Δ_j = 0` for the zero edges -/
theorem turning_halfplane (xs ys : List K) (hx : 2 ≤ xs.length) (hy : ys.length = xs.length)
    (h : turningBelowPi [xs, ys] = true) :
    ∃ d : K × K, ∀ p ∈ List.zip (diffs xs) (diffs ys), 0 ≤ dotp d p ∧ (p ≠ (0, 0) → 0 < dotp d p) := by
  have hang := turningBelowPi_pair xs ys hx hy h
  have hlen := edgeDirs_length xs ys hy
  match hE : edgeDirs xs ys, hlen with
  | [], hl => simp at hl; omega
  | e0 :: es, _ =>
    rw [hE] at hang
    obtain ⟨d, hd⟩ := halfplane_of_turning e0 es (by rw [← hE]; exact edgeDirs_ne xs ys) hang
    refine ⟨d, ?_⟩
    intro p hp
    by_cases h0 : p = (0, 0)
    · refine ⟨?_, fun hn => absurd h0 hn⟩
      rw [h0]; unfold dotp; simp
    · have := hd p (by rw [← hE]; exact edgeDirs_mem xs ys p hp h0)
      exact ⟨this.le, fun _ => this⟩

/-! ## hodograph in a closed half plane, not identically on its boundary ⇒ strictly monotone -/

theorem T_lower_left (t : K) (ht0 : 0 ≤ t) (u : ℕ → K) (j : ℕ) (h : 0 ≤ u (j + 1)) :
    (1 - t) * u j ≤ T (1 - t) t u j := by
  rw [T_apply]; nlinarith [mul_nonneg ht0 h]

theorem T_lower_right (t : K) (ht1 : t ≤ 1) (u : ℕ → K) (j : ℕ) (h : 0 ≤ u j) :
    t * u (j + 1) ≤ T (1 - t) t u j := by
  rw [T_apply]; nlinarith [mul_nonneg (sub_nonneg.mpr ht1) h]

/-- lower bound of a blossom value of non-negative data by one of its terms -/
theorem blossom_lower (a b : K) (ha0 : 0 ≤ a) (ha1 : a ≤ 1) (hb0 : 0 ≤ b) (hb1 : b ≤ 1) :
    ∀ (k l m : ℕ) (u : ℕ → K), (∀ j ≤ m + k + l, 0 ≤ u j) →
      ∀ j ≤ m, b ^ k * (1 - a) ^ l * u (j + k) ≤ ((T (1 - b) b) ^ k * (T (1 - a) a) ^ l) u j := by
  intro k
  induction k with
  | zero =>
    intro l
    induction l with
    | zero => intro m u hu j hj; simp
    | succ l ih =>
      intro m u hu j hj
      have eop : ((T (1 - b) b) ^ 0 * (T (1 - a) a) ^ (l + 1)) u j = ((T (1 - a) a) ^ l) (T (1 - a) a u) j := by
        rw [pow_zero, one_mul, pow_succ, Module.End.mul_apply]
      rw [eop]
      have hnn : ∀ j ≤ m + 0 + l, 0 ≤ T (1 - a) a u j :=
        Lipschitz.T_ge a 0 ha0 ha1 (m + 0 + l) u (by intro j hj; exact hu j (by omega))
      have h1 := ih m (T (1 - a) a u) hnn j hj
      have eop2 : ((T (1 - b) b) ^ 0 * (T (1 - a) a) ^ l) (T (1 - a) a u) j = ((T (1 - a) a) ^ l) (T (1 - a) a u) j := by
        rw [pow_zero, one_mul]
      rw [eop2] at h1
      have h2 := T_lower_left a ha0 u j (hu (j + 1) (by omega))
      have h3 : 0 ≤ (1 - a) ^ l := pow_nonneg (sub_nonneg.mpr ha1) l
      calc b ^ 0 * (1 - a) ^ (l + 1) * u (j + 0)
          = (1 - a) ^ l * ((1 - a) * u j) := by rw [pow_succ]; simp; ring
        _ ≤ (1 - a) ^ l * T (1 - a) a u j := mul_le_mul_of_nonneg_left h2 h3
        _ = b ^ 0 * (1 - a) ^ l * T (1 - a) a u (j + 0) := by simp
        _ ≤ _ := h1
  | succ k ih =>
    intro l m u hu j hj
    have eop : ((T (1 - b) b) ^ (k + 1) * (T (1 - a) a) ^ l) u j
        = T (1 - b) b (((T (1 - b) b) ^ k * (T (1 - a) a) ^ l) u) j := by
      rw [pow_succ', mul_assoc, Module.End.mul_apply]
    rw [eop]
    have hX : ∀ i ≤ m + 1, 0 ≤ ((T (1 - b) b) ^ k * (T (1 - a) a) ^ l) u i :=
      Lipschitz.blossom_ge b a 0 hb0 hb1 ha0 ha1 k l (m + 1) u (by intro j hj; exact hu j (by omega))
    have h1 := ih l (m + 1) u (by intro j hj; exact hu j (by omega)) (j + 1) (by omega)
    have h2 := T_lower_right b hb1 (((T (1 - b) b) ^ k * (T (1 - a) a) ^ l) u) j (hX j (by omega))
    have e : j + (k + 1) = j + 1 + k := by omega
    calc b ^ (k + 1) * (1 - a) ^ l * u (j + (k + 1))
        = b * (b ^ k * (1 - a) ^ l * u (j + 1 + k)) := by rw [e, pow_succ]; ring
      _ ≤ b * ((T (1 - b) b) ^ k * (T (1 - a) a) ^ l) u (j + 1) := mul_le_mul_of_nonneg_left h1 hb0
      _ ≤ _ := h2

/-- all forward differences `≥ 0`, one of them `> 0` ⇒ the coordinate function is strictly increasing on `[0,1]` -/
theorem curve_strictMono_weak (n : ℕ) (v : ℕ → K) (a b : K) (ha0 : 0 ≤ a) (hab : a < b) (hb1 : b ≤ 1)
    (hD : ∀ j < n, 0 ≤ Lipschitz.fdiff v j) (j0 : ℕ) (hj0 : j0 < n) (hpos : 0 < Lipschitz.fdiff v j0) :
    Lipschitz.curve n v a < Lipschitz.curve n v b := by
  have hb0 : 0 ≤ b := le_trans ha0 hab.le
  have ha1 : a ≤ 1 := le_trans hab.le hb1
  have key := Lipschitz.curve_sub n v b a
  have pos : 0 < ∑ k ∈ Finset.range n,
      (((T (1 - b) b) ^ k * (T (1 - a) a) ^ (n - 1 - k)) (Lipschitz.fdiff v)) 0 := by
    apply Finset.sum_pos'
    · intro k hk
      have hk' := Finset.mem_range.mp hk
      exact Lipschitz.blossom_ge b a 0 hb0 hb1 ha0 ha1 k (n - 1 - k) 0 (Lipschitz.fdiff v)
        (fun j hj => hD j (by omega)) 0 le_rfl
    · refine ⟨j0, Finset.mem_range.mpr hj0, ?_⟩
      have hl := blossom_lower a b ha0 ha1 hb0 hb1 j0 (n - 1 - j0) 0 (Lipschitz.fdiff v)
        (fun j hj => hD j (by omega)) 0 le_rfl
      rw [zero_add] at hl
      have hbp : 0 < b := lt_of_le_of_lt ha0 hab
      have hap : 0 < 1 - a := by linarith
      have : 0 < b ^ j0 * (1 - a) ^ (n - 1 - j0) * Lipschitz.fdiff v j0 :=
        mul_pos (mul_pos (pow_pos hbp _) (pow_pos hap _)) hpos
      exact lt_of_lt_of_le this hl
  have : 0 < Lipschitz.curve n v b - Lipschitz.curve n v a := by rw [key]; exact mul_pos (sub_pos.mpr hab) pos
  linarith

theorem seq_getElem (l : List K) (j : ℕ) (hj : j < l.length) : seq l j = l[j] := by
  unfold seq
  rw [List.getD_eq_getElem?_getD, List.getElem?_eq_getElem hj]; rfl

theorem evalBary_eq_curve (thr : ℕ) (xs : List K) (h : 2 ≤ xs.length) (s : K) :
    evalBary thr xs (1 - s) s = Lipschitz.curve (xs.length - 1) (seq xs) s := by
  rw [Geo.evalBary_eq_evalDC thr xs h, evalDC_eq _ _ _ xs (by omega)]; rfl

theorem curve_lin (n : ℕ) (d1 d2 : K) (v w : ℕ → K) (s : K) :
    d1 * Lipschitz.curve n v s + d2 * Lipschitz.curve n w s
      = Lipschitz.curve n (fun j => d1 * v j + d2 * w j) s := by
  unfold Lipschitz.curve
  have e : (fun j => d1 * v j + d2 * w j) = d1 • v + d2 • w := by
    funext j; simp
  rw [e, map_add, map_smul, map_smul]
  simp

/-- **the half-plane criterion in an arbitrary direction**: `d · Δ_j ≥ 0` for every edge of the control polygon and
    `> 0` for one of them ⇒ `s ↦ d · B(s)` is strictly increasing on `[0,1]` -/
theorem dir_strictMono (thr : ℕ) (xs ys : List K) (hx : 2 ≤ xs.length) (hy : ys.length = xs.length) (d : K × K)
    (hnn : ∀ p ∈ List.zip (diffs xs) (diffs ys), 0 ≤ dotp d p)
    (hpos : ∃ p ∈ List.zip (diffs xs) (diffs ys), 0 < dotp d p)
    (a b : K) (ha0 : 0 ≤ a) (hab : a < b) (hb1 : b ≤ 1) :
    d.1 * evalBary thr xs (1 - a) a + d.2 * evalBary thr ys (1 - a) a
      < d.1 * evalBary thr xs (1 - b) b + d.2 * evalBary thr ys (1 - b) b := by
  have hy2 : 2 ≤ ys.length := by omega
  rw [evalBary_eq_curve thr xs hx, evalBary_eq_curve thr ys hy2, evalBary_eq_curve thr xs hx,
    evalBary_eq_curve thr ys hy2, hy, curve_lin, curve_lin]
  have hdl : (List.zip (diffs xs) (diffs ys)).length = xs.length - 1 := by
    rw [List.length_zip, Lipschitz.diffs_length, Lipschitz.diffs_length, hy, min_self]
  have hfd : ∀ (j : ℕ) (hj : j < xs.length - 1),
      Lipschitz.fdiff (fun j => d.1 * seq xs j + d.2 * seq ys j) j
        = dotp d ((List.zip (diffs xs) (diffs ys))[j]'(by rw [hdl]; exact hj)) := by
    intro j hj
    have h1 := Lipschitz.seq_diffs xs j (by omega)
    have h2 := Lipschitz.seq_diffs ys j (by omega)
    rw [seq_getElem _ _ (by rw [Lipschitz.diffs_length]; omega)] at h1 h2
    rw [List.getElem_zip]
    unfold dotp
    simp only
    rw [h1, h2]
    unfold Lipschitz.fdiff
    ring
  obtain ⟨p, hp, hpp⟩ := hpos
  obtain ⟨j0, hj0, rfl⟩ := List.mem_iff_getElem.mp hp
  apply curve_strictMono_weak (xs.length - 1) _ a b ha0 hab hb1 ?_ j0 (by rw [← hdl]; exact hj0)
  · rw [hfd j0 (by rw [← hdl]; exact hj0)]; exact hpp
  · intro j hj
    rw [hfd j hj]
    exact hnn _ (List.getElem_mem _)

/-- … hence the curve is injective on `[0,1]` -/
theorem dir_injective (thr : ℕ) (xs ys : List K) (hx : 2 ≤ xs.length) (hy : ys.length = xs.length) (d : K × K)
    (hnn : ∀ p ∈ List.zip (diffs xs) (diffs ys), 0 ≤ dotp d p)
    (hpos : ∃ p ∈ List.zip (diffs xs) (diffs ys), 0 < dotp d p)
    (a b : K) (ha0 : 0 ≤ a) (ha1 : a ≤ 1) (hb0 : 0 ≤ b) (hb1 : b ≤ 1)
    (heq : evalPoint thr [xs, ys] a = evalPoint thr [xs, ys] b) : a = b := by
  simp only [evalPoint, List.map_cons, List.map_nil, List.cons.injEq, and_true] at heq
  rcases lt_trichotomy a b with hlt | he | hgt
  · have := dir_strictMono thr xs ys hx hy d hnn hpos a b ha0 hlt hb1
    rw [heq.1, heq.2] at this; exact absurd this (lt_irrefl _)
  · exact he
  · have := dir_strictMono thr xs ys hx hy d hnn hpos b a hb0 hgt ha1
    rw [heq.1, heq.2] at this; exact absurd this (lt_irrefl _)

/-! ## genuine `2 × N` nets, the contract on `subdivide_nodes`, non-constant curves -/

/-- a genuine `2 × N` array with `N ≥ 2` -/
def Net2 (nodes : List (List K)) : Prop := ∃ xs ys, nodes = [xs, ys] ∧ 2 ≤ xs.length ∧ ys.length = xs.length

theorem net2_planar (nodes : List (List K)) (h : Net2 nodes) : Planar nodes := by
  obtain ⟨xs, ys, rfl, hx, hy⟩ := h
  exact planar_pair xs ys hx (by omega)

/-- what the recursion of `self_intersections` needs from `subdivide_nodes`: the halves are again `2 × N` nets and
    are the curves `σ ↦ B(σ/2)`, `σ ↦ B((1+σ)/2)` -/
def SubdivOK (thr : ℕ) (P : Prims K) : Prop :=
  ∀ nodes, Net2 nodes → Net2 (P.subdivide nodes).1 ∧ Net2 (P.subdivide nodes).2 ∧
    (∀ σ, evalPoint thr (P.subdivide nodes).1 σ = evalPoint thr nodes (σ / 2)) ∧
    (∀ σ, evalPoint thr (P.subdivide nodes).2 σ = evalPoint thr nodes ((1 + σ) / 2))

/-- either implementation of `subdivide_nodes` satisfies the contract (`C04.subdivide_left_correct`,
    `C04.subdivide_right_correct`, `C04.subdivide_variants_agree`) -/
theorem subdivOK_of_eq (py : Bool) (thr : ℕ) (P : Prims K) (h : P.subdivide = subdivideOf py) : SubdivOK thr P := by
  intro nodes hN
  have hP := net2_planar nodes hN
  rw [h]
  refine ⟨?_, ?_, subdivide_left_eval py thr nodes hP.2, subdivide_right_eval py thr nodes hP.2⟩
  · obtain ⟨xs, ys, rfl, hx, hy⟩ := hN
    rw [subdivideOf_eq_py py _ hP.2]
    refine ⟨_, _, rfl, ?_, ?_⟩
    · rw [(py_subdivideRow_length xs (by omega)).1]; exact hx
    · rw [(py_subdivideRow_length xs (by omega)).1, (py_subdivideRow_length ys (by omega)).1]; exact hy
  · obtain ⟨xs, ys, rfl, hx, hy⟩ := hN
    rw [subdivideOf_eq_py py _ hP.2]
    refine ⟨_, _, rfl, ?_, ?_⟩
    · rw [(py_subdivideRow_length xs (by omega)).2]; exact hx
    · rw [(py_subdivideRow_length xs (by omega)).2, (py_subdivideRow_length ys (by omega)).2]; exact hy

theorem subdivOK_concrete (py : Bool) (C : PipelineConsts K) (thr : ℕ) : SubdivOK thr (concretePrims py C) :=
  subdivOK_of_eq py thr _ rfl

theorem subdivOK_stub (box : BoxKind) (err : ℚ) (thr : ℕ) : SubdivOK thr (stubPrims box err) :=
  subdivOK_of_eq true thr _ rfl

/-- the curve is not constant (as a polynomial map on `K`) -/
def NonConst (thr : ℕ) (nodes : List (List K)) : Prop := ∃ a b : K, evalPoint thr nodes a ≠ evalPoint thr nodes b

theorem nonconst_halves (thr : ℕ) (P : Prims K) (hS : SubdivOK thr P) (nodes : List (List K)) (hN : Net2 nodes)
    (h : NonConst thr nodes) : NonConst thr (P.subdivide nodes).1 ∧ NonConst thr (P.subdivide nodes).2 := by
  obtain ⟨_, _, hl, hr⟩ := hS nodes hN
  obtain ⟨a, b, hab⟩ := h
  refine ⟨⟨2 * a, 2 * b, ?_⟩, ⟨2 * a - 1, 2 * b - 1, ?_⟩⟩
  · rw [hl, hl]
    have e1 : 2 * a / 2 = a := by field_simp
    have e2 : 2 * b / 2 = b := by field_simp
    rw [e1, e2]; exact hab
  · rw [hr, hr]
    have e1 : (1 + (2 * a - 1)) / 2 = a := by field_simp; ring
    have e2 : (1 + (2 * b - 1)) / 2 = b := by field_simp; ring
    rw [e1, e2]; exact hab

/-- a blossom value of data vanishing on the index range vanishes (any field, any parameters) -/
theorem blossom_zero (a b : K) : ∀ (k l m : ℕ) (u : ℕ → K), (∀ j ≤ m + k + l, u j = 0) →
    ∀ j ≤ m, ((T (1 - a) a) ^ k * (T (1 - b) b) ^ l) u j = 0 := by
  have hT : ∀ (t : K) (m : ℕ) (u : ℕ → K), (∀ j ≤ m + 1, u j = 0) → ∀ j ≤ m, T (1 - t) t u j = 0 := by
    intro t m u hu j hj
    rw [T_apply, hu j (by omega), hu (j + 1) (by omega)]; simp
  intro k
  induction k with
  | zero =>
    intro l
    induction l with
    | zero => intro m u hu j hj; simpa using hu j (by omega)
    | succ l ih =>
      intro m u hu j hj
      rw [pow_zero, one_mul, pow_succ, Module.End.mul_apply]
      have := ih m (T (1 - b) b u) (hT b (m + 0 + l) u (by intro j hj; exact hu j (by omega)))
      simpa using this j hj
  | succ k ih =>
    intro l m u hu j hj
    rw [pow_succ', mul_assoc, Module.End.mul_apply]
    exact hT a m _ (fun j hj => ih l (m + 1) u (by intro j hj; exact hu j (by omega)) j hj) j hj

/-- all edges of a row zero ⇒ the coordinate function is constant on `K` -/
theorem const_of_zero_diffs (thr : ℕ) (xs : List K) (hx : 2 ≤ xs.length) (h : ∀ x ∈ diffs xs, x = 0) (a b : K) :
    evalBary thr xs (1 - a) a = evalBary thr xs (1 - b) b := by
  rw [evalBary_eq_curve thr xs hx, evalBary_eq_curve thr xs hx]
  have key := Lipschitz.curve_sub (xs.length - 1) (seq xs) a b
  have hz : ∀ k ∈ Finset.range (xs.length - 1),
      (((T (1 - a) a) ^ k * (T (1 - b) b) ^ (xs.length - 1 - 1 - k)) (Lipschitz.fdiff (seq xs))) 0 = 0 := by
    intro k hk
    have hk' := Finset.mem_range.mp hk
    apply blossom_zero a b k (xs.length - 1 - 1 - k) 0 _ _ 0 le_rfl
    intro j hj
    rw [← Lipschitz.seq_diffs xs j (by omega)]
    exact h _ (seq_mem _ _ (by rw [Lipschitz.diffs_length]; omega))
  rw [Finset.sum_eq_zero hz, mul_zero] at key
  exact sub_eq_zero.mp key

/-- a non-constant curve has a non-zero edge in its control polygon -/
theorem nonconst_edge (thr : ℕ) (xs ys : List K) (hx : 2 ≤ xs.length) (hy : ys.length = xs.length)
    (h : NonConst thr [xs, ys]) : ∃ p ∈ List.zip (diffs xs) (diffs ys), p ≠ (0, 0) := by
  by_contra hn
  have hall : ∀ p ∈ List.zip (diffs xs) (diffs ys), p = (0, 0) := by
    intro p hp
    by_contra hp0
    exact hn ⟨p, hp, hp0⟩
  have hlx := Lipschitz.diffs_length xs
  have hly := Lipschitz.diffs_length ys
  have hX : ∀ x ∈ diffs xs, x = 0 := by
    intro x hxm
    obtain ⟨j, hj, rfl⟩ := List.mem_iff_getElem.mp hxm
    have hj2 : j < (diffs ys).length := by omega
    have := hall ((diffs xs)[j], (diffs ys)[j]) (by
      rw [List.mem_iff_getElem]
      exact ⟨j, by rw [List.length_zip]; omega, by rw [List.getElem_zip]⟩)
    exact congrArg Prod.fst this
  have hY : ∀ y ∈ diffs ys, y = 0 := by
    intro y hym
    obtain ⟨j, hj, rfl⟩ := List.mem_iff_getElem.mp hym
    have hj2 : j < (diffs xs).length := by omega
    have := hall ((diffs xs)[j], (diffs ys)[j]) (by
      rw [List.mem_iff_getElem]
      exact ⟨j, by rw [List.length_zip]; omega, by rw [List.getElem_zip]⟩)
    exact congrArg Prod.snd this
  obtain ⟨a, b, hab⟩ := h
  apply hab
  simp only [evalPoint, List.map_cons, List.map_nil]
  rw [const_of_zero_diffs thr xs hx hX a b, const_of_zero_diffs thr ys (by omega) hY a b]

/-- **soundness of the pruning test** (list form): a `2 × N` net, `N ≥ 2`, with at least one non-zero edge, on which
    `discrete_turning_angle(nodes) < π` holds, is injective on `[0,1]` -/
theorem turning_injective (thr : ℕ) (xs ys : List K) (hx : 2 ≤ xs.length) (hy : ys.length = xs.length)
    (hne : ∃ p ∈ List.zip (diffs xs) (diffs ys), p ≠ (0, 0)) (h : turningBelowPi [xs, ys] = true)
    (a b : K) (ha0 : 0 ≤ a) (ha1 : a ≤ 1) (hb0 : 0 ≤ b) (hb1 : b ≤ 1)
    (heq : evalPoint thr [xs, ys] a = evalPoint thr [xs, ys] b) : a = b := by
  obtain ⟨d, hd⟩ := turning_halfplane xs ys hx hy h
  obtain ⟨p, hp, hp0⟩ := hne
  exact dir_injective thr xs ys hx hy d (fun q hq => (hd q hq).1) ⟨p, hp, (hd p hp).2 hp0⟩ a b ha0 ha1 hb0 hb1 heq

/-! ## the merge step keeps a representative -/

/-- the stored pair `q` makes `add_intersection` drop the new pair `p` -/
def Drops (G : GeoConsts K) (q p : K × K) : Prop :=
  (p.1 - q.1) * (p.1 - q.1) + (p.2 - q.2) * (p.2 - q.2) < G.ratioSq * normSq G p.1 p.2

/-- `q` represents `p` after a merge: it is `p`, or it made `add_intersection` drop `p` -/
def Near (G : GeoConsts K) (q p : K × K) : Prop := q = p ∨ Drops G q p

theorem addIntersection_covers (G : GeoConsts K) (s t : K) (acc : List (K × K)) :
    ∃ q ∈ addIntersection G s t acc, Near G q (s, t) := by
  rcases addIntersection_cases G s t acc with ⟨h, _⟩ | ⟨h, q, hq, hd⟩
  · rw [h]; exact ⟨(s, t), by simp, Or.inl rfl⟩
  · rw [h]; exact ⟨q, hq, Or.inr hd⟩

/-- **the merge keeps a representative**: every pair of the accumulator or of the blocks is in the result or was
    dropped because of a pair of the result -/
theorem mergePairs_covers (G : GeoConsts K) : ∀ (blocks acc : List (K × K)) (p : K × K),
    p ∈ acc ∨ p ∈ blocks → ∃ q ∈ mergePairs G blocks acc, Near G q p := by
  intro blocks
  induction blocks with
  | nil =>
    intro acc p hp
    rcases hp with hp | hp
    · exact ⟨p, hp, Or.inl rfl⟩
    · cases hp
  | cons b rest ih =>
    intro acc p hp
    have hm : mergePairs G (b :: rest) acc = mergePairs G rest (addIntersection G b.1 b.2 acc) := rfl
    rw [hm]
    rcases hp with hp | hp
    · exact ih _ p (Or.inl ((addIntersection_prefix G b.1 b.2 acc).subset hp))
    · rcases List.mem_cons.mp hp with rfl | hp'
      · obtain ⟨q, hq, hn⟩ := addIntersection_covers G p.1 p.2 acc
        exact ⟨q, (mergePairs_prefix G rest _).subset hq, hn⟩
      · exact ih _ p (Or.inr hp')

/-- in the unit square the drop relation is at most `ε` per coordinate, `ε² ≥ 2·NEWTON_ERROR_RATIO²` -/
theorem near_dist (G : GeoConsts K) (hr : 0 ≤ G.ratioSq) (ε : K) (hε0 : 0 ≤ ε) (hε : 2 * G.ratioSq ≤ ε * ε)
    (q p : K × K) (hp : 0 ≤ p.1 ∧ p.1 ≤ 1 ∧ 0 ≤ p.2 ∧ p.2 ≤ 1) (h : Near G q p) :
    |q.1 - p.1| ≤ ε ∧ |q.2 - p.2| ≤ ε := by
  rcases h with rfl | h
  · simp [hε0]
  · unfold Drops at h
    have hn := normSq_le_two G p.1 p.2 ⟨hp.1, hp.2.1⟩ ⟨hp.2.2.1, hp.2.2.2⟩
    have hb : G.ratioSq * normSq G p.1 p.2 ≤ ε * ε := by
      have := mul_le_mul_of_nonneg_left hn hr
      linarith
    have key : ∀ x : K, x * x ≤ ε * ε → |x| ≤ ε := by
      intro x hx
      by_contra hc
      have hc' := not_le.mp hc
      have := mul_self_lt_mul_self hε0 hc'
      rw [abs_mul_abs_self] at this
      linarith
    constructor
    · apply key
      nlinarith [mul_self_nonneg (p.2 - q.2)]
    · apply key
      nlinarith [mul_self_nonneg (p.1 - q.1)]

/-- the merge of pairs of the unit square moves a pair by at most `ε` -/
theorem merge_step (G : GeoConsts K) (hr : 0 ≤ G.ratioSq) (ε : K) (hε0 : 0 ≤ ε) (hε : 2 * G.ratioSq ≤ ε * ε)
    (blocks : List (K × K)) (p : K × K) (hp : p ∈ blocks) (hsq : 0 ≤ p.1 ∧ p.1 ≤ 1 ∧ 0 ≤ p.2 ∧ p.2 ≤ 1) :
    ∃ q ∈ mergePairs G blocks [], |q.1 - p.1| ≤ ε ∧ |q.2 - p.2| ≤ ε := by
  obtain ⟨q, hq, hn⟩ := mergePairs_covers G blocks [] p (Or.inr hp)
  exact ⟨q, hq, near_dist G hr ε hε0 hε q p hsq hn⟩

/-- the accumulated merge tolerance after `f` levels: `2 ε (1 − 2^{-f})` -/
def mergeBound (ε : K) (f : ℕ) : K := 2 * ε * (1 - (1 / 2) ^ f)

theorem mergeBound_succ (ε : K) (f : ℕ) : mergeBound ε (f + 1) = ε + mergeBound ε f / 2 := by
  unfold mergeBound; rw [pow_succ]; ring

theorem mergeBound_nonneg (ε : K) (hε : 0 ≤ ε) (f : ℕ) : 0 ≤ mergeBound ε f := by
  unfold mergeBound
  have : ((1 : K) / 2) ^ f ≤ 1 := pow_le_one₀ (by norm_num) (by norm_num)
  exact mul_nonneg (by linarith) (by linarith)

theorem mergeBound_le (ε : K) (hε : 0 ≤ ε) (f : ℕ) : mergeBound ε f ≤ 2 * ε := by
  unfold mergeBound
  have : (0 : K) ≤ ((1 : K) / 2) ^ f := pow_nonneg (by norm_num) f
  nlinarith [mul_nonneg hε this]

theorem mergeBound_zero (f : ℕ) : mergeBound (0 : K) f = 0 := by unfold mergeBound; simp

/-! ## self-crossings, the coverage case split, conditional completeness and soundness -/

/-- `(s₁, s₂)` is a self-crossing of the curve: `0 ≤ s₁ < s₂ ≤ 1`, `B(s₁) = B(s₂)` -/
def SelfCross (thr : ℕ) (nodes : List (List K)) (s1 s2 : K) : Prop :=
  0 ≤ s1 ∧ s1 < s2 ∧ s2 ≤ 1 ∧ evalPoint thr nodes s1 = evalPoint thr nodes s2

/-- completeness of `all_intersections` on `2 × N` nets, exact arithmetic (property C03, taken as hypothesis):
    whenever the call returns, every common point with parameters in the unit square is in the list -/
def AllComplete (thr : ℕ) (P : Prims K) (G : GeoConsts K) : Prop :=
  ∀ n1 n2 pts flag, Net2 n1 → Net2 n2 → allIntersections P G n1 n2 = .ok (pts, flag) →
    ∀ s t, TrueInt thr n1 n2 s t → (s, t) ∈ pts

/-- soundness of `all_intersections` on `2 × N` nets: every returned pair is a common point -/
def AllSound (thr : ℕ) (P : Prims K) (G : GeoConsts K) : Prop :=
  ∀ n1 n2 pts flag, Net2 n1 → Net2 n2 → allIntersections P G n1 n2 = .ok (pts, flag) →
    ∀ p ∈ pts, evalPoint thr n1 p.1 = evalPoint thr n2 p.2

/-- the case split behind the recursion -/
theorem selfCross_split (thr : ℕ) (P : Prims K) (hS : SubdivOK thr P) (nodes : List (List K)) (hN : Net2 nodes)
    (s1 s2 : K) (h : SelfCross thr nodes s1 s2) :
    (s2 ≤ 1 / 2 → SelfCross thr (P.subdivide nodes).1 (2 * s1) (2 * s2)) ∧
    (1 / 2 ≤ s1 → SelfCross thr (P.subdivide nodes).2 (2 * s1 - 1) (2 * s2 - 1)) ∧
    (s1 ≤ 1 / 2 → 1 / 2 ≤ s2 →
      TrueInt thr (P.subdivide nodes).1 (P.subdivide nodes).2 (2 * s1) (2 * s2 - 1) ∧
        ¬ (2 * s1 = 1 ∧ 2 * s2 - 1 = 0)) := by
  obtain ⟨_, _, hl, hr⟩ := hS nodes hN
  obtain ⟨h0, hlt, h1, heq⟩ := h
  have e1 : ∀ x : K, 2 * x / 2 = x := by intro x; field_simp
  have e2 : ∀ x : K, (1 + (2 * x - 1)) / 2 = x := by intro x; field_simp; ring
  refine ⟨?_, ?_, ?_⟩
  · intro h2
    refine ⟨by linarith, by linarith, by linarith, ?_⟩
    rw [hl, hl, e1, e1]; exact heq
  · intro h2
    refine ⟨by linarith, by linarith, by linarith, ?_⟩
    rw [hr, hr, e2, e2]; exact heq
  · intro ha hb
    refine ⟨⟨by linarith, by linarith, by linarith, by linarith, ?_⟩, ?_⟩
    · rw [hl, hr, e1, e2]; exact heq
    · rintro ⟨ha', hb'⟩; linarith

/-- **conditional completeness**, with the accumulated merge tolerance `mergeBound ε fuel = 2 ε (1 − 2^{-fuel})` -/
theorem selfIntersections_complete (thr : ℕ) (P : Prims K) (G : GeoConsts K) (hS : SubdivOK thr P) (hA : AllOK P G)
    (hC : AllComplete thr P G) (hr : 0 ≤ G.ratioSq) (ε : K) (hε0 : 0 ≤ ε) (hε : 2 * G.ratioSq ≤ ε * ε) :
    ∀ (fuel : ℕ) (nodes : List (List K)) (pts : List (K × K)), Net2 nodes → NonConst thr nodes →
      selfIntersections P G fuel nodes = .ok pts →
      ∀ s1 s2, SelfCross thr nodes s1 s2 →
        ∃ q ∈ pts, |q.1 - s1| ≤ mergeBound ε fuel ∧ |q.2 - s2| ≤ mergeBound ε fuel := by
  intro fuel
  induction fuel with
  | zero => intro nodes pts _ _ h; rw [selfIntersections_zero] at h; cases h
  | succ f ih =>
    intro nodes pts hN hNC h s1 s2 hX
    rw [selfIntersections_succ] at h
    split_ifs at h with htest
    · -- pruned: there is no self-crossing
      exfalso
      obtain ⟨xs, ys, rfl, hx, hy⟩ := hN
      obtain ⟨h0, hlt, h1, heq⟩ := hX
      have := turning_injective thr xs ys hx hy (nonconst_edge thr xs ys hx hy hNC) htest s1 s2
        h0 (by linarith) (by linarith) h1 heq
      rw [this] at hlt; exact lt_irrefl _ hlt
    · split at h
      · cases h
      · cases h
      · rename_i leftSelf rightSelf hl hrr
        split at h
        · cases h
        · rename_i lrInts flag hall
          obtain ⟨hNl, hNr, _, _⟩ := hS nodes hN
          obtain ⟨hNCl, hNCr⟩ := nonconst_halves thr P hS nodes hN hNC
          obtain ⟨cL, cR, cX⟩ := selfCross_split thr P hS nodes hN s1 s2 hX
          have hsL := selfIntersections_strict P G hA f _ _ hl
          have hsR := selfIntersections_strict P G hA f _ _ hrr
          have hcross := crossPairs_spec lrInts (hA _ _ _ _ hall)
          have hB := mergeBound_succ ε f
          have hB0 := mergeBound_nonneg ε hε0 f
          cases h
          obtain ⟨h0, hlt, h1, _⟩ := hX
          rcases le_total s2 (1 / 2) with h2 | h2
          · -- both parameters in the left half
            obtain ⟨q', hq', hd1, hd2⟩ := ih _ _ hNl hNCl hl _ _ (cL h2)
            obtain ⟨g0, g1, g2⟩ := hsL q' hq'
            obtain ⟨q, hq, hm1, hm2⟩ := merge_step G hr ε hε0 hε
              (leftSelf.map (fun p => ((1 / (1 + 1) : K) * p.1, (1 / (1 + 1) : K) * p.2)) ++ crossPairs lrInts
                ++ rightSelf.map (fun p => ((1 / (1 + 1) : K) + 1 / (1 + 1) * p.1, (1 / (1 + 1) : K) + 1 / (1 + 1) * p.2)))
              ((1 / (1 + 1) : K) * q'.1, (1 / (1 + 1) : K) * q'.2)
              (by simp only [List.mem_append, List.mem_map]; exact Or.inl (Or.inl ⟨q', hq', rfl⟩))
              (by simp only [half_eq]; refine ⟨by linarith, by linarith, by linarith, by linarith⟩)
            refine ⟨q, hq, ?_, ?_⟩
            · simp only [half_eq] at hm1
              rw [abs_le] at hm1 hd1 ⊢
              constructor <;> linarith [hm1.1, hm1.2, hd1.1, hd1.2]
            · simp only [half_eq] at hm2
              rw [abs_le] at hm2 hd2 ⊢
              constructor <;> linarith [hm2.1, hm2.2, hd2.1, hd2.2]
          · rcases le_total (1 / 2) s1 with h3 | h3
            · -- both parameters in the right half
              obtain ⟨q', hq', hd1, hd2⟩ := ih _ _ hNr hNCr hrr _ _ (cR h3)
              obtain ⟨g0, g1, g2⟩ := hsR q' hq'
              obtain ⟨q, hq, hm1, hm2⟩ := merge_step G hr ε hε0 hε
                (leftSelf.map (fun p => ((1 / (1 + 1) : K) * p.1, (1 / (1 + 1) : K) * p.2)) ++ crossPairs lrInts
                  ++ rightSelf.map (fun p => ((1 / (1 + 1) : K) + 1 / (1 + 1) * p.1, (1 / (1 + 1) : K) + 1 / (1 + 1) * p.2)))
                ((1 / (1 + 1) : K) + 1 / (1 + 1) * q'.1, (1 / (1 + 1) : K) + 1 / (1 + 1) * q'.2)
                (by simp only [List.mem_append, List.mem_map]; exact Or.inr ⟨q', hq', rfl⟩)
                (by simp only [half_eq]; refine ⟨by linarith, by linarith, by linarith, by linarith⟩)
              refine ⟨q, hq, ?_, ?_⟩
              · simp only [half_eq] at hm1
                rw [abs_le] at hm1 hd1 ⊢
                constructor <;> linarith [hm1.1, hm1.2, hd1.1, hd1.2]
              · simp only [half_eq] at hm2
                rw [abs_le] at hm2 hd2 ⊢
                constructor <;> linarith [hm2.1, hm2.2, hd2.1, hd2.2]
            · -- one parameter in each half: a true intersection of the two halves, not the junction
              obtain ⟨hT, hnj⟩ := cX h3 h2
              have hmem := hC _ _ _ _ hNl hNr hall _ _ hT
              have hin : (s1, s2) ∈ crossPairs lrInts := by
                unfold crossPairs
                rw [List.mem_filter, List.mem_map]
                refine ⟨⟨(2 * s1, 2 * s2 - 1), hmem, ?_⟩, ?_⟩
                · simp only [half_eq]
                  exact Prod.ext (by simp) (by simp; ring)
                · simp only [half_eq, Bool.not_eq_true', decide_eq_false_iff_not, not_and]
                  intro ha hb
                  rw [ha, hb] at hlt; exact lt_irrefl _ hlt
              obtain ⟨q, hq, hm1, hm2⟩ := merge_step G hr ε hε0 hε
                (leftSelf.map (fun p => ((1 / (1 + 1) : K) * p.1, (1 / (1 + 1) : K) * p.2)) ++ crossPairs lrInts
                  ++ rightSelf.map (fun p => ((1 / (1 + 1) : K) + 1 / (1 + 1) * p.1, (1 / (1 + 1) : K) + 1 / (1 + 1) * p.2)))
                (s1, s2)
                (by simp only [List.mem_append]; exact Or.inl (Or.inr hin))
                ⟨h0, by linarith, by linarith, h1⟩
              refine ⟨q, hq, ?_, ?_⟩
              · exact le_trans hm1 (by rw [hB]; linarith)
              · exact le_trans hm2 (by rw [hB]; linarith)

/-- **conditional soundness**: every returned pair is a genuine double point of the input curve -/
theorem selfIntersections_sound (thr : ℕ) (P : Prims K) (G : GeoConsts K) (hS : SubdivOK thr P)
    (hSd : AllSound thr P G) :
    ∀ (fuel : ℕ) (nodes : List (List K)) (pts : List (K × K)), Net2 nodes →
      selfIntersections P G fuel nodes = .ok pts →
      ∀ p ∈ pts, evalPoint thr nodes p.1 = evalPoint thr nodes p.2 := by
  intro fuel
  induction fuel with
  | zero => intro nodes pts _ h; rw [selfIntersections_zero] at h; cases h
  | succ f ih =>
    intro nodes pts hN h
    rw [selfIntersections_succ] at h
    split_ifs at h with htest
    · cases h; intro p hp; cases hp
    · split at h
      · cases h
      · cases h
      · rename_i leftSelf rightSelf hl hrr
        split at h
        · cases h
        · rename_i lrInts flag hall
          obtain ⟨hNl, hNr, hel, her⟩ := hS nodes hN
          have ihl := ih _ _ hNl hl
          have ihr := ih _ _ hNr hrr
          have hsd := hSd _ _ _ _ hNl hNr hall
          cases h
          intro p hp
          have hp := (mergePairs_mem G _ _ p hp).resolve_left (by simp)
          simp only [List.mem_append, List.mem_map] at hp
          have e1 : ∀ x : K, 1 / 2 * x = x / 2 := by intro x; ring
          have e2 : ∀ x : K, 1 / 2 * x + 1 / 2 = (1 + x) / 2 := by intro x; ring
          have e3 : ∀ x : K, 1 / 2 + 1 / 2 * x = (1 + x) / 2 := by intro x; ring
          rcases hp with (⟨q, hq, rfl⟩ | hp) | ⟨q, hq, rfl⟩
          · have := ihl q hq
            rw [hel, hel] at this
            simp only [half_eq, e1]; exact this
          · unfold crossPairs at hp
            rw [List.mem_filter, List.mem_map] at hp
            obtain ⟨⟨q, hq, rfl⟩, _⟩ := hp
            have := hsd q hq
            rw [hel, her] at this
            simp only [half_eq]; rw [e2 q.2, e1 q.1]; exact this
          · have := ihr q hq
            rw [her, her] at this
            simp only [half_eq, e3]; exact this

end BezierVerif.SelfCover
