import Mathlib.Algebra.Module.LinearMap.End
import Mathlib.Algebra.Module.Pi
import Mathlib.Algebra.BigOperators.Pi
import Mathlib.Algebra.Algebra.Basic
import Mathlib.Data.Nat.Choose.Sum
import Mathlib.Algebra.BigOperators.Ring.Finset
import Mathlib.Algebra.Order.Field.Basic
import Mathlib.Tactic.Ring
import Mathlib.Tactic.Linarith

/-!
# Lemmas/Shift — everything is a polynomial in one shift operator

`S v j = v (j+1)`, `T a b = a•1 + b•S` is one de Casteljau round on sequences; all `T a b`
commute, so evaluation, specialisation, subdivision and elevation are identities between
commuting powers (`Commute.add_pow`).
-/

namespace BezierVerif

open Finset

variable {K : Type} [Field K]
/-- shift on sequences as a linear endomorphism -/
def S : Module.End K (ℕ → K) where
  toFun v := fun j => v (j+1)
  map_add' _ _ := rfl
  map_smul' _ _ := rfl

@[simp] theorem S_apply (v : ℕ → K) (j : ℕ) : (S v) j = v (j+1) := rfl

theorem S_pow_apply (k : ℕ) (v : ℕ → K) (j : ℕ) : ((S : Module.End K (ℕ → K))^k) v j = v (j+k) := by
  induction k generalizing v j with
  | zero => simp
  | succ k ih =>
    rw [pow_succ, Module.End.mul_apply, ih]
    rfl

/-- one de Casteljau round with weights a,b : a*v_j + b*v_{j+1} -/
def T (a b : K) : Module.End K (ℕ → K) := a • (1 : Module.End K (ℕ → K)) + b • S

theorem T_apply (a b : K) (v : ℕ → K) (j : ℕ) : T a b v j = a * v j + b * v (j+1) := by
  simp [T]

theorem T_commute (a b c d : K) : Commute (T a b) (T c d) := by
  unfold T
  have h1 : Commute (a • (1 : Module.End K (ℕ → K))) (c • 1) := by
    apply Commute.smul_left; apply Commute.smul_right; exact Commute.one_left _
  have hS : Commute (S : Module.End K (ℕ → K)) S := Commute.refl _
  apply Commute.add_left <;> apply Commute.add_right
  · exact h1
  · apply Commute.smul_left; apply Commute.smul_right; exact Commute.one_left _
  · apply Commute.smul_left; apply Commute.smul_right; exact Commute.one_right _
  · apply Commute.smul_left; apply Commute.smul_right; exact hS

theorem apply_mul_natCast (f : Module.End K (ℕ → K)) (c : ℕ) (v : ℕ → K) (i : ℕ) :
    (f * (c : Module.End K (ℕ → K))) v i = (c : K) * f v i := by
  rw [Module.End.mul_apply, Module.End.natCast_apply, map_nsmul]
  simp [nsmul_eq_mul]

/-- Bernstein form -/
def bern (n : ℕ) (a b : K) (v : ℕ → K) : K :=
  ∑ j ∈ range (n+1), (n.choose j : K) * a^(n-j) * b^j * v j

theorem T_pow_apply_zero (a b : K) (n : ℕ) (v : ℕ → K) : ((T a b)^n) v 0 = bern n a b v := by
  unfold T bern
  have hc : Commute (b • (S : Module.End K (ℕ → K))) (a • (1 : Module.End K (ℕ → K))) := by
    apply Commute.smul_left; apply Commute.smul_right; exact Commute.one_right _
  rw [add_comm, hc.add_pow]
  simp only [LinearMap.sum_apply, Finset.sum_apply]
  apply Finset.sum_congr rfl
  intro j _
  rw [apply_mul_natCast]
  simp [smul_pow, S_pow_apply, Module.End.mul_apply]
  ring

/-- T is linear in the weights: convex combination of operators -/
theorem T_lin (s a b c d : K) : (1 - s) • T a b + s • T c d = T ((1-s)*a + s*c) ((1-s)*b + s*d) := by
  unfold T; ext v j; simp; ring

/-- Specialization: control point i of the curve restricted to [α, β] -/
def specPt (n : ℕ) (α β : K) (v : ℕ → K) (i : ℕ) : K :=
  (((T (1-β) β)^i * (T (1-α) α)^(n-i)) v) 0

theorem specialize_correct (n : ℕ) (α β σ : K) (v : ℕ → K) :
    bern n (1-σ) σ (specPt n α β v) = bern n (1 - ((1-σ)*α + σ*β)) ((1-σ)*α + σ*β) v := by
  rw [← T_pow_apply_zero (v := v)]
  have key : T (1 - ((1-σ)*α + σ*β)) ((1-σ)*α + σ*β) = (1-σ) • T (1-α) α + σ • T (1-β) β := by
    rw [T_lin]; congr 1; ring
  rw [key]
  have hc : Commute (σ • T (1-β) β) ((1-σ) • T (1-α) α) :=
    (Commute.smul_left (Commute.smul_right (T_commute _ _ _ _) _) _)
  rw [add_comm, hc.add_pow]
  unfold bern specPt
  simp only [LinearMap.sum_apply, Finset.sum_apply]
  apply Finset.sum_congr rfl
  intro j _
  rw [apply_mul_natCast]
  simp [smul_pow, Module.End.mul_apply]
  ring


end BezierVerif
