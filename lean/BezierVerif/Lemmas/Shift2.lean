import Mathlib.Algebra.Module.LinearMap.End
import Mathlib.Algebra.Module.Pi
import Mathlib.Algebra.BigOperators.Pi
import Mathlib.Algebra.Algebra.Basic
import Mathlib.Data.Nat.Choose.Sum
import Mathlib.Algebra.BigOperators.Ring.Finset
import Mathlib.Algebra.BigOperators.Intervals
import Mathlib.Tactic.Ring
import Mathlib.Tactic.Linarith

/-!
# Lemmas/Shift2 — triangles: everything is a polynomial in two commuting shift operators

A triangular net is `w j k` (`i = d - j - k` implicit).  `Sj w j k = w (j+1) k`,
`Sk w j k = w j (k+1)`, `T3 l1 l2 l3 = l1•1 + l2•Sj + l3•Sk` is one triangle de Casteljau round.
All `T3` commute, so evaluation (`T3_pow_apply_zero`: de Casteljau = bivariate Bernstein sum, every
degree) and specialisation (`specNet_correct`) are identities between commuting powers
(`trinomial`).
-/

namespace BezierVerif

open Finset

variable {K : Type} [Field K]

abbrev Net (K : Type) := ℕ → ℕ → K   -- indices (j,k); i = d - j - k implicit

def Sj : Module.End K (Net K) where
  toFun w := fun j k => w (j+1) k
  map_add' _ _ := rfl
  map_smul' _ _ := rfl
def Sk : Module.End K (Net K) where
  toFun w := fun j k => w j (k+1)
  map_add' _ _ := rfl
  map_smul' _ _ := rfl

theorem Sj_Sk_comm : Commute (Sj : Module.End K (Net K)) Sk := by
  ext w j k; rfl

theorem Sj_pow_apply (m : ℕ) (w : Net K) (j k : ℕ) : ((Sj : Module.End K (Net K))^m) w j k = w (j+m) k := by
  induction m generalizing w j with
  | zero => simp
  | succ m ih => rw [pow_succ, Module.End.mul_apply, ih]; rfl
theorem Sk_pow_apply (m : ℕ) (w : Net K) (j k : ℕ) : ((Sk : Module.End K (Net K))^m) w j k = w j (k+m) := by
  induction m generalizing w k with
  | zero => simp
  | succ m ih => rw [pow_succ, Module.End.mul_apply, ih]; rfl

/-- one triangle de Casteljau round with barycentric weights (l1,l2,l3) -/
def T3 (l1 l2 l3 : K) : Module.End K (Net K) := l1 • 1 + l2 • Sj + l3 • Sk

theorem T3_apply (l1 l2 l3 : K) (w : Net K) (j k : ℕ) :
    T3 l1 l2 l3 w j k = l1 * w j k + l2 * w (j+1) k + l3 * w j (k+1) := by
  simp [T3, Sj, Sk]

theorem T3_commute (a1 a2 a3 b1 b2 b3 : K) : Commute (T3 a1 a2 a3) (T3 b1 b2 b3) := by
  unfold T3
  have h := (Sj_Sk_comm (K := K))
  have c1 : ∀ (x y : K) (A B : Module.End K (Net K)), Commute A B → Commute (x • A) (y • B) :=
    fun x y A B hAB => (hAB.smul_left x).smul_right y
  refine Commute.add_left (Commute.add_left ?_ ?_) ?_ <;> refine Commute.add_right (Commute.add_right ?_ ?_) ?_
  · exact c1 _ _ _ _ (Commute.one_left _)
  · exact c1 _ _ _ _ (Commute.one_left _)
  · exact c1 _ _ _ _ (Commute.one_left _)
  · exact c1 _ _ _ _ (Commute.one_right _)
  · exact c1 _ _ _ _ (Commute.refl _)
  · exact c1 _ _ _ _ h
  · exact c1 _ _ _ _ (Commute.one_right _)
  · exact c1 _ _ _ _ h.symm
  · exact c1 _ _ _ _ (Commute.refl _)

theorem T3_lin (m1 m2 m3 a1 a2 a3 b1 b2 b3 c1 c2 c3 : K) :
    m1 • T3 a1 a2 a3 + m2 • T3 b1 b2 b3 + m3 • T3 c1 c2 c3
      = T3 (m1*a1+m2*b1+m3*c1) (m1*a2+m2*b2+m3*c2) (m1*a3+m2*b3+m3*c3) := by
  unfold T3; ext w j k; simp [Sj, Sk]; ring

/-- trinomial expansion for three pairwise commuting elements of a semiring -/
theorem trinomial {R : Type} [Semiring R] (x y z : R) (hxy : Commute x y) (hxz : Commute x z) (hyz : Commute y z) (d : ℕ) :
    (x + y + z)^d = ∑ k ∈ range (d+1), ∑ i ∈ range (d-k+1),
      x^i * y^(d-k-i) * z^k * (((d-k).choose i * d.choose k : ℕ) : R) := by
  have h1 : Commute (x + y) z := hxz.add_left hyz
  rw [h1.add_pow, ← Finset.sum_range_reflect]
  apply Finset.sum_congr rfl
  intro k hk
  have hk' : k ≤ d := by have := mem_range.mp hk; omega
  have e1 : d + 1 - 1 - k = d - k := by omega
  have e2 : d - (d - k) = k := by omega
  rw [e1, e2, hxy.add_pow, Finset.sum_mul, Finset.sum_mul]
  apply Finset.sum_congr rfl
  intro i _
  rw [Nat.choose_symm hk', Nat.cast_mul]
  have hz : (((d-k).choose i : ℕ) : R) * z^k = z^k * (((d-k).choose i : ℕ) : R) := (Nat.cast_commute _ _).eq
  simp only [mul_assoc]
  rw [← mul_assoc (((d-k).choose i : ℕ) : R) (z^k), hz, mul_assoc]

theorem apply_mul_natCast2 (f : Module.End K (Net K)) (c : ℕ) (w : Net K) (j k : ℕ) :
    (f * (c : Module.End K (Net K))) w j k = (c : K) * f w j k := by
  rw [Module.End.mul_apply, Module.End.natCast_apply, map_nsmul]
  simp [nsmul_eq_mul]

/-- bivariate Bernstein form in the ordering used by the library (k outer, then the row) -/
def bernTri (d : ℕ) (l1 l2 l3 : K) (w : Net K) : K :=
  ∑ k ∈ range (d+1), ∑ i ∈ range (d-k+1),
    (((d-k).choose i * d.choose k : ℕ) : K) * l1^i * l2^(d-k-i) * l3^k * w (d-k-i) k

theorem T3_pow_apply_zero (d : ℕ) (l1 l2 l3 : K) (w : Net K) :
    ((T3 l1 l2 l3)^d) w 0 0 = bernTri d l1 l2 l3 w := by
  unfold T3 bernTri
  have c1 : ∀ (x y : K) (A B : Module.End K (Net K)), Commute A B → Commute (x • A) (y • B) :=
    fun x y A B hAB => (hAB.smul_left x).smul_right y
  rw [trinomial _ _ _ (c1 _ _ _ _ (Commute.one_left _)) (c1 _ _ _ _ (Commute.one_left _)) (c1 _ _ _ _ Sj_Sk_comm)]
  simp only [LinearMap.sum_apply, Finset.sum_apply]
  apply Finset.sum_congr rfl; intro k _
  apply Finset.sum_congr rfl; intro i _
  rw [Module.End.mul_apply, Module.End.natCast_apply, map_nsmul]
  simp [smul_pow, Module.End.mul_apply, Sj_pow_apply, Sk_pow_apply, nsmul_eq_mul]
  ring

/-- Specialised net: point (j,k) [i = d-j-k] is T3(a)^i T3(b)^j T3(c)^k w at (0,0). -/
def specNet (d : ℕ) (a b c : K × K × K) (w : Net K) : Net K := fun j k =>
  (((T3 a.1 a.2.1 a.2.2)^(d-j-k) * (T3 b.1 b.2.1 b.2.2)^j * (T3 c.1 c.2.1 c.2.2)^k) w) 0 0

theorem specNet_correct (d : ℕ) (a b c : K × K × K) (m1 m2 m3 : K) (w : Net K) :
    bernTri d m1 m2 m3 (specNet d a b c w) =
      bernTri d (m1*a.1+m2*b.1+m3*c.1) (m1*a.2.1+m2*b.2.1+m3*c.2.1) (m1*a.2.2+m2*b.2.2+m3*c.2.2) w := by
  rw [← T3_pow_apply_zero (w := w), ← T3_lin]
  have c1 : ∀ (x y : K) (A B : Module.End K (Net K)), Commute A B → Commute (x • A) (y • B) :=
    fun x y A B hAB => (hAB.smul_left x).smul_right y
  rw [trinomial _ _ _ (c1 _ _ _ _ (T3_commute ..)) (c1 _ _ _ _ (T3_commute ..)) (c1 _ _ _ _ (T3_commute ..))]
  unfold bernTri specNet
  simp only [LinearMap.sum_apply, Finset.sum_apply]
  apply Finset.sum_congr rfl; intro k hk
  apply Finset.sum_congr rfl; intro i hi
  have hk' := mem_range.mp hk; have hi' := mem_range.mp hi
  have e : d - (d - k - i) - k = i := by omega
  rw [e, apply_mul_natCast2]
  simp [smul_pow, Module.End.mul_apply]
  ring

/-- the Bernstein form with the inner sum over `j` (the exponent of `l2`, the position inside row
    `k` of the flat storage) -/
def triBern (d : ℕ) (l1 l2 l3 : K) (w : Net K) : K :=
  ∑ k ∈ range (d+1), ∑ j ∈ range (d-k+1),
    ((d.choose k * (d-k).choose j : ℕ) : K) * l1^(d-k-j) * l2^j * l3^k * w j k

theorem triBern_eq_bernTri (d : ℕ) (l1 l2 l3 : K) (w : Net K) :
    triBern d l1 l2 l3 w = bernTri d l1 l2 l3 w := by
  unfold triBern bernTri
  apply Finset.sum_congr rfl; intro k hk
  rw [← Finset.sum_range_reflect]
  apply Finset.sum_congr rfl; intro i hi
  have hi' := mem_range.mp hi
  have e1 : d - k + 1 - 1 - i = d - k - i := by omega
  have e2 : d - k - (d - k - i) = i := by omega
  rw [e1, e2, Nat.choose_symm (by omega : i ≤ d - k), Nat.mul_comm]

/-- the coefficient is the trinomial coefficient `d! / (i! j! k!)` -/
theorem trinomial_coeff (d j k : ℕ) (h : j + k ≤ d) :
    (d.choose k * (d-k).choose j) * ((d-k-j).factorial * j.factorial * k.factorial) = d.factorial := by
  have h1 := Nat.choose_mul_factorial_mul_factorial (show k ≤ d by omega)
  have h2 := Nat.choose_mul_factorial_mul_factorial (show j ≤ d - k by omega)
  calc (d.choose k * (d-k).choose j) * ((d-k-j).factorial * j.factorial * k.factorial)
      = d.choose k * k.factorial * ((d-k).choose j * j.factorial * (d-k-j).factorial) := by ring
    _ = d.choose k * k.factorial * (d-k).factorial := by rw [h2]
    _ = d.factorial := h1

theorem triBern_congr (d : ℕ) (l1 l2 l3 : K) (u w : Net K) (h : ∀ j k, j + k ≤ d → u j k = w j k) :
    triBern d l1 l2 l3 u = triBern d l1 l2 l3 w := by
  unfold triBern
  apply Finset.sum_congr rfl; intro k hk
  apply Finset.sum_congr rfl; intro j hj
  have := mem_range.mp hk; have := mem_range.mp hj
  rw [h j k (by omega)]

/-- de Casteljau for triangles = Bernstein sum in storage order -/
theorem T3_pow_apply_zero' (d : ℕ) (l1 l2 l3 : K) (w : Net K) :
    ((T3 l1 l2 l3)^d) w 0 0 = triBern d l1 l2 l3 w := by
  rw [T3_pow_apply_zero, triBern_eq_bernTri]

/-- locality of `T3^n`: the value at `(j, k)` reads the net only at `(j', k')` with
    `j' + k' ≤ j + k + n` -/
theorem T3_pow_local (l1 l2 l3 : K) : ∀ (n : ℕ) (u w : Net K) (j k : ℕ),
    (∀ j' k', j' + k' ≤ j + k + n → u j' k' = w j' k') →
    ((T3 l1 l2 l3)^n) u j k = ((T3 l1 l2 l3)^n) w j k := by
  intro n
  induction n with
  | zero => intro u w j k h; simpa using h j k (by omega)
  | succ n ih =>
    intro u w j k h
    rw [pow_succ', Module.End.mul_apply, Module.End.mul_apply, T3_apply, T3_apply,
      ih u w j k (fun j' k' hh => h j' k' (by omega)),
      ih u w (j+1) k (fun j' k' hh => h j' k' (by omega)),
      ih u w j (k+1) (fun j' k' hh => h j' k' (by omega))]

end BezierVerif
