import BezierVerif.Model.Solve2x2
import Mathlib.Algebra.Order.Field.Basic
import Mathlib.Tactic.Ring
import Mathlib.Tactic.Linarith
import Mathlib.Tactic.FieldSimp
import Mathlib.Tactic.SplitIfs

/-!
# Lemmas/Solve2x2 — `Model.solve2x2` solves the system exactly, in both pivot branches
-/

namespace BezierVerif.Solve2x2

open Model

variable {K : Type} [Field K] [LinearOrder K] [IsStrictOrderedRing K]

theorem absK_eq_abs (x : K) : absK x = |x| := by
  unfold absK
  split_ifs with h
  · exact (abs_of_neg h).symm
  · exact (abs_of_nonneg (not_lt.mp h)).symm

/-- a returned pair solves both equations -/
theorem solve2x2_some (A B C D E F x y : K) (h : solve2x2 A B C D E F = some (x, y)) :
    A * x + B * y = E ∧ C * x + D * y = F := by
  unfold solve2x2 at h
  rw [absK_eq_abs, absK_eq_abs] at h
  dsimp only at h
  split_ifs at h with h1 h2 h3 h4
  · -- pivot on C
    have hC : C ≠ 0 := by
      intro h0; rw [h0, abs_zero] at h1; exact absurd h1 (not_lt.mpr (abs_nonneg A))
    have hd : C * B - A * D ≠ 0 := by
      intro h0; apply h2; field_simp; linarith
    simp only [Option.some.injEq, Prod.mk.injEq] at h
    obtain ⟨rfl, rfl⟩ := h
    have e : B - A / C * D = (C * B - A * D) / C := by field_simp
    rw [e]
    constructor <;> field_simp <;> ring
  · have hd : A * D - C * B ≠ 0 := by
      intro h0; apply h4; field_simp; linarith
    simp only [Option.some.injEq, Prod.mk.injEq] at h
    obtain ⟨rfl, rfl⟩ := h
    have e : D - C / A * B = (A * D - C * B) / A := by field_simp
    rw [e]
    constructor <;> field_simp <;> ring

/-- the `singular` flag is raised exactly for singular matrices -/
theorem solve2x2_none_iff (A B C D E F : K) :
    solve2x2 A B C D E F = none ↔ A * D - B * C = 0 := by
  unfold solve2x2
  rw [absK_eq_abs, absK_eq_abs]
  dsimp only
  split_ifs with h1 h2 h3 h4
  · -- pivot on C, denominator zero
    have hC : C ≠ 0 := by
      intro h0; rw [h0, abs_zero] at h1; exact absurd h1 (not_lt.mpr (abs_nonneg A))
    simp only [true_iff]
    have : B - A / C * D = 0 := h2
    field_simp at this; linarith
  · have hC : C ≠ 0 := by
      intro h0; rw [h0, abs_zero] at h1; exact absurd h1 (not_lt.mpr (abs_nonneg A))
    simp only [false_iff]
    intro hdet
    apply h2
    field_simp; linarith
  · -- A = 0 and |A| ≥ |C| force C = 0
    have hC : C = 0 := by
      have : |C| ≤ 0 := by rw [h3, abs_zero] at h1; exact not_lt.mp h1
      exact abs_eq_zero.mp (le_antisymm this (abs_nonneg C))
    simp only [true_iff]
    rw [h3, hC]; ring
  · simp only [true_iff]
    have : D - C / A * B = 0 := h4
    field_simp at this; linarith
  · simp only [false_iff]
    intro hdet
    apply h4
    field_simp; linarith

/-- a regular system is solved, and the answer is the unique solution -/
theorem solve2x2_regular (A B C D E F : K) (hdet : A * D - B * C ≠ 0) :
    ∃ x y, solve2x2 A B C D E F = some (x, y) ∧ A * x + B * y = E ∧ C * x + D * y = F ∧
      ∀ x' y', A * x' + B * y' = E → C * x' + D * y' = F → x' = x ∧ y' = y := by
  cases hs : solve2x2 A B C D E F with
  | none => exact absurd ((solve2x2_none_iff A B C D E F).mp hs) hdet
  | some p =>
    obtain ⟨x, y⟩ := p
    obtain ⟨e1, e2⟩ := solve2x2_some A B C D E F x y hs
    refine ⟨x, y, rfl, e1, e2, ?_⟩
    intro x' y' f1 f2
    have hx : (A * D - B * C) * (x' - x) = 0 := by
      have : (A * D - B * C) * (x' - x) = D * ((A * x' + B * y') - (A * x + B * y)) - B * ((C * x' + D * y') - (C * x + D * y)) := by ring
      rw [this, f1, f2, e1, e2]; ring
    have hy : (A * D - B * C) * (y' - y) = 0 := by
      have : (A * D - B * C) * (y' - y) = A * ((C * x' + D * y') - (C * x + D * y)) - C * ((A * x' + B * y') - (A * x + B * y)) := by ring
      rw [this, f1, f2, e1, e2]; ring
    rcases mul_eq_zero.mp hx with h | h
    · exact absurd h hdet
    rcases mul_eq_zero.mp hy with h' | h'
    · exact absurd h' hdet
    exact ⟨sub_eq_zero.mp h, sub_eq_zero.mp h'⟩

end BezierVerif.Solve2x2
