import BezierVerif.Lemmas.Bridge
import Mathlib.Algebra.BigOperators.Intervals
import Mathlib.Tactic.FieldSimp

/-!
# Lemmas/Subdivide — specialisation and subdivision of the list model

* the Python blossom dictionary (`specPoint`) is the operator `specPt` of `Lemmas/Shift`;
* de Casteljau rounds with different weights commute on lists, hence the Fortran column
  workspace equals the Python dictionary;
* the Pascal-type recurrence `leftCol` has the closed form `C(c,r) / 2^c`, `dot` is a `Finset.sum`,
  hence the two matrix products of `subdivide_nodes` are the blossom specialisations to the halves;
* the in-place Pascal row of the generic Fortran path has the same closed form.
-/

set_option linter.unusedSectionVars false

namespace BezierVerif.Subdivide

open Finset Model

/-! ## pure list facts (no arithmetic laws) -/
section NoLaws
variable {K : Type} [Add K] [Sub K] [Mul K] [Div K] [Neg K] [OfNat K 0] [OfNat K 1] [NatCast K]

theorem getD_map_range {α : Type} (N : ℕ) (f : ℕ → α) (d : α) (c : ℕ) (hc : c < N) :
    ((List.range N).map f).getD c d = f c := by
  simp [List.getD_eq_getElem?_getD, hc]

theorem getD_map_range_ge {α : Type} (N : ℕ) (f : ℕ → α) (d : α) (c : ℕ) (hc : N ≤ c) :
    ((List.range N).map f).getD c d = d := by
  simp [List.getD_eq_getElem?_getD, hc]

theorem seq_map_range (N : ℕ) (f : ℕ → K) (c : ℕ) (hc : c < N) :
    seq ((List.range N).map f) c = f c := getD_map_range N f 0 c hc

theorem ncols_map_range (n : ℕ) (f : ℕ → List K) :
    ncols ((List.range (n+1)).map f) = (f 0).length := by
  simp [ncols, List.range_succ_eq_map]

theorem ncols_leftMat (n : ℕ) : ncols (leftMat (K := K) n) = n + 1 := by
  unfold leftMat; rw [ncols_map_range]; simp

theorem ncols_rightMat (n : ℕ) : ncols (rightMat (K := K) n) = n + 1 := by
  unfold rightMat; rw [ncols_map_range]; simp

/-- column `c` of the left matrix is `leftCol c`, zero-padded to `n+1` entries -/
theorem col_leftMat (n c : ℕ) (hc : c < n + 1) :
    col (leftMat (K := K) n) c = (List.range (n+1)).map (fun r => seq (leftCol (K := K) c) r) := by
  unfold col leftMat
  rw [List.map_map]
  apply List.map_congr_left
  intro r _
  simp only [Function.comp]
  rw [getD_map_range _ _ _ _ hc]; rfl

/-- column `c` of the right matrix: `c` zeros, then `leftCol (n-c)` -/
theorem col_rightMat (n c : ℕ) (hc : c < n + 1) :
    col (rightMat (K := K) n) c = (List.range (n+1)).map (fun r =>
      if r + (n - c) < n then (0 : K) else seq (leftCol (K := K) (n - c)) (r + (n - c) - n)) := by
  unfold col rightMat
  rw [List.map_map]
  apply List.map_congr_left
  intro r _
  simp only [Function.comp]
  rw [getD_map_range _ _ _ _ hc]; rfl

/-- the last column of the left matrix and the first column of the right matrix are the same
    list (no arithmetic law is used) -/
theorem col_leftMat_last_eq_col_rightMat_zero (n : ℕ) :
    col (leftMat (K := K) n) n = col (rightMat (K := K) n) 0 := by
  rw [col_leftMat n n (by omega), col_rightMat n 0 (by omega)]
  apply List.map_congr_left
  intro r _
  simp

theorem iter_succ' {α : Type} (f : α → α) : ∀ (n : ℕ) (a : α), iter f (n+1) a = f (iter f n a)
  | 0, _ => rfl
  | n+1, a => by
    show iter f (n+1) (f a) = f (iter f (n+1) a)
    rw [iter_succ' f n (f a)]; rfl

theorem iter_comm {α : Type} (f g : α → α) (h : ∀ x, f (g x) = g (f x)) :
    ∀ (m n : ℕ) (a : α), iter f m (iter g n a) = iter g n (iter f m a) := by
  have h1 : ∀ (n : ℕ) (a : α), f (iter g n a) = iter g n (f a) := by
    intro n
    induction n with
    | zero => intro a; rfl
    | succ n ih => intro a; rw [iter_succ', h, ih, ← iter_succ' g]
  intro m
  induction m with
  | zero => intro n a; rfl
  | succ m ih =>
    intro n a
    rw [iter_succ', ih, h1, ← iter_succ' f]

theorem foldl_const_eq_iter {α β : Type} (f : α → α) (l : List β) (a : α) :
    l.foldl (fun acc _ => f acc) a = iter f l.length a := by
  induction l generalizing a with
  | nil => rfl
  | cons x xs ih => simp only [List.foldl_cons, List.length_cons]; rw [ih]; rfl

end NoLaws

/-! ## specialisation -/
section Field
variable {K : Type} [Field K]

/-- `bern n` only reads the indices `0..n` -/
theorem bern_congr (n : ℕ) (a b : K) (u w : ℕ → K) (h : ∀ j, j ≤ n → u j = w j) :
    bern n a b u = bern n a b w := by
  unfold bern
  apply Finset.sum_congr rfl
  intro j hj
  rw [h j (by have := Finset.mem_range.mp hj; omega)]

/-- the Python dictionary entry is the operator `specPt` -/
theorem specPoint_eq_specPt (row : List K) (a b : K) (i : ℕ) (hi : i + 1 ≤ row.length) :
    specPoint a b row i = specPt (row.length - 1) a b (seq row) i := by
  unfold specPoint specPt
  simp only
  rw [headD_eq_seq, Module.End.mul_apply]
  have hlenA : (iter (dcRound (1 - a) a) (row.length - 1 - i) row).length = i + 1 := by
    rw [iter_dcRound_length]; omega
  rw [seq_iter_dcRound _ _ i _ 0 (by rw [hlenA]; omega)]
  apply T_pow_local
  intro j _ hj
  exact seq_iter_dcRound _ _ _ row j (by omega)

theorem specializeRow_length (row : List K) (a b : K) :
    (Py.specializeRow row a b).length = row.length := by
  simp [Py.specializeRow]

theorem seq_specializeRow (row : List K) (a b : K) (i : ℕ) (hi : i < row.length) :
    seq (Py.specializeRow row a b) i = specPt (row.length - 1) a b (seq row) i := by
  unfold Py.specializeRow
  rw [seq_map_range _ _ _ hi, specPoint_eq_specPt row a b i (by omega)]

/-- rounds with different weights commute on lists -/
theorem dcRound_comm (a b c d : K) : ∀ l : List K,
    dcRound a b (dcRound c d l) = dcRound c d (dcRound a b l)
  | [] => rfl
  | [_] => rfl
  | [_, _] => rfl
  | x :: y :: z :: rest => by
    have ih := dcRound_comm a b c d (y :: z :: rest)
    simp only [dcRound] at ih ⊢
    rw [ih]
    congr 1
    ring

/-- state of the Fortran column workspace after `k` passes of the loop `index_ = 3 ..` -/
def f90SpecCols (row : List K) (a b : K) (k : ℕ) : List (List K) :=
  (List.range (k+2)).map (fun j =>
    iter (dcRound (1 - a) a) (k + 1 - j) (iter (dcRound (1 - b) b) j row))

theorem f90SpecCols_step (row : List K) (a b : K) (k : ℕ) :
    (f90SpecCols row a b k).map (dcRound (1 - a) a)
      ++ [dcRound (1 - b) b ((f90SpecCols row a b k).getLastD [])] = f90SpecCols row a b (k+1) := by
  have hlast : (f90SpecCols row a b k).getLastD [] = iter (dcRound (1 - b) b) (k+1) row := by
    unfold f90SpecCols
    rw [List.range_succ, List.map_append]
    simp [iter]
  rw [hlast]
  unfold f90SpecCols
  rw [show k + 1 + 2 = (k + 2) + 1 from rfl, List.range_succ (n := k+2), List.map_append, List.map_map]
  congr 1
  · apply List.map_congr_left
    intro j hj
    have hj' : j < k + 2 := List.mem_range.mp hj
    simp only [Function.comp]
    rw [← iter_succ' (dcRound (1 - a) a)]
    congr 1; omega
  · simp [iter, ← iter_succ']

theorem f90_specializeGeneric_eq (row : List K) (h : 2 ≤ row.length) (a b : K) :
    F90.specializeGenericRow row a b = Py.specializeRow row a b := by
  unfold F90.specializeGenericRow
  simp only
  rw [foldl_const_eq_iter (fun cols : List (List K) =>
        (cols.map (dcRound (1 - a) a)) ++ [dcRound (1 - b) b (cols.getLastD [])])]
  have hinv : ∀ k, iter (fun cols : List (List K) =>
        (cols.map (dcRound (1 - a) a)) ++ [dcRound (1 - b) b (cols.getLastD [])]) k
        [dcRound (1 - a) a row, dcRound (1 - b) b row] = f90SpecCols row a b k := by
    intro k
    induction k with
    | zero => simp [iter, f90SpecCols, List.range_succ]
    | succ k ih => rw [iter_succ', ih, f90SpecCols_step]
  rw [hinv, List.length_range]
  unfold f90SpecCols Py.specializeRow
  rw [List.map_map, show row.length - 2 + 2 = row.length by omega]
  apply List.map_congr_left
  intro j hj
  have hj' : j < row.length := List.mem_range.mp hj
  simp only [Function.comp, specPoint]
  rw [iter_comm _ _ (dcRound_comm _ _ _ _)]
  congr 3; omega

end Field

/-! ## subdivision -/
section Subdivide
variable {K : Type} [Field K]

/-- a left fold of `+` is a `Finset.sum` -/
theorem foldl_add_eq_sum (l : List K) (acc : K) :
    l.foldl (· + ·) acc = acc + ∑ i ∈ range l.length, seq l i := by
  induction l generalizing acc with
  | nil => simp
  | cons x xs ih =>
    rw [List.foldl_cons, ih, List.length_cons, Finset.sum_range_succ']
    simp only [seq, List.getD_cons_succ, List.getD_cons_zero]
    ring

theorem seq_zipWith_mul (x y : List K) (i : ℕ) (hx : i < x.length) (hy : i < y.length) :
    seq (List.zipWith (· * ·) x y) i = seq x i * seq y i := by
  simp [seq, List.getD_eq_getElem?_getD, hx, hy]

/-- `dot` is the sum of products -/
theorem dot_eq_sum (x y : List K) (h : x.length = y.length) :
    dot x y = ∑ i ∈ range x.length, seq x i * seq y i := by
  unfold dot
  rw [foldl_add_eq_sum, zero_add, List.length_zipWith, ← h, Nat.min_self]
  apply Finset.sum_congr rfl
  intro i hi
  have := Finset.mem_range.mp hi
  exact seq_zipWith_mul x y i this (by omega)

theorem dot_map_range (row : List K) (N : ℕ) (F : ℕ → K) (h : row.length = N) :
    dot row ((List.range N).map F) = ∑ i ∈ range N, seq row i * F i := by
  rw [dot_eq_sum _ _ (by simp [h]), h]
  apply Finset.sum_congr rfl
  intro i hi
  rw [seq_map_range _ _ _ (Finset.mem_range.mp hi)]

/-- the sum over a generic left fold over `List.range` -/
theorem foldl_range_eq_sum (N : ℕ) (f : ℕ → K) :
    (List.range N).foldl (fun acc i => acc + f i) 0 = ∑ i ∈ range N, f i := by
  induction N with
  | zero => simp
  | succ N ih => rw [List.range_succ, List.foldl_append, ih, Finset.sum_range_succ]; rfl

theorem seq_pascalHalfStep (p : List K) (r : ℕ) :
    seq (pascalHalfStep p) r
      = (1 / (1 + 1) : K) * seq p r + (1 / (1 + 1) : K) * (if r = 0 then 0 else seq p (r - 1)) := by
  unfold pascalHalfStep
  simp only [seq, List.getD_eq_getElem?_getD, List.getElem?_zipWith]
  rcases r with _ | r
  · cases p <;> simp
  · simp only [List.getElem?_cons_succ, Nat.add_one_ne_zero, if_false, Nat.add_sub_cancel,
      List.getElem?_map, List.getElem?_append]
    by_cases h1 : r + 1 < p.length
    · simp [h1, (by omega : r < p.length)]
    · by_cases h2 : r + 1 = p.length
      · simp [← h2]
      · simp [(by omega : p.length ≤ r + 1), (by omega : p.length ≤ r)]

/-- closed form of the Pascal-type recurrence: `left[r][c] = C(c,r) / 2^c` -/
theorem seq_leftCol (c r : ℕ) :
    seq (leftCol (K := K) c) r = (c.choose r : K) * (1 / (1 + 1) : K) ^ c := by
  induction c generalizing r with
  | zero =>
    rcases r with _ | r
    · simp [leftCol, seq]
    · simp [leftCol, seq, Nat.choose]
  | succ c ih =>
    rw [leftCol, seq_pascalHalfStep, ih]
    rcases r with _ | r
    · simp; ring
    · simp only [Nat.add_one_ne_zero, if_false, Nat.add_sub_cancel, ih, Nat.choose_succ_succ]
      push_cast; ring

/-- `T^m` at an arbitrary index is a Bernstein sum of the shifted sequence -/
theorem T_pow_apply_eq_bern (a b : K) (m : ℕ) (v : ℕ → K) (i : ℕ) :
    ((T a b)^m) v i = bern m a b (fun j => v (i + j)) := by
  have hS : (S : Module.End K (ℕ → K)) = T 0 1 := by unfold T; simp
  have hc : Commute ((S : Module.End K (ℕ → K))^i) ((T a b)^m) := by
    rw [hS]; exact (T_commute 0 1 a b).pow_pow i m
  have h1 : ((T a b)^m) v i = (((S : Module.End K (ℕ → K))^i) (((T a b)^m) v)) 0 := by
    rw [S_pow_apply]; simp
  rw [h1, ← Module.End.mul_apply, hc.eq, Module.End.mul_apply, T_pow_apply_zero]
  apply bern_congr
  intro j _
  rw [S_pow_apply, add_comm]

/-- adjointness for the left matrix: `row · (column c of left) = ((T ½ ½)^c v) 0` -/
theorem dot_col_leftMat (row : List K) (n c : ℕ) (hrow : row.length = n + 1) (hc : c < n + 1) :
    dot row (col (leftMat (K := K) n) c)
      = ((T (1 / (1 + 1) : K) (1 / (1 + 1)))^c) (seq row) 0 := by
  rw [col_leftMat n c hc, dot_map_range row (n+1) _ hrow, T_pow_apply_zero]
  unfold bern
  rw [show n + 1 = (c + 1) + (n - c) by omega, Finset.sum_range_add]
  have hz : ∑ x ∈ range (n - c), seq row (c + 1 + x) * seq (leftCol (K := K) c) (c + 1 + x) = 0 := by
    apply Finset.sum_eq_zero
    intro x _
    rw [seq_leftCol, Nat.choose_eq_zero_of_lt (by omega)]; simp
  rw [hz, add_zero]
  apply Finset.sum_congr rfl
  intro j hj
  have hj' : j ≤ c := by have := Finset.mem_range.mp hj; omega
  rw [seq_leftCol, mul_assoc ((c.choose j : K)), ← pow_add, Nat.sub_add_cancel hj']
  ring

/-- adjointness for the right matrix: `row · (column c of right) = ((T ½ ½)^(n-c) v) c` -/
theorem dot_col_rightMat (row : List K) (n c : ℕ) (hrow : row.length = n + 1) (hc : c < n + 1) :
    dot row (col (rightMat (K := K) n) c)
      = ((T (1 / (1 + 1) : K) (1 / (1 + 1)))^(n - c)) (seq row) c := by
  rw [col_rightMat n c hc, dot_map_range row (n+1) _ hrow, T_pow_apply_eq_bern]
  unfold bern
  rw [show n + 1 = c + (n - c + 1) by omega, Finset.sum_range_add]
  have hz : ∑ x ∈ range c, seq row x *
      (if x + (n - c) < n then (0 : K) else seq (leftCol (K := K) (n - c)) (x + (n - c) - n)) = 0 := by
    apply Finset.sum_eq_zero
    intro x hx
    have := Finset.mem_range.mp hx
    rw [if_pos (by omega)]; simp
  rw [hz, zero_add]
  apply Finset.sum_congr rfl
  intro j hj
  have hj' : j ≤ n - c := by have := Finset.mem_range.mp hj; omega
  rw [if_neg (by omega), show c + j + (n - c) - n = j by omega, seq_leftCol,
    mul_assoc (((n - c).choose j : K)), ← pow_add, Nat.sub_add_cancel hj']
  ring

theorem T_one_zero : T (1 : K) 0 = 1 := by unfold T; simp

theorem T_zero_one : T (0 : K) 1 = S := by unfold T; simp

theorem one_sub_half [NeZero (2 : K)] : (1 : K) - 1 / 2 = 1 / (1 + 1) := by
  have h : (2 : K) ≠ 0 := NeZero.ne _
  rw [one_add_one_eq_two]; field_simp; norm_num

/-- left half: matrix product = blossom specialisation to `[0, ½]` -/
theorem rowMul_leftMat (row : List K) (h : 1 ≤ row.length) [NeZero (2 : K)] :
    rowMul row (leftMat (row.length - 1)) = Py.specializeRow row 0 (1 / 2) := by
  unfold rowMul Py.specializeRow
  rw [ncols_leftMat, show row.length - 1 + 1 = row.length by omega]
  apply List.map_congr_left
  intro c hc
  have hc' : c < row.length := List.mem_range.mp hc
  rw [dot_col_leftMat row (row.length - 1) c (by omega) (by omega),
    specPoint_eq_specPt row _ _ c (by omega)]
  unfold specPt
  rw [sub_zero, T_one_zero, one_pow, mul_one, one_sub_half, one_add_one_eq_two]

/-- right half: matrix product = blossom specialisation to `[½, 1]` -/
theorem rowMul_rightMat (row : List K) (h : 1 ≤ row.length) [NeZero (2 : K)] :
    rowMul row (rightMat (row.length - 1)) = Py.specializeRow row (1 / 2) 1 := by
  unfold rowMul Py.specializeRow
  rw [ncols_rightMat, show row.length - 1 + 1 = row.length by omega]
  apply List.map_congr_left
  intro c hc
  have hc' : c < row.length := List.mem_range.mp hc
  rw [dot_col_rightMat row (row.length - 1) c (by omega) (by omega),
    specPoint_eq_specPt row _ _ c (by omega)]
  unfold specPt
  rw [sub_self, T_zero_one, Module.End.mul_apply, S_pow_apply, zero_add, one_sub_half,
    one_add_one_eq_two]

/-- `¼ = ½·½` and `⅛ = ½·½·½` hold in every field (also in characteristic 2, where all are `0`) -/
theorem quarter_eq : (1 / (1 + 1 + 1 + 1) : K) = 1 / (1 + 1) * (1 / (1 + 1)) := by
  rw [one_div_mul_one_div]; congr 1; ring

theorem eighth_eq : (1 / (1 + 1 + 1 + 1 + 1 + 1 + 1 + 1) : K)
    = 1 / (1 + 1) * (1 / (1 + 1)) * (1 / (1 + 1)) := by
  rw [one_div_mul_one_div, one_div_mul_one_div]; congr 1; ring

/-! ### the generic Fortran path -/

theorem f90PascalRow_succ_succ (nn e : ℕ) :
    f90PascalRow (K := K) nn (e+2) = f90PascalStep (f90PascalRow nn (e+1)) (e+2) := rfl

theorem f90PascalStep_length (p : List K) (E : ℕ) (hE : E ≤ p.length) :
    (f90PascalStep p E).length = p.length := by
  unfold f90PascalStep
  simp; omega

theorem seq_f90PascalStep (p : List K) (E i : ℕ) (hE : E ≤ p.length) :
    seq (f90PascalStep p E) i
      = if i < E then (1 / (1 + 1) : K) * (seq p i + seq p (E - 1 - i)) else seq p i := by
  unfold f90PascalStep
  simp only [seq, List.getD_eq_getElem?_getD, List.getElem?_append, List.length_zipWith,
    List.length_take, List.length_reverse, Nat.min_self, Nat.min_eq_left hE]
  by_cases hi : i < E
  · have h1 : i < p.length := by omega
    have h2 : E - 1 - i < p.length := by omega
    have h3 : E - 1 - i < E := by omega
    simp [hi, h1, h2, Nat.min_eq_left hE]
  · simp [hi, (by omega : E + (i - E) = i)]

theorem f90PascalRow_length (nn : ℕ) (hnn : 1 ≤ nn) : ∀ e, e + 1 ≤ nn →
    (f90PascalRow (K := K) nn (e+1)).length = nn := by
  intro e
  induction e with
  | zero => intro _; simp [f90PascalRow]; omega
  | succ e ih =>
    intro h
    rw [f90PascalRow_succ_succ, f90PascalStep_length _ _ (by rw [ih (by omega)]; omega), ih (by omega)]

/-- closed form of the in-place Pascal row: entry `i` of the row for `elt_index = e+1` is
    `C(e,i) / 2^e` -/
theorem seq_f90PascalRow (nn : ℕ) : ∀ e, e + 1 ≤ nn → ∀ i,
    seq (f90PascalRow (K := K) nn (e+1)) i = (e.choose i : K) * (1 / (1 + 1) : K) ^ e := by
  intro e
  induction e with
  | zero =>
    intro _ i
    rcases i with _ | i
    · simp [f90PascalRow, seq]
    · simp [f90PascalRow, seq, List.getD_eq_getElem?_getD, List.getElem?_replicate, Nat.choose]
      split <;> rfl
  | succ e ih =>
    intro h i
    have hlen := f90PascalRow_length (K := K) nn (by omega) e (by omega)
    rw [f90PascalRow_succ_succ, seq_f90PascalStep _ _ _ (by rw [hlen]; omega)]
    by_cases hi : i < e + 2
    · rw [if_pos hi, ih (by omega), ih (by omega)]
      rcases i with _ | i
      · rw [show e + 2 - 1 - 0 = e + 1 by omega, Nat.choose_succ_self]; simp; ring
      · rw [show e + 2 - 1 - (i + 1) = e - i by omega, Nat.choose_symm (by omega),
          Nat.choose_succ_succ]
        push_cast; ring
    · rw [if_neg hi, ih (by omega), Nat.choose_eq_zero_of_lt (by omega),
        Nat.choose_eq_zero_of_lt (by omega)]
      simp

theorem reverse_map_range {α : Type} (N : ℕ) (f : ℕ → α) :
    ((List.range N).map f).reverse = (List.range N).map (fun c => f (N - 1 - c)) := by
  apply List.ext_getElem
  · simp
  · intro i h1 h2
    simp

/-- the generic Fortran subdivision (in-place Pascal row, explicit accumulation loops) gives the
    same two rows as the two matrix products of the Python implementation -/
theorem f90_subdivideGeneric_eq (row : List K) (h : 1 ≤ row.length) :
    F90.subdivideGenericRow row = Py.subdivideRow row := by
  unfold F90.subdivideGenericRow Py.subdivideRow
  simp only
  rw [reverse_map_range]
  unfold rowMul
  rw [ncols_leftMat, ncols_rightMat, show row.length - 1 + 1 = row.length by omega]
  congr 1
  · apply List.map_congr_left
    intro c hc
    have hc' : c < row.length := List.mem_range.mp hc
    rw [foldl_range_eq_sum, dot_col_leftMat row (row.length - 1) c (by omega) (by omega),
      T_pow_apply_zero]
    unfold bern
    apply Finset.sum_congr rfl
    intro j hj
    have hj' : j ≤ c := by have := Finset.mem_range.mp hj; omega
    have hp : (1 / (1 + 1) : K) ^ (c - j) * (1 / (1 + 1)) ^ j = (1 / (1 + 1)) ^ c := by
      rw [← pow_add, Nat.sub_add_cancel hj']
    rw [seq_f90PascalRow row.length c (by omega), ← hp]
    ring
  · apply List.map_congr_left
    intro c hc
    have hc' : c < row.length := List.mem_range.mp hc
    rw [foldl_range_eq_sum, dot_col_rightMat row (row.length - 1) c (by omega) (by omega),
      T_pow_apply_eq_bern]
    unfold bern
    rw [show row.length - 1 - c + 1 = (row.length - 1 - c) + 1 from rfl,
      ← Finset.sum_range_reflect]
    apply Finset.sum_congr rfl
    intro j hj
    have hj' : j ≤ row.length - 1 - c := by have := Finset.mem_range.mp hj; omega
    have hp : (1 / (1 + 1) : K) ^ (row.length - 1 - c - j) * (1 / (1 + 1)) ^ j
        = (1 / (1 + 1)) ^ (row.length - 1 - c) := by
      rw [← pow_add, Nat.sub_add_cancel hj']
    have e1 : row.length - 1 - c + 1 - 1 - j = row.length - 1 - c - j := by omega
    have e2 : row.length - 1 - (row.length - 1 - c - j) = c + j := by omega
    rw [seq_f90PascalRow row.length _ (by omega), e1, e2, Nat.choose_symm hj', ← hp]
    ring

end Subdivide

end BezierVerif.Subdivide
