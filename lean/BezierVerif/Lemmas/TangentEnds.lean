import BezierVerif.Lemmas.Bridge
import Mathlib.Tactic.SplitIfs

/-!
# Lemmas/TangentEnds — a coordinate touches its control bound only at the end points

If all control values of a coordinate are `≤ c` and one of them is `< c`, then for an interior
parameter the value is `< c` (Bernstein weights are positive there).  Hence `x(s) = c` forces
`s ∈ {0, 1}`: the justification of `tangent_bbox_intersection` comparing end points only — under
the hypothesis "not all control values equal `c`", which cannot be dropped (see `Props/C03`).
Also: the specification of `wiggle_interval` (re-homed seed).
-/

namespace BezierVerif.TangentEnds

open Model BezierVerif

variable {K : Type} [Field K] [LinearOrder K] [IsStrictOrderedRing K]

/-- upper bounds through `n` rounds, window form -/
theorem T_pow_le_window (t M : K) (ht0 : 0 ≤ t) (ht1 : t ≤ 1) : ∀ (n i : ℕ) (u : ℕ → K),
    (∀ j, i ≤ j → j ≤ i + n → u j ≤ M) → ((T (1-t) t)^n) u i ≤ M := by
  intro n
  induction n with
  | zero => intro i u h; simpa using h i le_rfl (by omega)
  | succ n ih =>
    intro i u h
    rw [pow_succ', Module.End.mul_apply, T_apply]
    have h1 := ih i u (fun j a b => h j a (by omega))
    have h2 := ih (i+1) u (fun j a b => h j (by omega) (by omega))
    nlinarith [mul_le_mul_of_nonneg_left h1 (sub_nonneg.mpr ht1), mul_le_mul_of_nonneg_left h2 ht0]

/-- interior parameter + one control value strictly below the bound ⇒ the value is strictly below -/
theorem T_pow_lt_of_exists (t M : K) (ht0 : 0 < t) (ht1 : t < 1) : ∀ (n i : ℕ) (u : ℕ → K),
    (∀ j, i ≤ j → j ≤ i + n → u j ≤ M) → (∃ k, i ≤ k ∧ k ≤ i + n ∧ u k < M) →
    ((T (1-t) t)^n) u i < M := by
  intro n
  induction n with
  | zero =>
    intro i u _ ⟨k, hk1, hk2, hk⟩
    have : k = i := by omega
    simpa [this] using hk
  | succ n ih =>
    intro i u hle ⟨k, hk1, hk2, hk⟩
    rw [pow_succ', Module.End.mul_apply, T_apply]
    have leX : ((T (1-t) t)^n) u i ≤ M :=
      T_pow_le_window t M ht0.le ht1.le n i u (fun j a b => hle j a (by omega))
    have leY : ((T (1-t) t)^n) u (i+1) ≤ M :=
      T_pow_le_window t M ht0.le ht1.le n (i+1) u (fun j a b => hle j (by omega) (by omega))
    by_cases hk3 : k ≤ i + n
    · have ltX := ih i u (fun j a b => hle j a (by omega)) ⟨k, hk1, hk3, hk⟩
      nlinarith [mul_pos (sub_pos.mpr ht1) (sub_pos.mpr ltX), mul_nonneg ht0.le (sub_nonneg.mpr leY)]
    · have ltY := ih (i+1) u (fun j a b => hle j (by omega) (by omega)) ⟨k, by omega, by omega, hk⟩
      nlinarith [mul_pos ht0 (sub_pos.mpr ltY), mul_nonneg (sub_pos.mpr ht1).le (sub_nonneg.mpr leX)]

/-- all control values `≤ c`, not all equal to `c`: the value `c` is only attained at `s ∈ {0,1}` -/
theorem touches_bound_only_at_ends (n : ℕ) (u : ℕ → K) (c s : K) (hs0 : 0 ≤ s) (hs1 : s ≤ 1)
    (hle : ∀ j ≤ n, u j ≤ c) (hk : ∃ k ≤ n, u k < c)
    (htouch : ((T (1-s) s)^n) u 0 = c) : s = 0 ∨ s = 1 := by
  by_contra hcon
  push Not at hcon
  have h0 : 0 < s := lt_of_le_of_ne hs0 (Ne.symm hcon.1)
  have h1 : s < 1 := lt_of_le_of_ne hs1 hcon.2
  obtain ⟨k, hkn, hkc⟩ := hk
  have := T_pow_lt_of_exists s c h0 h1 n 0 u (fun j _ b => hle j (by omega)) ⟨k, by omega, by omega, hkc⟩
  exact absurd htouch (ne_of_lt this)

/-- the mirrored statement (all control values `≥ c`, one `> c`) -/
theorem touches_lower_bound_only_at_ends (n : ℕ) (u : ℕ → K) (c s : K) (hs0 : 0 ≤ s) (hs1 : s ≤ 1)
    (hge : ∀ j ≤ n, c ≤ u j) (hk : ∃ k ≤ n, c < u k)
    (htouch : ((T (1-s) s)^n) u 0 = c) : s = 0 ∨ s = 1 := by
  apply touches_bound_only_at_ends n (-u) (-c) s hs0 hs1
  · intro j hj; simpa using hge j hj
  · obtain ⟨k, hk1, hk2⟩ := hk; exact ⟨k, hk1, by simpa using hk2⟩
  · rw [map_neg, Pi.neg_apply, htouch]

/-- list model, upper bound: `evalDC` attains the bound `c` of its control values only at the ends,
    unless every control value equals `c` -/
theorem evalDC_touches_max_only_at_ends (l : List K) (n : ℕ) (hl : l.length = n + 1) (c s : K)
    (hs0 : 0 ≤ s) (hs1 : s ≤ 1) (hle : ∀ x ∈ l, x ≤ c) (hk : ∃ x ∈ l, x < c)
    (htouch : evalDC (1-s) s n l = c) : s = 0 ∨ s = 1 := by
  rw [evalDC_eq _ _ n l hl] at htouch
  apply touches_bound_only_at_ends n (seq l) c s hs0 hs1 _ _ htouch
  · intro j hj; exact hle _ (seq_mem l j (by omega))
  · obtain ⟨x, hx, hxc⟩ := hk
    obtain ⟨j, hj, rfl⟩ := List.getElem_of_mem hx
    refine ⟨j, by omega, ?_⟩
    unfold seq
    rw [List.getD_eq_getElem?_getD, List.getElem?_eq_getElem hj]
    simpa using hxc

/-- list model, lower bound -/
theorem evalDC_touches_min_only_at_ends (l : List K) (n : ℕ) (hl : l.length = n + 1) (c s : K)
    (hs0 : 0 ≤ s) (hs1 : s ≤ 1) (hge : ∀ x ∈ l, c ≤ x) (hk : ∃ x ∈ l, c < x)
    (htouch : evalDC (1-s) s n l = c) : s = 0 ∨ s = 1 := by
  rw [evalDC_eq _ _ n l hl] at htouch
  apply touches_lower_bound_only_at_ends n (seq l) c s hs0 hs1 _ _ htouch
  · intro j hj; exact hge _ (seq_mem l j (by omega))
  · obtain ⟨x, hx, hxc⟩ := hk
    obtain ⟨j, hj, rfl⟩ := List.getElem_of_mem hx
    refine ⟨j, by omega, ?_⟩
    unfold seq
    rw [List.getD_eq_getElem?_getD, List.getElem?_eq_getElem hj]
    simpa using hxc

/-- one-sided box bounds of the list model -/
theorem evalDC_le_of_forall_le (l : List K) (n : ℕ) (hl : l.length = n + 1) (c s : K)
    (hs0 : 0 ≤ s) (hs1 : s ≤ 1) (hle : ∀ x ∈ l, x ≤ c) : evalDC (1-s) s n l ≤ c := by
  rw [evalDC_eq _ _ n l hl]
  exact T_pow_le s c hs0 hs1 n 0 (seq l) (fun j hj => hle _ (seq_mem l j (by omega))) 0 le_rfl

theorem evalDC_ge_of_forall_ge (l : List K) (n : ℕ) (hl : l.length = n + 1) (c s : K)
    (hs0 : 0 ≤ s) (hs1 : s ≤ 1) (hge : ∀ x ∈ l, c ≤ x) : c ≤ evalDC (1-s) s n l := by
  rw [evalDC_eq _ _ n l hl]
  exact T_pow_ge s c hs0 hs1 n 0 (seq l) (fun j hj => hge _ (seq_mem l j (by omega))) 0 le_rfl

/-! ### `wiggle_interval` (the clamp applied to every reported parameter) -/

/-- `helpers.wiggle_interval(value, wiggle)`: `none` ⇔ `success = False` -/
def wiggle (w v : K) : Option K :=
  if -w < v ∧ v < w then some 0
  else if w ≤ v ∧ v ≤ 1 - w then some v
  else if 1 - w < v ∧ v < 1 + w then some 1
  else none

theorem wiggle_spec (w v x : K) (hw0 : 0 < w) (hw : w < 1/2) (h : wiggle w v = some x) :
    0 ≤ x ∧ x ≤ 1 ∧ |x - v| < w := by
  unfold wiggle at h
  split_ifs at h with h1 h2 h3 <;> simp only [Option.some.injEq] at h <;> subst h
  · refine ⟨le_rfl, by linarith, ?_⟩; rw [abs_lt]; constructor <;> linarith [h1.1, h1.2]
  · refine ⟨by linarith [h2.1], by linarith [h2.2], ?_⟩; simp [hw0]
  · refine ⟨by linarith, le_rfl, ?_⟩; rw [abs_lt]; constructor <;> linarith [h3.1, h3.2]

theorem wiggle_none_iff (w v : K) (hw0 : 0 < w) (hw : w < 1/2) :
    wiggle w v = none ↔ (v ≤ -w ∨ 1 + w ≤ v) := by
  unfold wiggle
  split_ifs with h1 h2 h3
  · simp; constructor <;> linarith [h1.1, h1.2]
  · simp; constructor <;> linarith [h2.1, h2.2]
  · simp; constructor <;> linarith [h3.1, h3.2]
  · simp only [true_iff]
    by_contra hcon
    push Not at hcon h1 h2 h3
    obtain ⟨c1, c2⟩ := hcon
    by_cases a : v < w
    · exact absurd (h1 c1) (not_le.mpr a)
    · push Not at a
      by_cases b : v ≤ 1 - w
      · exact absurd (h2 a) (not_lt.mpr b)
      · push Not at b
        exact absurd (h3 b) (not_le.mpr c2)

end BezierVerif.TangentEnds
