import BezierVerif.Model.TriDeriv
import BezierVerif.Lemmas.Triangle
import Mathlib.Algebra.MvPolynomial.PDeriv
import Mathlib.Algebra.MvPolynomial.Eval
import Mathlib.Algebra.Ring.GeomSum
import Mathlib.Tactic.FieldSimp
import Mathlib.Tactic.Positivity
import Mathlib.RingTheory.MvPolynomial.Basic
import BezierVerif.Model.Area

/-!
# Lemmas/TriDeriv — triangles: Jacobian nets, degree elevation, area (helpers for
# Props/C11Triangle, Props/C08Triangle, Props/C12More)

* index arithmetic of `jacIndexPairs` (`outer_eq`, `jacIndexPairs_eq`, `jacIndexPairs_getElem?`);
* the two-shift calculus of Lemmas/Shift2 over a commutative ring (`SjR, SkR, T3R, triBernR`) and
  the action of a derivation on de Casteljau powers (`D_T3R_pow`);
* `surfPoly d row ∈ K[s,t]`, `pderiv_s_surfPoly`, `pderiv_t_surfPoly` (the Jacobian nets are the nets
  of the formal partial derivatives, every degree), the field-level shift identities and
  telescoped differences, values of the model's Jacobian evaluation (`jacobianDet_eq_pderiv`);
* `Triangle.elevate`: list facts without arithmetic laws (`triElevateRow_length/_corners`), loop
  invariants of `elevInner/elevOuter` (`elevAcc_closed`), the closed form `netOf_triElevateRow`,
  trinomial absorption identities and `triBern_triElevateRow` (same map, every degree);
* the formal double integral `triIntegral` over the reference triangle, the power-basis expansion
  of `x_s y_t − x_t y_s` for Jacobian nets of degree 0–3 (`detPoly_n`, generated with a CAS and
  checked by `ring`), closed forms of `Py.subdivideRow` on explicit rows.
-/

set_option linter.unusedSectionVars false
set_option linter.unusedVariables false

namespace BezierVerif.TriD
open Finset Model BezierVerif BezierVerif.Tri

/-! ### index arithmetic -/

theorem rowStart_shift (d : ℕ) : ∀ k, rowStart (d+1) (k+1) = d + 2 + rowStart d k := by
  intro k
  induction k with
  | zero => simp [rowStart]
  | succ k ih =>
    rw [rowStart_succ, ih, rowStart_succ]; omega

theorem rowStart_one (d : ℕ) : rowStart d 1 = d + 1 := by simp [rowStart]

theorem rowStart_ge (d k : ℕ) : d + 1 ≤ rowStart d (k+1) := by
  have := rowStart_mono d 1 (k+1) (by omega)
  rw [rowStart_one] at this; exact this

theorem flatMap_range_succ {α : Type} (n : ℕ) (f : ℕ → List α) :
    (List.range (n+1)).flatMap f = f 0 ++ (List.range n).flatMap (fun k => f (k+1)) := by
  rw [List.range_succ_eq_map, List.flatMap_cons, List.flatMap_map]

/-- the list of pairs in closed form, for the loop started at arbitrary running indices -/
theorem outer_eq : ∀ nv i j,
    jacIndexPairs.outer nv i j = (List.range nv).flatMap (fun k =>
      (List.range (nv - k)).map (fun t => (i + rowStart nv k + t, j + (rowStart nv (k+1) - (nv + 1)) + t))) := by
  intro nv
  induction nv with
  | zero => intro i j; simp [jacIndexPairs.outer]
  | succ nv ih =>
    intro i j
    rw [jacIndexPairs.outer, ih, flatMap_range_succ]
    congr 1
    · simp [rowStart]
    · apply List.flatMap_congr  
      intro k hk
      have hk' := List.mem_range.mp hk
      have e1 : nv + 1 - (k + 1) = nv - k := by omega
      rw [e1]
      apply List.map_congr_left
      intro t _
      rw [rowStart_shift nv k, rowStart_shift nv (k+1)]
      have := rowStart_ge nv k
      congr 1 <;> omega

/-- entry of a triangular `flatMap`: row `k` starts at `rowStart (n-1) k` -/
theorem flatMap_tri_getElem? {α : Type} : ∀ (n : ℕ) (g : ℕ → ℕ → α) (k t : ℕ), k < n → t < n - k →
    ((List.range n).flatMap (fun k => (List.range (n - k)).map (g k)))[rowStart (n-1) k + t]? = some (g k t) := by
  intro n
  induction n with
  | zero => intro g k t hk; omega
  | succ n ih =>
    intro g k t hk ht
    rw [flatMap_range_succ]
    cases k with
    | zero =>
      have ht' : t < n + 1 := by omega
      rw [List.getElem?_append_left (by simpa [rowStart] using ht')]
      simp [rowStart, ht']
    | succ k =>
      have hn : n = (n - 1) + 1 := by omega
      have e : rowStart (n + 1 - 1) (k + 1) = n + 1 + rowStart (n - 1) k := by
        rw [Nat.add_sub_cancel]
        conv_lhs => rw [hn]
        rw [rowStart_shift]; omega
      rw [e, List.getElem?_append_right (by simp; omega)]
      simp only [List.length_map, List.length_range, Nat.sub_zero]
      have e2 : n + 1 + rowStart (n - 1) k + t - (n + 1) = rowStart (n-1) k + t := by omega
      rw [e2]
      have := ih (fun k => g (k+1)) k t (by omega) (by omega)
      simpa [Nat.add_sub_add_right] using this

theorem flatMap_tri_length {α : Type} : ∀ (n : ℕ) (g : ℕ → ℕ → α),
    ((List.range n).flatMap (fun k => (List.range (n - k)).map (g k))).length = rowStart (n - 1) n := by
  intro n
  induction n with
  | zero => intro g; simp [rowStart]
  | succ n ih =>
    intro g
    rw [flatMap_range_succ, List.length_append]
    have := ih (fun k => g (k+1))
    simp only [Nat.add_sub_add_right]
    rw [this]
    simp only [List.length_map, List.length_range, Nat.sub_zero, Nat.add_sub_cancel]
    cases n with
    | zero => rfl
    | succ n => rw [rowStart_shift]; simp

/-- **`jacIndexPairs`**: the pairs `(index of (j,k), index of (j,k+1))` of the degree-`d` net in the
    node order of the degree-`d-1` net -/
theorem jacIndexPairs_eq (d : ℕ) :
    jacIndexPairs d = (List.range d).flatMap (fun k =>
      (List.range (d - k)).map (fun j => (triIndex d j k, triIndex d j (k+1)))) := by
  unfold jacIndexPairs
  rw [outer_eq]
  apply List.flatMap_congr
  intro k hk
  apply List.map_congr_left
  intro t _
  have := rowStart_ge d k
  simp only [triIndex]
  congr 1 <;> omega

theorem jacIndexPairs_length (d : ℕ) (hd : 1 ≤ d) : (jacIndexPairs d).length = numNodes (d - 1) := by
  rw [jacIndexPairs_eq, flatMap_tri_length, numNodes_eq_rowStart]
  congr 1; omega

theorem jacIndexPairs_getElem? (d j k : ℕ) (h : j + k + 1 ≤ d) :
    (jacIndexPairs d)[triIndex (d-1) j k]? = some (triIndex d j k, triIndex d j (k+1)) := by
  rw [jacIndexPairs_eq]
  exact flatMap_tri_getElem? d (fun k j => (triIndex d j k, triIndex d j (k+1))) k j (by omega) (by omega)

/-! ### the two-shift calculus over a commutative ring (needed for polynomial weights) -/

section Ring
variable {R : Type} [CommRing R]

abbrev NetR (R : Type) := ℕ → ℕ → R

def SjR : Module.End R (NetR R) where
  toFun w := fun j k => w (j+1) k
  map_add' _ _ := rfl
  map_smul' _ _ := rfl
def SkR : Module.End R (NetR R) where
  toFun w := fun j k => w j (k+1)
  map_add' _ _ := rfl
  map_smul' _ _ := rfl

theorem SjR_SkR_comm : Commute (SjR : Module.End R (NetR R)) SkR := by
  ext w j k; rfl

theorem SjR_pow_apply (m : ℕ) (w : NetR R) (j k : ℕ) :
    ((SjR : Module.End R (NetR R))^m) w j k = w (j+m) k := by
  induction m generalizing w j with
  | zero => simp
  | succ m ih => rw [pow_succ, Module.End.mul_apply, ih]; rfl
theorem SkR_pow_apply (m : ℕ) (w : NetR R) (j k : ℕ) :
    ((SkR : Module.End R (NetR R))^m) w j k = w j (k+m) := by
  induction m generalizing w k with
  | zero => simp
  | succ m ih => rw [pow_succ, Module.End.mul_apply, ih]; rfl

/-- one triangle de Casteljau round with weights in `R` -/
def T3R (l1 l2 l3 : R) : Module.End R (NetR R) := l1 • 1 + l2 • SjR + l3 • SkR

theorem T3R_apply (l1 l2 l3 : R) (w : NetR R) (j k : ℕ) :
    T3R l1 l2 l3 w j k = l1 * w j k + l2 * w (j+1) k + l3 * w j (k+1) := by
  simp [T3R, SjR, SkR]

theorem T3R_commute (a1 a2 a3 b1 b2 b3 : R) : Commute (T3R a1 a2 a3) (T3R b1 b2 b3) := by
  unfold T3R
  have h := (SjR_SkR_comm (R := R))
  have c1 : ∀ (x y : R) (A B : Module.End R (NetR R)), Commute A B → Commute (x • A) (y • B) :=
    fun x y A B hAB => (hAB.smul_left x).smul_right y
  refine Commute.add_left (Commute.add_left ?_ ?_) ?_ <;> refine Commute.add_right (Commute.add_right ?_ ?_) ?_
  · exact c1 _ _ _ _ (Commute.one_left _)
  · exact c1 _ _ _ _ (Commute.one_left _)
  · exact c1 _ _ _ _ (Commute.one_left _)
  · exact c1 _ _ _ _ (Commute.one_right _)
  · exact c1 _ _ _ _ (Commute.refl _)
  · exact c1 _ _ _ _ h
  · exact c1 _ _ _ _ (Commute.one_right _)
  · exact c1 _ _ _ _ h.symm
  · exact c1 _ _ _ _ (Commute.refl _)

/-- the bivariate Bernstein sum in storage order, weights and net in `R` -/
def triBernR (d : ℕ) (l1 l2 l3 : R) (w : NetR R) : R :=
  ∑ k ∈ range (d+1), ∑ j ∈ range (d-k+1),
    ((d.choose k * (d-k).choose j : ℕ) : R) * l1^(d-k-j) * l2^j * l3^k * w j k

theorem T3R_pow_apply_zero (d : ℕ) (l1 l2 l3 : R) (w : NetR R) :
    ((T3R l1 l2 l3)^d) w 0 0 = triBernR d l1 l2 l3 w := by
  unfold T3R triBernR
  have c1 : ∀ (x y : R) (A B : Module.End R (NetR R)), Commute A B → Commute (x • A) (y • B) :=
    fun x y A B hAB => (hAB.smul_left x).smul_right y
  rw [trinomial _ _ _ (c1 _ _ _ _ (Commute.one_left _)) (c1 _ _ _ _ (Commute.one_left _)) (c1 _ _ _ _ SjR_SkR_comm)]
  simp only [LinearMap.sum_apply, Finset.sum_apply]
  apply Finset.sum_congr rfl; intro k hk
  rw [← Finset.sum_range_reflect]
  apply Finset.sum_congr rfl; intro i hi
  have hk' := mem_range.mp hk
  have hi' := mem_range.mp hi
  have e1 : d - k + 1 - 1 - i = d - k - i := by omega
  have e2 : d - k - (d - k - i) = i := by omega
  rw [e1, e2, Nat.choose_symm (by omega : i ≤ d - k)]
  rw [Module.End.mul_apply, Module.End.natCast_apply, map_nsmul]
  simp [smul_pow, Module.End.mul_apply, SjR_pow_apply, SkR_pow_apply, nsmul_eq_mul]
  ring

theorem triBernR_congr (d : ℕ) (l1 l2 l3 : R) (u w : NetR R) (h : ∀ j k, j + k ≤ d → u j k = w j k) :
    triBernR d l1 l2 l3 u = triBernR d l1 l2 l3 w := by
  unfold triBernR
  apply Finset.sum_congr rfl; intro k hk
  apply Finset.sum_congr rfl; intro j hj
  have := mem_range.mp hk; have := mem_range.mp hj
  rw [h j k (by omega)]

theorem triBernR_smul (d : ℕ) (l1 l2 l3 c : R) (w : NetR R) :
    triBernR d l1 l2 l3 (fun j k => c * w j k) = c * triBernR d l1 l2 l3 w := by
  unfold triBernR
  rw [Finset.mul_sum]
  apply Finset.sum_congr rfl; intro k _
  rw [Finset.mul_sum]
  apply Finset.sum_congr rfl; intro j _
  ring

/-! ### derivations act on de Casteljau powers -/

variable {A : Type} [CommRing A] [Algebra A R] (D : Derivation A R R)

theorem D_T3R_apply (l1 l2 l3 : R) (u : NetR R) (j k : ℕ) :
    D (T3R l1 l2 l3 u j k) = T3R (D l1) (D l2) (D l3) u j k + T3R l1 l2 l3 (fun j k => D (u j k)) j k := by
  simp only [T3R_apply, map_add, Derivation.leibniz, smul_eq_mul]
  ring

/-- **the derivative of `T^n w` for a constant net `w` is `n · T' T^(n-1) w`**, `T'` the round with
    the derivatives of the weights -/
theorem D_T3R_pow (l1 l2 l3 : R) (w : NetR R) (hw : ∀ j k, D (w j k) = 0) : ∀ (n j k : ℕ),
    D (((T3R l1 l2 l3)^n) w j k)
      = (n : R) * ((T3R (D l1) (D l2) (D l3) * (T3R l1 l2 l3)^(n-1)) w) j k := by
  intro n
  induction n with
  | zero => intro j k; simp [hw]
  | succ n ih =>
    intro j k
    rw [pow_succ', Module.End.mul_apply, D_T3R_apply]
    have e : (fun j k => D (((T3R l1 l2 l3)^n) w j k))
        = (n : R) • ((T3R (D l1) (D l2) (D l3) * (T3R l1 l2 l3)^(n-1)) w) := by
      funext j k; rw [ih j k]; rfl
    rw [e, map_smul]
    simp only [Nat.add_sub_cancel, Pi.smul_apply, smul_eq_mul, Module.End.mul_apply]
    cases n with
    | zero => simp
    | succ n =>
      have hc : T3R l1 l2 l3 ((T3R (D l1) (D l2) (D l3)) (((T3R l1 l2 l3)^n) w))
          = (T3R (D l1) (D l2) (D l3)) (((T3R l1 l2 l3)^(n+1)) w) := by
        rw [pow_succ', Module.End.mul_apply]
        have := (T3R_commute l1 l2 l3 (D l1) (D l2) (D l3)).eq
        exact congrArg (fun f => f (((T3R l1 l2 l3)^n) w)) this
      simp only [Nat.add_sub_cancel]
      rw [hc]
      push_cast
      ring

end Ring

/-! ### the Jacobian nets as nets -/

section Nets
variable {K : Type} [Field K]

theorem seq_map_getElem? {α : Type} (l : List α) (f : α → K) (i : ℕ) (a : α) (h : l[i]? = some a) :
    seq (l.map f) i = f a := by
  unfold seq
  rw [List.getD_eq_getElem?_getD, List.getElem?_map, h]; rfl

theorem jacobianSRow_length (d : ℕ) (hd : 1 ≤ d) (row : List K) :
    (jacobianSRow d row).length = numNodes (d - 1) := by
  unfold jacobianSRow; rw [List.length_map, jacIndexPairs_length d hd]

theorem jacobianTRow_length (d : ℕ) (hd : 1 ≤ d) (row : List K) :
    (jacobianTRow d row).length = numNodes (d - 1) := by
  unfold jacobianTRow; rw [List.length_map, jacIndexPairs_length d hd]

/-- entry `(j, k)` of the degree-`d-1` net `jacobian_s`: `d · (v(j+1,k) − v(j,k))` -/
theorem netOf_jacobianSRow (d : ℕ) (row : List K) (j k : ℕ) (h : j + k + 1 ≤ d) :
    netOf (d-1) (jacobianSRow d row) j k = (d : K) * (netOf d row (j+1) k - netOf d row j k) := by
  unfold netOf jacobianSRow
  exact seq_map_getElem? _ _ _ _ (jacIndexPairs_getElem? d j k h)

/-- entry `(j, k)` of the degree-`d-1` net `jacobian_t`: `d · (v(j,k+1) − v(j,k))` -/
theorem netOf_jacobianTRow (d : ℕ) (row : List K) (j k : ℕ) (h : j + k + 1 ≤ d) :
    netOf (d-1) (jacobianTRow d row) j k = (d : K) * (netOf d row j (k+1) - netOf d row j k) := by
  unfold netOf jacobianTRow
  exact seq_map_getElem? _ _ _ _ (jacIndexPairs_getElem? d j k h)

end Nets

/-! ### the surface polynomial and its formal partial derivatives -/

section Poly
variable {K : Type} [Field K]
open MvPolynomial

/-- the coordinate polynomial `B(s, t) ∈ K[s, t]` (`s = X 0`, `t = X 1`) of a flat coordinate row:
    the Bernstein sum with the weights `(1 - s - t, s, t)` -/
noncomputable def surfPoly (d : ℕ) (row : List K) : MvPolynomial (Fin 2) K :=
  triBernR d (1 - X 0 - X 1) (X 0) (X 1) (fun j k => C (netOf d row j k))

theorem eval_surfPoly (d : ℕ) (row : List K) (s t : K) :
    eval ![s, t] (surfPoly d row) = triBern d (1 - s - t) s t (netOf d row) := by
  unfold surfPoly triBernR triBern
  simp only [map_sum, map_mul, map_pow, map_natCast, map_sub, map_one, eval_X, eval_C,
    Matrix.cons_val_zero, Matrix.cons_val_one]

theorem surfPoly_eq_pow (d : ℕ) (row : List K) :
    surfPoly d row = (((T3R (1 - X 0 - X 1) (X 0) (X 1) : Module.End _ (NetR (MvPolynomial (Fin 2) K)))^d)
      (fun j k => C (netOf d row j k))) 0 0 := by
  rw [T3R_pow_apply_zero]; rfl

/-- general form: a derivation `D` of `K[s,t]` with `D s = a`, `D t = b` (constants) maps the
    surface polynomial to the degree-`d-1` Bernstein sum over the net
    `d · (a·(v(j+1,k) − v(j,k)) + b·(v(j,k+1) − v(j,k)))` -/
theorem D_surfPoly (D : Derivation K (MvPolynomial (Fin 2) K) (MvPolynomial (Fin 2) K)) (a b : K)
    (h0 : D (X 0) = C a) (h1 : D (X 1) = C b) (d : ℕ) (row : List K) :
    D (surfPoly d row) = triBernR (d-1) (1 - X 0 - X 1) (X 0) (X 1)
      (fun j k => C ((d : K) * (a * (netOf d row (j+1) k - netOf d row j k)
        + b * (netOf d row j (k+1) - netOf d row j k)))) := by
  have hC : ∀ c : K, D (C c) = 0 := fun c => by
    rw [← algebraMap_eq]; exact D.map_algebraMap c
  rw [surfPoly_eq_pow, D_T3R_pow D _ _ _ _ (fun j k => hC _)]
  have hl1 : D (1 - X 0 - X 1) = C (-(a + b)) := by
    rw [map_sub, map_sub, h0, h1]
    have : D (1 : MvPolynomial (Fin 2) K) = 0 := by simp
    rw [this]; simp only [map_neg, map_add]; ring
  rw [hl1, h0, h1]
  have hc := ((T3R_commute (C (-(a + b))) (C a) (C b) (1 - X 0 - X 1) (X 0) (X 1 : MvPolynomial (Fin 2) K)).pow_right (d-1)).eq
  rw [hc, Module.End.mul_apply, T3R_pow_apply_zero, ← triBernR_smul]
  apply triBernR_congr
  intro j k _
  rw [T3R_apply]
  simp only [map_mul, map_add, map_sub, map_neg, map_natCast]
  ring

end Poly

section Partial
variable {K : Type} [Field K]
open MvPolynomial

/-- **`jacobian_s` is the net of `∂B/∂s`** (formal partial derivative in `K[s,t]`), every degree -/
theorem pderiv_s_surfPoly (d : ℕ) (hd : 1 ≤ d) (row : List K) :
    pderiv 0 (surfPoly d row) = surfPoly (d-1) (jacobianSRow d row) := by
  rw [D_surfPoly (pderiv 0) 1 0 (by simp) (by rw [pderiv_X_of_ne (by decide)]; simp) d row]
  unfold surfPoly
  apply triBernR_congr
  intro j k hjk
  rw [netOf_jacobianSRow d row j k (by omega)]
  congr 1; ring

/-- **`jacobian_t` is the net of `∂B/∂t`**, every degree -/
theorem pderiv_t_surfPoly (d : ℕ) (hd : 1 ≤ d) (row : List K) :
    pderiv 1 (surfPoly d row) = surfPoly (d-1) (jacobianTRow d row) := by
  rw [D_surfPoly (pderiv 1) 0 1 (by rw [pderiv_X_of_ne (by decide)]; simp) (by simp) d row]
  unfold surfPoly
  apply triBernR_congr
  intro j k hjk
  rw [netOf_jacobianTRow d row j k (by omega)]
  congr 1; ring

/-! ### the same in the shift calculus over the field: exact algebraic identity and the telescoped
difference quotient -/

theorem Sj_sub_one_eq : (Sj - 1 : Module.End K (Net K)) = T3 (-1) 1 0 := by
  ext w j k; simp [T3_apply, Sj]; ring

theorem Sk_sub_one_eq : (Sk - 1 : Module.End K (Net K)) = T3 (-1) 0 1 := by
  ext w j k; simp [T3_apply, Sk]; ring

theorem triBern_jacobianS (d : ℕ) (hd : 1 ≤ d) (row : List K) (l1 l2 l3 : K) :
    triBern (d-1) l1 l2 l3 (netOf (d-1) (jacobianSRow d row))
      = (d : K) * (((Sj - 1 : Module.End K (Net K)) * (T3 l1 l2 l3)^(d-1)) (netOf d row)) 0 0 := by
  rw [Sj_sub_one_eq, ((T3_commute (-1) 1 0 l1 l2 l3).pow_right (d-1)).eq, Module.End.mul_apply]
  have : (d : K) * ((T3 l1 l2 l3)^(d-1)) (T3 (-1) 1 0 (netOf d row)) 0 0
      = ((T3 l1 l2 l3)^(d-1)) ((d : K) • T3 (-1) 1 0 (netOf d row)) 0 0 := by
    rw [map_smul]; rfl
  rw [this, T3_pow_apply_zero']
  apply triBern_congr
  intro j k hjk
  rw [netOf_jacobianSRow d row j k (by omega)]
  simp only [Pi.smul_apply, smul_eq_mul, T3_apply]; ring

theorem triBern_jacobianT (d : ℕ) (hd : 1 ≤ d) (row : List K) (l1 l2 l3 : K) :
    triBern (d-1) l1 l2 l3 (netOf (d-1) (jacobianTRow d row))
      = (d : K) * (((Sk - 1 : Module.End K (Net K)) * (T3 l1 l2 l3)^(d-1)) (netOf d row)) 0 0 := by
  rw [Sk_sub_one_eq, ((T3_commute (-1) 0 1 l1 l2 l3).pow_right (d-1)).eq, Module.End.mul_apply]
  have : (d : K) * ((T3 l1 l2 l3)^(d-1)) (T3 (-1) 0 1 (netOf d row)) 0 0
      = ((T3 l1 l2 l3)^(d-1)) ((d : K) • T3 (-1) 0 1 (netOf d row)) 0 0 := by
    rw [map_smul]; rfl
  rw [this, T3_pow_apply_zero']
  apply triBern_congr
  intro j k hjk
  rw [netOf_jacobianTRow d row j k (by omega)]
  simp only [Pi.smul_apply, smul_eq_mul, T3_apply]; ring

/-- telescoped difference in the `s` direction:
    `B(s+h, t) − B(s, t) = h · Σ_{m<d} T(s+h,t)^m T(s,t)^(d-1-m) (Sj − 1) w` -/
theorem triBern_diff_s (d : ℕ) (w : Net K) (s t h : K) :
    triBern d (1 - (s + h) - t) (s + h) t w - triBern d (1 - s - t) s t w
      = h * ∑ m ∈ range d, (((T3 (1 - (s + h) - t) (s + h) t)^m * (T3 (1 - s - t) s t)^(d-1-m))
          ((Sj - 1 : Module.End K (Net K)) w)) 0 0 := by
  rw [← T3_pow_apply_zero', ← T3_pow_apply_zero']
  have hg := Commute.geom_sum₂_mul (T3_commute (1 - (s + h) - t) (s + h) t (1 - s - t) s t) d
  have hd : T3 (1 - (s + h) - t) (s + h) t - T3 (1 - s - t) s t = h • (Sj - 1 : Module.End K (Net K)) := by
    ext w j k; simp [T3_apply, Sj]; ring
  rw [hd] at hg
  have := congrArg (fun f : Module.End K (Net K) => f w 0 0) hg
  simp only [LinearMap.sub_apply, Pi.sub_apply] at this
  rw [← this, Module.End.mul_apply, LinearMap.smul_apply, map_smul, LinearMap.sum_apply]
  simp only [Pi.smul_apply, Finset.sum_apply, smul_eq_mul]

/-- telescoped difference in the `t` direction -/
theorem triBern_diff_t (d : ℕ) (w : Net K) (s t h : K) :
    triBern d (1 - s - (t + h)) s (t + h) w - triBern d (1 - s - t) s t w
      = h * ∑ m ∈ range d, (((T3 (1 - s - (t + h)) s (t + h))^m * (T3 (1 - s - t) s t)^(d-1-m))
          ((Sk - 1 : Module.End K (Net K)) w)) 0 0 := by
  rw [← T3_pow_apply_zero', ← T3_pow_apply_zero']
  have hg := Commute.geom_sum₂_mul (T3_commute (1 - s - (t + h)) s (t + h) (1 - s - t) s t) d
  have hd : T3 (1 - s - (t + h)) s (t + h) - T3 (1 - s - t) s t = h • (Sk - 1 : Module.End K (Net K)) := by
    ext w j k; simp [T3_apply, Sk]; ring
  rw [hd] at hg
  have := congrArg (fun f : Module.End K (Net K) => f w 0 0) hg
  simp only [LinearMap.sub_apply, Pi.sub_apply] at this
  rw [← this, Module.End.mul_apply, LinearMap.smul_apply, map_smul, LinearMap.sum_apply]
  simp only [Pi.smul_apply, Finset.sum_apply, smul_eq_mul]

end Partial

/-! ### values of the model's Jacobian evaluation -/

section Values
variable {K : Type} [Field K] [CharZero K]
open MvPolynomial

theorem eval_surfPoly_eq_model (thr d : ℕ) (row : List K) (h : row.length = numNodes d) (s t : K) :
    eval ![s, t] (surfPoly d row) = Py.evalBarycentricRow thr d row (cartesian s t) := by
  rw [eval_surfPoly, Py_evalBarycentricRow_eq thr d row _ (by rw [h, numNodes_eq_rowStart])]
  rfl

/-- `evaluate_barycentric` on the `jacobian_s` net is the value of `∂B/∂s` (no hypothesis on `row`) -/
theorem evalJacS_eq (thr d : ℕ) (hd : 1 ≤ d) (row : List K) (s t : K) :
    Py.evalBarycentricRow thr (d-1) (jacobianSRow d row) (cartesian s t)
      = eval ![s, t] (pderiv 0 (surfPoly d row)) := by
  rw [pderiv_s_surfPoly d hd, eval_surfPoly_eq_model thr (d-1) _ (jacobianSRow_length d hd row)]

theorem evalJacT_eq (thr d : ℕ) (hd : 1 ≤ d) (row : List K) (s t : K) :
    Py.evalBarycentricRow thr (d-1) (jacobianTRow d row) (cartesian s t)
      = eval ![s, t] (pderiv 1 (surfPoly d row)) := by
  rw [pderiv_t_surfPoly d hd, eval_surfPoly_eq_model thr (d-1) _ (jacobianTRow_length d hd row)]

/-- degree 1: the single entry of the Jacobian net is the (constant) partial derivative -/
theorem seqJacS_one (row : List K) (s t : K) :
    seq (jacobianSRow 1 row) 0 = eval ![s, t] (pderiv 0 (surfPoly 1 row)) := by
  rw [pderiv_s_surfPoly 1 le_rfl, eval_surfPoly]
  simp [triBern, netOf, rowStart]

theorem seqJacT_one (row : List K) (s t : K) :
    seq (jacobianTRow 1 row) 0 = eval ![s, t] (pderiv 1 (surfPoly 1 row)) := by
  rw [pderiv_t_surfPoly 1 le_rfl, eval_surfPoly]
  simp [triBern, netOf, rowStart]

/-- `jacobian_det` is `x_s y_t − x_t y_s` of the formal partial derivatives, every degree `d ≥ 1` -/
theorem jacobianDet_eq_pderiv [DecidableEq K] (thr d : ℕ) (hd : 1 ≤ d) (xs ys : List K) (s t : K) :
    jacobianDet thr d [xs, ys] s t =
      eval ![s, t] (pderiv 0 (surfPoly d xs)) * eval ![s, t] (pderiv 1 (surfPoly d ys))
        - eval ![s, t] (pderiv 1 (surfPoly d xs)) * eval ![s, t] (pderiv 0 (surfPoly d ys)) := by
  unfold jacobianDet jacobianBoth
  by_cases h : d = 1
  · subst h
    simp only [if_true, List.map_cons, List.map_nil, List.cons_append, List.nil_append, seq,
      List.getD_cons_zero, List.getD_cons_succ]
    rw [← seq, ← seq, ← seq, ← seq, seqJacS_one xs s t, seqJacS_one ys s t, seqJacT_one xs s t,
      seqJacT_one ys s t]
    ring
  · simp only [h, if_false, Py.evalBarycentric, List.map_cons, List.map_nil, List.cons_append,
      List.nil_append, seq, List.getD_cons_zero, List.getD_cons_succ]
    rw [evalJacS_eq thr d hd xs, evalJacS_eq thr d hd ys, evalJacT_eq thr d hd xs, evalJacT_eq thr d hd ys]
    ring

end Values

/-! ## `Triangle.elevate` -/

section ElevRaw
variable {K : Type} [Add K] [Sub K] [Mul K] [Div K] [Neg K] [OfNat K 0] [OfNat K 1] [NatCast K]

theorem triAddAt_length : ∀ (l : List K) (p : ℕ) (x : K), (triAddAt l p x).length = l.length
  | [], _, _ => rfl
  | _ :: _, 0, _ => rfl
  | _ :: rest, p+1, x => by simp [triAddAt, triAddAt_length rest p x]

theorem triSetAt_length : ∀ (l : List K) (p : ℕ) (x : K), (triSetAt l p x).length = l.length
  | [], _, _ => rfl
  | _ :: _, 0, _ => rfl
  | _ :: rest, p+1, x => by simp [triSetAt, triSetAt_length rest p x]

theorem seq_triSetAt_self : ∀ (l : List K) (p : ℕ) (x : K), p < l.length → seq (triSetAt l p x) p = x
  | [], _, _, h => by simp at h
  | _ :: _, 0, _, _ => rfl
  | _ :: rest, p+1, x, h => by
    have := seq_triSetAt_self rest p x (by simpa using h)
    simpa [triSetAt, seq] using this

theorem seq_triSetAt_ne : ∀ (l : List K) (p q : ℕ) (x : K), q ≠ p → seq (triSetAt l p x) q = seq l q
  | [], _, _, _, _ => rfl
  | _ :: _, 0, 0, _, h => absurd rfl h
  | _ :: _, 0, q+1, _, _ => rfl
  | _ :: _, p+1, 0, _, _ => rfl
  | _ :: rest, p+1, q+1, x, h => by
    have := seq_triSetAt_ne rest p q x (by omega)
    simpa [triSetAt, seq] using this

theorem seq_triAddAt_self : ∀ (l : List K) (p : ℕ) (x : K), p < l.length →
    seq (triAddAt l p x) p = seq l p + x
  | [], _, _, h => by simp at h
  | _ :: _, 0, _, _ => rfl
  | _ :: rest, p+1, x, h => by
    have := seq_triAddAt_self rest p x (by simpa using h)
    simpa [triAddAt, seq] using this

theorem seq_triAddAt_ne : ∀ (l : List K) (p q : ℕ) (x : K), q ≠ p → seq (triAddAt l p x) q = seq l q
  | [], _, _, _, _ => rfl
  | _ :: _, 0, 0, _, h => absurd rfl h
  | _ :: _, 0, q+1, _, _ => rfl
  | _ :: _, p+1, 0, _, _ => rfl
  | _ :: rest, p+1, q+1, x, h => by
    have := seq_triAddAt_ne rest p q x (by omega)
    simpa [triAddAt, seq] using this

theorem elevInner_length (d k : ℕ) (v : ℕ → K) : ∀ (cnt j : ℕ) (st : ElevState K),
    (elevInner d k v cnt j st).acc.length = st.acc.length := by
  intro cnt
  induction cnt with
  | zero => intro j st; rfl
  | succ cnt ih =>
    intro j st
    rw [elevInner, ih]
    simp [triAddAt_length]

theorem elevOuter_length (d : ℕ) (v : ℕ → K) : ∀ (fuel k : ℕ) (st : ElevState K),
    (elevOuter d v fuel k st).acc.length = st.acc.length := by
  intro fuel
  induction fuel with
  | zero => intro k st; rfl
  | succ fuel ih =>
    intro k st
    rw [elevOuter, ih]
    simp [elevInner_length]

theorem triElevateRow_length (d : ℕ) (row : List K) :
    (Tri.elevateRow d row).length = row.length + d + 2 := by
  unfold Tri.elevateRow
  simp only [triSetAt_length, divRow, List.length_map, elevOuter_length, List.length_replicate]

/-- the three corners of the result are copies of the three corners of the input: no arithmetic
    law of `K` is used -/
theorem triElevateRow_corners (d : ℕ) (row : List K) (h : 1 ≤ row.length) :
    seq (Tri.elevateRow d row) 0 = seq row 0 ∧
    seq (Tri.elevateRow d row) (d + 1) = seq row d ∧
    seq (Tri.elevateRow d row) ((Tri.elevateRow d row).length - 1) = seq row (row.length - 1) := by
  have hl := triElevateRow_length d row
  rw [hl]
  unfold Tri.elevateRow
  simp only
  set st := elevOuter d (seq row) (d + 1) 0
    { acc := List.replicate (row.length + d + 2) 0, index := 0, p1 := 0, p2 := 1, p3 := d + 2 } with hst
  have l0 : (divRow st.acc (((d : ℕ) : K) + 1)).length = row.length + d + 2 := by
    simp [divRow, hst, elevOuter_length]
  set dv := divRow st.acc (((d : ℕ) : K) + 1) with hdv
  have l1 : (triSetAt dv 0 (seq row 0)).length = row.length + d + 2 := by rw [triSetAt_length, l0]
  have l2 : (triSetAt (triSetAt dv 0 (seq row 0)) (d + 1) (seq row d)).length = row.length + d + 2 := by
    rw [triSetAt_length, l1]
  rw [l2]
  refine ⟨?_, ?_, ?_⟩
  · rw [seq_triSetAt_ne _ _ _ _ (by omega), seq_triSetAt_ne _ _ _ _ (by omega),
      seq_triSetAt_self _ _ _ (by omega)]
  · rw [seq_triSetAt_ne _ _ _ _ (by omega), seq_triSetAt_self _ _ _ (by omega)]
  · rw [seq_triSetAt_self _ _ _ (by omega)]

end ElevRaw

section ElevField
variable {K : Type} [Field K]

theorem seq_triAddAt (l : List K) (p q : ℕ) (x : K) (hp : p < l.length) :
    seq (triAddAt l p x) q = seq l q + (if q = p then x else 0) := by
  by_cases h : q = p
  · subst h; rw [seq_triAddAt_self l q x hp, if_pos rfl]
  · rw [seq_triAddAt_ne l p q x h, if_neg h, add_zero]

/-- what one input node `x` at running positions `(p1, p2, p3)` adds to entry `q` -/
def elevContrib (d k j : ℕ) (x : K) (p1 p2 p3 q : ℕ) : K :=
  (if q = p1 then ((d - j - k + 1 : ℕ) : K) * x else 0) + (if q = p2 then ((j + 1 : ℕ) : K) * x else 0)
    + (if q = p3 then ((k + 1 : ℕ) : K) * x else 0)

/-- invariant of the inner loop -/
theorem elevInner_spec (d k : ℕ) (v : ℕ → K) : ∀ (cnt j : ℕ) (st : ElevState K),
    st.p1 + cnt ≤ st.acc.length → st.p2 + cnt ≤ st.acc.length → st.p3 + cnt ≤ st.acc.length →
    (elevInner d k v cnt j st).index = st.index + cnt ∧
    (elevInner d k v cnt j st).p1 = st.p1 + cnt ∧
    (elevInner d k v cnt j st).p2 = st.p2 + cnt ∧
    (elevInner d k v cnt j st).p3 = st.p3 + cnt ∧
    (elevInner d k v cnt j st).acc.length = st.acc.length ∧
    ∀ q, seq (elevInner d k v cnt j st).acc q = seq st.acc q +
      ∑ m ∈ range cnt, elevContrib d k (j + m) (v (st.index + m)) (st.p1 + m) (st.p2 + m) (st.p3 + m) q := by
  intro cnt
  induction cnt with
  | zero => intro j st _ _ _; simp [elevInner]
  | succ cnt ih =>
    intro j st h1 h2 h3
    rw [elevInner]
    set st' : ElevState K :=
      { acc := triAddAt (triAddAt (triAddAt st.acc st.p1 (((d - j - k + 1 : ℕ) : K) * v st.index)) st.p2
          (((j + 1 : ℕ) : K) * v st.index)) st.p3 (((k + 1 : ℕ) : K) * v st.index),
        index := st.index + 1, p1 := st.p1 + 1, p2 := st.p2 + 1, p3 := st.p3 + 1 } with hst'
    have hl : st'.acc.length = st.acc.length := by simp [hst', triAddAt_length]
    obtain ⟨a1, a2, a3, a4, a5, a6⟩ := ih (j+1) st' (by rw [hl]; simp [hst']; omega)
      (by rw [hl]; simp [hst']; omega) (by rw [hl]; simp [hst']; omega)
    refine ⟨by rw [a1]; simp [hst']; omega, by rw [a2]; simp [hst']; omega, by rw [a3]; simp [hst']; omega,
      by rw [a4]; simp [hst']; omega, by rw [a5, hl], ?_⟩
    intro q
    rw [a6 q, Finset.sum_range_succ']
    have e0 : seq st'.acc q = seq st.acc q + elevContrib d k j (v st.index) st.p1 st.p2 st.p3 q := by
      simp only [hst', elevContrib]
      rw [seq_triAddAt _ _ _ _ (by rw [triAddAt_length, triAddAt_length]; omega),
        seq_triAddAt _ _ _ _ (by rw [triAddAt_length]; omega), seq_triAddAt _ _ _ _ (by omega)]
      ring
    rw [e0]
    simp only [Nat.add_zero]
    have e1 : ∀ m, elevContrib d k (j + 1 + m) (v (st'.index + m)) (st'.p1 + m) (st'.p2 + m) (st'.p3 + m) q
        = elevContrib d k (j + (m + 1)) (v (st.index + (m + 1))) (st.p1 + (m + 1)) (st.p2 + (m + 1)) (st.p3 + (m + 1)) q := by
      intro m
      simp only [hst']
      rw [show j + 1 + m = j + (m + 1) by omega, show st.index + 1 + m = st.index + (m + 1) by omega,
        show st.p1 + 1 + m = st.p1 + (m + 1) by omega, show st.p2 + 1 + m = st.p2 + (m + 1) by omega,
        show st.p3 + 1 + m = st.p3 + (m + 1) by omega]
    simp only [e1]
    ring

/-- contribution of input node `(j, k)` to entry `q` of the elevated (undivided) net -/
def elevNode (d : ℕ) (v : ℕ → K) (j k q : ℕ) : K :=
  elevContrib d k j (v (rowStart d k + j)) (rowStart (d+1) k + j) (rowStart (d+1) k + (j+1))
    (rowStart (d+1) (k+1) + j) q

/-- invariant of the outer loop -/
theorem elevOuter_spec (d : ℕ) (v : ℕ → K) : ∀ (fuel k : ℕ) (st : ElevState K),
    k + fuel = d + 1 → st.acc.length = rowStart (d+1) (d+2) →
    st.index = rowStart d k → st.p1 = rowStart (d+1) k → st.p2 = rowStart (d+1) k + 1 →
    st.p3 = rowStart (d+1) (k+1) →
    ∀ q, seq (elevOuter d v fuel k st).acc q = seq st.acc q +
      ∑ k' ∈ range fuel, ∑ j ∈ range (d + 1 - (k + k')), elevNode d v j (k + k') q := by
  intro fuel
  induction fuel with
  | zero => intro k st _ _ _ _ _ _ q; simp [elevOuter]
  | succ fuel ih =>
    intro k st hk hl hi h1 h2 h3 q
    have r1 : rowStart (d+1) (k+1) = rowStart (d+1) k + (d + 1 + 1 - k) := rfl
    have r2 : rowStart (d+1) (k+2) = rowStart (d+1) (k+1) + (d + 1 + 1 - (k+1)) := rfl
    have m1 := rowStart_mono (d+1) (k+2) (d+2) (by omega)
    obtain ⟨a1, a2, a3, a4, a5, a6⟩ := elevInner_spec d k v (d + 1 - k) 0 st
      (by rw [hl, h1]; omega) (by rw [hl, h2]; omega) (by rw [hl, h3]; omega)
    rw [elevOuter]
    have := ih (k+1) { elevInner d k v (d + 1 - k) 0 st with
        p1 := (elevInner d k v (d + 1 - k) 0 st).p1 + 1, p2 := (elevInner d k v (d + 1 - k) 0 st).p2 + 1 }
      (by omega) (by simp only; rw [a5, hl])
      (by simp only; rw [a1, hi]; rfl)
      (by simp only; rw [a2, h1, r1]; omega)
      (by simp only; rw [a3, h2, r1]; omega)
      (by simp only; rw [a4, h3, r2]; omega) q
    rw [this]
    simp only
    rw [a6 q, Finset.sum_range_succ']
    have e1 : ∑ m ∈ range (d + 1 - k), elevContrib d k (0 + m) (v (st.index + m)) (st.p1 + m) (st.p2 + m) (st.p3 + m) q
        = ∑ j ∈ range (d + 1 - (k + 0)), elevNode d v j (k + 0) q := by
      apply Finset.sum_congr rfl
      intro j _
      unfold elevNode
      rw [hi, h1, h2, h3]
      simp only [Nat.zero_add, Nat.add_zero]
      congr 1; omega
    have e2 : ∑ k' ∈ range fuel, ∑ j ∈ range (d + 1 - (k + 1 + k')), elevNode d v j (k + 1 + k') q
        = ∑ k' ∈ range fuel, ∑ j ∈ range (d + 1 - (k + (k' + 1))), elevNode d v j (k + (k' + 1)) q := by
      apply Finset.sum_congr rfl
      intro k' _
      rw [show k + 1 + k' = k + (k' + 1) by omega]
    rw [e1, e2]
    ring

theorem seq_replicate_zero (n q : ℕ) : seq (List.replicate n (0 : K)) q = 0 := by
  unfold seq
  rw [List.getD_eq_getElem?_getD, List.getElem?_replicate]
  split <;> rfl

/-- the accumulator after the loops: sum of the contributions of all input nodes -/
theorem elevAcc_seq (d : ℕ) (row : List K) (h : row.length = numNodes d) (q : ℕ) :
    seq (elevOuter d (seq row) (d + 1) 0
      { acc := List.replicate (row.length + d + 2) 0, index := 0, p1 := 0, p2 := 1, p3 := d + 2 }).acc q
      = ∑ k ∈ range (d + 1), ∑ j ∈ range (d + 1 - k), elevNode d (seq row) j k q := by
  have hlen : row.length + d + 2 = rowStart (d+1) (d+2) := by
    rw [h, numNodes_eq_rowStart, rowStart_shift d (d+1)]; omega
  rw [elevOuter_spec d (seq row) (d+1) 0 _ (by omega) (by simp [hlen]) rfl rfl rfl (by simp [rowStart]) q]
  rw [seq_replicate_zero, zero_add]
  apply Finset.sum_congr rfl
  intro k _
  rw [Nat.zero_add]

/-- the flat index is injective on the nodes of the net -/
theorem triIndex_inj (D j k j0 k0 : ℕ) (h : j + k ≤ D) (h0 : j0 + k0 ≤ D)
    (e : rowStart D k + j = rowStart D k0 + j0) : j = j0 ∧ k = k0 := by
  have key : ∀ a b ja jb, ja + a ≤ D → jb + b ≤ D → a < b → rowStart D a + ja < rowStart D b + jb := by
    intro a b ja jb ha hb hab
    have m := rowStart_mono D (a+1) b (by omega)
    rw [rowStart_succ] at m
    omega
  rcases Nat.lt_trichotomy k k0 with hk | hk | hk
  · have := key k k0 j j0 h h0 hk; omega
  · subst hk; exact ⟨by omega, rfl⟩
  · have := key k0 k j0 j h0 h hk; omega

theorem sum_tri_single (d : ℕ) (P : ℕ → ℕ → Prop) [∀ j k, Decidable (P j k)] (a : ℕ → ℕ → K)
    (j1 k1 : ℕ) (hk : k1 < d + 1) (hj : j1 < d + 1 - k1)
    (hP : ∀ j k, k < d + 1 → j < d + 1 - k → (P j k ↔ j = j1 ∧ k = k1)) :
    ∑ k ∈ range (d + 1), ∑ j ∈ range (d + 1 - k), (if P j k then a j k else 0) = a j1 k1 := by
  rw [Finset.sum_eq_single k1]
  · rw [Finset.sum_eq_single j1]
    · rw [if_pos ((hP j1 k1 hk hj).mpr ⟨rfl, rfl⟩)]
    · intro j hjr hne
      rw [if_neg]
      intro hp
      exact hne ((hP j k1 hk (mem_range.mp hjr)).mp hp).1
    · intro hn; exact absurd (mem_range.mpr hj) hn
  · intro k hkr hne
    apply Finset.sum_eq_zero
    intro j hjr
    rw [if_neg]
    intro hp
    exact hne ((hP j k (mem_range.mp hkr) (mem_range.mp hjr)).mp hp).2
  · intro hn; exact absurd (mem_range.mpr hk) hn

theorem sum_tri_none (d : ℕ) (P : ℕ → ℕ → Prop) [∀ j k, Decidable (P j k)] (a : ℕ → ℕ → K)
    (hP : ∀ j k, k < d + 1 → j < d + 1 - k → ¬ P j k) :
    ∑ k ∈ range (d + 1), ∑ j ∈ range (d + 1 - k), (if P j k then a j k else 0) = 0 := by
  apply Finset.sum_eq_zero; intro k hk
  apply Finset.sum_eq_zero; intro j hj
  rw [if_neg (hP j k (mem_range.mp hk) (mem_range.mp hj))]

/-- numerator of the elevated net: `i·v(i-1,j,k) + j·v(i,j-1,k) + k·v(i,j,k-1)` with
    `i = d + 1 - j - k` (a term whose coefficient is `0` reads outside the net) -/
def elevNum (d : ℕ) (w : Net K) : Net K := fun j k =>
  ((d + 1 - j - k : ℕ) : K) * w j k + (j : K) * w (j - 1) k + (k : K) * w j (k - 1)

/-- **closed form of the accumulator of `Triangle.elevate`** before the division -/
theorem elevAcc_closed (d : ℕ) (row : List K) (h : row.length = numNodes d) (j0 k0 : ℕ)
    (h0 : j0 + k0 ≤ d + 1) :
    seq (elevOuter d (seq row) (d + 1) 0
      { acc := List.replicate (row.length + d + 2) 0, index := 0, p1 := 0, p2 := 1, p3 := d + 2 }).acc
      (rowStart (d+1) k0 + j0) = elevNum d (netOf d row) j0 k0 := by
  rw [elevAcc_seq d row h]
  unfold elevNode elevContrib elevNum
  simp only [Finset.sum_add_distrib]
  congr 1
  · congr 1
    · -- the node itself
      by_cases hc : j0 + k0 ≤ d
      · rw [sum_tri_single d (fun j k => rowStart (d+1) k0 + j0 = rowStart (d+1) k + j)
          (fun j k => ((d - j - k + 1 : ℕ) : K) * seq row (rowStart d k + j)) j0 k0 (by omega) (by omega)]
        · rw [show d - j0 - k0 + 1 = d + 1 - j0 - k0 by omega]; rfl
        · intro j k hk hj
          constructor
          · intro e
            have := triIndex_inj (d+1) j0 k0 j k h0 (by omega) e
            omega
          · rintro ⟨rfl, rfl⟩; rfl
      · rw [sum_tri_none d (fun j k => rowStart (d+1) k0 + j0 = rowStart (d+1) k + j)]
        · rw [show d + 1 - j0 - k0 = 0 by omega]; simp
        · intro j k hk hj e
          have := triIndex_inj (d+1) j0 k0 j k h0 (by omega) e
          omega
    · -- the left neighbour
      by_cases hc : 1 ≤ j0
      · rw [sum_tri_single d (fun j k => rowStart (d+1) k0 + j0 = rowStart (d+1) k + (j + 1))
          (fun j k => ((j + 1 : ℕ) : K) * seq row (rowStart d k + j)) (j0 - 1) k0 (by omega) (by omega)]
        · rw [show j0 - 1 + 1 = j0 by omega]; rfl
        · intro j k hk hj
          constructor
          · intro e
            have := triIndex_inj (d+1) j0 k0 (j+1) k h0 (by omega) e
            omega
          · rintro ⟨rfl, rfl⟩; rw [show j0 - 1 + 1 = j0 by omega]
      · rw [sum_tri_none d (fun j k => rowStart (d+1) k0 + j0 = rowStart (d+1) k + (j + 1))]
        · rw [show j0 = 0 by omega]; simp
        · intro j k hk hj e
          have := triIndex_inj (d+1) j0 k0 (j+1) k h0 (by omega) e
          omega
  · -- the lower neighbour
    by_cases hc : 1 ≤ k0
    · rw [sum_tri_single d (fun j k => rowStart (d+1) k0 + j0 = rowStart (d+1) (k + 1) + j)
        (fun j k => ((k + 1 : ℕ) : K) * seq row (rowStart d k + j)) j0 (k0 - 1) (by omega) (by omega)]
      · rw [show k0 - 1 + 1 = k0 by omega]; rfl
      · intro j k hk hj
        constructor
        · intro e
          have := triIndex_inj (d+1) j0 k0 j (k+1) h0 (by omega) e
          omega
        · rintro ⟨rfl, rfl⟩; rw [show k0 - 1 + 1 = k0 by omega]
    · rw [sum_tri_none d (fun j k => rowStart (d+1) k0 + j0 = rowStart (d+1) (k + 1) + j)]
      · rw [show k0 = 0 by omega]; simp
      · intro j k hk hj e
        have := triIndex_inj (d+1) j0 k0 j (k+1) h0 (by omega) e
        omega

end ElevField

section Same
variable {K : Type} [Field K]


/-! absorption identities of the trinomial coefficient -/

theorem absorb1 (d j k : ℕ) (h : j + k ≤ d) :
    ((d+1).choose k * (d+1-k).choose j) * (d + 1 - k - j) = (d + 1) * (d.choose k * (d-k).choose j) := by
  have t1 := trinomial_coeff (d+1) j k (by omega)
  have t0 := trinomial_coeff d j k h
  have e : d + 1 - k - j = (d - k - j) + 1 := by omega
  rw [e, Nat.factorial_succ] at t1
  have hF : 0 < (d - k - j).factorial * j.factorial * k.factorial := by positivity
  apply Nat.eq_of_mul_eq_mul_right hF
  rw [e]
  calc (d+1).choose k * (d+1-k).choose j * (d - k - j + 1) * ((d - k - j).factorial * j.factorial * k.factorial)
      = (d+1).choose k * (d+1-k).choose j * ((d - k - j + 1) * (d - k - j).factorial * j.factorial * k.factorial) := by ring
    _ = (d+1).factorial := t1
    _ = (d + 1) * d.factorial := Nat.factorial_succ d
    _ = (d + 1) * (d.choose k * (d-k).choose j) * ((d - k - j).factorial * j.factorial * k.factorial) := by
        rw [← t0]; ring

theorem absorb2 (d j k : ℕ) (h : j + k ≤ d) :
    ((d+1).choose k * (d+1-k).choose (j+1)) * (j + 1) = (d + 1) * (d.choose k * (d-k).choose j) := by
  have t1 := trinomial_coeff (d+1) (j+1) k (by omega)
  have t0 := trinomial_coeff d j k h
  have e : d + 1 - k - (j + 1) = d - k - j := by omega
  rw [e, Nat.factorial_succ j] at t1
  have hF : 0 < (d - k - j).factorial * j.factorial * k.factorial := by positivity
  apply Nat.eq_of_mul_eq_mul_right hF
  calc (d+1).choose k * (d+1-k).choose (j+1) * (j + 1) * ((d - k - j).factorial * j.factorial * k.factorial)
      = (d+1).choose k * (d+1-k).choose (j+1) * ((d - k - j).factorial * ((j + 1) * j.factorial) * k.factorial) := by ring
    _ = (d+1).factorial := t1
    _ = (d + 1) * d.factorial := Nat.factorial_succ d
    _ = (d + 1) * (d.choose k * (d-k).choose j) * ((d - k - j).factorial * j.factorial * k.factorial) := by
        rw [← t0]; ring

theorem absorb3 (d j k : ℕ) (h : j + k ≤ d) :
    ((d+1).choose (k+1) * (d+1-(k+1)).choose j) * (k + 1) = (d + 1) * (d.choose k * (d-k).choose j) := by
  have t1 := trinomial_coeff (d+1) j (k+1) (by omega)
  have t0 := trinomial_coeff d j k h
  have e : d + 1 - (k + 1) - j = d - k - j := by omega
  rw [e, Nat.factorial_succ k] at t1
  have hF : 0 < (d - k - j).factorial * j.factorial * k.factorial := by positivity
  apply Nat.eq_of_mul_eq_mul_right hF
  calc (d+1).choose (k+1) * (d+1-(k+1)).choose j * (k + 1) * ((d - k - j).factorial * j.factorial * k.factorial)
      = (d+1).choose (k+1) * (d+1-(k+1)).choose j * ((d - k - j).factorial * j.factorial * ((k + 1) * k.factorial)) := by ring
    _ = (d+1).factorial := t1
    _ = (d + 1) * d.factorial := Nat.factorial_succ d
    _ = (d + 1) * (d.choose k * (d-k).choose j) * ((d - k - j).factorial * j.factorial * k.factorial) := by
        rw [← t0]; ring

/-- first part: the terms `i · v(i-1,j,k)` -/
theorem elev_part1 (d : ℕ) (l1 l2 l3 : K) (w : Net K) :
    ∑ k ∈ range (d+2), ∑ j ∈ range (d+1-k+1),
      (((d+1).choose k * (d+1-k).choose j : ℕ) : K) * l1^(d+1-k-j) * l2^j * l3^k * (((d + 1 - j - k : ℕ) : K) * w j k)
    = ((d : K) + 1) * l1 * triBern d l1 l2 l3 w := by
  unfold triBern
  rw [Finset.sum_range_succ]
  have hz : ∑ j ∈ range (d+1-(d+1)+1),
      (((d+1).choose (d+1) * (d+1-(d+1)).choose j : ℕ) : K) * l1^(d+1-(d+1)-j) * l2^j * l3^(d+1) * (((d + 1 - j - (d+1) : ℕ) : K) * w j (d+1)) = 0 := by
    apply Finset.sum_eq_zero; intro j hj
    have : d + 1 - j - (d + 1) = 0 := by omega
    rw [this]; simp
  rw [hz, add_zero, Finset.mul_sum]
  apply Finset.sum_congr rfl; intro k hk
  have hk' := mem_range.mp hk
  have e : d + 1 - k + 1 = (d - k + 1) + 1 := by omega
  rw [e, Finset.sum_range_succ]
  have hz2 : (((d+1).choose k * (d+1-k).choose (d-k+1) : ℕ) : K) * l1^(d+1-k-(d-k+1)) * l2^(d-k+1) * l3^k * (((d + 1 - (d-k+1) - k : ℕ) : K) * w (d-k+1) k) = 0 := by
    have : d + 1 - (d - k + 1) - k = 0 := by omega
    rw [this]; simp
  rw [hz2, add_zero, Finset.mul_sum]
  apply Finset.sum_congr rfl; intro j hj
  have hj' := mem_range.mp hj
  have a := absorb1 d j k (by omega)
  have e1 : d + 1 - k - j = (d - k - j) + 1 := by omega
  have e2 : d + 1 - j - k = d + 1 - k - j := by omega
  have a' : ((((d+1).choose k * (d+1-k).choose j : ℕ) : K)) * ((d + 1 - k - j : ℕ) : K)
      = ((d : K) + 1) * ((d.choose k * (d-k).choose j : ℕ) : K) := by
    have := congrArg (Nat.cast (R := K)) a
    push_cast at this ⊢
    rw [← this]
  rw [e2]
  calc (((d+1).choose k * (d+1-k).choose j : ℕ) : K) * l1^(d+1-k-j) * l2^j * l3^k * (((d + 1 - k - j : ℕ) : K) * w j k)
      = ((((d+1).choose k * (d+1-k).choose j : ℕ) : K) * ((d + 1 - k - j : ℕ) : K)) * l1^(d+1-k-j) * l2^j * l3^k * w j k := by ring
    _ = _ := by rw [a', e1, pow_succ]; ring

/-- second part: the terms `j · v(i,j-1,k)` -/
theorem elev_part2 (d : ℕ) (l1 l2 l3 : K) (w : Net K) :
    ∑ k ∈ range (d+2), ∑ j ∈ range (d+1-k+1),
      (((d+1).choose k * (d+1-k).choose j : ℕ) : K) * l1^(d+1-k-j) * l2^j * l3^k * ((j : K) * w (j - 1) k)
    = ((d : K) + 1) * l2 * triBern d l1 l2 l3 w := by
  unfold triBern
  rw [Finset.sum_range_succ]
  have hz : ∑ j ∈ range (d+1-(d+1)+1),
      (((d+1).choose (d+1) * (d+1-(d+1)).choose j : ℕ) : K) * l1^(d+1-(d+1)-j) * l2^j * l3^(d+1) * ((j : K) * w (j - 1) (d+1)) = 0 := by
    apply Finset.sum_eq_zero; intro j hj
    have hj' := mem_range.mp hj
    have : j = 0 := by omega
    rw [this]; simp
  rw [hz, add_zero, Finset.mul_sum]
  apply Finset.sum_congr rfl; intro k hk
  have hk' := mem_range.mp hk
  have e : d + 1 - k + 1 = (d - k + 1) + 1 := by omega
  rw [e, Finset.sum_range_succ']
  simp only [Nat.cast_zero, zero_mul, mul_zero, add_zero]
  rw [Finset.mul_sum]
  apply Finset.sum_congr rfl; intro j hj
  have hj' := mem_range.mp hj
  have a := absorb2 d j k (by omega)
  have e1 : d + 1 - k - (j + 1) = d - k - j := by omega
  have a' : ((((d+1).choose k * (d+1-k).choose (j+1) : ℕ) : K)) * ((j + 1 : ℕ) : K)
      = ((d : K) + 1) * ((d.choose k * (d-k).choose j : ℕ) : K) := by
    have := congrArg (Nat.cast (R := K)) a
    push_cast at this ⊢
    rw [← this]
  rw [Nat.add_sub_cancel, e1]
  calc (((d+1).choose k * (d+1-k).choose (j+1) : ℕ) : K) * l1^(d-k-j) * l2^(j+1) * l3^k * (((j + 1 : ℕ) : K) * w j k)
      = ((((d+1).choose k * (d+1-k).choose (j+1) : ℕ) : K) * ((j + 1 : ℕ) : K)) * l1^(d-k-j) * l2^(j+1) * l3^k * w j k := by ring
    _ = _ := by rw [a', pow_succ]; ring

/-- third part: the terms `k · v(i,j,k-1)` -/
theorem elev_part3 (d : ℕ) (l1 l2 l3 : K) (w : Net K) :
    ∑ k ∈ range (d+2), ∑ j ∈ range (d+1-k+1),
      (((d+1).choose k * (d+1-k).choose j : ℕ) : K) * l1^(d+1-k-j) * l2^j * l3^k * ((k : K) * w j (k - 1))
    = ((d : K) + 1) * l3 * triBern d l1 l2 l3 w := by
  unfold triBern
  rw [Finset.sum_range_succ']
  simp only [Nat.cast_zero, zero_mul, mul_zero, Finset.sum_const_zero, add_zero]
  rw [Finset.mul_sum]
  apply Finset.sum_congr rfl; intro k hk
  have hk' := mem_range.mp hk
  have e : d + 1 - (k + 1) + 1 = d - k + 1 := by omega
  rw [e, Finset.mul_sum]
  apply Finset.sum_congr rfl; intro j hj
  have hj' := mem_range.mp hj
  have a := absorb3 d j k (by omega)
  have e1 : d + 1 - (k + 1) - j = d - k - j := by omega
  have a' : ((((d+1).choose (k+1) * (d+1-(k+1)).choose j : ℕ) : K)) * ((k + 1 : ℕ) : K)
      = ((d : K) + 1) * ((d.choose k * (d-k).choose j : ℕ) : K) := by
    have := congrArg (Nat.cast (R := K)) a
    push_cast at this ⊢
    rw [← this]
  rw [Nat.add_sub_cancel, e1]
  calc (((d+1).choose (k+1) * (d+1-(k+1)).choose j : ℕ) : K) * l1^(d-k-j) * l2^j * l3^(k+1) * (((k + 1 : ℕ) : K) * w j k)
      = ((((d+1).choose (k+1) * (d+1-(k+1)).choose j : ℕ) : K) * ((k + 1 : ℕ) : K)) * l1^(d-k-j) * l2^j * l3^(k+1) * w j k := by ring
    _ = _ := by rw [a', pow_succ]; ring

/-- **degree elevation of a triangular net keeps the Bernstein sum up to the factor
    `(d+1)(λ₁+λ₂+λ₃)`**, every degree, arbitrary weights -/
theorem triBern_elevNum (d : ℕ) (l1 l2 l3 : K) (w : Net K) :
    triBern (d+1) l1 l2 l3 (elevNum d w) = ((d : K) + 1) * (l1 + l2 + l3) * triBern d l1 l2 l3 w := by
  have h1 := elev_part1 d l1 l2 l3 w
  have h2 := elev_part2 d l1 l2 l3 w
  have h3 := elev_part3 d l1 l2 l3 w
  have : triBern (d+1) l1 l2 l3 (elevNum d w) =
      (∑ k ∈ range (d+2), ∑ j ∈ range (d+1-k+1),
        (((d+1).choose k * (d+1-k).choose j : ℕ) : K) * l1^(d+1-k-j) * l2^j * l3^k * (((d + 1 - j - k : ℕ) : K) * w j k))
      + (∑ k ∈ range (d+2), ∑ j ∈ range (d+1-k+1),
        (((d+1).choose k * (d+1-k).choose j : ℕ) : K) * l1^(d+1-k-j) * l2^j * l3^k * ((j : K) * w (j - 1) k))
      + (∑ k ∈ range (d+2), ∑ j ∈ range (d+1-k+1),
        (((d+1).choose k * (d+1-k).choose j : ℕ) : K) * l1^(d+1-k-j) * l2^j * l3^k * ((k : K) * w j (k - 1))) := by
    unfold triBern elevNum
    simp only [← Finset.sum_add_distrib]
    apply Finset.sum_congr rfl; intro k _
    apply Finset.sum_congr rfl; intro j _
    ring
  rw [this, h1, h2, h3]; ring

end Same

section Glue
variable {K : Type} [Field K] [CharZero K]

theorem seq_divRow (l : List K) (c : K) (q : ℕ) : seq (divRow l c) q = seq l q / c := by
  unfold seq divRow
  rw [List.getD_eq_getElem?_getD, List.getD_eq_getElem?_getD, List.getElem?_map]
  cases l[q]? <;> simp

theorem natCast_succ_ne_zero (d : ℕ) : ((d : K) + 1) ≠ 0 := by
  have : ((d + 1 : ℕ) : K) ≠ 0 := Nat.cast_ne_zero.mpr (by omega)
  simpa using this

/-- **closed form of `Triangle.elevate`**: node `(i, j, k)` of the result is
    `(i·v(i-1,j,k) + j·v(i,j-1,k) + k·v(i,j,k-1)) / (d+1)`; at the three corners the copied value
    coincides with it -/
theorem netOf_triElevateRow (d : ℕ) (row : List K) (h : row.length = numNodes d) (j k : ℕ)
    (hjk : j + k ≤ d + 1) :
    netOf (d+1) (Tri.elevateRow d row) j k = elevNum d (netOf d row) j k / ((d : K) + 1) := by
  have hc := natCast_succ_ne_zero (K := K) d
  have hrow : row.length = rowStart d d + 1 := by
    rw [h, numNodes_eq_rowStart, rowStart_succ]; omega
  have hL : row.length + d + 2 = rowStart (d+1) (d+1) + 1 := by
    have a := rowStart_shift d (d+1)
    have b := rowStart_succ (d+1) (d+1)
    rw [h, numNodes_eq_rowStart]; omega
  unfold netOf Tri.elevateRow
  simp only
  set acc := (elevOuter d (seq row) (d + 1) 0
    { acc := List.replicate (row.length + d + 2) 0, index := 0, p1 := 0, p2 := 1, p3 := d + 2 }).acc with hacc
  have lacc : acc.length = row.length + d + 2 := by simp [hacc, elevOuter_length]
  set dv := divRow acc (((d : ℕ) : K) + 1) with hdv
  have l0 : dv.length = row.length + d + 2 := by simp [hdv, divRow, lacc]
  have l1 : (triSetAt dv 0 (seq row 0)).length = row.length + d + 2 := by rw [triSetAt_length, l0]
  have l2 : (triSetAt (triSetAt dv 0 (seq row 0)) (d + 1) (seq row d)).length = row.length + d + 2 := by
    rw [triSetAt_length, l1]
  rw [l2]
  have hclosed : seq dv (rowStart (d+1) k + j) = elevNum d (netOf d row) j k / ((d : K) + 1) := by
    rw [hdv, seq_divRow, hacc, elevAcc_closed d row h j k hjk]
  by_cases q3 : rowStart (d+1) k + j = row.length + d + 2 - 1
  · -- top corner
    have e : rowStart (d+1) k + j = rowStart (d+1) (d+1) + 0 := by omega
    obtain ⟨rfl, rfl⟩ := triIndex_inj (d+1) j k 0 (d+1) hjk (by omega) e
    rw [q3, seq_triSetAt_self _ _ _ (by omega)]
    simp only [elevNum]
    rw [show d + 1 - 0 - (d + 1) = 0 by omega, show d + 1 - 1 = d by omega, show row.length - 1 = rowStart d d + 0 by omega]
    field_simp
    push_cast; ring
  · rw [seq_triSetAt_ne _ _ _ _ q3]
    by_cases q2 : rowStart (d+1) k + j = d + 1
    · have e : rowStart (d+1) k + j = rowStart (d+1) 0 + (d + 1) := by rw [q2]; simp [rowStart]
      obtain ⟨rfl, rfl⟩ := triIndex_inj (d+1) j k (d+1) 0 hjk (by omega) e
      rw [q2, seq_triSetAt_self _ _ _ (by omega)]
      simp only [elevNum]
      rw [show d + 1 - (d + 1) - 0 = 0 by omega, show d + 1 - 1 = d by omega]
      simp only [rowStart, Nat.zero_add]
      field_simp
      push_cast; ring
    · rw [seq_triSetAt_ne _ _ _ _ q2]
      by_cases q1 : rowStart (d+1) k + j = 0
      · have e : rowStart (d+1) k + j = rowStart (d+1) 0 + 0 := by rw [q1]; simp [rowStart]
        obtain ⟨rfl, rfl⟩ := triIndex_inj (d+1) j k 0 0 hjk (by omega) e
        rw [q1, seq_triSetAt_self _ _ _ (by omega)]
        simp only [elevNum]
        simp only [rowStart, Nat.zero_add, Nat.sub_zero]
        field_simp
        push_cast; ring
      · rw [seq_triSetAt_ne _ _ _ _ q1]
        exact hclosed

/-- **`Triangle.elevate` keeps the map**: the Bernstein sum of the elevated net is
    `(λ₁+λ₂+λ₃)` times the Bernstein sum of the original net, every degree -/
theorem triBern_triElevateRow (d : ℕ) (row : List K) (h : row.length = numNodes d) (l1 l2 l3 : K) :
    triBern (d+1) l1 l2 l3 (netOf (d+1) (Tri.elevateRow d row))
      = (l1 + l2 + l3) * triBern d l1 l2 l3 (netOf d row) := by
  have hc := natCast_succ_ne_zero (K := K) d
  rw [triBern_congr (d+1) l1 l2 l3 _ (fun j k => (1 / ((d : K) + 1)) * elevNum d (netOf d row) j k)
    (fun j k hjk => by rw [netOf_triElevateRow d row h j k hjk]; field_simp)]
  have hs : ∀ (c : K) (u : Net K), triBern (d+1) l1 l2 l3 (fun j k => c * u j k) = c * triBern (d+1) l1 l2 l3 u :=
    fun c u => triBernR_smul (d+1) l1 l2 l3 c u
  rw [hs, triBern_elevNum]
  field_simp

end Glue

/-! ## area: the formal double integral over the reference triangle -/

section Area
variable {K : Type} [Field K]
open MvPolynomial

/-- weight of the monomial `s^a t^b`: `∫∫_Δ s^a t^b ds dt = a! b! / (a+b+2)!` over the reference
    triangle `Δ = {s, t ≥ 0, s + t ≤ 1}` -/
def triMonomialIntegral (K : Type) [Field K] (a b : ℕ) : K :=
  ((a.factorial * b.factorial : ℕ) : K) / (((a + b + 2).factorial : ℕ) : K)

/-- formal double integral over the reference triangle: the `K`-linear functional on `K[s,t]`
    with the values `triMonomialIntegral` on the monomial basis -/
noncomputable def triIntegral : MvPolynomial (Fin 2) K →ₗ[K] K :=
  (basisMonomials (Fin 2) K).constr K (fun m => triMonomialIntegral K (m 0) (m 1))

theorem triIntegral_monomial (m : Fin 2 →₀ ℕ) (c : K) :
    triIntegral (monomial m c) = c * triMonomialIntegral K (m 0) (m 1) := by
  have h : monomial m c = c • (basisMonomials (Fin 2) K) m := by
    rw [coe_basisMonomials, smul_monomial, smul_eq_mul, mul_one]
  rw [h, map_smul, triIntegral, Module.Basis.constr_basis, smul_eq_mul]

theorem triIntegral_C_mul_X_pow (c : K) (a b : ℕ) :
    triIntegral (C c * (X 0 ^ a * X 1 ^ b)) = c * triMonomialIntegral K a b := by
  have h : (C c * (X 0 ^ a * X 1 ^ b) : MvPolynomial (Fin 2) K)
      = monomial (Finsupp.single 0 a + Finsupp.single 1 b) c := by
    rw [X_pow_eq_monomial, X_pow_eq_monomial, monomial_mul, C_mul_monomial]; simp
  rw [h, triIntegral_monomial]
  simp

theorem detPoly_1 (a0 a1 a2 b0 b1 b2 c0 c1 c2 e0 e1 e2 : K) :
    surfPoly 1 [a0, a1, a2] * surfPoly 1 [e0, e1, e2] - surfPoly 1 [c0, c1, c2] * surfPoly 1 [b0, b1, b2] =
      C (a0 * e0 - b0 * c0) * (X 0 ^ 0 * X 1 ^ 0) +
      C (-2 * a0 * e0 + a0 * e2 + a2 * e0 + 2 * b0 * c0 - b0 * c2 - b2 * c0) * (X 0 ^ 0 * X 1 ^ 1) +
      C (a0 * e0 - a0 * e2 - a2 * e0 + a2 * e2 - b0 * c0 + b0 * c2 + b2 * c0 - b2 * c2) * (X 0 ^ 0 * X 1 ^ 2) +
      C (-2 * a0 * e0 + a0 * e1 + a1 * e0 + 2 * b0 * c0 - b0 * c1 - b1 * c0) * (X 0 ^ 1 * X 1 ^ 0) +
      C (2 * a0 * e0 - a0 * e1 - a0 * e2 - a1 * e0 + a1 * e2 - a2 * e0 + a2 * e1 - 2 * b0 * c0 + b0 * c1 + b0 * c2 + b1 * c0 - b1 * c2 + b2 * c0 - b2 * c1) * (X 0 ^ 1 * X 1 ^ 1) +
      C (a0 * e0 - a0 * e1 - a1 * e0 + a1 * e1 - b0 * c0 + b0 * c1 + b1 * c0 - b1 * c1) * (X 0 ^ 2 * X 1 ^ 0) := by
  simp only [surfPoly, triBernR, Finset.sum_range_succ, Finset.sum_range_zero, netOf, rowStart, seq,
    List.getD_cons_zero, List.getD_cons_succ, map_add, map_sub, map_mul, map_neg, map_ofNat]
  simp [Nat.choose]
  ring

theorem triIntegral_det_1 (a0 a1 a2 b0 b1 b2 c0 c1 c2 e0 e1 e2 : K) :
    triIntegral (surfPoly 1 [a0, a1, a2] * surfPoly 1 [e0, e1, e2] - surfPoly 1 [c0, c1, c2] * surfPoly 1 [b0, b1, b2]) =
      (a0 * e0 - b0 * c0) * triMonomialIntegral K 0 0 +
      (-2 * a0 * e0 + a0 * e2 + a2 * e0 + 2 * b0 * c0 - b0 * c2 - b2 * c0) * triMonomialIntegral K 0 1 +
      (a0 * e0 - a0 * e2 - a2 * e0 + a2 * e2 - b0 * c0 + b0 * c2 + b2 * c0 - b2 * c2) * triMonomialIntegral K 0 2 +
      (-2 * a0 * e0 + a0 * e1 + a1 * e0 + 2 * b0 * c0 - b0 * c1 - b1 * c0) * triMonomialIntegral K 1 0 +
      (2 * a0 * e0 - a0 * e1 - a0 * e2 - a1 * e0 + a1 * e2 - a2 * e0 + a2 * e1 - 2 * b0 * c0 + b0 * c1 + b0 * c2 + b1 * c0 - b1 * c2 + b2 * c0 - b2 * c1) * triMonomialIntegral K 1 1 +
      (a0 * e0 - a0 * e1 - a1 * e0 + a1 * e1 - b0 * c0 + b0 * c1 + b1 * c0 - b1 * c1) * triMonomialIntegral K 2 0 := by
  rw [detPoly_1]
  simp only [map_add, triIntegral_C_mul_X_pow]

theorem detPoly_2 (a0 a1 a2 a3 a4 a5 b0 b1 b2 b3 b4 b5 c0 c1 c2 c3 c4 c5 e0 e1 e2 e3 e4 e5 : K) :
    surfPoly 2 [a0, a1, a2, a3, a4, a5] * surfPoly 2 [e0, e1, e2, e3, e4, e5] - surfPoly 2 [c0, c1, c2, c3, c4, c5] * surfPoly 2 [b0, b1, b2, b3, b4, b5] =
      C (a0 * e0 - b0 * c0) * (X 0 ^ 0 * X 1 ^ 0) +
      C (-4 * a0 * e0 + 2 * a0 * e3 + 2 * a3 * e0 + 4 * b0 * c0 - 2 * b0 * c3 - 2 * b3 * c0) * (X 0 ^ 0 * X 1 ^ 1) +
      C (6 * a0 * e0 - 6 * a0 * e3 + a0 * e5 - 6 * a3 * e0 + 4 * a3 * e3 + a5 * e0 - 6 * b0 * c0 + 6 * b0 * c3 - b0 * c5 + 6 * b3 * c0 - 4 * b3 * c3 - b5 * c0) * (X 0 ^ 0 * X 1 ^ 2) +
      C (-4 * a0 * e0 + 6 * a0 * e3 - 2 * a0 * e5 + 6 * a3 * e0 - 8 * a3 * e3 + 2 * a3 * e5 - 2 * a5 * e0 + 2 * a5 * e3 + 4 * b0 * c0 - 6 * b0 * c3 + 2 * b0 * c5 - 6 * b3 * c0 + 8 * b3 * c3 - 2 * b3 * c5 + 2 * b5 * c0 - 2 * b5 * c3) * (X 0 ^ 0 * X 1 ^ 3) +
      C (a0 * e0 - 2 * a0 * e3 + a0 * e5 - 2 * a3 * e0 + 4 * a3 * e3 - 2 * a3 * e5 + a5 * e0 - 2 * a5 * e3 + a5 * e5 - b0 * c0 + 2 * b0 * c3 - b0 * c5 + 2 * b3 * c0 - 4 * b3 * c3 + 2 * b3 * c5 - b5 * c0 + 2 * b5 * c3 - b5 * c5) * (X 0 ^ 0 * X 1 ^ 4) +
      C (-4 * a0 * e0 + 2 * a0 * e1 + 2 * a1 * e0 + 4 * b0 * c0 - 2 * b0 * c1 - 2 * b1 * c0) * (X 0 ^ 1 * X 1 ^ 0) +
      C (12 * a0 * e0 - 6 * a0 * e1 - 6 * a0 * e3 + 2 * a0 * e4 - 6 * a1 * e0 + 4 * a1 * e3 - 6 * a3 * e0 + 4 * a3 * e1 + 2 * a4 * e0 - 12 * b0 * c0 + 6 * b0 * c1 + 6 * b0 * c3 - 2 * b0 * c4 + 6 * b1 * c0 - 4 * b1 * c3 + 6 * b3 * c0 - 4 * b3 * c1 - 2 * b4 * c0) * (X 0 ^ 1 * X 1 ^ 1) +
      C (-12 * a0 * e0 + 6 * a0 * e1 + 12 * a0 * e3 - 4 * a0 * e4 - 2 * a0 * e5 + 6 * a1 * e0 - 8 * a1 * e3 + 2 * a1 * e5 + 12 * a3 * e0 - 8 * a3 * e1 - 8 * a3 * e3 + 4 * a3 * e4 - 4 * a4 * e0 + 4 * a4 * e3 - 2 * a5 * e0 + 2 * a5 * e1 + 12 * b0 * c0 - 6 * b0 * c1 - 12 * b0 * c3 + 4 * b0 * c4 + 2 * b0 * c5 - 6 * b1 * c0 + 8 * b1 * c3 - 2 * b1 * c5 - 12 * b3 * c0 + 8 * b3 * c1 + 8 * b3 * c3 - 4 * b3 * c4 + 4 * b4 * c0 - 4 * b4 * c3 + 2 * b5 * c0 - 2 * b5 * c1) * (X 0 ^ 1 * X 1 ^ 2) +
      C (4 * a0 * e0 - 2 * a0 * e1 - 6 * a0 * e3 + 2 * a0 * e4 + 2 * a0 * e5 - 2 * a1 * e0 + 4 * a1 * e3 - 2 * a1 * e5 - 6 * a3 * e0 + 4 * a3 * e1 + 8 * a3 * e3 - 4 * a3 * e4 - 2 * a3 * e5 + 2 * a4 * e0 - 4 * a4 * e3 + 2 * a4 * e5 + 2 * a5 * e0 - 2 * a5 * e1 - 2 * a5 * e3 + 2 * a5 * e4 - 4 * b0 * c0 + 2 * b0 * c1 + 6 * b0 * c3 - 2 * b0 * c4 - 2 * b0 * c5 + 2 * b1 * c0 - 4 * b1 * c3 + 2 * b1 * c5 + 6 * b3 * c0 - 4 * b3 * c1 - 8 * b3 * c3 + 4 * b3 * c4 + 2 * b3 * c5 - 2 * b4 * c0 + 4 * b4 * c3 - 2 * b4 * c5 - 2 * b5 * c0 + 2 * b5 * c1 + 2 * b5 * c3 - 2 * b5 * c4) * (X 0 ^ 1 * X 1 ^ 3) +
      C (6 * a0 * e0 - 6 * a0 * e1 + a0 * e2 - 6 * a1 * e0 + 4 * a1 * e1 + a2 * e0 - 6 * b0 * c0 + 6 * b0 * c1 - b0 * c2 + 6 * b1 * c0 - 4 * b1 * c1 - b2 * c0) * (X 0 ^ 2 * X 1 ^ 0) +
      C (-12 * a0 * e0 + 12 * a0 * e1 - 2 * a0 * e2 + 6 * a0 * e3 - 4 * a0 * e4 + 12 * a1 * e0 - 8 * a1 * e1 - 8 * a1 * e3 + 4 * a1 * e4 - 2 * a2 * e0 + 2 * a2 * e3 + 6 * a3 * e0 - 8 * a3 * e1 + 2 * a3 * e2 - 4 * a4 * e0 + 4 * a4 * e1 + 12 * b0 * c0 - 12 * b0 * c1 + 2 * b0 * c2 - 6 * b0 * c3 + 4 * b0 * c4 - 12 * b1 * c0 + 8 * b1 * c1 + 8 * b1 * c3 - 4 * b1 * c4 + 2 * b2 * c0 - 2 * b2 * c3 - 6 * b3 * c0 + 8 * b3 * c1 - 2 * b3 * c2 + 4 * b4 * c0 - 4 * b4 * c1) * (X 0 ^ 2 * X 1 ^ 1) +
      C (6 * a0 * e0 - 6 * a0 * e1 + a0 * e2 - 6 * a0 * e3 + 4 * a0 * e4 + a0 * e5 - 6 * a1 * e0 + 4 * a1 * e1 + 8 * a1 * e3 - 4 * a1 * e4 - 2 * a1 * e5 + a2 * e0 - 2 * a2 * e3 + a2 * e5 - 6 * a3 * e0 + 8 * a3 * e1 - 2 * a3 * e2 + 4 * a3 * e3 - 4 * a3 * e4 + 4 * a4 * e0 - 4 * a4 * e1 - 4 * a4 * e3 + 4 * a4 * e4 + a5 * e0 - 2 * a5 * e1 + a5 * e2 - 6 * b0 * c0 + 6 * b0 * c1 - b0 * c2 + 6 * b0 * c3 - 4 * b0 * c4 - b0 * c5 + 6 * b1 * c0 - 4 * b1 * c1 - 8 * b1 * c3 + 4 * b1 * c4 + 2 * b1 * c5 - b2 * c0 + 2 * b2 * c3 - b2 * c5 + 6 * b3 * c0 - 8 * b3 * c1 + 2 * b3 * c2 - 4 * b3 * c3 + 4 * b3 * c4 - 4 * b4 * c0 + 4 * b4 * c1 + 4 * b4 * c3 - 4 * b4 * c4 - b5 * c0 + 2 * b5 * c1 - b5 * c2) * (X 0 ^ 2 * X 1 ^ 2) +
      C (-4 * a0 * e0 + 6 * a0 * e1 - 2 * a0 * e2 + 6 * a1 * e0 - 8 * a1 * e1 + 2 * a1 * e2 - 2 * a2 * e0 + 2 * a2 * e1 + 4 * b0 * c0 - 6 * b0 * c1 + 2 * b0 * c2 - 6 * b1 * c0 + 8 * b1 * c1 - 2 * b1 * c2 + 2 * b2 * c0 - 2 * b2 * c1) * (X 0 ^ 3 * X 1 ^ 0) +
      C (4 * a0 * e0 - 6 * a0 * e1 + 2 * a0 * e2 - 2 * a0 * e3 + 2 * a0 * e4 - 6 * a1 * e0 + 8 * a1 * e1 - 2 * a1 * e2 + 4 * a1 * e3 - 4 * a1 * e4 + 2 * a2 * e0 - 2 * a2 * e1 - 2 * a2 * e3 + 2 * a2 * e4 - 2 * a3 * e0 + 4 * a3 * e1 - 2 * a3 * e2 + 2 * a4 * e0 - 4 * a4 * e1 + 2 * a4 * e2 - 4 * b0 * c0 + 6 * b0 * c1 - 2 * b0 * c2 + 2 * b0 * c3 - 2 * b0 * c4 + 6 * b1 * c0 - 8 * b1 * c1 + 2 * b1 * c2 - 4 * b1 * c3 + 4 * b1 * c4 - 2 * b2 * c0 + 2 * b2 * c1 + 2 * b2 * c3 - 2 * b2 * c4 + 2 * b3 * c0 - 4 * b3 * c1 + 2 * b3 * c2 - 2 * b4 * c0 + 4 * b4 * c1 - 2 * b4 * c2) * (X 0 ^ 3 * X 1 ^ 1) +
      C (a0 * e0 - 2 * a0 * e1 + a0 * e2 - 2 * a1 * e0 + 4 * a1 * e1 - 2 * a1 * e2 + a2 * e0 - 2 * a2 * e1 + a2 * e2 - b0 * c0 + 2 * b0 * c1 - b0 * c2 + 2 * b1 * c0 - 4 * b1 * c1 + 2 * b1 * c2 - b2 * c0 + 2 * b2 * c1 - b2 * c2) * (X 0 ^ 4 * X 1 ^ 0) := by
  simp only [surfPoly, triBernR, Finset.sum_range_succ, Finset.sum_range_zero, netOf, rowStart, seq,
    List.getD_cons_zero, List.getD_cons_succ, map_add, map_sub, map_mul, map_neg, map_ofNat]
  simp [Nat.choose]
  ring

theorem triIntegral_det_2 (a0 a1 a2 a3 a4 a5 b0 b1 b2 b3 b4 b5 c0 c1 c2 c3 c4 c5 e0 e1 e2 e3 e4 e5 : K) :
    triIntegral (surfPoly 2 [a0, a1, a2, a3, a4, a5] * surfPoly 2 [e0, e1, e2, e3, e4, e5] - surfPoly 2 [c0, c1, c2, c3, c4, c5] * surfPoly 2 [b0, b1, b2, b3, b4, b5]) =
      (a0 * e0 - b0 * c0) * triMonomialIntegral K 0 0 +
      (-4 * a0 * e0 + 2 * a0 * e3 + 2 * a3 * e0 + 4 * b0 * c0 - 2 * b0 * c3 - 2 * b3 * c0) * triMonomialIntegral K 0 1 +
      (6 * a0 * e0 - 6 * a0 * e3 + a0 * e5 - 6 * a3 * e0 + 4 * a3 * e3 + a5 * e0 - 6 * b0 * c0 + 6 * b0 * c3 - b0 * c5 + 6 * b3 * c0 - 4 * b3 * c3 - b5 * c0) * triMonomialIntegral K 0 2 +
      (-4 * a0 * e0 + 6 * a0 * e3 - 2 * a0 * e5 + 6 * a3 * e0 - 8 * a3 * e3 + 2 * a3 * e5 - 2 * a5 * e0 + 2 * a5 * e3 + 4 * b0 * c0 - 6 * b0 * c3 + 2 * b0 * c5 - 6 * b3 * c0 + 8 * b3 * c3 - 2 * b3 * c5 + 2 * b5 * c0 - 2 * b5 * c3) * triMonomialIntegral K 0 3 +
      (a0 * e0 - 2 * a0 * e3 + a0 * e5 - 2 * a3 * e0 + 4 * a3 * e3 - 2 * a3 * e5 + a5 * e0 - 2 * a5 * e3 + a5 * e5 - b0 * c0 + 2 * b0 * c3 - b0 * c5 + 2 * b3 * c0 - 4 * b3 * c3 + 2 * b3 * c5 - b5 * c0 + 2 * b5 * c3 - b5 * c5) * triMonomialIntegral K 0 4 +
      (-4 * a0 * e0 + 2 * a0 * e1 + 2 * a1 * e0 + 4 * b0 * c0 - 2 * b0 * c1 - 2 * b1 * c0) * triMonomialIntegral K 1 0 +
      (12 * a0 * e0 - 6 * a0 * e1 - 6 * a0 * e3 + 2 * a0 * e4 - 6 * a1 * e0 + 4 * a1 * e3 - 6 * a3 * e0 + 4 * a3 * e1 + 2 * a4 * e0 - 12 * b0 * c0 + 6 * b0 * c1 + 6 * b0 * c3 - 2 * b0 * c4 + 6 * b1 * c0 - 4 * b1 * c3 + 6 * b3 * c0 - 4 * b3 * c1 - 2 * b4 * c0) * triMonomialIntegral K 1 1 +
      (-12 * a0 * e0 + 6 * a0 * e1 + 12 * a0 * e3 - 4 * a0 * e4 - 2 * a0 * e5 + 6 * a1 * e0 - 8 * a1 * e3 + 2 * a1 * e5 + 12 * a3 * e0 - 8 * a3 * e1 - 8 * a3 * e3 + 4 * a3 * e4 - 4 * a4 * e0 + 4 * a4 * e3 - 2 * a5 * e0 + 2 * a5 * e1 + 12 * b0 * c0 - 6 * b0 * c1 - 12 * b0 * c3 + 4 * b0 * c4 + 2 * b0 * c5 - 6 * b1 * c0 + 8 * b1 * c3 - 2 * b1 * c5 - 12 * b3 * c0 + 8 * b3 * c1 + 8 * b3 * c3 - 4 * b3 * c4 + 4 * b4 * c0 - 4 * b4 * c3 + 2 * b5 * c0 - 2 * b5 * c1) * triMonomialIntegral K 1 2 +
      (4 * a0 * e0 - 2 * a0 * e1 - 6 * a0 * e3 + 2 * a0 * e4 + 2 * a0 * e5 - 2 * a1 * e0 + 4 * a1 * e3 - 2 * a1 * e5 - 6 * a3 * e0 + 4 * a3 * e1 + 8 * a3 * e3 - 4 * a3 * e4 - 2 * a3 * e5 + 2 * a4 * e0 - 4 * a4 * e3 + 2 * a4 * e5 + 2 * a5 * e0 - 2 * a5 * e1 - 2 * a5 * e3 + 2 * a5 * e4 - 4 * b0 * c0 + 2 * b0 * c1 + 6 * b0 * c3 - 2 * b0 * c4 - 2 * b0 * c5 + 2 * b1 * c0 - 4 * b1 * c3 + 2 * b1 * c5 + 6 * b3 * c0 - 4 * b3 * c1 - 8 * b3 * c3 + 4 * b3 * c4 + 2 * b3 * c5 - 2 * b4 * c0 + 4 * b4 * c3 - 2 * b4 * c5 - 2 * b5 * c0 + 2 * b5 * c1 + 2 * b5 * c3 - 2 * b5 * c4) * triMonomialIntegral K 1 3 +
      (6 * a0 * e0 - 6 * a0 * e1 + a0 * e2 - 6 * a1 * e0 + 4 * a1 * e1 + a2 * e0 - 6 * b0 * c0 + 6 * b0 * c1 - b0 * c2 + 6 * b1 * c0 - 4 * b1 * c1 - b2 * c0) * triMonomialIntegral K 2 0 +
      (-12 * a0 * e0 + 12 * a0 * e1 - 2 * a0 * e2 + 6 * a0 * e3 - 4 * a0 * e4 + 12 * a1 * e0 - 8 * a1 * e1 - 8 * a1 * e3 + 4 * a1 * e4 - 2 * a2 * e0 + 2 * a2 * e3 + 6 * a3 * e0 - 8 * a3 * e1 + 2 * a3 * e2 - 4 * a4 * e0 + 4 * a4 * e1 + 12 * b0 * c0 - 12 * b0 * c1 + 2 * b0 * c2 - 6 * b0 * c3 + 4 * b0 * c4 - 12 * b1 * c0 + 8 * b1 * c1 + 8 * b1 * c3 - 4 * b1 * c4 + 2 * b2 * c0 - 2 * b2 * c3 - 6 * b3 * c0 + 8 * b3 * c1 - 2 * b3 * c2 + 4 * b4 * c0 - 4 * b4 * c1) * triMonomialIntegral K 2 1 +
      (6 * a0 * e0 - 6 * a0 * e1 + a0 * e2 - 6 * a0 * e3 + 4 * a0 * e4 + a0 * e5 - 6 * a1 * e0 + 4 * a1 * e1 + 8 * a1 * e3 - 4 * a1 * e4 - 2 * a1 * e5 + a2 * e0 - 2 * a2 * e3 + a2 * e5 - 6 * a3 * e0 + 8 * a3 * e1 - 2 * a3 * e2 + 4 * a3 * e3 - 4 * a3 * e4 + 4 * a4 * e0 - 4 * a4 * e1 - 4 * a4 * e3 + 4 * a4 * e4 + a5 * e0 - 2 * a5 * e1 + a5 * e2 - 6 * b0 * c0 + 6 * b0 * c1 - b0 * c2 + 6 * b0 * c3 - 4 * b0 * c4 - b0 * c5 + 6 * b1 * c0 - 4 * b1 * c1 - 8 * b1 * c3 + 4 * b1 * c4 + 2 * b1 * c5 - b2 * c0 + 2 * b2 * c3 - b2 * c5 + 6 * b3 * c0 - 8 * b3 * c1 + 2 * b3 * c2 - 4 * b3 * c3 + 4 * b3 * c4 - 4 * b4 * c0 + 4 * b4 * c1 + 4 * b4 * c3 - 4 * b4 * c4 - b5 * c0 + 2 * b5 * c1 - b5 * c2) * triMonomialIntegral K 2 2 +
      (-4 * a0 * e0 + 6 * a0 * e1 - 2 * a0 * e2 + 6 * a1 * e0 - 8 * a1 * e1 + 2 * a1 * e2 - 2 * a2 * e0 + 2 * a2 * e1 + 4 * b0 * c0 - 6 * b0 * c1 + 2 * b0 * c2 - 6 * b1 * c0 + 8 * b1 * c1 - 2 * b1 * c2 + 2 * b2 * c0 - 2 * b2 * c1) * triMonomialIntegral K 3 0 +
      (4 * a0 * e0 - 6 * a0 * e1 + 2 * a0 * e2 - 2 * a0 * e3 + 2 * a0 * e4 - 6 * a1 * e0 + 8 * a1 * e1 - 2 * a1 * e2 + 4 * a1 * e3 - 4 * a1 * e4 + 2 * a2 * e0 - 2 * a2 * e1 - 2 * a2 * e3 + 2 * a2 * e4 - 2 * a3 * e0 + 4 * a3 * e1 - 2 * a3 * e2 + 2 * a4 * e0 - 4 * a4 * e1 + 2 * a4 * e2 - 4 * b0 * c0 + 6 * b0 * c1 - 2 * b0 * c2 + 2 * b0 * c3 - 2 * b0 * c4 + 6 * b1 * c0 - 8 * b1 * c1 + 2 * b1 * c2 - 4 * b1 * c3 + 4 * b1 * c4 - 2 * b2 * c0 + 2 * b2 * c1 + 2 * b2 * c3 - 2 * b2 * c4 + 2 * b3 * c0 - 4 * b3 * c1 + 2 * b3 * c2 - 2 * b4 * c0 + 4 * b4 * c1 - 2 * b4 * c2) * triMonomialIntegral K 3 1 +
      (a0 * e0 - 2 * a0 * e1 + a0 * e2 - 2 * a1 * e0 + 4 * a1 * e1 - 2 * a1 * e2 + a2 * e0 - 2 * a2 * e1 + a2 * e2 - b0 * c0 + 2 * b0 * c1 - b0 * c2 + 2 * b1 * c0 - 4 * b1 * c1 + 2 * b1 * c2 - b2 * c0 + 2 * b2 * c1 - b2 * c2) * triMonomialIntegral K 4 0 := by
  rw [detPoly_2]
  simp only [map_add, triIntegral_C_mul_X_pow]

set_option maxHeartbeats 1600000 in
theorem detPoly_3 (a0 a1 a2 a3 a4 a5 a6 a7 a8 a9 b0 b1 b2 b3 b4 b5 b6 b7 b8 b9 c0 c1 c2 c3 c4 c5 c6 c7 c8 c9 e0 e1 e2 e3 e4 e5 e6 e7 e8 e9 : K) :
    surfPoly 3 [a0, a1, a2, a3, a4, a5, a6, a7, a8, a9] * surfPoly 3 [e0, e1, e2, e3, e4, e5, e6, e7, e8, e9] - surfPoly 3 [c0, c1, c2, c3, c4, c5, c6, c7, c8, c9] * surfPoly 3 [b0, b1, b2, b3, b4, b5, b6, b7, b8, b9] =
      C (a0 * e0 - b0 * c0) * (X 0 ^ 0 * X 1 ^ 0) +
      C (-6 * a0 * e0 + 3 * a0 * e4 + 3 * a4 * e0 + 6 * b0 * c0 - 3 * b0 * c4 - 3 * b4 * c0) * (X 0 ^ 0 * X 1 ^ 1) +
      C (15 * a0 * e0 - 15 * a0 * e4 + 3 * a0 * e7 - 15 * a4 * e0 + 9 * a4 * e4 + 3 * a7 * e0 - 15 * b0 * c0 + 15 * b0 * c4 - 3 * b0 * c7 + 15 * b4 * c0 - 9 * b4 * c4 - 3 * b7 * c0) * (X 0 ^ 0 * X 1 ^ 2) +
      C (-20 * a0 * e0 + 30 * a0 * e4 - 12 * a0 * e7 + a0 * e9 + 30 * a4 * e0 - 36 * a4 * e4 + 9 * a4 * e7 - 12 * a7 * e0 + 9 * a7 * e4 + a9 * e0 + 20 * b0 * c0 - 30 * b0 * c4 + 12 * b0 * c7 - b0 * c9 - 30 * b4 * c0 + 36 * b4 * c4 - 9 * b4 * c7 + 12 * b7 * c0 - 9 * b7 * c4 - b9 * c0) * (X 0 ^ 0 * X 1 ^ 3) +
      C (15 * a0 * e0 - 30 * a0 * e4 + 18 * a0 * e7 - 3 * a0 * e9 - 30 * a4 * e0 + 54 * a4 * e4 - 27 * a4 * e7 + 3 * a4 * e9 + 18 * a7 * e0 - 27 * a7 * e4 + 9 * a7 * e7 - 3 * a9 * e0 + 3 * a9 * e4 - 15 * b0 * c0 + 30 * b0 * c4 - 18 * b0 * c7 + 3 * b0 * c9 + 30 * b4 * c0 - 54 * b4 * c4 + 27 * b4 * c7 - 3 * b4 * c9 - 18 * b7 * c0 + 27 * b7 * c4 - 9 * b7 * c7 + 3 * b9 * c0 - 3 * b9 * c4) * (X 0 ^ 0 * X 1 ^ 4) +
      C (-6 * a0 * e0 + 15 * a0 * e4 - 12 * a0 * e7 + 3 * a0 * e9 + 15 * a4 * e0 - 36 * a4 * e4 + 27 * a4 * e7 - 6 * a4 * e9 - 12 * a7 * e0 + 27 * a7 * e4 - 18 * a7 * e7 + 3 * a7 * e9 + 3 * a9 * e0 - 6 * a9 * e4 + 3 * a9 * e7 + 6 * b0 * c0 - 15 * b0 * c4 + 12 * b0 * c7 - 3 * b0 * c9 - 15 * b4 * c0 + 36 * b4 * c4 - 27 * b4 * c7 + 6 * b4 * c9 + 12 * b7 * c0 - 27 * b7 * c4 + 18 * b7 * c7 - 3 * b7 * c9 - 3 * b9 * c0 + 6 * b9 * c4 - 3 * b9 * c7) * (X 0 ^ 0 * X 1 ^ 5) +
      C (a0 * e0 - 3 * a0 * e4 + 3 * a0 * e7 - a0 * e9 - 3 * a4 * e0 + 9 * a4 * e4 - 9 * a4 * e7 + 3 * a4 * e9 + 3 * a7 * e0 - 9 * a7 * e4 + 9 * a7 * e7 - 3 * a7 * e9 - a9 * e0 + 3 * a9 * e4 - 3 * a9 * e7 + a9 * e9 - b0 * c0 + 3 * b0 * c4 - 3 * b0 * c7 + b0 * c9 + 3 * b4 * c0 - 9 * b4 * c4 + 9 * b4 * c7 - 3 * b4 * c9 - 3 * b7 * c0 + 9 * b7 * c4 - 9 * b7 * c7 + 3 * b7 * c9 + b9 * c0 - 3 * b9 * c4 + 3 * b9 * c7 - b9 * c9) * (X 0 ^ 0 * X 1 ^ 6) +
      C (-6 * a0 * e0 + 3 * a0 * e1 + 3 * a1 * e0 + 6 * b0 * c0 - 3 * b0 * c1 - 3 * b1 * c0) * (X 0 ^ 1 * X 1 ^ 0) +
      C (30 * a0 * e0 - 15 * a0 * e1 - 15 * a0 * e4 + 6 * a0 * e5 - 15 * a1 * e0 + 9 * a1 * e4 - 15 * a4 * e0 + 9 * a4 * e1 + 6 * a5 * e0 - 30 * b0 * c0 + 15 * b0 * c1 + 15 * b0 * c4 - 6 * b0 * c5 + 15 * b1 * c0 - 9 * b1 * c4 + 15 * b4 * c0 - 9 * b4 * c1 - 6 * b5 * c0) * (X 0 ^ 1 * X 1 ^ 1) +
      C (-60 * a0 * e0 + 30 * a0 * e1 + 60 * a0 * e4 - 24 * a0 * e5 - 12 * a0 * e7 + 3 * a0 * e8 + 30 * a1 * e0 - 36 * a1 * e4 + 9 * a1 * e7 + 60 * a4 * e0 - 36 * a4 * e1 - 36 * a4 * e4 + 18 * a4 * e5 - 24 * a5 * e0 + 18 * a5 * e4 - 12 * a7 * e0 + 9 * a7 * e1 + 3 * a8 * e0 + 60 * b0 * c0 - 30 * b0 * c1 - 60 * b0 * c4 + 24 * b0 * c5 + 12 * b0 * c7 - 3 * b0 * c8 - 30 * b1 * c0 + 36 * b1 * c4 - 9 * b1 * c7 - 60 * b4 * c0 + 36 * b4 * c1 + 36 * b4 * c4 - 18 * b4 * c5 + 24 * b5 * c0 - 18 * b5 * c4 + 12 * b7 * c0 - 9 * b7 * c1 - 3 * b8 * c0) * (X 0 ^ 1 * X 1 ^ 2) +
      C (60 * a0 * e0 - 30 * a0 * e1 - 90 * a0 * e4 + 36 * a0 * e5 + 36 * a0 * e7 - 9 * a0 * e8 - 3 * a0 * e9 - 30 * a1 * e0 + 54 * a1 * e4 - 27 * a1 * e7 + 3 * a1 * e9 - 90 * a4 * e0 + 54 * a4 * e1 + 108 * a4 * e4 - 54 * a4 * e5 - 27 * a4 * e7 + 9 * a4 * e8 + 36 * a5 * e0 - 54 * a5 * e4 + 18 * a5 * e7 + 36 * a7 * e0 - 27 * a7 * e1 - 27 * a7 * e4 + 18 * a7 * e5 - 9 * a8 * e0 + 9 * a8 * e4 - 3 * a9 * e0 + 3 * a9 * e1 - 60 * b0 * c0 + 30 * b0 * c1 + 90 * b0 * c4 - 36 * b0 * c5 - 36 * b0 * c7 + 9 * b0 * c8 + 3 * b0 * c9 + 30 * b1 * c0 - 54 * b1 * c4 + 27 * b1 * c7 - 3 * b1 * c9 + 90 * b4 * c0 - 54 * b4 * c1 - 108 * b4 * c4 + 54 * b4 * c5 + 27 * b4 * c7 - 9 * b4 * c8 - 36 * b5 * c0 + 54 * b5 * c4 - 18 * b5 * c7 - 36 * b7 * c0 + 27 * b7 * c1 + 27 * b7 * c4 - 18 * b7 * c5 + 9 * b8 * c0 - 9 * b8 * c4 + 3 * b9 * c0 - 3 * b9 * c1) * (X 0 ^ 1 * X 1 ^ 3) +
      C (-30 * a0 * e0 + 15 * a0 * e1 + 60 * a0 * e4 - 24 * a0 * e5 - 36 * a0 * e7 + 9 * a0 * e8 + 6 * a0 * e9 + 15 * a1 * e0 - 36 * a1 * e4 + 27 * a1 * e7 - 6 * a1 * e9 + 60 * a4 * e0 - 36 * a4 * e1 - 108 * a4 * e4 + 54 * a4 * e5 + 54 * a4 * e7 - 18 * a4 * e8 - 6 * a4 * e9 - 24 * a5 * e0 + 54 * a5 * e4 - 36 * a5 * e7 + 6 * a5 * e9 - 36 * a7 * e0 + 27 * a7 * e1 + 54 * a7 * e4 - 36 * a7 * e5 - 18 * a7 * e7 + 9 * a7 * e8 + 9 * a8 * e0 - 18 * a8 * e4 + 9 * a8 * e7 + 6 * a9 * e0 - 6 * a9 * e1 - 6 * a9 * e4 + 6 * a9 * e5 + 30 * b0 * c0 - 15 * b0 * c1 - 60 * b0 * c4 + 24 * b0 * c5 + 36 * b0 * c7 - 9 * b0 * c8 - 6 * b0 * c9 - 15 * b1 * c0 + 36 * b1 * c4 - 27 * b1 * c7 + 6 * b1 * c9 - 60 * b4 * c0 + 36 * b4 * c1 + 108 * b4 * c4 - 54 * b4 * c5 - 54 * b4 * c7 + 18 * b4 * c8 + 6 * b4 * c9 + 24 * b5 * c0 - 54 * b5 * c4 + 36 * b5 * c7 - 6 * b5 * c9 + 36 * b7 * c0 - 27 * b7 * c1 - 54 * b7 * c4 + 36 * b7 * c5 + 18 * b7 * c7 - 9 * b7 * c8 - 9 * b8 * c0 + 18 * b8 * c4 - 9 * b8 * c7 - 6 * b9 * c0 + 6 * b9 * c1 + 6 * b9 * c4 - 6 * b9 * c5) * (X 0 ^ 1 * X 1 ^ 4) +
      C (6 * a0 * e0 - 3 * a0 * e1 - 15 * a0 * e4 + 6 * a0 * e5 + 12 * a0 * e7 - 3 * a0 * e8 - 3 * a0 * e9 - 3 * a1 * e0 + 9 * a1 * e4 - 9 * a1 * e7 + 3 * a1 * e9 - 15 * a4 * e0 + 9 * a4 * e1 + 36 * a4 * e4 - 18 * a4 * e5 - 27 * a4 * e7 + 9 * a4 * e8 + 6 * a4 * e9 + 6 * a5 * e0 - 18 * a5 * e4 + 18 * a5 * e7 - 6 * a5 * e9 + 12 * a7 * e0 - 9 * a7 * e1 - 27 * a7 * e4 + 18 * a7 * e5 + 18 * a7 * e7 - 9 * a7 * e8 - 3 * a7 * e9 - 3 * a8 * e0 + 9 * a8 * e4 - 9 * a8 * e7 + 3 * a8 * e9 - 3 * a9 * e0 + 3 * a9 * e1 + 6 * a9 * e4 - 6 * a9 * e5 - 3 * a9 * e7 + 3 * a9 * e8 - 6 * b0 * c0 + 3 * b0 * c1 + 15 * b0 * c4 - 6 * b0 * c5 - 12 * b0 * c7 + 3 * b0 * c8 + 3 * b0 * c9 + 3 * b1 * c0 - 9 * b1 * c4 + 9 * b1 * c7 - 3 * b1 * c9 + 15 * b4 * c0 - 9 * b4 * c1 - 36 * b4 * c4 + 18 * b4 * c5 + 27 * b4 * c7 - 9 * b4 * c8 - 6 * b4 * c9 - 6 * b5 * c0 + 18 * b5 * c4 - 18 * b5 * c7 + 6 * b5 * c9 - 12 * b7 * c0 + 9 * b7 * c1 + 27 * b7 * c4 - 18 * b7 * c5 - 18 * b7 * c7 + 9 * b7 * c8 + 3 * b7 * c9 + 3 * b8 * c0 - 9 * b8 * c4 + 9 * b8 * c7 - 3 * b8 * c9 + 3 * b9 * c0 - 3 * b9 * c1 - 6 * b9 * c4 + 6 * b9 * c5 + 3 * b9 * c7 - 3 * b9 * c8) * (X 0 ^ 1 * X 1 ^ 5) +
      C (15 * a0 * e0 - 15 * a0 * e1 + 3 * a0 * e2 - 15 * a1 * e0 + 9 * a1 * e1 + 3 * a2 * e0 - 15 * b0 * c0 + 15 * b0 * c1 - 3 * b0 * c2 + 15 * b1 * c0 - 9 * b1 * c1 - 3 * b2 * c0) * (X 0 ^ 2 * X 1 ^ 0) +
      C (-60 * a0 * e0 + 60 * a0 * e1 - 12 * a0 * e2 + 30 * a0 * e4 - 24 * a0 * e5 + 3 * a0 * e6 + 60 * a1 * e0 - 36 * a1 * e1 - 36 * a1 * e4 + 18 * a1 * e5 - 12 * a2 * e0 + 9 * a2 * e4 + 30 * a4 * e0 - 36 * a4 * e1 + 9 * a4 * e2 - 24 * a5 * e0 + 18 * a5 * e1 + 3 * a6 * e0 + 60 * b0 * c0 - 60 * b0 * c1 + 12 * b0 * c2 - 30 * b0 * c4 + 24 * b0 * c5 - 3 * b0 * c6 - 60 * b1 * c0 + 36 * b1 * c1 + 36 * b1 * c4 - 18 * b1 * c5 + 12 * b2 * c0 - 9 * b2 * c4 - 30 * b4 * c0 + 36 * b4 * c1 - 9 * b4 * c2 + 24 * b5 * c0 - 18 * b5 * c1 - 3 * b6 * c0) * (X 0 ^ 2 * X 1 ^ 1) +
      C (90 * a0 * e0 - 90 * a0 * e1 + 18 * a0 * e2 - 90 * a0 * e4 + 72 * a0 * e5 - 9 * a0 * e6 + 18 * a0 * e7 - 9 * a0 * e8 - 90 * a1 * e0 + 54 * a1 * e1 + 108 * a1 * e4 - 54 * a1 * e5 - 27 * a1 * e7 + 9 * a1 * e8 + 18 * a2 * e0 - 27 * a2 * e4 + 9 * a2 * e7 - 90 * a4 * e0 + 108 * a4 * e1 - 27 * a4 * e2 + 54 * a4 * e4 - 54 * a4 * e5 + 9 * a4 * e6 + 72 * a5 * e0 - 54 * a5 * e1 - 54 * a5 * e4 + 36 * a5 * e5 - 9 * a6 * e0 + 9 * a6 * e4 + 18 * a7 * e0 - 27 * a7 * e1 + 9 * a7 * e2 - 9 * a8 * e0 + 9 * a8 * e1 - 90 * b0 * c0 + 90 * b0 * c1 - 18 * b0 * c2 + 90 * b0 * c4 - 72 * b0 * c5 + 9 * b0 * c6 - 18 * b0 * c7 + 9 * b0 * c8 + 90 * b1 * c0 - 54 * b1 * c1 - 108 * b1 * c4 + 54 * b1 * c5 + 27 * b1 * c7 - 9 * b1 * c8 - 18 * b2 * c0 + 27 * b2 * c4 - 9 * b2 * c7 + 90 * b4 * c0 - 108 * b4 * c1 + 27 * b4 * c2 - 54 * b4 * c4 + 54 * b4 * c5 - 9 * b4 * c6 - 72 * b5 * c0 + 54 * b5 * c1 + 54 * b5 * c4 - 36 * b5 * c5 + 9 * b6 * c0 - 9 * b6 * c4 - 18 * b7 * c0 + 27 * b7 * c1 - 9 * b7 * c2 + 9 * b8 * c0 - 9 * b8 * c1) * (X 0 ^ 2 * X 1 ^ 2) +
      C (-60 * a0 * e0 + 60 * a0 * e1 - 12 * a0 * e2 + 90 * a0 * e4 - 72 * a0 * e5 + 9 * a0 * e6 - 36 * a0 * e7 + 18 * a0 * e8 + 3 * a0 * e9 + 60 * a1 * e0 - 36 * a1 * e1 - 108 * a1 * e4 + 54 * a1 * e5 + 54 * a1 * e7 - 18 * a1 * e8 - 6 * a1 * e9 - 12 * a2 * e0 + 27 * a2 * e4 - 18 * a2 * e7 + 3 * a2 * e9 + 90 * a4 * e0 - 108 * a4 * e1 + 27 * a4 * e2 - 108 * a4 * e4 + 108 * a4 * e5 - 18 * a4 * e6 + 27 * a4 * e7 - 18 * a4 * e8 - 72 * a5 * e0 + 54 * a5 * e1 + 108 * a5 * e4 - 72 * a5 * e5 - 36 * a5 * e7 + 18 * a5 * e8 + 9 * a6 * e0 - 18 * a6 * e4 + 9 * a6 * e7 - 36 * a7 * e0 + 54 * a7 * e1 - 18 * a7 * e2 + 27 * a7 * e4 - 36 * a7 * e5 + 9 * a7 * e6 + 18 * a8 * e0 - 18 * a8 * e1 - 18 * a8 * e4 + 18 * a8 * e5 + 3 * a9 * e0 - 6 * a9 * e1 + 3 * a9 * e2 + 60 * b0 * c0 - 60 * b0 * c1 + 12 * b0 * c2 - 90 * b0 * c4 + 72 * b0 * c5 - 9 * b0 * c6 + 36 * b0 * c7 - 18 * b0 * c8 - 3 * b0 * c9 - 60 * b1 * c0 + 36 * b1 * c1 + 108 * b1 * c4 - 54 * b1 * c5 - 54 * b1 * c7 + 18 * b1 * c8 + 6 * b1 * c9 + 12 * b2 * c0 - 27 * b2 * c4 + 18 * b2 * c7 - 3 * b2 * c9 - 90 * b4 * c0 + 108 * b4 * c1 - 27 * b4 * c2 + 108 * b4 * c4 - 108 * b4 * c5 + 18 * b4 * c6 - 27 * b4 * c7 + 18 * b4 * c8 + 72 * b5 * c0 - 54 * b5 * c1 - 108 * b5 * c4 + 72 * b5 * c5 + 36 * b5 * c7 - 18 * b5 * c8 - 9 * b6 * c0 + 18 * b6 * c4 - 9 * b6 * c7 + 36 * b7 * c0 - 54 * b7 * c1 + 18 * b7 * c2 - 27 * b7 * c4 + 36 * b7 * c5 - 9 * b7 * c6 - 18 * b8 * c0 + 18 * b8 * c1 + 18 * b8 * c4 - 18 * b8 * c5 - 3 * b9 * c0 + 6 * b9 * c1 - 3 * b9 * c2) * (X 0 ^ 2 * X 1 ^ 3) +
      C (15 * a0 * e0 - 15 * a0 * e1 + 3 * a0 * e2 - 30 * a0 * e4 + 24 * a0 * e5 - 3 * a0 * e6 + 18 * a0 * e7 - 9 * a0 * e8 - 3 * a0 * e9 - 15 * a1 * e0 + 9 * a1 * e1 + 36 * a1 * e4 - 18 * a1 * e5 - 27 * a1 * e7 + 9 * a1 * e8 + 6 * a1 * e9 + 3 * a2 * e0 - 9 * a2 * e4 + 9 * a2 * e7 - 3 * a2 * e9 - 30 * a4 * e0 + 36 * a4 * e1 - 9 * a4 * e2 + 54 * a4 * e4 - 54 * a4 * e5 + 9 * a4 * e6 - 27 * a4 * e7 + 18 * a4 * e8 + 3 * a4 * e9 + 24 * a5 * e0 - 18 * a5 * e1 - 54 * a5 * e4 + 36 * a5 * e5 + 36 * a5 * e7 - 18 * a5 * e8 - 6 * a5 * e9 - 3 * a6 * e0 + 9 * a6 * e4 - 9 * a6 * e7 + 3 * a6 * e9 + 18 * a7 * e0 - 27 * a7 * e1 + 9 * a7 * e2 - 27 * a7 * e4 + 36 * a7 * e5 - 9 * a7 * e6 + 9 * a7 * e7 - 9 * a7 * e8 - 9 * a8 * e0 + 9 * a8 * e1 + 18 * a8 * e4 - 18 * a8 * e5 - 9 * a8 * e7 + 9 * a8 * e8 - 3 * a9 * e0 + 6 * a9 * e1 - 3 * a9 * e2 + 3 * a9 * e4 - 6 * a9 * e5 + 3 * a9 * e6 - 15 * b0 * c0 + 15 * b0 * c1 - 3 * b0 * c2 + 30 * b0 * c4 - 24 * b0 * c5 + 3 * b0 * c6 - 18 * b0 * c7 + 9 * b0 * c8 + 3 * b0 * c9 + 15 * b1 * c0 - 9 * b1 * c1 - 36 * b1 * c4 + 18 * b1 * c5 + 27 * b1 * c7 - 9 * b1 * c8 - 6 * b1 * c9 - 3 * b2 * c0 + 9 * b2 * c4 - 9 * b2 * c7 + 3 * b2 * c9 + 30 * b4 * c0 - 36 * b4 * c1 + 9 * b4 * c2 - 54 * b4 * c4 + 54 * b4 * c5 - 9 * b4 * c6 + 27 * b4 * c7 - 18 * b4 * c8 - 3 * b4 * c9 - 24 * b5 * c0 + 18 * b5 * c1 + 54 * b5 * c4 - 36 * b5 * c5 - 36 * b5 * c7 + 18 * b5 * c8 + 6 * b5 * c9 + 3 * b6 * c0 - 9 * b6 * c4 + 9 * b6 * c7 - 3 * b6 * c9 - 18 * b7 * c0 + 27 * b7 * c1 - 9 * b7 * c2 + 27 * b7 * c4 - 36 * b7 * c5 + 9 * b7 * c6 - 9 * b7 * c7 + 9 * b7 * c8 + 9 * b8 * c0 - 9 * b8 * c1 - 18 * b8 * c4 + 18 * b8 * c5 + 9 * b8 * c7 - 9 * b8 * c8 + 3 * b9 * c0 - 6 * b9 * c1 + 3 * b9 * c2 - 3 * b9 * c4 + 6 * b9 * c5 - 3 * b9 * c6) * (X 0 ^ 2 * X 1 ^ 4) +
      C (-20 * a0 * e0 + 30 * a0 * e1 - 12 * a0 * e2 + a0 * e3 + 30 * a1 * e0 - 36 * a1 * e1 + 9 * a1 * e2 - 12 * a2 * e0 + 9 * a2 * e1 + a3 * e0 + 20 * b0 * c0 - 30 * b0 * c1 + 12 * b0 * c2 - b0 * c3 - 30 * b1 * c0 + 36 * b1 * c1 - 9 * b1 * c2 + 12 * b2 * c0 - 9 * b2 * c1 - b3 * c0) * (X 0 ^ 3 * X 1 ^ 0) +
      C (60 * a0 * e0 - 90 * a0 * e1 + 36 * a0 * e2 - 3 * a0 * e3 - 30 * a0 * e4 + 36 * a0 * e5 - 9 * a0 * e6 - 90 * a1 * e0 + 108 * a1 * e1 - 27 * a1 * e2 + 54 * a1 * e4 - 54 * a1 * e5 + 9 * a1 * e6 + 36 * a2 * e0 - 27 * a2 * e1 - 27 * a2 * e4 + 18 * a2 * e5 - 3 * a3 * e0 + 3 * a3 * e4 - 30 * a4 * e0 + 54 * a4 * e1 - 27 * a4 * e2 + 3 * a4 * e3 + 36 * a5 * e0 - 54 * a5 * e1 + 18 * a5 * e2 - 9 * a6 * e0 + 9 * a6 * e1 - 60 * b0 * c0 + 90 * b0 * c1 - 36 * b0 * c2 + 3 * b0 * c3 + 30 * b0 * c4 - 36 * b0 * c5 + 9 * b0 * c6 + 90 * b1 * c0 - 108 * b1 * c1 + 27 * b1 * c2 - 54 * b1 * c4 + 54 * b1 * c5 - 9 * b1 * c6 - 36 * b2 * c0 + 27 * b2 * c1 + 27 * b2 * c4 - 18 * b2 * c5 + 3 * b3 * c0 - 3 * b3 * c4 + 30 * b4 * c0 - 54 * b4 * c1 + 27 * b4 * c2 - 3 * b4 * c3 - 36 * b5 * c0 + 54 * b5 * c1 - 18 * b5 * c2 + 9 * b6 * c0 - 9 * b6 * c1) * (X 0 ^ 3 * X 1 ^ 1) +
      C (-60 * a0 * e0 + 90 * a0 * e1 - 36 * a0 * e2 + 3 * a0 * e3 + 60 * a0 * e4 - 72 * a0 * e5 + 18 * a0 * e6 - 12 * a0 * e7 + 9 * a0 * e8 + 90 * a1 * e0 - 108 * a1 * e1 + 27 * a1 * e2 - 108 * a1 * e4 + 108 * a1 * e5 - 18 * a1 * e6 + 27 * a1 * e7 - 18 * a1 * e8 - 36 * a2 * e0 + 27 * a2 * e1 + 54 * a2 * e4 - 36 * a2 * e5 - 18 * a2 * e7 + 9 * a2 * e8 + 3 * a3 * e0 - 6 * a3 * e4 + 3 * a3 * e7 + 60 * a4 * e0 - 108 * a4 * e1 + 54 * a4 * e2 - 6 * a4 * e3 - 36 * a4 * e4 + 54 * a4 * e5 - 18 * a4 * e6 - 72 * a5 * e0 + 108 * a5 * e1 - 36 * a5 * e2 + 54 * a5 * e4 - 72 * a5 * e5 + 18 * a5 * e6 + 18 * a6 * e0 - 18 * a6 * e1 - 18 * a6 * e4 + 18 * a6 * e5 - 12 * a7 * e0 + 27 * a7 * e1 - 18 * a7 * e2 + 3 * a7 * e3 + 9 * a8 * e0 - 18 * a8 * e1 + 9 * a8 * e2 + 60 * b0 * c0 - 90 * b0 * c1 + 36 * b0 * c2 - 3 * b0 * c3 - 60 * b0 * c4 + 72 * b0 * c5 - 18 * b0 * c6 + 12 * b0 * c7 - 9 * b0 * c8 - 90 * b1 * c0 + 108 * b1 * c1 - 27 * b1 * c2 + 108 * b1 * c4 - 108 * b1 * c5 + 18 * b1 * c6 - 27 * b1 * c7 + 18 * b1 * c8 + 36 * b2 * c0 - 27 * b2 * c1 - 54 * b2 * c4 + 36 * b2 * c5 + 18 * b2 * c7 - 9 * b2 * c8 - 3 * b3 * c0 + 6 * b3 * c4 - 3 * b3 * c7 - 60 * b4 * c0 + 108 * b4 * c1 - 54 * b4 * c2 + 6 * b4 * c3 + 36 * b4 * c4 - 54 * b4 * c5 + 18 * b4 * c6 + 72 * b5 * c0 - 108 * b5 * c1 + 36 * b5 * c2 - 54 * b5 * c4 + 72 * b5 * c5 - 18 * b5 * c6 - 18 * b6 * c0 + 18 * b6 * c1 + 18 * b6 * c4 - 18 * b6 * c5 + 12 * b7 * c0 - 27 * b7 * c1 + 18 * b7 * c2 - 3 * b7 * c3 - 9 * b8 * c0 + 18 * b8 * c1 - 9 * b8 * c2) * (X 0 ^ 3 * X 1 ^ 2) +
      C (20 * a0 * e0 - 30 * a0 * e1 + 12 * a0 * e2 - a0 * e3 - 30 * a0 * e4 + 36 * a0 * e5 - 9 * a0 * e6 + 12 * a0 * e7 - 9 * a0 * e8 - a0 * e9 - 30 * a1 * e0 + 36 * a1 * e1 - 9 * a1 * e2 + 54 * a1 * e4 - 54 * a1 * e5 + 9 * a1 * e6 - 27 * a1 * e7 + 18 * a1 * e8 + 3 * a1 * e9 + 12 * a2 * e0 - 9 * a2 * e1 - 27 * a2 * e4 + 18 * a2 * e5 + 18 * a2 * e7 - 9 * a2 * e8 - 3 * a2 * e9 - a3 * e0 + 3 * a3 * e4 - 3 * a3 * e7 + a3 * e9 - 30 * a4 * e0 + 54 * a4 * e1 - 27 * a4 * e2 + 3 * a4 * e3 + 36 * a4 * e4 - 54 * a4 * e5 + 18 * a4 * e6 - 9 * a4 * e7 + 9 * a4 * e8 + 36 * a5 * e0 - 54 * a5 * e1 + 18 * a5 * e2 - 54 * a5 * e4 + 72 * a5 * e5 - 18 * a5 * e6 + 18 * a5 * e7 - 18 * a5 * e8 - 9 * a6 * e0 + 9 * a6 * e1 + 18 * a6 * e4 - 18 * a6 * e5 - 9 * a6 * e7 + 9 * a6 * e8 + 12 * a7 * e0 - 27 * a7 * e1 + 18 * a7 * e2 - 3 * a7 * e3 - 9 * a7 * e4 + 18 * a7 * e5 - 9 * a7 * e6 - 9 * a8 * e0 + 18 * a8 * e1 - 9 * a8 * e2 + 9 * a8 * e4 - 18 * a8 * e5 + 9 * a8 * e6 - a9 * e0 + 3 * a9 * e1 - 3 * a9 * e2 + a9 * e3 - 20 * b0 * c0 + 30 * b0 * c1 - 12 * b0 * c2 + b0 * c3 + 30 * b0 * c4 - 36 * b0 * c5 + 9 * b0 * c6 - 12 * b0 * c7 + 9 * b0 * c8 + b0 * c9 + 30 * b1 * c0 - 36 * b1 * c1 + 9 * b1 * c2 - 54 * b1 * c4 + 54 * b1 * c5 - 9 * b1 * c6 + 27 * b1 * c7 - 18 * b1 * c8 - 3 * b1 * c9 - 12 * b2 * c0 + 9 * b2 * c1 + 27 * b2 * c4 - 18 * b2 * c5 - 18 * b2 * c7 + 9 * b2 * c8 + 3 * b2 * c9 + b3 * c0 - 3 * b3 * c4 + 3 * b3 * c7 - b3 * c9 + 30 * b4 * c0 - 54 * b4 * c1 + 27 * b4 * c2 - 3 * b4 * c3 - 36 * b4 * c4 + 54 * b4 * c5 - 18 * b4 * c6 + 9 * b4 * c7 - 9 * b4 * c8 - 36 * b5 * c0 + 54 * b5 * c1 - 18 * b5 * c2 + 54 * b5 * c4 - 72 * b5 * c5 + 18 * b5 * c6 - 18 * b5 * c7 + 18 * b5 * c8 + 9 * b6 * c0 - 9 * b6 * c1 - 18 * b6 * c4 + 18 * b6 * c5 + 9 * b6 * c7 - 9 * b6 * c8 - 12 * b7 * c0 + 27 * b7 * c1 - 18 * b7 * c2 + 3 * b7 * c3 + 9 * b7 * c4 - 18 * b7 * c5 + 9 * b7 * c6 + 9 * b8 * c0 - 18 * b8 * c1 + 9 * b8 * c2 - 9 * b8 * c4 + 18 * b8 * c5 - 9 * b8 * c6 + b9 * c0 - 3 * b9 * c1 + 3 * b9 * c2 - b9 * c3) * (X 0 ^ 3 * X 1 ^ 3) +
      C (15 * a0 * e0 - 30 * a0 * e1 + 18 * a0 * e2 - 3 * a0 * e3 - 30 * a1 * e0 + 54 * a1 * e1 - 27 * a1 * e2 + 3 * a1 * e3 + 18 * a2 * e0 - 27 * a2 * e1 + 9 * a2 * e2 - 3 * a3 * e0 + 3 * a3 * e1 - 15 * b0 * c0 + 30 * b0 * c1 - 18 * b0 * c2 + 3 * b0 * c3 + 30 * b1 * c0 - 54 * b1 * c1 + 27 * b1 * c2 - 3 * b1 * c3 - 18 * b2 * c0 + 27 * b2 * c1 - 9 * b2 * c2 + 3 * b3 * c0 - 3 * b3 * c1) * (X 0 ^ 4 * X 1 ^ 0) +
      C (-30 * a0 * e0 + 60 * a0 * e1 - 36 * a0 * e2 + 6 * a0 * e3 + 15 * a0 * e4 - 24 * a0 * e5 + 9 * a0 * e6 + 60 * a1 * e0 - 108 * a1 * e1 + 54 * a1 * e2 - 6 * a1 * e3 - 36 * a1 * e4 + 54 * a1 * e5 - 18 * a1 * e6 - 36 * a2 * e0 + 54 * a2 * e1 - 18 * a2 * e2 + 27 * a2 * e4 - 36 * a2 * e5 + 9 * a2 * e6 + 6 * a3 * e0 - 6 * a3 * e1 - 6 * a3 * e4 + 6 * a3 * e5 + 15 * a4 * e0 - 36 * a4 * e1 + 27 * a4 * e2 - 6 * a4 * e3 - 24 * a5 * e0 + 54 * a5 * e1 - 36 * a5 * e2 + 6 * a5 * e3 + 9 * a6 * e0 - 18 * a6 * e1 + 9 * a6 * e2 + 30 * b0 * c0 - 60 * b0 * c1 + 36 * b0 * c2 - 6 * b0 * c3 - 15 * b0 * c4 + 24 * b0 * c5 - 9 * b0 * c6 - 60 * b1 * c0 + 108 * b1 * c1 - 54 * b1 * c2 + 6 * b1 * c3 + 36 * b1 * c4 - 54 * b1 * c5 + 18 * b1 * c6 + 36 * b2 * c0 - 54 * b2 * c1 + 18 * b2 * c2 - 27 * b2 * c4 + 36 * b2 * c5 - 9 * b2 * c6 - 6 * b3 * c0 + 6 * b3 * c1 + 6 * b3 * c4 - 6 * b3 * c5 - 15 * b4 * c0 + 36 * b4 * c1 - 27 * b4 * c2 + 6 * b4 * c3 + 24 * b5 * c0 - 54 * b5 * c1 + 36 * b5 * c2 - 6 * b5 * c3 - 9 * b6 * c0 + 18 * b6 * c1 - 9 * b6 * c2) * (X 0 ^ 4 * X 1 ^ 1) +
      C (15 * a0 * e0 - 30 * a0 * e1 + 18 * a0 * e2 - 3 * a0 * e3 - 15 * a0 * e4 + 24 * a0 * e5 - 9 * a0 * e6 + 3 * a0 * e7 - 3 * a0 * e8 - 30 * a1 * e0 + 54 * a1 * e1 - 27 * a1 * e2 + 3 * a1 * e3 + 36 * a1 * e4 - 54 * a1 * e5 + 18 * a1 * e6 - 9 * a1 * e7 + 9 * a1 * e8 + 18 * a2 * e0 - 27 * a2 * e1 + 9 * a2 * e2 - 27 * a2 * e4 + 36 * a2 * e5 - 9 * a2 * e6 + 9 * a2 * e7 - 9 * a2 * e8 - 3 * a3 * e0 + 3 * a3 * e1 + 6 * a3 * e4 - 6 * a3 * e5 - 3 * a3 * e7 + 3 * a3 * e8 - 15 * a4 * e0 + 36 * a4 * e1 - 27 * a4 * e2 + 6 * a4 * e3 + 9 * a4 * e4 - 18 * a4 * e5 + 9 * a4 * e6 + 24 * a5 * e0 - 54 * a5 * e1 + 36 * a5 * e2 - 6 * a5 * e3 - 18 * a5 * e4 + 36 * a5 * e5 - 18 * a5 * e6 - 9 * a6 * e0 + 18 * a6 * e1 - 9 * a6 * e2 + 9 * a6 * e4 - 18 * a6 * e5 + 9 * a6 * e6 + 3 * a7 * e0 - 9 * a7 * e1 + 9 * a7 * e2 - 3 * a7 * e3 - 3 * a8 * e0 + 9 * a8 * e1 - 9 * a8 * e2 + 3 * a8 * e3 - 15 * b0 * c0 + 30 * b0 * c1 - 18 * b0 * c2 + 3 * b0 * c3 + 15 * b0 * c4 - 24 * b0 * c5 + 9 * b0 * c6 - 3 * b0 * c7 + 3 * b0 * c8 + 30 * b1 * c0 - 54 * b1 * c1 + 27 * b1 * c2 - 3 * b1 * c3 - 36 * b1 * c4 + 54 * b1 * c5 - 18 * b1 * c6 + 9 * b1 * c7 - 9 * b1 * c8 - 18 * b2 * c0 + 27 * b2 * c1 - 9 * b2 * c2 + 27 * b2 * c4 - 36 * b2 * c5 + 9 * b2 * c6 - 9 * b2 * c7 + 9 * b2 * c8 + 3 * b3 * c0 - 3 * b3 * c1 - 6 * b3 * c4 + 6 * b3 * c5 + 3 * b3 * c7 - 3 * b3 * c8 + 15 * b4 * c0 - 36 * b4 * c1 + 27 * b4 * c2 - 6 * b4 * c3 - 9 * b4 * c4 + 18 * b4 * c5 - 9 * b4 * c6 - 24 * b5 * c0 + 54 * b5 * c1 - 36 * b5 * c2 + 6 * b5 * c3 + 18 * b5 * c4 - 36 * b5 * c5 + 18 * b5 * c6 + 9 * b6 * c0 - 18 * b6 * c1 + 9 * b6 * c2 - 9 * b6 * c4 + 18 * b6 * c5 - 9 * b6 * c6 - 3 * b7 * c0 + 9 * b7 * c1 - 9 * b7 * c2 + 3 * b7 * c3 + 3 * b8 * c0 - 9 * b8 * c1 + 9 * b8 * c2 - 3 * b8 * c3) * (X 0 ^ 4 * X 1 ^ 2) +
      C (-6 * a0 * e0 + 15 * a0 * e1 - 12 * a0 * e2 + 3 * a0 * e3 + 15 * a1 * e0 - 36 * a1 * e1 + 27 * a1 * e2 - 6 * a1 * e3 - 12 * a2 * e0 + 27 * a2 * e1 - 18 * a2 * e2 + 3 * a2 * e3 + 3 * a3 * e0 - 6 * a3 * e1 + 3 * a3 * e2 + 6 * b0 * c0 - 15 * b0 * c1 + 12 * b0 * c2 - 3 * b0 * c3 - 15 * b1 * c0 + 36 * b1 * c1 - 27 * b1 * c2 + 6 * b1 * c3 + 12 * b2 * c0 - 27 * b2 * c1 + 18 * b2 * c2 - 3 * b2 * c3 - 3 * b3 * c0 + 6 * b3 * c1 - 3 * b3 * c2) * (X 0 ^ 5 * X 1 ^ 0) +
      C (6 * a0 * e0 - 15 * a0 * e1 + 12 * a0 * e2 - 3 * a0 * e3 - 3 * a0 * e4 + 6 * a0 * e5 - 3 * a0 * e6 - 15 * a1 * e0 + 36 * a1 * e1 - 27 * a1 * e2 + 6 * a1 * e3 + 9 * a1 * e4 - 18 * a1 * e5 + 9 * a1 * e6 + 12 * a2 * e0 - 27 * a2 * e1 + 18 * a2 * e2 - 3 * a2 * e3 - 9 * a2 * e4 + 18 * a2 * e5 - 9 * a2 * e6 - 3 * a3 * e0 + 6 * a3 * e1 - 3 * a3 * e2 + 3 * a3 * e4 - 6 * a3 * e5 + 3 * a3 * e6 - 3 * a4 * e0 + 9 * a4 * e1 - 9 * a4 * e2 + 3 * a4 * e3 + 6 * a5 * e0 - 18 * a5 * e1 + 18 * a5 * e2 - 6 * a5 * e3 - 3 * a6 * e0 + 9 * a6 * e1 - 9 * a6 * e2 + 3 * a6 * e3 - 6 * b0 * c0 + 15 * b0 * c1 - 12 * b0 * c2 + 3 * b0 * c3 + 3 * b0 * c4 - 6 * b0 * c5 + 3 * b0 * c6 + 15 * b1 * c0 - 36 * b1 * c1 + 27 * b1 * c2 - 6 * b1 * c3 - 9 * b1 * c4 + 18 * b1 * c5 - 9 * b1 * c6 - 12 * b2 * c0 + 27 * b2 * c1 - 18 * b2 * c2 + 3 * b2 * c3 + 9 * b2 * c4 - 18 * b2 * c5 + 9 * b2 * c6 + 3 * b3 * c0 - 6 * b3 * c1 + 3 * b3 * c2 - 3 * b3 * c4 + 6 * b3 * c5 - 3 * b3 * c6 + 3 * b4 * c0 - 9 * b4 * c1 + 9 * b4 * c2 - 3 * b4 * c3 - 6 * b5 * c0 + 18 * b5 * c1 - 18 * b5 * c2 + 6 * b5 * c3 + 3 * b6 * c0 - 9 * b6 * c1 + 9 * b6 * c2 - 3 * b6 * c3) * (X 0 ^ 5 * X 1 ^ 1) +
      C (a0 * e0 - 3 * a0 * e1 + 3 * a0 * e2 - a0 * e3 - 3 * a1 * e0 + 9 * a1 * e1 - 9 * a1 * e2 + 3 * a1 * e3 + 3 * a2 * e0 - 9 * a2 * e1 + 9 * a2 * e2 - 3 * a2 * e3 - a3 * e0 + 3 * a3 * e1 - 3 * a3 * e2 + a3 * e3 - b0 * c0 + 3 * b0 * c1 - 3 * b0 * c2 + b0 * c3 + 3 * b1 * c0 - 9 * b1 * c1 + 9 * b1 * c2 - 3 * b1 * c3 - 3 * b2 * c0 + 9 * b2 * c1 - 9 * b2 * c2 + 3 * b2 * c3 + b3 * c0 - 3 * b3 * c1 + 3 * b3 * c2 - b3 * c3) * (X 0 ^ 6 * X 1 ^ 0) := by
  simp only [surfPoly, triBernR, Finset.sum_range_succ, Finset.sum_range_zero, netOf, rowStart, seq,
    List.getD_cons_zero, List.getD_cons_succ, map_add, map_sub, map_mul, map_neg, map_ofNat]
  simp [Nat.choose]
  ring

set_option maxHeartbeats 1600000 in
theorem triIntegral_det_3 (a0 a1 a2 a3 a4 a5 a6 a7 a8 a9 b0 b1 b2 b3 b4 b5 b6 b7 b8 b9 c0 c1 c2 c3 c4 c5 c6 c7 c8 c9 e0 e1 e2 e3 e4 e5 e6 e7 e8 e9 : K) :
    triIntegral (surfPoly 3 [a0, a1, a2, a3, a4, a5, a6, a7, a8, a9] * surfPoly 3 [e0, e1, e2, e3, e4, e5, e6, e7, e8, e9] - surfPoly 3 [c0, c1, c2, c3, c4, c5, c6, c7, c8, c9] * surfPoly 3 [b0, b1, b2, b3, b4, b5, b6, b7, b8, b9]) =
      (a0 * e0 - b0 * c0) * triMonomialIntegral K 0 0 +
      (-6 * a0 * e0 + 3 * a0 * e4 + 3 * a4 * e0 + 6 * b0 * c0 - 3 * b0 * c4 - 3 * b4 * c0) * triMonomialIntegral K 0 1 +
      (15 * a0 * e0 - 15 * a0 * e4 + 3 * a0 * e7 - 15 * a4 * e0 + 9 * a4 * e4 + 3 * a7 * e0 - 15 * b0 * c0 + 15 * b0 * c4 - 3 * b0 * c7 + 15 * b4 * c0 - 9 * b4 * c4 - 3 * b7 * c0) * triMonomialIntegral K 0 2 +
      (-20 * a0 * e0 + 30 * a0 * e4 - 12 * a0 * e7 + a0 * e9 + 30 * a4 * e0 - 36 * a4 * e4 + 9 * a4 * e7 - 12 * a7 * e0 + 9 * a7 * e4 + a9 * e0 + 20 * b0 * c0 - 30 * b0 * c4 + 12 * b0 * c7 - b0 * c9 - 30 * b4 * c0 + 36 * b4 * c4 - 9 * b4 * c7 + 12 * b7 * c0 - 9 * b7 * c4 - b9 * c0) * triMonomialIntegral K 0 3 +
      (15 * a0 * e0 - 30 * a0 * e4 + 18 * a0 * e7 - 3 * a0 * e9 - 30 * a4 * e0 + 54 * a4 * e4 - 27 * a4 * e7 + 3 * a4 * e9 + 18 * a7 * e0 - 27 * a7 * e4 + 9 * a7 * e7 - 3 * a9 * e0 + 3 * a9 * e4 - 15 * b0 * c0 + 30 * b0 * c4 - 18 * b0 * c7 + 3 * b0 * c9 + 30 * b4 * c0 - 54 * b4 * c4 + 27 * b4 * c7 - 3 * b4 * c9 - 18 * b7 * c0 + 27 * b7 * c4 - 9 * b7 * c7 + 3 * b9 * c0 - 3 * b9 * c4) * triMonomialIntegral K 0 4 +
      (-6 * a0 * e0 + 15 * a0 * e4 - 12 * a0 * e7 + 3 * a0 * e9 + 15 * a4 * e0 - 36 * a4 * e4 + 27 * a4 * e7 - 6 * a4 * e9 - 12 * a7 * e0 + 27 * a7 * e4 - 18 * a7 * e7 + 3 * a7 * e9 + 3 * a9 * e0 - 6 * a9 * e4 + 3 * a9 * e7 + 6 * b0 * c0 - 15 * b0 * c4 + 12 * b0 * c7 - 3 * b0 * c9 - 15 * b4 * c0 + 36 * b4 * c4 - 27 * b4 * c7 + 6 * b4 * c9 + 12 * b7 * c0 - 27 * b7 * c4 + 18 * b7 * c7 - 3 * b7 * c9 - 3 * b9 * c0 + 6 * b9 * c4 - 3 * b9 * c7) * triMonomialIntegral K 0 5 +
      (a0 * e0 - 3 * a0 * e4 + 3 * a0 * e7 - a0 * e9 - 3 * a4 * e0 + 9 * a4 * e4 - 9 * a4 * e7 + 3 * a4 * e9 + 3 * a7 * e0 - 9 * a7 * e4 + 9 * a7 * e7 - 3 * a7 * e9 - a9 * e0 + 3 * a9 * e4 - 3 * a9 * e7 + a9 * e9 - b0 * c0 + 3 * b0 * c4 - 3 * b0 * c7 + b0 * c9 + 3 * b4 * c0 - 9 * b4 * c4 + 9 * b4 * c7 - 3 * b4 * c9 - 3 * b7 * c0 + 9 * b7 * c4 - 9 * b7 * c7 + 3 * b7 * c9 + b9 * c0 - 3 * b9 * c4 + 3 * b9 * c7 - b9 * c9) * triMonomialIntegral K 0 6 +
      (-6 * a0 * e0 + 3 * a0 * e1 + 3 * a1 * e0 + 6 * b0 * c0 - 3 * b0 * c1 - 3 * b1 * c0) * triMonomialIntegral K 1 0 +
      (30 * a0 * e0 - 15 * a0 * e1 - 15 * a0 * e4 + 6 * a0 * e5 - 15 * a1 * e0 + 9 * a1 * e4 - 15 * a4 * e0 + 9 * a4 * e1 + 6 * a5 * e0 - 30 * b0 * c0 + 15 * b0 * c1 + 15 * b0 * c4 - 6 * b0 * c5 + 15 * b1 * c0 - 9 * b1 * c4 + 15 * b4 * c0 - 9 * b4 * c1 - 6 * b5 * c0) * triMonomialIntegral K 1 1 +
      (-60 * a0 * e0 + 30 * a0 * e1 + 60 * a0 * e4 - 24 * a0 * e5 - 12 * a0 * e7 + 3 * a0 * e8 + 30 * a1 * e0 - 36 * a1 * e4 + 9 * a1 * e7 + 60 * a4 * e0 - 36 * a4 * e1 - 36 * a4 * e4 + 18 * a4 * e5 - 24 * a5 * e0 + 18 * a5 * e4 - 12 * a7 * e0 + 9 * a7 * e1 + 3 * a8 * e0 + 60 * b0 * c0 - 30 * b0 * c1 - 60 * b0 * c4 + 24 * b0 * c5 + 12 * b0 * c7 - 3 * b0 * c8 - 30 * b1 * c0 + 36 * b1 * c4 - 9 * b1 * c7 - 60 * b4 * c0 + 36 * b4 * c1 + 36 * b4 * c4 - 18 * b4 * c5 + 24 * b5 * c0 - 18 * b5 * c4 + 12 * b7 * c0 - 9 * b7 * c1 - 3 * b8 * c0) * triMonomialIntegral K 1 2 +
      (60 * a0 * e0 - 30 * a0 * e1 - 90 * a0 * e4 + 36 * a0 * e5 + 36 * a0 * e7 - 9 * a0 * e8 - 3 * a0 * e9 - 30 * a1 * e0 + 54 * a1 * e4 - 27 * a1 * e7 + 3 * a1 * e9 - 90 * a4 * e0 + 54 * a4 * e1 + 108 * a4 * e4 - 54 * a4 * e5 - 27 * a4 * e7 + 9 * a4 * e8 + 36 * a5 * e0 - 54 * a5 * e4 + 18 * a5 * e7 + 36 * a7 * e0 - 27 * a7 * e1 - 27 * a7 * e4 + 18 * a7 * e5 - 9 * a8 * e0 + 9 * a8 * e4 - 3 * a9 * e0 + 3 * a9 * e1 - 60 * b0 * c0 + 30 * b0 * c1 + 90 * b0 * c4 - 36 * b0 * c5 - 36 * b0 * c7 + 9 * b0 * c8 + 3 * b0 * c9 + 30 * b1 * c0 - 54 * b1 * c4 + 27 * b1 * c7 - 3 * b1 * c9 + 90 * b4 * c0 - 54 * b4 * c1 - 108 * b4 * c4 + 54 * b4 * c5 + 27 * b4 * c7 - 9 * b4 * c8 - 36 * b5 * c0 + 54 * b5 * c4 - 18 * b5 * c7 - 36 * b7 * c0 + 27 * b7 * c1 + 27 * b7 * c4 - 18 * b7 * c5 + 9 * b8 * c0 - 9 * b8 * c4 + 3 * b9 * c0 - 3 * b9 * c1) * triMonomialIntegral K 1 3 +
      (-30 * a0 * e0 + 15 * a0 * e1 + 60 * a0 * e4 - 24 * a0 * e5 - 36 * a0 * e7 + 9 * a0 * e8 + 6 * a0 * e9 + 15 * a1 * e0 - 36 * a1 * e4 + 27 * a1 * e7 - 6 * a1 * e9 + 60 * a4 * e0 - 36 * a4 * e1 - 108 * a4 * e4 + 54 * a4 * e5 + 54 * a4 * e7 - 18 * a4 * e8 - 6 * a4 * e9 - 24 * a5 * e0 + 54 * a5 * e4 - 36 * a5 * e7 + 6 * a5 * e9 - 36 * a7 * e0 + 27 * a7 * e1 + 54 * a7 * e4 - 36 * a7 * e5 - 18 * a7 * e7 + 9 * a7 * e8 + 9 * a8 * e0 - 18 * a8 * e4 + 9 * a8 * e7 + 6 * a9 * e0 - 6 * a9 * e1 - 6 * a9 * e4 + 6 * a9 * e5 + 30 * b0 * c0 - 15 * b0 * c1 - 60 * b0 * c4 + 24 * b0 * c5 + 36 * b0 * c7 - 9 * b0 * c8 - 6 * b0 * c9 - 15 * b1 * c0 + 36 * b1 * c4 - 27 * b1 * c7 + 6 * b1 * c9 - 60 * b4 * c0 + 36 * b4 * c1 + 108 * b4 * c4 - 54 * b4 * c5 - 54 * b4 * c7 + 18 * b4 * c8 + 6 * b4 * c9 + 24 * b5 * c0 - 54 * b5 * c4 + 36 * b5 * c7 - 6 * b5 * c9 + 36 * b7 * c0 - 27 * b7 * c1 - 54 * b7 * c4 + 36 * b7 * c5 + 18 * b7 * c7 - 9 * b7 * c8 - 9 * b8 * c0 + 18 * b8 * c4 - 9 * b8 * c7 - 6 * b9 * c0 + 6 * b9 * c1 + 6 * b9 * c4 - 6 * b9 * c5) * triMonomialIntegral K 1 4 +
      (6 * a0 * e0 - 3 * a0 * e1 - 15 * a0 * e4 + 6 * a0 * e5 + 12 * a0 * e7 - 3 * a0 * e8 - 3 * a0 * e9 - 3 * a1 * e0 + 9 * a1 * e4 - 9 * a1 * e7 + 3 * a1 * e9 - 15 * a4 * e0 + 9 * a4 * e1 + 36 * a4 * e4 - 18 * a4 * e5 - 27 * a4 * e7 + 9 * a4 * e8 + 6 * a4 * e9 + 6 * a5 * e0 - 18 * a5 * e4 + 18 * a5 * e7 - 6 * a5 * e9 + 12 * a7 * e0 - 9 * a7 * e1 - 27 * a7 * e4 + 18 * a7 * e5 + 18 * a7 * e7 - 9 * a7 * e8 - 3 * a7 * e9 - 3 * a8 * e0 + 9 * a8 * e4 - 9 * a8 * e7 + 3 * a8 * e9 - 3 * a9 * e0 + 3 * a9 * e1 + 6 * a9 * e4 - 6 * a9 * e5 - 3 * a9 * e7 + 3 * a9 * e8 - 6 * b0 * c0 + 3 * b0 * c1 + 15 * b0 * c4 - 6 * b0 * c5 - 12 * b0 * c7 + 3 * b0 * c8 + 3 * b0 * c9 + 3 * b1 * c0 - 9 * b1 * c4 + 9 * b1 * c7 - 3 * b1 * c9 + 15 * b4 * c0 - 9 * b4 * c1 - 36 * b4 * c4 + 18 * b4 * c5 + 27 * b4 * c7 - 9 * b4 * c8 - 6 * b4 * c9 - 6 * b5 * c0 + 18 * b5 * c4 - 18 * b5 * c7 + 6 * b5 * c9 - 12 * b7 * c0 + 9 * b7 * c1 + 27 * b7 * c4 - 18 * b7 * c5 - 18 * b7 * c7 + 9 * b7 * c8 + 3 * b7 * c9 + 3 * b8 * c0 - 9 * b8 * c4 + 9 * b8 * c7 - 3 * b8 * c9 + 3 * b9 * c0 - 3 * b9 * c1 - 6 * b9 * c4 + 6 * b9 * c5 + 3 * b9 * c7 - 3 * b9 * c8) * triMonomialIntegral K 1 5 +
      (15 * a0 * e0 - 15 * a0 * e1 + 3 * a0 * e2 - 15 * a1 * e0 + 9 * a1 * e1 + 3 * a2 * e0 - 15 * b0 * c0 + 15 * b0 * c1 - 3 * b0 * c2 + 15 * b1 * c0 - 9 * b1 * c1 - 3 * b2 * c0) * triMonomialIntegral K 2 0 +
      (-60 * a0 * e0 + 60 * a0 * e1 - 12 * a0 * e2 + 30 * a0 * e4 - 24 * a0 * e5 + 3 * a0 * e6 + 60 * a1 * e0 - 36 * a1 * e1 - 36 * a1 * e4 + 18 * a1 * e5 - 12 * a2 * e0 + 9 * a2 * e4 + 30 * a4 * e0 - 36 * a4 * e1 + 9 * a4 * e2 - 24 * a5 * e0 + 18 * a5 * e1 + 3 * a6 * e0 + 60 * b0 * c0 - 60 * b0 * c1 + 12 * b0 * c2 - 30 * b0 * c4 + 24 * b0 * c5 - 3 * b0 * c6 - 60 * b1 * c0 + 36 * b1 * c1 + 36 * b1 * c4 - 18 * b1 * c5 + 12 * b2 * c0 - 9 * b2 * c4 - 30 * b4 * c0 + 36 * b4 * c1 - 9 * b4 * c2 + 24 * b5 * c0 - 18 * b5 * c1 - 3 * b6 * c0) * triMonomialIntegral K 2 1 +
      (90 * a0 * e0 - 90 * a0 * e1 + 18 * a0 * e2 - 90 * a0 * e4 + 72 * a0 * e5 - 9 * a0 * e6 + 18 * a0 * e7 - 9 * a0 * e8 - 90 * a1 * e0 + 54 * a1 * e1 + 108 * a1 * e4 - 54 * a1 * e5 - 27 * a1 * e7 + 9 * a1 * e8 + 18 * a2 * e0 - 27 * a2 * e4 + 9 * a2 * e7 - 90 * a4 * e0 + 108 * a4 * e1 - 27 * a4 * e2 + 54 * a4 * e4 - 54 * a4 * e5 + 9 * a4 * e6 + 72 * a5 * e0 - 54 * a5 * e1 - 54 * a5 * e4 + 36 * a5 * e5 - 9 * a6 * e0 + 9 * a6 * e4 + 18 * a7 * e0 - 27 * a7 * e1 + 9 * a7 * e2 - 9 * a8 * e0 + 9 * a8 * e1 - 90 * b0 * c0 + 90 * b0 * c1 - 18 * b0 * c2 + 90 * b0 * c4 - 72 * b0 * c5 + 9 * b0 * c6 - 18 * b0 * c7 + 9 * b0 * c8 + 90 * b1 * c0 - 54 * b1 * c1 - 108 * b1 * c4 + 54 * b1 * c5 + 27 * b1 * c7 - 9 * b1 * c8 - 18 * b2 * c0 + 27 * b2 * c4 - 9 * b2 * c7 + 90 * b4 * c0 - 108 * b4 * c1 + 27 * b4 * c2 - 54 * b4 * c4 + 54 * b4 * c5 - 9 * b4 * c6 - 72 * b5 * c0 + 54 * b5 * c1 + 54 * b5 * c4 - 36 * b5 * c5 + 9 * b6 * c0 - 9 * b6 * c4 - 18 * b7 * c0 + 27 * b7 * c1 - 9 * b7 * c2 + 9 * b8 * c0 - 9 * b8 * c1) * triMonomialIntegral K 2 2 +
      (-60 * a0 * e0 + 60 * a0 * e1 - 12 * a0 * e2 + 90 * a0 * e4 - 72 * a0 * e5 + 9 * a0 * e6 - 36 * a0 * e7 + 18 * a0 * e8 + 3 * a0 * e9 + 60 * a1 * e0 - 36 * a1 * e1 - 108 * a1 * e4 + 54 * a1 * e5 + 54 * a1 * e7 - 18 * a1 * e8 - 6 * a1 * e9 - 12 * a2 * e0 + 27 * a2 * e4 - 18 * a2 * e7 + 3 * a2 * e9 + 90 * a4 * e0 - 108 * a4 * e1 + 27 * a4 * e2 - 108 * a4 * e4 + 108 * a4 * e5 - 18 * a4 * e6 + 27 * a4 * e7 - 18 * a4 * e8 - 72 * a5 * e0 + 54 * a5 * e1 + 108 * a5 * e4 - 72 * a5 * e5 - 36 * a5 * e7 + 18 * a5 * e8 + 9 * a6 * e0 - 18 * a6 * e4 + 9 * a6 * e7 - 36 * a7 * e0 + 54 * a7 * e1 - 18 * a7 * e2 + 27 * a7 * e4 - 36 * a7 * e5 + 9 * a7 * e6 + 18 * a8 * e0 - 18 * a8 * e1 - 18 * a8 * e4 + 18 * a8 * e5 + 3 * a9 * e0 - 6 * a9 * e1 + 3 * a9 * e2 + 60 * b0 * c0 - 60 * b0 * c1 + 12 * b0 * c2 - 90 * b0 * c4 + 72 * b0 * c5 - 9 * b0 * c6 + 36 * b0 * c7 - 18 * b0 * c8 - 3 * b0 * c9 - 60 * b1 * c0 + 36 * b1 * c1 + 108 * b1 * c4 - 54 * b1 * c5 - 54 * b1 * c7 + 18 * b1 * c8 + 6 * b1 * c9 + 12 * b2 * c0 - 27 * b2 * c4 + 18 * b2 * c7 - 3 * b2 * c9 - 90 * b4 * c0 + 108 * b4 * c1 - 27 * b4 * c2 + 108 * b4 * c4 - 108 * b4 * c5 + 18 * b4 * c6 - 27 * b4 * c7 + 18 * b4 * c8 + 72 * b5 * c0 - 54 * b5 * c1 - 108 * b5 * c4 + 72 * b5 * c5 + 36 * b5 * c7 - 18 * b5 * c8 - 9 * b6 * c0 + 18 * b6 * c4 - 9 * b6 * c7 + 36 * b7 * c0 - 54 * b7 * c1 + 18 * b7 * c2 - 27 * b7 * c4 + 36 * b7 * c5 - 9 * b7 * c6 - 18 * b8 * c0 + 18 * b8 * c1 + 18 * b8 * c4 - 18 * b8 * c5 - 3 * b9 * c0 + 6 * b9 * c1 - 3 * b9 * c2) * triMonomialIntegral K 2 3 +
      (15 * a0 * e0 - 15 * a0 * e1 + 3 * a0 * e2 - 30 * a0 * e4 + 24 * a0 * e5 - 3 * a0 * e6 + 18 * a0 * e7 - 9 * a0 * e8 - 3 * a0 * e9 - 15 * a1 * e0 + 9 * a1 * e1 + 36 * a1 * e4 - 18 * a1 * e5 - 27 * a1 * e7 + 9 * a1 * e8 + 6 * a1 * e9 + 3 * a2 * e0 - 9 * a2 * e4 + 9 * a2 * e7 - 3 * a2 * e9 - 30 * a4 * e0 + 36 * a4 * e1 - 9 * a4 * e2 + 54 * a4 * e4 - 54 * a4 * e5 + 9 * a4 * e6 - 27 * a4 * e7 + 18 * a4 * e8 + 3 * a4 * e9 + 24 * a5 * e0 - 18 * a5 * e1 - 54 * a5 * e4 + 36 * a5 * e5 + 36 * a5 * e7 - 18 * a5 * e8 - 6 * a5 * e9 - 3 * a6 * e0 + 9 * a6 * e4 - 9 * a6 * e7 + 3 * a6 * e9 + 18 * a7 * e0 - 27 * a7 * e1 + 9 * a7 * e2 - 27 * a7 * e4 + 36 * a7 * e5 - 9 * a7 * e6 + 9 * a7 * e7 - 9 * a7 * e8 - 9 * a8 * e0 + 9 * a8 * e1 + 18 * a8 * e4 - 18 * a8 * e5 - 9 * a8 * e7 + 9 * a8 * e8 - 3 * a9 * e0 + 6 * a9 * e1 - 3 * a9 * e2 + 3 * a9 * e4 - 6 * a9 * e5 + 3 * a9 * e6 - 15 * b0 * c0 + 15 * b0 * c1 - 3 * b0 * c2 + 30 * b0 * c4 - 24 * b0 * c5 + 3 * b0 * c6 - 18 * b0 * c7 + 9 * b0 * c8 + 3 * b0 * c9 + 15 * b1 * c0 - 9 * b1 * c1 - 36 * b1 * c4 + 18 * b1 * c5 + 27 * b1 * c7 - 9 * b1 * c8 - 6 * b1 * c9 - 3 * b2 * c0 + 9 * b2 * c4 - 9 * b2 * c7 + 3 * b2 * c9 + 30 * b4 * c0 - 36 * b4 * c1 + 9 * b4 * c2 - 54 * b4 * c4 + 54 * b4 * c5 - 9 * b4 * c6 + 27 * b4 * c7 - 18 * b4 * c8 - 3 * b4 * c9 - 24 * b5 * c0 + 18 * b5 * c1 + 54 * b5 * c4 - 36 * b5 * c5 - 36 * b5 * c7 + 18 * b5 * c8 + 6 * b5 * c9 + 3 * b6 * c0 - 9 * b6 * c4 + 9 * b6 * c7 - 3 * b6 * c9 - 18 * b7 * c0 + 27 * b7 * c1 - 9 * b7 * c2 + 27 * b7 * c4 - 36 * b7 * c5 + 9 * b7 * c6 - 9 * b7 * c7 + 9 * b7 * c8 + 9 * b8 * c0 - 9 * b8 * c1 - 18 * b8 * c4 + 18 * b8 * c5 + 9 * b8 * c7 - 9 * b8 * c8 + 3 * b9 * c0 - 6 * b9 * c1 + 3 * b9 * c2 - 3 * b9 * c4 + 6 * b9 * c5 - 3 * b9 * c6) * triMonomialIntegral K 2 4 +
      (-20 * a0 * e0 + 30 * a0 * e1 - 12 * a0 * e2 + a0 * e3 + 30 * a1 * e0 - 36 * a1 * e1 + 9 * a1 * e2 - 12 * a2 * e0 + 9 * a2 * e1 + a3 * e0 + 20 * b0 * c0 - 30 * b0 * c1 + 12 * b0 * c2 - b0 * c3 - 30 * b1 * c0 + 36 * b1 * c1 - 9 * b1 * c2 + 12 * b2 * c0 - 9 * b2 * c1 - b3 * c0) * triMonomialIntegral K 3 0 +
      (60 * a0 * e0 - 90 * a0 * e1 + 36 * a0 * e2 - 3 * a0 * e3 - 30 * a0 * e4 + 36 * a0 * e5 - 9 * a0 * e6 - 90 * a1 * e0 + 108 * a1 * e1 - 27 * a1 * e2 + 54 * a1 * e4 - 54 * a1 * e5 + 9 * a1 * e6 + 36 * a2 * e0 - 27 * a2 * e1 - 27 * a2 * e4 + 18 * a2 * e5 - 3 * a3 * e0 + 3 * a3 * e4 - 30 * a4 * e0 + 54 * a4 * e1 - 27 * a4 * e2 + 3 * a4 * e3 + 36 * a5 * e0 - 54 * a5 * e1 + 18 * a5 * e2 - 9 * a6 * e0 + 9 * a6 * e1 - 60 * b0 * c0 + 90 * b0 * c1 - 36 * b0 * c2 + 3 * b0 * c3 + 30 * b0 * c4 - 36 * b0 * c5 + 9 * b0 * c6 + 90 * b1 * c0 - 108 * b1 * c1 + 27 * b1 * c2 - 54 * b1 * c4 + 54 * b1 * c5 - 9 * b1 * c6 - 36 * b2 * c0 + 27 * b2 * c1 + 27 * b2 * c4 - 18 * b2 * c5 + 3 * b3 * c0 - 3 * b3 * c4 + 30 * b4 * c0 - 54 * b4 * c1 + 27 * b4 * c2 - 3 * b4 * c3 - 36 * b5 * c0 + 54 * b5 * c1 - 18 * b5 * c2 + 9 * b6 * c0 - 9 * b6 * c1) * triMonomialIntegral K 3 1 +
      (-60 * a0 * e0 + 90 * a0 * e1 - 36 * a0 * e2 + 3 * a0 * e3 + 60 * a0 * e4 - 72 * a0 * e5 + 18 * a0 * e6 - 12 * a0 * e7 + 9 * a0 * e8 + 90 * a1 * e0 - 108 * a1 * e1 + 27 * a1 * e2 - 108 * a1 * e4 + 108 * a1 * e5 - 18 * a1 * e6 + 27 * a1 * e7 - 18 * a1 * e8 - 36 * a2 * e0 + 27 * a2 * e1 + 54 * a2 * e4 - 36 * a2 * e5 - 18 * a2 * e7 + 9 * a2 * e8 + 3 * a3 * e0 - 6 * a3 * e4 + 3 * a3 * e7 + 60 * a4 * e0 - 108 * a4 * e1 + 54 * a4 * e2 - 6 * a4 * e3 - 36 * a4 * e4 + 54 * a4 * e5 - 18 * a4 * e6 - 72 * a5 * e0 + 108 * a5 * e1 - 36 * a5 * e2 + 54 * a5 * e4 - 72 * a5 * e5 + 18 * a5 * e6 + 18 * a6 * e0 - 18 * a6 * e1 - 18 * a6 * e4 + 18 * a6 * e5 - 12 * a7 * e0 + 27 * a7 * e1 - 18 * a7 * e2 + 3 * a7 * e3 + 9 * a8 * e0 - 18 * a8 * e1 + 9 * a8 * e2 + 60 * b0 * c0 - 90 * b0 * c1 + 36 * b0 * c2 - 3 * b0 * c3 - 60 * b0 * c4 + 72 * b0 * c5 - 18 * b0 * c6 + 12 * b0 * c7 - 9 * b0 * c8 - 90 * b1 * c0 + 108 * b1 * c1 - 27 * b1 * c2 + 108 * b1 * c4 - 108 * b1 * c5 + 18 * b1 * c6 - 27 * b1 * c7 + 18 * b1 * c8 + 36 * b2 * c0 - 27 * b2 * c1 - 54 * b2 * c4 + 36 * b2 * c5 + 18 * b2 * c7 - 9 * b2 * c8 - 3 * b3 * c0 + 6 * b3 * c4 - 3 * b3 * c7 - 60 * b4 * c0 + 108 * b4 * c1 - 54 * b4 * c2 + 6 * b4 * c3 + 36 * b4 * c4 - 54 * b4 * c5 + 18 * b4 * c6 + 72 * b5 * c0 - 108 * b5 * c1 + 36 * b5 * c2 - 54 * b5 * c4 + 72 * b5 * c5 - 18 * b5 * c6 - 18 * b6 * c0 + 18 * b6 * c1 + 18 * b6 * c4 - 18 * b6 * c5 + 12 * b7 * c0 - 27 * b7 * c1 + 18 * b7 * c2 - 3 * b7 * c3 - 9 * b8 * c0 + 18 * b8 * c1 - 9 * b8 * c2) * triMonomialIntegral K 3 2 +
      (20 * a0 * e0 - 30 * a0 * e1 + 12 * a0 * e2 - a0 * e3 - 30 * a0 * e4 + 36 * a0 * e5 - 9 * a0 * e6 + 12 * a0 * e7 - 9 * a0 * e8 - a0 * e9 - 30 * a1 * e0 + 36 * a1 * e1 - 9 * a1 * e2 + 54 * a1 * e4 - 54 * a1 * e5 + 9 * a1 * e6 - 27 * a1 * e7 + 18 * a1 * e8 + 3 * a1 * e9 + 12 * a2 * e0 - 9 * a2 * e1 - 27 * a2 * e4 + 18 * a2 * e5 + 18 * a2 * e7 - 9 * a2 * e8 - 3 * a2 * e9 - a3 * e0 + 3 * a3 * e4 - 3 * a3 * e7 + a3 * e9 - 30 * a4 * e0 + 54 * a4 * e1 - 27 * a4 * e2 + 3 * a4 * e3 + 36 * a4 * e4 - 54 * a4 * e5 + 18 * a4 * e6 - 9 * a4 * e7 + 9 * a4 * e8 + 36 * a5 * e0 - 54 * a5 * e1 + 18 * a5 * e2 - 54 * a5 * e4 + 72 * a5 * e5 - 18 * a5 * e6 + 18 * a5 * e7 - 18 * a5 * e8 - 9 * a6 * e0 + 9 * a6 * e1 + 18 * a6 * e4 - 18 * a6 * e5 - 9 * a6 * e7 + 9 * a6 * e8 + 12 * a7 * e0 - 27 * a7 * e1 + 18 * a7 * e2 - 3 * a7 * e3 - 9 * a7 * e4 + 18 * a7 * e5 - 9 * a7 * e6 - 9 * a8 * e0 + 18 * a8 * e1 - 9 * a8 * e2 + 9 * a8 * e4 - 18 * a8 * e5 + 9 * a8 * e6 - a9 * e0 + 3 * a9 * e1 - 3 * a9 * e2 + a9 * e3 - 20 * b0 * c0 + 30 * b0 * c1 - 12 * b0 * c2 + b0 * c3 + 30 * b0 * c4 - 36 * b0 * c5 + 9 * b0 * c6 - 12 * b0 * c7 + 9 * b0 * c8 + b0 * c9 + 30 * b1 * c0 - 36 * b1 * c1 + 9 * b1 * c2 - 54 * b1 * c4 + 54 * b1 * c5 - 9 * b1 * c6 + 27 * b1 * c7 - 18 * b1 * c8 - 3 * b1 * c9 - 12 * b2 * c0 + 9 * b2 * c1 + 27 * b2 * c4 - 18 * b2 * c5 - 18 * b2 * c7 + 9 * b2 * c8 + 3 * b2 * c9 + b3 * c0 - 3 * b3 * c4 + 3 * b3 * c7 - b3 * c9 + 30 * b4 * c0 - 54 * b4 * c1 + 27 * b4 * c2 - 3 * b4 * c3 - 36 * b4 * c4 + 54 * b4 * c5 - 18 * b4 * c6 + 9 * b4 * c7 - 9 * b4 * c8 - 36 * b5 * c0 + 54 * b5 * c1 - 18 * b5 * c2 + 54 * b5 * c4 - 72 * b5 * c5 + 18 * b5 * c6 - 18 * b5 * c7 + 18 * b5 * c8 + 9 * b6 * c0 - 9 * b6 * c1 - 18 * b6 * c4 + 18 * b6 * c5 + 9 * b6 * c7 - 9 * b6 * c8 - 12 * b7 * c0 + 27 * b7 * c1 - 18 * b7 * c2 + 3 * b7 * c3 + 9 * b7 * c4 - 18 * b7 * c5 + 9 * b7 * c6 + 9 * b8 * c0 - 18 * b8 * c1 + 9 * b8 * c2 - 9 * b8 * c4 + 18 * b8 * c5 - 9 * b8 * c6 + b9 * c0 - 3 * b9 * c1 + 3 * b9 * c2 - b9 * c3) * triMonomialIntegral K 3 3 +
      (15 * a0 * e0 - 30 * a0 * e1 + 18 * a0 * e2 - 3 * a0 * e3 - 30 * a1 * e0 + 54 * a1 * e1 - 27 * a1 * e2 + 3 * a1 * e3 + 18 * a2 * e0 - 27 * a2 * e1 + 9 * a2 * e2 - 3 * a3 * e0 + 3 * a3 * e1 - 15 * b0 * c0 + 30 * b0 * c1 - 18 * b0 * c2 + 3 * b0 * c3 + 30 * b1 * c0 - 54 * b1 * c1 + 27 * b1 * c2 - 3 * b1 * c3 - 18 * b2 * c0 + 27 * b2 * c1 - 9 * b2 * c2 + 3 * b3 * c0 - 3 * b3 * c1) * triMonomialIntegral K 4 0 +
      (-30 * a0 * e0 + 60 * a0 * e1 - 36 * a0 * e2 + 6 * a0 * e3 + 15 * a0 * e4 - 24 * a0 * e5 + 9 * a0 * e6 + 60 * a1 * e0 - 108 * a1 * e1 + 54 * a1 * e2 - 6 * a1 * e3 - 36 * a1 * e4 + 54 * a1 * e5 - 18 * a1 * e6 - 36 * a2 * e0 + 54 * a2 * e1 - 18 * a2 * e2 + 27 * a2 * e4 - 36 * a2 * e5 + 9 * a2 * e6 + 6 * a3 * e0 - 6 * a3 * e1 - 6 * a3 * e4 + 6 * a3 * e5 + 15 * a4 * e0 - 36 * a4 * e1 + 27 * a4 * e2 - 6 * a4 * e3 - 24 * a5 * e0 + 54 * a5 * e1 - 36 * a5 * e2 + 6 * a5 * e3 + 9 * a6 * e0 - 18 * a6 * e1 + 9 * a6 * e2 + 30 * b0 * c0 - 60 * b0 * c1 + 36 * b0 * c2 - 6 * b0 * c3 - 15 * b0 * c4 + 24 * b0 * c5 - 9 * b0 * c6 - 60 * b1 * c0 + 108 * b1 * c1 - 54 * b1 * c2 + 6 * b1 * c3 + 36 * b1 * c4 - 54 * b1 * c5 + 18 * b1 * c6 + 36 * b2 * c0 - 54 * b2 * c1 + 18 * b2 * c2 - 27 * b2 * c4 + 36 * b2 * c5 - 9 * b2 * c6 - 6 * b3 * c0 + 6 * b3 * c1 + 6 * b3 * c4 - 6 * b3 * c5 - 15 * b4 * c0 + 36 * b4 * c1 - 27 * b4 * c2 + 6 * b4 * c3 + 24 * b5 * c0 - 54 * b5 * c1 + 36 * b5 * c2 - 6 * b5 * c3 - 9 * b6 * c0 + 18 * b6 * c1 - 9 * b6 * c2) * triMonomialIntegral K 4 1 +
      (15 * a0 * e0 - 30 * a0 * e1 + 18 * a0 * e2 - 3 * a0 * e3 - 15 * a0 * e4 + 24 * a0 * e5 - 9 * a0 * e6 + 3 * a0 * e7 - 3 * a0 * e8 - 30 * a1 * e0 + 54 * a1 * e1 - 27 * a1 * e2 + 3 * a1 * e3 + 36 * a1 * e4 - 54 * a1 * e5 + 18 * a1 * e6 - 9 * a1 * e7 + 9 * a1 * e8 + 18 * a2 * e0 - 27 * a2 * e1 + 9 * a2 * e2 - 27 * a2 * e4 + 36 * a2 * e5 - 9 * a2 * e6 + 9 * a2 * e7 - 9 * a2 * e8 - 3 * a3 * e0 + 3 * a3 * e1 + 6 * a3 * e4 - 6 * a3 * e5 - 3 * a3 * e7 + 3 * a3 * e8 - 15 * a4 * e0 + 36 * a4 * e1 - 27 * a4 * e2 + 6 * a4 * e3 + 9 * a4 * e4 - 18 * a4 * e5 + 9 * a4 * e6 + 24 * a5 * e0 - 54 * a5 * e1 + 36 * a5 * e2 - 6 * a5 * e3 - 18 * a5 * e4 + 36 * a5 * e5 - 18 * a5 * e6 - 9 * a6 * e0 + 18 * a6 * e1 - 9 * a6 * e2 + 9 * a6 * e4 - 18 * a6 * e5 + 9 * a6 * e6 + 3 * a7 * e0 - 9 * a7 * e1 + 9 * a7 * e2 - 3 * a7 * e3 - 3 * a8 * e0 + 9 * a8 * e1 - 9 * a8 * e2 + 3 * a8 * e3 - 15 * b0 * c0 + 30 * b0 * c1 - 18 * b0 * c2 + 3 * b0 * c3 + 15 * b0 * c4 - 24 * b0 * c5 + 9 * b0 * c6 - 3 * b0 * c7 + 3 * b0 * c8 + 30 * b1 * c0 - 54 * b1 * c1 + 27 * b1 * c2 - 3 * b1 * c3 - 36 * b1 * c4 + 54 * b1 * c5 - 18 * b1 * c6 + 9 * b1 * c7 - 9 * b1 * c8 - 18 * b2 * c0 + 27 * b2 * c1 - 9 * b2 * c2 + 27 * b2 * c4 - 36 * b2 * c5 + 9 * b2 * c6 - 9 * b2 * c7 + 9 * b2 * c8 + 3 * b3 * c0 - 3 * b3 * c1 - 6 * b3 * c4 + 6 * b3 * c5 + 3 * b3 * c7 - 3 * b3 * c8 + 15 * b4 * c0 - 36 * b4 * c1 + 27 * b4 * c2 - 6 * b4 * c3 - 9 * b4 * c4 + 18 * b4 * c5 - 9 * b4 * c6 - 24 * b5 * c0 + 54 * b5 * c1 - 36 * b5 * c2 + 6 * b5 * c3 + 18 * b5 * c4 - 36 * b5 * c5 + 18 * b5 * c6 + 9 * b6 * c0 - 18 * b6 * c1 + 9 * b6 * c2 - 9 * b6 * c4 + 18 * b6 * c5 - 9 * b6 * c6 - 3 * b7 * c0 + 9 * b7 * c1 - 9 * b7 * c2 + 3 * b7 * c3 + 3 * b8 * c0 - 9 * b8 * c1 + 9 * b8 * c2 - 3 * b8 * c3) * triMonomialIntegral K 4 2 +
      (-6 * a0 * e0 + 15 * a0 * e1 - 12 * a0 * e2 + 3 * a0 * e3 + 15 * a1 * e0 - 36 * a1 * e1 + 27 * a1 * e2 - 6 * a1 * e3 - 12 * a2 * e0 + 27 * a2 * e1 - 18 * a2 * e2 + 3 * a2 * e3 + 3 * a3 * e0 - 6 * a3 * e1 + 3 * a3 * e2 + 6 * b0 * c0 - 15 * b0 * c1 + 12 * b0 * c2 - 3 * b0 * c3 - 15 * b1 * c0 + 36 * b1 * c1 - 27 * b1 * c2 + 6 * b1 * c3 + 12 * b2 * c0 - 27 * b2 * c1 + 18 * b2 * c2 - 3 * b2 * c3 - 3 * b3 * c0 + 6 * b3 * c1 - 3 * b3 * c2) * triMonomialIntegral K 5 0 +
      (6 * a0 * e0 - 15 * a0 * e1 + 12 * a0 * e2 - 3 * a0 * e3 - 3 * a0 * e4 + 6 * a0 * e5 - 3 * a0 * e6 - 15 * a1 * e0 + 36 * a1 * e1 - 27 * a1 * e2 + 6 * a1 * e3 + 9 * a1 * e4 - 18 * a1 * e5 + 9 * a1 * e6 + 12 * a2 * e0 - 27 * a2 * e1 + 18 * a2 * e2 - 3 * a2 * e3 - 9 * a2 * e4 + 18 * a2 * e5 - 9 * a2 * e6 - 3 * a3 * e0 + 6 * a3 * e1 - 3 * a3 * e2 + 3 * a3 * e4 - 6 * a3 * e5 + 3 * a3 * e6 - 3 * a4 * e0 + 9 * a4 * e1 - 9 * a4 * e2 + 3 * a4 * e3 + 6 * a5 * e0 - 18 * a5 * e1 + 18 * a5 * e2 - 6 * a5 * e3 - 3 * a6 * e0 + 9 * a6 * e1 - 9 * a6 * e2 + 3 * a6 * e3 - 6 * b0 * c0 + 15 * b0 * c1 - 12 * b0 * c2 + 3 * b0 * c3 + 3 * b0 * c4 - 6 * b0 * c5 + 3 * b0 * c6 + 15 * b1 * c0 - 36 * b1 * c1 + 27 * b1 * c2 - 6 * b1 * c3 - 9 * b1 * c4 + 18 * b1 * c5 - 9 * b1 * c6 - 12 * b2 * c0 + 27 * b2 * c1 - 18 * b2 * c2 + 3 * b2 * c3 + 9 * b2 * c4 - 18 * b2 * c5 + 9 * b2 * c6 + 3 * b3 * c0 - 6 * b3 * c1 + 3 * b3 * c2 - 3 * b3 * c4 + 6 * b3 * c5 - 3 * b3 * c6 + 3 * b4 * c0 - 9 * b4 * c1 + 9 * b4 * c2 - 3 * b4 * c3 - 6 * b5 * c0 + 18 * b5 * c1 - 18 * b5 * c2 + 6 * b5 * c3 + 3 * b6 * c0 - 9 * b6 * c1 + 9 * b6 * c2 - 3 * b6 * c3) * triMonomialIntegral K 5 1 +
      (a0 * e0 - 3 * a0 * e1 + 3 * a0 * e2 - a0 * e3 - 3 * a1 * e0 + 9 * a1 * e1 - 9 * a1 * e2 + 3 * a1 * e3 + 3 * a2 * e0 - 9 * a2 * e1 + 9 * a2 * e2 - 3 * a2 * e3 - a3 * e0 + 3 * a3 * e1 - 3 * a3 * e2 + a3 * e3 - b0 * c0 + 3 * b0 * c1 - 3 * b0 * c2 + b0 * c3 + 3 * b1 * c0 - 9 * b1 * c1 + 9 * b1 * c2 - 3 * b1 * c3 - 3 * b2 * c0 + 9 * b2 * c1 - 9 * b2 * c2 + 3 * b2 * c3 + b3 * c0 - 3 * b3 * c1 + 3 * b3 * c2 - b3 * c3) * triMonomialIntegral K 6 0 := by
  rw [detPoly_3]
  simp only [map_add, triIntegral_C_mul_X_pow]


theorem detPoly_0 (a0 b0 c0 e0 : K) :
    surfPoly 0 [a0] * surfPoly 0 [e0] - surfPoly 0 [c0] * surfPoly 0 [b0] =
      C (a0 * e0 - b0 * c0) * (X 0 ^ 0 * X 1 ^ 0) := by
  simp only [surfPoly, triBernR, Finset.sum_range_succ, Finset.sum_range_zero, netOf, rowStart, seq,
    map_sub, map_mul]
  simp [Nat.choose]
  ring

theorem triIntegral_det_0 (a0 b0 c0 e0 : K) :
    triIntegral (surfPoly 0 [a0] * surfPoly 0 [e0] - surfPoly 0 [c0] * surfPoly 0 [b0]) =
      (a0 * e0 - b0 * c0) * triMonomialIntegral K 0 0 := by
  rw [detPoly_0, triIntegral_C_mul_X_pow]

/-- the Jacobian determinant `x_s y_t − x_t y_s` as a polynomial in `K[s,t]` -/
noncomputable def jacDetPoly (d : ℕ) (xs ys : List K) : MvPolynomial (Fin 2) K :=
  pderiv 0 (surfPoly d xs) * pderiv 1 (surfPoly d ys) - pderiv 1 (surfPoly d xs) * pderiv 0 (surfPoly d ys)

theorem jacDetPoly_eq (d : ℕ) (hd : 1 ≤ d) (xs ys : List K) :
    jacDetPoly d xs ys = surfPoly (d-1) (jacobianSRow d xs) * surfPoly (d-1) (jacobianTRow d ys)
      - surfPoly (d-1) (jacobianTRow d xs) * surfPoly (d-1) (jacobianSRow d ys) := by
  unfold jacDetPoly
  rw [pderiv_s_surfPoly d hd, pderiv_s_surfPoly d hd, pderiv_t_surfPoly d hd, pderiv_t_surfPoly d hd]


theorem eval_jacDetPoly [CharZero K] [DecidableEq K] (thr d : ℕ) (hd : 1 ≤ d) (xs ys : List K) (s t : K) :
    eval ![s, t] (jacDetPoly d xs ys) = jacobianDet thr d [xs, ys] s t := by
  rw [jacobianDet_eq_pderiv thr d hd]
  unfold jacDetPoly
  simp only [map_sub, map_mul]

end Area

/-! ## closed forms of the curve subdivision on explicit rows (for the area statements) -/

section SubdivExplicit
variable {K : Type} [Field K] [CharZero K]

theorem subdivideRow_2 (a b : K) :
    Py.subdivideRow [a, b] = ([a, (a + b) / 2], [(a + b) / 2, b]) := by
  simp only [Py.subdivideRow, rowMul, ncols, leftMat, rightMat, col, dot,
    leftCol, pascalHalfStep, List.range_succ, List.range_zero, List.length_cons, List.length_nil,
    List.nil_append, List.cons_append, List.map_cons, List.map_nil, List.headD_cons,
    List.zipWith_cons_cons, List.zipWith_nil_right, List.foldl_cons, List.foldl_nil,
    List.getD_cons_zero, List.getD_cons_succ, List.getD_nil, Nat.reduceAdd, Nat.reduceSub,
    Nat.reduceLT, Nat.lt_irrefl, if_true, if_false]
  refine Prod.ext (congrArg₂ _ ?_ (congrArg₂ _ ?_ rfl)) (congrArg₂ _ ?_ (congrArg₂ _ ?_ rfl)) <;>
    ring

theorem subdivideRow_3 (a b c : K) :
    Py.subdivideRow [a, b, c] = ([a, (a + b) / 2, (a + 2 * b + c) / 4], [(a + 2 * b + c) / 4, (b + c) / 2, c]) := by
  simp only [Py.subdivideRow, rowMul, ncols, leftMat, rightMat, col, dot,
    leftCol, pascalHalfStep, List.range_succ, List.range_zero, List.length_cons, List.length_nil,
    List.nil_append, List.cons_append, List.map_cons, List.map_nil, List.headD_cons,
    List.zipWith_cons_cons, List.zipWith_nil_right, List.foldl_cons, List.foldl_nil,
    List.getD_cons_zero, List.getD_cons_succ, List.getD_nil, Nat.reduceAdd, Nat.reduceSub,
    Nat.reduceLT, Nat.lt_irrefl, if_true, if_false]
  refine Prod.ext (congrArg₂ _ ?_ (congrArg₂ _ ?_ (congrArg₂ _ ?_ rfl)))
    (congrArg₂ _ ?_ (congrArg₂ _ ?_ (congrArg₂ _ ?_ rfl))) <;>
    ring

theorem subdivideRow_4 (a b c d : K) :
    Py.subdivideRow [a, b, c, d] =
      ([a, (a + b) / 2, (a + 2 * b + c) / 4, (a + 3 * b + 3 * c + d) / 8],
       [(a + 3 * b + 3 * c + d) / 8, (b + 2 * c + d) / 4, (c + d) / 2, d]) := by
  simp only [Py.subdivideRow, rowMul, ncols, leftMat, rightMat, col, dot,
    leftCol, pascalHalfStep, List.range_succ, List.range_zero, List.length_cons, List.length_nil,
    List.nil_append, List.cons_append, List.map_cons, List.map_nil, List.headD_cons,
    List.zipWith_cons_cons, List.zipWith_nil_right, List.foldl_cons, List.foldl_nil,
    List.getD_cons_zero, List.getD_cons_succ, List.getD_nil, Nat.reduceAdd, Nat.reduceSub,
    Nat.reduceLT, Nat.lt_irrefl, if_true, if_false]
  refine Prod.ext (congrArg₂ _ ?_ (congrArg₂ _ ?_ (congrArg₂ _ ?_ (congrArg₂ _ ?_ rfl))))
    (congrArg₂ _ ?_ (congrArg₂ _ ?_ (congrArg₂ _ ?_ (congrArg₂ _ ?_ rfl)))) <;>
    ring

theorem subdivideRow_5 (a b c d e : K) :
    Py.subdivideRow [a, b, c, d, e] =
      ([a, (a + b) / 2, (a + 2 * b + c) / 4, (a + 3 * b + 3 * c + d) / 8, (a + 4 * b + 6 * c + 4 * d + e) / 16],
       [(a + 4 * b + 6 * c + 4 * d + e) / 16, (b + 3 * c + 3 * d + e) / 8, (c + 2 * d + e) / 4, (d + e) / 2, e]) := by
  simp only [Py.subdivideRow, rowMul, ncols, leftMat, rightMat, col, dot,
    leftCol, pascalHalfStep, List.range_succ, List.range_zero, List.length_cons, List.length_nil,
    List.nil_append, List.cons_append, List.map_cons, List.map_nil, List.headD_cons,
    List.zipWith_cons_cons, List.zipWith_nil_right, List.foldl_cons, List.foldl_nil,
    List.getD_cons_zero, List.getD_cons_succ, List.getD_nil, Nat.reduceAdd, Nat.reduceSub,
    Nat.reduceLT, Nat.lt_irrefl, if_true, if_false]
  refine Prod.ext (congrArg₂ _ ?_ (congrArg₂ _ ?_ (congrArg₂ _ ?_ (congrArg₂ _ ?_ (congrArg₂ _ ?_ rfl)))))
    (congrArg₂ _ ?_ (congrArg₂ _ ?_ (congrArg₂ _ ?_ (congrArg₂ _ ?_ (congrArg₂ _ ?_ rfl))))) <;>
    ring

end SubdivExplicit

end BezierVerif.TriD
