import BezierVerif.Lemmas.Triangle
import BezierVerif.Lemmas.Rounding

/-!
# Lemmas/TriRounding — `evaluate_barycentric` executed in a rounded arithmetic

The (unchanged) model `Py.triLoop` is instantiated at `K := Fl F fl` (every operation followed by
the rounding `fl`, Lemmas/Rounding).  Per iteration the accumulator gains two roundings
(`result * λ₃`, the sum) on top of the `2n+2` of the curve routine on the row and the one of
`binom_val * col_result`, so after `t` iterations the error is at most
`((1+u)^(2t+4) - 1)` times the same loop run on absolute values.
-/

set_option linter.unusedSectionVars false
set_option linter.unusedVariables false

namespace BezierVerif.Tri

open Finset Model BezierVerif

section
variable {F : Type} [Field F] [LinearOrder F] [IsStrictOrderedRing F]

/-- the running binomial of the row loop is computed without rounding: `fl` is the identity on
    the products `C(d,k+1)·(k+1)` and on the quotients `C(d,k)` that occur -/
def TriBinomExact (fl : F → F) (d : ℕ) : Prop :=
  ∀ k, k < d →
    fl ((d.choose (k+1) : F) * ((k + 1 : ℕ) : F)) = (d.choose (k+1) : F) * ((k + 1 : ℕ) : F) ∧
    fl ((d.choose k : ℕ) : F) = ((d.choose k : ℕ) : F)

/-- weights injected exactly -/
def mkBary (fl : F → F) (w : Bary F) : Bary (Fl F fl) := ⟨⟨w.l1⟩, ⟨w.l2⟩, ⟨w.l3⟩⟩

def absBary (w : Bary F) : Bary F := ⟨|w.l1|, |w.l2|, |w.l3|⟩

theorem triLoop_fl_binom (fl : F → F) (thr d : ℕ) (hbin : TriBinomExact fl d) (row : List (Fl F fl))
    (W : Bary (Fl F fl)) : ∀ t, t ≤ d →
    (Py.triLoop thr d row W t).binom.val = ((d.choose (d - t) : ℕ) : F) := by
  intro t
  induction t with
  | zero => intro _; simp [Py.triLoop]
  | succ t ih =>
    intro ht
    have hb := ih (by omega)
    have hk : d - 1 - t < d := by omega
    obtain ⟨e1, e2⟩ := hbin (d - 1 - t) hk
    have e : d - t = (d - 1 - t) + 1 := by omega
    have e' : d - (t + 1) = d - 1 - t := by omega
    show fl (fl ((Py.triLoop thr d row W t).binom.val * ((d - 1 - t + 1 : ℕ) : F)) / ((d - (d - 1 - t) : ℕ) : F)) = _
    rw [hb, e, e1, choose_step d (d - 1 - t) hk, e2, e']

/-- **the row loop in rounded arithmetic** against the exact run of the same loop, relative to
    the same loop on absolute values -/
theorem triLoop_rounding (fl : F → F) (u : F) (hu : 0 ≤ u) (hfl : ∀ x, |fl x - x| ≤ u * |x|)
    (thr d : ℕ) (hbin : TriBinomExact fl d)
    (hrows : ∀ n, 1 ≤ n → n ≤ d → n + 1 ≤ thr → VSBinomExact fl n)
    (row : List F) (hlen : row.length = rowStart d (d+1)) (w : Bary F) : ∀ t, t ≤ d →
    |(Py.triLoop thr d (row.map Fl.mk) (mkBary fl w) t).result.val - (Py.triLoop thr d row w t).result|
        ≤ ((1+u)^(2*t+4) - 1) * (Py.triLoop thr d (row.map (|·|)) (absBary w) t).result ∧
    |(Py.triLoop thr d row w t).result| ≤ (Py.triLoop thr d (row.map (|·|)) (absBary w) t).result := by
  have hlenA : (row.map (|·|)).length = rowStart d (d+1) := by rw [List.length_map, hlen]
  have hlenM : (row.map (Fl.mk (fl := fl))).length = rowStart d (d+1) := by rw [List.length_map, hlen]
  intro t
  induction t with
  | zero =>
    intro _
    simp only [Py.triLoop, List.length_map]
    have hv : (seq (row.map (Fl.mk (fl := fl))) (row.length - 1)).val = seq row (row.length - 1) :=
      seq_map_mk fl row _
    have ha : seq (row.map (|·|)) (row.length - 1) = |seq row (row.length - 1)| := seq_map_abs row _
    simp only [Fl.add_val, Fl.zero_val, zero_add, hv, ha]
    refine ⟨?_, le_refl _⟩
    have h1 := hfl (seq row (row.length - 1))
    have h2 : u ≤ (1+u)^(2*0+4) - 1 := by
      have : (1+u)^1 - 1 ≤ (1+u)^(2*0+4) - 1 := pow_sub_one_mono u hu (by omega)
      simpa using this
    calc |fl (seq row (row.length - 1)) - seq row (row.length - 1)| ≤ u * |seq row (row.length - 1)| := h1
      _ ≤ ((1+u)^(2*0+4) - 1) * |seq row (row.length - 1)| :=
        mul_le_mul_of_nonneg_right h2 (abs_nonneg _)
  | succ t ih =>
    intro ht
    obtain ⟨herr, hmag⟩ := ih (by omega)
    have hk : d - 1 - t < d := by omega
    set k := d - 1 - t with hkdef
    have e : d - t = k + 1 := by omega
    -- exact runs
    obtain ⟨xi, xb, _⟩ := Py_triLoop_inv thr d row w hlen t (by omega)
    obtain ⟨ai, ab, _⟩ := Py_triLoop_inv thr d (row.map (|·|)) (absBary w) hlenA t (by omega)
    rw [e] at xi xb ai ab
    obtain ⟨_, _, xr⟩ := Py_triStep_spec thr d k row w (Py.triLoop thr d row w t) hk hlen xi xb
    obtain ⟨_, _, ar⟩ := Py_triStep_spec thr d k (row.map (|·|)) (absBary w)
      (Py.triLoop thr d (row.map (|·|)) (absBary w) t) hk hlenA ai ab
    have hx : (Py.triLoop thr d row w (t+1)).result
        = (Py.triLoop thr d row w t).result * w.l3 + (d.choose k : F) * bern (d - k) w.l1 w.l2 (netRow d row k) := xr
    have hA : (Py.triLoop thr d (row.map (|·|)) (absBary w) (t+1)).result
        = (Py.triLoop thr d (row.map (|·|)) (absBary w) t).result * |w.l3|
          + (d.choose k : F) * bern (d - k) |w.l1| |w.l2| (netRow d (row.map (|·|)) k) := ar
    -- rounded run
    have mi := Py_triLoop_index thr d (row.map (Fl.mk (fl := fl))) (mkBary fl w) hlenM t (by omega)
    rw [e] at mi
    have hrs : rowStart d (k+1) = rowStart d k + (d + 1 - k) := rfl
    have i1 : rowStart d (k+1) - 1 + k - d = rowStart d k := by rw [hrs]; omega
    have i2 : rowStart d (k+1) - 1 = rowStart d k + (d - k) := by rw [hrs]; omega
    have mb := triLoop_fl_binom fl thr d hbin (row.map Fl.mk) (mkBary fl w) (t+1) ht
    have e' : d - (t + 1) = k := by omega
    rw [e'] at mb
    set sl := triSlice row (rowStart d k) (rowStart d k + (d - k)) with hsl
    have hin := rowStart_add_le d k (by omega)
    have hsll : sl.length = d - k + 1 := by rw [hsl, slice_length _ _ _ (by omega)]; omega
    have hslice : triSlice (row.map (Fl.mk (fl := fl))) (rowStart d k) (rowStart d k + (d - k)) = sl.map Fl.mk := by
      rw [hsl]; unfold triSlice; rw [List.map_take, List.map_drop]
    have hm0 : (Py.triLoop thr d (row.map Fl.mk) (mkBary fl w) (t+1)).result
        = (Py.triLoop thr d (row.map Fl.mk) (mkBary fl w) t).result * (mkBary fl w).l3
          + (Py.triLoop thr d (row.map Fl.mk) (mkBary fl w) (t+1)).binom
            * evalBary thr (triSlice (row.map Fl.mk)
                ((Py.triLoop thr d (row.map Fl.mk) (mkBary fl w) t).index - 1 + k - d)
                ((Py.triLoop thr d (row.map Fl.mk) (mkBary fl w) t).index - 1))
              (mkBary fl w).l1 (mkBary fl w).l2 := rfl
    rw [mi, i1, i2, hslice] at hm0
    have hm : (Py.triLoop thr d (row.map Fl.mk) (mkBary fl w) (t+1)).result.val
        = fl (fl ((Py.triLoop thr d (row.map Fl.mk) (mkBary fl w) t).result.val * w.l3)
            + fl ((d.choose k : F) * (evalBary thr (sl.map Fl.mk) (⟨w.l1⟩ : Fl F fl) ⟨w.l2⟩).val)) := by
      rw [hm0, Fl.add_val, Fl.mul_val, Fl.mul_val, mb]
      rfl
    -- the curve routine on the row
    have hcol := bary_rounding_bern fl u hu hfl thr sl (by omega)
      (fun hle => hrows (sl.length - 1) (by omega) (by omega) (by omega)) w.l1 w.l2
    rw [hsll] at hcol
    simp only [Nat.add_sub_cancel] at hcol
    have hc1 : bern (d - k) w.l1 w.l2 (seq sl) = bern (d - k) w.l1 w.l2 (netRow d row k) :=
      bern_congr' _ _ _ _ _ (fun j hj => seq_slice row _ _ j (by omega))
    have hc2 : bern (d - k) |w.l1| |w.l2| (fun j => |seq sl j|)
        = bern (d - k) |w.l1| |w.l2| (netRow d (row.map (|·|)) k) := by
      apply bern_congr'
      intro j hj
      simp only [netRow]
      rw [seq_map_abs, seq_slice row _ _ j (by omega)]
    rw [hc1, hc2] at hcol
    have hdk : 2 * (d - k) + 2 = 2 * t + 4 := by omega
    rw [hdk] at hcol
    have hcolmag : |bern (d - k) w.l1 w.l2 (netRow d row k)|
        ≤ bern (d - k) |w.l1| |w.l2| (netRow d (row.map (|·|)) k) := by
      rw [← hc2, ← hc1]; exact abs_bern_le _ _ _ _
    -- assemble
    obtain ⟨p1, p1m⟩ := fl_mul_exact fl u hu hfl (2*t+4) _ _ _ w.l3 herr hmag
    obtain ⟨p2, p2m⟩ := fl_exact_mul fl u hu hfl (2*t+4) _ _ _ (d.choose k : F) hcol hcolmag
    obtain ⟨p3, p3m⟩ := fl_add fl u hu hfl (2*t+4+1) _ _ _ _ _ _ p1 p1m p2 p2m
    have hC : |(d.choose k : F)| = (d.choose k : F) := abs_of_nonneg (Nat.cast_nonneg _)
    rw [hC] at p3 p3m
    have hexp : 2 * t + 4 + 1 + 1 = 2 * (t + 1) + 4 := by omega
    rw [hexp] at p3
    rw [hm, hx, hA]
    exact ⟨p3, p3m⟩

end

end BezierVerif.Tri
