import BezierVerif.Lemmas.TriRounding
import BezierVerif.Lemmas.RoundingTables

/-!
# Lemmas/TriRoundingTables — discharging the binomial hypotheses of the triangle rounding theorem

The products formed by the row loop of `evaluate_barycentric`, `C(d,k+1)·(k+1) = C(d,k)·(d-k)`, and
its quotients `C(d,k)` are the numbers of the VS loop of degree `d`; `Tables/C01.lean` decides that
they have an odd part `< 2^53` for every degree below the extracted switch.
-/

set_option linter.unusedSectionVars false

namespace BezierVerif.Tri

open Finset Model BezierVerif BezierVerif.Generated

section
variable {F : Type} [Field F] [LinearOrder F] [IsStrictOrderedRing F]

theorem triBinomExact_of_table (fl : F → F) (hrep : Rep53Exact fl) (d : ℕ)
    (h : Tables.C01.vsBinomialsExact d = true) : TriBinomExact fl d := by
  intro k hk
  unfold Tables.C01.vsBinomialsExact at h
  rw [List.all_eq_true] at h
  have hk' := h k (List.mem_range.mpr hk)
  rw [Bool.and_eq_true, Tables.C01.choose_eq, Tables.C01.choose_eq] at hk'
  constructor
  · have hid : d.choose (k+1) * (k+1) = d.choose k * (d - k) := Nat.choose_succ_right_eq d k
    rw [← Nat.cast_mul, hid]
    exact hrep _ hk'.1
  · cases k with
    | zero =>
      have : Tables.C01.rep53 1 = true := by decide
      simpa using hrep 1 this
    | succ k =>
      have hk2 := h k (List.mem_range.mpr (by omega))
      rw [Bool.and_eq_true, Tables.C01.choose_eq, Tables.C01.choose_eq] at hk2
      exact hrep _ hk2.2

theorem triBinomExact_below (fl : F → F) (hrep : Rep53Exact fl) (thr : ℕ)
    (hthr : (List.range thr).all Tables.C01.vsBinomialsExact = true) (d : ℕ) (hd : d < thr) :
    TriBinomExact fl d := by
  rw [List.all_eq_true] at hthr
  exact triBinomExact_of_table fl hrep d (hthr d (List.mem_range.mpr hd))

end

end BezierVerif.Tri
