import BezierVerif.Lemmas.Triangle

/-!
# Lemmas/TriSpecialize — `de_casteljau_one_round` on flat rows is the operator `T3`; the Fortran
# workspace algorithm and the Python dictionary algorithm of `specialize_triangle` compute blossoms
-/

set_option linter.unusedSectionVars false
set_option linter.unusedVariables false

namespace BezierVerif.Tri

open Finset Model

theorem getD_append_lt {α : Type} (l1 l2 : List α) (d : α) (i : ℕ) (h : i < l1.length) :
    (l1 ++ l2).getD i d = l1.getD i d := by
  rw [List.getD_eq_getElem?_getD, List.getD_eq_getElem?_getD, List.getElem?_append_left h]

theorem getD_append_ge {α : Type} (l1 l2 : List α) (d : α) (i : ℕ) :
    (l1 ++ l2).getD (l1.length + i) d = l2.getD i d := by
  rw [List.getD_eq_getElem?_getD, List.getD_eq_getElem?_getD, List.getElem?_append_right (by omega)]
  simp

section Round
variable {K : Type} [Add K] [Sub K] [Mul K] [Div K] [Neg K] [OfNat K 0] [OfNat K 1] [NatCast K]

theorem dcInner3_length (w : Bary K) (v : ℕ → K) : ∀ cnt p1 p2 p3,
    (dcInner3 w v cnt p1 p2 p3).length = cnt := by
  intro cnt
  induction cnt with
  | zero => intro _ _ _; rfl
  | succ cnt ih => intro p1 p2 p3; simp [dcInner3, ih]

theorem seq_dcInner3 (w : Bary K) (v : ℕ → K) : ∀ cnt p1 p2 p3 j, j < cnt →
    seq (dcInner3 w v cnt p1 p2 p3) j = w.l1 * v (p1 + j) + w.l2 * v (p2 + j) + w.l3 * v (p3 + j) := by
  intro cnt
  induction cnt with
  | zero => intro _ _ _ j hj; omega
  | succ cnt ih =>
    intro p1 p2 p3 j hj
    cases j with
    | zero => simp [dcInner3, seq]
    | succ j =>
      have := ih (p1+1) (p2+1) (p3+1) j (by omega)
      simp only [seq] at this ⊢
      simp only [dcInner3, List.getD_cons_succ]
      rw [this]
      have e1 : p1 + 1 + j = p1 + (j + 1) := by omega
      have e2 : p2 + 1 + j = p2 + (j + 1) := by omega
      have e3 : p3 + 1 + j = p3 + (j + 1) := by omega
      rw [e1, e2, e3]

/-- number of outputs of the rows `k, …, k+m-1` of the outer loop -/
def outOff (degree : ℕ) : ℕ → ℕ → ℕ
  | _, 0 => 0
  | k, m+1 => (degree - k) + outOff degree (k+1) m

theorem outOff_succ (degree : ℕ) : ∀ m k, outOff degree k (m+1) = outOff degree k m + (degree - (k + m)) := by
  intro m
  induction m with
  | zero => intro k; simp [outOff]
  | succ m ih =>
    intro k
    have h := ih (k+1)
    have e : k + 1 + m = k + (m + 1) := by omega
    rw [e] at h
    show (degree - k) + outOff degree (k+1) (m+1) = (degree - k) + outOff degree (k+1) m + (degree - (k + (m+1)))
    rw [h]; omega

theorem outOff_zero_eq_rowStart (degree : ℕ) (hd : 1 ≤ degree) : ∀ m, outOff degree 0 m = rowStart (degree - 1) m := by
  intro m
  induction m with
  | zero => rfl
  | succ m ih =>
    rw [outOff_succ, ih, rowStart_succ]; omega

theorem dcOuter3_length (w : Bary K) (v : ℕ → K) (degree : ℕ) : ∀ fuel k p1 p2 p3,
    (dcOuter3 w v degree fuel k p1 p2 p3).length = outOff degree k fuel := by
  intro fuel
  induction fuel with
  | zero => intro _ _ _ _; rfl
  | succ fuel ih =>
    intro k p1 p2 p3
    simp [dcOuter3, outOff, dcInner3_length, ih]

/-- output `j` of row `k + m` of the outer loop, in terms of the running parents at entry -/
theorem seq_dcOuter3 (w : Bary K) (v : ℕ → K) (degree : ℕ) : ∀ fuel k p1 p2 p3 m j,
    m < fuel → j < degree - (k + m) →
    seq (dcOuter3 w v degree fuel k p1 p2 p3) (outOff degree k m + j)
      = w.l1 * v (p1 + outOff degree k m + m + j) + w.l2 * v (p2 + outOff degree k m + m + j)
        + w.l3 * v (p3 + outOff degree k m + j) := by
  intro fuel
  induction fuel with
  | zero => intro _ _ _ _ m _ hm; omega
  | succ fuel ih =>
    intro k p1 p2 p3 m j hm hj
    cases m with
    | zero =>
      simp only [outOff, Nat.add_zero, Nat.zero_add] at hj ⊢
      simp only [dcOuter3, seq]
      rw [getD_append_lt _ _ _ _ (by rw [dcInner3_length]; exact hj)]
      exact seq_dcInner3 w v (degree - k) p1 p2 p3 j hj
    | succ m =>
      have e : k + 1 + m = k + (m + 1) := by omega
      have := ih (k+1) (p1 + (degree - k) + 1) (p2 + (degree - k) + 1) (p3 + (degree - k)) m j (by omega)
        (by rw [e]; exact hj)
      simp only [dcOuter3, seq] at this ⊢
      have hidx : outOff degree k (m+1) + j = (dcInner3 w v (degree - k) p1 p2 p3).length + (outOff degree (k+1) m + j) := by
        rw [dcInner3_length]; simp only [outOff]; omega
      rw [hidx, getD_append_ge]
      rw [this]
      have a1 : p1 + (degree - k) + 1 + outOff degree (k+1) m + m + j = p1 + outOff degree k (m+1) + (m+1) + j := by
        simp only [outOff]; omega
      have a2 : p2 + (degree - k) + 1 + outOff degree (k+1) m + m + j = p2 + outOff degree k (m+1) + (m+1) + j := by
        simp only [outOff]; omega
      have a3 : p3 + (degree - k) + outOff degree (k+1) m + j = p3 + outOff degree k (m+1) + j := by
        simp only [outOff]; omega
      rw [a1, a2, a3]

theorem dcRound3_length (d : ℕ) (hd : 1 ≤ d) (w : Bary K) (row : List K) :
    (dcRound3 d w row).length = rowStart (d - 1) d := by
  unfold dcRound3
  rw [dcOuter3_length, outOff_zero_eq_rowStart d hd]

/-- **index invariant of `de_casteljau_one_round`**: output `(j, k)` of the degree-`(d-1)` net is
    `λ₁·p(j,k) + λ₂·p(j+1,k) + λ₃·p(j,k+1)` of the degree-`d` net (`parent_i1 = index + k`,
    `parent_i2 = index + k + 1`, `parent_i3 = index + degree + 1`) -/
theorem seq_dcRound3 (d : ℕ) (hd : 1 ≤ d) (w : Bary K) (row : List K) (j k : ℕ) (h : j + k < d) :
    seq (dcRound3 d w row) (rowStart (d - 1) k + j)
      = w.l1 * seq row (rowStart d k + j) + w.l2 * seq row (rowStart d k + (j + 1))
        + w.l3 * seq row (rowStart d (k + 1) + j) := by
  unfold dcRound3
  have hs := seq_dcOuter3 w (seq row) d d 0 0 1 (d + 1) k j (by omega) (by omega)
  rw [outOff_zero_eq_rowStart d hd] at hs
  rw [hs]
  have hk : ∀ m, m ≤ d → rowStart d m = rowStart (d - 1) m + m := by
    intro m
    induction m with
    | zero => intro _; rfl
    | succ m ih => intro hm; rw [rowStart_succ, rowStart_succ, ih (by omega)]; omega
  have e1 : 0 + rowStart (d - 1) k + k + j = rowStart d k + j := by rw [hk k (by omega)]; omega
  have e2 : 1 + rowStart (d - 1) k + k + j = rowStart d k + (j + 1) := by rw [hk k (by omega)]; omega
  have e3 : d + 1 + rowStart (d - 1) k + j = rowStart d (k + 1) + j := by
    rw [rowStart_succ, hk k (by omega)]; omega
  rw [e1, e2, e3]

end Round

/-! ### lists of equally long blocks, lists of rows of decreasing length -/

section Blocks
variable {α : Type}

theorem getD_map_lt {β : Type} (f : α → β) (l : List α) (i : ℕ) (h : i < l.length) (d1 : β) (d2 : α) :
    (l.map f).getD i d1 = f (l.getD i d2) := by
  rw [List.getD_eq_getElem?_getD, List.getD_eq_getElem?_getD, List.getElem?_map,
    List.getElem?_eq_getElem h]
  rfl

theorem flatten_drop_take (sz : ℕ) : ∀ (blocks : List (List α)), (∀ b ∈ blocks, b.length = sz) →
    ∀ g, g < blocks.length → ((blocks.flatten).drop (g * sz)).take sz = blocks.getD g [] := by
  intro blocks
  induction blocks with
  | nil => intro _ g hg; simp at hg
  | cons b bs ih =>
    intro hb g hg
    have hbl : b.length = sz := hb b (by simp)
    cases g with
    | zero =>
      simp only [List.flatten_cons, Nat.zero_mul, List.drop_zero, List.getD_cons_zero]
      rw [← hbl]; exact List.take_left
    | succ g =>
      have e : (g + 1) * sz = b.length + g * sz := by rw [hbl]; ring
      simp only [List.flatten_cons, List.getD_cons_succ]
      rw [e, List.drop_append, List.drop_eq_nil_of_le (by omega), Nat.add_sub_cancel_left, List.nil_append]
      exact ih (fun x hx => hb x (by simp [hx])) g (by simpa using hg)

theorem flatten_singletons (l : List (List α)) (dflt : α) (h : ∀ b ∈ l, b.length = 1) :
    l.flatten = l.map (fun b => b.headD dflt) := by
  induction l with
  | nil => rfl
  | cons b bs ih =>
    have hb := h b (by simp)
    match b, hb with
    | [x], _ =>
      simp only [List.flatten_cons, List.map_cons, List.headD_cons, List.singleton_append]
      rw [ih (fun x hx => h x (by simp [hx]))]

/-- rows `g k0, g (k0+1), …` of lengths `D - k0, D - (k0+1), …` laid out one after the other -/
theorem getD_flatMap_rows (D : ℕ) (g : ℕ → List α) (hg : ∀ k, (g k).length = D - k) (dflt : α) :
    ∀ fuel k0 m j, m < fuel → j < D - (k0 + m) →
    ((List.range' k0 fuel).flatMap g).getD (outOff D k0 m + j) dflt = (g (k0 + m)).getD j dflt := by
  intro fuel
  induction fuel with
  | zero => intro _ m _ hm; omega
  | succ fuel ih =>
    intro k0 m j hm hj
    rw [List.range'_succ, List.flatMap_cons]
    cases m with
    | zero =>
      simp only [outOff, Nat.zero_add, Nat.add_zero] at hj ⊢
      exact getD_append_lt _ _ _ _ (by rw [hg]; exact hj)
    | succ m =>
      have e : k0 + 1 + m = k0 + (m + 1) := by omega
      have := ih (k0+1) m j (by omega) (by rw [e]; exact hj)
      rw [e] at this
      rw [← this]
      have hidx : outOff D k0 (m+1) + j = (g k0).length + (outOff D (k0+1) m + j) := by
        rw [hg]; simp only [outOff]; omega
      rw [hidx, getD_append_ge]

theorem length_flatMap_rows (D : ℕ) (g : ℕ → List α) (hg : ∀ k, (g k).length = D - k) :
    ∀ fuel k0, ((List.range' k0 fuel).flatMap g).length = outOff D k0 fuel := by
  intro fuel
  induction fuel with
  | zero => intro _; rfl
  | succ fuel ih =>
    intro k0
    rw [List.range'_succ, List.flatMap_cons, List.length_append, hg, ih]
    rfl

end Blocks

/-! ### the order of the index triples -/

/-- row `k` of the triples of degree `s` -/
def tripleRow (s k : ℕ) : List (ℕ × ℕ × ℕ) := (List.range (s + 1 - k)).map (fun j => (s - j - k, j, k))

theorem tripleOrder_eq (s : ℕ) : tripleOrder s = (List.range' 0 (s+1)).flatMap (tripleRow s) := by
  unfold tripleOrder tripleRow
  rw [List.range_eq_range']

theorem tripleRow_length (s k : ℕ) : (tripleRow s k).length = s + 1 - k := by simp [tripleRow]

theorem tripleOrder_length (s : ℕ) : (tripleOrder s).length = rowStart s (s+1) := by
  rw [tripleOrder_eq, length_flatMap_rows (s+1) (tripleRow s) (tripleRow_length s),
    outOff_zero_eq_rowStart (s+1) (by omega)]
  rfl

/-- the triple stored at flat position `rowStart d k + j` is `(d-j-k, j, k)` -/
theorem tripleOrder_getD (d j k : ℕ) (h : j + k ≤ d) (dflt : ℕ × ℕ × ℕ) :
    (tripleOrder d).getD (rowStart d k + j) dflt = (d - j - k, j, k) := by
  have := getD_flatMap_rows (d+1) (tripleRow d) (tripleRow_length d) dflt (d+1) 0 k j (by omega) (by omega)
  rw [outOff_zero_eq_rowStart (d+1) (by omega)] at this
  rw [tripleOrder_eq]
  simp only [Nat.add_sub_cancel, Nat.zero_add] at this
  rw [this]
  unfold tripleRow
  rw [List.getD_eq_getElem?_getD, List.getElem?_map, List.getElem?_range (by omega)]
  rfl

theorem tripleOrder_sum (s : ℕ) : ∀ t ∈ tripleOrder s, t.1 + t.2.1 + t.2.2 = s := by
  intro t ht
  unfold tripleOrder at ht
  simp only [List.mem_flatMap, List.mem_range, List.mem_map] at ht
  obtain ⟨k, hk, j, hj, rfl⟩ := ht
  simp only; omega

def bumpJ (t : ℕ × ℕ × ℕ) : ℕ × ℕ × ℕ := (t.1, t.2.1 + 1, t.2.2)
def bumpK (t : ℕ × ℕ × ℕ) : ℕ × ℕ × ℕ := (t.1, t.2.1, t.2.2 + 1)

theorem tripleOrder_split (s : ℕ) :
    tripleOrder s = tripleRow s 0 ++ (List.range s).flatMap (fun k => tripleRow s (k+1)) := by
  unfold tripleOrder
  rw [List.range_succ_eq_map, List.flatMap_cons, List.flatMap_map]
  rfl

theorem tripleOrder_take (s : ℕ) : (tripleOrder s).take (s+1) = tripleRow s 0 := by
  rw [tripleOrder_split]
  have : (tripleRow s 0).length = s + 1 := by simp [tripleRow]
  rw [← this]; exact List.take_left

theorem tripleRow_succ_zero (s : ℕ) :
    tripleRow (s+1) 0 = (s+1, 0, 0) :: (tripleRow s 0).map bumpJ := by
  unfold tripleRow
  simp only [Nat.sub_zero]
  rw [List.range_succ_eq_map, List.map_cons, List.map_map, List.map_map]
  congr 1
  apply List.map_congr_left
  intro j _
  simp only [Function.comp, bumpJ, Nat.sub_zero]
  congr 1
  omega

theorem tripleRow_succ_succ (s k : ℕ) : tripleRow (s+1) (k+1) = (tripleRow s k).map bumpK := by
  unfold tripleRow
  rw [List.map_map]
  have : s + 1 + 1 - (k + 1) = s + 1 - k := by omega
  rw [this]
  apply List.map_congr_left
  intro j _
  simp only [Function.comp, bumpK]
  congr 1
  omega

/-- the order of the triples of degree `s+1` from that of degree `s`: first `(s+1,0,0)`, then the
    bottom row with one more `b`, then everything with one more `c` -/
theorem tripleOrder_succ (s : ℕ) :
    tripleOrder (s+1) = (s+1, 0, 0) :: ((tripleRow s 0).map bumpJ ++ (tripleOrder s).map bumpK) := by
  rw [tripleOrder_split (s+1), tripleRow_succ_zero]
  simp only [List.cons_append]
  congr 2
  unfold tripleOrder
  rw [List.map_flatMap]
  apply List.flatMap_congr
  intro k _
  exact tripleRow_succ_succ s k

theorem tripleRow_zero_k (s : ℕ) : ∀ t ∈ tripleRow s 0, t.2.2 = 0 := by
  intro t ht
  unfold tripleRow at ht
  simp only [List.mem_map] at ht
  obtain ⟨j, _, rfl⟩ := ht
  rfl

theorem tripleOrder_head (s : ℕ) : (tripleOrder s).getD 0 (0, 0, 0) = (s, 0, 0) := by
  have := tripleOrder_getD s 0 0 (by omega) (0, 0, 0)
  simpa [rowStart] using this

/-! ### rounds on flat rows are products of `T3` on the net -/

section Field
variable {K : Type} [Field K]

/-- the operator of one round with the weights `w` -/
def T3w (w : Bary K) : Module.End K (Net K) := T3 w.l1 w.l2 w.l3

theorem T3w_commute (u w : Bary K) : Commute (T3w u) (T3w w) := T3_commute _ _ _ _ _ _

/-- rounds applied one after the other (the first weight first), the degree dropping by one -/
def applyRounds : List (Bary K) → ℕ → List K → List K
  | [], _, row => row
  | w :: ws, d, row => applyRounds ws (d - 1) (dcRound3 d w row)

/-- the operator of a sequence of rounds -/
def opOf : List (Bary K) → Module.End K (Net K)
  | [] => 1
  | w :: ws => opOf ws * T3w w

theorem applyRounds_append (ws : List (Bary K)) (w : Bary K) : ∀ (d : ℕ) (row : List K),
    applyRounds (ws ++ [w]) d row = dcRound3 (d - ws.length) w (applyRounds ws d row) := by
  induction ws with
  | nil => intro d row; simp [applyRounds]
  | cons u us ih =>
    intro d row
    simp only [List.cons_append, applyRounds, List.length_cons]
    rw [ih]
    have : d - 1 - us.length = d - (us.length + 1) := by omega
    rw [this]

theorem applyRounds_length (ws : List (Bary K)) : ∀ (d : ℕ) (row : List K), ws.length ≤ d →
    row.length = rowStart d (d+1) →
    (applyRounds ws d row).length = rowStart (d - ws.length) (d - ws.length + 1) := by
  induction ws with
  | nil => intro d row _ h; simpa [applyRounds] using h
  | cons u us ih =>
    intro d row hd hrow
    simp only [applyRounds, List.length_cons] at hd ⊢
    have hl : (dcRound3 d u row).length = rowStart (d - 1) (d - 1 + 1) := by
      rw [dcRound3_length d (by omega)]
      have : d - 1 + 1 = d := by omega
      rw [this]
    rw [ih (d - 1) _ (by omega) hl]
    have : d - 1 - us.length = d - (us.length + 1) := by omega
    rw [this]

theorem opOf_append (l1 l2 : List (Bary K)) : opOf (l1 ++ l2) = opOf l2 * opOf l1 := by
  induction l1 with
  | nil => simp [opOf]
  | cons w ws ih => simp only [List.cons_append, opOf, ih, mul_assoc]

theorem opOf_replicate (n : ℕ) (w : Bary K) : opOf (List.replicate n w) = (T3w w)^n := by
  induction n with
  | zero => simp [opOf]
  | succ n ih => simp only [List.replicate_succ, opOf, ih, pow_succ]

/-- locality of a sequence of rounds -/
theorem opOf_local : ∀ (ws : List (Bary K)) (u v : Net K) (j k : ℕ),
    (∀ j' k', j' + k' ≤ j + k + ws.length → u j' k' = v j' k') →
    opOf ws u j k = opOf ws v j k := by
  intro ws
  induction ws with
  | nil => intro u v j k h; simpa [opOf] using h j k (by simp)
  | cons w ws ih =>
    intro u v j k h
    simp only [opOf, Module.End.mul_apply]
    apply ih
    intro j' k' hjk
    simp only [T3w, T3_apply]
    simp only [List.length_cons] at h
    rw [h j' k' (by omega), h (j'+1) k' (by omega), h j' (k'+1) (by omega)]

/-- one round on the flat row is `T3` on the net -/
theorem netOf_dcRound3 (d : ℕ) (hd : 1 ≤ d) (w : Bary K) (row : List K) (j k : ℕ) (h : j + k < d) :
    netOf (d - 1) (dcRound3 d w row) j k = T3w w (netOf d row) j k := by
  simp only [netOf, T3w, T3_apply]
  exact seq_dcRound3 d hd w row j k h

/-- a sequence of rounds on the flat row is the operator of the sequence on the net -/
theorem netOf_applyRounds : ∀ (ws : List (Bary K)) (d : ℕ) (row : List K) (j k : ℕ),
    j + k + ws.length ≤ d →
    netOf (d - ws.length) (applyRounds ws d row) j k = opOf ws (netOf d row) j k := by
  intro ws
  induction ws with
  | nil => intro d row j k _; simp [applyRounds, opOf]
  | cons w ws ih =>
    intro d row j k h
    simp only [List.length_cons] at h
    simp only [applyRounds, opOf, Module.End.mul_apply, List.length_cons]
    have e : d - (ws.length + 1) = d - 1 - ws.length := by omega
    rw [e, ih (d - 1) _ j k (by omega)]
    apply opOf_local
    intro j' k' hjk
    exact netOf_dcRound3 d (by omega) w row j' k' (by omega)

/-- the weights of the blossom `(i, j, k)`: `i` rounds with `a`, then `j` with `b`, then `k` with `c` -/
def blossomKey (wa wb wc : Bary K) (t : ℕ × ℕ × ℕ) : List (Bary K) :=
  List.replicate t.1 wa ++ List.replicate t.2.1 wb ++ List.replicate t.2.2 wc

theorem blossomKey_length (wa wb wc : Bary K) (t : ℕ × ℕ × ℕ) :
    (blossomKey wa wb wc t).length = t.1 + t.2.1 + t.2.2 := by
  simp [blossomKey]; omega

theorem opOf_blossomKey (wa wb wc : Bary K) (i j k : ℕ) :
    opOf (blossomKey wa wb wc (i, j, k)) = (T3w wa)^i * (T3w wb)^j * (T3w wc)^k := by
  simp only [blossomKey, opOf_append, opOf_replicate]
  have c1 : Commute ((T3w wc)^k) ((T3w wb)^j * (T3w wa)^i) :=
    ((T3w_commute wc wb).pow_pow k j).mul_right ((T3w_commute wc wa).pow_pow k i)
  have c2 : Commute ((T3w wb)^j) ((T3w wa)^i) := (T3w_commute wb wa).pow_pow j i
  rw [c1.eq, c2.eq]

/-! ### the Fortran workspace algorithm -/

theorem roundsFrom_blocks (ld sz : ℕ) (w : Bary K) (blocks : List (List K))
    (hb : ∀ b ∈ blocks, b.length = sz) : ∀ cnt g, g + cnt ≤ blocks.length →
    F90.roundsFrom ld sz w blocks.flatten cnt (g * sz)
      = (((blocks.drop g).take cnt).map (dcRound3 ld w)).flatten := by
  intro cnt
  induction cnt with
  | zero => intro g _; simp [F90.roundsFrom]
  | succ cnt ih =>
    intro g hg
    have hlt : g < blocks.length := by omega
    simp only [F90.roundsFrom]
    rw [flatten_drop_take sz blocks hb g hlt]
    have e : g * sz + sz = (g + 1) * sz := by ring
    rw [e, ih (g+1) (by omega)]
    rw [List.drop_eq_getElem_cons hlt, List.take_succ_cons, List.map_cons, List.flatten_cons]
    congr 2
    rw [List.getD_eq_getElem?_getD, List.getElem?_eq_getElem hlt]; rfl

/-- the net of the blossom `t` (a degree-`(d - |t|)` net) -/
def blossomNet (wa wb wc : Bary K) (d : ℕ) (row : List K) (t : ℕ × ℕ × ℕ) : List K :=
  applyRounds (blossomKey wa wb wc t) d row

theorem blossomKey_bumpK (wa wb wc : Bary K) (t : ℕ × ℕ × ℕ) :
    blossomKey wa wb wc t ++ [wc] = blossomKey wa wb wc (bumpK t) := by
  simp only [blossomKey, bumpK, List.replicate_succ', List.append_assoc]

theorem blossomKey_bumpJ (wa wb wc : Bary K) (t : ℕ × ℕ × ℕ) (hk : t.2.2 = 0) :
    blossomKey wa wb wc t ++ [wb] = blossomKey wa wb wc (bumpJ t) := by
  simp only [blossomKey, bumpJ, hk, List.replicate_zero, List.append_nil, List.replicate_succ',
    List.append_assoc]

theorem blossomKey_bumpI (wa wb wc : Bary K) (s : ℕ) :
    blossomKey wa wb wc (s, 0, 0) ++ [wa] = blossomKey wa wb wc (s+1, 0, 0) := by
  simp only [blossomKey, List.replicate_zero, List.append_nil, List.replicate_succ']

theorem dcRound3_blossomNet (wa wb wc w : Bary K) (d s : ℕ) (row : List K) (t : ℕ × ℕ × ℕ)
    (ht : t.1 + t.2.1 + t.2.2 = s) :
    dcRound3 (d - s) w (blossomNet wa wb wc d row t) = applyRounds (blossomKey wa wb wc t ++ [w]) d row := by
  unfold blossomNet
  rw [applyRounds_append, blossomKey_length, ht]

theorem rowStart_ge (d : ℕ) : ∀ k, k ≤ d + 1 → k ≤ rowStart d k := by
  intro k
  induction k with
  | zero => intro _; exact Nat.zero_le _
  | succ k ih => intro hk; rw [rowStart_succ]; have := ih (by omega); omega

theorem rowStart_top (n : ℕ) (hn : 1 ≤ n) : rowStart n (n+1) = rowStart (n-1) n + (n+1) := by
  have hk : ∀ m, m ≤ n → rowStart n m = rowStart (n - 1) m + m := by
    intro m
    induction m with
    | zero => intro _; rfl
    | succ m ih => intro hm; rw [rowStart_succ, rowStart_succ, ih (by omega)]; omega
  rw [rowStart_succ, hk n le_rfl]; omega

/-- invariant of `do step = 1, degree`: the workspace written in step `s` holds the nets of all
    blossoms `(#a, #b, #c)` with `#a + #b + #c = s`, in the order of the index triples -/
theorem F90_specializeLoop_inv (d : ℕ) (wa wb wc : Bary K) (row : List K)
    (hrow : row.length = rowStart d (d+1)) : ∀ s, s ≤ d →
    (F90.triSpecializeLoop d wa wb wc row s).work
        = ((tripleOrder s).map (blossomNet wa wb wc d row)).flatten ∧
    (F90.triSpecializeLoop d wa wb wc row s).size = rowStart (d - s) (d - s + 1) ∧
    (F90.triSpecializeLoop d wa wb wc row s).deltaSize = d + 1 - s := by
  intro s
  induction s with
  | zero =>
    intro _
    refine ⟨?_, ?_, ?_⟩
    · simp [F90.triSpecializeLoop, tripleOrder, blossomNet, blossomKey, applyRounds]
    · simp [F90.triSpecializeLoop, numNodes_eq_rowStart]
    · simp [F90.triSpecializeLoop]
  | succ s ih =>
    intro hs
    obtain ⟨hw, hsz, hds⟩ := ih (by omega)
    set blocks := (tripleOrder s).map (blossomNet wa wb wc d row) with hblocks
    set sz := rowStart (d - s) (d - s + 1) with hszdef
    have hlen : blocks.length = rowStart s (s+1) := by rw [hblocks, List.length_map, tripleOrder_length]
    have hpos : 0 < blocks.length := by rw [hlen, rowStart_succ]; omega
    have hb : ∀ b ∈ blocks, b.length = sz := by
      intro b hbm
      rw [hblocks, List.mem_map] at hbm
      obtain ⟨t, ht, rfl⟩ := hbm
      have hsum := tripleOrder_sum s t ht
      unfold blossomNet
      rw [applyRounds_length _ d row (by rw [blossomKey_length]; omega) hrow, blossomKey_length, hsum]
    have hld : d + 1 - (s + 1) = d - s := by omega
    have hcnt : ((s + 1 + 1) * (s + 1)) / 2 = blocks.length := by
      rw [hlen, ← numNodes_eq_rowStart]; unfold numNodes
      rw [Nat.mul_comm]
    refine ⟨?_, ?_, ?_⟩
    · simp only [F90.triSpecializeLoop, F90.triSpecializeStepState, F90.triSpecializeOneRound]
      rw [hw, hsz, hld]
      -- first group
      have h0 := flatten_drop_take sz blocks hb 0 hpos
      simp only [Nat.zero_mul, List.drop_zero] at h0
      rw [h0]
      -- second and third group
      have h2 := roundsFrom_blocks (d - s) sz wb blocks hb (s+1) 0 (by rw [hlen]; have := rowStart_ge s (s+1) le_rfl; omega)
      have h3 := roundsFrom_blocks (d - s) sz wc blocks hb blocks.length 0 (by omega)
      simp only [Nat.zero_mul, List.drop_zero] at h2 h3
      rw [hcnt, h2, h3, List.take_length]
      -- rewrite in terms of triples
      rw [tripleOrder_succ, List.map_cons, List.flatten_cons, List.map_append, List.flatten_append]
      have g0 : blocks.getD 0 [] = blossomNet wa wb wc d row (s, 0, 0) := by
        rw [hblocks, getD_map_lt _ _ 0 (by rw [tripleOrder_length, rowStart_succ]; omega) [] (0, 0, 0),
          tripleOrder_head]
      have hX : dcRound3 (d - s) wa (blocks.getD 0 []) = blossomNet wa wb wc d row (s + 1, 0, 0) := by
        rw [g0, dcRound3_blossomNet wa wb wc wa d s row (s, 0, 0) (by simp), blossomKey_bumpI]
        rfl
      have hY : (List.map (dcRound3 (d - s) wb) (List.take (s + 1) blocks)).flatten
          = (List.map (blossomNet wa wb wc d row) (List.map bumpJ (tripleRow s 0))).flatten := by
        rw [hblocks, ← List.map_take, tripleOrder_take, List.map_map, List.map_map]
        congr 1
        apply List.map_congr_left
        intro t ht
        have hk := tripleRow_zero_k s t ht
        have hsum : t.1 + t.2.1 + t.2.2 = s := by
          apply tripleOrder_sum s t
          rw [tripleOrder_split]; exact List.mem_append_left _ ht
        simp only [Function.comp]
        rw [dcRound3_blossomNet wa wb wc wb d s row t hsum, blossomKey_bumpJ wa wb wc t hk]
        rfl
      have hZ : (List.map (dcRound3 (d - s) wc) blocks).flatten
          = (List.map (blossomNet wa wb wc d row) (List.map bumpK (tripleOrder s))).flatten := by
        rw [hblocks, List.map_map, List.map_map]
        congr 1
        apply List.map_congr_left
        intro t ht
        simp only [Function.comp]
        rw [dcRound3_blossomNet wa wb wc wc d s row t (tripleOrder_sum s t ht), blossomKey_bumpK]
        rfl
      rw [hX, hY, hZ, List.append_assoc]
    · simp only [F90.triSpecializeLoop, F90.triSpecializeStepState]
      rw [hsz, hds, hszdef]
      have := rowStart_top (d - s) (by omega)
      rw [this]
      have e2 : d - s - 1 = d - (s + 1) := by omega
      rw [e2]
      have e3 : d - (s+1) + 1 = d - s := by omega
      rw [e3]; omega
    · simp only [F90.triSpecializeLoop, F90.triSpecializeStepState]
      rw [hds]; omega

/-- weights as the triple used by `specNet` -/
def baryTriple (w : Bary K) : K × K × K := (w.l1, w.l2, w.l3)

/-- `specialize_triangle` (Fortran) returns the blossoms in the order of the index triples -/
theorem F90_specializeRow_eq (d : ℕ) (wa wb wc : Bary K) (row : List K)
    (hrow : row.length = rowStart d (d+1)) :
    F90.triSpecializeRow d row wa wb wc
      = (tripleOrder d).map (fun t => (blossomNet wa wb wc d row t).headD 0) := by
  unfold F90.triSpecializeRow
  obtain ⟨hw, _, _⟩ := F90_specializeLoop_inv d wa wb wc row hrow d le_rfl
  rw [hw, flatten_singletons _ (0 : K), List.map_map]
  · apply List.take_of_length_le
    rw [List.length_map, tripleOrder_length, hrow]
  · intro b hb
    rw [List.mem_map] at hb
    obtain ⟨t, ht, rfl⟩ := hb
    have hsum := tripleOrder_sum d t ht
    unfold blossomNet
    rw [applyRounds_length _ d row (by rw [blossomKey_length]; omega) hrow, blossomKey_length, hsum]
    simp [rowStart]

theorem F90_specializeRow_length (d : ℕ) (wa wb wc : Bary K) (row : List K)
    (hrow : row.length = rowStart d (d+1)) :
    (F90.triSpecializeRow d row wa wb wc).length = row.length := by
  rw [F90_specializeRow_eq d wa wb wc row hrow, List.length_map, tripleOrder_length, hrow]

/-- control point `(j, k)` of the specialised net is the blossom `a^(d-j-k) b^j c^k` -/
theorem seq_F90_specializeRow (d : ℕ) (wa wb wc : Bary K) (row : List K)
    (hrow : row.length = rowStart d (d+1)) (j k : ℕ) (h : j + k ≤ d) :
    netOf d (F90.triSpecializeRow d row wa wb wc) j k
      = specNet d (baryTriple wa) (baryTriple wb) (baryTriple wc) (netOf d row) j k := by
  have hin := rowStart_add_le d k (by omega)
  show seq (F90.triSpecializeRow d row wa wb wc) (rowStart d k + j) = _
  rw [F90_specializeRow_eq d wa wb wc row hrow]
  unfold seq
  rw [getD_map_lt _ _ _ (by rw [tripleOrder_length]; omega) (0 : K) (0, 0, 0), tripleOrder_getD d j k h]
  rw [headD_eq_seq]
  have hkey : (blossomKey wa wb wc (d - j - k, j, k)).length = d := by rw [blossomKey_length]; simp only; omega
  have hn := netOf_applyRounds (blossomKey wa wb wc (d - j - k, j, k)) d row 0 0 (by rw [hkey]; omega)
  rw [hkey, Nat.sub_self] at hn
  have h0 : netOf 0 (blossomNet wa wb wc d row (d - j - k, j, k)) 0 0
      = seq (blossomNet wa wb wc d row (d - j - k, j, k)) 0 := by simp [netOf, rowStart]
  rw [← h0]
  unfold blossomNet
  rw [hn, opOf_blossomKey]
  rfl

/-! ### symmetries of the blossom net (rounds commute) used for the shared boundaries -/

theorem specNet_swap_bc (d : ℕ) (a a' b c : K × K × K) (w : Net K) (j k : ℕ) (h : j + k = d) :
    specNet d a b c w j k = specNet d a' c b w k j := by
  unfold specNet
  have e1 : d - j - k = 0 := by omega
  have e2 : d - k - j = 0 := by omega
  rw [e1, e2, pow_zero, pow_zero, one_mul, one_mul,
    ((T3_commute b.1 b.2.1 b.2.2 c.1 c.2.1 c.2.2).pow_pow j k).eq]

theorem specNet_swap_ac (d : ℕ) (a b b' c : K × K × K) (w : Net K) (k : ℕ) (h : k ≤ d) :
    specNet d a b c w 0 k = specNet d c b' a w 0 (d - k) := by
  unfold specNet
  have e1 : d - 0 - (d - k) = k := by omega
  rw [e1, pow_zero, pow_zero, mul_one, mul_one, Nat.sub_zero,
    ((T3_commute a.1 a.2.1 a.2.2 c.1 c.2.1 c.2.2).pow_pow (d - k) k).eq]

theorem specNet_swap_ab (d : ℕ) (a b c c' : K × K × K) (w : Net K) (j : ℕ) (h : j ≤ d) :
    specNet d a b c w j 0 = specNet d b a c' w (d - j) 0 := by
  unfold specNet
  have e1 : d - (d - j) - 0 = j := by omega
  rw [e1, pow_zero, pow_zero, mul_one, mul_one, Nat.sub_zero,
    ((T3_commute a.1 a.2.1 a.2.2 b.1 b.2.1 b.2.2).pow_pow (d - j) j).eq]

end Field

end BezierVerif.Tri
