import BezierVerif.Lemmas.TriSpecialize

/-!
# Lemmas/TriSpecializePy — the Python dictionary algorithm of `specialize_triangle`

`matrix_product(sub_nodes, make_transform(…)[id])` is one de Casteljau round (linearity of the
round in the control net), the dictionary after every pass holds the blossom nets of all ascending
keys, every key asked for by `reduced_to_matrix` is present; hence the Python variant returns
`.ok` of what the Fortran workspace variant returns.
-/

set_option linter.unusedSectionVars false
set_option linter.unusedVariables false

namespace BezierVerif.Tri

open Finset Model

section Field
variable {K : Type} [Field K]

/-! ### one round is linear in the control net -/

theorem list_ext_seq (l1 l2 : List K) (hl : l1.length = l2.length)
    (h : ∀ c, c < l1.length → seq l1 c = seq l2 c) : l1 = l2 := by
  apply List.ext_getElem hl
  intro c h1 h2
  have := h c h1
  unfold seq at this
  rw [List.getD_eq_getElem?_getD, List.getD_eq_getElem?_getD, List.getElem?_eq_getElem h1,
    List.getElem?_eq_getElem h2] at this
  simpa using this

theorem seq_ge (l : List K) (c : ℕ) (h : l.length ≤ c) : seq l c = 0 := by
  unfold seq
  rw [List.getD_eq_getElem?_getD, List.getElem?_eq_none h]; rfl

theorem seq_dcInner3_lin (w : Bary K) (N : ℕ) (a : ℕ → K) (u : ℕ → ℕ → K) : ∀ cnt p1 p2 p3 c,
    seq (dcInner3 w (fun i => ∑ r ∈ range N, a r * u r i) cnt p1 p2 p3) c
      = ∑ r ∈ range N, a r * seq (dcInner3 w (u r) cnt p1 p2 p3) c := by
  intro cnt
  induction cnt with
  | zero => intro _ _ _ c; simp [dcInner3, seq]
  | succ cnt ih =>
    intro p1 p2 p3 c
    cases c with
    | zero =>
      simp only [dcInner3, seq, List.getD_cons_zero]
      rw [Finset.mul_sum, Finset.mul_sum, Finset.mul_sum, ← Finset.sum_add_distrib, ← Finset.sum_add_distrib]
      apply Finset.sum_congr rfl; intro r _; ring
    | succ c =>
      have := ih (p1+1) (p2+1) (p3+1) c
      simp only [seq] at this ⊢
      simp only [dcInner3, List.getD_cons_succ]
      exact this

theorem seq_dcOuter3_lin (w : Bary K) (N : ℕ) (a : ℕ → K) (u : ℕ → ℕ → K) (degree : ℕ) :
    ∀ fuel k p1 p2 p3 c,
    seq (dcOuter3 w (fun i => ∑ r ∈ range N, a r * u r i) degree fuel k p1 p2 p3) c
      = ∑ r ∈ range N, a r * seq (dcOuter3 w (u r) degree fuel k p1 p2 p3) c := by
  intro fuel
  induction fuel with
  | zero => intro _ _ _ _ c; simp [dcOuter3, seq]
  | succ fuel ih =>
    intro k p1 p2 p3 c
    simp only [dcOuter3]
    rcases Nat.lt_or_ge c (degree - k) with hc | hc
    · unfold seq
      rw [getD_append_lt _ _ _ _ (by rw [dcInner3_length]; exact hc)]
      have := seq_dcInner3_lin w N a u (degree - k) p1 p2 p3 c
      unfold seq at this
      rw [this]
      apply Finset.sum_congr rfl; intro r _
      rw [getD_append_lt _ _ _ _ (by rw [dcInner3_length]; exact hc)]
    · obtain ⟨e, he⟩ : ∃ e, c = (degree - k) + e := ⟨c - (degree - k), by omega⟩
      subst he
      have hap : ∀ (v : ℕ → K) (l2 : List K),
          (dcInner3 w v (degree - k) p1 p2 p3 ++ l2).getD ((degree - k) + e) 0 = l2.getD e 0 := by
        intro v l2
        have := getD_append_ge (dcInner3 w v (degree - k) p1 p2 p3) l2 (0 : K) e
        rwa [dcInner3_length] at this
      unfold seq
      rw [hap]
      have := ih (k+1) (p1 + (degree - k) + 1) (p2 + (degree - k) + 1) (p3 + (degree - k)) e
      unfold seq at this
      rw [this]
      apply Finset.sum_congr rfl; intro r _
      rw [hap]

theorem seq_unitVec (N r i : ℕ) (hr : r < N) : seq (unitVec (K := K) N r) i = if i = r then 1 else 0 := by
  unfold unitVec seq
  rcases Nat.lt_or_ge i N with hi | hi
  · rw [List.getD_eq_getElem?_getD, List.getElem?_map, List.getElem?_range hi]; rfl
  · rw [List.getD_eq_getElem?_getD, List.getElem?_eq_none (by simp; exact hi)]
    have : i ≠ r := by omega
    simp [this]

/-- a row as a combination of unit nets -/
theorem seq_eq_sum_unit (row : List K) (i : ℕ) :
    seq row i = ∑ r ∈ range row.length, seq row r * seq (unitVec (K := K) row.length r) i := by
  rcases Nat.lt_or_ge i row.length with hi | hi
  · rw [Finset.sum_eq_single i]
    · rw [seq_unitVec _ _ _ hi]; simp
    · intro r hr hne
      rw [seq_unitVec _ _ _ (mem_range.mp hr)]
      have : i ≠ r := fun h => hne h.symm
      simp [this]
    · intro h; exact absurd (mem_range.mpr hi) h
  · rw [seq_ge row i hi]
    symm
    apply Finset.sum_eq_zero
    intro r hr
    have hr' := mem_range.mp hr
    rw [seq_unitVec _ _ _ hr']
    have : i ≠ r := by omega
    simp [this]

/-- **`matrix_product(sub_nodes, make_transform(degree, w))` is one round** -/
theorem rowMulCols_makeTransform (rd : ℕ) (hrd : 1 ≤ rd) (w : Bary K) (row : List K)
    (hrow : row.length = numNodes rd) :
    rowMulCols row (transpose (makeTransform rd w)) = dcRound3 rd w row := by
  have hN : 1 ≤ numNodes rd := by rw [numNodes_eq_rowStart, rowStart_succ]; omega
  have hncols : ncols (makeTransform rd w) = rowStart (rd - 1) rd := by
    unfold ncols makeTransform identity
    obtain ⟨n, hn⟩ : ∃ n, numNodes rd = n + 1 := ⟨numNodes rd - 1, by omega⟩
    rw [hn, List.range_succ_eq_map]
    simp only [List.map_cons, List.headD_cons]
    exact dcRound3_length rd hrd w _
  apply list_ext_seq
  · unfold rowMulCols transpose
    rw [List.length_map, List.length_map, List.length_range, hncols, dcRound3_length rd hrd]
  · intro c hc
    have hc' : c < rowStart (rd - 1) rd := by
      unfold rowMulCols transpose at hc
      rw [List.length_map, List.length_map, List.length_range, hncols] at hc
      exact hc
    -- left: the dot product with column `c`
    have hl : seq (rowMulCols row (transpose (makeTransform rd w))) c
        = dot row (col (makeTransform rd w) c) := by
      unfold rowMulCols transpose seq
      rw [List.map_map, List.getD_eq_getElem?_getD, List.getElem?_map, hncols, List.getElem?_range hc']
      rfl
    have hcol : col (makeTransform rd w) c
        = (List.range (numNodes rd)).map (fun r => seq (dcRound3 rd w (unitVec (numNodes rd) r)) c) := by
      unfold col makeTransform identity
      rw [List.map_map, List.map_map]; rfl
    rw [hl, hcol, Subdivide.dot_map_range row (numNodes rd) _ hrow]
    -- right: linearity
    unfold dcRound3
    have hv : seq row = fun i => ∑ r ∈ range (numNodes rd), seq row r * seq (unitVec (K := K) (numNodes rd) r) i := by
      funext i; rw [← hrow]; exact seq_eq_sum_unit row i
    rw [hv, seq_dcOuter3_lin]
    rw [← hv]

/-! ### the dictionary after every pass -/

/-- keys of the dictionary after the pass that produces keys of length `n+1`, in insertion order -/
def nextKeys (keys : List (List ℕ)) : List (List ℕ) :=
  keys.flatMap (fun key => (List.range' (key.getLastD 0) (3 - key.getLastD 0)).map (fun n => key ++ [n]))

def ascKeys : ℕ → List (List ℕ)
  | 0 => [[0], [1], [2]]
  | n+1 => nextKeys (ascKeys n)

theorem ascKeys_length : ∀ n, ∀ key ∈ ascKeys n, key.length = n + 1 := by
  intro n
  induction n with
  | zero => intro key h; simp [ascKeys] at h; rcases h with rfl | rfl | rfl <;> rfl
  | succ n ih =>
    intro key h
    simp only [ascKeys, nextKeys, List.mem_flatMap, List.mem_map] at h
    obtain ⟨k0, hk0, m, _, rfl⟩ := h
    simp [ih k0 hk0]

/-- the value stored under a key: the rounds named by the key applied to the row -/
def keyVal (wa wb wc : Bary K) (d : ℕ) (row : List K) (key : List ℕ) : List K :=
  applyRounds (key.map (pickW wa wb wc)) d row

def dictOf (wa wb wc : Bary K) (d : ℕ) (row : List K) (keys : List (List ℕ)) : TriDict K :=
  keys.map (fun key => (key, keyVal wa wb wc d row key))

theorem keyVal_length (wa wb wc : Bary K) (d : ℕ) (row : List K) (hrow : row.length = rowStart d (d+1))
    (key : List ℕ) (hk : key.length ≤ d) :
    (keyVal wa wb wc d row key).length = rowStart (d - key.length) (d - key.length + 1) := by
  unfold keyVal
  rw [applyRounds_length _ d row (by simpa using hk) hrow, List.length_map]

/-- one pass of the loop maps the dictionary of the keys to the dictionary of the next keys -/
theorem Py_specializeStep_dict (wa wb wc : Bary K) (d n : ℕ) (row : List K)
    (hrow : row.length = rowStart d (d+1)) (hn : n + 1 < d) (keys : List (List ℕ))
    (hkeys : ∀ key ∈ keys, key.length = n + 1) :
    Py.triSpecializeStep (d - (n + 1)) wa wb wc (dictOf wa wb wc d row keys)
      = dictOf wa wb wc d row (nextKeys keys) := by
  unfold Py.triSpecializeStep dictOf nextKeys
  simp only
  rw [List.flatMap_map, List.map_flatMap]
  apply List.flatMap_congr
  intro key hkey
  rw [List.map_map]
  apply List.map_congr_left
  intro m hm
  simp only [Function.comp]
  congr 1
  have hl := hkeys key hkey
  have hval := keyVal_length wa wb wc d row hrow key (by omega)
  rw [hl] at hval
  have hpick : (if m = 0 then transpose (makeTransform (d - (n + 1)) wa)
      else if m = 1 then transpose (makeTransform (d - (n + 1)) wb)
      else transpose (makeTransform (d - (n + 1)) wc))
      = transpose (makeTransform (d - (n + 1)) (pickW wa wb wc m)) := by
    unfold pickW; split_ifs <;> rfl
  rw [hpick, rowMulCols_makeTransform (d - (n + 1)) (by omega) _ _ (by rw [hval, numNodes_eq_rowStart])]
  unfold keyVal
  rw [List.map_append, List.map_cons, List.map_nil, applyRounds_append, List.length_map, hl]

theorem Py_specializeLoop_dict (wa wb wc : Bary K) (d : ℕ) (row : List K)
    (hrow : row.length = rowStart d (d+1)) : ∀ fuel n, n + 1 + fuel = d →
    Py.triSpecializeLoop wa wb wc fuel (dictOf wa wb wc d row (ascKeys n))
      = dictOf wa wb wc d row (ascKeys (n + fuel)) := by
  intro fuel
  induction fuel with
  | zero => intro n _; rfl
  | succ fuel ih =>
    intro n hn
    simp only [Py.triSpecializeLoop]
    have e : fuel + 1 = d - (n + 1) := by omega
    rw [e, Py_specializeStep_dict wa wb wc d n row hrow (by omega) _ (ascKeys_length n)]
    have := ih (n+1) (by omega)
    simp only [ascKeys] at this ⊢
    rw [this]
    congr 2
    omega

/-! ### every key asked for by `reduced_to_matrix` is present -/

theorem keyOf_getLastD (i j k : ℕ) :
    (triKeyOf (i, j, k)).getLastD 0 = if 0 < k then 2 else if 0 < j then 1 else 0 := by
  unfold triKeyOf
  simp only
  cases k with
  | succ k => simp [List.replicate_succ', ← List.append_assoc]
  | zero =>
    cases j with
    | succ j => simp [List.replicate_succ', ← List.append_assoc]
    | zero =>
      cases i with
      | succ i => simp [List.replicate_succ']
      | zero => simp

theorem keyOf_mem_ascKeys : ∀ n i j k, i + j + k = n + 1 → triKeyOf (i, j, k) ∈ ascKeys n := by
  intro n
  induction n with
  | zero =>
    intro i j k h
    have : (i = 1 ∧ j = 0 ∧ k = 0) ∨ (i = 0 ∧ j = 1 ∧ k = 0) ∨ (i = 0 ∧ j = 0 ∧ k = 1) := by omega
    rcases this with ⟨rfl, rfl, rfl⟩ | ⟨rfl, rfl, rfl⟩ | ⟨rfl, rfl, rfl⟩ <;> simp [triKeyOf, ascKeys]
  | succ n ih =>
    intro i j k h
    simp only [ascKeys, nextKeys, List.mem_flatMap, List.mem_map]
    cases k with
    | succ k =>
      refine ⟨triKeyOf (i, j, k), ih i j k (by omega), 2, ?_, ?_⟩
      · rw [keyOf_getLastD, List.mem_range']
        split_ifs <;> first | omega | exact ⟨0, by omega, by omega⟩ | exact ⟨1, by omega, by omega⟩ | exact ⟨2, by omega, by omega⟩
      · simp [triKeyOf, List.replicate_succ', List.append_assoc]
    | zero =>
      cases j with
      | succ j =>
        refine ⟨triKeyOf (i, j, 0), ih i j 0 (by omega), 1, ?_, ?_⟩
        · rw [keyOf_getLastD, List.mem_range']
          split_ifs <;> first | omega | exact ⟨0, by omega, by omega⟩ | exact ⟨1, by omega, by omega⟩ | exact ⟨2, by omega, by omega⟩
        · simp [triKeyOf, List.replicate_succ', List.append_assoc]
      | zero =>
        cases i with
        | succ i =>
          refine ⟨triKeyOf (i, 0, 0), ih i 0 0 (by omega), 0, ?_, ?_⟩
          · rw [keyOf_getLastD, List.mem_range']
            split_ifs <;> first | omega | exact ⟨0, by omega, by omega⟩ | exact ⟨1, by omega, by omega⟩ | exact ⟨2, by omega, by omega⟩
          · simp [triKeyOf, List.replicate_succ']
        | zero => omega

theorem lookup_dictOf (wa wb wc : Bary K) (d : ℕ) (row : List K) (keys : List (List ℕ)) (key : List ℕ)
    (h : key ∈ keys) :
    (dictOf wa wb wc d row keys).lookup key = some (keyVal wa wb wc d row key) := by
  unfold dictOf
  induction keys with
  | nil => simp at h
  | cons k0 ks ih =>
    simp only [List.map_cons, List.lookup_cons]
    by_cases hk : key = k0
    · subst hk; simp
    · have : (key == k0) = false := by simpa using hk
      rw [this]
      exact ih (by simpa [hk] using h)

theorem mapE_ok {α β : Type} (f : α → Except Err β) (g : α → β) : ∀ (l : List α),
    (∀ x ∈ l, f x = .ok (g x)) → triMapE f l = .ok (l.map g) := by
  intro l
  induction l with
  | nil => intro _; rfl
  | cons a rest ih =>
    intro h
    simp only [triMapE, h a (by simp), ih (fun x hx => h x (by simp [hx])), List.map_cons]

theorem keyOf_map_pick (wa wb wc : Bary K) (t : ℕ × ℕ × ℕ) :
    (triKeyOf t).map (pickW wa wb wc) = blossomKey wa wb wc t := by
  unfold triKeyOf blossomKey
  simp [pickW]

/-- **the Python dictionary algorithm returns what the Fortran workspace algorithm returns** -/
theorem Py_specializeRow_eq_F90 (d : ℕ) (hd : 1 ≤ d) (wa wb wc : Bary K) (row : List K)
    (hrow : row.length = rowStart d (d+1)) :
    Py.triSpecializeRow d row wa wb wc = .ok (F90.triSpecializeRow d row wa wb wc) := by
  unfold Py.triSpecializeRow
  simp only
  have h0 : ([([0], dcRound3 d wa row), ([1], dcRound3 d wb row), ([2], dcRound3 d wc row)] : TriDict K)
      = dictOf wa wb wc d row (ascKeys 0) := by
    simp [dictOf, ascKeys, keyVal, applyRounds, pickW]
  rw [h0, Py_specializeLoop_dict wa wb wc d row hrow (d - 1) 0 (by omega)]
  rw [F90_specializeRow_eq d wa wb wc row hrow]
  unfold Py.reducedToMatrix
  apply mapE_ok
  intro t ht
  have hsum := tripleOrder_sum d t ht
  have hmem : triKeyOf t ∈ ascKeys (0 + (d - 1)) := by
    obtain ⟨i, j, k⟩ := t
    exact keyOf_mem_ascKeys _ i j k (by simp only at hsum; omega)
  simp only [lookup_dictOf wa wb wc d row _ _ hmem]
  unfold keyVal blossomNet
  rw [keyOf_map_pick]

/-! ### the whole specialisation is linear in the control net: tables act like the generic path -/

theorem seq_applyRounds_lin (N : ℕ) (a : ℕ → K) : ∀ (ws : List (Bary K)) (d : ℕ) (row : List K)
    (u : ℕ → List K), (∀ i, seq row i = ∑ r ∈ range N, a r * seq (u r) i) →
    ∀ c, seq (applyRounds ws d row) c = ∑ r ∈ range N, a r * seq (applyRounds ws d (u r)) c := by
  intro ws
  induction ws with
  | nil => intro d row u h c; simpa [applyRounds] using h c
  | cons w ws ih =>
    intro d row u h c
    simp only [applyRounds]
    apply ih (d - 1) (dcRound3 d w row) (fun r => dcRound3 d w (u r))
    intro i
    unfold dcRound3
    have hv : seq row = fun i => ∑ r ∈ range N, a r * seq (u r) i := funext h
    rw [hv, seq_dcOuter3_lin]

theorem seq_F90_specializeRow_lin (d : ℕ) (wa wb wc : Bary K) (row : List K)
    (hrow : row.length = rowStart d (d+1)) (c : ℕ) (hc : c < rowStart d (d+1)) :
    seq (F90.triSpecializeRow d row wa wb wc) c
      = ∑ r ∈ range (rowStart d (d+1)),
          seq row r * seq (F90.triSpecializeRow d (unitVec (rowStart d (d+1)) r) wa wb wc) c := by
  have hunit : ∀ r, (unitVec (K := K) (rowStart d (d+1)) r).length = rowStart d (d+1) := by
    intro r; simp [unitVec]
  rw [F90_specializeRow_eq d wa wb wc row hrow]
  have hl : ∀ (x : List K), seq ((tripleOrder d).map (fun t => (blossomNet wa wb wc d x t).headD 0)) c
      = seq (blossomNet wa wb wc d x ((tripleOrder d).getD c (0, 0, 0))) 0 := by
    intro x
    unfold seq
    rw [getD_map_lt _ _ _ (by rw [tripleOrder_length]; exact hc) (0 : K) (0, 0, 0), headD_eq_seq]
    rfl
  rw [hl]
  unfold blossomNet
  rw [seq_applyRounds_lin (rowStart d (d+1)) (seq row) _ d row (fun r => unitVec (rowStart d (d+1)) r)
    (fun i => by rw [← hrow]; exact seq_eq_sum_unit row i)]
  apply Finset.sum_congr rfl
  intro r _
  rw [F90_specializeRow_eq d wa wb wc _ (hunit r), hl]
  rfl

/-- multiplying by the operator matrix derived from the unit nets is the generic path -/
theorem rowMul_triSubdivMat (W : SubWeights K) (d : ℕ) (row : List K) (hrow : row.length = numNodes d)
    (qt : Quarter) :
    rowMul row (triSubdivMat W d qt) = F90.triSubdivideGenericRow W d row qt := by
  have hrow' : row.length = rowStart d (d+1) := by rw [hrow, numNodes_eq_rowStart]
  have hN : 1 ≤ numNodes d := by rw [numNodes_eq_rowStart, rowStart_succ]; omega
  have hunit : ∀ r, (unitVec (K := K) (numNodes d) r).length = rowStart d (d+1) := by
    intro r; simp [unitVec, numNodes_eq_rowStart]
  have hncols : ncols (triSubdivMat W d qt) = numNodes d := by
    unfold ncols triSubdivMat identity F90.triSubdivideGenericRow
    obtain ⟨n, hn⟩ : ∃ n, numNodes d = n + 1 := ⟨numNodes d - 1, by omega⟩
    rw [hn, List.range_succ_eq_map]
    simp only [List.map_cons, List.headD_cons]
    rw [F90_specializeRow_length d _ _ _ _ (by rw [← hn]; exact hunit 0)]
    simp [unitVec]
  apply list_ext_seq
  · unfold rowMul F90.triSubdivideGenericRow
    rw [List.length_map, List.length_range, hncols, F90_specializeRow_length d _ _ _ row hrow', hrow]
  · intro c hc
    have hc' : c < numNodes d := by
      unfold rowMul at hc
      rw [List.length_map, List.length_range, hncols] at hc
      exact hc
    have hl : seq (rowMul row (triSubdivMat W d qt)) c = dot row (col (triSubdivMat W d qt) c) := by
      unfold rowMul seq
      rw [List.getD_eq_getElem?_getD, List.getElem?_map, hncols, List.getElem?_range hc']
      rfl
    have hcol : col (triSubdivMat W d qt) c
        = (List.range (numNodes d)).map (fun r => seq (F90.triSubdivideGenericRow W d (unitVec (numNodes d) r) qt) c) := by
      unfold col triSubdivMat identity
      rw [List.map_map, List.map_map]; rfl
    rw [hl, hcol, Subdivide.dot_map_range row (numNodes d) _ hrow]
    unfold F90.triSubdivideGenericRow
    rw [seq_F90_specializeRow_lin d _ _ _ row hrow' c (by rw [← numNodes_eq_rowStart]; exact hc'),
      ← numNodes_eq_rowStart]

end Field

end BezierVerif.Tri
