import BezierVerif.Model.Triangle
import BezierVerif.Lemmas.TriSpecializePy
import Mathlib.Algebra.Field.Rat
import Mathlib.Data.Rat.Cast.CharZero

/-!
# Lemmas/TriSubdivHom — the generic triangle specialisation / subdivision path of the model commutes
# with ring homomorphisms

The model routines are built from `+`, `*`, `/`, `0`, `1` only, so running them on the image of a
net under a ring homomorphism `φ` between fields gives the image of the result
(`dcRound3`, the Fortran workspaces `F90.triSpecializeRow`, `F90.triSubdivideGenericRow`).
Consequence used by `Lemmas/RoundingTriClosed`: the operator matrices `triSubdivMat subWeights d q`
over any field of characteristic 0 are the images of the rational ones, which the kernel evaluates
(`triSubdivMat_ratCast`).
-/

set_option linter.unusedSectionVars false
set_option linter.unusedVariables false

namespace BezierVerif.TriHom

open Model

variable {A B : Type} [Field A] [Field B] (φ : A →+* B)

/-- image of a weight triple -/
def mapB (w : Bary A) : Bary B := ⟨φ w.l1, φ w.l2, φ w.l3⟩

theorem seq_map (l : List A) (i : ℕ) : seq (l.map φ) i = φ (seq l i) := by
  unfold seq
  rw [List.getD_eq_getElem?_getD, List.getD_eq_getElem?_getD, List.getElem?_map]
  cases l[i]? <;> simp

theorem dcInner3_map (w : Bary A) (v : ℕ → A) : ∀ cnt p1 p2 p3,
    dcInner3 (mapB φ w) (fun i => φ (v i)) cnt p1 p2 p3 = (dcInner3 w v cnt p1 p2 p3).map φ
  | 0, _, _, _ => rfl
  | cnt+1, p1, p2, p3 => by
    simp only [dcInner3, List.map_cons, map_add, map_mul, mapB]
    rw [← dcInner3_map w v cnt]
    rfl

theorem dcOuter3_map (w : Bary A) (v : ℕ → A) (degree : ℕ) : ∀ fuel k p1 p2 p3,
    dcOuter3 (mapB φ w) (fun i => φ (v i)) degree fuel k p1 p2 p3
      = (dcOuter3 w v degree fuel k p1 p2 p3).map φ
  | 0, _, _, _, _ => rfl
  | fuel+1, k, p1, p2, p3 => by
    simp only [dcOuter3, List.map_append]
    rw [dcInner3_map, dcOuter3_map w v degree fuel]

theorem dcRound3_map (degree : ℕ) (w : Bary A) (row : List A) :
    dcRound3 degree (mapB φ w) (row.map φ) = (dcRound3 degree w row).map φ := by
  unfold dcRound3
  have : seq (row.map φ) = fun i => φ (seq row i) := funext (seq_map φ row)
  rw [this]
  exact dcOuter3_map φ w (seq row) degree degree 0 0 1 (degree + 1)

theorem roundsFrom_map (ld sz : ℕ) (w : Bary A) (read : List A) : ∀ cnt ri,
    F90.roundsFrom ld sz (mapB φ w) (read.map φ) cnt ri = (F90.roundsFrom ld sz w read cnt ri).map φ
  | 0, _ => rfl
  | cnt+1, ri => by
    simp only [F90.roundsFrom, List.map_append]
    rw [roundsFrom_map ld sz w read cnt, ← dcRound3_map, List.map_take, List.map_drop]

theorem oneRound_map (sz step ld : ℕ) (wa wb wc : Bary A) (read : List A) :
    F90.triSpecializeOneRound sz step ld (mapB φ wa) (mapB φ wb) (mapB φ wc) (read.map φ)
      = (F90.triSpecializeOneRound sz step ld wa wb wc read).map φ := by
  unfold F90.triSpecializeOneRound
  rw [List.map_append, List.map_append, roundsFrom_map, roundsFrom_map, ← dcRound3_map, List.map_take]

/-- image of the loop state: the workspace is mapped, the bookkeeping is unchanged -/
def mapSt (st : F90.SpecState A) : F90.SpecState B :=
  { work := st.work.map φ, size := st.size, deltaSize := st.deltaSize, numCurves := st.numCurves,
    deltaNc := st.deltaNc, isEven := st.isEven, usedOdd := st.usedOdd, usedEven := st.usedEven }

theorem stepState_map (degree : ℕ) (wa wb wc : Bary A) (st : F90.SpecState A) (step : ℕ) :
    F90.triSpecializeStepState degree (mapB φ wa) (mapB φ wb) (mapB φ wc) (mapSt φ st) step
      = mapSt φ (F90.triSpecializeStepState degree wa wb wc st step) := by
  unfold F90.triSpecializeStepState mapSt
  simp only [oneRound_map, List.length_map]

theorem loop_map (degree : ℕ) (wa wb wc : Bary A) (row : List A) : ∀ s,
    F90.triSpecializeLoop degree (mapB φ wa) (mapB φ wb) (mapB φ wc) (row.map φ) s
      = mapSt φ (F90.triSpecializeLoop degree wa wb wc row s)
  | 0 => rfl
  | s+1 => by
    show F90.triSpecializeStepState degree _ _ _ (F90.triSpecializeLoop degree _ _ _ _ s) (s + 1) = _
    rw [loop_map degree wa wb wc row s, stepState_map]
    rfl

/-- **`specialize_triangle` (Fortran workspaces) commutes with ring homomorphisms** -/
theorem specializeRow_map (degree : ℕ) (row : List A) (wa wb wc : Bary A) :
    F90.triSpecializeRow degree (row.map φ) (mapB φ wa) (mapB φ wb) (mapB φ wc)
      = (F90.triSpecializeRow degree row wa wb wc).map φ := by
  unfold F90.triSpecializeRow
  rw [loop_map, List.length_map, List.map_take]
  rfl

theorem quarterWeights_map (qt : Quarter) :
    quarterWeights (subWeights (K := B)) qt
      = (mapB φ (quarterWeights (subWeights (K := A)) qt).1,
         mapB φ (quarterWeights (subWeights (K := A)) qt).2.1,
         mapB φ (quarterWeights (subWeights (K := A)) qt).2.2) := by
  cases qt <;>
    simp [quarterWeights, subWeights, mapB, map_add, map_one, map_zero]

/-- the generic branch of `subdivide_nodes` commutes with ring homomorphisms -/
theorem genericRow_map (d : ℕ) (row : List A) (qt : Quarter) :
    F90.triSubdivideGenericRow (subWeights (K := B)) d (row.map φ) qt
      = (F90.triSubdivideGenericRow (subWeights (K := A)) d row qt).map φ := by
  unfold F90.triSubdivideGenericRow
  simp only
  rw [quarterWeights_map φ qt]
  exact specializeRow_map φ d row _ _ _

theorem unitVec_map (n i : ℕ) : (unitVec (K := A) n i).map φ = unitVec n i := by
  unfold unitVec
  rw [List.map_map]
  apply List.map_congr_left
  intro t _
  simp only [Function.comp]
  split <;> simp

/-- the operator matrices over `B` are the images of those over `A` -/
theorem triSubdivMat_map (d : ℕ) (qt : Quarter) :
    triSubdivMat (subWeights (K := B)) d qt
      = (triSubdivMat (subWeights (K := A)) d qt).map (List.map φ) := by
  unfold triSubdivMat identity
  rw [List.map_map, List.map_map, List.map_map]
  apply List.map_congr_left
  intro i _
  simp only [Function.comp]
  rw [← genericRow_map φ, unitVec_map]

/-- over a field of characteristic 0 the operator matrices are the casts of the rational ones -/
theorem triSubdivMat_ratCast {K : Type} [Field K] [CharZero K] (d : ℕ) (qt : Quarter) :
    triSubdivMat (subWeights (K := K)) d qt
      = (triSubdivMat (subWeights (K := ℚ)) d qt).map (List.map (fun q : ℚ => (q : K))) := by
  have := triSubdivMat_map (Rat.castHom K) d qt
  simpa using this

end BezierVerif.TriHom
