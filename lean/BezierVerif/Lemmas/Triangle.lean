import BezierVerif.Model.Triangle
import BezierVerif.Lemmas.Shift
import BezierVerif.Lemmas.Shift2
import BezierVerif.Lemmas.Bridge
import BezierVerif.Lemmas.VS
import BezierVerif.Lemmas.Subdivide
import BezierVerif.Lemmas.Ieee
import Mathlib.Algebra.BigOperators.Intervals
import Mathlib.Tactic.FieldSimp
import Mathlib.Tactic.NormNum
import Mathlib.Algebra.CharZero.Defs
import Mathlib.Data.Nat.Cast.Field

/-!
# Lemmas/Triangle — the flat triangle model is the two-shift calculus

Index invariants of the running variables (`parent_i1/2/3`, `index`, `new_index`, `curr2`,
`curr3`), the bridge `dcRound3 = T3` on the net read off a flat row, and the loop invariant of
`evaluate_barycentric`.
-/

set_option linter.unusedSectionVars false
set_option linter.unusedVariables false

namespace BezierVerif.Tri

open Finset Model

/-- `evaluate_multi_barycentric` is the Bernstein sum on either side of the switch (the statement
    of `C01.dispatch_seamless`; property files are not imported by lemma files) -/
theorem C01aux.dispatch {K : Type} [Field K] [CharZero K] (thr : ℕ) (row : List K)
    (h : 2 ≤ row.length) (a b : K) :
    evalBary thr row a b = bern (row.length - 1) a b (seq row) := by
  unfold evalBary
  split
  · exact evalDC_eq_bern a b _ row (by omega)
  · rw [evalVS_eq_bern (row.length - 1) (by omega)]; rfl

/-! ### flat index arithmetic -/

theorem rowStart_succ (d k : ℕ) : rowStart d (k+1) = rowStart d k + (d + 1 - k) := rfl

theorem rowStart_closed (d : ℕ) : ∀ k, k ≤ d + 1 → 2 * rowStart d k + k * k = 2 * k * d + 3 * k := by
  intro k
  induction k with
  | zero => intro _; simp [rowStart]
  | succ k ih =>
    intro hk
    have h := ih (by omega)
    rw [rowStart_succ]
    obtain ⟨c, hc⟩ : ∃ c, d + 1 = k + c := ⟨d + 1 - k, by omega⟩
    have e : d + 1 - k = c := by omega
    rw [e]
    have hd : d = k + c - 1 := by omega
    nlinarith [h, hc]

theorem numNodes_eq_rowStart (d : ℕ) : numNodes d = rowStart d (d+1) := by
  have h := rowStart_closed d (d+1) le_rfl
  unfold numNodes
  have : (d + 1) * (d + 2) = 2 * rowStart d (d+1) := by nlinarith [h]
  rw [this]; simp

theorem rowStart_mono (d : ℕ) : ∀ k m, k ≤ m → rowStart d k ≤ rowStart d m := by
  intro k m h
  induction m with
  | zero => simp_all
  | succ m ih =>
    rcases Nat.lt_or_ge k (m+1) with h1 | h1
    · have := ih (by omega); rw [rowStart_succ]; omega
    · have : k = m + 1 := by omega
      subst this; exact le_rfl

/-- row `k` (with its `d + 1 - k` nodes) lies inside the net -/
theorem rowStart_add_le (d k : ℕ) (hk : k ≤ d) : rowStart d k + (d + 1 - k) ≤ rowStart d (d+1) := by
  rw [← rowStart_succ]; exact rowStart_mono d _ _ (by omega)

/-! ### slices and the net of a flat row -/

section Field
variable {K : Type} [Field K]

/-- the net read off a flat row: `w j k = row[rowStart d k + j]` -/
def netOf (d : ℕ) (row : List K) : Net K := fun j k => seq row (rowStart d k + j)

theorem slice_length (row : List K) (f l : ℕ) (h : l + 1 ≤ row.length) :
    (triSlice row f l).length = l + 1 - f := by
  unfold triSlice; simp; omega

theorem seq_slice (row : List K) (f l j : ℕ) (hj : j < l + 1 - f) :
    seq (triSlice row f l) j = seq row (f + j) := by
  unfold triSlice seq
  rw [List.getD_eq_getElem?_getD, List.getD_eq_getElem?_getD, List.getElem?_take, if_pos hj,
    List.getElem?_drop]

theorem bern_congr' (n : ℕ) (a b : K) (u w : ℕ → K) (h : ∀ j, j ≤ n → u j = w j) :
    bern n a b u = bern n a b w := Subdivide.bern_congr n a b u w h

end Field

/-! ### `compute_edge_nodes`: the running indices address the three sides -/

section Edges
variable {K : Type} [Add K] [Sub K] [Mul K] [Div K] [Neg K] [OfNat K 0] [OfNat K 1] [NatCast K]

theorem edgeLoop_length (v : ℕ → K) (n d : ℕ) : ∀ fuel i c2 b,
    (edgeLoop v n d fuel i c2 b).1.length = fuel ∧ (edgeLoop v n d fuel i c2 b).2.1.length = fuel ∧
    (edgeLoop v n d fuel i c2 b).2.2.length = fuel := by
  intro fuel
  induction fuel with
  | zero => intro i c2 b; simp [edgeLoop]
  | succ fuel ih =>
    intro i c2 b
    obtain ⟨h1, h2, h3⟩ := ih (i+1) (c2 + (d - i)) (b + (i + 2))
    simp [edgeLoop, h1, h2, h3]

/-- invariant of the loop: `curr2` is the last node of row `i`, `curr3` the first node of row
    `d - i` -/
theorem edgeLoop_spec (v : ℕ → K) (n d : ℕ) (hn : n = rowStart d (d+1)) : ∀ fuel i c2 b,
    i + fuel = d + 1 → c2 = rowStart d i + (d - i) → b + rowStart d (d - i) = n →
    ∀ m, m < fuel →
      seq (edgeLoop v n d fuel i c2 b).1 m = v (i + m) ∧
      seq (edgeLoop v n d fuel i c2 b).2.1 m = v (rowStart d (i + m) + (d - (i + m))) ∧
      seq (edgeLoop v n d fuel i c2 b).2.2 m = v (rowStart d (d - (i + m))) := by
  intro fuel
  induction fuel with
  | zero => intro i c2 b _ _ _ m hm; omega
  | succ fuel ih =>
    intro i c2 b hf hc hb m hm
    cases m with
    | zero =>
      have : n - b = rowStart d (d - i) := by omega
      simp [edgeLoop, seq, hc, this]
    | succ m =>
      have hi : i + 1 ≤ d := by omega
      have r1 : rowStart d (i+1) = rowStart d i + (d + 1 - i) := rfl
      have e : d - i = (d - (i+1)) + 1 := by omega
      have r2 : rowStart d (d - i) = rowStart d (d - (i+1)) + (d + 1 - (d - (i+1))) := by
        rw [e]; rfl
      have := ih (i+1) (c2 + (d - i)) (b + (i + 2)) (by omega) (by rw [hc, r1]; omega)
        (by rw [r2] at hb; omega) m (by omega)
      have a : i + 1 + m = i + (m + 1) := by omega
      rw [a] at this
      simpa [edgeLoop, seq] using this

theorem computeEdgeNodesRow_spec (d : ℕ) (row : List K) (hlen : row.length = rowStart d (d+1))
    (m : ℕ) (hm : m ≤ d) :
    seq (computeEdgeNodesRow d row).1 m = seq row m ∧
    seq (computeEdgeNodesRow d row).2.1 m = seq row (rowStart d m + (d - m)) ∧
    seq (computeEdgeNodesRow d row).2.2 m = seq row (rowStart d (d - m)) := by
  have r : rowStart d (d+1) = rowStart d d + (d + 1 - d) := rfl
  have := edgeLoop_spec (seq row) row.length d hlen (d+1) 0 d 1 (by omega) (by simp [rowStart])
    (by rw [hlen, r]; simp; omega) m (by omega)
  simpa [computeEdgeNodesRow] using this

theorem computeEdgeNodesRow_length (d : ℕ) (row : List K) :
    (computeEdgeNodesRow d row).1.length = d + 1 ∧ (computeEdgeNodesRow d row).2.1.length = d + 1 ∧
    (computeEdgeNodesRow d row).2.2.length = d + 1 :=
  edgeLoop_length (seq row) row.length d (d+1) 0 d 1

end Edges

/-! ### loop invariant of `evaluate_barycentric` -/

section CharZero
variable {K : Type} [Field K] [CharZero K]

/-- value of the curve routine on the triSlice holding row `k` of the net -/
theorem evalBary_slice (thr d k : ℕ) (row : List K) (l1 l2 : K) (hk : k < d)
    (hlen : row.length = rowStart d (d+1)) :
    evalBary thr (triSlice row (rowStart d k) (rowStart d k + (d - k))) l1 l2
      = bern (d - k) l1 l2 (fun j => seq row (rowStart d k + j)) := by
  have hin := rowStart_add_le d k (by omega)
  have hl : (triSlice row (rowStart d k) (rowStart d k + (d - k))).length = d - k + 1 := by
    rw [slice_length _ _ _ (by omega)]; omega
  have h := C01aux.dispatch thr (triSlice row (rowStart d k) (rowStart d k + (d - k))) (by omega) l1 l2
  rw [h, hl]
  simp only [Nat.add_sub_cancel]
  apply bern_congr'
  intro j hj
  exact seq_slice row _ _ j (by omega)

theorem choose_step (d k : ℕ) (hk : k < d) :
    ((d.choose (k+1) : K) * ((k + 1 : ℕ) : K)) / ((d - k : ℕ) : K) = (d.choose k : K) := by
  have h1 : d.choose (k+1) * (k+1) = d.choose k * (d - k) := Nat.choose_succ_right_eq d k
  have hne : ((d - k : ℕ) : K) ≠ 0 := Nat.cast_ne_zero.mpr (by omega)
  rw [div_eq_iff hne]
  exact_mod_cast h1

/-- one iteration of the Python row loop -/
theorem Py_triStep_spec (thr d k : ℕ) (row : List K) (w : Bary K) (st : TriState K K) (hk : k < d)
    (hlen : row.length = rowStart d (d+1))
    (hi : st.index = rowStart d (k+1)) (hb : st.binom = (d.choose (k+1) : K)) :
    (Py.triStep thr d row w st k).index = rowStart d k ∧
    (Py.triStep thr d row w st k).binom = (d.choose k : K) ∧
    (Py.triStep thr d row w st k).result
      = st.result * w.l3 + (d.choose k : K) * bern (d - k) w.l1 w.l2 (fun j => seq row (rowStart d k + j)) := by
  have hrs : rowStart d (k+1) = rowStart d k + (d + 1 - k) := rfl
  have e1 : st.index - 1 + k - d = rowStart d k := by rw [hi, hrs]; omega
  have e2 : st.index - 1 = rowStart d k + (d - k) := by rw [hi, hrs]; omega
  refine ⟨?_, ?_, ?_⟩
  · simp only [Py.triStep]; exact e1
  · simp only [Py.triStep]; rw [hb]; exact choose_step d k hk
  · simp only [Py.triStep]
    rw [e1, e2, hb, choose_step d k hk, evalBary_slice thr d k row w.l1 w.l2 hk hlen]

/-- the row of the net as a sequence -/
def netRow (d : ℕ) (row : List K) (k : ℕ) : ℕ → K := fun j => seq row (rowStart d k + j)

/-- invariant of the Python row loop: Horner scheme in `λ₃` over the rows, top to bottom -/
theorem Py_triLoop_inv (thr d : ℕ) (row : List K) (w : Bary K) (hlen : row.length = rowStart d (d+1)) :
    ∀ t, t ≤ d →
      (Py.triLoop thr d row w t).index = rowStart d (d - t) ∧
      (Py.triLoop thr d row w t).binom = (d.choose (d - t) : K) ∧
      (Py.triLoop thr d row w t).result
        = ∑ m ∈ range (t+1), (d.choose (d - t + m) : K) * w.l3^m *
            bern (t - m) w.l1 w.l2 (netRow d row (d - t + m)) := by
  intro t
  induction t with
  | zero =>
    intro _
    have hrs : rowStart d (d+1) = rowStart d d + (d + 1 - d) := rfl
    refine ⟨?_, ?_, ?_⟩
    · simp only [Py.triLoop]; rw [hlen, hrs]; simp
    · simp [Py.triLoop]
    · simp only [Py.triLoop]
      have : row.length - 1 = rowStart d d := by rw [hlen, hrs]; omega
      rw [this]
      simp [bern, netRow]
  | succ t ih =>
    intro ht
    obtain ⟨hi, hb, hr⟩ := ih (by omega)
    have hk : d - 1 - t < d := by omega
    have e : d - t = (d - 1 - t) + 1 := by omega
    have e' : d - (t + 1) = d - 1 - t := by omega
    rw [e] at hi hb
    obtain ⟨si, sb, sr⟩ := Py_triStep_spec thr d (d - 1 - t) row w (Py.triLoop thr d row w t) hk hlen hi hb
    simp only [Py.triLoop]
    rw [e']
    refine ⟨si, sb, ?_⟩
    rw [sr, hr, Finset.sum_range_succ' _ (t+1), Finset.sum_mul]
    congr 1
    · apply Finset.sum_congr rfl
      intro m hm
      have hm' := mem_range.mp hm
      have a1 : d - t + m = d - 1 - t + (m + 1) := by omega
      have a2 : t - m = t + 1 - (m + 1) := by omega
      rw [a1, a2, pow_succ]; ring
    · have a3 : d - (d - 1 - t) = t + 1 := by omega
      simp only [Nat.add_zero, pow_zero, mul_one, Nat.sub_zero]
      rw [a3]; rfl

/-- **`evaluate_barycentric` (Python) is the bivariate Bernstein sum**, every degree -/
theorem Py_evalBarycentricRow_eq (thr d : ℕ) (row : List K) (w : Bary K)
    (hlen : row.length = rowStart d (d+1)) :
    Py.evalBarycentricRow thr d row w = triBern d w.l1 w.l2 w.l3 (netOf d row) := by
  unfold Py.evalBarycentricRow
  obtain ⟨_, _, hr⟩ := Py_triLoop_inv thr d row w hlen d le_rfl
  rw [hr]
  unfold triBern bern
  apply Finset.sum_congr rfl
  intro k hk
  simp only [Nat.sub_self, Nat.zero_add]
  rw [Finset.mul_sum]
  apply Finset.sum_congr rfl
  intro j hj
  simp only [netRow, netOf]
  push_cast
  ring

/-! ### the three sides of the reference triangle -/

/-- `λ₃ = 0`: only the bottom row `k = 0` contributes -/
theorem triBern_l3_zero (d : ℕ) (l1 l2 : K) (w : Net K) :
    triBern d l1 l2 0 w = bern d l1 l2 (fun j => w j 0) := by
  unfold triBern bern
  rw [Finset.sum_range_succ']
  have hz : ∑ k ∈ range d, ∑ j ∈ range (d - (k+1) + 1),
      ((d.choose (k+1) * (d-(k+1)).choose j : ℕ) : K) * l1^(d-(k+1)-j) * l2^j * (0:K)^(k+1) * w j (k+1) = 0 := by
    apply Finset.sum_eq_zero; intro k _
    apply Finset.sum_eq_zero; intro j _
    simp
  rw [hz, zero_add]
  apply Finset.sum_congr rfl; intro j _
  simp

/-- `λ₁ = 0`: only the last node `j = d - k` of every row contributes -/
theorem triBern_l1_zero (d : ℕ) (l2 l3 : K) (w : Net K) :
    triBern d 0 l2 l3 w = bern d l2 l3 (fun k => w (d - k) k) := by
  unfold triBern bern
  apply Finset.sum_congr rfl; intro k hk
  have hk' := mem_range.mp hk
  rw [Finset.sum_eq_single (d - k)]
  · simp
  · intro j hj hne
    have hj' := mem_range.mp hj
    have : d - k - j ≠ 0 := by omega
    simp [this]
  · intro h; exact absurd (mem_range.mpr (by omega)) h

/-- `λ₂ = 0`: only the first node `j = 0` of every row contributes (rows read top to bottom) -/
theorem triBern_l2_zero (d : ℕ) (l1 l3 : K) (w : Net K) :
    triBern d l1 0 l3 w = bern d l3 l1 (fun m => w 0 (d - m)) := by
  unfold triBern bern
  rw [← Finset.sum_range_reflect]
  apply Finset.sum_congr rfl; intro m hm
  have hm' := mem_range.mp hm
  have e1 : d + 1 - 1 - m = d - m := by omega
  rw [e1, Finset.sum_range_succ']
  have hz : ∑ j ∈ range (d - (d - m)),
      ((d.choose (d-m) * (d-(d-m)).choose (j+1) : ℕ) : K) * l1^(d-(d-m)-(j+1)) * (0:K)^(j+1) * l3^(d-m) * w (j+1) (d-m) = 0 := by
    apply Finset.sum_eq_zero; intro j _; simp
  rw [hz, zero_add]
  have e2 : d - (d - m) = m := by omega
  rw [e2, Nat.choose_symm (by omega : m ≤ d)]
  simp only [Nat.choose_zero_right, Nat.mul_one, Nat.sub_zero, pow_zero, mul_one]
  ring

theorem evalBary_edge (thr d : ℕ) (e : List K) (he : e.length = d + 1) (hd : 1 ≤ d) (a b : K)
    (u : ℕ → K) (hu : ∀ m, m ≤ d → seq e m = u m) :
    evalBary thr e a b = bern d a b u := by
  rw [C01aux.dispatch thr e (by omega), he]
  simp only [Nat.add_sub_cancel]
  exact bern_congr' d a b _ _ hu

/-- first edge: the surface on `λ₃ = 0` is the curve through the bottom row -/
theorem Py_edge1 (thr d : ℕ) (row : List K) (hlen : row.length = rowStart d (d+1)) (hd : 1 ≤ d)
    (s : K) :
    Py.evalBarycentricRow thr d row ⟨1 - s, s, 0⟩ = evalBary thr (computeEdgeNodesRow d row).1 (1 - s) s := by
  rw [Py_evalBarycentricRow_eq thr d row _ hlen, triBern_l3_zero,
    evalBary_edge thr d _ (computeEdgeNodesRow_length d row).1 hd (1-s) s (fun j => netOf d row j 0)]
  intro m hm
  rw [(computeEdgeNodesRow_spec d row hlen m hm).1]
  simp [netOf, rowStart]

/-- second edge: the surface on `λ₁ = 0` -/
theorem Py_edge2 (thr d : ℕ) (row : List K) (hlen : row.length = rowStart d (d+1)) (hd : 1 ≤ d)
    (s : K) :
    Py.evalBarycentricRow thr d row ⟨0, 1 - s, s⟩ = evalBary thr (computeEdgeNodesRow d row).2.1 (1 - s) s := by
  rw [Py_evalBarycentricRow_eq thr d row _ hlen, triBern_l1_zero,
    evalBary_edge thr d _ (computeEdgeNodesRow_length d row).2.1 hd (1-s) s
      (fun k => netOf d row (d - k) k)]
  intro m hm
  rw [(computeEdgeNodesRow_spec d row hlen m hm).2.1]
  rfl

/-- third edge: the surface on `λ₂ = 0`, from the top corner back to the first node -/
theorem Py_edge3 (thr d : ℕ) (row : List K) (hlen : row.length = rowStart d (d+1)) (hd : 1 ≤ d)
    (s : K) :
    Py.evalBarycentricRow thr d row ⟨s, 0, 1 - s⟩ = evalBary thr (computeEdgeNodesRow d row).2.2 (1 - s) s := by
  rw [Py_evalBarycentricRow_eq thr d row _ hlen, triBern_l2_zero,
    evalBary_edge thr d _ (computeEdgeNodesRow_length d row).2.2 hd (1-s) s
      (fun m => netOf d row 0 (d - m))]
  intro m hm
  rw [(computeEdgeNodesRow_spec d row hlen m hm).2.2]
  simp [netOf]

/-! ### the Fortran variants -/

theorem intToK_natCast (n : ℕ) : intToK (K := K) ((n : ℕ) : ℤ) = (n : K) := by
  unfold intToK
  have : ¬ ((n : ℤ) < 0) := by omega
  rw [if_neg this]; simp

theorem F90_triLoop_binom (thr d : ℕ) (row : List K) (w : Bary K) : ∀ t,
    (F90.triLoop thr d row w t).binom = F90.binomAfter d t := by
  intro t
  induction t with
  | zero => rfl
  | succ t ih => simp only [F90.triLoop, F90.triStep, F90.binomAfter, ih]

/-- the Fortran loop with a `real(c_double)` binomial is the Python loop (the two statements
    differ by commutativity of one product and by `0 + x`) -/
theorem F90_triLoopReal_eq (thr d : ℕ) (row : List K) (w : Bary K) : ∀ t,
    (F90.triLoopReal thr d row w t).index = (Py.triLoop thr d row w t).index ∧
    (F90.triLoopReal thr d row w t).binom = (Py.triLoop thr d row w t).binom ∧
    (F90.triLoopReal thr d row w t).result = (Py.triLoop thr d row w t).result := by
  intro t
  induction t with
  | zero => simp [F90.triLoopReal, Py.triLoop]
  | succ t ih =>
    obtain ⟨hi, hb, hr⟩ := ih
    simp only [F90.triLoopReal, Py.triLoop, F90.triStepReal, Py.triStep, hi, hb, hr]
    refine ⟨by first | trivial | rfl, by first | trivial | rfl, ?_⟩
    ring

/-- as long as the 32-bit running binomial is the true binomial coefficient, the Fortran loop
    is the Python loop -/
theorem F90_triLoop_eq (thr d : ℕ) (row : List K) (w : Bary K) (hlen : row.length = rowStart d (d+1))
    (hex : ∀ t, t ≤ d → F90.binomAfter d t = ((d.choose (d - t) : ℕ) : ℤ)) : ∀ t, t ≤ d →
    (F90.triLoop thr d row w t).index = (Py.triLoop thr d row w t).index ∧
    (F90.triLoop thr d row w t).result = (Py.triLoop thr d row w t).result := by
  intro t
  induction t with
  | zero => intro _; simp [F90.triLoop, Py.triLoop]
  | succ t ih =>
    intro ht
    obtain ⟨hi, hr⟩ := ih (by omega)
    have hb := F90_triLoop_binom thr d row w (t+1)
    obtain ⟨_, pb, _⟩ := Py_triLoop_inv thr d row w hlen (t+1) ht
    have hb' : intToK (K := K) (F90.triLoop thr d row w (t+1)).binom = (Py.triLoop thr d row w (t+1)).binom := by
      rw [hb, hex (t+1) ht, intToK_natCast, pb]
    simp only [F90.triLoop, Py.triLoop, F90.triStep, Py.triStep] at hb' ⊢
    rw [hi, hr]
    refine ⟨by first | trivial | rfl, ?_⟩
    rw [hb']
    ring

end CharZero

/-! ### the 32-bit running binomial: exact up to degree 29, wrong from degree 30 -/

theorem binomAfter_exact_le_29_bool :
    (List.range 30).all (fun d => (List.range (d+1)).all (fun t =>
      F90.binomAfter d t == ((d.choose (d - t) : ℕ) : ℤ))) = true := by decide +kernel

theorem binomAfter_exact_le_29 (d : ℕ) (hd : d ≤ 29) (t : ℕ) (ht : t ≤ d) :
    F90.binomAfter d t = ((d.choose (d - t) : ℕ) : ℤ) := by
  have h := binomAfter_exact_le_29_bool
  rw [List.all_eq_true] at h
  have h1 := h d (List.mem_range.mpr (by omega))
  rw [List.all_eq_true] at h1
  have h2 := h1 t (List.mem_range.mpr (by omega))
  exact eq_of_beq h2

/-! ### corners in an arithmetic with only the laws binary64 really has -/

/-- small integers are exact: products below `2^53` of integer-valued numbers, and the exact
    quotients of such products.  Holds in IEEE-754 binary64 (the exact result is representable, so
    the correctly rounded result is exact) and in every field of characteristic 0. -/
class IeeeNatLaws (K : Type) [Mul K] [Div K] [NatCast K] [OfNat K 1] : Prop where
  natCast_one : ((1 : ℕ) : K) = 1
  natCast_mul_exact : ∀ a b : ℕ, a * b < 2 ^ 53 → ((a : ℕ) : K) * ((b : ℕ) : K) = ((a * b : ℕ) : K)
  natCast_div_exact : ∀ a b : ℕ, 0 < b → a * b < 2 ^ 53 → ((a * b : ℕ) : K) / ((b : ℕ) : K) = ((a : ℕ) : K)

section Corners
variable {K : Type} [Add K] [Mul K] [Sub K] [Div K] [Neg K] [OfNat K 0] [OfNat K 1] [NatCast K]

/-- the running binomial of the Python loop (independent of nodes and weights) -/
def pyBinomAfter (K : Type) [Mul K] [Div K] [NatCast K] [OfNat K 1] (d : ℕ) : ℕ → K
  | 0 => 1
  | t+1 => (pyBinomAfter K d t * ((d - 1 - t + 1 : ℕ) : K)) / ((d - (d - 1 - t) : ℕ) : K)

theorem Py_triLoop_binom (thr d : ℕ) (row : List K) (w : Bary K) : ∀ t,
    (Py.triLoop thr d row w t).binom = pyBinomAfter K d t := by
  intro t
  induction t with
  | zero => rfl
  | succ t ih => simp only [Py.triLoop, Py.triStep, pyBinomAfter, ih]

/-- the index invariant alone (no arithmetic on `K` involved) -/
theorem Py_triLoop_index (thr d : ℕ) (row : List K) (w : Bary K) (hlen : row.length = rowStart d (d+1)) :
    ∀ t, t ≤ d → (Py.triLoop thr d row w t).index = rowStart d (d - t) := by
  intro t
  induction t with
  | zero =>
    intro _
    have hrs : rowStart d (d+1) = rowStart d d + (d + 1 - d) := rfl
    simp only [Py.triLoop]; rw [hlen, hrs]; simp
  | succ t ih =>
    intro ht
    have hi := ih (by omega)
    have e : d - t = (d - 1 - t) + 1 := by omega
    have hrs : rowStart d (d - 1 - t + 1) = rowStart d (d - 1 - t) + (d + 1 - (d - 1 - t)) := rfl
    have e' : d - (t + 1) = d - 1 - t := by omega
    simp only [Py.triLoop, Py.triStep]
    rw [hi, e, hrs, e']; omega

theorem F90_triLoop_binom' (thr d : ℕ) (row : List K) (w : Bary K) : ∀ t,
    (F90.triLoop thr d row w t).binom = F90.binomAfter d t := by
  intro t
  induction t with
  | zero => rfl
  | succ t ih => simp only [F90.triLoop, F90.triStep, F90.binomAfter, ih]

theorem F90_triLoop_index (thr d : ℕ) (row : List K) (w : Bary K) (hlen : row.length = rowStart d (d+1)) :
    ∀ t, t ≤ d → (F90.triLoop thr d row w t).index = rowStart d (d - t) := by
  intro t
  induction t with
  | zero =>
    intro _
    have hrs : rowStart d (d+1) = rowStart d d + (d + 1 - d) := rfl
    simp only [F90.triLoop]; rw [hlen, hrs]; simp
  | succ t ih =>
    intro ht
    have hi := ih (by omega)
    have e : d - t = (d - 1 - t) + 1 := by omega
    have hrs : rowStart d (d - 1 - t + 1) = rowStart d (d - 1 - t) + (d + 1 - (d - 1 - t)) := rfl
    have e' : d - (t + 1) = d - 1 - t := by omega
    simp only [F90.triLoop, F90.triStep]
    rw [hi, e, hrs, e']; omega

variable [L : IeeeLaws K]

/-! curve routine at weights `(0,0)`, `(1,0)`, `(0,1)` -/

theorem vsLoop_zero_zero (n : ℕ) (v : ℕ → K) : ∀ i, (vsLoop n (0:K) 0 v i).result = 0 := by
  intro i
  cases i with
  | zero => simp [vsLoop, L.zero_mul]
  | succ i => simp [vsLoop, vsStep, L.mul_zero]

theorem evalVS_zero_zero (n : ℕ) (v : ℕ → K) : evalVS n (0:K) 0 v = 0 := by
  unfold evalVS
  simp only [vsLoop_zero_zero, L.zero_mul, L.add_zero]

theorem dcRound_zero_zero_mem : ∀ (l : List K) (x : K), x ∈ dcRound (0:K) 0 l → x = 0
  | [], x, h => by simp [dcRound] at h
  | [_], x, h => by simp [dcRound] at h
  | a :: b :: rest, x, h => by
    rw [dcRound, List.mem_cons] at h
    rcases h with h | h
    · rw [h, L.zero_mul, L.zero_mul, L.add_zero]
    · exact dcRound_zero_zero_mem (b :: rest) x h

theorem dcRound_length_ieee (a b : K) : ∀ l : List K, (dcRound a b l).length = l.length - 1
  | [] => rfl
  | [_] => rfl
  | x :: y :: rest => by
    simp only [dcRound, List.length_cons]
    rw [dcRound_length_ieee a b (y :: rest)]; simp

theorem evalDC_all_zero : ∀ (n : ℕ) (l : List K), l.length = n + 1 → (∀ x ∈ l, x = 0) →
    evalDC (0:K) 0 n l = 0 := by
  intro n
  induction n with
  | zero =>
    intro l hl hz
    match l, hl with
    | [x], _ => simpa [evalDC] using hz x (by simp)
  | succ n ih =>
    intro l hl hz
    rw [evalDC]
    exact ih _ (by rw [dcRound_length_ieee, hl]; rfl) (dcRound_zero_zero_mem l)

theorem evalDC_zero_zero (n : ℕ) (l : List K) (hl : l.length = n + 2) : evalDC (0:K) 0 (n+1) l = 0 := by
  rw [evalDC]
  exact evalDC_all_zero n _ (by rw [dcRound_length_ieee, hl]; rfl) (dcRound_zero_zero_mem l)

/-- the curve routine returns `0` at the weights `(0, 0)` (`1 ≤ thr`: a single node is never sent
    to the de Casteljau branch) -/
theorem evalBary_zero_zero (thr : ℕ) (hthr : 1 ≤ thr) (l : List K) : evalBary thr l (0:K) 0 = 0 := by
  unfold evalBary
  split
  · rename_i h
    obtain ⟨n, hn⟩ : ∃ n, l.length = n + 2 := ⟨l.length - 2, by omega⟩
    rw [hn]; exact evalDC_zero_zero n l hn
  · exact evalVS_zero_zero _ _

theorem evalBary_one_zero (thr : ℕ) (l : List K) (h : 1 ≤ l.length) : evalBary thr l (1:K) 0 = seq l 0 := by
  have hvs := evalVS_at_zero (L := L) (l.length - 1) (seq l)
  have hdc := evalDC_at_zero (L := L) (l.length - 1) l (by omega)
  rw [L.one_sub_zero] at hvs hdc
  unfold evalBary
  split
  · rw [hdc]; cases l <;> simp_all [seq]
  · exact hvs

theorem evalBary_zero_one (thr : ℕ) (l : List K) (h : 1 ≤ l.length) :
    evalBary thr l (0:K) 1 = seq l (l.length - 1) := by
  have hvs := evalVS_at_one (L := L) (l.length - 1) (seq l)
  have hdc := evalDC_at_one (L := L) (l.length - 1) l (by omega)
  rw [L.one_sub_one] at hvs hdc
  unfold evalBary
  split
  · rw [hdc]; rfl
  · exact hvs

/-- corner `λ = (0,0,1)`: every iteration keeps the accumulator (Python) -/
theorem Py_corner3_loop (thr d : ℕ) (hthr : 1 ≤ thr) (row : List K) : ∀ t,
    (Py.triLoop thr d row ⟨0, 0, 1⟩ t).result = seq row (row.length - 1) := by
  intro t
  induction t with
  | zero => simp [Py.triLoop, L.zero_add]
  | succ t ih =>
    simp only [Py.triLoop, Py.triStep]
    rw [ih, evalBary_zero_zero thr hthr, L.mul_zero, L.mul_one, L.add_zero]

theorem F90_corner3_loop (thr d : ℕ) (hthr : 1 ≤ thr) (row : List K) : ∀ t,
    (F90.triLoop thr d row ⟨0, 0, 1⟩ t).result = seq row (row.length - 1) := by
  intro t
  induction t with
  | zero => simp [F90.triLoop]
  | succ t ih =>
    simp only [F90.triLoop, F90.triStep]
    rw [ih, evalBary_zero_zero thr hthr, L.mul_zero, L.one_mul, L.add_zero]

/-- last iteration (`k = 0`) at a weight triple with `λ₃ = 0` (Python): the accumulator is
    discarded, the bottom row is evaluated with the final binomial -/
theorem Py_last_step (thr d : ℕ) (hd : 1 ≤ d) (row : List K) (hlen : row.length = rowStart d (d+1))
    (l1 l2 : K) :
    Py.evalBarycentricRow thr d row ⟨l1, l2, 0⟩
      = 0 + pyBinomAfter K d d * evalBary thr (triSlice row 0 d) l1 l2 := by
  unfold Py.evalBarycentricRow
  obtain ⟨t, ht⟩ : ∃ t, d = t + 1 := ⟨d - 1, by omega⟩
  have hb := Py_triLoop_binom thr d row ⟨l1, l2, 0⟩ d
  have hi := Py_triLoop_index thr d row ⟨l1, l2, 0⟩ hlen t (by omega)
  have hrs : rowStart d 1 = d + 1 := by simp [rowStart]
  have e1 : d - t = 1 := by omega
  rw [e1, hrs] at hi
  rw [← hb]
  subst ht
  simp only [Py.triLoop, Py.triStep, hi, L.mul_zero]
  simp

theorem F90_last_step (thr d : ℕ) (hd : 1 ≤ d) (row : List K) (hlen : row.length = rowStart d (d+1))
    (l1 l2 : K) :
    F90.evalBarycentricRow thr d row ⟨l1, l2, 0⟩
      = 0 + intToK (F90.binomAfter d d) * evalBary thr (triSlice row 0 d) l1 l2 := by
  unfold F90.evalBarycentricRow
  obtain ⟨t, ht⟩ : ∃ t, d = t + 1 := ⟨d - 1, by omega⟩
  have hb := F90_triLoop_binom' thr d row ⟨l1, l2, 0⟩ d
  have hi := F90_triLoop_index thr d row ⟨l1, l2, 0⟩ hlen t (by omega)
  have hrs : rowStart d 1 = d + 1 := by simp [rowStart]
  have e1 : d - t = 1 := by omega
  rw [e1, hrs] at hi
  rw [← hb]
  subst ht
  simp only [F90.triLoop, F90.triStep, hi, L.zero_mul]
  first | rfl | simp

theorem slice_bottom (d : ℕ) (row : List K) (hlen : row.length = rowStart d (d+1)) :
    (triSlice row 0 d).length = d + 1 ∧ seq (triSlice row 0 d) 0 = seq row 0 ∧
      seq (triSlice row 0 d) d = seq row d := by
  have h := rowStart_add_le d 0 (Nat.zero_le _)
  have h0 : rowStart d 0 = 0 := rfl
  rw [h0] at h
  refine ⟨?_, ?_, ?_⟩
  · unfold triSlice; simp; omega
  · unfold triSlice seq; simp
  · unfold triSlice seq
    rw [List.getD_eq_getElem?_getD, List.getD_eq_getElem?_getD, List.getElem?_take]
    simp

/-! the running binomial of the Python loop is exact while the products stay below `2^53` -/

/-- all products `C(d,k+1)·(k+1)` formed by the loop are below `2^53` -/
def triBinomsSmall (d : ℕ) : Bool := (List.range d).all (fun k => decide (d.choose (k+1) * (k+1) < 2 ^ 53))

theorem triBinomsSmall_le_51_bool : (List.range 52).all triBinomsSmall = true := by decide +kernel

theorem triBinomsSmall_52 : triBinomsSmall 52 = false := by decide +kernel

theorem triBinomsSmall_le_51 (d : ℕ) (hd : d ≤ 51) (k : ℕ) (hk : k < d) :
    d.choose (k+1) * (k+1) < 2 ^ 53 := by
  have h := triBinomsSmall_le_51_bool
  rw [List.all_eq_true] at h
  have h1 := h d (List.mem_range.mpr (by omega))
  unfold triBinomsSmall at h1
  rw [List.all_eq_true] at h1
  exact of_decide_eq_true (h1 k (List.mem_range.mpr hk))

theorem pyBinomAfter_exact [N : IeeeNatLaws K] (d : ℕ)
    (hsmall : ∀ k, k < d → d.choose (k+1) * (k+1) < 2 ^ 53) : ∀ t, t ≤ d →
    pyBinomAfter K d t = ((d.choose (d - t) : ℕ) : K) := by
  intro t
  induction t with
  | zero => intro _; simp [pyBinomAfter, N.natCast_one]
  | succ t ih =>
    intro ht
    have hk : d - 1 - t < d := by omega
    have e : d - t = (d - 1 - t) + 1 := by omega
    have e' : d - (t + 1) = d - 1 - t := by omega
    have hs := hsmall (d - 1 - t) hk
    have hid : d.choose (d - 1 - t + 1) * (d - 1 - t + 1) = d.choose (d - 1 - t) * (d - (d - 1 - t)) :=
      Nat.choose_succ_right_eq d (d - 1 - t)
    simp only [pyBinomAfter]
    rw [ih (by omega), e, N.natCast_mul_exact _ _ hs, hid, e',
      N.natCast_div_exact _ _ (by omega) (by rw [← hid]; exact hs)]

theorem pyBinomAfter_final [N : IeeeNatLaws K] (d : ℕ) (hd : d ≤ 51) : pyBinomAfter K d d = 1 := by
  rw [pyBinomAfter_exact d (triBinomsSmall_le_51 d hd) d le_rfl]
  simp [N.natCast_one]

end Corners

end BezierVerif.Tri
