import BezierVerif.Model.Curve
import BezierVerif.Lemmas.Shift
import Mathlib.Algebra.BigOperators.Intervals
import Mathlib.Tactic.FieldSimp
import Mathlib.Algebra.CharZero.Defs
import Mathlib.Data.Nat.Cast.Field

/-!
# Lemmas/VS — loop invariant of `evaluate_multi_vs`

After the iteration for `index = i` the running binomial is `C(n,i)` (characteristic 0), the
running power is `λ₂^i` and the accumulator is the partial Bernstein sum.
-/

namespace BezierVerif

open Finset Model

variable {K : Type} [Field K] [CharZero K]

theorem vsLoop_inv (n : ℕ) (l1 l2 : K) (v : ℕ → K) : ∀ i, i < n →
    (vsLoop n l1 l2 v i).binom = (n.choose i : K) ∧
    (vsLoop n l1 l2 v i).pow = l2^i ∧
    (vsLoop n l1 l2 v i).result = ∑ j ∈ range (i+1), (n.choose j : K) * l1^(i+1-j) * l2^j * v j := by
  intro i
  induction i with
  | zero => intro _; simp [vsLoop]
  | succ i ih =>
    intro hi
    obtain ⟨hb, hp, hr⟩ := ih (by omega)
    have hbin : (vsLoop n l1 l2 v (i+1)).binom = (n.choose (i+1) : K) := by
      simp only [vsLoop, vsStep, hb]
      have h1 : (n.choose (i+1)) * (i+1) = n.choose i * (n - i) := Nat.choose_succ_right_eq n i
      have hne : ((i+1 : ℕ) : K) ≠ 0 := Nat.cast_ne_zero.mpr (Nat.succ_ne_zero i)
      rw [div_eq_iff hne]
      have : n - (i+1) + 1 = n - i := by omega
      rw [this]
      exact_mod_cast h1.symm
    refine ⟨hbin, ?_, ?_⟩
    · simp [vsLoop, vsStep, hp, pow_succ]
    · have hpow : (vsLoop n l1 l2 v (i+1)).pow = l2^(i+1) := by simp [vsLoop, vsStep, hp, pow_succ]
      have hres : (vsLoop n l1 l2 v (i+1)).result =
          ((vsLoop n l1 l2 v i).result + (vsLoop n l1 l2 v (i+1)).binom * (vsLoop n l1 l2 v (i+1)).pow * v (i+1)) * l1 := by
        simp [vsLoop, vsStep]
      rw [hres, hbin, hpow, hr, Finset.sum_range_succ _ (i+1), add_mul, Finset.sum_mul]
      congr 1
      · apply Finset.sum_congr rfl
        intro j hj
        have : i + 1 + 1 - j = (i + 1 - j) + 1 := by have := mem_range.mp hj; omega
        rw [this, pow_succ]; ring
      · simp; ring

theorem evalVS_eq_bern (n : ℕ) (hn : 1 ≤ n) (l1 l2 : K) (v : ℕ → K) :
    evalVS n l1 l2 v = ∑ j ∈ range (n+1), (n.choose j : K) * l1^(n-j) * l2^j * v j := by
  unfold evalVS
  obtain ⟨_, hp, hr⟩ := vsLoop_inv n l1 l2 v (n-1) (by omega)
  simp only [hp, hr]
  have : n - 1 + 1 = n := by omega
  rw [this, Finset.sum_range_succ _ n]
  congr 1
  simp
  have : l2 * l2^(n-1) = l2^n := by rw [← pow_succ']; congr 1
  rw [this]; exact Or.inl rfl

end BezierVerif
